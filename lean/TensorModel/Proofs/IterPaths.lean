import TensorModel.Proofs.Kernels
/-!
  Helper lemmas: comparisons and unary operations on operands that need an iterator (views with gaps, pending
  transposes, operands of different data orders) - the paths `prepDataVV` / `prepDataUnary` take with `useIter`.
  Built on `kIter3VV_spec`, `kUnIter_spec`, `clone_spec` of `Proofs/Kernels.lean`.
-/
set_option linter.unusedSimpArgs false
namespace TM
open TM

/-- unfolding of the default-mode comparison when some operand needs an iterator or the data orders differ -/
theorem engCmpVV_iter_default (st : St) (op : String) (tc : List String) (a b : Dense) (hc : BinOK tc a b)
    (hu : (a.requiresIterator || b.requiresIterator || !sameOrd a b) = true)
    (hma : a.mask = none) (hmb : b.mask = none) :
    engCmpVV st op tc a b {} = (do
      let s ← eCmpIter (allocZero st (denseLen a.shape)) a.win b.win (freshOf st "b" a.shape a.ap.o.col).win
        (fun x y => .app2 op x y) (a.offsets.map (·, true)) (b.offsets.map (·, true))
        ((freshOf st "b" a.shape a.ap.o.col).offsets.map (·, true))
      pure ⟨s, none, .fresh (freshOf st "b" a.shape a.ap.o.col)⟩) := by
  have hmf : (freshOf st "b" a.shape a.ap.o.col).mask = none := rfl
  unfold engCmpVV
  simp only [hc.ta, hc.tb, hc.ne, hc.sh, hfo_none, prepAliasVV_none, hu, newDenseZero_eq,
    itStream_nomask _ _ hma, itStream_nomask _ _ hmb, itStream_nomask _ _ hmf, bind, Except.bind, pure,
    Except.pure, Bool.not_true, Bool.false_eq_true, if_false, Bool.or_false, Bool.and_false, Bool.not_false,
    Bool.and_true, if_true, Bool.false_and, Bool.true_and, Bool.or_self, Bool.false_or]

theorem eCmpIter_VV (st : St) (a b r : Win) (f : BinF) (ia ib ir : ItS) (ha : a.len ≠ 1) (hb : b.len ≠ 1) :
    eCmpIter st a b r f ia ib ir = kIter3VV st a b r f accSet ia ib ir := by
  unfold eCmpIter isSc
  simp [ha, hb]

/-- **Comparison on the iterator path, default mode**: operands that need an iterator (views, pending transposes) or
    have different data orders. The fresh bool tensor `r` of the first operand's shape and data order holds, at the
    `k`-th offset of its own iterator, `op a[k-th] b[k-th]` - the operands' `k`-th logical elements in operand order. -/
theorem engCmpVV_default_iter' (st : St) (op : String) (tc : List String) (a b : Dense) (hc : BinOK tc a b)
    (hu : (a.requiresIterator || b.requiresIterator || !sameOrd a b) = true)
    (hma : a.mask = none) (hmb : b.mask = none) (hla : a.win.len ≠ 1) (hlb : b.win.len ≠ 1)
    (hor : ∀ i ∈ (freshOf st "b" a.shape a.ap.o.col).offsets, 0 ≤ i ∧ i < (denseLen a.shape : Int))
    (hoa : ∀ i ∈ a.offsets, 0 ≤ i ∧ i < (a.win.len : Int)) (hob : ∀ j ∈ b.offsets, 0 ≤ j ∧ j < (b.win.len : Int))
    (hnd : (freshOf st "b" a.shape a.ap.o.col).offsets.Nodup)
    (hA : InBuf st a.win.buf a.win.off a.win.len) (hB : InBuf st b.win.buf b.win.off b.win.len) :
    ∃ st', engCmpVV st op tc a b {} = .ok ⟨st', none, .fresh (freshOf st "b" a.shape a.ap.o.col)⟩ ∧ st'.mheap = st.mheap ∧
      (∀ (k : Nat) m i j, (freshOf st "b" a.shape a.ap.o.col).offsets[k]? = some m → a.offsets[k]? = some i →
        b.offsets[k]? = some j →
        cell st' st.heap.size m.toNat =
          some (.app2 op (cellD st a.win.buf (a.win.off + i.toNat)) (cellD st b.win.buf (b.win.off + j.toNat)))) ∧
      (∀ b' k', b' < st.heap.size → cell st' b' k' = cell st b' k') := by
  rw [engCmpVV_iter_default st op tc a b hc hu hma hmb, eCmpIter_VV _ _ _ _ _ _ _ _ hla hlb]
  obtain ⟨s2, h2, hm2, _, hv2, hf2⟩ := kIter3VV_spec (allocZero st (denseLen a.shape)) a.win b.win
    (freshOf st "b" a.shape a.ap.o.col).win (fun x y => .app2 op x y) accSet
    (a.offsets.map (·, true)) (b.offsets.map (·, true)) ((freshOf st "b" a.shape a.ap.o.col).offsets.map (·, true))
    (by simp only [freshOf]; exact Nat.ne_of_lt hA.lt) (by simp only [freshOf]; exact Nat.ne_of_lt hB.lt)
    (inRange_map_true hoa) (inRange_map_true hob) (by simpa only [freshOf] using inRange_map_true hor)
    (by rw [map_true_fst]; exact hnd)
    (hA.has.allocZero hA.lt _) (hB.has.allocZero hB.lt _) (by simp only [freshOf]; exact allocZero_has st _)
  refine ⟨s2, by simp only [h2, bind, Except.bind]; rfl, hm2, ?_, ?_⟩
  · intro k m i j hm hi hj
    have := hv2 k i true j true m true (getElem?_map_true hi) (getElem?_map_true hj) (getElem?_map_true hm) rfl rfl rfl
    simp only [freshOf, Nat.zero_add, accSet] at this
    rw [this, allocZero_cellD_lt _ _ _ _ hA.lt, allocZero_cellD_lt _ _ _ _ hB.lt]
  · intro b' k' hb'
    rw [hf2 _ _ (Or.inl (by simp only [freshOf]; exact Nat.ne_of_lt hb')), allocZero_cell_lt _ _ _ _ hb']

theorem engUnary_iter_safe (st : St) (g : UnF) (tc kt : List String) (strict : Bool) (a : Dense)
    (hta : tc.contains a.dt = true) (hk : kt.contains a.dt = true) (hia : a.requiresIterator = true)
    (hma : a.mask = none) :
    engUnary st g tc kt strict a {} = (do
      let (s, c) ← a.clone st
      let s ← kUnIter s c.win g (a.offsets.map (·, true))
      pure ⟨s, none, .fresh c⟩) := by
  unfold engUnary
  simp only [hta, hk, hfo_none, prepAliasT_none, hia, itStream_nomask _ _ hma, bind, Except.bind, pure, Except.pure, Bool.not_true,
    Bool.false_eq_true, if_false, Bool.or_false, Bool.not_false, if_true, Bool.true_or]

theorem engUnary_iter_unsafe (st : St) (g : UnF) (tc kt : List String) (strict : Bool) (a : Dense)
    (hta : tc.contains a.dt = true) (hk : kt.contains a.dt = true) (hia : a.requiresIterator = true)
    (hma : a.mask = none) :
    engUnary st g tc kt strict a { unsafe_ := true } = (do
      let s ← kUnIter st a.win g (a.offsets.map (·, true))
      pure ⟨s, none, .a⟩) := by
  unfold engUnary
  simp only [hta, hk, hfo_none, prepAliasT_none, hia, itStream_nomask _ _ hma, bind, Except.bind, pure, Except.pure, Bool.not_true,
    Bool.false_eq_true, if_false, Bool.or_false, Bool.not_false, if_true, Bool.true_or]

/-- **Unary operation on an operand that needs an iterator, safe mode**: the result is a clone of the operand's storage
    window in which exactly the cells the operand's iterator visits - its logical elements - are replaced by `g` of
    their value; the cells of the window that are no elements of the operand (gaps of a view) keep their value; every
    existing buffer, the operand's included, is unchanged. -/
theorem engUnary_safe_iter' (st : St) (g : UnF) (tc kt : List String) (strict : Bool) (a : Dense)
    (hta : tc.contains a.dt = true) (hk : kt.contains a.dt = true) (hia : a.requiresIterator = true)
    (hma : a.mask = none)
    (hoa : ∀ i ∈ a.offsets, 0 ≤ i ∧ i < (a.win.len : Int)) (hnd : a.offsets.Nodup)
    (hA : InBuf st a.win.buf a.win.off a.win.len) :
    ∃ st', engUnary st g tc kt strict a {} = .ok ⟨st', none, .fresh (cloneOf st a)⟩ ∧ st'.mheap = st.mheap ∧
      (∀ i ∈ a.offsets, cell st' st.heap.size i.toNat = some (g (cellD st a.win.buf (a.win.off + i.toNat)))) ∧
      (∀ m, m < a.win.len → (∀ i ∈ a.offsets, m ≠ i.toNat) →
        cell st' st.heap.size m = some (cellD st a.win.buf (a.win.off + m))) ∧
      (∀ b' k, b' < st.heap.size → cell st' b' k = cell st b' k) := by
  rw [engUnary_iter_safe st g tc kt strict a hta hk hia hma]
  obtain ⟨s1, h1, hm1, hs1, hv1, hf1⟩ := clone_spec st a hma hA.lt hA.has
  simp only [h1, bind, Except.bind]
  have hHc : Has s1 st.heap.size 0 a.win.len := by
    intro i hi
    rw [Nat.zero_add, hv1 i hi]; rfl
  obtain ⟨s2, h2, hm2, _, hv2, hf2⟩ := kUnIter_spec s1 (cloneOf st a).win g (a.offsets.map (·, true))
    (by simpa only [cloneOf] using inRange_map_true hoa) (by rw [map_true_fst]; exact hnd)
    (by simpa only [cloneOf] using hHc)
  simp only [cloneOf] at h2 hv2 hf2 ⊢
  refine ⟨s2, by rw [h2]; rfl, hm2.trans hm1, ?_, ?_, ?_⟩
  · intro i hi
    have := hv2 i (List.mem_map.mpr ⟨i, hi, rfl⟩)
    simp only [Nat.zero_add] at this
    have hlt := hoa i hi
    rw [this, cellD_of_some (hv1 i.toNat (by omega))]
  · intro m hm hne
    rw [hf2 _ _ (Or.inr ?_), hv1 m hm]
    intro i hi
    rw [Nat.zero_add]
    obtain ⟨i', hi', he⟩ := List.mem_map.mp hi
    cases he
    exact hne _ hi'
  · intro b' k hb'
    rw [hf2 _ _ (Or.inl (Nat.ne_of_lt hb')), hf1 b' k hb']

/-- … and with `UseUnsafe()`: the operand's own logical elements are replaced, nothing else changes -/
theorem engUnary_unsafe_iter' (st : St) (g : UnF) (tc kt : List String) (strict : Bool) (a : Dense)
    (hta : tc.contains a.dt = true) (hk : kt.contains a.dt = true) (hia : a.requiresIterator = true)
    (hma : a.mask = none)
    (hoa : ∀ i ∈ a.offsets, 0 ≤ i ∧ i < (a.win.len : Int)) (hnd : a.offsets.Nodup)
    (hA : InBuf st a.win.buf a.win.off a.win.len) :
    ∃ st', engUnary st g tc kt strict a { unsafe_ := true } = .ok ⟨st', none, .a⟩ ∧ st'.mheap = st.mheap ∧
      (∀ i ∈ a.offsets, cell st' a.win.buf (a.win.off + i.toNat) = some (g (cellD st a.win.buf (a.win.off + i.toNat)))) ∧
      (∀ b' k', (b' ≠ a.win.buf ∨ ∀ i ∈ a.offsets, k' ≠ a.win.off + i.toNat) → cell st' b' k' = cell st b' k') := by
  rw [engUnary_iter_unsafe st g tc kt strict a hta hk hia hma]
  obtain ⟨s2, h2, hm2, _, hv2, hf2⟩ := kUnIter_spec st a.win g (a.offsets.map (·, true))
    (inRange_map_true hoa) (by rw [map_true_fst]; exact hnd) hA.has
  refine ⟨s2, by simp only [h2, bind, Except.bind]; rfl, hm2, ?_, ?_⟩
  · intro i hi
    exact hv2 i (List.mem_map.mpr ⟨i, hi, rfl⟩)
  · intro b' k' h
    apply hf2
    rcases h with h | h
    · exact Or.inl h
    · refine Or.inr ?_
      intro i hi
      obtain ⟨i', hi', he⟩ := List.mem_map.mp hi
      cases he
      exact h _ hi'

theorem engCmpVV_iter_same (st : St) (op : String) (tc : List String) (a b : Dense) (hc : BinOK tc a b)
    (hu : (a.requiresIterator || b.requiresIterator || !sameOrd a b) = true)
    (hma : a.mask = none) (hmb : b.mask = none) :
    engCmpVV st op tc a b { same := true } = (do
      let s ← Dense.copyIterOffsets (allocZero st (denseLen a.shape)) (freshOf st a.dt a.shape a.ap.o.col).win a.win
        (freshOf st a.dt a.shape a.ap.o.col).offsets a.offsets
      let s ← eOpIter s (freshOf st a.dt a.shape a.ap.o.col).win b.win (fun x y => .app2 (op ++ ".same") x y)
        ((freshOf st a.dt a.shape a.ap.o.col).offsets.map (·, true)) (b.offsets.map (·, true))
      pure ⟨s, none, .fresh (freshOf st a.dt a.shape a.ap.o.col)⟩) := by
  have hmf : (freshOf st a.dt a.shape a.ap.o.col).mask = none := rfl
  unfold engCmpVV
  simp only [hc.ta, hc.tb, hc.ne, hc.sh, hfo_none, prepAliasVV_none, hu, newDenseZero_eq,
    itStream_nomask _ _ hma, itStream_nomask _ _ hmb, itStream_nomask _ _ hmf, map_true_fst, bind, Except.bind, pure,
    Except.pure, Bool.not_true, Bool.false_eq_true, if_false, Bool.or_false, Bool.and_false, Bool.not_false,
    Bool.and_true, if_true, Bool.false_and, Bool.true_and, Bool.or_self, Bool.false_or, Bool.true_or]

/-- **`AsSameType()` on the iterator path**: the fresh tensor `r` of the operand's type, shape and data order holds, at
    the `k`-th offset of its own iterator, the 1/0 form `op.same a[k-th] b[k-th]` -/
theorem engCmpVV_same_iter' (st : St) (op : String) (tc : List String) (a b : Dense) (hc : BinOK tc a b)
    (hu : (a.requiresIterator || b.requiresIterator || !sameOrd a b) = true)
    (hma : a.mask = none) (hmb : b.mask = none) (hlb : b.win.len ≠ 1) (hl1 : denseLen a.shape ≠ 1)
    (hca : a.win.len ≤ a.win.cap)
    (hor : ∀ i ∈ (freshOf st a.dt a.shape a.ap.o.col).offsets, 0 ≤ i ∧ i < (denseLen a.shape : Int))
    (hoa : ∀ i ∈ a.offsets, 0 ≤ i ∧ i < (a.win.len : Int)) (hob : ∀ j ∈ b.offsets, 0 ≤ j ∧ j < (b.win.len : Int))
    (hnd : (freshOf st a.dt a.shape a.ap.o.col).offsets.Nodup)
    (hA : InBuf st a.win.buf a.win.off a.win.len) (hB : InBuf st b.win.buf b.win.off b.win.len) :
    ∃ st', engCmpVV st op tc a b { same := true } = .ok ⟨st', none, .fresh (freshOf st a.dt a.shape a.ap.o.col)⟩ ∧
      st'.mheap = st.mheap ∧
      (∀ (k : Nat) m i j, (freshOf st a.dt a.shape a.ap.o.col).offsets[k]? = some m → a.offsets[k]? = some i →
        b.offsets[k]? = some j →
        cell st' st.heap.size m.toNat =
          some (.app2 (op ++ ".same") (cellD st a.win.buf (a.win.off + i.toNat)) (cellD st b.win.buf (b.win.off + j.toNat)))) ∧
      (∀ b' k', b' < st.heap.size → cell st' b' k' = cell st b' k') := by
  rw [engCmpVV_iter_same st op tc a b hc hu hma hmb]
  have hnra : (freshOf st a.dt a.shape a.ap.o.col).win.buf ≠ a.win.buf := by
    simp only [freshOf]; exact (Nat.ne_of_lt hA.lt).symm
  have hnrb : (freshOf st a.dt a.shape a.ap.o.col).win.buf ≠ b.win.buf := by
    simp only [freshOf]; exact (Nat.ne_of_lt hB.lt).symm
  have hR : Has (allocZero st (denseLen a.shape)) (freshOf st a.dt a.shape a.ap.o.col).win.buf
      (freshOf st a.dt a.shape a.ap.o.col).win.off (freshOf st a.dt a.shape a.ap.o.col).win.len := by
    simp only [freshOf]; exact allocZero_has st _
  have hA' := hA.has.allocZero hA.lt (denseLen a.shape)
  have hB' := hB.has.allocZero hB.lt (denseLen a.shape)
  obtain ⟨s1, h1, hm1, _, hv1, hf1⟩ := copyIterOffsets_spec (allocZero st (denseLen a.shape))
    (freshOf st a.dt a.shape a.ap.o.col).win a.win (freshOf st a.dt a.shape a.ap.o.col).offsets a.offsets
    (freshOf st a.dt a.shape a.ap.o.col).win.len a.win.len
    hnra (by simp only [freshOf]; exact Nat.le_refl _) hca (by simpa only [freshOf] using hor) hoa hnd hR hA'
  simp only [h1, bind, Except.bind]
  rw [eOpIter_VV _ _ _ _ _ _ _ (by simp only [freshOf]; exact hl1) hlb]
  have hkeep : ∀ {b off n : Nat}, Has (allocZero st (denseLen a.shape)) b off n → Has s1 b off n :=
    copyIterOffsets_has _ s1 (freshOf st a.dt a.shape a.ap.o.col).win (freshOf st a.dt a.shape a.ap.o.col).offsets a.offsets
      (fun k i j hi hj => by rw [hv1 k i j hi hj]; rfl) hf1
  obtain ⟨s2, h2, hm2, _, hv2, hf2⟩ := kIterVV_spec s1 (freshOf st a.dt a.shape a.ap.o.col).win b.win
    (fun x y => .app2 (op ++ ".same") x y)
    ((freshOf st a.dt a.shape a.ap.o.col).offsets.map (·, true)) (b.offsets.map (·, true)) hnrb
    (by simpa only [freshOf] using inRange_map_true hor) (inRange_map_true hob) (by rw [map_true_fst]; exact hnd)
    (hkeep hR) (hkeep hB')
  refine ⟨s2, by rw [h2]; rfl, (hm2.trans hm1), ?_, ?_⟩
  · intro k m i j hm hi hj
    have e2 := hv2 k m true j true (getElem?_map_true hm) (getElem?_map_true hj) rfl rfl
    have e1 := hv1 k m i hm hi
    simp only [freshOf, Nat.zero_add] at e2 e1 hf1
    rw [e2, cellD_of_some e1, allocZero_cellD_lt _ _ _ _ hA.lt]
    unfold cellD
    rw [hf1 _ _ (Or.inl (Nat.ne_of_lt hB.lt)), allocZero_cell_lt _ _ _ _ hB.lt]
  · intro b' k' hb'
    have hne : b' ≠ (freshOf st a.dt a.shape a.ap.o.col).win.buf := by simp only [freshOf]; exact Nat.ne_of_lt hb'
    rw [hf2 _ _ (Or.inl hne), hf1 _ _ (Or.inl hne), allocZero_cell_lt _ _ _ _ hb']

/-- unfolding of a unary operation with a reuse tensor on the iterator path, for whatever operand `aK` `prepDataUnary`
    hands to the kernels -/
theorem engUnary_iter_reuse_gen (st s1 : St) (g : UnF) (tc kt : List String) (strict : Bool) (a aK r : Dense)
    (hta : tc.contains a.dt = true) (hk : kt.contains a.dt = true)
    (hr : ReuseFits r a.shape a.dt a.ap.o.col)
    (hp : prepAliasT st a (some r) = .ok (s1, aK))
    (hu : (aK.requiresIterator || (r.requiresIterator || !sameOrd r aK)) = true)
    (hmk : aK.mask = none) (hmr : r.mask = none) :
    engUnary st g tc kt strict a { reuse := some r } = (do
      let s ← Dense.copyIterOffsets s1 r.win aK.win r.offsets aK.offsets
      let s ← kUnIter s r.win g (r.offsets.map (·, true))
      pure ⟨s, some r, .reuse⟩) := by
  unfold engUnary
  simp only [hta, hk, hfo_reuse _ _ _ _ _ _ hr, hp, hu, itStream_nomask _ _ hmk, itStream_nomask _ _ hmr, map_true_fst,
    bind, Except.bind, pure, Except.pure, Bool.not_true, Bool.false_eq_true, if_false, Bool.or_false, Bool.not_false, if_true]

/-- **F123 repaired, for every shape**: a unary operation whose reuse tensor `r` shares memory with the operand `a`
    through another access pattern (a shallow clone with a pending transpose, an overlapping window): the operand is
    cloned first, and at the `k`-th position of the two iterators `r`'s cell receives `g` of the element `a`'s iterator
    addressed at `k` *before the call* - by coordinate; buffers other than `r`'s are unchanged. -/
theorem engUnary_reuse_alias' (st : St) (g : UnF) (tc kt : List String) (strict : Bool) (a r : Dense)
    (hta : tc.contains a.dt = true) (hk : kt.contains a.dt = true)
    (hr : ReuseFits r a.shape a.dt a.ap.o.col)
    (hsh : sharesMemory a r = true) (hsa : sameAccess a r = false)
    (hu : (a.requiresIterator || (r.requiresIterator || !sameOrd r a)) = true)
    (hma : a.mask = none) (hmr : r.mask = none)
    (hcr : r.win.len ≤ r.win.cap)
    (hor : ∀ i ∈ r.offsets, 0 ≤ i ∧ i < (r.win.len : Int)) (hoa : ∀ j ∈ a.offsets, 0 ≤ j ∧ j < (a.win.len : Int))
    (hnd : r.offsets.Nodup)
    (hA : InBuf st a.win.buf a.win.off a.win.len) (hR : InBuf st r.win.buf r.win.off r.win.len) :
    ∃ st', engUnary st g tc kt strict a { reuse := some r } = .ok ⟨st', some r, .reuse⟩ ∧ st'.mheap = st.mheap ∧
      (∀ (k : Nat) m j, r.offsets[k]? = some m → a.offsets[k]? = some j →
        cell st' r.win.buf (r.win.off + m.toNat) = some (g (cellD st a.win.buf (a.win.off + j.toNat)))) ∧
      (∀ b' k', b' < st.heap.size → b' ≠ r.win.buf → cell st' b' k' = cell st b' k') := by
  obtain ⟨s1, h1, hm1, hs1, hv1, hf1⟩ := clone_spec st a hma hA.lt hA.has
  have hp : prepAliasT st a (some r) = .ok (s1, cloneOf st a) := by
    simp [prepAliasT, operandFor, hsh, hsa, h1]
  have hu' : ((cloneOf st a).requiresIterator || (r.requiresIterator || !sameOrd r (cloneOf st a))) = true := by
    rw [cloneOf_requiresIterator st a hma]
    have : sameOrd r (cloneOf st a) = sameOrd r a := rfl
    rw [this]; exact hu
  rw [engUnary_iter_reuse_gen st s1 g tc kt strict a (cloneOf st a) r hta hk hr hp hu' rfl hmr]
  have hnra : r.win.buf ≠ (cloneOf st a).win.buf := by simp only [cloneOf]; exact Nat.ne_of_lt hR.lt
  have hHc : Has s1 st.heap.size 0 a.win.len := by
    intro i hi
    rw [Nat.zero_add, hv1 i hi]; rfl
  have hHr : Has s1 r.win.buf r.win.off r.win.len := by
    intro i hi
    rw [hf1 _ _ hR.lt]; exact hR.has i hi
  obtain ⟨s2, h2, hm2, _, hv2, hf2⟩ := copyIterOffsets_spec s1 r.win (cloneOf st a).win r.offsets a.offsets
    r.win.len a.win.len hnra hcr (by simp only [cloneOf]; exact Nat.le_refl _) hor hoa hnd hHr
    (by simpa only [cloneOf] using hHc)
  simp only [cloneOf_offsets, h2, bind, Except.bind]
  have hkeep : ∀ {b off n : Nat}, Has s1 b off n → Has s2 b off n :=
    copyIterOffsets_has s1 s2 r.win r.offsets a.offsets
      (fun k i j hi hj => by rw [hv2 k i j hi hj]; rfl) hf2
  obtain ⟨s3, h3, hm3, _, hv3, hf3⟩ := kUnIter_spec s2 r.win g (r.offsets.map (·, true))
    (inRange_map_true hor) (by rw [map_true_fst]; exact hnd) (hkeep hHr)
  refine ⟨s3, by rw [h3]; rfl, (hm3.trans hm2).trans hm1, ?_, ?_⟩
  · intro k m j hm hj
    have hmem : (m, true) ∈ r.offsets.map (·, true) := List.mem_map.mpr ⟨m, List.mem_of_getElem? hm, rfl⟩
    rw [hv3 m hmem, cellD_of_some (hv2 k m j hm hj)]
    simp only [cloneOf, Nat.zero_add]
    have hj' := hoa j (List.mem_of_getElem? hj)
    rw [cellD_of_some (hv1 j.toNat (by omega))]
  · intro b' k' hb' hne
    rw [hf3 _ _ (Or.inl hne), hf2 _ _ (Or.inl hne), hf1 _ _ hb']

theorem eCmpIter_SV (st : St) (a b r : Win) (f : BinF) (ia ib ir : ItS) (ha : a.len = 1) (hb : b.len ≠ 1) (hr : r.len ≠ 1) :
    eCmpIter st a b r f ia ib ir = (do kIter3SV st (← st.rd a 1 0) b r f accSet ib ir) := by
  unfold eCmpIter isSc
  simp [ha, hb, hr]

theorem eCmpIter_VS (st : St) (a b r : Win) (f : BinF) (ia ib ir : ItS) (ha : a.len ≠ 1) (hb : b.len = 1) (hr : r.len ≠ 1) :
    eCmpIter st a b r f ia ib ir = (do kIter3VS st a (← st.rd b 1 0) r f accSet ia ir) := by
  unfold eCmpIter isSc
  simp [ha, hb, hr]

/-- unfolding: tensor-scalar comparison, default mode, operand needing an iterator -/
theorem engCmpScalar_iter_default (st : St) (op : String) (tc : List String) (t : Dense) (sc : ScalarArg) (left : Bool)
    (hta : tc.contains t.dt = true) (hdt : t.dt = sc.dt) (hsrc : sc.src = none) (hit : t.requiresIterator = true)
    (hnsc : isScalar t.shape = false) (hs1 : sc.win.len = 1) (hmt : t.mask = none) :
    engCmpScalar st op tc t sc left {} = (do
      let s ← eCmpIter (allocZero st (denseLen t.shape)) (if left then t.win else sc.win) (if left then sc.win else t.win)
        (freshOf st "b" t.shape t.ap.o.col).win (fun x y => .app2 op x y)
        (if left then t.offsets.map (·, true) else []) (if left then [] else t.offsets.map (·, true))
        ((freshOf st "b" t.shape t.ap.o.col).offsets.map (·, true))
      pure ⟨s, none, .fresh (freshOf st "b" t.shape t.ap.o.col)⟩) := by
  have hne : (t.dt != sc.dt) = false := by simp [hdt]
  have hl : (sc.win.len != 1) = false := by simp [hs1]
  have hmf : (freshOf st "b" t.shape t.ap.o.col).mask = none := rfl
  unfold engCmpScalar
  cases left <;>
  simp only [hta, hne, ScalarArg.refresh_none _ _ hsrc, hfo_none, prepAliasT_none, hit, hnsc, hl, newDenseZero_eq,
    itStream_nomask _ _ hmt, itStream_nomask _ _ hmf, bind, Except.bind, pure, Except.pure,
    Bool.not_true, Bool.false_eq_true, if_false, Bool.or_false, Bool.and_false, Bool.not_false,
    Bool.and_true, if_true, Bool.true_or, Bool.false_and, Bool.true_and, Bool.or_true]

/-- **Tensor-scalar comparison on the iterator path, default mode, either side**: the fresh bool tensor holds, at the
    `k`-th offset of its own iterator, `op t[k-th] s` (tensor on the left) or `op s t[k-th]` (scalar on the left) -/
theorem engCmpScalar_default_iter' (st : St) (op : String) (tc : List String) (t : Dense) (sc : ScalarArg) (left : Bool)
    (hta : tc.contains t.dt = true) (hdt : t.dt = sc.dt) (hsrc : sc.src = none) (hit : t.requiresIterator = true)
    (hnsc : isScalar t.shape = false) (hs1 : sc.win.len = 1) (hmt : t.mask = none) (hl1 : denseLen t.shape ≠ 1)
    (hor : ∀ i ∈ (freshOf st "b" t.shape t.ap.o.col).offsets, 0 ≤ i ∧ i < (denseLen t.shape : Int))
    (hot : ∀ j ∈ t.offsets, 0 ≤ j ∧ j < (t.win.len : Int))
    (hnd : (freshOf st "b" t.shape t.ap.o.col).offsets.Nodup)
    (hT : InBuf st t.win.buf t.win.off t.win.len) (hS : InBuf st sc.win.buf sc.win.off 1) :
    ∃ st', engCmpScalar st op tc t sc left {} = .ok ⟨st', none, .fresh (freshOf st "b" t.shape t.ap.o.col)⟩ ∧
      st'.mheap = st.mheap ∧
      (∀ (k : Nat) m j, (freshOf st "b" t.shape t.ap.o.col).offsets[k]? = some m → t.offsets[k]? = some j →
        cell st' st.heap.size m.toNat = some (if left
          then .app2 op (cellD st t.win.buf (t.win.off + j.toNat)) (cellD st sc.win.buf sc.win.off)
          else .app2 op (cellD st sc.win.buf sc.win.off) (cellD st t.win.buf (t.win.off + j.toNat)))) ∧
      (∀ b' k', b' < st.heap.size → cell st' b' k' = cell st b' k') := by
  rw [engCmpScalar_iter_default st op tc t sc left hta hdt hsrc hit hnsc hs1 hmt]
  have hlt : t.win.len ≠ 1 := requiresIterator_len hit
  have hS' := hS.has.allocZero hS.lt (denseLen t.shape)
  have hT' := hT.has.allocZero hT.lt (denseLen t.shape)
  have hR : Has (allocZero st (denseLen t.shape)) (freshOf st "b" t.shape t.ap.o.col).win.buf
      (freshOf st "b" t.shape t.ap.o.col).win.off (freshOf st "b" t.shape t.ap.o.col).win.len := by
    simp only [freshOf]; exact allocZero_has st _
  have hs0 : (allocZero st (denseLen t.shape)).rd sc.win 1 0 = .ok (cellD st sc.win.buf sc.win.off) := by
    have hc := cell_some_cellD (hS'.at (i := 0) (by omega) (by omega))
    simp only [Int.toNat_zero, Nat.add_zero] at hc
    rw [rd0_of_cell hc, allocZero_cellD_lt _ _ _ _ hS.lt]
  have hnt : t.win.buf ≠ (freshOf st "b" t.shape t.ap.o.col).win.buf := by simp only [freshOf]; exact Nat.ne_of_lt hT.lt
  cases left with
  | true =>
    simp only [if_true]
    rw [eCmpIter_VS _ _ _ _ _ _ _ _ hlt hs1 (by simp only [freshOf]; exact hl1)]
    simp only [hs0, bind, Except.bind]
    obtain ⟨s2, h2, hm2, _, hv2, hf2⟩ := kIter3VS_spec (allocZero st (denseLen t.shape)) t.win (cellD st sc.win.buf sc.win.off)
      (freshOf st "b" t.shape t.ap.o.col).win (fun x y => .app2 op x y) accSet (t.offsets.map (·, true))
      ((freshOf st "b" t.shape t.ap.o.col).offsets.map (·, true)) hnt (inRange_map_true hot)
      (by simpa only [freshOf] using inRange_map_true hor) (by rw [map_true_fst]; exact hnd) hT' hR
    refine ⟨s2, by rw [h2]; rfl, hm2, ?_, ?_⟩
    · intro k m j hm hj
      have := hv2 k j true m true (getElem?_map_true hj) (getElem?_map_true hm) rfl rfl
      simp only [freshOf, Nat.zero_add, accSet] at this
      rw [this, allocZero_cellD_lt _ _ _ _ hT.lt]
    · intro b' k' hb'
      rw [hf2 _ _ (Or.inl (by simp only [freshOf]; exact Nat.ne_of_lt hb')), allocZero_cell_lt _ _ _ _ hb']
  | false =>
    simp only [Bool.false_eq_true, if_false]
    rw [eCmpIter_SV _ _ _ _ _ _ _ _ hs1 hlt (by simp only [freshOf]; exact hl1)]
    simp only [hs0, bind, Except.bind]
    obtain ⟨s2, h2, hm2, _, hv2, hf2⟩ := kIter3SV_spec (allocZero st (denseLen t.shape)) (cellD st sc.win.buf sc.win.off) t.win
      (freshOf st "b" t.shape t.ap.o.col).win (fun x y => .app2 op x y) accSet (t.offsets.map (·, true))
      ((freshOf st "b" t.shape t.ap.o.col).offsets.map (·, true)) hnt (inRange_map_true hot)
      (by simpa only [freshOf] using inRange_map_true hor) (by rw [map_true_fst]; exact hnd) hT' hR
    refine ⟨s2, by rw [h2]; rfl, hm2, ?_, ?_⟩
    · intro k m j hm hj
      have := hv2 k j true m true (getElem?_map_true hj) (getElem?_map_true hm) rfl rfl
      simp only [freshOf, Nat.zero_add, accSet] at this
      rw [this, allocZero_cellD_lt _ _ _ _ hT.lt]
    · intro b' k' hb'
      rw [hf2 _ _ (Or.inl (by simp only [freshOf]; exact Nat.ne_of_lt hb')), allocZero_cell_lt _ _ _ _ hb']

/-- unfolding: tensor-scalar arithmetic, safe mode, operand needing an iterator -/
theorem engArithScalar_iter_safe (st : St) (op : String) (tc : List String) (t : Dense) (sc : ScalarArg) (left : Bool)
    (hta : tc.contains t.dt = true) (hk : (kernelTypes op).contains t.dt = true) (hdt : t.dt = sc.dt) (hsrc : sc.src = none)
    (hit : t.requiresIterator = true) (hnsc : isScalar t.shape = false) (hs1 : sc.win.len = 1) (hmt : t.mask = none) :
    engArithScalar st op tc t sc left {} = (do
      let (s, c) ← t.clone st
      let s ← (if left then eOpIter s c.win sc.win (fun x y => .app2 op x y) (t.offsets.map (·, true)) [] (vecFn op t.dt)
               else eOpIter s sc.win c.win (fun x y => .app2 op x y) [] (t.offsets.map (·, true)) (vecFn op t.dt))
      pure ⟨s, none, .fresh c⟩) := by
  have hne : (t.dt != sc.dt) = false := by simp [hdt]
  have hl : (sc.win.len != 1) = false := by simp [hs1]
  unfold engArithScalar
  cases left <;>
  simp only [hta, hk, hne, ScalarArg.refresh_none _ _ hsrc, hfo_none, prepAliasT_none, hit, hnsc, hl,
    itStream_nomask _ _ hmt, bind, Except.bind, pure, Except.pure,
    Bool.not_true, Bool.false_eq_true, if_false, Bool.or_false, Bool.and_false, Bool.not_false,
    Bool.and_true, if_true, Bool.true_or, Bool.false_and, Bool.true_and, Bool.or_true]

/-- **Tensor-scalar arithmetic on an operand that needs an iterator, safe mode, scalar on either side**: the result is a
    clone of the operand in which every logical element (every cell the operand's iterator addresses) is `op t s`
    (tensor left) or `op s t` (scalar left) of the operand's element there; the gaps of a view keep their value; the
    operand, the scalar and every other pre-existing buffer are untouched. -/
theorem engArithScalar_safe_iter' (st : St) (op : String) (tc : List String) (t : Dense) (sc : ScalarArg) (left : Bool)
    (hta : tc.contains t.dt = true) (hk : (kernelTypes op).contains t.dt = true) (hdt : t.dt = sc.dt) (hsrc : sc.src = none)
    (hit : t.requiresIterator = true) (hnsc : isScalar t.shape = false) (hs1 : sc.win.len = 1) (hmt : t.mask = none)
    (hot : ∀ j ∈ t.offsets, 0 ≤ j ∧ j < (t.win.len : Int)) (hnd : t.offsets.Nodup)
    (hT : InBuf st t.win.buf t.win.off t.win.len) (hS : InBuf st sc.win.buf sc.win.off 1) :
    ∃ st', engArithScalar st op tc t sc left {} = .ok ⟨st', none, .fresh (cloneOf st t)⟩ ∧ st'.mheap = st.mheap ∧
      (∀ i ∈ t.offsets, cell st' st.heap.size i.toNat = some (if left
          then .app2 op (cellD st t.win.buf (t.win.off + i.toNat)) (cellD st sc.win.buf sc.win.off)
          else .app2 op (cellD st sc.win.buf sc.win.off) (cellD st t.win.buf (t.win.off + i.toNat)))) ∧
      (∀ m, m < t.win.len → (∀ i ∈ t.offsets, m ≠ i.toNat) →
        cell st' st.heap.size m = some (cellD st t.win.buf (t.win.off + m))) ∧
      (∀ b' k, b' < st.heap.size → cell st' b' k = cell st b' k) := by
  rw [engArithScalar_iter_safe st op tc t sc left hta hk hdt hsrc hit hnsc hs1 hmt]
  obtain ⟨s1, h1, hm1, hs1', hv1, hf1⟩ := clone_spec st t hmt hT.lt hT.has
  simp only [h1, bind, Except.bind]
  have hlt : (cloneOf st t).win.len ≠ 1 := by simp only [cloneOf]; exact requiresIterator_len hit
  have hHc : Has s1 st.heap.size 0 t.win.len := by
    intro i hi
    rw [Nat.zero_add, hv1 i hi]; rfl
  have hs0 : cell s1 sc.win.buf sc.win.off = some (cellD st sc.win.buf sc.win.off) := by
    rw [hf1 _ _ hS.lt]
    have := cell_some_cellD (hS.has 0 (by omega))
    simpa using this
  cases left with
  | true =>
    simp only [if_true]
    rw [eOpIter_scalar_right s1 _ _ _ _ _ _ _ hlt hs1 hs0]
    obtain ⟨s2, h2, hm2, _, hv2, hf2⟩ := kIterVS_spec s1 (cloneOf st t).win (cellD st sc.win.buf sc.win.off)
      (fun x y => .app2 op x y) (t.offsets.map (·, true))
      (by simpa only [cloneOf] using inRange_map_true hot) (by rw [map_true_fst]; exact hnd)
      (by simpa only [cloneOf] using hHc)
    simp only [cloneOf] at h2 hv2 hf2 ⊢
    refine ⟨s2, by rw [h2]; rfl, hm2.trans hm1, ?_, ?_, ?_⟩
    · intro i hi
      have := hv2 i (List.mem_map.mpr ⟨i, hi, rfl⟩)
      simp only [Nat.zero_add] at this
      have hlt' := hot i hi
      rw [this, cellD_of_some (hv1 i.toNat (by omega))]
    · intro m hm hne
      rw [hf2 _ _ (Or.inr ?_), hv1 m hm]
      intro i hi
      rw [Nat.zero_add]
      obtain ⟨i', hi', he⟩ := List.mem_map.mp hi
      cases he
      exact hne _ hi'
    · intro b' k hb'
      rw [hf2 _ _ (Or.inl (Nat.ne_of_lt hb')), hf1 b' k hb']
  | false =>
    simp only [Bool.false_eq_true, if_false]
    rw [eOpIter_scalar_left s1 _ _ _ _ _ _ _ hs1 hlt hs0]
    obtain ⟨s2, h2, hm2, _, hv2, hf2⟩ := kIterSV_spec s1 (cellD st sc.win.buf sc.win.off) (cloneOf st t).win
      (fun x y => .app2 op x y) (t.offsets.map (·, true))
      (by simpa only [cloneOf] using inRange_map_true hot) (by rw [map_true_fst]; exact hnd)
      (by simpa only [cloneOf] using hHc)
    simp only [cloneOf] at h2 hv2 hf2 ⊢
    refine ⟨s2, by rw [h2]; rfl, hm2.trans hm1, ?_, ?_, ?_⟩
    · intro i hi
      have := hv2 i (List.mem_map.mpr ⟨i, hi, rfl⟩)
      simp only [Nat.zero_add] at this
      have hlt' := hot i hi
      rw [this, cellD_of_some (hv1 i.toNat (by omega))]
    · intro m hm hne
      rw [hf2 _ _ (Or.inr ?_), hv1 m hm]
      intro i hi
      rw [Nat.zero_add]
      obtain ⟨i', hi', he⟩ := List.mem_map.mp hi
      cases he
      exact hne _ hi'
    · intro b' k hb'
      rw [hf2 _ _ (Or.inl (Nat.ne_of_lt hb')), hf1 b' k hb']

/-- unfolding: tensor-scalar arithmetic, safe mode, tensor on the left, raw path -/
theorem engArithScalar_raw_safe_left (st : St) (op : String) (tc : List String) (t : Dense) (sc : ScalarArg)
    (hta : tc.contains t.dt = true) (hk : (kernelTypes op).contains t.dt = true) (hdt : t.dt = sc.dt) (hsrc : sc.src = none)
    (hit : t.requiresIterator = false) :
    engArithScalar st op tc t sc true {} = (do
      let (s, c) ← t.clone st
      let s ← eOp s c.win sc.win (fun x y => .app2 op x y) (vecFn op t.dt)
      pure ⟨s, none, .fresh c⟩) := by
  have hne : (t.dt != sc.dt) = false := by simp [hdt]
  unfold engArithScalar
  simp only [hta, hk, hne, ScalarArg.refresh_none _ _ hsrc, hfo_none, prepAliasT_none, hit, bind, Except.bind, pure,
    Except.pure, Bool.not_true, Bool.false_eq_true, if_false, Bool.or_false, Bool.and_false, Bool.not_false,
    Bool.and_true, if_true, Bool.true_or, Bool.false_and, Bool.true_and, Bool.or_true, Bool.false_or]

/-- **Tensor-scalar arithmetic, raw path, tensor on the left, safe mode**: cell `i` of the fresh clone is `op t[i] s` -/
theorem engArithScalar_safe_raw_left' (st : St) (op : String) (tc : List String) (t : Dense) (sc : ScalarArg)
    (hta : tc.contains t.dt = true) (hk : (kernelTypes op).contains t.dt = true) (hdt : t.dt = sc.dt) (hsrc : sc.src = none)
    (hit : t.requiresIterator = false) (hs1 : sc.win.len = 1) (ht1 : t.win.len ≠ 1) (hmt : t.mask = none)
    (hT : InBuf st t.win.buf t.win.off t.win.len) (hS : InBuf st sc.win.buf sc.win.off 1) :
    ∃ st', engArithScalar st op tc t sc true {} = .ok ⟨st', none, .fresh (cloneOf st t)⟩ ∧ st'.mheap = st.mheap ∧
      (∀ i, i < t.win.len → cell st' st.heap.size i =
        some (.app2 op (cellD st t.win.buf (t.win.off + i)) (cellD st sc.win.buf sc.win.off))) ∧
      (∀ b' k, b' < st.heap.size → cell st' b' k = cell st b' k) := by
  rw [engArithScalar_raw_safe_left st op tc t sc hta hk hdt hsrc hit]
  obtain ⟨s1, h1, hm1, _, hv1, hf1⟩ := clone_spec st t hmt hT.lt hT.has
  simp only [h1, bind, Except.bind]
  have hHc : Has s1 st.heap.size 0 t.win.len := by
    intro i hi
    rw [Nat.zero_add, hv1 i hi]; rfl
  have hs0 : cell s1 sc.win.buf sc.win.off = some (cellD st sc.win.buf sc.win.off) := by
    rw [hf1 _ _ hS.lt]
    have := cell_some_cellD (hS.has 0 (by omega))
    simpa using this
  rw [eOp_scalar_right s1 (cloneOf st t).win sc.win _ _ _ (by simp only [cloneOf]; exact ht1) hs1 hs0]
  obtain ⟨s2, h2, w2⟩ := kVS_spec s1 (cloneOf st t).win (cellD st sc.win.buf sc.win.off) (fun x y => .app2 op x y)
    (by simpa only [cloneOf] using hHc)
  simp only [cloneOf] at h2 w2 ⊢
  refine ⟨s2, by rw [h2]; rfl, w2.mheap.trans hm1, ?_, ?_⟩
  · intro i hi
    have := w2.val i hi
    simp only [Nat.zero_add] at this
    rw [this, cellD_of_some (hv1 i hi)]
  · intro b' k hb'
    rw [w2.other (Nat.ne_of_lt hb'), hf1 b' k hb']

/-- unfolding: tensor-scalar arithmetic, safe mode, scalar on the left, raw path: the clone is filled with the scalar,
    then the vector-vector kernel runs on it with the tensor as second operand -/
theorem engArithScalar_raw_safe_right (st : St) (op : String) (tc : List String) (t : Dense) (sc : ScalarArg)
    (hta : tc.contains t.dt = true) (hk : (kernelTypes op).contains t.dt = true) (hdt : t.dt = sc.dt) (hsrc : sc.src = none)
    (hit : t.requiresIterator = false) :
    engArithScalar st op tc t sc false {} = (do
      let (s, c) ← t.clone st
      let a0 ← s.rd sc.win 1 0
      let s ← (rangeI c.win.len).foldlM (fun s i => s.wr c.win c.win.len i a0) s
      let s ← eOp s c.win t.win (fun x y => .app2 op x y) (vecFn op t.dt)
      pure ⟨s, none, .fresh c⟩) := by
  have hne : (t.dt != sc.dt) = false := by simp [hdt]
  unfold engArithScalar
  simp only [hta, hk, hne, ScalarArg.refresh_none _ _ hsrc, hfo_none, prepAliasT_none, hit, bind, Except.bind, pure,
    Except.pure, Bool.not_true, Bool.false_eq_true, if_false, Bool.or_false, Bool.and_false, Bool.not_false,
    Bool.and_true, if_true, Bool.true_or, Bool.false_and, Bool.true_and, Bool.or_true, Bool.false_or]

/-- **Scalar on the left, raw path, safe mode**: cell `i` of the fresh clone is `op s t[i]` - the scalar is the FIRST
    argument (computed by the vector kernel `vecFn op` on a scalar-filled copy and the tensor) -/
theorem engArithScalar_safe_raw_right' (st : St) (op : String) (tc : List String) (t : Dense) (sc : ScalarArg)
    (hta : tc.contains t.dt = true) (hk : (kernelTypes op).contains t.dt = true) (hdt : t.dt = sc.dt) (hsrc : sc.src = none)
    (hit : t.requiresIterator = false) (hmt : t.mask = none) (hcap : t.win.len ≤ t.win.cap)
    (hT : InBuf st t.win.buf t.win.off t.win.len) (hS : InBuf st sc.win.buf sc.win.off 1) :
    ∃ st', engArithScalar st op tc t sc false {} = .ok ⟨st', none, .fresh (cloneOf st t)⟩ ∧ st'.mheap = st.mheap ∧
      (∀ i, i < t.win.len → cell st' st.heap.size i =
        some (vecFn op t.dt (cellD st sc.win.buf sc.win.off) (cellD st t.win.buf (t.win.off + i)))) ∧
      (∀ b' k, b' < st.heap.size → cell st' b' k = cell st b' k) := by
  rw [engArithScalar_raw_safe_right st op tc t sc hta hk hdt hsrc hit]
  obtain ⟨s1, h1, hm1, _, hv1, hf1⟩ := clone_spec st t hmt hT.lt hT.has
  simp only [h1, bind, Except.bind]
  have hHc : Has s1 st.heap.size 0 t.win.len := by
    intro i hi
    rw [Nat.zero_add, hv1 i hi]; rfl
  have hs0 : cell s1 sc.win.buf sc.win.off = some (cellD st sc.win.buf sc.win.off) := by
    rw [hf1 _ _ hS.lt]
    have := cell_some_cellD (hS.has 0 (by omega))
    simpa using this
  rw [rd0_of_cell hs0]
  -- the fill
  obtain ⟨s2, h2, w2⟩ := wrRange (cloneOf st t).win t.win.len (fun _ => cellD st sc.win.buf sc.win.off)
    (fun s i => s.wr (cloneOf st t).win (cloneOf st t).win.len i (cellD st sc.win.buf sc.win.off)) s1
    (by simpa only [cloneOf] using hHc) (fun s i _ _ => rfl)
  have h2' : List.foldlM (fun s i => s.wr (cloneOf st t).win (cloneOf st t).win.len i (cellD st sc.win.buf sc.win.off)) s1
      (rangeI (cloneOf st t).win.len) = .ok s2 := h2
  dsimp only
  rw [h2']
  dsimp only
  have hT2 : Has s2 t.win.buf t.win.off t.win.len := by
    intro i hi
    rw [w2.other (by simp only [cloneOf]; exact Nat.ne_of_lt hT.lt), hf1 _ _ hT.lt]
    exact hT.has i hi
  rw [eOp_VV s2 (cloneOf st t).win t.win _ _ Iff.rfl]
  obtain ⟨s3, h3, w3⟩ := kVV_spec s2 (cloneOf st t).win t.win (vecFn op t.dt)
    (by simp only [cloneOf]; exact (Nat.ne_of_lt hT.lt).symm) hcap
    (by simpa only [cloneOf] using w2.has (by simpa only [cloneOf] using hHc)) hT2
  simp only [cloneOf] at h3 w3 w2 ⊢
  refine ⟨s3, by rw [h3]; rfl, (w3.mheap.trans w2.mheap).trans hm1, ?_, ?_⟩
  · intro i hi
    have := w3.val i hi
    simp only [Nat.zero_add] at this
    rw [this, cellD_of_some (by simpa using w2.val i hi)]
    unfold cellD
    rw [w2.other (Nat.ne_of_lt hT.lt), hf1 _ _ hT.lt]
  · intro b' k hb'
    rw [w3.other (Nat.ne_of_lt hb'), w2.other (Nat.ne_of_lt hb'), hf1 b' k hb']

theorem engArithVV_iter_unsafe (st : St) (op : String) (tc : List String) (a b : Dense) (hc : BinOK tc a b)
    (hk : (kernelTypes op).contains a.dt = true)
    (hu : (a.requiresIterator || b.requiresIterator || !sameOrd a b) = true)
    (hma : a.mask = none) (hmb : b.mask = none) :
    engArithVV st op tc a b { unsafe_ := true } = (do
      let s ← eOpIter st a.win b.win (fun x y => .app2 op x y) (a.offsets.map (·, true)) (b.offsets.map (·, true))
        (vecFn op a.dt)
      pure ⟨s, none, .a⟩) := by
  unfold engArithVV
  simp only [hc.ta, hc.tb, hc.ne, hc.sh, hfo_none, prepAliasVV_none, hk, hu, itStream_nomask _ _ hma,
    itStream_nomask _ _ hmb, bind, Except.bind, pure, Except.pure,
    Bool.not_true, Bool.false_eq_true, if_false, Bool.or_false, Bool.and_false, Bool.not_false,
    Bool.and_true, if_true, Bool.false_and, Bool.true_and, Bool.or_self, Bool.false_or, Bool.true_or]

/-- **`UseUnsafe()` on the iterator path** (an operand needs an iterator, or the data orders differ): exactly the logical
    elements of `a` - the cells its iterator addresses - receive `op a b` of the elements at the same position of the
    logical order; every other cell (the gaps of a view of `a`, the rest of its parent, `b`) keeps its value -/
theorem engArithVV_unsafe_iter' (st : St) (op : String) (tc : List String) (a b : Dense) (hc : BinOK tc a b)
    (hk : (kernelTypes op).contains a.dt = true)
    (hu : (a.requiresIterator || b.requiresIterator || !sameOrd a b) = true)
    (hma : a.mask = none) (hmb : b.mask = none) (hla : a.win.len ≠ 1) (hlb : b.win.len ≠ 1)
    (hne : a.win.buf ≠ b.win.buf)
    (hoa : ∀ i ∈ a.offsets, 0 ≤ i ∧ i < (a.win.len : Int)) (hob : ∀ j ∈ b.offsets, 0 ≤ j ∧ j < (b.win.len : Int))
    (hnd : a.offsets.Nodup)
    (hA : InBuf st a.win.buf a.win.off a.win.len) (hB : InBuf st b.win.buf b.win.off b.win.len) :
    ∃ st', engArithVV st op tc a b { unsafe_ := true } = .ok ⟨st', none, .a⟩ ∧ st'.mheap = st.mheap ∧
      (∀ (k : Nat) i j, a.offsets[k]? = some i → b.offsets[k]? = some j →
        cell st' a.win.buf (a.win.off + i.toNat) =
          some (.app2 op (cellD st a.win.buf (a.win.off + i.toNat)) (cellD st b.win.buf (b.win.off + j.toNat)))) ∧
      (∀ b' k', (b' ≠ a.win.buf ∨ ∀ (k : Nat) i j, a.offsets[k]? = some i → b.offsets[k]? = some j →
          k' ≠ a.win.off + i.toNat) → cell st' b' k' = cell st b' k') := by
  rw [engArithVV_iter_unsafe st op tc a b hc hk hu hma hmb, eOpIter_VV _ _ _ _ _ _ _ hla hlb]
  obtain ⟨s2, h2, hm2, _, hv2, hf2⟩ := kIterVV_spec st a.win b.win (fun x y => .app2 op x y)
    (a.offsets.map (·, true)) (b.offsets.map (·, true)) hne
    (inRange_map_true hoa) (inRange_map_true hob) (by rw [map_true_fst]; exact hnd) hA.has hB.has
  refine ⟨s2, by simp only [h2, bind, Except.bind]; rfl, hm2, ?_, ?_⟩
  · intro k i j hi hj
    exact hv2 k i true j true (getElem?_map_true hi) (getElem?_map_true hj) rfl rfl
  · intro b' k' h
    apply hf2
    rcases h with h | h
    · exact Or.inl h
    · refine Or.inr ?_
      intro k i vi j vj hi hj _ _
      exact h k i j (of_getElem?_map_true hi) (of_getElem?_map_true hj)

theorem engCmpVV_iter_unsafe (st : St) (op : String) (tc : List String) (a b : Dense) (hc : BinOK tc a b)
    (hu : (a.requiresIterator || b.requiresIterator || !sameOrd a b) = true)
    (hma : a.mask = none) (hmb : b.mask = none) :
    engCmpVV st op tc a b { unsafe_ := true } = (do
      let s ← eOpIter st a.win b.win (fun x y => .app2 (op ++ ".same") x y) (a.offsets.map (·, true)) (b.offsets.map (·, true))
      pure ⟨s, none, .a⟩) := by
  unfold engCmpVV
  simp only [hc.ta, hc.tb, hc.ne, hc.sh, hfo_none, prepAliasVV_none, hu, itStream_nomask _ _ hma,
    itStream_nomask _ _ hmb, bind, Except.bind, pure, Except.pure,
    Bool.not_true, Bool.false_eq_true, if_false, Bool.or_false, Bool.and_false, Bool.not_false,
    Bool.and_true, if_true, Bool.false_and, Bool.true_and, Bool.or_self, Bool.false_or, Bool.true_or, Bool.or_true]

/-- **In-place comparison on the iterator path**: exactly the logical elements of `a` receive the 1/0 form
    `op.same a b` of the elements at the same position of the logical order; every other cell keeps its value -/
theorem engCmpVV_unsafe_iter' (st : St) (op : String) (tc : List String) (a b : Dense) (hc : BinOK tc a b)
    (hu : (a.requiresIterator || b.requiresIterator || !sameOrd a b) = true)
    (hma : a.mask = none) (hmb : b.mask = none) (hla : a.win.len ≠ 1) (hlb : b.win.len ≠ 1)
    (hne : a.win.buf ≠ b.win.buf)
    (hoa : ∀ i ∈ a.offsets, 0 ≤ i ∧ i < (a.win.len : Int)) (hob : ∀ j ∈ b.offsets, 0 ≤ j ∧ j < (b.win.len : Int))
    (hnd : a.offsets.Nodup)
    (hA : InBuf st a.win.buf a.win.off a.win.len) (hB : InBuf st b.win.buf b.win.off b.win.len) :
    ∃ st', engCmpVV st op tc a b { unsafe_ := true } = .ok ⟨st', none, .a⟩ ∧ st'.mheap = st.mheap ∧
      (∀ (k : Nat) i j, a.offsets[k]? = some i → b.offsets[k]? = some j →
        cell st' a.win.buf (a.win.off + i.toNat) =
          some (.app2 (op ++ ".same") (cellD st a.win.buf (a.win.off + i.toNat)) (cellD st b.win.buf (b.win.off + j.toNat)))) ∧
      (∀ b' k', (b' ≠ a.win.buf ∨ ∀ (k : Nat) i j, a.offsets[k]? = some i → b.offsets[k]? = some j →
          k' ≠ a.win.off + i.toNat) → cell st' b' k' = cell st b' k') := by
  rw [engCmpVV_iter_unsafe st op tc a b hc hu hma hmb, eOpIter_VV _ _ _ _ _ _ _ hla hlb]
  obtain ⟨s2, h2, hm2, _, hv2, hf2⟩ := kIterVV_spec st a.win b.win (fun x y => .app2 (op ++ ".same") x y)
    (a.offsets.map (·, true)) (b.offsets.map (·, true)) hne
    (inRange_map_true hoa) (inRange_map_true hob) (by rw [map_true_fst]; exact hnd) hA.has hB.has
  refine ⟨s2, by simp only [h2, bind, Except.bind]; rfl, hm2, ?_, ?_⟩
  · intro k i j hi hj
    exact hv2 k i true j true (getElem?_map_true hi) (getElem?_map_true hj) rfl rfl
  · intro b' k' h
    apply hf2
    rcases h with h | h
    · exact Or.inl h
    · refine Or.inr ?_
      intro k i vi j vj hi hj _ _
      exact h k i j (of_getElem?_map_true hi) (of_getElem?_map_true hj)

/-- **Unary operation with a reuse tensor on the iterator path** (the operand is a view with gaps or carries a pending
    transpose, or the destination does; the two do not share a buffer): at the `k`-th position of the two iterators the
    destination's cell receives `g` of the operand's element; nothing outside the destination's buffer changes -/
theorem engUnary_reuse_iter' (st : St) (g : UnF) (tc kt : List String) (strict : Bool) (a r : Dense)
    (hta : tc.contains a.dt = true) (hk : kt.contains a.dt = true)
    (hr : ReuseFits r a.shape a.dt a.ap.o.col)
    (hu : (a.requiresIterator || (r.requiresIterator || !sameOrd r a)) = true)
    (hma : a.mask = none) (hmr : r.mask = none) (hne : r.win.buf ≠ a.win.buf)
    (hcr : r.win.len ≤ r.win.cap) (hca : a.win.len ≤ a.win.cap)
    (hor : ∀ i ∈ r.offsets, 0 ≤ i ∧ i < (r.win.len : Int)) (hoa : ∀ j ∈ a.offsets, 0 ≤ j ∧ j < (a.win.len : Int))
    (hnd : r.offsets.Nodup)
    (hA : InBuf st a.win.buf a.win.off a.win.len) (hR : InBuf st r.win.buf r.win.off r.win.len) :
    ∃ st', engUnary st g tc kt strict a { reuse := some r } = .ok ⟨st', some r, .reuse⟩ ∧ st'.mheap = st.mheap ∧
      (∀ (k : Nat) m j, r.offsets[k]? = some m → a.offsets[k]? = some j →
        cell st' r.win.buf (r.win.off + m.toNat) = some (g (cellD st a.win.buf (a.win.off + j.toNat)))) ∧
      (∀ b' k', b' ≠ r.win.buf → cell st' b' k' = cell st b' k') := by
  have hp : prepAliasT st a (some r) = .ok (st, a) :=
    prepAliasT_sep st a r (sharesMemory_of_buf_ne hne.symm)
  rw [engUnary_iter_reuse_gen st st g tc kt strict a a r hta hk hr hp hu hma hmr]
  obtain ⟨s2, h2, hm2, _, hv2, hf2⟩ := copyIterOffsets_spec st r.win a.win r.offsets a.offsets
    r.win.len a.win.len hne hcr hca hor hoa hnd hR.has hA.has
  simp only [h2, bind, Except.bind]
  have hkeep : ∀ {b off n : Nat}, Has st b off n → Has s2 b off n :=
    copyIterOffsets_has st s2 r.win r.offsets a.offsets
      (fun k i j hi hj => by rw [hv2 k i j hi hj]; rfl) hf2
  obtain ⟨s3, h3, hm3, _, hv3, hf3⟩ := kUnIter_spec s2 r.win g (r.offsets.map (·, true))
    (inRange_map_true hor) (by rw [map_true_fst]; exact hnd) (hkeep hR.has)
  refine ⟨s3, by rw [h3]; rfl, hm3.trans hm2, ?_, ?_⟩
  · intro k m j hm hj
    have hmem : (m, true) ∈ r.offsets.map (·, true) := List.mem_map.mpr ⟨m, List.mem_of_getElem? hm, rfl⟩
    rw [hv3 m hmem, cellD_of_some (hv2 k m j hm hj)]
  · intro b' k' hne'
    rw [hf3 _ _ (Or.inl hne'), hf2 _ _ (Or.inl hne')]

theorem eOpIterIncr_VV (st : St) (a b incr : Win) (f fv : BinF) (ia ib ik : ItS) (ha : a.len ≠ 1) (hb : b.len ≠ 1) :
    eOpIterIncr st a b incr f ia ib ik fv = kIter3VV st a b incr f accAdd ia ib ik := by
  simp [eOpIterIncr, isSc, ha, hb]

/-- unfolding: arithmetic with an increment tensor on the iterator path (no operand shares memory with it) -/
theorem engArithVV_iter_incr (st : St) (op : String) (tc : List String) (a b r : Dense) (hc : BinOK tc a b)
    (hk : (kernelTypes op).contains a.dt = true)
    (hr : ReuseFits r a.shape a.dt a.ap.o.col)
    (hu : (a.requiresIterator || b.requiresIterator || r.requiresIterator || !sameOrd a b ||
      (!sameOrd a r || !sameOrd b r)) = true)
    (hma : a.mask = none) (hmb : b.mask = none) (hmr : r.mask = none)
    (hsa : sharesMemory a r = false) (hsb : sharesMemory b r = false)
    (hla : a.win.len ≠ 1) (hlb : b.win.len ≠ 1) :
    engArithVV st op tc a b { incr := some r } = (do
      let s ← kIter3VV st a.win b.win r.win (fun x y => .app2 op x y) accAdd (a.offsets.map (·, true))
        (b.offsets.map (·, true)) (r.offsets.map (·, true))
      pure ⟨s, some r, .reuse⟩) := by
  have hnr : incrRefused a.win b.win r.win = false := by simp [incrRefused, isSc, hla, hlb]
  unfold engArithVV
  simp only [hc.ta, hc.tb, hc.ne, hc.sh, hfo_incr _ _ _ _ _ _ hr, prepAliasVV_sep _ _ _ _ hsa hsb, hk, hu, hnr,
    itStream_nomask _ _ hma, itStream_nomask _ _ hmb, itStream_nomask _ _ hmr, eOpIterIncr_VV _ _ _ _ _ _ _ _ _ hla hlb,
    bind, Except.bind, pure, Except.pure,
    Bool.not_true, Bool.false_eq_true, if_false, Bool.or_false, Bool.and_false, Bool.not_false,
    Bool.and_true, if_true, Bool.false_and, Bool.true_and, Bool.or_self, Bool.false_or, Bool.true_or]

/-- **`WithIncr(r)` on the iterator path**: at every position `k` of the logical order, `r`'s cell receives
    `+ (a op b)` of the operands' elements at `k`; nothing outside `r`'s buffer changes -/
theorem engArithVV_incr_iter' (st : St) (op : String) (tc : List String) (a b r : Dense) (hc : BinOK tc a b)
    (hk : (kernelTypes op).contains a.dt = true)
    (hr : ReuseFits r a.shape a.dt a.ap.o.col)
    (hu : (a.requiresIterator || b.requiresIterator || r.requiresIterator || !sameOrd a b ||
      (!sameOrd a r || !sameOrd b r)) = true)
    (hma : a.mask = none) (hmb : b.mask = none) (hmr : r.mask = none)
    (hna : a.win.buf ≠ r.win.buf) (hnb : b.win.buf ≠ r.win.buf)
    (hla : a.win.len ≠ 1) (hlb : b.win.len ≠ 1)
    (hoa : ∀ i ∈ a.offsets, 0 ≤ i ∧ i < (a.win.len : Int)) (hob : ∀ j ∈ b.offsets, 0 ≤ j ∧ j < (b.win.len : Int))
    (hor : ∀ m ∈ r.offsets, 0 ≤ m ∧ m < (r.win.len : Int)) (hnd : r.offsets.Nodup)
    (hA : InBuf st a.win.buf a.win.off a.win.len) (hB : InBuf st b.win.buf b.win.off b.win.len)
    (hR : InBuf st r.win.buf r.win.off r.win.len) :
    ∃ st', engArithVV st op tc a b { incr := some r } = .ok ⟨st', some r, .reuse⟩ ∧ st'.mheap = st.mheap ∧
      (∀ (k : Nat) m i j, r.offsets[k]? = some m → a.offsets[k]? = some i → b.offsets[k]? = some j →
        cell st' r.win.buf (r.win.off + m.toNat) =
          some (accAdd (cellD st r.win.buf (r.win.off + m.toNat))
            (.app2 op (cellD st a.win.buf (a.win.off + i.toNat)) (cellD st b.win.buf (b.win.off + j.toNat))))) ∧
      (∀ b' k', b' ≠ r.win.buf → cell st' b' k' = cell st b' k') := by
  rw [engArithVV_iter_incr st op tc a b r hc hk hr hu hma hmb hmr (sharesMemory_of_buf_ne hna)
    (sharesMemory_of_buf_ne hnb) hla hlb]
  obtain ⟨s2, h2, hm2, _, hv2, hf2⟩ := kIter3VV_spec st a.win b.win r.win (fun x y => .app2 op x y) accAdd
    (a.offsets.map (·, true)) (b.offsets.map (·, true)) (r.offsets.map (·, true)) hna hnb
    (inRange_map_true hoa) (inRange_map_true hob) (inRange_map_true hor) (by rw [map_true_fst]; exact hnd)
    hA.has hB.has hR.has
  refine ⟨s2, by simp only [h2, bind, Except.bind]; rfl, hm2, ?_, ?_⟩
  · intro k m i j hm hi hj
    exact hv2 k i true j true m true (getElem?_map_true hi) (getElem?_map_true hj) (getElem?_map_true hm) rfl rfl rfl
  · intro b' k' hne
    exact hf2 _ _ (Or.inl hne)
end TM
