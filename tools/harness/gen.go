package main

import (
	"bufio"
	"flag"
	"fmt"
	"os"
	"strconv"
	"strings"
)

// splitmix64: every random choice of the generators derives from one state seeded by VERIF_SEED.
type rng struct{ s uint64 }

func (r *rng) next() uint64 {
	r.s += 0x9e3779b97f4a7c15
	z := r.s
	z = (z ^ (z >> 30)) * 0xbf58476d1ce4e5b9
	z = (z ^ (z >> 27)) * 0x94d049bb133111eb
	return z ^ (z >> 31)
}
// newRng derives an independent stream per seed (the state is scrambled, not offset: consecutive
// seeds must not yield shifted copies of one stream).
func newRng(seed uint64) *rng {
	r := &rng{s: (seed + 1) * 0xD1342543DE82EF95}
	a := r.next()
	b := r.next()
	return &rng{s: a ^ (b << 1) ^ (seed * 0x2545F4914F6CDD1D)}
}

func (r *rng) intn(n int) int {
	if n <= 0 {
		return 0
	}
	return int(r.next() % uint64(n))
}
func (r *rng) pick(ss []string) string { return ss[r.intn(len(ss))] }
func (r *rng) chance(num, den int) bool { return r.intn(den) < num }

type gen struct {
	w    *bufio.Writer
	r    *rng
	n    int
	tier string
	pfx  string
	// forceVset overrides the value set of the next arithmetic / comparison program (0 = generator's choice)
	forceVset int
	forceLit  string
}

func (g *gen) emit(steps ...string) {
	g.n++
	fmt.Fprintf(g.w, "%s%d ; %s\n", g.pfx, g.n, strings.Join(steps, " ; "))
}

func (g *gen) thorough() bool { return g.tier == "thorough" }

// shapes enumerates all shapes of rank lo..hi with dims from ds.
func shapes(lo, hi int, ds []int) [][]int {
	var out [][]int
	var rec func(cur []int, rank int)
	rec = func(cur []int, rank int) {
		if len(cur) == rank {
			out = append(out, append([]int{}, cur...))
			return
		}
		for _, d := range ds {
			rec(append(cur, d), rank)
		}
	}
	for r := lo; r <= hi; r++ {
		rec(nil, r)
	}
	return out
}

func perms(n int) [][]int {
	if n == 0 {
		return [][]int{{}}
	}
	var out [][]int
	for _, p := range perms(n - 1) {
		for pos := 0; pos <= len(p); pos++ {
			q := append([]int{}, p[:pos]...)
			q = append(q, n-1)
			q = append(q, p[pos:]...)
			out = append(out, q)
		}
	}
	return out
}

func size(shape []int) int {
	n := 1
	for _, d := range shape {
		n *= d
	}
	return n
}

var allDtypes = []string{"b", "i", "i8", "i16", "i32", "i64", "u", "u8", "u16", "u32", "u64", "f32", "f64", "c64", "c128", "str"}
var widthDtypes = []string{"u8", "i16", "f32", "f64", "c128", "str"}
var orders = []string{"C", "Fraw", "Fconv"}

// axisSlices is the per-axis slice catalogue for an axis of extent d (valid ones).
func axisSlices(d int) []string {
	out := []string{"n", "0", strconv.Itoa(d - 1), fmt.Sprintf("0:%d", d)}
	if d > 1 {
		out = append(out, fmt.Sprintf("1:%d", d), fmt.Sprintf("0:%d", d-1), fmt.Sprintf("0:%d:2", d), fmt.Sprintf("1:%d:2", d))
	}
	if d > 2 {
		out = append(out, fmt.Sprintf("1:%d", d-1), "1", fmt.Sprintf("0:%d:%d", d, d-1), fmt.Sprintf("0:%d:3", d))
	}
	return out
}

// randSliceList picks a slice list for the shape (possibly shorter than the rank).
func (g *gen) randSliceList(shape []int) string {
	if len(shape) == 0 {
		return "-"
	}
	n := len(shape)
	if g.r.chance(1, 4) {
		n = 1 + g.r.intn(len(shape))
	}
	parts := make([]string, n)
	for i := 0; i < n; i++ {
		parts[i] = g.r.pick(axisSlices(shape[i]))
	}
	return strings.Join(parts, ",")
}

// fullAxisSpace is the complete per-axis argument space of C02 for extent d: nil, single
// indices in [-1,d], and triples s∈[-1,d], e∈[s-1,d+2], st∈[0,d+1].
func fullAxisSpace(d int) []string {
	out := []string{"n"}
	for i := -1; i <= d; i++ {
		out = append(out, strconv.Itoa(i))
	}
	for s := -1; s <= d; s++ {
		for e := s - 1; e <= d+2; e++ {
			for st := 0; st <= d+1; st++ {
				out = append(out, fmt.Sprintf("%d:%d:%d", s, e, st))
			}
		}
	}
	return out
}

func ints(a []int) string { return showInts(a) }

func (g *gen) randPerm(n int) []int {
	p := make([]int, n)
	for i := range p {
		p[i] = i
	}
	for i := n - 1; i > 0; i-- {
		j := g.r.intn(i + 1)
		p[i], p[j] = p[j], p[i]
	}
	return p
}

// layoutSteps appends steps turning variable $v (of the given shape) into one of the layout
// classes; returns the steps, the variable holding the result and its (approximate) shape.
func (g *gen) layoutSteps(v int, nextVar *int, shape []int, class string) (steps []string, out int, oshape []int) {
	out, oshape = v, shape
	switch class {
	case "asis":
	case "lazyT":
		if len(shape) >= 2 {
			p := g.randPerm(len(shape))
			steps = append(steps, fmt.Sprintf("T $%d %s", v, ints(p)))
			oshape = make([]int, len(shape))
			for i, a := range p {
				oshape[i] = shape[a]
			}
		}
	case "physT":
		if len(shape) >= 2 {
			p := g.randPerm(len(shape))
			steps = append(steps, fmt.Sprintf("T $%d %s", v, ints(p)), fmt.Sprintf("transpose $%d", v))
			oshape = make([]int, len(shape))
			for i, a := range p {
				oshape[i] = shape[a]
			}
		}
	case "slice":
		if len(shape) >= 1 {
			steps = append(steps, fmt.Sprintf("slice $%d %s", v, g.randSliceList(shape)))
			out = *nextVar
			*nextVar++
			oshape = nil // unknown without the model; callers re-dump
		}
	}
	return
}

// generators: one program generator per property id (registered in init() of the gen_*.go files).
var generators = map[string]func(*gen){}

func genCmd(args []string) {
	fs := flag.NewFlagSet("gen", flag.ExitOnError)
	prop := fs.String("prop", "", "property id")
	tier := fs.String("tier", "quick", "quick|thorough")
	seed := fs.Uint64("seed", 1, "seed")
	fs.Parse(args)
	w := bufio.NewWriterSize(os.Stdout, 1<<20)
	defer w.Flush()
	g := &gen{w: w, r: newRng(*seed), tier: *tier, pfx: *prop + "_"}
	if f, ok := generators[*prop]; ok {
		f(g)
		return
	}
	switch *prop {
	default:
		fmt.Fprintln(os.Stderr, "no generator for", *prop)
		os.Exit(2)
	}
	_ = g
}
