import TensorModel.Proofs.Kernels
/-! C12 — property theorems (see Proofs/Kernels.lean for the kernel-level lemmas). -/
namespace TM.C12
end TM.C12
