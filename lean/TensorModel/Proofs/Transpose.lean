import TensorModel.Run
/-! Helper lemmas for C03 (transposition). -/
namespace TM

end TM
