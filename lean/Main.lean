import TensorModel.Run
import TensorModel.OwnTrace
open TM

partial def loop (h : IO.FS.Stream) (out : IO.FS.Stream) : IO Unit := do
  let line ← h.getLine
  if line.isEmpty then return ()
  let l := line.trimAscii.toString
  if l.startsWith "OWN " then
    out.putStrLn (TM.Own.checkLine l)
  else if l != "" then
    for o in runProgram l do
      out.putStrLn o
  loop h out

def main : IO Unit := do
  let out ← IO.getStdout
  loop (← IO.getStdin) out
  out.flush
