package main

import (
	"fmt"
	"math"
	"reflect"
	"strconv"
	"strings"

	"gorgonia.org/tensor"
)

// dtype registry -------------------------------------------------------------------------------

type dtInfo struct {
	name string
	dt   tensor.Dtype
	kind string // "bool","int","uint","float","complex","string"
	bits int
}

var dtypes = []dtInfo{
	{"b", tensor.Bool, "bool", 8},
	{"i", tensor.Int, "int", 64}, {"i8", tensor.Int8, "int", 8}, {"i16", tensor.Int16, "int", 16},
	{"i32", tensor.Int32, "int", 32}, {"i64", tensor.Int64, "int", 64},
	{"u", tensor.Uint, "uint", 64}, {"u8", tensor.Uint8, "uint", 8}, {"u16", tensor.Uint16, "uint", 16},
	{"u32", tensor.Uint32, "uint", 32}, {"u64", tensor.Uint64, "uint", 64},
	{"f32", tensor.Float32, "float", 32}, {"f64", tensor.Float64, "float", 64},
	{"c64", tensor.Complex64, "complex", 64}, {"c128", tensor.Complex128, "complex", 128},
	{"str", tensor.String, "string", 0},
	// an element type outside the "specialised" ones (no arithmetic, no ordering): data movement and serialisation only
	{"uptr", tensor.Uintptr, "uint", 64},
	// a user-defined element type (an array of two int16): no kernel knows it - addressing, views and copies go through
	// the generic (reflect / byte-wise) paths
	{"arr2", tensor.Dtype{Type: reflect.TypeOf([2]int16{})}, "other", 0},
}

func dtByName(n string) *dtInfo {
	for i := range dtypes {
		if dtypes[i].name == n {
			return &dtypes[i]
		}
	}
	return nil
}

func dtOf(t tensor.Dtype) *dtInfo {
	for i := range dtypes {
		if dtypes[i].dt == t {
			return &dtypes[i]
		}
	}
	return nil
}

// fromInt64 converts a small integer to the scalar of the dtype (wrapping for narrow ints).
func (d *dtInfo) fromInt(n int64) interface{} {
	switch d.name {
	case "b":
		return n%2 != 0
	case "i":
		return int(n)
	case "i8":
		return int8(n)
	case "i16":
		return int16(n)
	case "i32":
		return int32(n)
	case "i64":
		return int64(n)
	case "u":
		return uint(n)
	case "u8":
		return uint8(n)
	case "u16":
		return uint16(n)
	case "u32":
		return uint32(n)
	case "u64":
		return uint64(n)
	case "uptr":
		return uintptr(n)
	case "arr2":
		return [2]int16{int16(n), int16(-n)}
	case "f32":
		return float32(n)
	case "f64":
		return float64(n)
	case "c64":
		return complex(float32(n), float32(-n/2))
	case "c128":
		return complex(float64(n), float64(-n/2))
	case "str":
		return "s" + strconv.FormatInt(n, 10)
	}
	panic("bad dtype " + d.name)
}

func (d *dtInfo) zero() interface{} { return reflect.Zero(d.dt.Type).Interface() }

// special value tables for arithmetic value sets
var specialF = []float64{0, math.Copysign(0, -1), 1, -1, 2.5, -7, 1e30, -1e30, math.Inf(1), math.Inf(-1), math.NaN(), 5e-324, 3, 0.5, 100, -0.25}
var specialI = []int64{0, 1, -1, 2, -7, 127, -128, 255, 32767, -32768, 65535, math.MaxInt32, math.MinInt32, math.MaxInt64, math.MinInt64, 3, 5, -3, 100, 7}

// strings a text format may trip over: a leading '#' (comment character of many readers), separators, quotes, non-ASCII
var specialS = []string{"#hash", "s1", "#", "x#y", "a b", "ünï", "q\"uote", "c,omma", "semi;colon", "7", "-1.5", "#2 3", "tab\there"}

// genVal is the deterministic content of cell i of buffer buf under value set vset.
//   vset 0: distinct small values 1+i+37*buf (data movement)
//   vset 1: special values (overflow, negative, zero, non-finite), cycling
//   vset 2: small positive integers 1..9 (exact in every numeric type)
//   vset 3: small values with ties and negatives  (-2..2)
//   vset 4: floats around 1 at distances 2^-20 and 2^-10 (tolerance tests); other types as vset 0
func (d *dtInfo) genVal(vset, buf, i int) interface{} {
	switch vset {
	case 1:
		switch d.kind {
		case "float":
			f := specialF[(i+3*buf)%len(specialF)]
			if d.bits == 32 {
				return float32(f)
			}
			return f
		case "complex":
			re := specialF[(i+3*buf)%len(specialF)]
			im := specialF[(2*i+buf+1)%len(specialF)]
			if d.bits == 64 {
				return complex(float32(re), float32(im))
			}
			return complex(re, im)
		case "int", "uint":
			return d.fromInt(specialI[(i+5*buf)%len(specialI)])
		}
		if d.name == "str" {
			return specialS[(i+3*buf)%len(specialS)]
		}
		return d.fromInt(int64(1 + i + 37*buf))
	case 2:
		return d.fromInt(int64(1 + (i*7+buf*3)%9))
	case 3:
		return d.fromInt(int64((i*3+buf)%5 - 2))
	case 4: // floats: a reference value and its neighbours at distance 2^-20 (exact in float32) - tolerances
		if d.kind == "float" {
			// … followed by a triple whose product is not representable and cancels against the third value:
			// (1+2^-30)(1-2^-30) - 1 is -2^-60 when rounded once (fused) and 0 when the product is rounded first
			f := []float64{1, 1 + 1.0/(1<<20), 1 - 1.0/(1<<20), 2, 1, 0.5, 1 + 1.0/(1<<10), 3,
				1 + 1.0/(1<<30), 1 - 1.0/(1<<30), -1, 0.1, 0.3, -0.03}[(i+buf)%14]
			if d.bits == 32 {
				return float32(f)
			}
			return f
		}
		return d.fromInt(int64(1 + i + 37*buf))
	}
	return d.fromInt(int64(1 + i + 37*buf))
}

// litVal is the value of the literal token "w<k>" (written by setat/memset/scalar operands).
func (d *dtInfo) litVal(tok string) (interface{}, error) {
	if i := strings.IndexByte(tok, ':'); i >= 0 {
		// "w3:i16": the literal carries its own element type
		d2 := dtByName(tok[i+1:])
		if d2 == nil {
			return nil, fmt.Errorf("bad literal type in %q", tok)
		}
		return d2.litVal(tok[:i])
	}
	if len(tok) < 2 {
		return nil, fmt.Errorf("bad literal %q", tok)
	}
	n, err := strconv.ParseInt(tok[1:], 10, 64)
	if err != nil {
		return nil, err
	}
	switch tok[0] {
	case 'w': // distinct "written" marker, far from generated contents
		return d.fromInt(101 + n*3), nil
	case 'k': // small constant k<n>
		return d.fromInt(n), nil
	case 'q': // special value index
		return d.genVal(1, 0, int(n)), nil
	}
	return nil, fmt.Errorf("bad literal %q", tok)
}

func (d *dtInfo) makeSlice(n int, f func(i int) interface{}) interface{} {
	s := reflect.MakeSlice(reflect.SliceOf(d.dt.Type), n, n)
	for i := 0; i < n; i++ {
		s.Index(i).Set(reflect.ValueOf(f(i)))
	}
	return s.Interface()
}

// valEq compares two scalars of the same Go type bit-exactly, except that any NaN equals any NaN.
func valEq(a, b interface{}) bool {
	switch x := a.(type) {
	case float32:
		y, ok := b.(float32)
		if !ok {
			return false
		}
		if x != x && y != y {
			return true
		}
		return math.Float32bits(x) == math.Float32bits(y)
	case float64:
		y, ok := b.(float64)
		if !ok {
			return false
		}
		if x != x && y != y {
			return true
		}
		return math.Float64bits(x) == math.Float64bits(y)
	case complex64:
		y, ok := b.(complex64)
		if !ok {
			return false
		}
		return valEq(real(x), real(y)) && valEq(imag(x), imag(y))
	case complex128:
		y, ok := b.(complex128)
		if !ok {
			return false
		}
		return valEq(real(x), real(y)) && valEq(imag(x), imag(y))
	}
	return reflect.TypeOf(a) == reflect.TypeOf(b) && a == b
}

func fmtVal(v interface{}) string {
	switch x := v.(type) {
	case errMark:
		return string(x)
	case string:
		return strconv.Quote(x)
	}
	return fmt.Sprintf("%v", v)
}

// errMark is an element position that produced an error / panic instead of a value.
type errMark string
