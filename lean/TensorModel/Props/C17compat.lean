import TensorModel.Ext.Compat
import TensorModel.Proofs.Iter
import TensorModel.Proofs.Ltoi
import TensorModel.Proofs.Kernels
/-!
  C17 (conversions) — `ToMat64` / `FromMat64` / native accessors (`Ext/Compat.lean`).

  * refusal logic of `toMat64` (refused **iff** the tensor is not a matrix; never for any other reason —
    everything else is a panic or a result), independent of the element type;
  * which data path `ToMat64` takes as a function of (element type, safe, rawIsRowMajor);
  * the unfolding of `toMat64` on each path;
  * for a non-view, row-major, untransposed matrix (any element type with a conversion arm): the produced
    list is the per-type conversion (`bulkFn`: identity for float64, `tof64b` for float32, `tof64` for the
    integer and complex types) of the elements in row-major coordinate order — i.e. S's matrix, literally so
    for every type but the float types (`toMat64_spec_generic`; finding F91 repaired);
  * for every other matrix (views, lazily transposed, column-major, long windows — any strides): the
    produced list is `tof64` of the elements in row-major coordinate order, i.e. S's matrix
    (`toMat64_iter_spec`); both together: `toMat64_spec`;
  * the general lemma behind it: the raw window of a row-major tensor of any rank read left to right is
    the row-major listing of its elements (`rowMajor_elems_eq_raw`);
  * `FromMat64`: result shape / strides / per-type function, aliasing only for float64 + unsafe;
  * native accessors: the refusal logic does not mention the element type except through the equality
    test with the accessor's type (`checkNativeIterable_uniform`).
-/
set_option linter.unusedSimpArgs false
namespace TM.C17compat
open TM TM.Compat

/-! ## which path -/

/-- **Path selection of `ToMat64`**, as a function of (element type, safe, rawIsRowMajor). -/
theorem toMatPath_copy (dt : String) (safe raw : Bool) :
    toMatPath dt safe raw = .copyF64 ↔ (dt = "f64" ∧ safe = true ∧ raw = true) := by
  unfold toMatPath
  cases safe <;> cases raw <;> by_cases h : dt = "f64" <;> simp [h]

theorem toMatPath_bulk (dt : String) (safe raw : Bool) :
    toMatPath dt safe raw = .bulk ↔ (raw = true ∧ ¬(dt = "f64" ∧ safe = true)) := by
  unfold toMatPath
  cases safe <;> cases raw <;> by_cases h : dt = "f64" <;> simp [h]

theorem toMatPath_iter (dt : String) (safe raw : Bool) :
    toMatPath dt safe raw = .iter ↔ raw = false := by
  unfold toMatPath
  cases safe <;> cases raw <;> by_cases h : dt = "f64" <;> simp [h]

/-- the per-element path (`convToFloat64`, = the type-generic definition) is taken exactly when the raw
    window is not known to be the row-major listing — whatever the element type and the mode -/
theorem toMatPath_iter_indep (dt dt' : String) (s s' raw : Bool) :
    (toMatPath dt s raw = .iter) ↔ (toMatPath dt' s' raw = .iter) := by
  rw [toMatPath_iter, toMatPath_iter]

/-- the raw window is used only for tensors that are neither views nor lazily transposed, not
    column-major, with a window of exactly r·c cells -/
theorem rawIsRowMajor_iff (t : Dense) (r c : Int) :
    rawIsRowMajor t r c = true ↔
      (t.isMaterializable = false ∧ t.ap.o.col = false ∧ (t.win.len : Int) = r * c) := by
  unfold rawIsRowMajor
  cases t.isMaterializable <;> cases t.ap.o.col <;> simp

/-! ## refusals -/

/-- results that are not an error *return* (a value or a panic) -/
def NoErr {α} (r : Res α) : Prop := ∀ tag, r ≠ .error (.err tag)

theorem noErr_ok {α} (a : α) : NoErr (.ok a : Res α) := by intro tag h; cases h
theorem noErr_pure {α} (a : α) : NoErr (pure a : Res α) := noErr_ok a
theorem noErr_panic {α} (tag : String) : NoErr (throwPanic tag : Res α) := by
  intro t h; simp [throwPanic] at h

theorem noErr_bind {α β} (x : Res α) (f : α → Res β) (hx : NoErr x) (hf : ∀ a, NoErr (f a)) :
    NoErr (x >>= f) := by
  cases x with
  | ok a => exact hf a
  | error e =>
    cases e with
    | err tag => exact absurd rfl (hx tag)
    | panic tag => intro t h; cases h

theorem noErr_mapM {α β} (f : α → Res β) (hf : ∀ a, NoErr (f a)) : ∀ (l : List α), NoErr (l.mapM f)
  | [] => by rw [List.mapM_nil]; exact noErr_pure _
  | x :: xs => by
    rw [List.mapM_cons]
    exact noErr_bind _ _ (hf x) (fun b => noErr_bind _ _ (noErr_mapM f hf xs) (fun bs => noErr_pure _))

theorem noErr_get (st : St) (w : Win) (i : Int) : NoErr (st.get w i) := by
  unfold St.get
  split
  · exact noErr_panic _
  · split
    · exact noErr_panic _
    · split
      · exact noErr_panic _
      · exact noErr_ok _

theorem noErr_rawCells (st : St) (t : Dense) : NoErr (t.rawCells st) :=
  noErr_mapM _ (fun i => noErr_get st t.win i) _

theorem noErr_newDense (r c : Int) (data : List Val) (b : Bool) : NoErr (newDense r c data b) := by
  unfold newDense
  split
  · exact noErr_panic _
  · split
    · exact noErr_pure _
    · split
      · exact noErr_panic _
      · exact noErr_pure _

theorem noErr_convToFloat64s (st : St) (t : Dense) : NoErr (convToFloat64s st t) := by
  unfold convToFloat64s
  split
  · exact noErr_panic _
  · apply noErr_bind _ _ (noErr_rawCells st t)
    intro raw
    split
    · exact noErr_pure _
    · exact noErr_pure _

theorem noErr_convIter (st : St) (t : Dense) : NoErr (convIter st t) := by
  unfold convIter
  apply noErr_mapM
  intro i
  apply noErr_bind _ _ (noErr_get st t.win i)
  intro v
  split
  · exact noErr_panic _
  · exact noErr_pure _

/-- **Refusal logic of `ToMat64`: an error is returned iff the tensor is not a matrix** (rank ≠ 2) —
    for every element type, mode, layout and heap. (On a matrix the call yields a matrix or panics:
    no conversion arm for the type, `mat.NewDense` on an empty / mis-sized window.) -/
theorem toMat64_refuses_iff (st : St) (t : Dense) (safe : Bool) :
    (∃ tag, toMat64 st t safe = .error (.err tag)) ↔ t.dims ≠ 2 := by
  constructor
  · rintro ⟨tag, h⟩ hd
    have hsh : ∃ r c, t.shape = [r, c] := by
      unfold Dense.dims at hd
      unfold Dense.shape
      match hs : t.ap.shape, hd with
      | [r, c], _ => exact ⟨r, c, rfl⟩
    obtain ⟨r, c, hsh⟩ := hsh
    have hno : NoErr (toMat64 st t safe) := by
      unfold toMat64
      rw [hsh]
      simp only
      cases toMatPath t.dt safe (rawIsRowMajor t r c) with
      | copyF64 =>
        simp only
        apply noErr_bind _ _ (noErr_rawCells st t)
        intro raw
        apply noErr_bind _ _ (noErr_newDense _ _ _ _)
        intro _; exact noErr_pure _
      | bulk =>
        simp only
        apply noErr_bind _ _ (noErr_convToFloat64s st t)
        intro p
        apply noErr_bind _ _ (noErr_newDense _ _ _ _)
        intro _; exact noErr_pure _
      | iter =>
        simp only
        apply noErr_bind _ _ (noErr_convIter st t)
        intro vals
        apply noErr_bind _ _ (noErr_newDense _ _ _ _)
        intro _; exact noErr_pure _
    exact hno tag h
  · intro hd
    refine ⟨"Cannot convert *Dense to *mat.Dense. Expected number of dimensions: <=2", ?_⟩
    unfold toMat64
    have : ∀ r c, t.shape ≠ [r, c] := by
      intro r c h
      apply hd
      unfold Dense.dims
      unfold Dense.shape at h
      rw [h]; rfl
    split
    · rename_i r c h; exact absurd h (this r c)
    · rfl

/-- the refusal does not depend on the element type, the mode or the heap -/
theorem toMat64_refusal_uniform (st st' : St) (t t' : Dense) (s s' : Bool) (h : t.ap.shape = t'.ap.shape) :
    (∃ tag, toMat64 st t s = .error (.err tag)) ↔ (∃ tag, toMat64 st' t' s' = .error (.err tag)) := by
  rw [toMat64_refuses_iff, toMat64_refuses_iff]
  unfold Dense.dims
  rw [h]

/-! ## unfolding per path -/

theorem toMat64_copy (st : St) (t : Dense) (r c : Int) (hsh : t.shape = [r, c])
    (hdt : t.dt = "f64") (hm : rawIsRowMajor t r c = true) :
    toMat64 st t true = (do
      let raw ← t.rawCells st
      let data ← newDense r c raw false
      pure ⟨r, c, data, false⟩) := by
  unfold toMat64
  rw [hsh]
  simp only
  have : toMatPath t.dt true (rawIsRowMajor t r c) = .copyF64 := (toMatPath_copy _ _ _).2 ⟨hdt, rfl, hm⟩
  rw [this]

theorem toMat64_bulk (st : St) (t : Dense) (safe : Bool) (r c : Int) (hsh : t.shape = [r, c])
    (hm : rawIsRowMajor t r c = true) (hns : ¬(t.dt = "f64" ∧ safe = true)) :
    toMat64 st t safe = (do
      let (vals, alias) ← convToFloat64s st t
      let data ← newDense r c vals false
      pure ⟨r, c, data, alias⟩) := by
  unfold toMat64
  rw [hsh]
  simp only
  have : toMatPath t.dt safe (rawIsRowMajor t r c) = .bulk := (toMatPath_bulk _ _ _).2 ⟨hm, hns⟩
  rw [this]

theorem toMat64_iter (st : St) (t : Dense) (safe : Bool) (r c : Int) (hsh : t.shape = [r, c])
    (hm : rawIsRowMajor t r c = false) :
    toMat64 st t safe = (do
      let vals ← convIter st t
      let data ← newDense r c vals vals.isEmpty
      pure ⟨r, c, data, false⟩) := by
  unfold toMat64
  rw [hsh]
  simp only
  have : toMatPath t.dt safe (rawIsRowMajor t r c) = .iter := (toMatPath_iter _ _ _).2 hm
  rw [this]

/-! ## row-major storage read left to right = the logical elements in coordinate order -/

theorem allCoords_inBox : ∀ (sh : Shape) (c : List Int), c ∈ allCoords sh → inBox sh c = true
  | [], c, h => by
    simp [allCoords] at h
    subst h; rfl
  | d :: ds, c, h => by
    simp only [allCoords, List.mem_flatMap, List.mem_map] at h
    obtain ⟨i, hi, c', hc', rfl⟩ := h
    simp only [rangeI, List.mem_map, List.mem_range] at hi
    obtain ⟨k, hk, rfl⟩ := hi
    simp only [inBox, Bool.and_eq_true, decide_eq_true_eq]
    have hk0 : (0 : Int) ≤ Int.ofNat k := Int.natCast_nonneg k
    have hk1 : Int.ofNat k < d := by
      have : (k : Int) < d := by omega
      exact this
    exact ⟨⟨hk0, hk1⟩, allCoords_inBox ds c' hc'⟩

/-- the row-major ranks of the coordinates, listed in coordinate order, are `0, 1, …, ∏shape − 1` -/
theorem allCoords_map_rowRank : ∀ (sh : Shape), (∀ d ∈ sh, 0 < d) →
    (allCoords sh).map (rowRank sh) = rangeI (prod sh).toNat
  | [], _ => by simp [allCoords, rowRank, calcStrides, dot, prod, rangeI, List.range_succ]
  | d :: ds, h => by
    have hd : 0 < d := h d (by simp)
    have hp : ∀ x ∈ ds, 0 < x := fun x hx => h x (by simp [hx])
    have hP : 0 < prod ds := prod_pos ds hp
    have ih := allCoords_map_rowRank ds hp
    simp only [allCoords, prod, rangeI]
    rw [Int.toNat_mul (Int.le_of_lt hd) (Int.le_of_lt hP), range_mul_map, List.map_flatMap, List.flatMap_map]
    apply flatMap_congr'
    intro i hi
    rw [List.map_map]
    have : (allCoords ds).map (rowRank (d :: ds) ∘ fun x => Int.ofNat i :: x) =
        ((allCoords ds).map (rowRank ds)).map (fun r => Int.ofNat i * prod ds + r) := by
      rw [List.map_map]
      apply List.map_congr_left
      intro c _
      simp only [Function.comp, rowRank_cons]
    rw [this, ih]
    simp only [rangeI, List.map_map]
    apply List.map_congr_left
    intro j hj
    simp only [List.mem_range] at hi hj
    simp only [Function.comp]
    show (i : Int) * prod ds + (j : Int) = ((i * (prod ds).toNat + j : Nat) : Int)
    rw [Int.natCast_add, Int.natCast_mul, Int.toNat_of_nonneg (Int.le_of_lt hP)]

theorem mapM_congr' {α β} (f g : α → Res β) : ∀ (l : List α), (∀ x ∈ l, f x = g x) → l.mapM f = l.mapM g
  | [], _ => rfl
  | x :: xs, h => by
    simp only [List.mapM_cons]
    rw [h x (by simp), mapM_congr' f g xs (fun y hy => h y (by simp [hy]))]

theorem mapM_map' {α β γ} (g : α → β) (f : β → Res γ) : ∀ (l : List α), (l.map g).mapM f = l.mapM (fun a => f (g a))
  | [] => rfl
  | x :: xs => by
    simp only [List.map_cons, List.mapM_cons]
    rw [mapM_map' g f xs]

/-- **Row-major storage = logical order (any rank).** For a tensor with positive dimensions, row-major
    default strides and a window of exactly `∏shape` cells, reading every coordinate with `At` in
    row-major coordinate order is reading the raw window left to right. -/
theorem rowMajor_elems_eq_raw (st : St) (t : Dense) (hpos : ∀ d ∈ t.shape, 0 < d)
    (hstr : t.strides = calcStrides t.shape) (hlen : t.win.len = (totalSize t.shape).toNat) :
    (allCoords t.shape).mapM (fun c => t.at_ st c) = t.rawCells st := by
  have hl : t.strides.length = t.shape.length := by rw [hstr]; exact calcStrides_length _
  have h1 : (allCoords t.shape).mapM (fun c => t.at_ st c) =
      (allCoords t.shape).mapM (fun c => st.get t.win (rowRank t.shape c)) := by
    apply mapM_congr'
    intro c hc
    rw [at_inBox st t c hl (allCoords_inBox _ _ hc), hstr]
    rfl
  rw [h1, ← mapM_map' (rowRank t.shape) (fun i => st.get t.win i), allCoords_map_rowRank _ hpos]
  unfold Dense.rawCells
  rw [hlen]
  rfl

theorem convToFloat64s_ok (st : St) (t : Dense) (cells : List Val) (hdt : t.dt ∈ convTypes)
    (hraw : t.rawCells st = .ok cells) :
    convToFloat64s st t = .ok (cells.map (bulkFn t.dt), t.dt == "f64") := by
  unfold convToFloat64s
  have hc : convTypes.contains t.dt = true := by simpa using hdt
  simp only [hc, Bool.not_true, Bool.false_eq_true, if_false, hraw]
  by_cases h : (t.dt == "f64") = true
  · simp [h, bulkFn, bind, Except.bind, pure, Except.pure]
  · simp [h, bind, Except.bind, pure, Except.pure]

/-- **Main path = specification (contiguous row-major non-view matrix).** Let `t` be an r×c matrix
    (r, c > 0) that is neither a view nor lazily transposed, with row-major strides and a window of r·c
    readable cells, of an element type with a conversion arm. Then `ToMat64` (either mode) returns the
    r×c matrix whose data are the per-type conversion of the elements **in row-major coordinate order**:
    `es` is the list of `At(i,j)` for (i,j) = (0,0),(0,1),…,(r-1,c-1), and the data are `es.map (bulkFn dt)`
    (`bulkFn`). The matrix shares the tensor's storage only for float64 + unsafe. -/
theorem toMat64_rowMajor (st : St) (t : Dense) (safe : Bool) (r c : Int) (cells : List Val)
    (hsh : t.shape = [r, c]) (hr : 0 < r) (hc : 0 < c)
    (hstr : t.strides = calcStrides t.shape) (hm : t.isMaterializable = false) (hcol : t.ap.o.col = false)
    (hlen : t.win.len = (r * c).toNat) (hdt : t.dt ∈ convTypes)
    (hraw : t.rawCells st = .ok cells) :
    (allCoords t.shape).mapM (fun crd => t.at_ st crd) = .ok cells ∧
    toMat64 st t safe = .ok ⟨r, c, cells.map (bulkFn t.dt), t.dt == "f64" && !safe⟩ := by
  have hpos : ∀ d ∈ t.shape, 0 < d := by
    rw [hsh]; intro d hd
    simp at hd
    rcases hd with rfl | rfl <;> assumption
  have hts : totalSize t.shape = r * c := by rw [hsh]; simp [totalSize, prod]
  have hraw' : rawIsRowMajor t r c = true := by
    rw [rawIsRowMajor_iff]
    refine ⟨hm, hcol, ?_⟩
    rw [hlen]
    exact Int.toNat_of_nonneg (Int.mul_nonneg (Int.le_of_lt hr) (Int.le_of_lt hc))
  have hcl : cells.length = (r * c).toNat := by
    have : cells.length = (rangeI t.win.len).length := by
      unfold Dense.rawCells at hraw
      -- length of a successful mapM
      have key : ∀ (l : List Int) (vs : List Val), l.mapM (fun i => st.get t.win i) = .ok vs → vs.length = l.length := by
        intro l
        induction l with
        | nil => intro vs h; simp only [List.mapM_nil, pure, Except.pure] at h; injection h with h; subst h; rfl
        | cons x xs ih =>
          intro vs h
          simp only [List.mapM_cons, bind, Except.bind] at h
          cases hx : st.get t.win x with
          | error e => rw [hx] at h; cases h
          | ok v =>
            rw [hx] at h
            simp only at h
            cases hxs : xs.mapM (fun i => st.get t.win i) with
            | error e => rw [hxs] at h; cases h
            | ok vs' =>
              rw [hxs] at h
              simp only [pure, Except.pure] at h
              injection h with h; subst h
              simp [ih vs' hxs]
      exact key _ _ hraw
    rw [this]; simp [rangeI, hlen]
  refine ⟨?_, ?_⟩
  · rw [rowMajor_elems_eq_raw st t hpos hstr (by rw [hts]; exact hlen), hraw]
  · have hnd : ∀ (vals : List Val), vals.length = (r * c).toNat → newDense r c vals false = .ok vals := by
      intro vals hv
      unfold newDense
      have h1 : ¬(r ≤ 0 ∨ c ≤ 0) := by omega
      have hrc : 0 ≤ r * c := Int.mul_nonneg (Int.le_of_lt hr) (Int.le_of_lt hc)
      have h2 : (vals.length : Int) = r * c := by rw [hv]; exact Int.toNat_of_nonneg hrc
      simp [h1, h2, pure, Except.pure]
    by_cases hs : t.dt = "f64" ∧ safe = true
    · obtain ⟨hf, rfl⟩ := hs
      rw [toMat64_copy st t r c hsh hf hraw', hraw]
      simp only [bind, Except.bind]
      rw [hnd cells hcl]
      simp [pure, Except.pure, bulkFn, hf]
    · rw [toMat64_bulk st t safe r c hsh hraw' hs, convToFloat64s_ok st t cells hdt hraw]
      simp only [bind, Except.bind]
      rw [hnd _ (by simpa using hcl)]
      simp only [pure, Except.pure]
      congr 2
      cases safe with
      | false => simp
      | true =>
        have : t.dt ≠ "f64" := fun h => hs ⟨h, rfl⟩
        simp [this]

/-! ## every other layout: the per-element path = specification -/

theorem mapM_ok_map {α} (g : α → Res Val) (f : Val → Val) :
    ∀ (l : List α) (es : List Val), l.mapM g = .ok es →
      l.mapM (fun a => do let v ← g a; pure (f v)) = .ok (es.map f)
  | [], es, h => by
    simp only [List.mapM_nil, pure, Except.pure] at h ⊢
    injection h with h; subst h; rfl
  | x :: xs, es, h => by
    simp only [List.mapM_cons, bind, Except.bind] at h ⊢
    cases hx : g x with
    | error e => rw [hx] at h; cases h
    | ok v =>
      rw [hx] at h
      simp only at h
      cases hxs : xs.mapM g with
      | error e => rw [hxs] at h; cases h
      | ok vs =>
        rw [hxs] at h
        simp only [pure, Except.pure] at h
        injection h with h; subst h
        have ih := mapM_ok_map g f xs vs hxs
        simp only [bind, Except.bind, pure, Except.pure] at ih
        simp only [pure, Except.pure]
        rw [ih]
        rfl

theorem mapM_ok_length {α β} (g : α → Res β) :
    ∀ (l : List α) (es : List β), l.mapM g = .ok es → es.length = l.length
  | [], es, h => by
    simp only [List.mapM_nil, pure, Except.pure] at h
    injection h with h; subst h; rfl
  | x :: xs, es, h => by
    simp only [List.mapM_cons, bind, Except.bind] at h
    cases hx : g x with
    | error e => rw [hx] at h; cases h
    | ok v =>
      rw [hx] at h
      simp only at h
      cases hxs : xs.mapM g with
      | error e => rw [hxs] at h; cases h
      | ok vs =>
        rw [hxs] at h
        simp only [pure, Except.pure] at h
        injection h with h; subst h
        simp [mapM_ok_length g xs vs hxs]

/-- **Per-element path = specification (any layout).** Let `t` be an r×c matrix (r, c > 0) with one stride
    per axis — whatever the strides, offsets, flags: views, lazily transposed tensors, column-major
    tensors, windows longer than r·c — on which `ToMat64` does not take a bulk path, of an element type
    with a conversion arm. If `es` lists `At(i,j)` for (i,j) = (0,0),(0,1),…,(r-1,c-1), then `ToMat64`
    (either mode) returns the r×c matrix with data `es.map tof64` (a fresh slice): S's matrix. -/
theorem toMat64_iter_spec (st : St) (t : Dense) (safe : Bool) (r c : Int) (es : List Val)
    (hsh : t.shape = [r, c]) (hr : 0 < r) (hc : 0 < c)
    (hl : t.strides.length = t.shape.length) (hraw : rawIsRowMajor t r c = false)
    (hdt : t.dt ∈ convTypes)
    (hes : (allCoords t.shape).mapM (fun crd => t.at_ st crd) = .ok es) :
    toMat64 st t safe = .ok ⟨r, c, es.map (Val.app1 "tof64"), false⟩ := by
  have hpos : ∀ d ∈ t.shape, 0 < d := by
    rw [hsh]; intro d hd
    simp at hd
    rcases hd with rfl | rfl <;> assumption
  have hrc : 0 < r * c := Int.mul_pos hr hc
  have hct : convTypes.contains t.dt = true := by simpa using hdt
  -- the elements by coordinate are the cells at the iterator's offsets
  have h1 : (allCoords t.shape).mapM (fun crd => t.at_ st crd) =
      (t.offsets).mapM (fun i => st.get t.win i) := by
    unfold Dense.offsets
    rw [offsets_rowmajor t.ap hl hpos, mapM_map']
    apply mapM_congr'
    intro crd hcrd
    exact at_inBox st t crd hl (allCoords_inBox _ _ hcrd)
  have hci : convIter st t = .ok (es.map (Val.app1 "tof64")) := by
    unfold convIter
    simp only [hct, Bool.not_true, Bool.false_eq_true, if_false]
    exact mapM_ok_map _ _ _ _ (h1 ▸ hes)
  have hlen : es.length = (r * c).toNat := by
    rw [mapM_ok_length _ _ _ hes, allCoords_length _ hpos, hsh]
    simp [prod]
  rw [toMat64_iter st t safe r c hsh hraw, hci]
  simp only [bind, Except.bind]
  have hne : (es.map (Val.app1 "tof64")).isEmpty = false := by
    cases es with
    | nil => simp at hlen; omega
    | cons _ _ => rfl
  unfold newDense
  have h1' : ¬(r ≤ 0 ∨ c ≤ 0) := by omega
  have h2 : (es.length : Int) = r * c := by
    rw [hlen]; exact Int.toNat_of_nonneg (Int.le_of_lt hrc)
  simp [h1', h2, hne, pure, Except.pure]

/-- **`ToMat64` = specification on every well-formed matrix** (finding F90 repaired): for an r×c matrix
    (r, c > 0) with one stride per axis, of an element type with a conversion arm, whose elements by
    coordinate are `es`, the call returns the r×c matrix whose data are the conversion of `es` **in
    row-major coordinate order** — `tof64` on the per-element path, the per-type bulk function
    (`bulkFn`: identity for float64, `tof64b` for float32, `tof64` itself for every other type) when the raw
    window is taken, which happens only for row-major strides (`hbulk`: the metadata invariant of
    non-view row-major tensors). -/
theorem toMat64_spec (st : St) (t : Dense) (safe : Bool) (r c : Int) (es : List Val)
    (hsh : t.shape = [r, c]) (hr : 0 < r) (hc : 0 < c)
    (hl : t.strides.length = t.shape.length) (hdt : t.dt ∈ convTypes)
    (hbulk : rawIsRowMajor t r c = true → t.strides = calcStrides t.shape)
    (hes : (allCoords t.shape).mapM (fun crd => t.at_ st crd) = .ok es) :
    ∃ m, toMat64 st t safe = .ok m ∧ m.rows = r ∧ m.cols = c ∧
      m.data = es.map (if rawIsRowMajor t r c then bulkFn t.dt else Val.app1 "tof64") := by
  cases hraw : rawIsRowMajor t r c with
  | false =>
    exact ⟨_, toMat64_iter_spec st t safe r c es hsh hr hc hl hraw hdt hes, rfl, rfl, by simp⟩
  | true =>
    obtain ⟨hm, hcol, hwl⟩ := (rawIsRowMajor_iff t r c).1 hraw
    have hpos : ∀ d ∈ t.shape, 0 < d := by
      rw [hsh]; intro d hd
      simp at hd
      rcases hd with rfl | rfl <;> assumption
    have hlen : t.win.len = (r * c).toNat := by omega
    have hts : totalSize t.shape = r * c := by rw [hsh]; simp [totalSize, prod]
    have hrawc : t.rawCells st = .ok es := by
      rw [← rowMajor_elems_eq_raw st t hpos (hbulk hraw) (by rw [hts]; exact hlen)]; exact hes
    exact ⟨_, (toMat64_rowMajor st t safe r c es hsh hr hc (hbulk hraw) hm hcol hlen hdt hrawc).2, rfl, rfl, by simp⟩

/-- on every element type but the two float types the bulk arm is the per-element conversion itself -/
theorem bulkFn_generic (dt : String) (h32 : dt ≠ "f32") (h64 : dt ≠ "f64") : bulkFn dt = Val.app1 "tof64" := by
  have a : (dt == "f64") = false := by simpa using h64
  have b : (dt == "f32") = false := by simpa using h32
  simp [bulkFn, a, b]

/-- **`ToMat64` = specification, whichever path is taken** (the former finding F91, now unguarded): for every
    element type with a conversion arm other than the two float types — the ten integer types and both complex
    types — and every well-formed r×c matrix of any layout, the data are `tof64` of the elements in row-major
    coordinate order: S's matrix, literally. A tensor and a view / transposed copy / materialisation of it convert
    alike. (float64: the values themselves; float32: the arm's own special-casing `tof64b`, `toMat64_spec`.) -/
theorem toMat64_spec_generic (st : St) (t : Dense) (safe : Bool) (r c : Int) (es : List Val)
    (hsh : t.shape = [r, c]) (hr : 0 < r) (hc : 0 < c)
    (hl : t.strides.length = t.shape.length) (hdt : t.dt ∈ convTypes) (h32 : t.dt ≠ "f32") (h64 : t.dt ≠ "f64")
    (hbulk : rawIsRowMajor t r c = true → t.strides = calcStrides t.shape)
    (hes : (allCoords t.shape).mapM (fun crd => t.at_ st crd) = .ok es) :
    ∃ m, toMat64 st t safe = .ok m ∧ m.rows = r ∧ m.cols = c ∧ m.data = es.map (Val.app1 "tof64") := by
  obtain ⟨m, hm, h1, h2, h3⟩ := toMat64_spec st t safe r c es hsh hr hc hl hdt hbulk hes
  refine ⟨m, hm, h1, h2, ?_⟩
  rw [h3, bulkFn_generic t.dt h32 h64]
  simp

/-! ## FromMat64 -/

/-- `FromMat64`: for a non-float64 numeric type the result is a fresh row-major (r,c) tensor of that type
    whose cell `k` is the type's arm (`fromFn dt`: `cvtm.<dt>` for the integer types and float32, the type-generic
    `cvt.<dt>` for the complex types) of entry `k` of the matrix; nothing is shared. -/
theorem fromMat64_converts (s : St) (dt : String) (r c : Int) (cells : Array Val) (safe : Bool)
    (hdt : dt ∈ convTypes) (hne : dt ≠ "f64") (hn : (cells.size : Int) = r * c) :
    ∃ o, fromMat64 s dt r c cells safe = .ok o ∧ o.alias = false ∧ o.d.dt = dt ∧ o.d.shape = [r, c] ∧
      o.d.strides = calcStrides [r, c] ∧ o.d.view = false ∧ o.d.old = none ∧
      o.st.heap = (s.heap.push cells).push (cells.map (fromFn dt)) ∧
      o.d.win = ⟨s.heap.size + 1, 0, cells.size, cells.size⟩ := by
  have hc : convTypes.contains dt = true := by simpa using hdt
  have hf : (dt == "f64") = false := by simpa using hne
  have hts : totalSize [r, c] = r * c := by simp [totalSize, prod]
  unfold fromMat64
  simp only [St.alloc, hc, Bool.not_true, Bool.false_eq_true, if_false, hf, Dense.newRow, Array.size_map]
  have h1 : ¬(([r, c] : Shape) != [] && ((cells.size : Int) != totalSize [r, c])) = true := by
    rw [hts, hn]; simp
  have h2 : ¬((([r, c] : Shape) == []) && (cells.size == 0)) = true := by simp
  simp only [h1, h2, if_false, bind, Except.bind, pure, Except.pure]
  refine ⟨_, rfl, rfl, rfl, rfl, rfl, rfl, rfl, ?_, ?_⟩
  · simp
  · simp [Array.size_push]

/-- **`FromMat64(m, As(Complex64 | Complex128))` = specification** (the former finding F92, now unguarded): every
    entry — finite or not — is converted by the type-generic function `cvt.<dt>` = `complex(T'(v), 0)`, the very
    function S applies; so the created tensor is S's tensor cell by cell. -/
theorem fromMat64_complex_spec (s : St) (dt : String) (r c : Int) (cells : Array Val) (safe : Bool)
    (hdt : dt = "c64" ∨ dt = "c128") (hn : (cells.size : Int) = r * c) :
    ∃ o, fromMat64 s dt r c cells safe = .ok o ∧ o.d.dt = dt ∧ o.d.shape = [r, c] ∧
      o.st.heap = (s.heap.push cells).push (cells.map (Val.app1 s!"cvt.{dt}")) ∧
      o.d.win = ⟨s.heap.size + 1, 0, cells.size, cells.size⟩ := by
  have hmem : dt ∈ convTypes := by rcases hdt with rfl | rfl <;> decide
  have hne : dt ≠ "f64" := by rcases hdt with rfl | rfl <;> decide
  obtain ⟨o, ho, _, h2, h3, _, _, _, h7, h8⟩ := fromMat64_converts s dt r c cells safe hmem hne hn
  refine ⟨o, ho, h2, h3, ?_, h8⟩
  rw [h7]
  rcases hdt with rfl | rfl <;> rfl

/-- float64 + unsafe: the tensor *is* the matrix' backing array (no copy, no conversion) -/
theorem fromMat64_f64_unsafe_aliases (s : St) (r c : Int) (cells : Array Val) (hn : (cells.size : Int) = r * c) :
    ∃ o, fromMat64 s "f64" r c cells false = .ok o ∧ o.alias = true ∧ o.d.win.buf = s.heap.size ∧
      o.st.heap = s.heap.push cells ∧ o.d.shape = [r, c] ∧ o.d.strides = calcStrides [r, c] := by
  have hts : totalSize [r, c] = r * c := by simp [totalSize, prod]
  unfold fromMat64
  have hc : convTypes.contains "f64" = true := by decide
  simp only [St.alloc, hc, Bool.not_true, Bool.false_eq_true, if_false, if_true, BEq.rfl]
  have h1 : ¬((cells.size : Int) != totalSize [r, c]) = true := by rw [hts, hn]; simp
  simp only [h1, if_false, bind, Except.bind, pure, Except.pure]
  exact ⟨_, rfl, rfl, rfl, rfl, rfl, rfl⟩

/-- types without an arm (bool, string, …) panic, whatever the matrix -/
theorem fromMat64_unsupported (s : St) (dt : String) (r c : Int) (cells : Array Val) (safe : Bool)
    (hdt : dt ∉ convTypes) : ∃ tag, fromMat64 s dt r c cells safe = .error (.panic tag) := by
  have hc : convTypes.contains dt = false := by simpa using hdt
  unfold fromMat64
  simp only [St.alloc, hc, Bool.not_false, if_true, throwPanic]
  exact ⟨_, rfl⟩

/-! ## native accessors -/

/-- **The refusals of the native accessors are uniform across element types**: whether
    `checkNativeIterable` refuses depends on the rank, the layout flags and on whether the tensor's type *is*
    the accessor's type — two tensors of different element types with the same metadata, each asked through
    its own type's accessor, are refused alike. -/
theorem checkNativeIterable_uniform (t t' : Dense) (dims : Nat)
    (hap : t.ap = t'.ap) (hold : t.old = t'.old) (hwin : t.win.len = t'.win.len)
    (hmask : t.mask = t'.mask) :
    (checkNativeIterable t dims t.dt).isOk = (checkNativeIterable t' dims t'.dt).isOk := by
  unfold checkNativeIterable Dense.dims Dense.requiresIterator Dense.isMasked
  rw [hap, hold, hwin, hmask]
  simp only [bne_self_eq_false, Bool.false_eq_true, if_false]

/-- an accessor of another element type always refuses -/
theorem checkNativeIterable_wrong_type (t : Dense) (dims : Nat) (acc : String) (h : t.dt ≠ acc) :
    ∃ tag, checkNativeIterable t dims acc = .error (.err tag) := by
  unfold checkNativeIterable
  have hd : (t.dt != acc) = true := by simpa using h
  by_cases h1 : (t.dims != dims) = true
  · simp only [h1, if_true, bind, Except.bind, throwErr]; exact ⟨_, rfl⟩
  · by_cases h2 : ((t.ap.o.col && !t.ap.o.nonContig) || t.requiresIterator) = true
    · simp only [h1, h2, if_true, if_false, bind, Except.bind, throwErr, pure, Except.pure]; exact ⟨_, rfl⟩
    · simp only [h1, h2, hd, if_true, if_false, bind, Except.bind, throwErr, pure, Except.pure]; exact ⟨_, rfl⟩

/-- … and so does an accessor of another rank -/
theorem checkNativeIterable_wrong_rank (t : Dense) (dims : Nat) (acc : String) (h : t.dims ≠ dims) :
    ∃ tag, checkNativeIterable t dims acc = .error (.err tag) := by
  unfold checkNativeIterable
  have hd : (t.dims != dims) = true := by simpa using h
  simp only [hd, if_true, bind, Except.bind, throwErr]; exact ⟨_, rfl⟩

/-! ## non-vacuity / defect witnesses (kernel-checked) -/

def wSt : St := { heap := #[#[Val.src 0 0, Val.src 0 1, Val.src 0 2, Val.src 0 3]] }
def wT : Dense := { ap := { shape := [2, 2], strides := [1, 2], fin := true, o := { col := true } },
                    win := ⟨0, 0, 4, 4⟩, dt := "i16" }

/-- a column-major (2,2) tensor over cells a b c d lists a c b d by coordinate, and so does the matrix:
    the per-element path is taken (`rawIsRowMajor` is false) -/
theorem toMat64_colMajor_coord_order :
    (match toMat64 wSt wT true with
      | .ok m => m.data == [.app1 "tof64" (.src 0 0), .app1 "tof64" (.src 0 2), .app1 "tof64" (.src 0 1), .app1 "tof64" (.src 0 3)]
      | _ => false) = true ∧
    (match (allCoords wT.shape).mapM (fun c => wT.at_ wSt c) with
      | .ok es => es == [.src 0 0, .src 0 2, .src 0 1, .src 0 3]
      | _ => false) = true ∧
    rawIsRowMajor wT 2 2 = false := by
  decide +kernel

/-- … and a row-major tensor of the same shape takes the bulk path -/
theorem rowMajor_bulk :
    rawIsRowMajor { wT with ap := { shape := [2, 2], strides := [2, 1], fin := true } } 2 2 = true := by
  decide +kernel

/-- non-vacuity for `toMat64_spec_generic` (the former F91 witness): a row-major complex (2,2) tensor takes the bulk
    path and its data are `tof64` — the real part — of its cells, exactly as for the column-major one above -/
theorem toMat64_complex_bulk :
    (match toMat64 wSt { wT with ap := { shape := [2, 2], strides := [2, 1], fin := true }, dt := "c64" } true with
      | .ok m => m.data == [.app1 "tof64" (.src 0 0), .app1 "tof64" (.src 0 1), .app1 "tof64" (.src 0 2), .app1 "tof64" (.src 0 3)]
      | _ => false) = true := by
  decide +kernel

/-- non-vacuity for `fromMat64_complex_spec` (the former F92 witness `frommat c64 4,1`): the cells of the created
    tensor are `cvt.c64` of the matrix entries -/
theorem fromMat64_complex_cells :
    (match fromMat64 {} "c64" 4 1 #[.src 0 0, .src 0 1, .src 0 2, .src 0 3] true with
      | .ok o => o.st.heap[1]? == some #[.app1 "cvt.c64" (.src 0 0), .app1 "cvt.c64" (.src 0 1),
                                          .app1 "cvt.c64" (.src 0 2), .app1 "cvt.c64" (.src 0 3)] && o.d.shape == [4, 1]
      | _ => false) = true := by
  decide +kernel

end TM.C17compat
