import TensorModel.Proofs.Ltoi
import TensorModel.Proofs.CoreEq
import TensorModel.Proofs.ItolInv
/-!
  C01 — coordinate addressing is exact and bounds-checked.
  Property theorems only; helper lemmas live in `TensorModel/Proofs/Ltoi.lean`.
  All statements quantify over every rank, every dimension vector, every stride vector.
-/
namespace TM.C01

/-- Exactness of `Ltoi` (utils.go) for any access pattern with one stride per axis: an in-box
    coordinate is mapped to Σ cᵢ·sᵢ. -/
theorem ltoi_exact (shape : Shape) (strides c : List Int)
    (hlen : strides.length = shape.length) (hc : inBox shape c = true) :
    ltoi shape strides c = .ok (dot c strides) := by
  exact ltoi_exact' shape strides c hlen hc

/-- With the default row-major strides the offset is the row-major rank of the coordinate. -/
theorem ltoi_rowMajor (shape : Shape) (c : List Int) (hc : inBox shape c = true) :
    ltoi shape (calcStrides shape) c = .ok (rowRank shape c) := by
  exact ltoi_exact' shape _ c (calcStrides_length shape) hc

/-- **`Itol` inverts `Ltoi`** on the default row-major layout: splitting the flat offset of an in-box coordinate by the
    strides (`divmod` axis by axis, as the iterators and the in-place transposition do) gives back exactly that
    coordinate - any rank, any positive extents, any size of index (the arithmetic is over unbounded integers; the two
    builds' `divmod` are tied to it by `C20.divmod_asm_spec` / `C20.divmod_go_source`). -/
theorem itol_inverts_ltoi (shape : Shape) (hp : ∀ d ∈ shape, 0 < d) (c : List Int) (hc : inBox shape c = true) :
    ∃ k, ltoi shape (calcStrides shape) c = .ok k ∧ itol k shape (calcStrides shape) = .ok c :=
  ⟨rowRank shape c, ltoi_rowMajor shape c hc, itol_ltoi_rowMajor shape hp c hc⟩

example : (match itol 2621440007 [65536, 65536] [65536, 1] with | .ok c => c == [40000, 7] | _ => false) = true := by decide

/-- **source level (G)**: the regenerated `Itol` of `utils.go` delivers the model's coordinates and ends exactly when the
    model does, for all arguments (`Proofs/CoreEq`); hence, on the default layout, the source's `Itol` applied to the
    source's `Ltoi` of an in-box coordinate returns that coordinate. -/
theorem Itol_source_coords (i : Int) (shape strides : List Int) (hl : strides.length ≤ shape.length) :
    (match Gen.Itol i shape strides with | .ok r => some r.1 | .error _ => none) =
      (match itol i shape strides with | .ok cs => some cs | .error _ => none) :=
  Gen.Itol_coords i shape strides hl

theorem Itol_source_inverts_ltoi (shape : Shape) (hp : ∀ d ∈ shape, 0 < d) (c : List Int) (hc : inBox shape c = true) :
    (match Gen.Itol (rowRank shape c) shape (calcStrides shape) with | .ok r => some r.1 | .error _ => none) = some c := by
  rw [Itol_source_coords _ _ _ (by rw [calcStrides_length]; exact Nat.le_refl _), itol_ltoi_rowMajor shape hp c hc]

/-- With column-major strides (one per axis) the offset is the column-major rank. -/
theorem ltoi_colMajor (shape : Shape) (c : List Int) (hc : inBox shape c = true) :
    ltoi shape (prefixProds 1 shape) c = .ok (colRank shape c) := by
  exact ltoi_exact' shape _ c (prefixProds_length shape 1) hc

/-- The row-major rank of an in-box coordinate lies inside the backing. -/
theorem rowRank_bounds (shape : Shape) (c : List Int) (hc : inBox shape c = true) :
    0 ≤ rowRank shape c ∧ rowRank shape c < prod shape := by
  exact rowRank_bounds' shape c hc

/-- Distinct in-box coordinates have distinct row-major ranks ("exactly that one element"). -/
theorem rowRank_inj (shape : Shape) (c c' : List Int) (hc : inBox shape c = true) (hc' : inBox shape c' = true)
    (h : rowRank shape c = rowRank shape c') : c = c' := by
  exact rowRank_inj' shape c c' hc hc' h

theorem colRank_bounds (shape : Shape) (c : List Int) (hc : inBox shape c = true) :
    0 ≤ colRank shape c ∧ colRank shape c < prod shape := by
  exact colRank_bounds' shape c hc

theorem colRank_inj (shape : Shape) (c c' : List Int) (hc : inBox shape c = true) (hc' : inBox shape c' = true)
    (h : colRank shape c = colRank shape c') : c = c' := by
  exact colRank_inj' shape c c' hc hc' h

/-- Rejection: a coordinate of the right arity with a component negative or not smaller than its
    dimension is refused with an error value (never a panic, never an offset). -/
theorem ltoi_rejects (shape : Shape) (strides c : List Int)
    (hlen : strides.length = shape.length) (harity : c.length = shape.length)
    (hbad : inBox shape c = false) :
    ∃ tag, ltoi shape strides c = .error (.err tag) := by
  exact ltoi_rejects' shape strides c hlen harity hbad

/-- `At` refuses a coordinate of the wrong arity with an error. -/
theorem at_wrong_arity (st : St) (t : Dense) (c : List Int) (h : c.length ≠ t.dims) :
    ∃ tag, t.at_ st c = .error (.err tag) := by
  exact ⟨_, at_bad_arity st t c h⟩

/-- `At` / `SetAt` refuse every coordinate outside the box with an error; `SetAt` returns no new
    state in that case, i.e. nothing is written. -/
theorem at_rejects (st : St) (t : Dense) (c : List Int)
    (hlen : t.strides.length = t.shape.length) (hbad : inBox t.shape c = false) :
    (∃ tag, t.at_ st c = .error (.err tag)) ∧ (∀ v, ∃ tag, t.setAt st c v = .error (.err tag)) := by
  by_cases ha : c.length = t.dims
  · obtain ⟨tag, e⟩ := ltoi_rejects' t.shape t.strides c hlen ha hbad
    exact ⟨⟨tag, by rw [at_of_arity st t c ha, e]; rfl⟩,
      fun v => ⟨tag, by rw [setAt_of_arity st t c v ha, e]; rfl⟩⟩
  · exact ⟨⟨_, at_bad_arity st t c ha⟩, fun v => ⟨_, setAt_bad_arity st t c v ha⟩⟩

/-- `At` reads exactly the cell at offset Σ cᵢ·sᵢ of the tensor's storage window. -/
theorem at_reads (st : St) (t : Dense) (c : List Int)
    (hlen : t.strides.length = t.shape.length) (hc : inBox t.shape c = true) :
    t.at_ st c = st.get t.win (dot c t.strides) := by
  exact at_inBox st t c hlen hc

/-- cell `k` of buffer `b` of the heap -/
def cell (st : St) (b k : Nat) : Option Val := (st.heap[b]?).bind (·[k]?)

/-- `SetAt` writes the addressed cell … -/
theorem setAt_writes (st st' : St) (t : Dense) (c : List Int) (v : Val)
    (hlen : t.strides.length = t.shape.length) (hc : inBox t.shape c = true)
    (h : t.setAt st c v = .ok st') :
    t.at_ st' c = .ok v := by
  rw [setAt_inBox st t c v hlen hc] at h
  rw [at_inBox st' t c hlen hc]
  exact St.get_set_same h

/-- … and nothing else: every other cell of every buffer is unchanged, and so is the mask heap.

    NOTE: the statement as originally given read `∀ b k, (b ≠ t.win.buf ∨ (k : Int) ≠ …) → …` with
    untyped binders; that does not elaborate (the ascription `(k : Int)` makes Lean infer `k : Int`,
    and `cell st' b k` then fails with a type mismatch since `cell` takes `k : Nat`). The binder types
    `(b k : Nat)` are made explicit here so that `(k : Int)` is the intended coercion; nothing else
    is changed and no hypothesis is added. Original text:
      st'.mheap = st.mheap ∧
      ∀ b k, (b ≠ t.win.buf ∨ (k : Int) ≠ t.win.off + dot c t.strides) → cell st' b k = cell st b k -/
theorem setAt_frame (st st' : St) (t : Dense) (c : List Int) (v : Val)
    (hlen : t.strides.length = t.shape.length) (hc : inBox t.shape c = true)
    (h : t.setAt st c v = .ok st') :
    st'.mheap = st.mheap ∧
    ∀ (b k : Nat), (b ≠ t.win.buf ∨ (k : Int) ≠ t.win.off + dot c t.strides) → cell st' b k = cell st b k := by
  rw [setAt_inBox st t c v hlen hc] at h
  exact ⟨St.set_mheap h, fun b k hne => St.set_frame h b k hne⟩

/-- Consequence for a row-major tensor over its whole backing: writing coordinate `c` leaves the
    value read at every other in-box coordinate unchanged. -/
theorem setAt_other_coords (st st' : St) (t : Dense) (c c' : List Int) (v : Val)
    (hs : t.strides = calcStrides t.shape)
    (hc : inBox t.shape c = true) (hc' : inBox t.shape c' = true) (hne : c' ≠ c)
    (h : t.setAt st c v = .ok st') :
    t.at_ st' c' = t.at_ st c' := by
  have hlen : t.strides.length = t.shape.length := by rw [hs]; exact calcStrides_length _
  rw [setAt_inBox st t c v hlen hc] at h
  rw [at_inBox st' t c' hlen hc', at_inBox st t c' hlen hc']
  refine St.get_set_other h (fun he => hne ?_)
  rw [hs] at he
  exact rowRank_inj' t.shape c' c hc' hc he

-- non-vacuity: a concrete tensor meets the hypotheses, and the defect the `fix:` commit repaired
-- (negative component accepted) is rejected by the model
example : inBox [2, 3] [1, 2] = true ∧ ([3, 1] : List Int).length = ([2, 3] : Shape).length := by decide
example : (match ltoi [2, 3] [3, 1] [1, -1] with | .error (.err _) => true | _ => false) = true := by decide
example : (match ltoi [2, 3] [3, 1] [1, 2] with | .ok 5 => true | _ => false) = true := by decide

/-! ## the same statements about the regenerated source of `utils.go:Ltoi`

`Gen.Ltoi` is written by `tools/gol` from /repo's `utils.go` on every run (`Generated/Core.lean`);
`Proofs/CoreEq.lean` proves it equal (value / error / panic class) to the model function `ltoi` for all
arguments, so the theorems above are theorems about the function body as it is in the source now. -/

/-- the source of `Ltoi`, translated, is the model function -/
theorem Ltoi_source_is_model (shape strides coords : List Int) :
    Gen.clsE (Gen.Ltoi shape strides coords) = Gen.clsM (ltoi shape strides coords) :=
  Gen.Ltoi_eq shape strides coords

/-- `Ltoi` (source): an in-range coordinate yields exactly Σ cᵢ·sᵢ — no error, no panic. -/
theorem Ltoi_source_exact (shape : Shape) (strides c : List Int)
    (hlen : strides.length = shape.length) (hc : inBox shape c = true) :
    Gen.clsE (Gen.Ltoi shape strides c) = .val (dot c strides) := by
  rw [Gen.Ltoi_eq, ltoi_exact shape strides c hlen hc]; rfl

/-- `Ltoi` (source) on default row-major / column-major strides: the row-major / column-major rank. -/
theorem Ltoi_source_rowMajor (shape : Shape) (c : List Int) (hc : inBox shape c = true) :
    Gen.clsE (Gen.Ltoi shape (calcStrides shape) c) = .val (rowRank shape c) := by
  rw [Gen.Ltoi_eq, ltoi_rowMajor shape c hc]; rfl

theorem Ltoi_source_colMajor (shape : Shape) (c : List Int) (hc : inBox shape c = true) :
    Gen.clsE (Gen.Ltoi shape (prefixProds 1 shape) c) = .val (colRank shape c) := by
  rw [Gen.Ltoi_eq, ltoi_colMajor shape c hc]; rfl

/-- `Ltoi` (source): a coordinate of the right arity with a component negative or ≥ its dimension is
    rejected with an error value (not a panic, not an offset). -/
theorem Ltoi_source_rejects (shape : Shape) (strides c : List Int)
    (hlen : strides.length = shape.length) (harity : c.length = shape.length)
    (hbad : inBox shape c = false) :
    Gen.clsE (Gen.Ltoi shape strides c) = .err := by
  obtain ⟨tag, h⟩ := ltoi_rejects shape strides c hlen harity hbad
  rw [Gen.Ltoi_eq, h]; rfl

/-- default stride computation (source of `shape.go:CalcStrides`, every rank, non-negative dimensions)
    followed by `Ltoi` (source): the row-major rank of the coordinate — the whole addressing pipeline of a
    row-major tensor as it is in the source now. -/
theorem source_rowMajor_addressing (shape : Shape) (c : List Int) (hpos : ∀ d ∈ shape, 0 ≤ d)
    (hc : inBox shape c = true) :
    (do let st ← Gen.Shape_CalcStrides shape; pure (Gen.clsE (Gen.Ltoi shape st c))) = .ok (.val (rowRank shape c)) := by
  rw [Gen.Shape_CalcStrides_eq shape hpos]
  simp only [bind, Except.bind, pure, Except.pure]
  rw [Ltoi_source_rowMajor shape c hc]

/-- the same for a column-major tensor of a proper n-d shape (`CalcStridesColMajor` source, then `Ltoi` source) -/
theorem source_colMajor_addressing (shape : Shape) (c : List Int) (hpos : ∀ d ∈ shape, 0 ≤ d)
    (hv : isVector shape = false) (hs : isScalarEquiv shape = false) (hc : inBox shape c = true) :
    (do let st ← Gen.Shape_CalcStridesColMajor shape; pure (Gen.clsE (Gen.Ltoi shape st c))) = .ok (.val (colRank shape c)) := by
  rw [Gen.Shape_CalcStridesColMajor_eq shape hpos]
  simp only [bind, Except.bind, pure, Except.pure, calcStridesCol, hs, hv, Bool.false_eq_true, if_false]
  rw [Ltoi_source_colMajor shape c hc]

example : Gen.clsE (Gen.Ltoi [2, 3] [3, 1] [1, 2]) = .val 5 := by decide
example : Gen.clsV (Gen.Shape_CalcStrides [2, 3, 4]) = .val [12, 4, 1] ∧ Gen.clsV (Gen.Shape_CalcStridesColMajor [2, 3, 4]) = .val [1, 2, 6] := by decide
example : Gen.clsE (Gen.Ltoi [2, 3] [3, 1] [1, -1]) = .err := by decide

end TM.C01
