import TensorModel.Basic
/-! Symbolic element values: the model predicts *which* storage cells are combined by *which*
    scalar function; the harness evaluates the term with Go's own operators. -/
namespace TM

inductive Val where
  | src (buf off : Nat)          -- initial content of cell `off` of buffer `buf`
  | lit (s : String)             -- a literal given in the program text (typed on the Go side)
  | zero                         -- the zero value of the element type
  | app1 (f : String) (a : Val)
  | app2 (f : String) (a b : Val)
  | app3 (f : String) (a b c : Val)
deriving Repr, Inhabited, BEq

partial def Val.toStr : Val → String
  | .src b o => s!"s{b}.{o}"
  | .lit s => s!"#{s}"
  | .zero => "z"
  | .app1 f a => s!"{f}({a.toStr})"
  | .app2 f a b => s!"{f}({a.toStr},{b.toStr})"
  | .app3 f a b c => s!"{f}({a.toStr},{b.toStr},{c.toStr})"

instance : ToString Val := ⟨Val.toStr⟩

end TM
