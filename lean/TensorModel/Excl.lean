import TensorModel.SInterp
/-!
  Known-defect regions (`Excl_*`): explicit decidable predicates over the *inputs* of a step that
  delimit where the implementation (and therefore M, which mirrors it) is known to deviate from S.
  `known_findings.json` refers to these by tag. A deviation from S outside these regions, or inside
  one but different from what M predicts, is a new violation.
-/
namespace TM

/-- F2 (C02): the leading axis of a stepped slice is rounded down instead of up. -/
def Excl_leadStep (shape : Shape) (sls : List (Option Sl)) : Bool :=
  match shape, sls with
  | d :: _, some s :: _ =>
    let e := if s.stop > d then d else s.stop
    decide (s.step > 1) && decide (0 ≤ s.start) && decide (s.start < e) && (e - s.start) % s.step != 0
  | _, _ => false

/-- F25 (C02): a slice whose storage window is a single cell is returned as a rank-0 scalar even if
    some axis may not be dropped (nil slice over an axis of extent one). -/
def Excl_oneCellScalar (t : Dense) (sls : List (Option Sl)) : Bool :=
  match t.ap.S t.win.len sls, axisSels sls t.ap.shape with
  | .ok (nap, _, _), .ok sels => nap.shape.isEmpty && sels.any (fun s => !s.drop)
  | _, _ => false

/-- F24 (C16): column-major vectors / scalar-equivalent shapes carry fewer strides than axes. -/
def Excl_shortStrides (t : Dense) : Bool := t.ap.strides.length < t.ap.shape.length

/-- F4 (C03): a second lazy transpose whose resulting shape equals the shape before the pending
    transpose is taken for its undo, whatever the axes. -/
def Excl_shapeUndo (t : Dense) (axes : List Int) : Bool :=
  match t.old, t.tw, t.ap.T axes with
  | some o, some tw, .ok (.ok tr ax) =>
    !isVector t.ap.shape && tr.shape == o.shape &&
      -- a genuine undo composes with the pending axes to the identity
      !((List.range ax.length).all (fun i => (ax[i]?.bind (fun a => getI? tw a)) == some (Int.ofNat i)))
  | _, _, _ => false

/-- F5 (C03/C04): physically transposing a view gathers into the first `size` cells of its window. -/
def Excl_transposeView (t : Dense) : Bool :=
  t.view && t.old.isSome && !isVector t.ap.shape && !isScalar t.ap.shape

/-- F6 (C03/C16): physically transposing a column-major tensor stores the row-major listing under
    column-major strides. -/
def Excl_transposeCol (t : Dense) : Bool :=
  t.ap.o.col && t.old.isSome && !isVector t.ap.shape && !isScalar t.ap.shape

/-- does `T axes` on `t` run the physical transpose first? (pending, not vector, not "reversed") -/
def T_materialises (t : Dense) (axes : List Int) : Bool :=
  match t.old, t.ap.T axes with
  | some o, .ok (.ok tr _) => !isVector t.ap.shape && tr.shape != o.shape
  | _, _ => false

end TM
