package main

import (
	"fmt"
	"strconv"
	"strings"
)

// term is a parsed model value term.
type term struct {
	kind string // "src","lit","zero","app","mark"
	buf  int
	off  int
	lit  string
	f    string
	args []*term
}

type termParser struct {
	s string
	i int
}

func (p *termParser) peek() byte {
	if p.i < len(p.s) {
		return p.s[p.i]
	}
	return 0
}

func (p *termParser) ident() string {
	st := p.i
	for p.i < len(p.s) {
		c := p.s[p.i]
		if c == '(' || c == ')' || c == ',' {
			break
		}
		p.i++
	}
	return p.s[st:p.i]
}

func (p *termParser) parse() (*term, error) {
	id := p.ident()
	if id == "" {
		return nil, fmt.Errorf("empty term at %d in %q", p.i, p.s)
	}
	if p.peek() == '(' {
		p.i++
		t := &term{kind: "app", f: id}
		for {
			a, err := p.parse()
			if err != nil {
				return nil, err
			}
			t.args = append(t.args, a)
			if p.peek() == ',' {
				p.i++
				continue
			}
			if p.peek() == ')' {
				p.i++
				return t, nil
			}
			return nil, fmt.Errorf("bad term %q at %d", p.s, p.i)
		}
	}
	switch {
	case id == "z":
		return &term{kind: "zero"}, nil
	case id == "err" || id == "panic" || id == "oob" || id == "?":
		return &term{kind: "mark", lit: id}, nil
	case id[0] == '#':
		return &term{kind: "lit", lit: id[1:]}, nil
	case id[0] == 's':
		parts := strings.SplitN(id[1:], ".", 2)
		if len(parts) == 2 {
			b, e1 := strconv.Atoi(parts[0])
			o, e2 := strconv.Atoi(parts[1])
			if e1 == nil && e2 == nil {
				return &term{kind: "src", buf: b, off: o}, nil
			}
		}
	}
	return nil, fmt.Errorf("bad atom %q", id)
}

// parseTermList parses a comma separated list of terms ("-" = empty).
func parseTermList(s string) ([]*term, error) {
	if s == "-" || s == "" {
		return nil, nil
	}
	p := &termParser{s: s}
	var out []*term
	for {
		t, err := p.parse()
		if err != nil {
			return nil, err
		}
		out = append(out, t)
		if p.i >= len(p.s) {
			return out, nil
		}
		if p.peek() != ',' {
			return nil, fmt.Errorf("junk after term in %q at %d", s, p.i)
		}
		p.i++
	}
}

// eval evaluates a term over the program's input buffers with Go's own operators.
func (p *prog) eval(t *term, dt *dtInfo) (interface{}, error) {
	switch t.kind {
	case "mark":
		return errMark(t.lit), nil
	case "zero":
		return dt.zero(), nil
	case "lit":
		if dt == nil {
			dt = dtByName("i")
		}
		return dt.litVal(t.lit)
	case "src":
		if t.buf >= len(p.inputs) || t.off >= len(p.inputs[t.buf]) {
			return nil, fmt.Errorf("source s%d.%d outside the inputs", t.buf, t.off)
		}
		return p.inputs[t.buf][t.off], nil
	case "app":
		args := make([]interface{}, len(t.args))
		for i, a := range t.args {
			v, err := p.eval(a, dt)
			if err != nil {
				return nil, err
			}
			args[i] = v
		}
		return applyOp(t.f, dt, args)
	}
	return nil, fmt.Errorf("bad term kind %q", t.kind)
}
