module verifharness

go 1.18

require (
	github.com/chewxy/math32 v1.0.8
	gonum.org/v1/gonum v0.8.2
	gorgonia.org/tensor v0.0.0
)

require (
	github.com/apache/arrow/go/arrow v0.0.0-20201229220542-30ce2eb5d4dc // indirect
	github.com/chewxy/hm v1.0.0 // indirect
	github.com/gogo/protobuf v1.3.2 // indirect
	github.com/golang/protobuf v1.4.3 // indirect
	github.com/google/flatbuffers v1.12.0 // indirect
	github.com/pkg/errors v0.9.1 // indirect
	github.com/xtgo/set v1.0.0 // indirect
	go4.org/unsafe/assume-no-moving-gc v0.0.0-20230525183740-e7c30c78aeb2 // indirect
	golang.org/x/xerrors v0.0.0-20200804184101-5ec99f83aff1 // indirect
	google.golang.org/protobuf v1.25.0 // indirect
	gorgonia.org/vecf32 v0.9.0 // indirect
	gorgonia.org/vecf64 v0.9.0 // indirect
)

replace gorgonia.org/tensor => /repo
