import TensorModel.Ext.Hooks
/-!
  C08 — reductions (`Sum`, `Max`, `Min`, `Argmax`, `Argmin`, `(*Dense).Reduce`).

  M mirrors `defaultengine_mapreduce.go` (`StdEng.Sum/Min/Max`, `reduce`, `prepReduce`,
  `OptimizedReduce`, `Reduce`), `internal/execution/generic_reduce.go` (`reduceFirst*`, `reduceLast*`,
  `reduceDefault*`), `reduction_specialization.go`, `defaultengine_argmethods.go`,
  `internal/execution/generic_argmethods.go`, `dense_mapreduce.go:(*Dense).Reduce`.

  The kernels are *pure list functions* (`Red.reduceFirstK`, `Red.reduceLastK`, `Red.reduceDefaultK`),
  type-generic, so that `Props/C08.lean` can state theorems about them for every rank; the state
  level wrappers add Go's bounds checks (panics) and the storage plumbing.

  S: `Red.specAxis` — an array of shape `d :: ds` is the sequence of its `d` sub-arrays (slabs);
  reducing axis 0 folds the slabs element by element, reducing axis `k+1` reduces axis `k` of every
  slab. No strides, offsets or windows.
-/
namespace TM
namespace Red

/-! ### Pure kernels (type-generic) -/

section pure
variable {α : Type} [Inhabited α]

/-- left fold of a non-empty list from its first element -/
def fold1 (f : α → α → α) : List α → α
  | [] => default
  | x :: xs => xs.foldl f x

/-- the row fold of a kernel: from an initial value (`Sum<T>`: the zero value; `Reduce<T>(fn, def, …)`)
    or from the first element (`SliceMax<T>` = `Reduce<T>(Max, a[0], a[1:]...)`) -/
def rowFold (f : α → α → α) (init : Option α) (row : List α) : α :=
  match init with
  | some z => row.foldl f z
  | none => fold1 f row

def prodN : List Nat → Nat
  | [] => 1
  | d :: ds => d * prodN ds

/-- the first `n` consecutive chunks of length `m` -/
def chunks (m : Nat) : Nat → List α → List (List α)
  | 0, _ => []
  | n + 1, l => l.take m :: chunks m n (l.drop m)

/-- `reduceFirst<T>` / `genericReduceFirst<T>`: `copy(retVal[0:split], data[0:split])`, then for each
    of the remaining `size-1` slabs `fn(retVal, data[start:start+split])` (element-wise
    `retVal[j] = f retVal[j] data[start+j]`). -/
def kFirst (f : α → α → α) (split : Nat) : Nat → List α → List α → List α
  | 0, acc, _ => acc
  | n + 1, acc, rest => kFirst f split n (List.zipWith f acc (rest.take split)) (rest.drop split)

def reduceFirstK (f : α → α → α) (data : List α) (split size : Nat) : List α :=
  kFirst f split (size - 1) (data.take split) (data.drop split)

/-- `reduceLast<T>`: `for start := 0; start <= len(a)-dimSize; start += dimSize { retVal[at] = fn(a[start:start+dimSize]); at++ }` -/
def reduceLastK (F : List α → α) (data : List α) (dimSize : Nat) : List α :=
  (chunks dimSize (data.length / dimSize) data).map F

/-- The `innerStart / strideTrack` walk of `reduceDefault<T>`: the value of `innerStart` for each of
    the `n` output cells of one outer slab. After every `stride` cells `innerStart` additionally jumps
    by `jump` (the Go code: `jump = (dimSize-1)*stride`; before the repair of finding F40: `jump = stride`). -/
def walk (stride jump : Nat) : Nat → Nat → Nat → List Nat
  | 0, _, _ => []
  | n + 1, is, st =>
    is :: (if st + 1 ≥ stride then walk stride jump n (is + jump + 1) 0
           else walk stride jump n (is + 1) (st + 1))

/-- cells `sliced[s + k*stride]`, `k < dimSize` (out-of-range reads are a panic: see `defaultOk`) -/
def defaultRow (slab : List α) (dimSize stride s : Nat) : List α :=
  (List.range dimSize).filterMap (fun k => slab[s + k * stride]?)

def reduceDefaultSlab (f : α → α → α) (slab : List α) (dimSize stride expected jump : Nat) : List α :=
  (walk stride jump expected 0 0).map (fun s => fold1 f (defaultRow slab dimSize stride s))

/-- `reduceDefault<T>(data, retVal, dim0, dimSize, outerStride, stride, expected, fn)` -/
def reduceDefaultK (f : α → α → α) (data : List α) (dim0 dimSize outerStride stride expected jump : Nat) : List α :=
  (List.range dim0).flatMap (fun i =>
    reduceDefaultSlab f ((data.drop (i * outerStride)).take outerStride) dimSize stride expected jump)

/-- every read of `reduceDefault<T>` is inside its slab -/
def defaultOk (dataLen dim0 dimSize outerStride stride expected jump : Nat) : Bool :=
  decide (dim0 * outerStride ≤ dataLen) &&
    (dim0 == 0 || (walk stride jump expected 0 0).all (fun s =>
      (List.range dimSize).all (fun k => decide (s + k * stride < outerStride))) && decide (1 ≤ dimSize))

/-! ### S: reduction along one axis of a logical array (row-major listing `l` of shape `sh`) -/

/-- `j`-th elements of the slabs -/
def columns (m : Nat) (slabs : List (List α)) : List (List α) :=
  (List.range m).map (fun j => slabs.filterMap (fun s => s[j]?))

def specAxis (F : List α → α) : List Nat → Nat → List α → List α
  | [], _, l => l
  | d :: ds, 0, l => (columns (prodN ds) (chunks (prodN ds) d l)).map F
  | d :: ds, k + 1, l => (chunks (prodN ds) d l).flatMap (specAxis F ds k)

/-- reduce a set of axes, given in descending order (no renumbering needed) -/
def specAxes (F : List α → α) : List Nat → List Nat → List α → List Nat × List α
  | sh, [], l => (sh, l)
  | sh, k :: ks, l => specAxes F (sh.eraseIdx k) ks (specAxis F sh k l)

end pure

/-! ### The Sum / Max / Min method triples (`reduction_specialization.go`) -/

def ordNumTypes : List String := ["i", "i8", "i16", "i32", "i64", "u", "u8", "u16", "u32", "u64", "f32", "f64"]
def allTypes : List String := ["b", "i", "i8", "i16", "i32", "i64", "u", "u8", "u16", "u32", "u64", "f32", "f64", "c64", "c128", "str"]

structure RedOp where
  /-- element types with an arm in `<Op>Methods` / `Monotonic<Op>` -/
  types : List String
  /-- `firstFn` = `Vec<Op><T>(acc, slab)`, element-wise -/
  firstF : BinF
  /-- `lastFn`: `Sum<T>` folds from the zero value, `SliceMax<T>`/`SliceMin<T>` from the first element -/
  lastInit : Option Val
  lastF : BinF
  /-- `defaultFn` = `<Op><T>(a, b)` -/
  defF : BinF

def app (f : String) : BinF := fun x y => .app2 f x y

def sumOp : RedOp := { types := numberTypes, firstF := app "add", lastInit := some .zero, lastF := app "add", defF := app "add" }
/-- `VecMax<T>`: `if bv > v { a[i] = bv }` (term `maxv(acc,x)`); `Max<T>(a,b)`: `if a > b {return a}; return b` (`maxs`) -/
def maxOp : RedOp := { types := ordNumTypes, firstF := app "maxv", lastInit := none, lastF := app "maxs", defF := app "maxs" }
def minOp : RedOp := { types := ordNumTypes, firstF := app "minv", lastInit := none, lastF := app "mins", defF := app "mins" }
/-- `(*Dense).Reduce(fn, axis, zero)` with the harness's function `x+y` (`x != y` on bool): the generic
    kernels apply `fn` element by element; `genericReduceLast` folds from the default value -/
def genericOp (dt : String) : RedOp :=
  let g := if dt == "b" then app "ne" else app "add"
  { types := allTypes, firstF := g, lastInit := some .zero, lastF := g, defF := g }

def opOf (name : String) : Option RedOp :=
  match name with
  | "sum" => some sumOp
  | "max" => some maxOp
  | "min" => some minOp
  | _ => none

/-! ### Engine glue -/

def natOf (what : String) (i : Int) : Res Nat :=
  if i < 0 then throwPanic s!"negative {what}: slice bounds out of range" else .ok i.toNat

/-- the shape with axis `axis` removed (`prepReduce`: `for i, s := range a.Shape() { if i == axis { continue }; … }`) -/
def removeAxis (shape : Shape) (axis : Int) : Shape :=
  (shape.zip (rangeI shape.length)).filterMap (fun (d, i) => if i == axis then none else some d)

/-- number of cells `New(Of(dt), WithShape(shape...))` allocates (a scalar has one) -/
def freshSize (shape : Shape) : Nat := if shape.isEmpty then 1 else (totalSize shape).toNat

/-- `StdEng.prepReduce` without options: axis check, the fresh result tensor `New(Of(dt), WithShape(newShape...))`,
    refusal of operands that need an iterator. -/
def prepReduce (st : St) (a : Dense) (axis : Int) : Res (St × Dense) := do
  if axis ≥ a.dims then throwErr "dimMismatch"
  let newShape := removeAxis a.shape axis
  let (st, reuse) := Dense.fresh st a.dt newShape false (Array.replicate (freshSize newShape) Val.zero) a.eng
  if a.requiresIterator || reuse.requiresIterator then throwErr "Reduce does not (yet) support iterable tensors"
  pure (st, reuse)

/-- The kernel selection of `StdEng.OptimizedReduce` / `StdEng.Reduce` (they differ only in the functions
    handed to the kernels): the values the selected kernel writes to `retVal[0 ..)`. `data` is the
    operand's storage window. -/
def reduceVals (op : RedOp) (a reuse : Dense) (data : List Val) (axis : Int) : Res (List Val) := do
  let lastAxis : Int := (a.dims : Int) - 1
  let col := a.ap.o.col
  if (axis == 0 && !col) || (axis == lastAxis && col) then
    if col then throwErr "NYI: colmajor"
    let size ← idx a.shape 0 "a.Shape()[0]"
    let dataSize : Int := if isScalar a.shape then 0 else a.win.len
    if size == 0 then throwPanic "integer divide by zero"
    let split ← natOf "split" (goDiv dataSize size)
    let sizeN ← natOf "size" size
    -- CopySliced(dataReuse, 0, split, dataA, 0, split); copy(retVal[0:split], data[0:split])
    if split > reuse.win.cap || split > a.win.cap then throwPanic "slice bounds out of range"
    -- fn(retVal, data[start:start+split]): `b = b[:len(a)]` needs the slab to be as long as retVal
    if sizeN ≥ 2 && (split * sizeN > a.win.cap || reuse.win.len > split + (a.win.cap - split * sizeN)) then
      throwPanic "slice bounds out of range"
    if sizeN ≥ 2 && (reuse.win.len != split || split * sizeN > data.length) then throwPanic "unmodelled: retVal longer than a slab"
    pure (reduceFirstK op.firstF data split sizeN)
  else if (axis == lastAxis && !col) || (axis == 0 && col) then
    if col then throwErr "NYI: colmajor"
    let dimSize ← idx a.shape axis "a.Shape()[axis]"
    let d ← natOf "dimSize" dimSize
    if d == 0 then throwPanic "unmodelled: zero dimension"
    pure (reduceLastK (rowFold op.lastF op.lastInit) data d)
  else
    let dim0 ← idx a.shape 0 "a.Shape()[0]"
    let dimSize ← idx a.shape axis "a.Shape()[axis]"
    let outerStride ← idx a.strides 0 "a.Strides()[0]"
    let stride ← idx a.strides axis "a.Strides()[axis]"
    let expected ← idx reuse.strides 0 "reuse.Strides()[0]"
    let dim0 ← natOf "dim0" dim0
    let dimSize ← natOf "dimSize" dimSize
    let outerStride ← natOf "outerStride" outerStride
    let stride ← natOf "stride" stride
    let expected ← natOf "expected" expected
    -- `innerStart += (dimSize - 1) * stride` (finding F40 repaired: the jump lands on the next block)
    let jump := (dimSize - 1) * stride
    if !defaultOk data.length dim0 dimSize outerStride stride expected jump then throwPanic "index out of range"
    pure (reduceDefaultK op.defF data dim0 dimSize outerStride stride expected jump)

/-- the kernels write `retVal[0 .. vals.length)` -/
def writeVals (st : St) (reuse : Dense) (vals : List Val) : Res (St × Dense) := do
  if vals.length > reuse.win.len then throwPanic "retVal index out of range"
  let st ← (vals.zip (rangeI vals.length)).foldlM (fun st (v, i) => st.set reuse.win i v) st
  pure (st, reuse)

/-- `compactOperand(a)`: a tensor that owns its data but does not hold it in the default layout of its shape (the
    clone of a non-contiguous view keeps the view's window and strides) is replaced by a compact copy -/
def compactOperand (st : St) (a : Dense) : Res (St × Dense) :=
  if !a.isMaterializable && !a.hasDefaultLayout then Dense.compacted st a else .ok (st, a)

/-- `StdEng.OptimizedReduce` / `StdEng.Reduce` -/
def optimizedReduce (st : St) (op : RedOp) (a : Dense) (axis : Int) : Res (St × Dense) := do
  let (st, a) ← compactOperand st a
  let (st, reuse) ← prepReduce st a axis
  let data ← a.rawCells st
  let vals ← reduceVals op a reuse data axis
  writeVals st reuse vals

/-- insertion sort (`sort.Slice(along, <)`) -/
def sortInts (l : List Int) : List Int :=
  l.foldl (fun acc x => (acc.takeWhile (· ≤ x)) ++ [x] ++ (acc.dropWhile (· ≤ x))) []

/-- does `reduce` take the all-axes shortcut? -/
def allAxesShortcut (along : List Int) (dims : Nat) : Bool :=
  let (mono, incr1) := isMonotonicInts along
  (mono && incr1 && along.length == dims) || along.isEmpty

/-- the elimination loop of `reduce`: `axis -= dimsReduced; dimsReduced++` -/
def reduceLoop (op : RedOp) : St → Dense → Int → List Int → Res (St × Dense)
  | st, t, _, [] => .ok (st, t)
  | st, t, k, axis :: rest => do
    let axis := axis - k
    if axis ≥ t.dims then throwErr "dimMismatch"
    let (st, t) ← optimizedReduce st op t axis
    reduceLoop op st t (k + 1) rest

structure RedOut where
  st : St
  res : Res Dense
  along : List Int     -- the caller's slice after the call

/-- `StdEng.Sum/Max/Min(a, along...)`: materialise views, then `reduce`. -/
def engReduce (st : St) (op : RedOp) (a : Dense) (along : List Int) : RedOut :=
  -- `if v, ok := a.(View); ok && v.IsMaterializable() { a2 = v.Materialize() }`
  match (if a.isMaterializable then Dense.materialize st a else .ok (st, none)) with
  | .error e => ⟨st, .error e, along⟩
  | .ok (st, m) =>
    let a2 := m.getD a
    -- `reduce`: a tensor that owns its data but does not hold it in the default layout of its shape (the clone of a
    -- non-contiguous view keeps the view's window and strides) is folded through a compact copy
    match compactOperand st a2 with
    | .error e => ⟨st, .error e, along⟩
    | .ok (st, a2) =>
    if allAxesShortcut along a2.dims then
      -- monotonicMethod(typ, hdr): the whole storage window, left to right
      if !op.types.contains a2.dt then ⟨st, throwErr "Cannot perform op on this type", along⟩ else
      match a2.rawCells st with
      | .error e => ⟨st, .error e, along⟩
      | .ok raw =>
        if op.lastInit.isNone && raw.isEmpty then ⟨st, throwPanic "Max of empty slice is meaningless", along⟩ else
        let v := rowFold op.lastF op.lastInit raw
        -- New(FromScalar(ret))
        let (st, r) := Dense.fresh st a2.dt [] false #[v] a2.eng
        ⟨st, .ok r, along⟩
    else
      if !op.types.contains a2.dt then ⟨st, throwErr "No methods found", along⟩ else
      -- `along = append([]int(nil), along...)` then `sort.Slice(along, <)`: a copy is sorted (commit dbc4f5d,
      -- finding F42 repaired); the caller's slice is left as it was
      let sorted := sortInts along
      match reduceLoop op st a2 0 sorted with
      | .ok (st, r) => ⟨st, .ok r, along⟩
      | .error e => ⟨st, .error e, along⟩

/-! ### Arg-reductions -/

/-- What the model knows about an element value: enough to order the generated value sets. -/
inductive Key where
  | nan
  | num (q : Int)        -- numeric types: the value (floats: four times the value; ±10^40 = ±Inf)
  | str (s : String)
deriving Repr, DecidableEq, Inhabited

def infKey : Int := 10 ^ 40

def Key.gt : Key → Key → Bool
  | .num a, .num b => decide (a > b)
  | .str a, .str b => decide (b < a)
  | _, _ => false
def Key.lt (a b : Key) : Bool := Key.gt b a
def Key.isNaN : Key → Bool
  | .nan => true
  | _ => false

def bitsOf (dt : String) : Option (Nat × Bool) :=   -- (width, signed)
  match dt with
  | "i" => some (64, true) | "i8" => some (8, true) | "i16" => some (16, true) | "i32" => some (32, true) | "i64" => some (64, true)
  | "u" => some (64, false) | "u8" => some (8, false) | "u16" => some (16, false) | "u32" => some (32, false) | "u64" => some (64, false)
  | _ => none

/-- Go's conversion of an `int64` to a narrower / unsigned integer type -/
def wrapTo (bits : Nat) (signed : Bool) (n : Int) : Int :=
  let m : Int := 2 ^ bits
  let r := n % m
  if signed && r ≥ m / 2 then r - m else r

/-- `dtInfo.fromInt` of the harness (`values.go`) -/
def fromIntKey (dt : String) (n : Int) : Option Key :=
  match bitsOf dt with
  | some (b, s) => some (.num (wrapTo b s n))
  | none =>
    if dt == "f32" || dt == "f64" then some (.num (4 * n))
    else if dt == "str" then some (.str s!"s{n}")
    else none

def specialI : List Int := [0, 1, -1, 2, -7, 127, -128, 255, 32767, -32768, 65535, 2147483647, -2147483648,
  9223372036854775807, -9223372036854775808, 3, 5, -3, 100, 7]

/-- `specialF` of the harness scaled by four; `5e-324` is the least positive float64 and 0 as a float32 -/
def specialFKey (dt : String) (k : Nat) : Option Key :=
  match k with
  | 0 => some (.num 0) | 1 => some (.num 0) | 2 => some (.num 4) | 3 => some (.num (-4)) | 4 => some (.num 10)
  | 5 => some (.num (-28)) | 6 => some (.num (4 * 10 ^ 30)) | 7 => some (.num (-(4 * 10 ^ 30)))
  | 8 => some (.num infKey) | 9 => some (.num (-infKey)) | 10 => some .nan
  | 11 => some (.num (if dt == "f32" then 0 else 1))
  | 12 => some (.num 12) | 13 => some (.num 2) | 14 => some (.num 400) | 15 => some (.num (-1))
  | _ => none

/-- `specialS` of the harness: strings a text format may trip over -/
def specialS : List String := ["#hash", "s1", "#", "x#y", "a b", "ünï", "q\"uote", "c,omma", "semi;colon", "7", "-1.5", "#2 3",
  "tab\there"]

/-- `dtInfo.genVal(vset, buf, i)` of the harness -/
def genKey (vs : Nat) (dt : String) (buf i : Nat) : Option Key :=
  match vs with
  | 1 =>
    if dt == "f32" || dt == "f64" then specialFKey dt ((i + 3 * buf) % 16)
    else if dt == "str" then (specialS[(i + 3 * buf) % 13]?).map Key.str
    else match bitsOf dt with
      | some _ => (specialI[(i + 5 * buf) % 20]?).bind (fromIntKey dt)
      | none => fromIntKey dt (1 + i + 37 * buf)
  | 2 => fromIntKey dt (1 + (i * 7 + buf * 3) % 9)
  | 3 => fromIntKey dt (((i * 3 + buf) % 5 : Nat) - 2)
  | 0 => fromIntKey dt (1 + i + 37 * buf)
  | _ => none

/-- `dtInfo.litVal`: `w<k>` = 101+3k, `k<n>` = n, `q<n>` = special value n -/
def litKey (dt : String) (tok : String) : Option Key :=
  let base := (tok.splitOn ":").headD ""
  let dt := match tok.splitOn ":" with | [_, d] => d | _ => dt
  match base.toList with
  | c :: rest =>
    match (String.ofList rest).toInt? with
    | some n =>
      if c == 'w' then fromIntKey dt (101 + n * 3)
      else if c == 'k' then fromIntKey dt n
      else if c == 'q' then genKey 1 dt 0 n.toNat
      else none
    | none => none
  | [] => none

def knownKey (vs : Nat) (dt : String) : Val → Option Key
  | .src b o => genKey vs dt b o
  | .lit s => litKey dt s
  | .zero => if dt == "str" then some (.str "") else fromIntKey dt 0
  | _ => none

/-- `Argmax<T>` / `Argmin<T>` (`generic_argmethods.go`): floats return at once on a NaN or on the
    infinity of the searched direction (first element included); otherwise the first element initialises. -/
def argKernel (isMax isFloat : Bool) (ks : List Key) : Nat :=
  let rec go (i : Nat) (best : Nat) (f : Key) : List Key → Nat
    | [] => best
    | v :: vs =>
      if isFloat && (v.isNaN || v == .num (if isMax then infKey else -infKey)) then i
      else if (if isMax then v.gt f else v.lt f) then go (i + 1) i v vs
      else go (i + 1) best f vs
  match ks with
  | [] => 0
  | k :: rest =>
    if isFloat && (k.isNaN || k == .num (if isMax then infKey else -infKey)) then 0
    else go 1 0 k rest

def isFloatDt (dt : String) : Bool := dt == "f32" || dt == "f64"

/-- the axes pattern built by `arg{max,min}DenseTensor`: the reduced axis is moved last.
    `none` = an index of `axes` is out of range (panic). -/
def argAxes (dims : Nat) (axis : Int) : Option (List Int) :=
  (rangeI dims).foldlM (fun (axes : List Int) (i : Int) =>
    let (pos, v) : Int × Int :=
      if i < axis then (i, i) else if i == axis then ((dims : Int) - 1, i) else (i - 1, i)
    if pos < 0 || pos ≥ dims then none else some (axes.set pos.toNat v)) (List.replicate dims 0)

/-- offsets produced by the tensor's flat iterator after `iteratorLoadAP(it, &newAP)` -/
def loadedOffsets (t : Dense) (newAP : AP) : List Int :=
  let it0 := FlatIt.new t.ap
  let it := { it0 with shape := newAP.shape, strides := newAP.strides }
  (FlatIt.run ((totalSize t.ap.shape).toNat + 1) it).1

/-- `E.Arg{max,min}Iter`: chunks of `lastSize` cells in iterator order -/
def argChunks (lastSize : Nat) (cells : List Key) : List (List Key) :=
  chunks lastSize (cells.length / lastSize) cells

/-- flat Argmax/Argmin go through the tensor's iterator when the raw window is not known to be the
    row-major listing of the elements (`t.RequiresIterator() || t.DataOrder().IsColMajor()`) -/
def flatArgViaIter (t : Dense) : Bool := t.requiresIterator || t.ap.o.col

/-- the storage offsets flat Argmax/Argmin read, in reading order: the iterator's offsets, or the whole
    window left to right (contiguous row-major tensors) -/
def flatArgOffsets (t : Dense) : List Int :=
  if flatArgViaIter t then t.offsets else rangeI t.win.len

inductive ArgRes where
  | ok (st : St) (d : Dense)
  | unknown            -- an element value the model cannot order (generator misuse)

/-- `StdEng.arg{max,min}DenseTensor(t, axis)`; `axis = -1` is `AllAxes`. -/
def engArg (st : St) (isMax : Bool) (vs : Nat) (t : Dense) (axis : Int) : Res ArgRes := do
  if !ordTypes.contains t.dt then throwErr "typeclass"
  if axis ≥ t.dims then throwErr "dimMismatch"
  let keysOf (cells : List Val) : Option (List Key) := cells.mapM (knownKey vs t.dt)
  if axis == -1 then
    let viaIter := flatArgViaIter t
    let cells ← (flatArgOffsets t).mapM (fun i => st.get t.win i)
    match keysOf cells with
    | none => return .unknown
    | some ks =>
      let i :=
        if viaIter then
          -- `E.Arg{max,min}Iter(typ, data, IteratorFromDense(t), TotalSize)`: one run of all the elements
          ((argChunks (totalSize t.shape).toNat ks).map (argKernel isMax (isFloatDt t.dt))).headD 0
        else argKernel isMax (isFloatDt t.dt) ks   -- `E.Arg{max,min}Flat(typ, data)`
      let (st, r) := Dense.fresh st "i" [] false #[Val.lit s!"k{i}:i"]
      return .ok st r
  else
    let axes ← (match argAxes t.dims axis with
      | some a => pure a
      | none => throwPanic "axes index out of range" : Res (List Int))
    let newAP ← (match ← t.ap.T axes with
      | .noop _ _ => pure t.ap
      | .ok ap _ => pure ap : Res AP)
    let offs := loadedOffsets t newAP
    let lastSize ← (match newAP.shape.getLast? with
      | some d => pure d
      | none => throwPanic "it.Shape()[len-1]" : Res Int)
    let newShape := newAP.shape.dropLast
    let cells ← offs.mapM (fun i => st.get t.win i)
    if lastSize ≤ 0 then throwPanic "unmodelled: empty axis" else
    match keysOf cells with
    | none => return .unknown
    | some ks =>
      let idxs := (argChunks lastSize.toNat ks).map (argKernel isMax (isFloatDt t.dt))
      let vals := idxs.map (fun i => Val.lit s!"k{i}:i")
      -- New(WithShape(newShape...), WithBacking(indices))
      let (st, r) ← Dense.newRow st "i" newShape vals.toArray
      return .ok st r

/-! ### Known-defect regions -/

/-- the storage window, read left to right, is not the row-major listing of the logical elements (metadata predicate
    used by the flat arg-reduction theorems of `Props/C08`; finding F44, whose region it once delimited, is repaired:
    `reduce` / `Reduce` / `OptimizedReduce` fold a compact copy of such a tensor) -/
def Excl_rawNotLogical (t : Dense) : Bool :=
  let cs := allCoords t.shape
  if cs.length > 4096 then false else
  cs.map (fun c => dot c t.strides) != rangeI t.win.len

/-! ### Steps of M -/

def vsOf (toks : List String) : Option Nat :=
  (toks.find? (·.startsWith "vs=")).bind (fun t => (t.drop 3).toString.toNat?)

def restOk (rest : List String) : Bool :=
  rest.length ≤ 1 && rest.all (fun t => t.startsWith "vs=" && ((t.drop 3).toString.toNat?).isSome)

def finishRes (ps : PState) (st : St) (r : Res Dense) (extra : String) : PState × StepOut :=
  match r with
  | .ok d => ({ ps with st := st }.newVar d, .fields s!"r=ok ident=new shape={showInts d.shape}{extra}")
  | .error (.err _) => ({ ps with st := st }.failVar, .fields s!"r=err{extra}")
  | .error (.panic _) => ({ ps with st := st }.failVar, .stop s!"r=panic{extra}")

def parseAxis (tok : String) : Option Int := if tok == "all" then some (-1) else tok.toInt?

def stepM (ps : PState) (_ : Nat) (toks : List String) : PState × StepOut :=
  match toks with
  | "red" :: opn :: via :: a :: axes :: rest =>
    if !restOk rest then (ps.failVar, .fields "r=badprog") else
    match ps.obj a, parseIntList axes with
    | some (_, t), some along =>
      match opOf opn with
      | some op =>
        if via != "fn" && via != "meth" then (ps.failVar, .fields "r=badprog") else
        let out := engReduce ps.st op t along
        finishRes ps out.st out.res s!" along={showInts out.along}"
      | none => (ps.failVar, .fields "r=badprog")
    | _, _ => (ps.failVar, .fields "r=skip")
  | "arg" :: opn :: via :: a :: axis :: rest =>
    if !restOk rest then (ps.failVar, .fields "r=badprog") else
    match ps.obj a, parseAxis axis with
    | some (_, t), some ax =>
      if (opn != "argmax" && opn != "argmin") || (via != "fn" && via != "meth") then (ps.failVar, .fields "r=badprog") else
      match engArg ps.st (opn == "argmax") ((vsOf rest).getD 0) t ax with
      | .ok (.ok st d) => finishRes ps st (.ok d) ""
      | .ok .unknown => (ps.failVar, .fields "r=unknown-values")
      | .error e => finishRes ps ps.st (.error e) ""
    | _, _ => (ps.failVar, .fields "r=skip")
  | "reduce" :: a :: axis :: rest =>
    if !restOk rest then (ps.failVar, .fields "r=badprog") else
    match ps.obj a, axis.toInt? with
    | some (_, t), some ax =>
      match optimizedReduce ps.st (genericOp t.dt) t ax with
      | .ok (st, d) => finishRes ps st (.ok d) ""
      | .error e => finishRes ps ps.st (.error e) ""
    | _, _ => (ps.failVar, .fields "r=skip")
  | _ => (ps.failVar, .fields "r=badprog")

/-! ### S -/

def natShape (sh : Shape) : List Nat := sh.map Int.toNat

/-- axes the property quantifies over: distinct, inside the rank; returned in descending order -/
def validAxes (along : List Int) (rank : Nat) : Option (List Nat) :=
  if along.all (fun a => decide (0 ≤ a) && decide (a < rank)) && along.eraseDups.length == along.length then
    some ((sortInts along).reverse.map Int.toNat)
  else none

def isAtom : Val → Bool
  | .src _ _ => true
  | .lit _ => true
  | .zero => true
  | _ => false

/-- Is the value of a fold independent of the fold order (and of a leading zero) for this element type
    and declared value set? Integer `+`, `max`, `min`, string concatenation in axis order and bool
    `!=` always; floats and complex numbers only on the small-integer value sets 0, 2, 3 (no rounding,
    no NaN, no negative zero) and only when the operand holds generated / written values. -/
def exactDomain (dt : String) (vs : Option Nat) (cells : List Val) : Bool :=
  if (bitsOf dt).isSome || dt == "str" || dt == "b" then true
  else (vs == some 0 || vs == some 2 || vs == some 3) && cells.all isAtom

/-- S's canonical fold: left to right from the first element -/
def canonF (fname : String) : List Val → Val := fold1 (app fname)

/-- new S object holding `vals` under `shape` -/
def pushObj (psAfter : PState) (ss : SState) (newId : Nat) (shape : Shape) (vals : List Val) (line : String) : SOut :=
  let root := ss.store.size
  let ss := { ss with store := ss.store.push vals.toArray }
  let o' : SObj := { root := root, idx := ⟨shape, List.range vals.length⟩ }
  finS psAfter ({ ss with objs := (ss.sync newId).objs.push (some o') }) (some line)

/-- may the operation refuse this operand? (column-major always; the generic `Reduce` also views and
    lazily transposed tensors — it does not materialise) -/
def mayRefuse (o : SObj) (generic : Bool) : Bool :=
  o.col || (generic && (o.isView || (match o.pending with | .none => false | _ => true)))

def specReduce (psBefore psAfter : PState) (ss : SState) (mres : String) (fname : String) (types : List String)
    (a : String) (along : List Int) (vs : Option Nat) (generic : Bool) : SOut :=
  let newId := psBefore.ds.size
  match sObj psBefore ss a, psBefore.obj a with
  | some (_, o), some (_, d) =>
    if !types.contains d.dt then finS psAfter ss none else
    let rank := o.idx.shape.length
    let axes := if along.isEmpty && !generic then some ((List.range rank).reverse) else validAxes along rank
    match axes, o.elems ss with
    | some axes, some es =>
      if axes.isEmpty && rank > 0 then finS psAfter ss none else
      if o.idx.shape.any (· ≤ 0) then finS psAfter ss none else
      let (sh', vals) := specAxes (canonF fname) (natShape o.idx.shape) axes es
      let shape' : Shape := sh'.map Int.ofNat
      if mres != "ok" then
        finS psAfter ss (some (if mayRefuse o generic then "r=err|panic" else s!"r=ok shape={showInts shape'}"))
      else if exactDomain d.dt vs es then pushObj psAfter ss newId shape' vals s!"r=ok shape={showInts shape'}"
      else finS psAfter ss (some s!"r=ok shape={showInts shape'}")
    | _, _ => finS psAfter ss none
  | _, _ => finS psAfter ss none

/-- least index attaining the extreme of a row -/
def argFirst (isMax : Bool) (row : List Key) : Nat :=
  match row with
  | [] => 0
  | k :: rest =>
    let best := rest.foldl (fun b v => if (if isMax then v.gt b else v.lt b) then v else b) k
    (row.findIdx? (fun v => !(if isMax then best.gt v else best.lt v))).getD 0

def specArg (psBefore psAfter : PState) (ss : SState) (mres : String) (isMax : Bool) (a : String) (axis : Int) (vs : Nat) : SOut :=
  let newId := psBefore.ds.size
  match sObj psBefore ss a, psBefore.obj a with
  | some (_, o), some (_, d) =>
    if !ordTypes.contains d.dt then finS psAfter ss none else
    let rank := o.idx.shape.length
    if !(axis == -1 || (0 ≤ axis && axis < rank)) then finS psAfter ss none else
    if o.idx.shape.any (· ≤ 0) then finS psAfter ss none else
    match (o.elems ss).bind (fun es => es.mapM (knownKey vs d.dt)) with
    | none => finS psAfter ss none
    | some ks =>
      if ks.any Key.isNaN then finS psAfter ss none else
      let (shape', idxs) : Shape × List Nat :=
        if axis == -1 then ([], [argFirst isMax ks])
        else
          let sh := natShape o.idx.shape
          let r := specAxis (fun row => Key.num (argFirst isMax row)) sh axis.toNat ks
          ((sh.eraseIdx axis.toNat).map Int.ofNat, r.map (fun k => match k with | .num q => q.toNat | _ => 0))
      if mres != "ok" then
        finS psAfter ss (some (if mayRefuse o false then "r=err|panic" else s!"r=ok shape={showInts shape'}"))
      else pushObj psAfter ss newId shape' (idxs.map (fun i => Val.lit s!"k{i}:i")) s!"r=ok shape={showInts shape'}"
  | _, _ => finS psAfter ss none

def stepS (psBefore psAfter : PState) (ss : SState) (_ : Nat) (toks : List String) (mres : String) : SOut :=
  let ss := ss.sync psBefore.ds.size
  match toks with
  | "red" :: opn :: _ :: a :: axes :: rest =>
    match parseIntList axes, opOf opn with
    | some along, some op =>
      if !restOk rest then finS psAfter ss none else
      let fname := if opn == "sum" then "add" else if opn == "max" then "maxb" else "minb"
      specReduce psBefore psAfter ss mres fname op.types a along (vsOf rest) false
    | _, _ => finS psAfter ss none
  | "reduce" :: a :: axis :: rest =>
    match axis.toInt?, psBefore.obj a with
    | some ax, some (_, d) =>
      if !restOk rest then finS psAfter ss none else
      specReduce psBefore psAfter ss mres (if d.dt == "b" then "ne" else "add") allTypes a [ax] (vsOf rest) true
    | _, _ => finS psAfter ss none
  | "arg" :: opn :: _ :: a :: axis :: rest =>
    match parseAxis axis with
    | some ax =>
      if !restOk rest || (opn != "argmax" && opn != "argmin") then finS psAfter ss none else
      specArg psBefore psAfter ss mres (opn == "argmax") a ax ((vsOf rest).getD 0)
    | none => finS psAfter ss none
  | _ => finS psAfter ss none

/-! ### Tags -/

def excl (ps : PState) (toks : List String) : List String × Bool :=
  match toks with
  | "arg" :: _ :: _ :: a :: axis :: _ =>
    match ps.obj a, parseAxis axis with
    | some (_, t), some ax =>
      if ax == -1 then ([], false)
      else
        match argAxes t.dims ax with
        | some _ => ((if Excl_shortStrides t then ["F24"] else []), false)
        | none => ([], false)
    | _, _ => ([], false)
  | _ => ([], false)

end Red

def reduceFamily : Family :=
  { name := "Reduce", keys := ["red", "arg", "reduce"], stepM := Red.stepM, stepS := Red.stepS, excl := Red.excl }

end TM
