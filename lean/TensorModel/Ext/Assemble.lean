import TensorModel.Ext.Hooks
/-!
  Family `Assemble` (property C10; repeat / concat calculators of C13): concatenation, stacking,
  repetition.

  M mirrors `shape.go` (`Shape.Repeat`, `Shape.Concat`), `defaultengine_matop_stack.go`
  (`StackDense`, `denseSimpleStack`, `denseViewStack`/`doViewStack*`),
  `defaultengine_matop_misc.go` (`Repeat`, `RepeatReuse`, `denseRepeat`, `fastCopyDenseRepeat`,
  `Concat`, `denseConcat`), `dense_assign.go` (`assignArray`), `ap.go:BroadcastStrides`,
  `array.go:copyDenseSliced`, `dense_matop_memmove.go` (`Hstack/Vstack/Stack/Concat/Repeat`) and
  `api_matop.go` (`tensor.Concat/Stack/Repeat/RepeatReuse`).

  The data-moving kernels are written as *pure functions on the cell lists of the storage windows*
  (`copySliced`, `simpleStack0`, `simpleStackLoop`, `viewStackLoop`, `fastRepeat`), wrapped by
  stateful functions that read the windows from the heap and write the destination back. The
  property theorems (`Props/C10.lean`) are about the pure kernels.

  S is NumPy's `concatenate`, `stack`, `repeat` written coordinate-wise on logical arrays
  (`laConcat`, `laStack`, `laRepeat`). Deviations of the library's documented interface from NumPy that S follows:
  `Vstack` requires rank ≥ 2 (NumPy promotes rank-1 operands to rows); no negative axes — `-1` is the
  constant `AllAxes`, which `Concat` / `Shape.Concat` read as the outermost axis (`specConcatAxis`) and `Repeat` as
  "flatten first". Outside S's domain
  (no verdict): rank-0 operands, mixed element types, negative counts, the `(n)`-along-axis-1 extension
  of `Repeat` (pinned by `TestShape_Repeat`), a reuse tensor whose shape is only softly equal.
-/
namespace TM
namespace Asm

/-! ## list helpers -/

/-- `dst[at : at+|src|) := src` (callers guarantee that the range lies inside `dst`) -/
def blit {α} (dst : List α) (at_ : Nat) (src : List α) : List α :=
  dst.take at_ ++ src ++ dst.drop (at_ + src.length)

def setI {α} (l : List α) (i : Int) (x : α) (what : String := "index") : Res (List α) :=
  if i < 0 || i ≥ l.length then throwPanic s!"{what} out of range" else .ok (l.set i.toNat x)

/-- insert `x` before position `k` -/
def insertAt {α} (l : List α) (k : Nat) (x : α) : List α := l.take k ++ [x] ++ l.drop k

/-! ## M: shape calculators (`shape.go`) -/

/-- the `switch` at the head of `Shape.Repeat`: (size, newShape before the axis is overwritten, axis).
    `AllAxes` is `-1`. -/
def repeatHead (s : Shape) (axis : Int) : Res (Int × Shape × Int) :=
  if axis < -1 then throwErr "invalidAxis"
  else if axis == -1 then pure (totalSize s, [totalSize s], (0 : Int))
  else if s.isEmpty then pure (1, (if axis == 1 then [1, 0] else [0]), axis)
  else if isVector s && !isRowVec s && !isColVec s && axis == 1 then pure (1, s ++ [1], axis)
  else if axis ≥ s.length then throwErr "invalidAxis"
  else do
    let d ← idx s axis "s[axis]"
    pure (d, s, axis)

/-- the rest of `Shape.Repeat`: broadcast of a single count, count check, `newShape[axis] = Σ repeats` -/
def repeatTail (size : Int) (newShape : Shape) (axis : Int) (repeats : List Int) : Res (Shape × List Int × Int) := do
  let reps := if repeats.length == 1 then List.replicate size.toNat (repeats.headD 0) else repeats
  if (reps.length : Int) != size then throwErr "broadcastError"
  let newShape ← setI newShape axis (sumI reps) "newShape[axis]"
  pure (newShape, reps, size)

/-- `Shape.Repeat(axis, repeats...)`: (newShape, finalRepeats, size) -/
def shapeRepeat (s : Shape) (axis : Int) (repeats : List Int) : Res (Shape × List Int × Int) := do
  let (size, newShape, axis) ← repeatHead s axis
  repeatTail size newShape axis repeats

/-- the dimension loop of `Shape.Concat` past the concatenation axis: every extent must agree -/
def eqDims : Shape → Shape → Res Shape
  | [], _ => .ok []
  | _ :: _, [] => throwPanic "shp[d] out of range"
  | a :: as, b :: bs =>
    if a != b then throwErr "dimMismatch"
    else do
      let r ← eqDims as bs
      pure (a :: r)

/-- the dimension loop of `Shape.Concat` for one further shape; `k` counts down to the axis
    (`d == axis`: add the extents, otherwise they must agree) -/
def concatDims : Nat → Shape → Shape → Res Shape
  | _, [], _ => .ok []
  | _, _ :: _, [] => throwPanic "shp[d] out of range"
  | 0, a :: as, b :: bs => do
    let r ← eqDims as bs
    pure ((a + b) :: r)
  | k + 1, a :: as, b :: bs =>
    if a != b then throwErr "dimMismatch"
    else do
      let r ← concatDims k as bs
      pure (a :: r)

/-- `Shape.Concat(axis, ss...)` -/
def shapeConcat (s : Shape) (axis : Int) (ss : List Shape) : Res Shape := do
  let dims := s.length
  if ss.any (fun shp => shp.length != dims) then throwErr "dimMismatch"
  let axis := if axis == -1 then 0 else axis
  if axis < 0 then throwErr "invalidAxis"
  if axis ≥ dims then throwErr "invalidAxis"
  ss.foldlM (fun acc shp => concatDims axis.toNat acc shp) s

/-! ## M: pure copy kernels on window cell lists -/

/-- `copyDenseSliced(dst, ds, de, src, ss, se)` (`array.slice` panics on `end > len`, `end < start`) -/
def copySliced (dst : List Val) (ds de : Int) (src : List Val) (ss se : Int) : Res (List Val) :=
  if ds < 0 || de < ds || de > dst.length then throwPanic "copyDenseSliced: dst slice out of range"
  else if ss < 0 || se < ss || se > src.length then throwPanic "copyDenseSliced: src slice out of range"
  else
    let n := min (de - ds) (se - ss)
    .ok (blit dst ds.toNat ((src.drop ss.toNat).take n.toNat))

/-- `denseSimpleStack`, `case 0`: `copyDense(retVal, t)`, then every other operand at `next`. -/
def simpleStack0Others : List (List Val) → Int → List Val → Res (List Val)
  | [], _, dst => .ok dst
  | ot :: ots, next, dst => do
    let dst ← copySliced dst next dst.length ot 0 ot.length
    simpleStack0Others ots (next + ot.length) dst

def simpleStack0 (dst : List Val) : List (List Val) → Res (List Val)
  | [] => .ok dst
  | t :: others =>
    -- copy(dst.Raw, t.Raw)
    simpleStack0Others others t.length (blit dst 0 (t.take dst.length))

/-- one pass of the `default:` loop body: every operand's block `[start, start+axisStride)` goes to
    `destStart`, `destStart + axisStride`, … -/
def simpleStackRow (axisStride start : Int) : List (List Val) → Int → List Val → Res (Int × List Val)
  | [], destStart, dst => .ok (destStart, dst)
  | src :: srcs, destStart, dst => do
    let dst ← copySliced dst destStart dst.length src start (start + axisStride)
    simpleStackRow axisStride start srcs (destStart + axisStride) dst

/-- `for i := 0; i < batches; i++ { …; i += len(others) }`: `iters` passes -/
def simpleStackLoop (axisStride : Int) (srcs : List (List Val)) : Nat → Int → Int → List Val → Res (List Val)
  | 0, _, _, dst => .ok dst
  | n + 1, start, destStart, dst => do
    let (destStart, dst) ← simpleStackRow axisStride start srcs destStart dst
    simpleStackLoop axisStride srcs n (start + axisStride) destStart dst

/-- number of passes of the loop above: `i` advances by the number of operands per pass -/
def stackIters (batches : Int) (nOps : Nat) : Nat :=
  if batches ≤ 0 || nOps == 0 then 0 else ((batches.toNat + nOps - 1) / nOps)

/-- an operand of `denseViewStack`: its storage cells (up to the capacity), its length and the
    offsets its iterator still has to deliver -/
structure VSrc where
  cells : List Val
  len : Nat
  offs : List Int
deriving Inhabited

/-- the closure `f` of `doViewStack*`: pull up to `n` offsets, append the cells.
    `sized` kernels index the typed slice (bounds = length), the arbitrary-size kernel slices the raw
    bytes (bounds = capacity). -/
def pullChunk (sized : Bool) : Nat → VSrc → List Val → Res (VSrc × List Val)
  | 0, s, acc => .ok (s, acc)
  | n + 1, s, acc =>
    match s.offs with
    | [] => .ok (s, acc)
    | id :: rest =>
      if id < 0 || (sized && id ≥ s.len) || (!sized && id ≥ s.cells.length) then throwPanic "viewStack: index out of range"
      else match s.cells[id.toNat]? with
        | none => throwPanic "viewStack: index out of range"
        | some v => pullChunk sized n { s with offs := rest } (acc ++ [v])

def viewStackRow (sized : Bool) (axisStride : Nat) : List VSrc → List Val → Res (List VSrc × List Val)
  | [], acc => .ok ([], acc)
  | s :: ss, acc => do
    let (s', acc) ← pullChunk sized axisStride s acc
    let (ss', acc) ← viewStackRow sized axisStride ss acc
    pure (s' :: ss', acc)

def viewStackLoop (sized : Bool) (axisStride : Nat) : Nat → List VSrc → List Val → Res (List Val)
  | 0, _, acc => .ok acc
  | n + 1, srcs, acc => do
    let (srcs, acc) ← viewStackRow sized axisStride srcs acc
    viewStackLoop sized axisStride n srcs acc

/-- `fastCopyDenseRepeat`, the `stride == 1 && newStride == 1` shortcut for one outer iteration.
    `src` / `dst` are the cell lists up to the *capacity* of the windows (byte slices are re-sliced). -/
def fastRepeatRow1 (src : List Val) : List Int → Int → Int → List Val → Res (Int × Int × List Val)
  | [], s, d, dst => .ok (s, d, dst)
  | tmp :: rs, s, d, dst =>
    if s < 0 || s + 1 > src.length then throwPanic "fastCopy: source byte range out of capacity"
    else if tmp < 0 || d < 0 || d + tmp > dst.length then throwPanic "fastCopy: destination byte range out of capacity"
    else match src[s.toNat]? with
      | none => throwPanic "fastCopy: source"
      | some v => fastRepeatRow1 src rs (s + 1) (d + tmp) (blit dst d.toNat (List.replicate tmp.toNat v))

/-- the `k` loop of the general path: up to `tmp` copies of the block starting at `s` -/
def fastRepeatK (src : List Val) (srcLen dstLen : Nat) (stride newStride : Int) (s : Int) :
    Nat → Int → List Val → Res (Int × List Val)
  | 0, d, dst => .ok (d, dst)
  | k + 1, d, dst =>
    if s ≥ srcLen || d + stride > dstLen then .ok (d, dst)   -- break
    else if d < 0 || newStride < 0 || d + newStride > dstLen then throwPanic "fastCopy: destination slice out of range"
    else
      -- storage.Copy(dSlice, tSlice): min(newStride, src.len - srcStart) cells
      let chunk := (((src.take srcLen).drop s.toNat).take newStride.toNat)
      fastRepeatK src srcLen dstLen stride newStride s k (d + newStride) (blit dst d.toNat chunk)

/-- the `j` loop of the general path for one outer iteration -/
def fastRepeatRowG (src : List Val) (srcLen dstLen : Nat) (stride newStride : Int) :
    List Int → Int → Int → List Val → Res (Int × Int × List Val)
  | [], s, d, dst => .ok (s, d, dst)
  | tmp :: rs, s, d, dst =>
    -- tSlice = sarr.slice(srcStart, src.len())
    if s < 0 || s > srcLen then throwPanic "fastCopy: source slice out of range"
    else do
      let (d, dst) ← fastRepeatK src srcLen dstLen stride newStride s tmp.toNat d dst
      fastRepeatRowG src srcLen dstLen stride newStride rs (s + stride) d dst

/-- `fastCopyDenseRepeat(src, dest, outers, size, stride, newStride, repeats)` -/
def fastRepeat (src : List Val) (srcLen dstLen : Nat) (stride newStride : Int) (reps : List Int) :
    Nat → Int → Int → List Val → Res (List Val)
  | 0, _, _, dst => .ok dst
  | o + 1, s, d, dst => do
    let (s, d, dst) ← (if stride == 1 && newStride == 1 then fastRepeatRow1 src reps s d dst
                       else fastRepeatRowG src srcLen dstLen stride newStride reps s d dst)
    fastRepeat src srcLen dstLen stride newStride reps o s d dst

/-! ## M: stateful wrappers -/

/-- cells `off … off+cap-1` of a window's buffer (everything re-slicing can reach) -/
def readCap (st : St) (w : Win) : Res (List Val) :=
  match st.heap[w.buf]? with
  | none => throwPanic "no such buffer"
  | some b => .ok ((b.toList.drop w.off).take w.cap)

def readLen (st : St) (w : Win) : Res (List Val) := do
  let c ← readCap st w
  pure (c.take w.len)

/-- write `cells` back at the start of the window -/
def writeCells (st : St) (w : Win) (cells : List Val) : Res St :=
  match st.heap[w.buf]? with
  | none => throwPanic "no such buffer"
  | some b =>
    let l := b.toList
    .ok { st with heap := st.heap.set! w.buf (blit l w.off (cells.take (l.length - w.off))).toArray }

/-- `recycledDense(dt, shape)` + optional `setAP`: zeroed row-major storage of `∏ shape` cells -/
def recycled (st : St) (dt : String) (sh : Shape) : Res (St × Dense) :=
  if sh.any (· < 0) then throwPanic "negative dimension size does not make sense"
  else .ok (Dense.fresh st dt sh false (Array.replicate (totalSize sh).toNat Val.zero))

def sized (dt : String) : Bool := ["b", "i8", "u8", "i16", "u16", "i32", "u32", "f32", "i", "u", "i64", "u64", "f64", "c64"].contains dt

/-- the head of `StackDense`: the axis must lie in `[0, rank]`, every other operand must have exactly
    the first operand's shape (`len(oshape) != len(shape) || !oshape.Eq(shape)`); then the new shape -/
def stackNewShape (tshape : Shape) (axis : Int) (others : List Shape) : Res Shape :=
  if axis < 0 || axis ≥ (tshape.length : Int) + 1 then throwErr "dimMismatch"
  else if others.any (fun o => o.length != tshape.length || !shapeEq o tshape) then throwErr "shapeMismatch"
  else .ok (insertAt tshape axis.toNat ((others.length : Int) + 1))

/-- the data movement of `StackDense` after the result tensor exists: `denseSimpleStack` when no
    operand needs an iterator, `denseViewStack` otherwise. `dst` are the (zeroed) cells of the result. -/
def stackCells (st : St) (t : Dense) (axis : Int) (others : List Dense) (newStrides : List Int) (retLen : Nat)
    (dst : List Val) : Res (List Val) := do
  -- column-major operands are read through their iterators (the result is assembled in row-major order)
  let allNoMat := !t.requiresIterator && !t.ap.o.col && others.all (fun o => !o.requiresIterator && !o.ap.o.col)
  if allNoMat then
    -- copyDense / copyDenseSliced panic on mixed element types
    if others.any (fun o => o.dt != t.dt) then throwPanic "Cannot copy DenseTensors of different types"
    let srcs ← (t :: others).mapM (fun o => readLen st o.win)
    if axis == 0 then simpleStack0 dst srcs
    else
      let axisStride ← idx newStrides axis "strides[axis]"
      if axisStride == 0 then throwPanic "integer divide by zero"
      let batches := goDiv retLen axisStride
      simpleStackLoop axisStride srcs (stackIters batches srcs.length) 0 0 dst
  else
    let axisStride ← idx newStrides axis "strides[axis]"
    if axisStride == 0 then throwPanic "integer divide by zero"
    let batches := goDiv retLen axisStride
    let srcs ← (t :: others).mapM (fun o => do
      let c ← readCap st o.win
      pure ({ cells := c, len := o.win.len, offs := o.offsets } : VSrc))
    let data ← viewStackLoop (sized t.dt) axisStride.toNat batches.toNat srcs []
    -- `append` into retVal's storage: the first cap(retVal) appended cells land in it
    pure (blit dst 0 (data.take dst.length))

/-- `StdEng.StackDense(t, axis, others...)` -/
def stackDense (st : St) (t : Dense) (axis : Int) (others : List Dense) : Res (St × Dense) := do
  let newShape ← stackNewShape t.shape axis (others.map (·.shape))
  let newStrides := Dense.defaultStrides false newShape
  let (st, r0) ← recycled st t.dt newShape
  -- retVal.setAP(&ap): the order flags are the first operand's, but the result is always row-major
  let ret : Dense := { r0 with ap := { shape := newShape, strides := newStrides, fin := true, o := { t.ap.o with col := false } } }
  if (t :: others).any (fun o => o.mask.isSome) then throwPanic "unmodelled: masked operand of Stack"
  let dst ← readCap st ret.win
  let dst ← stackCells st t axis others newStrides ret.win.len dst
  let st ← writeCells st ret.win dst
  pure (st, ret)

/-- the loop bounds and block lengths of `denseRepeat`: (outers, stride, newStride). Source and result
    are both walked in blocks of everything behind the repeated axis, `ProdInts(newShape[axis+1:])`. -/
def repeatParams (tshape newShape : Shape) (axis : Int) : Res (Int × Int × Int) := do
  let outers ← (if tshape.isEmpty then pure 1 else
    if axis < 0 || axis > tshape.length then throwPanic "Shape()[0:axis] out of range"
    else pure (prod (tshape.take axis.toNat)) : Res Int)
  let stride ← (if axis + 1 < 0 || axis + 1 > newShape.length then throwPanic "newShape[axis+1:] out of range"
    else pure (prod (newShape.drop (axis + 1).toNat)) : Res Int)
  pure (outers, stride, stride)

/-- `storedRowMajor(t)`: the storage window is the row-major listing of the elements — one cell, or
    contiguous, not column-major and without a pending transpose -/
def storedRowMajor (t : Dense) : Bool :=
  t.win.len == 1 || (!t.ap.o.nonContig && !t.ap.o.col && t.old.isNone)

/-- the head of `denseRepeat`: a source that is not stored as its row-major listing is copied into a fresh
    row-major tensor (`recycledDense` + `copyDenseIter(tmp, t, nil, nil)`), which is read instead -/
def repeatSource (st : St) (t : Dense) : Res (St × Dense) :=
  if storedRowMajor t then pure (st, t)
  else do
    let (st, tmp) ← recycled st t.dt t.shape
    Dense.copyDenseIter st { tmp with eng := t.eng } t

/-- `StdEng.denseRepeat(t, reuse, newShape, axis, size, repeats)` (after `denseRepeatCheck`) -/
def denseRepeat (st : St) (t d : Dense) (newShape : Shape) (axis : Int) (size : Int) (reps : List Int) : Res St := do
  if t.mask.isSome || d.mask.isSome then throwPanic "unmodelled: masked operand of Repeat"
  if t.dt != d.dt then throwPanic "unmodelled: Repeat into a tensor of another element type"
  let (st, t) ← repeatSource st t
  let (outers, stride, newStride) ← repeatParams t.shape newShape axis
  let _ := size
  let src ← readCap st t.win
  let dst ← readCap st d.win
  let dst ← fastRepeat src t.win.len d.win.len stride newStride reps outers.toNat 0 0 dst
  writeCells st d.win dst

/-- `StdEng.Repeat(t, axis, repeats...)` -/
def repeatNew (st : St) (t : Dense) (axis : Int) (reps : List Int) : Res (St × Dense) := do
  let (newShape, newReps, size) ← shapeRepeat t.shape axis reps
  let newAxis := if axis == -1 then 0 else axis
  let (st, rr) ← recycled st t.dt newShape
  let st ← denseRepeat st t rr newShape newAxis size newReps
  pure (st, rr)

/-- `StdEng.RepeatReuse(t, reuse, axis, repeats...)`: the reuse tensor is returned -/
def repeatReuse (st : St) (t reuse : Dense) (axis : Int) (reps : List Int) : Res St := do
  let (newShape, newReps, size) ← shapeRepeat t.shape axis reps
  let newAxis := if axis == -1 then 0 else axis
  if !shapeEq reuse.shape newShape then throwErr "Reuse shape"
  if !storedRowMajor reuse then
    -- the blocks are written into a row-major temporary, which `copyDenseIter(reuse, tmp, nil, nil)` hands
    -- to the reuse tensor element by element
    if reuse.mask.isSome then throwPanic "unmodelled: masked operand of Repeat"
    let (st, tmp) ← recycled st t.dt newShape
    let st ← denseRepeat st t tmp newShape newAxis size newReps
    if reuse.dt != tmp.dt then throwPanic "Cannot copy Dense arrays of different types"
    let (st, _) ← Dense.copyDenseIter st reuse tmp
    pure st
  else
  denseRepeat st t reuse newShape newAxis size newReps

/-- `BroadcastStrides(destShape, srcShape, destStrides, srcStrides)` -/
def broadcastStrides (destShape srcShape : Shape) (destStrides srcStrides : List Int) : Res (List Int) := do
  let dims : Int := destShape.length
  let start := dims - srcShape.length
  if isVector destShape && isVector srcShape then
    -- two vectors: the source keeps the stride of each of its own axes (a copy of `srcStrides`)
    return srcStrides
  if start < 0 then throwErr "dimMismatch"
  if destStrides.length != destShape.length then throwPanic "unmodelled: destination with fewer strides than axes"
  let rec go (i : Nat) : List Int → Res (List Int)
    | [] => .ok []
    | d :: ds =>
      if (i : Int) < start then do
        let r ← go (i + 1) ds
        pure (0 :: r)
      else do
        let r ← go (i + 1) ds
        let s ← idx srcShape ((i : Int) - start) "srcShape[i-start]"
        if s == 1 then pure (0 :: r)
        else if s != d then throwErr "Cannot broadcast"
        else do
          let x ← idx srcStrides ((i : Int) - start) "srcStrides[i-start]"
          pure (x :: r)
  go 0 destShape

/-- offsets of a `FlatIterator` over an arbitrary access pattern; `ndNext` re-slices
    `it.strides[:len(shape)]`, which panics for a stride list shorter than the shape -/
def iterOffsets (ap : AP) : Res (List Int) :=
  if !ap.shape.isEmpty && !ap.isVectorLike && ap.strides.length < ap.shape.length then
    throwPanic "ndNext: it.strides[:v+1] out of range"
  else .ok (FlatIt.offsets ap)

/-- `copy(tmp, tmp[1:])`: shift left keeping the length -/
def shiftLeft {α} (l : List α) : List α :=
  match l with
  | [] => []
  | _ :: tl => tl ++ (match l.getLast? with | some x => [x] | none => [])

/-- the `for tmpDim > dd && tmpShape[0] == 1` loop of `assignArray` -/
def dropLeadingOnes : Nat → Shape → List Int → Shape × List Int
  | 0, sh, st => (sh, st)
  | n + 1, sh, st =>
    if sh.head? == some 1 then dropLeadingOnes n (shiftLeft sh) (shiftLeft st) else (sh, st)

/-- `assignArray(dest, src)` -/
def assignArray (st : St) (dest src : Dense) : Res St := do
  if src.shape.isEmpty then throwPanic "HELP"
  let dd := dest.dims
  let sd := src.dims
  let _ ← idx dest.strides 0 "dstrides[0]"
  let _ ← (if isVector src.shape then idx src.strides 0 "sstrides[0]" else idx src.strides ((sd : Int) - 1) "sstrides[sd-1]")
  let (tmpShape, tmpStrides) := if sd > dd then dropLeadingOnes (sd - dd) src.shape src.strides else (src.shape, src.strides)
  let newStrides ← broadcastStrides dest.shape tmpShape dest.strides tmpStrides
  let sap : AP := { shape := tmpShape, strides := newStrides, fin := true, o := src.ap.o }
  -- copyDenseIter(dest, src, diter, siter)
  if dest.dt != src.dt then throwPanic "Cannot copy Dense arrays of different types"
  if !dest.requiresIterator && !src.requiresIterator && Dense.sameOrder dest src then
    let (st, _) ← Dense.copyDense st dest src
    pure st
  else
    let doffs ← iterOffsets dest.ap
    let soffs ← iterOffsets sap
    let st ← Dense.copyIterOffsets st dest.win src.win doffs soffs
    let (st, _) ← Dense.copyMaskIter st dest src doffs soffs
    pure st

/-- `(*Dense).reshape(dims...)` on a view: `setShape` (default strides of the order), `sanity` passes -/
def viewReshape (v : Dense) (dims : Shape) : Dense :=
  { v with ap := { v.ap with shape := dims, strides := if dims.isEmpty then [] else Dense.defaultStrides v.ap.o.col dims, fin := true } }

/-- `(*Dense).unsqueeze(axis)` -/
def unsqueeze (v : Dense) (axis : Nat) : Res Dense :=
  if axis > v.shape.length + 1 then throwErr "Cannot unsqueeze"
  else if axis > v.shape.length then throwPanic "unsqueeze: slice bounds out of range"
  else
    let sh := insertAt v.shape axis 1
    -- strides = append(strides, 1); copy(strides[axis+1:], strides[axis:])
    let st := if axis ≥ v.strides.length then v.strides ++ [1]
              else insertAt v.strides axis (v.strides[axis]?.getD 1)
    .ok { v with ap := { v.ap with shape := sh, strides := st } }

def maskBits (st : St) (m : Win) : Res (List Bool) := (rangeI m.len).mapM (fun i => st.mget m i)

/-- write the common prefix of `bits` into the mask window -/
def writeMask (st : St) (m : Win) (bits : List Bool) : Res St :=
  ((rangeI (min m.len bits.length)).zip bits).foldlM (fun st (i, b) => st.mset m i b) st

/-- `StdEng.denseConcat(a, axis, Ts)`; `ds` is the object table (operands may be mutated),
    `ids` the operands (first = `a`). Returns the result and the updated table. -/
def denseConcat (st : St) (ds : Array Dense) (ids : List Nat) (axis : Int) : Res (St × Array Dense × Dense) := do
  let ops := ids.filterMap (fun i => ds[i]?)
  match ops with
  | [] => throwPanic "no operand"
  | a :: ts =>
    let isMasked := ts.any (·.isMasked)
    let newShape ← shapeConcat a.shape axis (ts.map (·.shape))
    -- `if axis == AllAxes { axis = 0 }`: the copying uses the axis `Shape.Concat` computed the shape for
    let axis : Int := if axis == -1 then 0 else axis
    let (st, ret) ← recycled st a.dt newShape
    let (st, ret) := if isMasked then
        let (st, b) := st.allocMask (Array.replicate (totalSize newShape).toNat false)
        let n := (totalSize newShape).toNat
        (st, { ret with mask := some ⟨b, 0, n, n⟩ })
      else (st, ret)
    let isOuter := axis == 0
    let isInner := axis == (a.dims : Int) - 1
    let rec loop (st : St) (ds : Array Dense) (start : Int) : List Nat → Res (St × Array Dense)
      | [] => .ok (st, ds)
      | id :: rest => do
        let T ← (match ds[id]? with | some d => pure d | none => throwPanic "operand" : Res Dense)
        let ext ← idx T.shape axis "T.Shape()[axis]"
        let stop := start + ext
        let sls : List (Option Sl) := List.replicate axis.toNat none ++ [some ⟨start, stop, 1⟩]
        let v ← ret.slice sls
        -- keep dims after slicing
        let vT ← (
          if isVector v.shape && T.dims == 2 && axis == 0 then do
            let d0 ← idx v.shape 0 "v.shape[0]"
            pure (some (viewReshape v [d0, 1], T))
          else if isRowVec T.shape && axis == 0 then do
            -- T.reshape(T.Shape()[1]): the *operand* is reshaped (error of sanity() dropped)
            let d1 ← idx T.shape 1 "T.Shape()[1]"
            pure (some (v, viewReshape T [d1]))
          else if isScalarEquiv v.shape && isScalarEquiv T.shape then pure none
          else
            let diff : Int := (ret.dims : Int) - v.dims
            if diff > 0 && isOuter then
              pure (some (viewReshape v (List.replicate diff.toNat 1 ++ v.shape), T))
            else if diff > 0 && isInner then
              pure (some ({ v with ap := { v.ap with shape := v.shape ++ List.replicate diff.toNat 1,
                                                     strides := v.strides ++ List.replicate diff.toNat 1 } }, T))
            else if ext == 1 then do
              let v ← unsqueeze v axis.toNat
              pure (some (v, T))
            else pure (some (v, T)) : Res (Option (Dense × Dense)))
        match vT with
        | none =>
          -- copyArray(v.arrPtr(), T.arrPtr()); copy(v.mask, T.Mask())
          let st ← Dense.rawCopy st v.win T.win
          let st ← (match v.mask, T.mask with
            | some vm, some tm => do
              let bits ← maskBits st tm
              writeMask st vm bits
            | _, _ => pure st : Res St)
          loop st ds stop rest
        | some (v, T) =>
          let vmask := v.mask
          let v := { v with mask := none }
          let tmask := if T.isMasked then T.mask else none
          -- the operand keeps what `reshape` did to it; its mask is only removed for the copy
          -- (`mt.SetMask(nil)` … `mt.SetMask(Tmask)`)
          let ds := ds.set! id T
          let T := if T.isMasked then { T with mask := none } else T
          let st ← assignArray st v T
          let st ← (match tmask, vmask with
            | some tm, some vm =>
              if vm.cap < tm.len then pure st   -- a fresh mask slice is filled and attached to the temporary view only
              else do
                let bits ← maskBits st tm
                writeMask st vm bits
            | _, _ => pure st : Res St)
          loop st ds stop rest
    let (st, ds) ← loop st ds 0 ids
    pure (st, ds, ret)

/-! ## S: NumPy semantics on logical arrays, coordinate-wise -/

/-- position `p` along a repeated axis ↦ index of the source entry (`none`: past the end) -/
def srcIndex : List Nat → Nat → Option Nat
  | [], _ => none
  | r :: rs, p => if p < r then some 0 else (srcIndex rs (p - r)).map (· + 1)

def sumN : List Nat → Nat
  | [] => 0
  | x :: xs => x + sumN xs

/-- shape of `repeat`: `none` = refused -/
def repeatShape (sh : Shape) (axis : Nat) (reps : List Nat) : Option Shape :=
  match sh[axis]? with
  | none => none
  | some d => if (reps.length : Int) == d then some (sh.set axis (sumN reps)) else none

/-- `numpy.repeat(a, reps, axis)`: result element `c` is source element `c[axis ↦ srcIndex reps c[axis]]` -/
def laRepeat {α} (a : LA α) (axis : Nat) (reps : List Nat) : Option (LA α) := do
  let sh ← repeatShape a.shape axis reps
  LA.tabulate sh (fun c => do
    let p ← c[axis]?
    let j ← srcIndex reps p.toNat
    a.at (c.set axis j))

/-- position `p` along the concatenation axis ↦ (operand, position inside it) -/
def locate : List Int → Int → Option (Nat × Int)
  | [], _ => none
  | d :: ds, p => if p < d then some (0, p) else (locate ds (p - d)).map (fun (k, q) => (k + 1, q))

/-- shape of `concatenate`: equal ranks, `axis` inside, equal extents off the axis; `none` = refused -/
def concatShape (axis : Nat) : List Shape → Option Shape
  | [] => none
  | s :: rest =>
    if axis < s.length && rest.all (fun t => t.length == s.length && t.set axis 0 == s.set axis 0) then
      some (s.set axis (sumI ((s :: rest).map (fun t => t[axis]?.getD 0))))
    else none

/-- the axis argument of `Concat` / `Shape.Concat` as the library's interface reads it: the constant
    `AllAxes` (-1) names the outermost axis (pinned by `TestShape_Concat`, "standard, axis AllAxes");
    every other negative axis is not an axis. -/
def specConcatAxis (axis : Int) : Option Nat :=
  if axis == -1 then some 0 else if axis < 0 then none else some axis.toNat

/-- S's verdict on the shape of a concatenation: `none` = refused -/
def specConcatShape (axis : Int) (shapes : List Shape) : Option Shape :=
  match specConcatAxis axis with
  | none => none
  | some k => concatShape k shapes

/-- `numpy.concatenate(as, axis)` -/
def laConcat {α} (axis : Nat) (as : List (LA α)) : Option (LA α) := do
  let sh ← concatShape axis (as.map (·.shape))
  LA.tabulate sh (fun c => do
    let p ← c[axis]?
    let (k, q) ← locate (as.map (fun a => a.shape[axis]?.getD 0)) p
    let a ← as[k]?
    a.at (c.set axis q))

/-- shape of `stack`: all shapes equal, `axis ≤ rank`; the new axis has one entry per operand -/
def stackShape (axis : Nat) : List Shape → Option Shape
  | [] => none
  | s :: rest =>
    if axis ≤ s.length && rest.all (· == s) then some (insertAt s axis ((rest.length : Int) + 1)) else none

/-- `numpy.stack(as, axis)`: result element `c` is element `c` without its `axis` entry of operand `c[axis]` -/
def laStack {α} (axis : Nat) (as : List (LA α)) : Option (LA α) := do
  let sh ← stackShape axis (as.map (·.shape))
  LA.tabulate sh (fun c => do
    let k ← c[axis]?
    let a ← as[k.toNat]?
    a.at (c.eraseIdx axis))

/-- flatten (row-major listing as a rank-1 array) -/
def laFlat {α} (a : LA α) : LA α := ⟨[a.elems.length], a.elems⟩

/-! ## program steps -/

def parseAxis (s : String) : Option Int := if s == "all" then some (-1) else s.toInt?

/-- operands of a step: object ids and tensors; `none` if a token is not a live variable -/
def operands (ps : PState) (toks : List String) : Option (List (Nat × Dense)) :=
  if toks.isEmpty then none else toks.mapM ps.obj

/-- snapshot of what "the operand is unchanged" means for the metadata: access pattern, pending
    transpose, mask -/
def metaSnap (st : St) (d : Dense) : String :=
  let m := match d.mask with
    | none => "-"
    | some m => showRes ((rangeI m.len).mapM (fun i => st.mget m i)) showBools
  s!"{showInts d.shape}/{showInts d.strides}/{d.ap.o.show}/{d.old.isSome}/{m}"

def opsame (ps ps' : PState) (ids : List Nat) : String :=
  if ids.all (fun i => match ps.ds[i]?, ps'.ds[i]? with
      | some a, some b => metaSnap ps.st a == metaSnap ps'.st b
      | _, _ => false) then "1" else "0"

/-- finish a tensor-producing step -/
def finishAsm (ps : PState) (ids : List Nat) (r : Res (PState × Option Nat × Option Dense)) : PState × StepOut :=
  -- `Option Nat`: the returned tensor is that existing object; `Option Dense`: a fresh one
  match r with
  | .error (.err _) => (ps.failVar, .fields s!"r=err opsame={opsame ps ps ids}")
  | .error (.panic _) => (ps.failVar, .stop "r=panic")
  | .ok (ps', some id, _) =>
    let ps'' := ps'.aliasVar id
    let sh := match ps''.ds[id]? with | some d => showInts d.shape | none => "?"
    (ps'', .fields s!"r=ok ident={ps''.firstVar id} shape={sh} opsame={opsame ps ps' ids}")
  | .ok (ps', none, some d) =>
    (ps'.newVar d, .fields s!"r=ok ident=new shape={showInts d.shape} opsame={opsame ps ps' ids}")
  | .ok (_, none, none) => (ps.failVar, .fields s!"r=err opsame={opsame ps ps ids}")

/-- `Dense.Concat(axis, Ts...)` through the engine -/
def concatMeth (ps : PState) (ids : List Nat) (axis : Int) : Res (PState × Option Nat × Option Dense) := do
  let (st, ds, ret) ← denseConcat ps.st ps.ds ids axis
  pure ({ ps with st := st, ds := ds }, none, some ret)

def stepM (ps : PState) (_stepIdx : Nat) (toks : List String) : PState × StepOut :=
  match toks with
  | "concat" :: via :: axisTok :: opToks =>
    match axisTok.toInt?, operands ps opToks with
    | some axis, some ops =>
      let ids := ops.map (·.1)
      if via == "fn" && ops.length == 1 then
        -- `tensor.Concat` without further operands: the operand itself, once `Shape.Concat` accepts the axis
        finishAsm ps ids (do
          let _ ← shapeConcat ((ops.head?.map (·.2.shape)).getD []) axis []
          pure (ps, ids.head?, none))
      else if via == "fn" || via == "meth" then finishAsm ps ids (concatMeth ps ids axis)
      else (ps.failVar, .fields "r=skip")
    | _, _ => (ps.failVar, .fields "r=skip")
  | "stack" :: via :: axisTok :: opToks =>
    match axisTok.toInt?, operands ps opToks with
    | some axis, some ((tid, t) :: others) =>
      let ids := tid :: others.map (·.1)
      if via == "fn" || via == "meth" then
        finishAsm ps ids (do
          let (st, d) ← stackDense ps.st t axis (others.map (·.2))
          pure ({ ps with st := st }, none, some d))
      else (ps.failVar, .fields "r=skip")
    | _, _ => (ps.failVar, .fields "r=skip")
  | "hstack" :: opToks =>
    match operands ps opToks with
    | some ops =>
      let ids := ops.map (·.1)
      finishAsm ps ids (do
        if ops.any (fun o => o.2.dims < 1) then throwErr "atleastDims"
        let axis : Int := if (ops.head?.map (·.2.dims)) == some 1 then 0 else 1
        concatMeth ps ids axis)
    | none => (ps.failVar, .fields "r=skip")
  | "vstack" :: opToks =>
    match operands ps opToks with
    | some ops =>
      let ids := ops.map (·.1)
      finishAsm ps ids (do
        if ops.any (fun o => o.2.dims < 2) then throwErr "atleastDims"
        concatMeth ps ids 0)
    | none => (ps.failVar, .fields "r=skip")
  | ["repeat", via, a, axisTok, repsTok] =>
    match ps.obj a, parseAxis axisTok, parseIntList repsTok with
    | some (id, t), some axis, some reps =>
      if via != "fn" && via != "meth" then (ps.failVar, .fields "r=skip") else
      finishAsm ps [id] (do
        let (st, d) ← repeatNew ps.st t axis reps
        pure ({ ps with st := st }, none, some d))
    | _, _, _ => (ps.failVar, .fields "r=skip")
  | ["repeatreuse", a, axisTok, repsTok, r] =>
    match ps.obj a, parseAxis axisTok, parseIntList repsTok, ps.obj r with
    | some (id, t), some axis, some reps, some (rid, reuse) =>
      finishAsm ps [id] (do
        let st ← repeatReuse ps.st t reuse axis reps
        pure ({ ps with st := st }, some rid, none))
    | _, _, _, _ => (ps.failVar, .fields "r=skip")
  | ["calcRepeat", a, axisTok, repsTok] =>
    match ps.obj a, parseAxis axisTok, parseIntList repsTok with
    | some (_, t), some axis, some reps =>
      let recv := s!"recv={showInts t.shape}>{showInts t.shape}"
      (ps, match shapeRepeat t.shape axis reps with
        | .ok (sh, fr, size) => .fields s!"r=ok shape={showInts sh} reps={showInts fr} size={size} {recv}"
        | .error (.err _) => .fields s!"r=err {recv}"
        | .error (.panic _) => .stop "r=panic")
    | _, _, _ => (ps, .fields "r=skip")
  | "calcConcat" :: axisTok :: opToks =>
    match axisTok.toInt?, operands ps opToks with
    | some axis, some ((_, t) :: others) =>
      let recv := s!"recv={showInts t.shape}>{showInts t.shape}"
      (ps, match shapeConcat t.shape axis (others.map (·.2.shape)) with
        | .ok sh => .fields s!"r=ok shape={showInts sh} {recv}"
        | .error (.err _) => .fields s!"r=err {recv}"
        | .error (.panic _) => .stop "r=panic")
    | _, _ => (ps, .fields "r=skip")
  | ["amask", a, bits] =>
    match ps.obj a with
    | some (id, t) =>
      let cells := bits.toList.map (· == '1')
      let (st, b) := ps.st.allocMask cells.toArray
      ({ ps with st := st }.setObj id { t with mask := some ⟨b, 0, cells.length, cells.length⟩ }, .fields "r=ok")
    | none => (ps, .fields "r=skip")
  | _ => (ps, .fields "r=badprog")

/-! ### S steps -/

/-- logical array of an S object with the element *values* -/
def laOf (ss : SState) (o : SObj) : Option (LA Val) := (o.elems ss).map (fun es => ⟨o.idx.shape, es⟩)

/-- register the result of an operation as a fresh S object (when M created one), print the line -/
def finResult (psBefore psAfter : PState) (ss : SState) (res : Option (LA Val)) : SOut :=
  match res with
  | none => finS psAfter ss (some "r=err opsame=1")
  | some la =>
    let line := s!"r=ok shape={showInts la.shape} opsame=1"
    if psAfter.ds.size == psBefore.ds.size + 1 then
      let newId := psBefore.ds.size
      let root := ss.store.size
      let ss := { ss with store := ss.store.push la.elems.toArray }
      let o' : SObj := { root := root, idx := ⟨la.shape, List.range la.elems.length⟩ }
      finS psAfter ({ ss with objs := (ss.sync newId).objs.push (some o') }) (some line)
    else finS psAfter ss (some line)

/-- S gives no verdict on what was written through object `id`: every object over the same store is
    undefined from here on -/
def invalidate (ss : SState) (id : Nat) : SState :=
  match ss.objs[id]? with
  | some (some o) => { ss with objs := ss.objs.map (fun x => match x with
      | some o' => if o'.root == o.root then none else some o'
      | none => none) }
  | _ => ss.setObj id none

def natReps (reps : List Int) : Option (List Nat) :=
  if reps.all (· ≥ 0) then some (reps.map Int.toNat) else none

/-- shape part of S's `repeat`: `none` = outside the domain (negative counts, rank 0, the library's
    `(n)`-along-axis-1 extension), `some none` = refused, `some (some sh)` = result shape -/
def specRepeatShape (sh : Shape) (axis : Int) (reps : List Int) : Option (Option Shape) :=
  match natReps reps with
  | none => none
  | some nreps =>
    if sh.isEmpty then none
    else
      let sh' : Shape := if axis == -1 then [totalSize sh] else sh
      let axis' : Int := if axis == -1 then 0 else axis
      if sh'.length == 1 && axis' == 1 then none
      else if axis' < 0 || axis' ≥ sh'.length then some none
      else
        let d := (sh'[axis'.toNat]?.getD 0).toNat
        let nreps := if nreps.length == 1 then List.replicate d (nreps.headD 0) else nreps
        some (repeatShape sh' axis'.toNat nreps)

/-- S's `repeat` on a logical array of rank ≥ 1: `none` = outside the domain, `some none` = refused -/
def specRepeat (a : LA Val) (axis : Int) (reps : List Int) : Option (Option (LA Val)) :=
  match natReps reps with
  | none => none                                  -- negative counts: outside the domain
  | some nreps =>
    if a.shape.isEmpty then none                  -- rank 0: outside the quantifier (library extension)
    else
      let (a, axis) := if axis == -1 then (laFlat a, (0 : Int)) else (a, axis)
      if a.shape.length == 1 && axis == 1 && !(axis == -1) then none   -- library extension (n) ↦ (n,1), pinned by its tests
      else if axis < 0 || axis ≥ a.shape.length then some none
      else
        let d := (a.shape[axis.toNat]?.getD 0).toNat
        let nreps := if nreps.length == 1 then List.replicate d (nreps.headD 0) else nreps
        some (laRepeat a axis.toNat nreps)

def stepS (psBefore psAfter : PState) (ss : SState) (_stepIdx : Nat) (toks : List String) (_mres : String) : SOut :=
  let ss := ss.sync psBefore.ds.size
  -- operands as logical arrays; mixed element types are outside the domain
  let sOps (opToks : List String) : Option (List (LA Val)) :=
    let dts := (opToks.filterMap (fun t => (psBefore.obj t).map (·.2.dt))).eraseDups
    if opToks.isEmpty || dts.length > 1 then none
    else opToks.mapM (fun t => (sObj psBefore ss t).bind (fun (_, o) => laOf ss o))
  let join (kind : String) (axis : Int) (opToks : List String) : SOut :=
    match sOps opToks with
    | none => finS psAfter ss none
    | some las =>
      if las.any (·.shape.isEmpty) then finS psAfter ss none          -- rank 0: outside the quantifier
      else if kind == "concat" then
        match specConcatAxis axis with
        | none => finResult psBefore psAfter ss none                  -- no negative axes: refused
        | some k => finResult psBefore psAfter ss (laConcat k las)
      else if axis < 0 then finResult psBefore psAfter ss none        -- no negative axes: refused
      else finResult psBefore psAfter ss (laStack axis.toNat las)
  match toks with
  | "concat" :: _ :: axisTok :: opToks =>
    match axisTok.toInt? with
    | some axis => join "concat" axis opToks
    | none => finS psAfter ss none
  | "stack" :: _ :: axisTok :: opToks =>
    match axisTok.toInt? with
    | some axis => join "stack" axis opToks
    | none => finS psAfter ss none
  | "hstack" :: opToks =>
    -- numpy.hstack: along axis 1, along axis 0 for rank-1 operands
    match sOps opToks with
    | some (a :: rest) =>
      if (a :: rest).any (·.shape.isEmpty) then finS psAfter ss none
      else finResult psBefore psAfter ss (laConcat (if a.shape.length == 1 then 0 else 1) (a :: rest))
    | _ => finS psAfter ss none
  | "vstack" :: opToks =>
    -- the library documents "at least 2 dimensions" (NumPy would promote rank-1 operands to rows)
    match sOps opToks with
    | some las =>
      if las.any (·.shape.isEmpty) then finS psAfter ss none
      else if las.any (·.shape.length < 2) then finResult psBefore psAfter ss none
      else finResult psBefore psAfter ss (laConcat 0 las)
    | none => finS psAfter ss none
  | ["repeat", _, a, axisTok, repsTok] =>
    match sOps [a], parseAxis axisTok, parseIntList repsTok with
    | some [la], some axis, some reps =>
      match specRepeat la axis reps with
      | none => finS psAfter ss none
      | some res => finResult psBefore psAfter ss res
    | _, _, _ => finS psAfter ss none
  | ["repeatreuse", a, axisTok, repsTok, r] =>
    match sOps [a], parseAxis axisTok, parseIntList repsTok, sObj psBefore ss r with
    | some [la], some axis, some reps, some (rid, ro) =>
      match specRepeat la axis reps with
      | none => finS psAfter (invalidate ss rid) none
      | some none => finS psAfter ss (some "r=err opsame=1")
      | some (some res) =>
        -- the result is placed in the reuse tensor, which must have the result's shape
        if ro.idx.elems.length != res.elems.length then finS psAfter ss (some "r=err opsame=1")
        else if ro.idx.shape != res.shape then finS psAfter (invalidate ss rid) none   -- soft vector equality: not specified
        else if (psBefore.obj r).map (·.2.dt) != (psBefore.obj a).map (·.2.dt) then finS psAfter (invalidate ss rid) none else
        match ss.store[ro.root]? with
        | some bcells =>
          let b' := (ro.idx.elems.zip res.elems).foldl (fun b (k, v) => b.setIfInBounds k v) bcells
          finS psAfter { ss with store := ss.store.set! ro.root b' }
            (some s!"r=ok ident={psBefore.firstVar rid} shape={showInts res.shape} opsame=1")
        | none => finS psAfter (invalidate ss rid) none
    | _, _, _, some (rid, _) => finS psAfter (invalidate ss rid) none
    | _, _, _, _ => finS psAfter ss none
  | ["calcRepeat", a, axisTok, repsTok] =>
    match sOps [a], parseAxis axisTok, parseIntList repsTok with
    | some [la], some axis, some reps =>
      let recv := s!"recv={showInts la.shape}>{showInts la.shape}"
      match specRepeatShape la.shape axis reps with
      | none => finS psAfter ss none
      | some none => finS psAfter ss (some s!"r=err {recv}")
      | some (some sh) => finS psAfter ss (some s!"r=ok shape={showInts sh} {recv}")
    | _, _, _ => finS psAfter ss none
  | "calcConcat" :: axisTok :: opToks =>
    match axisTok.toInt?, sOps opToks with
    | some axis, some (a :: rest) =>
      let recv := s!"recv={showInts a.shape}>{showInts a.shape}"
      if (a :: rest).any (·.shape.isEmpty) then finS psAfter ss none
      else match specConcatShape axis ((a :: rest).map (·.shape)) with
        | some sh => finS psAfter ss (some s!"r=ok shape={showInts sh} {recv}")
        | none => finS psAfter ss (some s!"r=err {recv}")
    | _, _ => finS psAfter ss none
  | ["amask", _, _] => finS psAfter ss (some "r=ok")
  | _ => finS psAfter ss none

/-! ### known-defect regions: none left (F60–F69 are repaired; F63: `denseConcat` normalises `AllAxes` like
    `Shape.Concat`, and S reads the constant the way the library's interface defines it) -/

def excl (_ps : PState) (_toks : List String) : List String × Bool := ([], false)

end Asm

def assembleFamily : Family :=
  { name := "Assemble",
    keys := ["concat", "stack", "hstack", "vstack", "repeat", "repeatreuse", "calcRepeat", "calcConcat", "amask"],
    stepM := Asm.stepM, stepS := Asm.stepS, excl := Asm.excl }

end TM
