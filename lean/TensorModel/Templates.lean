/-
  Type-generic reference templates for the generated kernels and dispatchers of
  `internal/execution` (property C17).

  §1  element types and their classes
  §2  THE TYPE-GENERIC DEFINITION: small tables saying, per operation and type class, which
      operator token / library callee the operation is, and which classes it supports
  §3  loop skeletons (vv, sv, vs, incr, iter, recv, ...) as MiniGo AST builders
  §4  the kernel template table  (family name ↦ class ↦ expected abstracted function)
  §5  dispatcher arm / frame templates
  §6  conformance checkers used by Props/C17.lean (`expectedAt`, `famOK` at the end of §4;
      `expectedArm`, `methodOK`, diagnosis, `arms_call_existing_kernels` at the end of §5)
  §7  semantics: `sem_vv / sem_sv / sem_vs / sem_incr / sem_iter_vv` about the template ASTs

  A template mirrors the code *including its uniform oddities* (they are the same for every
  element type, so they are not C17 violations); the ones noticed are marked `ODDITY`.
-/
import TensorModel.MiniGo
namespace TM.Templates
open TM.MiniGo Expr Stmt

/-! ## §1 element types -/

inductive Cls where
  | bool | int | sint | uint | uintptr | f32 | f64 | c64 | c128 | str | uptr
  deriving DecidableEq, Repr
-- `int` is a class of its own only because it is also Go's index type (see `expectedAt`);
-- every table below treats it exactly like `sint`.

structure TyInfo where
  suffix : String      -- kernel name suffix, e.g. "I16"
  goType : String      -- Go element type, e.g. "int16"
  caseName : String    -- reflect.Type constant used in `case`, e.g. "Int16"
  accessor : String    -- typed accessor of storage.Header, e.g. "Int16s"
  cls : Cls
  deriving Repr

/-- All element types, in genlib2's order. (Mirrors the table in tools/gox/main.go.) -/
def tyInfos : List TyInfo := [
  ⟨"B", "bool", "Bool", "Bools", .bool⟩,
  ⟨"I", "int", "Int", "Ints", .int⟩, ⟨"I8", "int8", "Int8", "Int8s", .sint⟩,
  ⟨"I16", "int16", "Int16", "Int16s", .sint⟩, ⟨"I32", "int32", "Int32", "Int32s", .sint⟩,
  ⟨"I64", "int64", "Int64", "Int64s", .sint⟩,
  ⟨"U", "uint", "Uint", "Uints", .uint⟩, ⟨"U8", "uint8", "Uint8", "Uint8s", .uint⟩,
  ⟨"U16", "uint16", "Uint16", "Uint16s", .uint⟩, ⟨"U32", "uint32", "Uint32", "Uint32s", .uint⟩,
  ⟨"U64", "uint64", "Uint64", "Uint64s", .uint⟩,
  ⟨"Uintptr", "uintptr", "Uintptr", "Uintptrs", .uintptr⟩,
  ⟨"F32", "float32", "Float32", "Float32s", .f32⟩, ⟨"F64", "float64", "Float64", "Float64s", .f64⟩,
  ⟨"C64", "complex64", "Complex64", "Complex64s", .c64⟩,
  ⟨"C128", "complex128", "Complex128", "Complex128s", .c128⟩,
  ⟨"Str", "string", "String", "Strings", .str⟩,
  ⟨"UnsafePointer", "unsafe.Pointer", "UnsafePointer", "UnsafePointers", .uptr⟩]

def tyBySuffix (s : String) : Option TyInfo := tyInfos.find? (·.suffix = s)
def tyByCase (s : String) : Option TyInfo := tyInfos.find? (·.caseName = s)

namespace Cls
def isSInt : Cls → Bool | int | sint => true | _ => false
def isInt : Cls → Bool | int | sint | uint => true | _ => false
def isFloat : Cls → Bool | f32 | f64 => true | _ => false
def isCmplx : Cls → Bool | c64 | c128 => true | _ => false
/-- genlib2 `isNumber`: the 14 arithmetic types -/
def isNumber (c : Cls) : Bool := c.isInt || c.isFloat || c.isCmplx
/-- ordered types: numbers without complex, plus string -/
def isOrd (c : Cls) : Bool := c.isInt || c.isFloat || c == str
def isOrdNum (c : Cls) : Bool := c.isInt || c.isFloat
def isSignedNum (c : Cls) : Bool := c.isSInt || c.isFloat
def isFloatCmplx (c : Cls) : Bool := c.isFloat || c.isCmplx
end Cls

/-! ## §2 the type-generic definition of every operation -/

/-- How `x ∘ y` is written for a class. Tokens and callees are names, not interpreted. -/
inductive BinDef where
  | tok (t : String)                 -- x t y
  | fn (callee : String)             -- callee(x, y)
  | fnVia (callee via : String)      -- $T(callee(via(x), via(y)))
  deriving DecidableEq, Repr

structure ArithDef where
  bin : BinDef
  guard : Bool            -- integer zero-divisor guard collecting error indices
  lib : Option String     -- package the vv / incr kernels delegate to (vecf32 / vecf64)
  deriving Repr

def mathPkg : Cls → Option String
  | .f32 => some "math32" | .f64 => some "math" | _ => none
def vecPkg : Cls → Option String
  | .f32 => some "vecf32" | .f64 => some "vecf64" | _ => none

/-- `math32.F` / `math.F` / `$T(cmplx.F(complex128(·)))` / `cmplx.F` -/
def mathBin (f : String) : Cls → Option BinDef
  | .f32 => some (.fn ("math32." ++ f)) | .f64 => some (.fn ("math." ++ f))
  | .c64 => some (.fnVia ("cmplx." ++ f) "complex128") | .c128 => some (.fn ("cmplx." ++ f))
  | _ => none

/-- ARITHMETIC: op ↦ class ↦ definition (none = type not supported). -/
def arith (op : String) (c : Cls) : Option ArithDef :=
  let plain (t : String) (ok : Bool) : Option ArithDef :=
    if ok then some ⟨.tok t, false, vecPkg c⟩ else none
  match op with
  | "Add" => plain "+" (c.isNumber || c == .str)
  | "Sub" => plain "-" c.isNumber
  | "Mul" => plain "*" c.isNumber
  | "Div" => if c.isInt then some ⟨.tok "/", true, none⟩ else plain "/" c.isNumber
  | "Pow" => (mathBin "Pow" c).map (⟨·, false, vecPkg c⟩)
  | "Mod" => if c.isInt then some ⟨.tok "%", false, none⟩   -- no guard: integer % by zero panics
             else if c.isFloat then (mathBin "Mod" c).map (⟨·, false, vecPkg c⟩) else none
  | _ => none
def arithOps : List String := ["Add", "Sub", "Mul", "Div", "Pow", "Mod"]

/-- COMPARISON: op ↦ token; ordered comparisons on ordered types, (in)equality on all. -/
def cmpOps : List (String × String × Bool) :=   -- name, token, needs order
  [("Gt", ">", true), ("Gte", ">=", true), ("Lt", "<", true), ("Lte", "<=", true),
   ("Eq", "==", false), ("Ne", "!=", false)]
def cmpOk (ord : Bool) (c : Cls) : Bool := if ord then c.isOrd else true
/-- `...Same` variants write the truth value in the element type; no unsafe.Pointer version -/
def sameOk (ord : Bool) (c : Cls) : Bool := cmpOk ord c && c != .uptr
def truth (c : Cls) : Expr × Expr :=
  match c with
  | .str => (lit "\"true\"", lit "\"false\"")
  | .bool => (ident "true", ident "false")
  | _ => (lit "1", lit "0")

/-- MIN/MAX between: token, on ordered types. -/
def minmaxOps : List (String × String) := [("Min", "<"), ("Max", ">")]

def T : Expr := ident "$T"
def lit0 : Expr := lit "0"
def lit1 : Expr := lit "1"
def set (x v : Expr) : Stmt := asg e[x] "=" e[v]

/-- `math32.F(x)` / `math.F(x)` / `$T(cmplx.F(complex128(x)))` / `cmplx.F(x)` -/
def mathUn (f : String) (cplx : Bool) (c : Cls) (x : Expr) : Option Expr :=
  match c with
  | .f32 => some (call ("math32." ++ f) e[x]) | .f64 => some (call ("math." ++ f) e[x])
  | .c64 => if cplx then some (conv T (call ("cmplx." ++ f) e[conv (ident "complex128") x])) else none
  | .c128 => if cplx then some (call ("cmplx." ++ f) e[x]) else none
  | _ => none

/-- UNARY: op ↦ class ↦ statements performed on the cell `x`. -/
def unary (op : String) (c : Cls) (x : Expr) : Option Stmts :=
  let num (e : Expr) : Option Stmts := if c.isNumber then some s[set x e] else none
  let m (cplx : Bool) : Option Stmts := (mathUn op cplx c x).map (fun e => s[set x e])
  match op with
  | "Neg" => num (un "-" x)
  | "Inv" => num (bin "/" lit1 x)
  | "Square" => num (bin "*" x x)
  | "Cube" => num (bin "*" (bin "*" x x) x)
  | "Exp" => m true | "Tanh" => m true | "Log" => m true | "Log10" => m true | "Sqrt" => m true
  | "Log2" => m false | "Cbrt" => m false
  | "InvSqrt" => (mathUn "Sqrt" false c x).map (fun e => s[set x (bin "/" (conv T lit1) e)])
  | "Abs" => if c.isSInt then some s[ifs skip (bin "<" x lit0) s[set x (un "-" x)] s[]]
             else (mathUn "Abs" false c x).map (fun e => s[set x e])
  | "Sign" => if c.isSignedNum then
      some s[ifs skip (bin "<" x lit0) s[set x (un "-" lit1)] s[ifs skip (bin ">" x lit0) s[set x lit1] s[]]]
      else none
  | _ => none
def unaryOps : List String := ["Neg", "Inv", "Square", "Cube", "Exp", "Tanh", "Log", "Log2", "Log10",
  "Sqrt", "Cbrt", "InvSqrt", "Abs", "Sign"]

/-- CLAMP on ordered numbers; floats also clamp infinities. -/
def clamp (c : Cls) (x mn mx : Expr) : Option Stmts :=
  if c.isInt then
    some s[ifs skip (bin "<" x mn) s[set x mn, cont] s[], ifs skip (bin ">" x mx) s[set x mx] s[]]
  else (mathPkg c).map fun m =>
    s[ifs skip (bin "||" (bin "<" x mn) (call (m ++ ".IsInf") e[x, un "-" lit1])) s[set x mn, cont] s[],
      ifs skip (bin "||" (bin ">" x mx) (call (m ++ ".IsInf") e[x, lit1])) s[set x mx] s[]]

/-! ## §3 skeletons -/

def pS : Nat → String
  | 0 => "p0" | 1 => "p1" | 2 => "p2" | 3 => "p3" | 4 => "p4" | 5 => "p5" | 6 => "p6" | 7 => "p7"
  | 8 => "p8" | _ => "p?"
def vS : Nat → String
  | 0 => "v0" | 1 => "v1" | 2 => "v2" | 3 => "v3" | 4 => "v4" | 5 => "v5" | 6 => "v6" | 7 => "v7"
  | 8 => "v8" | 9 => "v9" | _ => "v?"
def p (n : Nat) : Expr := ident (pS n)
def v (n : Nat) : Expr := ident (vS n)
def sT : Expr := sliceTy T
def sBool : Expr := sliceTy (ident "bool")
def itT : Expr := ident "Iterator"
def errT : Expr := ident "error"
def intT : Expr := ident "int"
def boolT : Expr := ident "bool"
def r0 : Expr := ident "r0"
def nil_ : Expr := ident "nil"
def len (x : Expr) : Expr := call "len" e[x]

/-- `x = x[:]` -/
def resliceAll (x : Expr) : Stmt := set x (slc x .absent .absent)
/-- `x = x[:len(y)]` -/
def resliceTo (x y : Expr) : Stmt := set x (slc x .absent (len y))

/-- `if i, valid, err = it.NextValidity(); err != nil { err = handleNoOp(err); break }` -/
def nextV (i valid : Expr) (it : String) : Stmt :=
  ifs (asg e[i, valid, r0] "=" e[call (it ++ ".NextValidity") e[]]) (bin "!=" r0 nil_)
    s[set r0 (call "handleNoOp" e[r0]), brk] s[]

def conj : List Expr → Expr
  | [] => .absent
  | x :: xs => xs.foldl (fun a b => bin "&&" a b) x

/-- the iterator loop over iterator parameters `its`; index locals `v o ..`, validity locals
after them; `body` runs when all positions are valid. -/
def iterLoop (o : Nat) (its : List Nat) (body : Stmts) : Stmts :=
  let k := its.length
  let is := (List.range k).map (fun j => v (o + j))
  let vs := (List.range k).map (fun j => v (o + k + j))
  let nexts := (List.range k).map (fun j => nextV (v (o + j)) (v (o + k + j)) (pS (its.getD j 0)))
  s[var (Exprs.ofList is) intT e[], var (Exprs.ofList vs) boolT e[],
    for_ skip .absent skip (Stmts.ofList nexts ++ s[ifs skip (conj vs) body s[]])]

def errsDecl : Stmt := var e[v 0] (ident "errorIndices") e[]
/-- ODDITY (uniform): the zeroed cell is `dst[i0]` with `i0` the *first* index variable, also in
the iterator-incr kernels where the destination position is another variable. -/
def guardStmt (y i0 dslice : Expr) : Stmt :=
  ifs skip (bin "==" y lit0) s[set (v 0) (call "append" e[v 0, i0]), set (idx dslice i0) lit0, cont] s[]
def errEpilogue : Stmts :=
  s[ifs skip (bin "!=" r0 nil_) s[ret e[]] s[], ifs skip (bin ">" (len (v 0)) lit0) s[ret e[v 0]] s[],
    ret e[nil_]]

/-- an operand: a scalar parameter, or the cell of slice parameter `prm` at index variable `k` -/
inductive Opd where
  | scalar (prm : Nat)
  | cell (prm : Nat) (k : Nat)
  deriving Repr

structure Shape where
  params : Exprs
  pre : Stmts            -- reslicing prelude
  its : List Nat         -- iterator parameters ([] = `for i := range rng`)
  rng : Nat              -- slice parameter ranged over
  x : Opd
  y : Opd
  dst : Nat              -- destination slice parameter
  di : Nat               -- index variable used for the destination

/-- what is done with one pair of operands `x`, `y` and destination cell `d` -/
inductive Act where
  | store (d : BinDef) (tok : String)     -- d tok (x ∘ y)          tok ∈ {"=", "+="}
  | same (cmp : String) (tv fv : Expr)    -- if x cmp y { d = tv } else { d = fv }
  | pick (cmp : String)                   -- if o cmp d { d = o }    (o = the operand that is not d)

def BinDef.mk : BinDef → Expr → Expr → Expr
  | .tok t, x, y => bin t x y
  | .fn c, x, y => call c e[x, y]
  | .fnVia c via, x, y => conv T (call c e[conv (ident via) x, conv (ident via) y])

def Act.stmts (a : Act) (x y d : Expr) : Stmts :=
  match a with
  | .store b tok => s[asg e[d] tok e[b.mk x y]]
  | .same cmp tv fv => s[ifs skip (bin cmp x y) s[set d tv] s[set d fv]]
  | .pick cmp => let o := if y = d then x else y
                 s[ifs skip (bin cmp o d) s[set d o] s[]]

def binKernel (sh : Shape) (act : Act) (guard : Bool) : Fn :=
  let o := if guard then 1 else 0
  let opd : Opd → Expr
    | .scalar q => p q
    | .cell q k => idx (p q) (v (o + k))
  let x := opd sh.x
  let y := opd sh.y
  let d := idx (p sh.dst) (v (o + sh.di))
  let body := (if guard then s[guardStmt y (v o) (p sh.dst)] else s[]) ++ act.stmts x y d
  let decl := if guard then s[errsDecl] else s[]
  let iter := !sh.its.isEmpty
  let loop := if iter then iterLoop o sh.its body else s[range (v o) .absent ":=" (p sh.rng) body]
  let post := if guard then errEpilogue else if iter then s[ret e[]] else s[]
  ⟨sh.params, if guard || iter then e[errT] else e[], sh.pre ++ decl ++ loop ++ post⟩

/-! the shapes; `third` is the type of the third slice (`[]$T` for incr, `[]bool` for cmp) -/
def shVV : Shape := ⟨e[sT, sT], s[resliceAll (p 0), resliceTo (p 1) (p 0)], [], 0, .cell 0 0, .cell 1 0, 0, 0⟩
def shVV3 (third : Expr) : Shape :=
  ⟨e[sT, sT, third], s[resliceAll (p 0), resliceTo (p 1) (p 0), resliceTo (p 2) (p 0)], [], 2,
   .cell 0 0, .cell 1 0, 2, 0⟩
def shRecv : Shape :=
  ⟨e[sT, sT, sT], s[resliceTo (p 0) (p 2), resliceTo (p 1) (p 2)], [], 2, .cell 0 0, .cell 1 0, 2, 0⟩
def shSV : Shape := ⟨e[T, sT], s[], [], 1, .scalar 0, .cell 1 0, 1, 0⟩
def shVS : Shape := ⟨e[sT, T], s[], [], 0, .cell 0 0, .scalar 1, 0, 0⟩
def shSV3 (third : Expr) : Shape := ⟨e[T, sT, third], s[], [], 2, .scalar 0, .cell 1 0, 2, 0⟩
def shVS3 (third : Expr) : Shape := ⟨e[sT, T, third], s[], [], 2, .cell 0 0, .scalar 1, 2, 0⟩
def shIter : Shape := ⟨e[sT, sT, itT, itT], s[], [2, 3], 0, .cell 0 0, .cell 1 1, 0, 0⟩
def shIter3 (third : Expr) : Shape :=
  ⟨e[sT, sT, third, itT, itT, itT], s[], [3, 4, 5], 0, .cell 0 0, .cell 1 1, 2, 2⟩
def shIterSV : Shape := ⟨e[T, sT, itT], s[], [2], 0, .scalar 0, .cell 1 0, 1, 0⟩
def shIterVS : Shape := ⟨e[sT, T, itT], s[], [2], 0, .cell 0 0, .scalar 1, 0, 0⟩
def shIterSV3 (third : Expr) : Shape :=
  ⟨e[T, sT, third, itT, itT], s[], [3, 4], 0, .scalar 0, .cell 1 0, 2, 1⟩
def shIterVS3 (third : Expr) : Shape :=
  ⟨e[sT, T, third, itT, itT], s[], [3, 4], 0, .cell 0 0, .scalar 1, 2, 1⟩

/-- unary kernels: `extra` parameters follow the slice (and the iterator) -/
def unKernel (iter : Bool) (extra : Exprs) (body : Stmts) : Fn :=
  if iter then ⟨Exprs.cons sT (Exprs.cons itT extra), e[errT], iterLoop 0 [1] body ++ s[ret e[]]⟩
  else ⟨Exprs.cons sT extra, e[], s[range (v 0) .absent ":=" (p 0) body]⟩

/-! ## §4 kernel templates -/

abbrev Tmpl := Cls → Option Fn

def libCall (pkg fn : String) (n : Nat) : Stmts :=
  s[expr (call (pkg ++ "." ++ fn) (Exprs.ofList ((List.range n).map p)))]

/-- the 14 kernels of one arithmetic operation -/
def arithFamily (op : String) : List (String × Tmpl) :=
  let k (sh : Shape) (tok : String) : Tmpl := fun c =>
    (arith op c).map fun d => binKernel sh (.store d.bin tok) d.guard
  let viaLib (libFn : String) (n : Nat) (t : Tmpl) : Tmpl := fun c =>
    (arith op c).bind fun d => match d.lib with
      | some pkg => some ⟨Exprs.ofList (List.replicate n sT), e[], libCall pkg libFn n⟩
      | none => t c
  [ ("Vec" ++ op, viaLib op 2 (k shVV "=")),
    (op ++ "Incr", viaLib ("Incr" ++ op) 3 (k (shVV3 sT) "+=")),
    (op ++ "Iter", k shIter "="),
    (op ++ "IterIncr", k (shIter3 sT) "+="),
    (op ++ "Recv", k shRecv "="),
    (op ++ "SV", k shSV "="), (op ++ "VS", k shVS "="),
    (op ++ "IncrSV", k (shSV3 sT) "+="), (op ++ "IncrVS", k (shVS3 sT) "+="),
    (op ++ "IterSV", k shIterSV "="), (op ++ "IterVS", k shIterVS "="),
    (op ++ "IterIncrSV", k (shIterSV3 sT) "+="), (op ++ "IterIncrVS", k (shIterVS3 sT) "+="),
    -- scalar helper of generic_arith.go: `return a ∘ b` (ODDITY: no zero-divisor guard here)
    (op, fun c => (arith op c).map fun d => ⟨e[T, T], e[T], s[ret e[d.bin.mk (p 0) (p 1)]]⟩) ]

/-- the 12 kernels of one comparison -/
def cmpFamily (op tok : String) (ord : Bool) : List (String × Tmpl) :=
  let k (sh : Shape) : Tmpl := fun c =>
    if cmpOk ord c then some (binKernel sh (.store (.tok tok) "=") false) else none
  let ks (sh : Shape) : Tmpl := fun c =>
    if sameOk ord c then some (binKernel sh (.same tok (truth c).1 (truth c).2) false) else none
  [ (op, k (shVV3 sBool)), (op ++ "Same", ks shVV),
    (op ++ "Iter", k (shIter3 sBool)), (op ++ "SameIter", ks shIter),
    (op ++ "SV", k (shSV3 sBool)), (op ++ "VS", k (shVS3 sBool)),
    (op ++ "SameSV", ks shSV), (op ++ "SameVS", ks shVS),
    (op ++ "IterSV", k (shIterSV3 sBool)), (op ++ "IterVS", k (shIterVS3 sBool)),
    (op ++ "SameIterSV", ks shIterSV), (op ++ "SameIterVS", ks shIterVS) ]

def unaryFamily (op : String) : List (String × Tmpl) :=
  [ (op, fun c => (unary op c (idx (p 0) (v 0))).map (unKernel false e[])),
    (op ++ "Iter", fun c => (unary op c (idx (p 0) (v 0))).map (unKernel true e[])) ]

def clampFamily : List (String × Tmpl) :=
  [ ("Clamp", fun c => (clamp c (idx (p 0) (v 0)) (p 1) (p 2)).map (unKernel false e[T, T])),
    ("ClampIter", fun c => (clamp c (idx (p 0) (v 0)) (p 2) (p 3)).map (unKernel true e[T, T])) ]

def minmaxFamily (op tok : String) : List (String × Tmpl) :=
  let k (sh : Shape) : Tmpl := fun c => if c.isOrd then some (binKernel sh (.pick tok) false) else none
  [ -- `for i, v := range a { bv := b[i]; if bv tok v { a[i] = bv } }`
    ("Vec" ++ op, fun c => if c.isOrd then some ⟨e[sT, sT], e[],
        s[resliceAll (p 0), resliceTo (p 1) (p 0),
          range (v 0) (v 1) ":=" (p 0) s[asg e[v 2] ":=" e[idx (p 1) (v 0)],
            ifs skip (bin tok (v 2) (v 1)) s[set (idx (p 0) (v 0)) (v 2)] s[]]]⟩ else none),
    (op ++ "SV", k shSV), (op ++ "VS", k shVS),
    ("Vec" ++ op ++ "Iter", k shIter), (op ++ "IterSV", k shIterSV), (op ++ "IterVS", k shIterVS),
    -- scalar helper: `if a tok b { return a }; return b`
    (op, fun c => if c.isOrd then some ⟨e[T, T], e[T],
        s[ifs skip (bin tok (p 0) (p 1)) s[ret e[p 0]] s[], ret e[p 1]]⟩ else none) ]

/-! map kernels: `fn` is parameter 0, the slice parameter 1 -/
def fn0 : Expr := funcTy e[T] e[T]
def fn1 : Expr := funcTy e[T] e[T, errT]
def fn2 : Expr := funcTy e[T, T] e[T]

def mapFamily : List (String × Tmpl) :=
  let x := idx (p 1) (v 0)
  let all (f : Fn) : Tmpl := fun _ => some f
  let incrOk (f : Fn) : Tmpl := fun c => if c.isNumber || c == .str then some f else none
  let plain (tok : String) : Stmts := s[asg e[x] tok e[call "p0" e[x]]]
  let errB : Stmts := s[ifs (asg e[x, r0] "=" e[call "p0" e[x]]) (bin "!=" (call "handleNoOp" e[r0]) nil_) s[ret e[]] s[]]
  -- the `IncrErr` kernels accumulate (`+=`) like the `Incr` kernels
  let incrErrB (t : Nat) : Stmts :=
    s[var e[v t] T e[],
      ifs (asg e[v t, r0] "=" e[call "p0" e[x]]) (bin "!=" r0 nil_)
        s[ifs (set r0 (call "handleNoOp" e[r0])) (bin "!=" r0 nil_) s[ret e[]] s[]] s[],
      asg e[x] "+=" e[v t]]
  let rng (f : Expr) (res : Exprs) (b : Stmts) : Fn :=
    ⟨e[f, sT], res, s[range (v 0) .absent ":=" (p 1) b, ret e[]]⟩
  let itr (f : Expr) (b : Stmts) : Fn := ⟨e[f, sT, itT], e[errT], iterLoop 0 [2] b ++ s[ret e[]]⟩
  [ ("Map", all (rng fn0 e[] (plain "="))), ("MapErr", all (rng fn1 e[errT] errB)),
    ("MapIter", all (itr fn0 (plain "="))), ("MapIterErr", all (itr fn1 errB)),
    ("MapIncr", incrOk (rng fn0 e[] (plain "+="))), ("MapIncrErr", incrOk (rng fn1 e[errT] (incrErrB 1))),
    ("MapIterIncr", incrOk (itr fn0 (plain "+="))), ("MapIterIncrErr", incrOk (itr fn1 (incrErrB 2))) ]

def forUp (i : Expr) (from_ : Expr) (bound : Expr) (body : Stmts) : Stmt :=
  for_ (asg e[i] ":=" e[from_]) (bin "<" i bound) (incdec i "++") body

def reduceFamily : List (String × Tmpl) :=
  let all (f : Fn) : Tmpl := fun _ => some f
  let num (f : Fn) : Tmpl := fun c => if c.isNumber then some f else none
  let ordNum (f : Fn) : Tmpl := fun c => if c.isOrdNum then some f else none
  let fold (init : Stmts) (tok : String) : Fn :=
    ⟨e[sT], e[T], init ++ s[resliceAll (p 0), range (ident "_") (v 1) ":=" (p 0) s[asg e[v 0] tok e[v 1]], ret e[v 0]]⟩
  -- ODDITY (uniform): both SliceMin and SliceMax panic with the text "Max of empty slice ..."
  let sliceMM (pick : String) : Fn :=
    ⟨e[sT], e[T], s[ifs skip (bin "<" (len (p 0)) lit1) s[expr (call "panic" e[lit "\"Max of empty slice is meaningless\""])] s[],
       ret e[callv "Reduce$S" e[ident (pick ++ "$S"), idx (p 0) lit0, slc (p 0) lit1 .absent]]]⟩
  let firstPre : Stmts := s[asg e[v 0] ":=" e[p 2], expr (call "copy" e[slc (p 1) lit0 (p 2), slc (p 0) lit0 (p 2)])]
  let lastLoop (call_ : Expr) : Stmts :=
    s[var e[v 0] intT e[],
      for_ (asg e[v 1] ":=" e[lit0]) (bin "<=" (v 1) (bin "-" (len (p 0)) (p 2))) (asg e[v 1] "+=" e[p 2])
        s[asg e[v 2] ":=" e[call_], set (idx (p 1) (v 0)) (v 2), incdec (v 0) "++"]]
  let window := slc (p 0) (v 1) (bin "+" (v 1) (p 2))
  [ ("Reduce", all ⟨e[fn2, T, variadicTy T], e[T],
      s[set r0 (p 1), ifs skip (bin "==" (len (p 2)) lit0) s[ret e[]] s[],
        range (ident "_") (v 0) ":=" (p 2) s[set r0 (call "p0" e[r0, v 0])], ret e[]]⟩),
    ("Sum", num (fold s[var e[v 0] T e[]] "+=")),
    ("Prod", num (fold s[ifs skip (bin "==" (len (p 0)) lit0) s[ret e[lit0]] s[], var e[v 0] T e[lit1]] "*=")),
    ("SliceMin", ordNum (sliceMM "Min")), ("SliceMax", ordNum (sliceMM "Max")),
    ("reduceFirst", all ⟨e[sT, sT, intT, intT, funcTy e[sT, sT] e[]], e[],
      firstPre ++ s[forUp (v 1) lit0 (bin "-" (p 3) lit1)
        s[expr (call "p4" e[p 1, slc (p 0) (v 0) (bin "+" (v 0) (p 2))]), asg e[v 0] "+=" e[p 2]]]⟩),
    ("genericReduceFirst", all ⟨e[sT, sT, intT, intT, fn2], e[],
      firstPre ++ s[forUp (v 1) lit0 (bin "-" (p 3) lit1)
        s[forUp (v 2) lit0 (p 2) s[set (idx (p 1) (v 2)) (call "p4" e[idx (p 1) (v 2), idx (p 0) (bin "+" (v 2) (v 0))])],
          asg e[v 0] "+=" e[p 2]]]⟩),
    ("reduceLast", all ⟨e[sT, sT, intT, T, funcTy e[sT] e[T]], e[], lastLoop (call "p4" e[window])⟩),
    ("genericReduceLast", all ⟨e[sT, sT, intT, T, fn2], e[], lastLoop (callv "Reduce$S" e[p 4, p 3, window])⟩),
    ("reduceDefault", all ⟨e[sT, sT, intT, intT, intT, intT, intT, fn2], e[],
      s[forUp (v 0) lit0 (p 2)
        s[asg e[v 1] ":=" e[bin "*" (v 0) (p 4)], asg e[v 2] ":=" e[slc (p 0) (v 1) (bin "+" (v 1) (p 4))],
          var e[v 3, v 4] intT e[],
          forUp (v 5) lit0 (p 6)
            s[asg e[v 6] ":=" e[bin "+" (bin "*" (v 0) (p 6)) (v 5)], set (idx (p 1) (v 6)) (idx (v 2) (v 3)),
              forUp (v 7) lit1 (p 3)
                s[asg e[v 8] ":=" e[bin "+" (v 3) (bin "*" (v 7) (p 5))],
                  set (idx (p 1) (v 6)) (call "p7" e[idx (p 1) (v 6), idx (v 2) (v 8)])],
              incdec (v 4) "++",
              -- at the wrap of the inner index skip the rest of the reduced block:
              -- `innerStart += (dimSize - 1) * stride` (upstream fix of the former `+= stride`)
              ifs skip (bin ">=" (v 4) (p 5)) s[set (v 4) lit0, asg e[v 3] "+=" e[bin "*" (bin "-" (p 3) lit1) (p 5)]] s[],
              incdec (v 3) "++"]]]⟩) ]

/-- argmax / argmin: floats return at the first (unmasked) NaN or infinity of the searched direction;
otherwise the first unmasked element initialises -/
def argFamily (op tok : String) (infSign : Expr) : List (String × Tmpl) :=
  let k (masked : Bool) : Tmpl := fun c =>
    if !c.isOrd then none else
    let early : Stmts := match mathPkg c with
      | some m => s[ifs skip (bin "||" (call (m ++ ".IsNaN") e[v 4]) (call (m ++ ".IsInf") e[v 4, infSign]))
                      s[set (v 2) (v 3), ret e[v 2]] s[]]
      | none => s[]
    some ⟨if masked then e[sT, sBool] else e[sT], e[intT],
      s[var e[v 0] boolT e[], var e[v 1] T e[], var e[v 2] intT e[],
        range (v 3) .absent ":=" (p 0)
          ((if masked then s[ifs skip (idx (p 1) (v 3)) s[cont] s[]] else s[]) ++
           s[asg e[v 4] ":=" e[idx (p 0) (v 3)]] ++
           early ++
           s[ifs skip (un "!" (v 0)) s[set (v 1) (v 4), set (v 2) (v 3), set (v 0) (ident "true"), cont] s[],
             ifs skip (bin tok (v 4) (v 1)) s[set (v 2) (v 3), set (v 1) (v 4)] s[]]),
        ret e[v 2]]⟩
  [ (op, k false), (op ++ "Masked", k true) ]

/-- THE kernel template table: family name ↦ class ↦ expected function. -/
def kernelTemplates : List (String × Tmpl) :=
  arithOps.flatMap arithFamily
  ++ cmpOps.flatMap (fun (n, t, o) => cmpFamily n t o)
  ++ unaryOps.flatMap unaryFamily ++ clampFamily
  ++ minmaxOps.flatMap (fun (n, t) => minmaxFamily n t)
  ++ mapFamily ++ reduceFamily
  ++ argFamily "Argmax" ">" lit1 ++ argFamily "Argmin" "<" (un "-" lit1)

/-! ### §6a the abstraction of the element type, applied to an instantiated template

`gox` replaces the Go element type identifier of a row by `$T`.  A template is written with `$T`
for the element type and with the concrete identifiers `int` (index variables, sizes) and `bool`
(validity flags, masks, comparison results).  For the rows whose own element type is `int` /
`bool` the same replacement therefore has to be applied to the template: `absFn "int"` for
`I`, `absFn "bool"` for `B` (see `expectedAt`).  No template mentions any other element type
identifier; if one did, the rows of that type would simply fail to conform. -/
mutual
def absE (g : String) : Expr → Expr
  | .ident n => .ident (if n = g then "$T" else n)
  | .idx x i => .idx (absE g x) (absE g i)
  | .slc x l h => .slc (absE g x) (absE g l) (absE g h)
  | .un o x => .un o (absE g x)
  | .bin o l r => .bin o (absE g l) (absE g r)
  | .call f a => .call f (absEs g a)
  | .callv f a => .callv f (absEs g a)
  | .conv t x => .conv (absE g t) (absE g x)
  | .sel x f => .sel (absE g x) f
  | .star x => .star (absE g x)
  | .assert x t => .assert (absE g x) (absE g t)
  | .comp t a => .comp (absE g t) (absEs g a)
  | .kv k v => .kv (absE g k) (absE g v)
  | .sliceTy t => .sliceTy (absE g t)
  | .variadicTy t => .variadicTy (absE g t)
  | .funcTy a r => .funcTy (absEs g a) (absEs g r)
  | .lit v => .lit v
  | .absent => .absent
  | .opaque s => .opaque s
def absEs (g : String) : Exprs → Exprs
  | .nil => .nil
  | .cons e es => .cons (absE g e) (absEs g es)
end

mutual
def absS (g : String) : Stmt → Stmt
  | .asg l t r => .asg (absEs g l) t (absEs g r)
  | .var n t v => .var (absEs g n) (absE g t) (absEs g v)
  | .expr e => .expr (absE g e)
  | .incdec x t => .incdec (absE g x) t
  | .range k v t x b => .range (absE g k) (absE g v) t (absE g x) (absSs g b)
  | .for_ i c p b => .for_ (absS g i) (absE g c) (absS g p) (absSs g b)
  | .ifs i c t e => .ifs (absS g i) (absE g c) (absSs g t) (absSs g e)
  | .switch i t c => .switch (absS g i) (absE g t) (absSs g c)
  | .tswitch b s c => .tswitch (absE g b) (absE g s) (absSs g c)
  | .case v b => .case (absEs g v) (absSs g b)
  | .dflt b => .dflt (absSs g b)
  | .ret v => .ret (absEs g v)
  | .block b => .block (absSs g b)
  | .brk => .brk
  | .cont => .cont
  | .skip => .skip
  | .opaque s => .opaque s
def absSs (g : String) : Stmts → Stmts
  | .nil => .nil
  | .cons s ss => .cons (absS g s) (absSs g ss)
end

def absFn (g : String) (f : Fn) : Fn := ⟨absEs g f.params, absEs g f.results, absSs g f.body⟩

def lookup {β : Type} (k : String) : List (String × β) → Option β
  | [] => none
  | (k', b) :: xs => if k = k' then some b else lookup k xs

/-- the expected abstracted function of template `t` at a class.  (Written as an explicit case
split with literal classes so that all rows of a class evaluate the *same* closed term, which
the kernel caches.) -/
def expectedAt (t : Tmpl) : Cls → Option Fn
  | .bool => (t .bool).map (absFn "bool")
  | .int => (t .int).map (absFn "int")
  | .sint => t .sint | .uint => t .uint | .uintptr => t .uintptr | .f32 => t .f32 | .f64 => t .f64
  | .c64 => t .c64 | .c128 => t .c128 | .str => t .str | .uptr => t .uptr

/-- the expected abstracted body of kernel `base ++ ty` -/
def expectedKernel (base ty : String) : Option Fn :=
  match lookup base kernelTemplates, tyBySuffix ty with
  | some t, some ti => expectedAt t ti.cls
  | _, _ => none

def memberConforms (t : Tmpl) (m : String × Fn) : Bool :=
  match tyBySuffix m.1 with
  | some ti => (match expectedAt t ti.cls with | some e => beqFn m.2 e | none => false)
  | none => false

def sameSet (xs ys : List String) : Bool :=
  xs.length == ys.length && ys.all (xs.contains ·)

/-- is template `t` defined at the class? (same caching-friendly shape as `expectedAt`) -/
def supportedAt (t : Tmpl) : Cls → Bool
  | .bool => (t .bool).isSome | .int => (t .int).isSome | .sint => (t .sint).isSome
  | .uint => (t .uint).isSome | .uintptr => (t .uintptr).isSome | .f32 => (t .f32).isSome
  | .f64 => (t .f64).isSome | .c64 => (t .c64).isSome | .c128 => (t .c128).isSome
  | .str => (t .str).isSome | .uptr => (t .uptr).isSome

/-- type suffixes for which template `t` is defined = the types the operation supports -/
def supportedSuffixes (t : Tmpl) : List String :=
  (tyInfos.filter fun ti => supportedAt t ti.cls).map (·.suffix)

/-- every member of the family is the instance of the family's template at its own type -/
def famConforms (f : KFam) : Bool :=
  match lookup f.base kernelTemplates with
  | some t => f.members.all (memberConforms t)
  | none => false

/-- the types having a kernel in the family are exactly the types the template supports -/
def famComplete (f : KFam) : Bool :=
  match lookup f.base kernelTemplates with
  | some t => sameSet (f.members.map (·.1)) (supportedSuffixes t)
  | none => false

/-- both, sharing the evaluation of the template -/
def famOK (f : KFam) : Bool :=
  match lookup f.base kernelTemplates with
  | some t => f.members.all (memberConforms t) && sameSet (f.members.map (·.1)) (supportedSuffixes t)
  | none => false

theorem famOK_iff (f : KFam) : famOK f = true ↔ famConforms f = true ∧ famComplete f = true := by
  unfold famOK famConforms famComplete
  split <;> simp

/-! ## §5 dispatcher templates

A dispatcher is `func (e E) M(t reflect.Type, ...) { prelude; switch t { case T: arm ... default: ... } }`.
`gox` dumps the *frame* (everything but the typed arms) and every typed arm; in an arm the
accessor of the case's own type is `$acc`, kernels with the case's own suffix end in `$S`.
Parameters: `rcv0` = e, `p0` = t, `p1..` the remaining ones; frame locals come first (`v0..`). -/

def hdrT : Expr := star (sel (ident "storage") "Header")
def ifaceT : Expr := ident "interface{}"
def acc (h : String) : Expr := call (h ++ ".$acc") e[]
def kc (name : String) (args : Exprs) : Expr := call (name ++ "$S") args
def at0 (x : Expr) : Expr := idx x lit0

/-- how an arm uses a kernel's result -/
inductive Use where | drop | err | retn
def Use.stmt : Use → Expr → Stmt
  | .drop, c => expr c
  | .err, c => set r0 c
  | .retn, c => ret e[c]

/-- `switch { case as && bs: c1  case as && !bs: c2  case !as && bs: c3  default: c4 }` -/
def sw4 (as bs : Expr) (c1 c2 c3 c4 : Stmts) : Stmt :=
  switch skip .absent s[case e[bin "&&" as bs] c1, case e[bin "&&" as (un "!" bs)] c2,
    case e[bin "&&" (un "!" as) bs] c3, dflt c4]

structure DTmpl where
  frame : Fn                 -- expected frame, string literals normalised to `""`
  arm : Cls → Option Stmts   -- expected arm at a class; `none` = no arm for the class

def errorf (args : Exprs) : Expr := call "errors.Errorf" (Exprs.cons (lit "\"\"") args)
/-- `switch t { default: return <vals> }` -/
def swDefault (vals : Exprs) : Stmt := switch skip (p 0) s[dflt s[ret vals]]
def isScalarOf (h ty : Expr) : Expr := call "isScalar" e[h, ty]
def tyT : Expr := sel (ident "reflect") "Type"
def recvT : Expr := ident "E"
/-- `as := isScalar(a, t); bs := isScalar(b, t)` -/
def asbs : Stmts := s[asg e[v 0] ":=" e[isScalarOf (p 1) (p 0)], asg e[v 1] ":=" e[isScalarOf (p 2) (p 0)]]
/-- `if ((as && !bs) || (bs && !as)) && xs { return errorf(len a, len b) }` -/
def scalarMismatch (xs : Expr) : Stmt :=
  ifs skip (bin "&&" (bin "||" (bin "&&" (v 0) (un "!" (v 1))) (bin "&&" (v 1) (un "!" (v 0)))) xs)
    s[ret e[errorf e[call "p1.TypedLen" e[p 0], call "p2.TypedLen" e[p 0]]]] s[]

def itersT (n : Nat) : List Expr := List.replicate n itT
def frameOf (params : List Expr) (results : Exprs) (pre : Stmts) (dfltVals : Exprs) (post : Stmts := s[]) : Fn :=
  ⟨Exprs.ofList (recvT :: tyT :: params), results, pre ++ s[swDefault dfltVals] ++ post⟩
def unsupported : Exprs := e[errorf e[p 0]]

/-- frames of the binary families: 2 headers; 3 headers with a scalar check on the third
(`third` = the type constant its scalar-ness is tested with); plus `n` iterators -/
def frame2 (nIt : Nat) : Fn := frameOf ([hdrT, hdrT] ++ itersT nIt) e[errT] asbs unsupported
def frame3 (nIt : Nat) : Fn :=
  frameOf ([hdrT, hdrT, hdrT] ++ itersT nIt) e[errT]
    (asbs ++ s[asg e[v 2] ":=" e[isScalarOf (p 3) (p 0)], scalarMismatch (v 2)]) unsupported
def frameCmp (nIt : Nat) : Fn :=
  frameOf ([hdrT, hdrT, hdrT] ++ itersT nIt) e[errT]
    (asbs ++ s[asg e[v 2] ":=" e[isScalarOf (p 3) (ident "Bool")], asg e[v 3] ":=" e[call "p3.Bools" e[]],
               scalarMismatch (v 2)]) unsupported

def armIf (ok : Bool) (a : Stmts) : Option Stmts := if ok then some a else none

/-- the five dispatchers of one arithmetic operation (+ `AddSliced`) -/
def arithDispatch (op : String) : List (String × DTmpl) :=
  let sup (f : ArithDef → Stmts) : Cls → Option Stmts := fun c => (arith op c).map f
  -- `at := a.$acc(); bt := b.$acc()` with locals starting at `o`
  let two (o : Nat) (a b : String) : Stmts := s[asg e[v o] ":=" e[acc a], asg e[v (o+1)] ":=" e[acc b]]
  let three (o : Nat) : Stmts := s[asg e[v o] ":=" e[acc "p1"], asg e[v (o+1)] ":=" e[acc "p2"], asg e[v (o+2)] ":=" e[acc "p3"]]
  -- ODDITY (uniform): the `as && bs` case drops the error of the guarded integer kernels
  let plain (as bs : Expr) (o : Nat) (a b : String) : ArithDef → Stmts := fun d =>
    let u : Use := if d.guard then .err else .drop
    two o a b ++ s[sw4 as bs s[expr (kc ("Vec" ++ op) e[v o, v (o+1)])]
      s[u.stmt (kc (op ++ "SV") e[at0 (v o), v (o+1)])] s[u.stmt (kc (op ++ "VS") e[v o, at0 (v (o+1))])]
      s[u.stmt (kc ("Vec" ++ op) e[v o, v (o+1)])], ret e[]]
  [ (op, ⟨frame2 0, sup (plain (v 0) (v 1) 2 "p1" "p2")⟩),
    -- the scalar-scalar incr case computes `a op b` in a one-element temporary (`tmp := []T{at[0]}`; the operands are
    -- not written) and adds it to the increment (`AddVS` over a longer increment); all incr / iter arms drop the
    -- kernels' error results
    (op ++ "Incr", ⟨frame3 0, sup fun _ => three 3 ++ s[sw4 (v 0) (v 1)
        s[asg e[v 6] ":=" e[comp sT e[at0 (v 3)]], expr (kc ("Vec" ++ op) e[v 6, v 4]),
          ifs skip (un "!" (v 2)) s[expr (kc "AddVS" e[v 5, at0 (v 6)]), ret e[]] s[],
          asg e[at0 (v 5)] "+=" e[at0 (v 6)]]
        s[expr (kc (op ++ "IncrSV") e[at0 (v 3), v 4, v 5])] s[expr (kc (op ++ "IncrVS") e[v 3, at0 (v 4), v 5])]
        s[expr (kc (op ++ "Incr") e[v 3, v 4, v 5])], ret e[]]⟩),
    (op ++ "Iter", ⟨frame2 2, sup fun _ => two 2 "p1" "p2" ++ s[sw4 (v 0) (v 1)
        s[expr (kc ("Vec" ++ op) e[v 2, v 3])]
        s[expr (kc (op ++ "IterSV") e[at0 (v 2), v 3, p 4])] s[expr (kc (op ++ "IterVS") e[v 2, at0 (v 3), p 3])]
        s[expr (kc (op ++ "Iter") e[v 2, v 3, p 3, p 4])], ret e[]]⟩),
    (op ++ "IterIncr", ⟨frame3 3, sup fun _ => three 3 ++ s[sw4 (v 0) (v 1)
        s[asg e[v 6] ":=" e[comp sT e[at0 (v 3)]], expr (kc ("Vec" ++ op) e[v 6, v 4]),
          ifs skip (un "!" (v 2)) s[ret e[kc "AddIterVS" e[v 5, at0 (v 6), p 6]]] s[],
          asg e[at0 (v 5)] "+=" e[at0 (v 6)], ret e[]]
        s[ret e[kc (op ++ "IterIncrSV") e[at0 (v 3), v 4, v 5, p 5, p 6]]]
        s[ret e[kc (op ++ "IterIncrVS") e[v 3, at0 (v 4), v 5, p 4, p 6]]]
        s[ret e[kc (op ++ "IterIncr") e[v 3, v 4, v 5, p 4, p 5, p 6]]]]⟩),
    (op ++ "Recv", ⟨frame3 0, sup fun _ => three 3 ++ s[expr (kc (op ++ "Recv") e[v 3, v 4, v 5]), ret e[]]⟩) ]
  ++ (if op = "Add" then
    -- eng_arith_manual.go: Add on sub-ranges of the two headers
    let sub (o : Nat) (lo hi : Nat) (h : Nat) : Stmts :=
      s[asg e[v o] ":=" e[bin "*" (p lo) (conv intT (call "p0.Size" e[]))],
        asg e[v (o+1)] ":=" e[bin "*" (p hi) (conv intT (call "p0.Size" e[]))],
        asg e[v (o+2)] ":=" e[un "&" (comp (sel (ident "storage") "Header") e[kv (ident "Raw") (slc (sel (p h) "Raw") (v o) (v (o+1)))])]]
    [("AddSliced", ⟨frameOf [hdrT, intT, intT, hdrT, intT, intT] e[errT]
        (sub 0 2 3 1 ++ sub 3 5 6 4 ++ s[asg e[v 6] ":=" e[isScalarOf (v 2) (p 0)], asg e[v 7] ":=" e[isScalarOf (v 5) (p 0)]])
        unsupported, sup (plain (v 6) (v 7) 8 "v2" "v5")⟩)]
    else [])

/-- the four dispatchers of one comparison -/
def cmpDispatch (op : String) (ord : Bool) : List (String × DTmpl) :=
  let two (o : Nat) : Stmts := s[asg e[v o] ":=" e[acc "p1"], asg e[v (o+1)] ":=" e[acc "p2"]]
  [ (op, ⟨frameCmp 0, fun c => armIf (cmpOk ord c) (two 4 ++ s[sw4 (v 0) (v 1)
        s[expr (kc op e[v 4, v 5, v 3])]
        s[expr (kc (op ++ "SV") e[at0 (v 4), v 5, v 3])] s[expr (kc (op ++ "VS") e[v 4, at0 (v 5), v 3])]
        s[expr (kc op e[v 4, v 5, v 3])], ret e[]])⟩),
    (op ++ "Same", ⟨frame2 0, fun c => armIf (sameOk ord c) (two 2 ++ s[sw4 (v 0) (v 1)
        s[expr (kc (op ++ "Same") e[v 2, v 3])]
        s[expr (kc (op ++ "SameSV") e[at0 (v 2), v 3])] s[expr (kc (op ++ "SameVS") e[v 2, at0 (v 3)])]
        s[expr (kc (op ++ "Same") e[v 2, v 3])], ret e[]])⟩),
    (op ++ "Iter", ⟨frameCmp 3, fun c => armIf (cmpOk ord c) (two 4 ++ s[sw4 (v 0) (v 1)
        s[expr (kc op e[v 4, v 5, v 3]), ret e[]]
        s[ret e[kc (op ++ "IterSV") e[at0 (v 4), v 5, v 3, p 5, p 6]]]
        s[ret e[kc (op ++ "IterVS") e[v 4, at0 (v 5), v 3, p 4, p 6]]]
        s[ret e[kc (op ++ "Iter") e[v 4, v 5, v 3, p 4, p 5, p 6]]]])⟩),
    (op ++ "SameIter", ⟨frame2 2, fun c => armIf (sameOk ord c) (two 2 ++ s[sw4 (v 0) (v 1)
        s[expr (kc (op ++ "Same") e[v 2, v 3])]
        s[expr (kc (op ++ "SameIterSV") e[at0 (v 2), v 3, p 4])] s[expr (kc (op ++ "SameIterVS") e[v 2, at0 (v 3), p 3])]
        s[expr (kc (op ++ "SameIter") e[v 2, v 3, p 3, p 4])], ret e[]])⟩) ]

def unaryDispatch (op : String) : List (String × DTmpl) :=
  let ok (c : Cls) : Bool := (unary op c .absent).isSome
  [ (op, ⟨frameOf [hdrT] e[errT] s[] unsupported,
      fun c => armIf (ok c) s[expr (kc op e[acc "p1"]), ret e[nil_]]⟩),
    (op ++ "Iter", ⟨frameOf [hdrT, itT] e[errT] s[] unsupported,
      fun c => armIf (ok c) s[ret e[kc (op ++ "Iter") e[acc "p1", p 2]]]⟩) ]

def clampDispatch : List (String × DTmpl) :=
  let ok (c : Cls) : Bool := (clamp c .absent .absent .absent).isSome
  -- `if x, ok = v.(T); !ok { return errors.Wrap(errorf(typeMismatch, x, v), "...") }`
  let get (x : Expr) (src : Expr) (what : String) : Stmt :=
    ifs (asg e[x, v 0] "=" e[assert src T]) (un "!" (v 0))
      s[ret e[call "errors.Wrap" e[call "errors.Errorf" e[ident "typeMismatch", x, src], lit what]]] s[]
  let okDecl : Stmts := s[var e[v 0] boolT e[]]
  [ ("Clamp", ⟨frameOf [hdrT, ifaceT, ifaceT] e[errT] okDecl unsupported, fun c => armIf (ok c)
      s[var e[v 1, v 2] T e[], get (v 1) (p 2) "\"Clamp() min\"", get (v 2) (p 3) "\"Clamp() max\"", expr (kc "Clamp" e[acc "p1", v 1, v 2]), ret e[nil_]]⟩),
    ("ClampIter", ⟨frameOf [hdrT, itT, ifaceT, ifaceT] e[errT] okDecl unsupported, fun c => armIf (ok c)
      s[var e[v 1, v 2] T e[], get (v 1) (p 3) "\"Clamp() min\"", get (v 2) (p 4) "\"Clamp() max\"", ret e[kc "ClampIter" e[acc "p1", p 2, v 1, v 2]]]⟩) ]

def minmaxDispatch (op : String) : List (String × DTmpl) :=
  let two : Stmts := s[asg e[v 2] ":=" e[acc "p1"], asg e[v 3] ":=" e[acc "p2"]]
  [ (op ++ "Between", ⟨frame2 0, fun c => armIf c.isOrd (two ++ s[sw4 (v 0) (v 1)
        s[expr (kc ("Vec" ++ op) e[v 2, v 3])]
        s[expr (kc (op ++ "SV") e[at0 (v 2), v 3])] s[expr (kc (op ++ "VS") e[v 2, at0 (v 3)])]
        s[expr (kc ("Vec" ++ op) e[v 2, v 3])], ret e[]])⟩),
    (op ++ "BetweenIter", ⟨frame2 2, fun c => armIf c.isOrd (two ++ s[sw4 (v 0) (v 1)
        s[expr (kc ("Vec" ++ op) e[v 2, v 3])]
        s[expr (kc (op ++ "IterSV") e[at0 (v 2), v 3, p 4])] s[expr (kc (op ++ "IterVS") e[v 2, at0 (v 3), p 3])]
        s[expr (kc ("Vec" ++ op ++ "Iter") e[v 2, v 3, p 3, p 4])], ret e[]])⟩) ]

def mapDispatch : List (String × DTmpl) :=
  let incrOk (c : Cls) : Bool := c.isNumber || c == .str
  -- `var f0 func(T) T; var f1 func(T) (T, error); switch f := fn.(type) { ... }`
  let fns : Stmts :=
    s[var e[v 1] fn0 e[], var e[v 2] fn1 e[],
      tswitch (v 3) (p 1) s[case e[fn0] s[set (v 1) (v 3)], case e[fn1] s[set (v 2) (v 3)],
        dflt s[ret e[call "errors.Errorf" e[lit "\"Cannot map fn of %T to array\"", p 1]]]]]
  let noIncr : Stmt :=
    ifs skip (p 3) s[ret e[call "errors.Errorf" e[lit "\"Cannot perform increment on t of %v\"", p 0]]] s[]
  let f0set := bin "!=" (v 1) nil_
  let f0nil := bin "==" (v 1) nil_
  let x := at0 (v 4)
  let and3 (a b c : Expr) := bin "&&" (bin "&&" a b) c
  [ ("Map", ⟨frameOf [ifaceT, hdrT, boolT] e[errT] s[asg e[v 0] ":=" e[isScalarOf (p 2) (p 0)]] unsupported s[ret e[]],
      fun c => some (fns ++ s[asg e[v 4] ":=" e[acc "p2"]] ++
        (if incrOk c then
          s[switch skip .absent s[
            case e[and3 (v 0) (p 3) f0set] s[asg e[x] "+=" e[call "v1" e[x]]],
            case e[and3 (v 0) (p 3) f0nil] s[var e[v 5] T e[],
              ifs (asg e[v 5, r0] "=" e[call "v2" e[x]]) (bin "!=" r0 nil_) s[ret e[]] s[], asg e[x] "+=" e[v 5]],
            case e[and3 (v 0) (un "!" (p 3)) f0set] s[set x (call "v1" e[x])],
            case e[and3 (v 0) (un "!" (p 3)) f0nil] s[asg e[x, r0] "=" e[call "v2" e[x]]],
            case e[and3 (un "!" (v 0)) (p 3) f0set] s[expr (kc "MapIncr" e[v 1, v 4])],
            case e[and3 (un "!" (v 0)) (p 3) f0nil] s[set r0 (kc "MapIncrErr" e[v 2, v 4])],
            case e[and3 (un "!" (v 0)) (un "!" (p 3)) f0nil] s[set r0 (kc "MapErr" e[v 2, v 4])],
            dflt s[expr (kc "Map" e[v 1, v 4])]]]
        else
          s[noIncr, switch skip .absent s[
            case e[bin "&&" (v 0) f0set] s[set x (call "v1" e[x])],
            case e[bin "&&" (v 0) f0nil] s[asg e[x, r0] "=" e[call "v2" e[x]]],
            case e[bin "&&" (un "!" (v 0)) f0nil] s[set r0 (kc "MapErr" e[v 2, v 4])],
            dflt s[expr (kc "Map" e[v 1, v 4])]]]))⟩),
    ("MapIter", ⟨frameOf [ifaceT, hdrT, boolT, itT] e[errT] s[] unsupported s[ret e[]],
      fun c => some (s[asg e[v 0] ":=" e[acc "p2"]] ++ fns ++
        (if incrOk c then
          s[switch skip .absent s[
            case e[bin "&&" (p 3) f0set] s[expr (kc "MapIterIncr" e[v 1, v 0, p 4])],
            case e[bin "&&" (p 3) f0nil] s[set r0 (kc "MapIterIncrErr" e[v 2, v 0, p 4])],
            case e[bin "&&" (un "!" (p 3)) f0nil] s[set r0 (kc "MapIterErr" e[v 2, v 0, p 4])],
            dflt s[expr (kc "MapIter" e[v 1, v 0, p 4])]]]
        else
          s[noIncr, switch skip .absent s[
            case e[f0nil] s[set r0 (kc "MapIterErr" e[v 2, v 0, p 4])],
            dflt s[expr (kc "MapIter" e[v 1, v 0, p 4])]]]))⟩) ]

def reduceDispatch : List (String × DTmpl) :=
  let redErr (x : Expr) : Expr := call "errors.Errorf" e[ident "reductionErrMsg", x]
  let defErr (x src : Expr) : Expr := call "errors.Errorf" e[ident "defaultValueErrMsg", x, src, src]
  let okDecl : Stmts := s[var e[v 0] boolT e[]]
  let fnSwitch (b : Expr) (src : Expr) (specTy : Expr) (spec gen : Expr) : Stmt :=
    tswitch b src s[case e[specTy] s[expr spec], case e[fn2] s[expr gen], dflt s[ret e[redErr src]]]
  [ ("ReduceFirst", ⟨frameOf [hdrT, hdrT, intT, intT, ifaceT] e[errT] s[] unsupported, fun _ => some
      s[asg e[v 0] ":=" e[acc "p1"], asg e[v 1] ":=" e[acc "p2"],
        fnSwitch (v 2) (p 5) (funcTy e[sT, sT] e[]) (kc "reduceFirst" e[v 0, v 1, p 3, p 4, v 2])
          (kc "genericReduceFirst" e[v 0, v 1, p 3, p 4, v 2]), ret e[nil_]]⟩),
    ("ReduceLast", ⟨frameOf [hdrT, hdrT, intT, ifaceT, ifaceT] e[errT] okDecl unsupported, fun _ => some
      s[var e[v 1] T e[], ifs (asg e[v 1, v 0] "=" e[assert (p 4) T]) (un "!" (v 0)) s[ret e[defErr (v 1) (p 4)]] s[],
        asg e[v 2] ":=" e[acc "p1"], asg e[v 3] ":=" e[acc "p2"],
        fnSwitch (v 4) (p 5) (funcTy e[sT] e[T]) (kc "reduceLast" e[v 2, v 3, p 3, v 1, v 4])
          (kc "genericReduceLast" e[v 2, v 3, p 3, v 1, v 4]), ret e[nil_]]⟩),
    ("ReduceDefault", ⟨frameOf [hdrT, hdrT, intT, intT, intT, intT, intT, ifaceT] e[errT] okDecl unsupported, fun _ => some
      s[var e[v 1] fn2 e[], ifs (asg e[v 1, v 0] "=" e[assert (p 8) fn2]) (un "!" (v 0)) s[ret e[redErr (p 8)]] s[],
        asg e[v 2] ":=" e[acc "p1"], asg e[v 3] ":=" e[acc "p2"],
        expr (kc "reduceDefault" e[v 2, v 3, p 3, p 4, p 5, p 6, p 7, v 1]), ret e[nil_]]⟩),
    ("Reduce", ⟨frameOf [hdrT, ifaceT, ifaceT] e[ifaceT, errT] okDecl e[nil_, errorf e[p 0]], fun _ => some
      s[var e[v 1] fn2 e[], var e[v 2] T e[],
        ifs (asg e[v 1, v 0] "=" e[assert (p 3) fn2]) (un "!" (v 0)) s[ret e[nil_, redErr (p 3)]] s[],
        ifs (asg e[v 2, v 0] "=" e[assert (p 2) T]) (un "!" (v 0)) s[ret e[nil_, defErr (v 2) (p 2)]] s[],
        set r0 (callv "Reduce$S" e[v 1, v 2, acc "p1"]), ret e[]]⟩) ]

def argDispatch (op : String) : List (String × DTmpl) :=
  let r1 := ident "r1"
  let noOp (b : Expr) : Stmt := ifs (asg e[ident "_", b] ":=" e[assert r1 (ident "NoOpError")]) b s[set r1 nil_] s[]
  let next (i : Expr) (it : String) : Stmt := asg e[i, r1] "=" e[call (it ++ ".Next") e[]]
  let reset (x : Expr) : Stmt := set x (slc x .absent lit0)
  let unsupp2 : Exprs := e[nil_, errorf e[p 0]]
  [ (op ++ "Iter", ⟨frameOf [hdrT, itT, intT] e[sliceTy intT, errT] s[var e[v 0] intT e[]] unsupp2, fun c => armIf c.isOrd
      s[asg e[v 1] ":=" e[acc "p1"], asg e[v 2] ":=" e[call "make" e[sT, lit0, p 3]],
        for_ (next (v 0) "p2") (bin "==" r1 nil_) (next (v 0) "p2")
          s[set (v 2) (call "append" e[v 2, idx (v 1) (v 0)]),
            ifs skip (bin "==" (len (v 2)) (p 3))
              s[asg e[v 3] ":=" e[kc op e[v 2]], set r0 (call "append" e[r0, v 3]), reset (v 2)] s[]],
        noOp (v 4), ret e[]]⟩),
    -- the masked kernel is called with the mask bits collected along the lane (`newMask`, v 0)
    (op ++ "IterMasked", ⟨frameOf [hdrT, sBool, itT, intT] e[sliceTy intT, errT]
        s[asg e[v 0] ":=" e[call "make" e[sBool, lit0, p 4]], var e[v 1] intT e[]] unsupp2, fun c => armIf c.isOrd
      s[asg e[v 2] ":=" e[acc "p1"], asg e[v 3] ":=" e[call "make" e[sT, lit0, p 4]],
        for_ (next (v 1) "p3") (bin "==" r1 nil_) (next (v 1) "p3")
          s[set (v 3) (call "append" e[v 3, idx (v 2) (v 1)]), set (v 0) (call "append" e[v 0, idx (p 2) (v 1)]),
            ifs skip (bin "==" (len (v 3)) (p 4))
              s[asg e[v 4] ":=" e[kc (op ++ "Masked") e[v 3, v 0]], set r0 (call "append" e[r0, v 4]),
                reset (v 3), reset (v 0)] s[]],
        noOp (v 5), ret e[]]⟩),
    (op ++ "FlatMasked", ⟨frameOf [hdrT, sBool] e[intT] s[] e[un "-" lit1], fun c => armIf c.isOrd
      s[ret e[kc (op ++ "Masked") e[acc "p1", p 2]]]⟩),
    (op ++ "Flat", ⟨frameOf [hdrT] e[intT] s[] e[un "-" lit1], fun c => armIf c.isOrd
      s[ret e[kc op e[acc "p1"]]]⟩) ]

/-- THE dispatcher template table: method name ↦ (frame, class ↦ arm). -/
def dispatchTemplates : List (String × DTmpl) :=
  arithOps.flatMap arithDispatch
  ++ cmpOps.flatMap (fun (n, _, o) => cmpDispatch n o)
  ++ unaryOps.flatMap unaryDispatch ++ clampDispatch
  ++ minmaxOps.flatMap (fun (n, _) => minmaxDispatch n)
  ++ mapDispatch ++ reduceDispatch ++ argDispatch "Argmax" ++ argDispatch "Argmin"

/-! frames are compared modulo the text of string literals (error messages) -/
def normLit (s : String) : String := if s.front = '"' then "\"\"" else s

mutual
def normE : Expr → Expr
  | .lit v => .lit (normLit v)
  | .idx x i => .idx (normE x) (normE i)
  | .slc x l h => .slc (normE x) (normE l) (normE h)
  | .un o x => .un o (normE x)
  | .bin o l r => .bin o (normE l) (normE r)
  | .call f a => .call f (normEs a)
  | .callv f a => .callv f (normEs a)
  | .conv t x => .conv (normE t) (normE x)
  | .sel x f => .sel (normE x) f
  | .star x => .star (normE x)
  | .assert x t => .assert (normE x) (normE t)
  | .comp t a => .comp (normE t) (normEs a)
  | .kv k v => .kv (normE k) (normE v)
  | .sliceTy t => .sliceTy (normE t)
  | .variadicTy t => .variadicTy (normE t)
  | .funcTy a r => .funcTy (normEs a) (normEs r)
  | .ident n => .ident n
  | .absent => .absent
  | .opaque s => .opaque s
def normEs : Exprs → Exprs
  | .nil => .nil
  | .cons e es => .cons (normE e) (normEs es)
end

mutual
def normS : Stmt → Stmt
  | .asg l t r => .asg (normEs l) t (normEs r)
  | .var n t v => .var (normEs n) (normE t) (normEs v)
  | .expr e => .expr (normE e)
  | .incdec x t => .incdec (normE x) t
  | .range k v t x b => .range (normE k) (normE v) t (normE x) (normSs b)
  | .for_ i c p b => .for_ (normS i) (normE c) (normS p) (normSs b)
  | .ifs i c t e => .ifs (normS i) (normE c) (normSs t) (normSs e)
  | .switch i t c => .switch (normS i) (normE t) (normSs c)
  | .tswitch b s c => .tswitch (normE b) (normE s) (normSs c)
  | .case v b => .case (normEs v) (normSs b)
  | .dflt b => .dflt (normSs b)
  | .ret v => .ret (normEs v)
  | .block b => .block (normSs b)
  | .brk => .brk
  | .cont => .cont
  | .skip => .skip
  | .opaque s => .opaque s
def normSs : Stmts → Stmts
  | .nil => .nil
  | .cons s ss => .cons (normS s) (normSs ss)
end

def normFn (f : Fn) : Fn := ⟨normEs f.params, normEs f.results, normSs f.body⟩

/-- expected arm of template `d` at a class (same caching-friendly shape as `expectedAt`) -/
def expectedArm (d : DTmpl) : Cls → Option Stmts
  | .bool => (d.arm .bool).map (absSs "bool")
  | .int => (d.arm .int).map (absSs "int")
  | .sint => d.arm .sint | .uint => d.arm .uint | .uintptr => d.arm .uintptr | .f32 => d.arm .f32
  | .f64 => d.arm .f64 | .c64 => d.arm .c64 | .c128 => d.arm .c128 | .str => d.arm .str | .uptr => d.arm .uptr

def armConforms (d : DTmpl) (a : String × Stmts) : Bool :=
  match tyByCase a.1 with
  | some ti => (match expectedArm d ti.cls with | some e => beqSs a.2 e | none => false)
  | none => false

def armAt (d : DTmpl) : Cls → Bool
  | .bool => (d.arm .bool).isSome | .int => (d.arm .int).isSome | .sint => (d.arm .sint).isSome
  | .uint => (d.arm .uint).isSome | .uintptr => (d.arm .uintptr).isSome | .f32 => (d.arm .f32).isSome
  | .f64 => (d.arm .f64).isSome | .c64 => (d.arm .c64).isSome | .c128 => (d.arm .c128).isSome
  | .str => (d.arm .str).isSome | .uptr => (d.arm .uptr).isSome

/-- `case` names for which the method has a reference arm = the types it claims to support -/
def supportedCases (d : DTmpl) : List String :=
  (tyInfos.filter fun ti => armAt d ti.cls).map (·.caseName)

/-- every typed arm of the method is the reference arm at its own type, and the frame (prelude,
`default:` arm, epilogue) is the reference frame -/
def methodConforms (m : DMethod) : Bool :=
  match lookup m.name dispatchTemplates with
  | some d => beqFn (normFn m.frame) d.frame && m.arms.all (armConforms d)
  | none => false

def methodComplete (m : DMethod) : Bool :=
  match lookup m.name dispatchTemplates with
  | some d => sameSet (m.arms.map (·.1)) (supportedCases d)
  | none => false

def methodOK (m : DMethod) : Bool :=
  match lookup m.name dispatchTemplates with
  | some d => (beqFn (normFn m.frame) d.frame && m.arms.all (armConforms d)) &&
              sameSet (m.arms.map (·.1)) (supportedCases d)
  | none => false

theorem methodOK_iff (m : DMethod) : methodOK m = true ↔ methodConforms m = true ∧ methodComplete m = true := by
  unfold methodOK methodConforms methodComplete
  split <;> simp


/-! ### §6b diagnosis (see tools/gox/diagnose.lean): which functions / arms fail
`*` = whole family / method without template, `:frame` = prelude or `default:` arm differs,
`:types` = the set of types differs from the supported set -/
def nonconformingKernels (fams : List KFam) : List String :=
  fams.flatMap fun f =>
    match lookup f.base kernelTemplates with
    | none => [f.base ++ "*"]
    | some t => (f.members.filterMap fun m => if memberConforms t m then none else some (f.base ++ m.1))
                ++ (if famComplete f then [] else [f.base ++ ":types"])
def nonconformingArms (ms : List DMethod) : List String :=
  ms.flatMap fun m =>
    match lookup m.name dispatchTemplates with
    | none => [m.name ++ "*"]
    | some d => (if beqFn (normFn m.frame) d.frame then [] else [m.name ++ ":frame"])
                ++ (m.arms.filterMap fun a => if armConforms d a then none else some (m.name ++ ":" ++ a.1))
                ++ (if methodComplete m then [] else [m.name ++ ":types"])

/-! ### an arm only calls kernels that exist for the arm's type

`kc name args` is the only way a template calls a typed kernel; `kernelCallees` collects the
`name`s (callees ending in `$S`) of an arm. -/
mutual
def calleesE : Expr → List String
  | .call f a => f :: calleesEs a
  | .callv f a => f :: calleesEs a
  | .idx x i => calleesE x ++ calleesE i
  | .slc x l h => calleesE x ++ calleesE l ++ calleesE h
  | .un _ x => calleesE x
  | .bin _ l r => calleesE l ++ calleesE r
  | .conv _ x => calleesE x
  | .sel x _ => calleesE x
  | .star x => calleesE x
  | .assert x _ => calleesE x
  | .comp _ a => calleesEs a
  | .kv k v => calleesE k ++ calleesE v
  | _ => []
def calleesEs : Exprs → List String
  | .nil => []
  | .cons e es => calleesE e ++ calleesEs es
end
mutual
def calleesS : Stmt → List String
  | .asg l _ r => calleesEs l ++ calleesEs r
  | .var _ _ v => calleesEs v
  | .expr e => calleesE e
  | .incdec x _ => calleesE x
  | .range _ _ _ x b => calleesE x ++ calleesSs b
  | .for_ i c p b => calleesS i ++ calleesE c ++ calleesS p ++ calleesSs b
  | .ifs i c t e => calleesS i ++ calleesE c ++ calleesSs t ++ calleesSs e
  | .switch i t c => calleesS i ++ calleesE t ++ calleesSs c
  | .tswitch _ s c => calleesE s ++ calleesSs c
  | .case v b => calleesEs v ++ calleesSs b
  | .dflt b => calleesSs b
  | .ret v => calleesEs v
  | .block b => calleesSs b
  | _ => []
def calleesSs : Stmts → List String
  | .nil => []
  | .cons s ss => calleesS s ++ calleesSs ss
end

/-- base names of the typed kernels an arm calls -/
def stripS (f : String) : Option String :=
  match f.toList.reverse with
  | 'S' :: '$' :: rest => some (String.ofList rest.reverse)
  | _ => none
def kernelCallees (a : Stmts) : List String := (calleesSs a).filterMap stripS

def kernelExistsAt (c : Cls) (name : String) : Bool :=
  match lookup name kernelTemplates with
  | some t => (t c).isSome
  | none => false

def allCls : List Cls := [.bool, .int, .sint, .uint, .uintptr, .f32, .f64, .c64, .c128, .str, .uptr]

/-- wherever a dispatcher has a reference arm, every typed kernel the arm calls has a
template (hence, by `kernel_types_complete`, a generated function) for that type -/
theorem arms_call_existing_kernels :
    ∀ d ∈ dispatchTemplates, ∀ c ∈ allCls,
      (match d.2.arm c with
       | some a => (kernelCallees a).all (kernelExistsAt c)
       | none => true) = true := by
  decide +kernel

/-! ## §7 semantics of the skeletons (for all slice lengths)

`TM.MiniGo.Sem.exec` interprets the *template ASTs themselves*; operator tokens and callees are
uninterpreted (`Interp.op`), `x += e` is `x = x + e`.  Proved here: vector-vector, scalar-vector
(scalar on the left), vector-scalar, incr, and the vector-vector iterator kernel.  The guarded
integer-division variants, the comparison / min-max / unary / map / reduce / arg skeletons are
covered by conformance only (no semantic theorem): `_partial` in that sense. -/
namespace SemT
open TM.MiniGo.Sem

variable {α : Type}

/-- meaning of a `BinDef` under an interpretation of the names -/
def BinDef.sem (I : Interp α) : BinDef → α → α → α
  | .tok t, x, y => I.op t x y
  | .fn c, x, y => I.op c x y
  | .fnVia c via, x, y => I.cv "$T" (I.op c (I.cv via x) (I.cv via y))

theorem evalA_mk (I : Interp α) (st : St α) (d : BinDef) (ex ey : Expr) (x y : α)
    (hx : evalA I st ex = some x) (hy : evalA I st ey = some y) :
    evalA I st (d.mk ex ey) = some (BinDef.sem I d x y) := by
  cases d <;> simp [BinDef.mk, evalA, hx, hy, BinDef.sem, T]

theorem rangeLoop_inv {step : Nat → St α → Res α} (Inv : Nat → St α → Prop) (n : Nat)
    (hstep : ∀ k s, k < n → Inv k s → ∃ s', step k s = some (s', .norm) ∧ Inv (k+1) s') :
    ∀ j m s, m + j = n → Inv m s →
      ∃ s', rangeLoop step (List.range' m j) s = some (s', .norm) ∧ Inv n s' := by
  intro j
  induction j with
  | zero =>
    intro m s hm hI
    have hmn : m = n := by omega
    subst hmn
    exact ⟨s, by simp [rangeLoop], hI⟩
  | succ j ih =>
    intro m s hm hI
    obtain ⟨s1, h1, hI1⟩ := hstep m s (by omega) hI
    obtain ⟨s2, h2, hI2⟩ := ih (m+1) s1 (by omega) hI1
    exact ⟨s2, by simp [List.range'_succ, rangeLoop, h1, h2], hI2⟩

theorem execs_store (I : Interp α) (fuel : Nat) (s : St α) (dn i : String) (e : Expr) (val old : α)
    (he : evalA I s e = some val) (hold : (s.sl dn)[s.ix i]? = some old) :
    execs I fuel s[asg e[idx (ident dn) (ident i)] "=" e[e]] s
      = some (s.setSl dn ((s.sl dn).set (s.ix i) val), .norm) := by
  simp [execs, exec, execAsg, he, hold]

theorem execs_accum (I : Interp α) (fuel : Nat) (s : St α) (dn i : String) (e : Expr) (val old : α)
    (he : evalA I s e = some val) (hold : (s.sl dn)[s.ix i]? = some old) :
    execs I fuel s[asg e[idx (ident dn) (ident i)] "+=" e[e]] s
      = some (s.setSl dn ((s.sl dn).set (s.ix i) (I.op "+" old val)), .norm) := by
  simp [execs, exec, execAsg, he, hold]

/-- A `for v0 := range d { body }` loop whose body replaces cell `d[k]` by `G k d[k]` and
preserves `Frame`: afterwards every cell `k` holds `G k a[k]` (`a` = the slice before). -/
theorem range_pointwise (I : Interp α) (fuel : Nat) (dn : String) (body : Stmts) (st : St α)
    (G : Nat → α → α) (Frame : St α → Prop) (h0 : Frame st)
    (hstep : ∀ s k x, Frame s → k < (st.sl dn).length → (s.sl dn)[k]? = some x →
        ∃ s', execs I fuel body (s.setIx "v0" k) = some (s', .norm) ∧ Frame s' ∧
              s'.sl dn = (s.sl dn).set k (G k x)) :
    ∃ st', exec I fuel (range (ident "v0") .absent ":=" (ident dn) body) st = some (st', .norm) ∧ Frame st' ∧
      (st'.sl dn).length = (st.sl dn).length ∧
      ∀ k (hk : k < (st.sl dn).length), (st'.sl dn)[k]? = some (G k (st.sl dn)[k]) := by
  let a := st.sl dn
  let Inv : Nat → St α → Prop := fun k s =>
    Frame s ∧ (s.sl dn).length = a.length ∧
    (∀ j (hj : j < a.length), j < k → (s.sl dn)[j]? = some (G j a[j])) ∧
    (∀ j, k ≤ j → (s.sl dn)[j]? = a[j]?)
  have hloop := rangeLoop_inv (α := α) (step := fun k s => execs I fuel body (s.setIx "v0" k))
    Inv a.length ?_ a.length 0 st (by omega) ⟨h0, rfl, by intro j _ h; omega, by intro j _; rfl⟩
  · obtain ⟨s', h, hF, hlen, hlt, _⟩ := hloop
    refine ⟨s', ?_, hF, hlen, fun k hk => hlt k hk hk⟩
    simp only [exec, if_true, List.range_eq_range']
    exact h
  · intro k s hk ⟨hF, hlen, hlt, hge⟩
    have hcell : (s.sl dn)[k]? = some a[k] := by rw [hge k (Nat.le_refl k), List.getElem?_eq_getElem hk]
    obtain ⟨s', hrun, hF', hsl'⟩ := hstep s k a[k] hF hk hcell
    refine ⟨s', hrun, hF', by simp [hsl', hlen], ?_, ?_⟩
    · intro j hj hjk
      rw [hsl', List.getElem?_set]
      by_cases h : k = j
      · subst h; simp [hlen, hk]
      · simp [h]; exact hlt j hj (by omega)
    · intro j hjk
      rw [hsl', List.getElem?_set]
      have : k ≠ j := by omega
      simp [this]; exact hge j (by omega)

theorem eq_of_pointwise {l l' : List α} (H : Nat → Option α) (hlen : l'.length = l.length)
    (h' : ∀ k, k < l.length → l'[k]? = H k) (h : ∀ k, k < l.length → l[k]? = H k) : l' = l := by
  apply List.ext_getElem?
  intro k
  by_cases hk : k < l.length
  · rw [h' k hk, h k hk]
  · rw [List.getElem?_eq_none (by omega), List.getElem?_eq_none (by omega)]

/-- `a[:]`-free part shared by the single-loop kernels: run `pre`, then the loop, then nothing -/
theorem sem_vs (I : Interp α) (d : BinDef) (fuel : Nat) (st : St α) :
    ∃ st', run I fuel (binKernel shVS (.store d "=") false) st = some (st', .norm) ∧
      st'.sl "p0" = (st.sl "p0").map (fun x => BinDef.sem I d x (st.sc "p1")) := by
  obtain ⟨st', hrun, _, hlen, hcells⟩ := range_pointwise I fuel "p0"
    (Act.stmts (.store d "=") (idx (ident "p0") (ident "v0")) (ident "p1") (idx (ident "p0") (ident "v0"))) st
    (fun _ x => BinDef.sem I d x (st.sc "p1")) (fun s => s.sc = st.sc) rfl (by
      intro s k x hF hk hcell
      refine ⟨_, execs_store I fuel _ "p0" "v0" _ (BinDef.sem I d x (st.sc "p1")) x ?_ ?_, ?_, ?_⟩
      · exact evalA_mk I _ d _ _ x (st.sc "p1") (by simpa [evalA, St.setIx, upd] using hcell) (by simp [evalA, St.setIx, hF])
      · simpa [St.setIx, upd] using hcell
      · simp [St.setSl, St.setIx, hF]
      · simp [St.setSl, St.setIx, upd])
  refine ⟨st', ?_, ?_⟩
  · simp [run, binKernel, shVS, execs, p, v, pS, vS, hrun]
  · exact eq_of_pointwise (fun k => ((st.sl "p0")[k]?).map (fun x => BinDef.sem I d x (st.sc "p1")))
      (by simp [hlen]) (fun k hk => by simp at hk; simp [hcells k hk, List.getElem?_eq_getElem hk])
      (fun k hk => by simp)

/-- scalar on the LEFT: `for i := range b { b[i] = s ∘ b[i] }` -/
theorem sem_sv (I : Interp α) (d : BinDef) (fuel : Nat) (st : St α) :
    ∃ st', run I fuel (binKernel shSV (.store d "=") false) st = some (st', .norm) ∧
      st'.sl "p1" = (st.sl "p1").map (fun y => BinDef.sem I d (st.sc "p0") y) := by
  obtain ⟨st', hrun, _, hlen, hcells⟩ := range_pointwise I fuel "p1"
    (Act.stmts (.store d "=") (ident "p0") (idx (ident "p1") (ident "v0")) (idx (ident "p1") (ident "v0"))) st
    (fun _ y => BinDef.sem I d (st.sc "p0") y) (fun s => s.sc = st.sc) rfl (by
      intro s k y hF hk hcell
      refine ⟨_, execs_store I fuel _ "p1" "v0" _ (BinDef.sem I d (st.sc "p0") y) y ?_ ?_, ?_, ?_⟩
      · exact evalA_mk I _ d _ _ (st.sc "p0") y (by simp [evalA, St.setIx, hF]) (by simpa [evalA, St.setIx, upd] using hcell)
      · simpa [St.setIx, upd] using hcell
      · simp [St.setSl, St.setIx, hF]
      · simp [St.setSl, St.setIx, upd])
  refine ⟨st', ?_, ?_⟩
  · simp [run, binKernel, shSV, execs, p, v, pS, vS, hrun]
  · exact eq_of_pointwise (fun k => ((st.sl "p1")[k]?).map (fun y => BinDef.sem I d (st.sc "p0") y))
      (by simp [hlen]) (fun k hk => by simp at hk; simp [hcells k hk, List.getElem?_eq_getElem hk])
      (fun k hk => by simp)

/-- vector-vector: `a = a[:]; b = b[:len(a)]; for i := range a { a[i] = a[i] ∘ b[i] }` -/
theorem sem_vv (I : Interp α) (d : BinDef) (fuel : Nat) (st : St α)
    (hlen : (st.sl "p0").length ≤ (st.sl "p1").length) :
    ∃ st', run I fuel (binKernel shVV (.store d "=") false) st = some (st', .norm) ∧
      st'.sl "p0" = List.zipWith (BinDef.sem I d) (st.sl "p0") (st.sl "p1") := by
  let a := st.sl "p0"
  let b := st.sl "p1"
  -- the state after the re-slicing prelude
  let st1 : St α := st.setSl "p1" (b.take a.length)
  have ha1 : st1.sl "p0" = a := by simp [st1, St.setSl, upd, a]
  obtain ⟨st', hrun, _, hlen', hcells⟩ := range_pointwise I fuel "p0"
    (Act.stmts (.store d "=") (idx (ident "p0") (ident "v0")) (idx (ident "p1") (ident "v0")) (idx (ident "p0") (ident "v0"))) st1
    (fun k x => match b[k]? with | some y => BinDef.sem I d x y | none => x)
    (fun s => s.sl "p1" = b.take a.length) (by simp [st1, St.setSl, upd]) (by
      intro s k x hF hk hcell
      rw [ha1] at hk
      have hkb : k < b.length := Nat.lt_of_lt_of_le hk hlen
      have hb : (s.sl "p1")[k]? = some b[k] := by
        rw [hF, List.getElem?_take]; simp [hk, List.getElem?_eq_getElem hkb]
      refine ⟨_, execs_store I fuel _ "p0" "v0" _ (BinDef.sem I d x b[k]) x ?_ ?_, ?_, ?_⟩
      · exact evalA_mk I _ d _ _ x b[k] (by simpa [evalA, St.setIx, upd] using hcell)
          (by simpa [evalA, St.setIx, upd] using hb)
      · simpa [St.setIx, upd] using hcell
      · simp [St.setSl, St.setIx, upd, hF]
      · simp [St.setSl, St.setIx, upd, List.getElem?_eq_getElem hkb])
  refine ⟨st', ?_, ?_⟩
  · have h1 : (st.sl "p0").length ≤ (st.sl "p1").length := hlen
    simp only [st1, a, b] at hrun
    simp [run, binKernel, shVV, execs, exec, execAsg, resliceAll, resliceTo, set, len, p, v, pS, vS, h1] at hrun ⊢
    rw [hrun]
  · rw [ha1] at hlen' hcells
    refine eq_of_pointwise (fun k => (List.zipWith (BinDef.sem I d) (st.sl "p0") (st.sl "p1"))[k]?) ?_ ?_ (fun _ _ => rfl)
    · simp only [hlen', List.length_zipWith, a]; omega
    · intro k hk
      simp only [List.length_zipWith] at hk
      have hka : k < a.length := by simp only [a]; omega
      have hkb : k < b.length := by simp only [b]; omega
      rw [hcells k hka]
      simp [a, b, List.getElem?_zipWith, List.getElem?_eq_getElem hka, List.getElem?_eq_getElem hkb]

/-- incr: `a = a[:]; b = b[:len(a)]; incr = incr[:len(a)]; for i := range incr { incr[i] += a[i] ∘ b[i] }`
(`x += e` is `x = x + e`, with `+` the uninterpreted `I.op "+"`). -/
theorem sem_incr (I : Interp α) (d : BinDef) (fuel : Nat) (st : St α)
    (hb : (st.sl "p0").length ≤ (st.sl "p1").length) (hc : (st.sl "p0").length ≤ (st.sl "p2").length) :
    ∃ st', run I fuel (binKernel (shVV3 sT) (.store d "+=") false) st = some (st', .norm) ∧
      (st'.sl "p2").length = (st.sl "p0").length ∧
      ∀ k (hk : k < (st.sl "p0").length),
        (st'.sl "p2")[k]? = some (I.op "+" ((st.sl "p2")[k]'(Nat.lt_of_lt_of_le hk hc))
            (BinDef.sem I d ((st.sl "p0")[k]) ((st.sl "p1")[k]'(Nat.lt_of_lt_of_le hk hb)))) := by
  let a := st.sl "p0"
  let b := st.sl "p1"
  let c := st.sl "p2"
  let st1 : St α := (st.setSl "p1" (b.take a.length)).setSl "p2" (c.take a.length)
  have hc1 : st1.sl "p2" = c.take a.length := by simp [st1, St.setSl, upd]
  have hn : (c.take a.length).length = a.length := by
    simp only [List.length_take, a, c]; omega
  obtain ⟨st', hrun, _, hlen', hcells⟩ := range_pointwise I fuel "p2"
    (Act.stmts (.store d "+=") (idx (ident "p0") (ident "v0")) (idx (ident "p1") (ident "v0")) (idx (ident "p2") (ident "v0"))) st1
    (fun k z => match a[k]?, b[k]? with | some x, some y => I.op "+" z (BinDef.sem I d x y) | _, _ => z)
    (fun s => s.sl "p0" = a ∧ s.sl "p1" = b.take a.length) (by simp [st1, St.setSl, upd, a]) (by
      intro s k z hF hk hcell
      rw [hc1, hn] at hk
      have hkb : k < b.length := Nat.lt_of_lt_of_le hk hb
      have hb' : (s.sl "p1")[k]? = some b[k] := by
        rw [hF.2, List.getElem?_take]; simp [hk, List.getElem?_eq_getElem hkb]
      have ha' : (s.sl "p0")[k]? = some a[k] := by rw [hF.1, List.getElem?_eq_getElem hk]
      refine ⟨_, execs_accum I fuel _ "p2" "v0" _ (BinDef.sem I d a[k] b[k]) z ?_ ?_, ?_, ?_⟩
      · exact evalA_mk I _ d _ _ a[k] b[k] (by simpa [evalA, St.setIx, upd] using ha')
          (by simpa [evalA, St.setIx, upd] using hb')
      · simpa [St.setIx, upd] using hcell
      · simp [St.setSl, St.setIx, upd, hF.1, hF.2]
      · simp [St.setSl, St.setIx, upd, List.getElem?_eq_getElem hkb, List.getElem?_eq_getElem hk])
  refine ⟨st', ?_, ?_, ?_⟩
  · have h1 : (st.sl "p0").length ≤ (st.sl "p1").length := hb
    have h2 : (st.sl "p0").length ≤ (st.sl "p2").length := hc
    simp only [st1, a, b, c] at hrun
    simp [run, binKernel, shVV3, execs, exec, execAsg, resliceAll, resliceTo, set, len, p, v, pS, vS, h1, h2,
          St.setSl, upd] at hrun ⊢
    rw [hrun]
  · rw [hlen', hc1, hn]
  · intro k hk
    have hk1 : k < (st1.sl "p2").length := by rw [hc1, hn]; exact hk
    have hkb : k < b.length := Nat.lt_of_lt_of_le hk hb
    rw [hcells k hk1]
    simp [hc1, a, b, c, List.getElem?_eq_getElem hk, List.getElem?_eq_getElem hkb, List.getElem_take]

/-! ### iterator kernels -/

/-- what the vv iterator loop computes: walk both (index, valid) sequences in lock step; where
both positions are valid, `a[i] = a[i] ∘ b[j]` (`none` = index out of range panic) -/
def iterSpec (f : α → α → α) (b : List α) : List (Nat × Bool) → List (Nat × Bool) → List α → Option (List α)
  | (i, vi) :: ia, (j, vj) :: ib, a =>
      if vi && vj then
        match a[i]?, b[j]? with
        | some x, some y => iterSpec f b ia ib (a.set i (f x y))
        | _, _ => none
      else iterSpec f b ia ib a
  | _, _, a => some a

def iterBodyVV (d : BinDef) : Stmts :=
  s[nextV (ident "v0") (ident "v2") "p2", nextV (ident "v1") (ident "v3") "p3",
    ifs skip (bin "&&" (ident "v2") (ident "v3"))
      (Act.stmts (.store d "=") (idx (ident "p0") (ident "v0")) (idx (ident "p1") (ident "v1")) (idx (ident "p0") (ident "v0"))) s[]]

theorem iterBodyVV_nil (I : Interp α) (d : BinDef) (fuel : Nat) (s : St α)
    (h : s.it "p2.NextValidity" = []) :
    execs I fuel (iterBodyVV d) s = some ({ s with err := false }, .brk) := by
  simp [iterBodyVV, nextV, execs, exec, execAsg, evalB, h, set, r0, nil_]

theorem iterBodyVV_cons_nil (I : Interp α) (d : BinDef) (fuel : Nat) (s : St α) (i : Nat) (vi : Bool)
    (ia : List (Nat × Bool)) (h2 : s.it "p2.NextValidity" = (i, vi) :: ia) (h3 : s.it "p3.NextValidity" = []) :
    ∃ s', execs I fuel (iterBodyVV d) s = some (s', .brk) ∧ s'.sl = s.sl := by
  refine ⟨{ s with ix := upd s.ix "v0" i, bl := upd s.bl "v2" vi, it := upd s.it "p2.NextValidity" ia, err := false }, ?_, rfl⟩
  simp [iterBodyVV, nextV, execs, exec, execAsg, evalB, h2, h3, set, r0, nil_, upd]

/-- `if i, valid, err = it.NextValidity(); err != nil {...}` when the iterator delivers (k, ok) -/
theorem exec_nextV_cons (I : Interp α) (fuel : Nat) (s : St α) (iv bv it : String) (k : Nat) (ok : Bool)
    (rest : List (Nat × Bool)) (h : s.it (it ++ ".NextValidity") = (k, ok) :: rest) :
    exec I fuel (nextV (ident iv) (ident bv) it) s
      = some ({ s with ix := upd s.ix iv k, bl := upd s.bl bv ok, it := upd s.it (it ++ ".NextValidity") rest,
                       err := false }, .norm) := by
  simp [nextV, execs, exec, execAsg, evalB, h, set, r0, nil_]

/-- one full iteration: both iterators deliver a position -/
theorem iterBodyVV_cons_cons (I : Interp α) (d : BinDef) (fuel : Nat) (s : St α) (i j : Nat) (vi vj : Bool)
    (ia ib : List (Nat × Bool)) (h2 : s.it "p2.NextValidity" = (i, vi) :: ia)
    (h3 : s.it "p3.NextValidity" = (j, vj) :: ib) (a' : List α)
    (ha' : a' = if vi && vj then
        (match (s.sl "p0")[i]?, (s.sl "p1")[j]? with
         | some x, some y => (s.sl "p0").set i (BinDef.sem I d x y) | _, _ => s.sl "p0") else s.sl "p0")
    (hdef : (vi && vj) = true → ((s.sl "p0")[i]?).isSome ∧ ((s.sl "p1")[j]?).isSome) :
    ∃ s', execs I fuel (iterBodyVV d) s = some (s', .norm) ∧ s'.sl "p0" = a' ∧ s'.sl "p1" = s.sl "p1" ∧
      s'.it "p2.NextValidity" = ia ∧ s'.it "p3.NextValidity" = ib := by
  let s1 : St α := { s with ix := upd s.ix "v0" i, bl := upd s.bl "v2" vi, it := upd s.it "p2.NextValidity" ia, err := false }
  let s2 : St α := { s1 with ix := upd s1.ix "v1" j, bl := upd s1.bl "v3" vj, it := upd s1.it "p3.NextValidity" ib, err := false }
  have e1 : exec I fuel (nextV (ident "v0") (ident "v2") "p2") s = some (s1, .norm) :=
    exec_nextV_cons I fuel s "v0" "v2" "p2" i vi ia h2
  have e2 : exec I fuel (nextV (ident "v1") (ident "v3") "p3") s1 = some (s2, .norm) :=
    exec_nextV_cons I fuel s1 "v1" "v3" "p3" j vj ib (by simpa [s1, upd] using h3)
  have hb : evalB s2 (bin "&&" (ident "v2") (ident "v3")) = some (vi && vj) := by
    simp [evalB, s2, s1, upd]
  by_cases hv : (vi && vj) = true
  · obtain ⟨hx, hy⟩ := hdef hv
    obtain ⟨x, hx⟩ := Option.isSome_iff_exists.1 hx
    obtain ⟨y, hy⟩ := Option.isSome_iff_exists.1 hy
    have hstore := execs_store I fuel s2 "p0" "v0" (d.mk (idx (ident "p0") (ident "v0")) (idx (ident "p1") (ident "v1")))
      (BinDef.sem I d x y) x
      (evalA_mk I s2 d _ _ x y (by simpa [evalA, s2, s1, upd] using hx) (by simpa [evalA, s2, s1, upd] using hy))
      (by simpa [s2, s1, upd] using hx)
    refine ⟨s2.setSl "p0" ((s2.sl "p0").set (s2.ix "v0") (BinDef.sem I d x y)), ?_, ?_, ?_, ?_, ?_⟩
    · simp only [iterBodyVV, execs, e1, e2]
      simp only [exec, hb, hv, Act.stmts, hstore]
    · simp [ha', hv, hx, hy, St.setSl, upd, s2, s1]
    · simp [St.setSl, upd, s2, s1]
    · simp [St.setSl, upd, s2, s1]
    · simp [St.setSl, upd, s2, s1]
  · refine ⟨s2, ?_, ?_, rfl, ?_, ?_⟩
    · have hv' : (vi && vj) = false := by simpa using hv
      simp only [iterBodyVV, execs, e1, e2]
      simp only [exec, hb, hv', execs]
    · simp [ha', hv, s2, s1]
    · simp [s2, s1, upd]
    · simp [s2, upd]

theorem iter_vv_loop (I : Interp α) (d : BinDef) (fuel0 : Nat) (b : List α) :
    ∀ (ia ib : List (Nat × Bool)) (a : List α) (s : St α) (fuel : Nat) (r : List α),
      s.it "p2.NextValidity" = ia → s.it "p3.NextValidity" = ib → s.sl "p0" = a → s.sl "p1" = b →
      iterSpec (BinDef.sem I d) b ia ib a = some r → ia.length < fuel →
      ∃ s', forever (fun s => execs I fuel0 (iterBodyVV d) s) fuel s = some (s', .norm) ∧ s'.sl "p0" = r := by
  intro ia
  induction ia with
  | nil =>
    intro ib a s fuel r h2 h3 ha hb hspec hfuel
    obtain ⟨n, rfl⟩ : ∃ n, fuel = n + 1 := ⟨fuel - 1, by omega⟩
    refine ⟨{ s with err := false }, ?_, ?_⟩
    · simp [forever, iterBodyVV_nil I d fuel0 s h2]
    · simp [iterSpec] at hspec; simp [← hspec, ha]
  | cons x ia ih =>
    intro ib a s fuel r h2 h3 ha hb hspec hfuel
    obtain ⟨i, vi⟩ := x
    obtain ⟨n, rfl⟩ : ∃ n, fuel = n + 1 := ⟨fuel - 1, by omega⟩
    cases ib with
    | nil =>
      obtain ⟨s', hs', hsl⟩ := iterBodyVV_cons_nil I d fuel0 s i vi ia h2 h3
      refine ⟨s', by simp [forever, hs'], ?_⟩
      simp [iterSpec] at hspec; simp [← hspec, hsl, ha]
    | cons y ib =>
      obtain ⟨j, vj⟩ := y
      simp only [iterSpec] at hspec
      by_cases hv : (vi && vj) = true
      · simp only [hv, if_true] at hspec
        -- both cells exist, otherwise the specification (and Go) panics
        cases hx : a[i]? with
        | none => simp [hx] at hspec
        | some x =>
          cases hy : b[j]? with
          | none => simp [hx, hy] at hspec
          | some y =>
            simp only [hx, hy] at hspec
            obtain ⟨s1, hs1, h0, h1, hi2, hi3⟩ := iterBodyVV_cons_cons I d fuel0 s i j vi vj ia ib h2 h3
              (a.set i (BinDef.sem I d x y)) (by simp [hv, ha, hb, hx, hy]) (by intro _; simp [ha, hb, hx, hy])
            obtain ⟨s', hs', hr⟩ := ih ib _ s1 n r hi2 hi3 h0 (h1.trans hb) hspec (by simpa using hfuel)
            exact ⟨s', by simp [forever, hs1, hs'], hr⟩
      · have hv' : (vi && vj) = false := by simpa using hv
        simp only [hv', Bool.false_eq_true, if_false] at hspec
        obtain ⟨s1, hs1, h0, h1, hi2, hi3⟩ := iterBodyVV_cons_cons I d fuel0 s i j vi vj ia ib h2 h3
          a (by simp [hv', ha]) (by intro h; simp [hv'] at h)
        obtain ⟨s', hs', hr⟩ := ih ib _ s1 n r hi2 hi3 h0 (h1.trans hb) hspec (by simpa using hfuel)
        exact ⟨s', by simp [forever, hs1, hs'], hr⟩

theorem iterKernel_body (d : BinDef) : (binKernel shIter (.store d "=") false).body =
    s[var e[ident "v0", ident "v1"] (ident "int") e[], var e[ident "v2", ident "v3"] (ident "bool") e[],
      for_ skip .absent skip (iterBodyVV d), ret e[]] := rfl

/-- The vector-vector iterator kernel: with `ia`, `ib` the (index, valid) sequences the two
iterators deliver, the kernel returns and `a` is `iterSpec` of the inputs. -/
theorem sem_iter_vv_fold (I : Interp α) (d : BinDef) (fuel : Nat) (st : St α) (r : List α)
    (hspec : iterSpec (BinDef.sem I d) (st.sl "p1") (st.it "p2.NextValidity") (st.it "p3.NextValidity") (st.sl "p0") = some r)
    (hfuel : (st.it "p2.NextValidity").length < fuel) :
    ∃ st', run I fuel (binKernel shIter (.store d "=") false) st = some (st', .ret) ∧ st'.sl "p0" = r := by
  let st1 : St α := { st with ix := upd (upd st.ix "v0" 0) "v1" 0, bl := upd (upd st.bl "v2" false) "v3" false }
  obtain ⟨s', hs', hr⟩ := iter_vv_loop I d fuel (st.sl "p1") _ _ _ st1 fuel r rfl rfl rfl rfl hspec hfuel
  refine ⟨s', ?_, hr⟩
  have hdecl : exec I fuel (var e[ident "v0", ident "v1"] (ident "int") e[]) st
      = some ({ st with ix := upd (upd st.ix "v0" 0) "v1" 0 }, .norm) := by simp [exec, declare]
  have hdecl2 : exec I fuel (var e[ident "v2", ident "v3"] (ident "bool") e[]) { st with ix := upd (upd st.ix "v0" 0) "v1" 0 }
      = some (st1, .norm) := by simp [exec, declare, st1]
  rw [run, iterKernel_body]
  simp only [execs, hdecl, hdecl2]
  simp only [exec, hs']

/-- All positions valid, offsets `ia` without duplicates and in range: cell `ia[k]` becomes
`a[ia[k]] ∘ b[ib[k]]` for every `k < min |ia| |ib|`; all other cells are unchanged. -/
theorem iterSpec_nodup (f : α → α → α) (b : List α) :
    ∀ (ia ib : List Nat) (a : List α), ia.Nodup → (∀ i ∈ ia, i < a.length) → (∀ j ∈ ib, j < b.length) →
      ∃ r, iterSpec f b (ia.map (·, true)) (ib.map (·, true)) a = some r ∧ r.length = a.length ∧
        (∀ (k i j : Nat), ia[k]? = some i → ib[k]? = some j →
            ∃ x y, a[i]? = some x ∧ b[j]? = some y ∧ r[i]? = some (f x y)) ∧
        (∀ (i : Nat), (∀ (k : Nat), k < ib.length → ia[k]? ≠ some i) → r[i]? = a[i]?) := by
  intro ia
  induction ia with
  | nil => intro ib a _ _ _; exact ⟨a, by simp [iterSpec], rfl, by simp, by simp⟩
  | cons i ia ih =>
    intro ib a hnd hia hib
    cases ib with
    | nil => exact ⟨a, by simp [iterSpec], rfl, by simp, by simp⟩
    | cons j ib =>
      have hi : i < a.length := hia i (by simp)
      have hj : j < b.length := hib j (by simp)
      have hnd' := List.nodup_cons.1 hnd
      obtain ⟨r, hr, hlen, hcells, hframe⟩ := ih ib (a.set i (f a[i] b[j])) hnd'.2
        (fun i' h => by simpa using hia i' (by simp [h])) (fun j' h => hib j' (by simp [h]))
      refine ⟨r, ?_, by simpa using hlen, ?_, ?_⟩
      · simp [iterSpec, List.getElem?_eq_getElem hi, List.getElem?_eq_getElem hj, hr]
      · intro k i' j' hk1 hk2
        cases k with
        | zero =>
          simp at hk1 hk2
          subst hk1 hk2
          refine ⟨a[i], b[j], List.getElem?_eq_getElem hi, List.getElem?_eq_getElem hj, ?_⟩
          rw [hframe i (fun k _ hk => hnd'.1 (List.mem_of_getElem? hk))]
          simp [hi]
        | succ k =>
          simp at hk1 hk2
          obtain ⟨x, y, hx, hy, hr'⟩ := hcells k i' j' hk1 hk2
          have hne : i ≠ i' := fun h => hnd'.1 (h ▸ List.mem_of_getElem? hk1)
          rw [List.getElem?_set] at hx
          simp [hne] at hx
          exact ⟨x, y, hx, hy, hr'⟩
      · intro i' hi'
        have hne : i ≠ i' := fun h => hi' 0 (by simp) (by simp [h])
        rw [hframe i' (fun k hk h => hi' (k+1) (by simpa using hk) (by simpa using h))]
        rw [List.getElem?_set]; simp [hne]

/-- `sem_iter_vv`: the kernel on offset lists `ia`, `ib` (every position valid). -/
theorem sem_iter_vv (I : Interp α) (d : BinDef) (fuel : Nat) (st : St α) (ia ib : List Nat)
    (h2 : st.it "p2.NextValidity" = ia.map (·, true)) (h3 : st.it "p3.NextValidity" = ib.map (·, true))
    (hnd : ia.Nodup) (hia : ∀ i ∈ ia, i < (st.sl "p0").length) (hib : ∀ j ∈ ib, j < (st.sl "p1").length)
    (hfuel : ia.length < fuel) :
    ∃ st', run I fuel (binKernel shIter (.store d "=") false) st = some (st', .ret) ∧
      (st'.sl "p0").length = (st.sl "p0").length ∧
      (∀ (k i j : Nat), ia[k]? = some i → ib[k]? = some j →
          ∃ x y, (st.sl "p0")[i]? = some x ∧ (st.sl "p1")[j]? = some y ∧
                 (st'.sl "p0")[i]? = some (BinDef.sem I d x y)) ∧
      (∀ (i : Nat), (∀ (k : Nat), k < ib.length → ia[k]? ≠ some i) → (st'.sl "p0")[i]? = (st.sl "p0")[i]?) := by
  obtain ⟨r, hr, hlen, hcells, hframe⟩ := iterSpec_nodup (BinDef.sem I d) (st.sl "p1") ia ib (st.sl "p0") hnd hia hib
  obtain ⟨st', hrun, hsl⟩ := sem_iter_vv_fold I d fuel st r (by rw [h2, h3]; exact hr) (by simpa [h2] using hfuel)
  exact ⟨st', hrun, by rw [hsl, hlen], by rw [hsl]; exact hcells, by rw [hsl]; exact hframe⟩


/-! The table entries the theorems above speak about (examples of the link between the template
table and the skeleton semantics; the other operators / classes differ only in the `BinDef`). -/
example : (lookup "VecAdd" kernelTemplates).bind (· .sint) = some (binKernel shVV (.store (.tok "+") "=") false) := by decide +kernel
example : (lookup "SubSV" kernelTemplates).bind (· .f64) = some (binKernel shSV (.store (.tok "-") "=") false) := by decide +kernel
example : (lookup "SubVS" kernelTemplates).bind (· .uint) = some (binKernel shVS (.store (.tok "-") "=") false) := by decide +kernel
example : (lookup "MulIncr" kernelTemplates).bind (· .c64) = some (binKernel (shVV3 sT) (.store (.tok "*") "+=") false) := by decide +kernel
example : (lookup "PowIter" kernelTemplates).bind (· .c64) = some (binKernel shIter (.store (.fnVia "cmplx.Pow" "complex128") "=") false) := by decide +kernel

end SemT

end TM.Templates
