import TensorModel.Proofs.Assemble
import TensorModel.Proofs.FreshCopy
/-!
  C10 — concatenation, stacking, repetition (and the repeat / concat calculators of C13).
  Property theorems only; helper lemmas live in `TensorModel/Proofs/Assemble.lean`.

  * `concat_shape`, `stack_shape`, `repeat_shape`: the model of the shape calculators
    (`Shape.Concat`, the head of `StackDense`, `Shape.Repeat`) gives S's shape and refuses — with an
    *error*, never a panic — exactly where S refuses (`concat_shape`: for every axis argument, `AllAxes` read as the
    library's interface defines it).
  * `simpleStack_spec`: the block-copy kernels of `denseSimpleStack` (both the `case 0` and the
    `default` loop nest) on row-major listings of equally shaped operands produce exactly the element
    list of S's `stack`, for every rank and every axis position.
  * `viewStack_spec`: the same for the iterator-driven kernels `doViewStack*` (operands of any layout
    given by their iterator offsets).
  * `repeat_spec`: the `fastCopyDenseRepeat` loop nest (both the byte-broadcast shortcut and the
    general path) on the row-major listing of the source produces exactly the element list of S's
    `repeat`, for every rank, axis and count vector (zero counts included).
  * `stack_axisStride`, `repeat_params`: the block lengths and loop bounds the engine derives (from
    the strides of the row-major stacked result; from the shapes for `Repeat`) are the ones the two
    theorems above are stated for.
  * `repeat_source_by_coordinate`, `repeat_source_rowmajor`: what the loop nest of `repeat_spec` is run on —
    a source whose storage is its row-major listing is read in place, every other source (non-contiguous or
    stepped view, pending transpose, column-major data; any rank and strides) is first copied coordinate by
    coordinate into fresh row-major storage, so the listing `repeat_spec` speaks about is the listing of the
    source's *logical* elements whatever its layout.
  * `repeatReuse_via_temporary`, `repeatReuse_fill_by_coordinate`: a reuse tensor that is not stored in
    row-major order gets the result from a row-major temporary, element `c` of the temporary into the reuse
    tensor's own cell of coordinate `c`; no other cell of any buffer (the reuse tensor's parent included) changes.
  * `stack_frame`, `repeat_frame`, `repeatReuse_frame`: these operations write nothing but the result
    (resp. reuse) buffer of the buffers that existed, whatever the operand layouts.

  Not proved here (covered by the harness correspondence only):
  * the statements above are about the pure kernels on window cell lists; the stateful wrappers
    (`readCap` / `writeCells` on the heap, the `allNoMat` dispatch of `stackDense`) are connected to
    them by definition only — there is no end-to-end theorem `abs (stackDense …) = laStack …`;
  * `viewStack_spec` takes "the iterator delivers the operand's logical elements in row-major order"
    as a hypothesis on the offset lists (C05's theorem for well-formed access patterns) instead of
    deriving it from the operands' access patterns;
  * `concat_spec` (`denseConcat` through `Dense.slice` + `assignArray`) and the frame property of
    `Concat`.
-/
namespace TM.C10
open TM TM.Asm

/-! ## shape calculators -/

/-- `shapeConcat` reads `AllAxes` exactly as it reads axis 0 (`if axis == AllAxes { axis = 0 }`). -/
theorem shapeConcat_allAxes (s : Shape) (ss : List Shape) : shapeConcat s (-1) ss = shapeConcat s 0 ss := by
  simp [shapeConcat]

/-- `Shape.Concat` = shape of S's `concatenate` for every axis argument, and it refuses — with an error,
    never a panic — exactly when S refuses. The axis is read as the library's interface defines it
    (`specConcatAxis`: `AllAxes` names the outermost axis, other negative numbers are no axes); since the
    operation normalises the axis the same way (F63 repaired) there is no excluded region any more. -/
theorem concat_shape (s : Shape) (axis : Int) (ss : List Shape) :
    Agrees (shapeConcat s axis ss) (specConcatShape axis (s :: ss)) := by
  by_cases h : axis = -1
  · subst h
    rw [shapeConcat_allAxes]
    have := shapeConcat_agrees s 0 ss (by decide)
    simpa [specConcatShape, specConcatAxis] using this
  · have := shapeConcat_agrees s axis ss h
    have hb : (axis == -1) = false := by simpa using h
    simp only [specConcatShape, specConcatAxis, hb, Bool.false_eq_true, if_false]
    by_cases hn : axis < 0
    · simpa [hn] using this
    · simpa [hn] using this

/-- non-vacuity: the former F63 witness — `(2,3)` and `(2,3)` along `AllAxes` give `(4,3)`, along `-2` an error;
    axis 1 gives `(2,6)`; differing off-axis extents are refused. -/
example : shapeConcat [2, 3] (-1) [[2, 3]] = .ok [4, 3] ∧ specConcatShape (-1) [[2, 3], [2, 3]] = some [4, 3] := ⟨rfl, rfl⟩
example : shapeConcat [2, 3] (-2) [[2, 3]] = .error (.err "invalidAxis") ∧ specConcatShape (-2) [[2, 3], [2, 3]] = none := ⟨rfl, rfl⟩
example : shapeConcat [2, 3] 1 [[2, 3]] = .ok [2, 6] ∧ specConcatShape 1 [[2, 3], [2, 3]] = some [2, 6] := ⟨rfl, rfl⟩
example : specConcatShape (-1) [[2, 3], [2, 4]] = none ∧ specConcatShape 0 [[2, 3], [2, 4]] = none := ⟨rfl, rfl⟩

/-- The head of `StackDense` (axis test, comparison of the operands' shapes, new shape) = shape of
    S's `stack`, refusing — with an error: negative axis, axis past the rank, an operand of another
    shape — exactly when S refuses. -/
theorem stack_shape (s : Shape) (axis : Int) (rest : List Shape) :
    Agrees (stackNewShape s axis rest) (if axis < 0 then none else stackShape axis.toNat (s :: rest)) :=
  stackNewShape_agrees s axis rest

/-- `Shape.Repeat` = shape of S's `repeat` wherever S has a verdict (rank ≥ 1, non-negative counts,
    not the library's `(n)`-along-axis-1 extension), refusing — with an error, also for an axis below
    `AllAxes` — exactly when S refuses. -/
theorem repeat_shape (sh : Shape) (axis : Int) (reps : List Int) (hnn : ∀ d ∈ sh, 0 ≤ d)
    (r : Option Shape) (hS : specRepeatShape sh axis reps = some r) :
    Agrees (Prod.fst <$> shapeRepeat sh axis reps) r :=
  shapeRepeat_agrees sh axis reps hnn r hS

/-! ## refinement of the block-copy paths -/

/-- `retVal.Info().Strides()[axis]` of the row-major stacked result is the size of one block of an
    operand: `∏ shape[axis:]`. -/
theorem stack_axisStride (s : Shape) (k : Nat) (n : Int) (h : k ≤ s.length) :
    idx (calcStrides (insertAt s k n)) (k : Int) "strides[axis]" = .ok (prod (s.drop k)) :=
  Asm.stack_axisStride s k n h

/-- The loop bounds and block lengths of `denseRepeat` (`ProdInts(t.Shape()[0:axis])`,
    `ProdInts(newShape[axis+1:])`) are the ones `repeat_spec` is stated for: `∏ shape[:axis]` outer
    passes over blocks of `∏ shape[axis+1:]` cells, whatever the counts sum to. -/
theorem repeat_params (sh : Shape) (k : Nat) (x : Int) (hk : k < sh.length) :
    repeatParams sh (sh.set k x) (k : Int) =
      .ok (prod (sh.take k), prod (sh.drop (k + 1)), prod (sh.drop (k + 1))) := by
  have hne : sh.isEmpty = false := by cases sh with | nil => simp at hk | cons _ _ => rfl
  have hax : ¬ ((k : Int) < 0 ∨ (k : Int) > (sh.length : Nat)) := by omega
  have hax2 : ¬ ((k : Int) + 1 < 0 ∨ (k : Int) + 1 > ((sh.set k x).length : Nat)) := by
    rw [List.length_set]; omega
  have hto : ((k : Int) + 1).toNat = k + 1 := by omega
  have hdrop : (sh.set k x).drop (k + 1) = sh.drop (k + 1) := by
    rw [List.set_eq_take_append_cons_drop, if_pos hk, List.drop_append]
    have h1 : (sh.take k).length = k := by simp; omega
    simp [h1]
  simp only [repeatParams, hne, Bool.false_eq_true, if_false, Bool.or_eq_true, decide_eq_true_eq, hax, hax2,
    Int.toNat_natCast, hto, hdrop, bind, Except.bind, pure, Except.pure]

/-- **Stacking, contiguous operands.** For operands of one shape `s` (every extent positive) given by
    their row-major listings, a new axis at any position `k ≤ rank`, and a destination of the right
    size: S's `stack` is defined, has shape `s` with `#operands` inserted at `k`, and its element list
    is what `denseSimpleStack` leaves in the destination — `case 0` for `k = 0`, the
    `axisStride`/`batches` loop nest otherwise. -/
theorem simpleStack_spec (s : Shape) (as : List (LA Val)) (k : Nat) (dst : List Val)
    (hpos : ∀ d ∈ s, 0 < d) (hk : k ≤ s.length) (hne : as ≠ [])
    (hwf : ∀ a ∈ as, a.shape = s ∧ a.elems.length = (prod s).toNat)
    (hdst : dst.length = as.length * (prod s).toNat) :
    ∃ E, laStack k as = some ⟨insertAt s k (as.length : Int), E⟩ ∧
      (if k = 0 then simpleStack0 dst (as.map (·.elems))
       else simpleStackLoop (prod (s.drop k)) (as.map (·.elems))
              (stackIters (goDiv dst.length (prod (s.drop k))) (as.map (·.elems)).length) 0 0 dst) = .ok E := by
  have hnn : ∀ d ∈ s, 0 ≤ d := fun d hd => Int.le_of_lt (hpos d hd)
  refine ⟨stackE k s (as.map (·.elems)), ?_, ?_⟩
  · -- S side
    rw [laStack_eq]
    have hshape : stackShape k (as.map (·.shape)) = some (insertAt s k (as.length : Int)) := by
      match as, hne with
      | a :: rest, _ =>
        have ha := (hwf a (by simp)).1
        have hrest : (rest.map (·.shape)).all (· == a.shape) = true := by
          simp only [List.all_map, List.all_eq_true, Function.comp, beq_iff_eq]
          intro x hx
          rw [(hwf x (by simp [hx])).1, ha]
        rw [ha] at hrest
        simp only [List.map_cons, stackShape, ha, hrest, Bool.and_true, decide_eq_true_eq, hk, if_true,
          List.length_map, List.length_cons, Int.natCast_add, Int.natCast_one]
    rw [hshape]
    simp only [Option.bind_some, tabulate_eq, stack_tab k s as hk hnn hwf, Option.map_some]
  · -- M side
    have hlen : ∀ x ∈ as.map (·.elems), x.length = (prod s).toNat := by
      intro x hx
      simp only [List.mem_map] at hx
      obtain ⟨a, ha, rfl⟩ := hx
      exact (hwf a ha).2
    by_cases hk0 : k = 0
    · subst hk0
      simp only [if_true, stackE]
      apply simpleStack0_spec
      rw [hdst]
      clear hdst hne hwf
      induction as with
      | nil => simp
      | cons a rest ih =>
        simp only [List.map_cons, List.flatten_cons, List.length_append, List.length_cons, Nat.succ_mul]
        rw [ih (fun x hx => hlen x (by simp only [List.map_cons, List.mem_cons]; exact Or.inr hx)),
          hlen a.elems (by simp)]
        omega
    · simp only [hk0, if_false]
      have hnnT : ∀ x ∈ s.take k, 0 ≤ x := fun x hx => hnn x (List.mem_of_mem_take hx)
      have hposD : ∀ x ∈ s.drop k, 0 < x := fun x hx => hpos x (List.mem_of_mem_drop hx)
      have hA : 0 < prod (s.drop k) := prod_pos _ hposD
      have hP : (prod s).toNat = (prod (s.take k)).toNat * (prod (s.drop k)).toNat := by
        rw [prod_take_drop k s, Int.toNat_mul (prod_nonneg _ hnnT) (Int.le_of_lt hA)]
      have hAc : prod (s.drop k) = (((prod (s.drop k)).toNat : Nat) : Int) := by
        rw [Int.toNat_of_nonneg (Int.le_of_lt hA)]
      have hN : 0 < as.length := by
        cases as with
        | nil => exact absurd rfl hne
        | cons _ _ => simp
      have hd' : dst.length = (prod (s.take k)).toNat * (as.length * (prod (s.drop k)).toNat) := by
        rw [hdst, hP, Nat.mul_left_comm]
      rw [hAc, hd', List.length_map, stackIters_eq as.length _ _ hN (by omega)]
      have := simpleStackLoop_spec (prod (s.drop k)).toNat (as.map (·.elems)) (prod (s.take k)).toNat 0 [] dst
        (by intro x hx; rw [hlen x hx, hP]; simp)
        (by rw [List.length_map, hd']; exact Nat.le_refl _)
      simp only [Nat.zero_mul, List.length_nil, List.nil_append, List.length_map] at this
      rw [show ((0 : Nat) : Int) = 0 by rfl] at this
      rw [this, stackE_interleave k s _ hk hnn hlen]
      have : dst.drop ((prod (s.take k)).toNat * (as.length * (prod (s.drop k)).toNat)) = [] :=
        List.drop_eq_nil_of_le (by rw [hd']; exact Nat.le_refl _)
      rw [this, List.append_nil]

/-- **Stacking, operands of any layout.** As `simpleStack_spec`, for the iterator-driven path
    (`denseViewStack` / `doViewStack*`): every operand is given by its storage cells and the offsets
    its iterator delivers; if these offsets are inside the window and deliver the operand's logical
    elements in row-major order (what C05 shows for every well-formed access pattern), the cells
    appended to the result are the element list of S's `stack` — for every rank, axis position,
    operand count and both the sized and the arbitrary-size kernels. -/
theorem viewStack_spec (s : Shape) (as : List (LA Val)) (k : Nat) (dst : List Val) (srcs : List VSrc) (szd : Bool)
    (hpos : ∀ d ∈ s, 0 < d) (hk : k ≤ s.length) (hne : as ≠ [])
    (hwf : ∀ a ∈ as, a.shape = s ∧ a.elems.length = (prod s).toNat)
    (hdst : dst.length = as.length * (prod s).toNat)
    (hvalid : ∀ v ∈ srcs, v.valid) (hlist : srcs.map VSrc.listing = as.map (·.elems)) :
    ∃ E data, laStack k as = some ⟨insertAt s k (as.length : Int), E⟩ ∧
      viewStackLoop szd (prod (s.drop k)).toNat (goDiv dst.length (prod (s.drop k))).toNat srcs [] = .ok data ∧
      blit dst 0 (data.take dst.length) = E := by
  obtain ⟨E, hS, hM⟩ := simpleStack_spec s as k dst hpos hk hne hwf hdst
  have hnn : ∀ d ∈ s, 0 ≤ d := fun d hd => Int.le_of_lt (hpos d hd)
  have hnnT : ∀ x ∈ s.take k, 0 ≤ x := fun x hx => hnn x (List.mem_of_mem_take hx)
  have hposD : ∀ x ∈ s.drop k, 0 < x := fun x hx => hpos x (List.mem_of_mem_drop hx)
  have hA : 0 < prod (s.drop k) := prod_pos _ hposD
  have hP : (prod s).toNat = (prod (s.take k)).toNat * (prod (s.drop k)).toNat := by
    rw [prod_take_drop k s, Int.toNat_mul (prod_nonneg _ hnnT) (Int.le_of_lt hA)]
  have hlen : ∀ x ∈ as.map (·.elems), x.length = (prod s).toNat := by
    intro x hx
    simp only [List.mem_map] at hx
    obtain ⟨a, ha, rfl⟩ := hx
    exact (hwf a ha).2
  -- S's element list in interleaved form
  have hE : E = interleave (prod (s.drop k)).toNat (as.map (·.elems)) 0 (prod (s.take k)).toNat := by
    have h2 : laStack k as = some ⟨insertAt s k (as.length : Int), stackE k s (as.map (·.elems))⟩ := by
      obtain ⟨E', hS', _⟩ := simpleStack_spec s as k dst hpos hk hne hwf hdst
      rw [laStack_eq] at hS' ⊢
      cases hsh : stackShape k (as.map (·.shape)) with
      | none => simp [hsh] at hS'
      | some sh =>
        simp only [hsh, Option.bind_some, tabulate_eq] at hS' ⊢
        cases htab : tabE sh (stackF k as) with
        | none => simp [htab] at hS'
        | some es =>
          simp only [htab, Option.map_some, Option.some.injEq, LA.mk.injEq] at hS'
          obtain ⟨rfl, _⟩ := hS'
          rw [stack_tab k s as hk hnn hwf] at htab
          simp only [Option.some.injEq] at htab
          simp [htab]
    have := hS.symm.trans h2
    simp only [Option.some.injEq, LA.mk.injEq, true_and] at this
    rw [this, stackE_interleave k s _ hk hnn hlen]
  -- number of passes
  have hd' : dst.length = (as.length * (prod (s.take k)).toNat) * (prod (s.drop k)).toNat := by
    rw [hdst, hP, Nat.mul_assoc]
  have hAc : prod (s.drop k) = (((prod (s.drop k)).toNat : Nat) : Int) := by
    rw [Int.toNat_of_nonneg (Int.le_of_lt hA)]
  have hb0 : (goDiv dst.length (prod (s.drop k))).toNat = as.length * (prod (s.take k)).toNat := by
    have : goDiv (dst.length : Int) (prod (s.drop k)) =
        goDiv (((as.length * (prod (s.take k)).toNat) * (prod (s.drop k)).toNat : Nat) : Int)
          (((prod (s.drop k)).toNat : Nat) : Int) := by
      rw [hd']; congr 1
    rw [this, goDiv_mul_toNat _ _ (by omega)]
  have hb : (goDiv dst.length (prod (s.drop k))).toNat =
      (prod (s.take k)).toNat + (as.length * (prod (s.take k)).toNat - (prod (s.take k)).toNat) := by
    rw [hb0]
    have hN : 1 ≤ as.length := by
      cases as with
      | nil => exact absurd rfl hne
      | cons _ _ => simp
    have : (prod (s.take k)).toNat ≤ as.length * (prod (s.take k)).toNat := Nat.le_mul_of_pos_left _ hN
    omega
  have hdrop0 : srcs.map (fun v : VSrc => { v with offs := v.offs.drop (0 * (prod (s.drop k)).toNat) }) = srcs := by
    rw [List.map_congr_left (g := id)]
    · simp
    · intro v _; cases v; simp
  have hloop := viewStackLoop_spec szd (prod (s.drop k)).toNat (goDiv dst.length (prod (s.drop k))).toNat 0 srcs [] hvalid
  rw [hdrop0, hlist, List.nil_append, hb, interleave_extra _ _ _ _ (by
    intro x hx; rw [hlen x hx, hP]; exact Nat.le_refl _)] at hloop
  refine ⟨E, interleave (prod (s.drop k)).toNat (as.map (·.elems)) 0 (prod (s.take k)).toNat, hS, ?_, ?_⟩
  · rw [hb]; exact hloop
  · rw [← hE]
    have hEl : E.length = dst.length := by
      rw [hE, interleave_length _ _ _ 0 (by intro x hx; rw [hlen x hx, hP]; simp), List.length_map, hdst, hP]
      rw [Nat.mul_left_comm]
    rw [← hEl, List.take_length]
    have := blit_append [] dst E
    simp only [List.nil_append, List.length_nil] at this
    rw [this, List.drop_eq_nil_of_le (by omega), List.append_nil]

/-- **Repetition, contiguous source.** For a source of shape `sh` (every extent positive) given by its
    row-major listing, an axis `k < rank`, one count per entry of the axis (zeros allowed) and a
    destination of the right size: S's `repeat` is defined, has shape `sh[k ↦ Σ counts]`, and its
    element list is what the `outers × size × repeats` loop nest of `fastCopyDenseRepeat` — called with
    the block lengths `stride = newStride = ∏ sh[k+1:]` (`repeat_params`) — leaves in the
    destination. -/
theorem repeat_spec (sh : Shape) (k : Nat) (reps : List Nat) (e dst : List Val)
    (hpos : ∀ d ∈ sh, 0 < d) (hk : k < sh.length) (hr : reps.length = (sh[k]?.getD 0).toNat)
    (he : e.length = (prod sh).toNat) (hd : dst.length = (prod (sh.set k (sumN reps : Int))).toNat) :
    ∃ E, laRepeat ⟨sh, e⟩ k reps = some ⟨sh.set k (sumN reps : Int), E⟩ ∧
      fastRepeat e e.length dst.length (prod (sh.drop (k + 1))) (prod (sh.drop (k + 1)))
        (reps.map Int.ofNat) (prod (sh.take k)).toNat 0 0 dst = .ok E := by
  have hnn : ∀ d ∈ sh, 0 ≤ d := fun d hd => Int.le_of_lt (hpos d hd)
  have hk0 : 0 ≤ sh[k]?.getD 0 := by
    rw [List.getElem?_eq_getElem hk]; exact hnn _ (List.getElem_mem hk)
  refine ⟨repE k sh reps e, ?_, ?_⟩
  · rw [laRepeat_eq]
    have hshape : repeatShape sh k reps = some (sh.set k (sumN reps : Int)) := by
      rw [repeatShape_eq sh k reps hk, if_pos]
      rw [hr, Int.toNat_of_nonneg hk0]
    simp only [hshape, Option.bind_some, tabulate_eq, rep_tab k sh reps e hk hnn he hr, Option.map_some]
  · have hnnT : ∀ x ∈ sh.take k, 0 ≤ x := fun x hx => hnn x (List.mem_of_mem_take hx)
    have hposD : ∀ x ∈ sh.drop (k + 1), 0 < x := fun x hx => hpos x (List.mem_of_mem_drop hx)
    have hB : 0 < prod (sh.drop (k + 1)) := prod_pos _ hposD
    have hBc : prod (sh.drop (k + 1)) = (((prod (sh.drop (k + 1))).toNat : Nat) : Int) := by
      rw [Int.toNat_of_nonneg (Int.le_of_lt hB)]
    have hE : e.length = (prod (sh.take k)).toNat * (reps.length * (prod (sh.drop (k + 1))).toNat) := by
      rw [he, prod_take_drop k sh, prod_drop_getElem sh k hk,
        Int.toNat_mul (prod_nonneg _ hnnT) (Int.mul_nonneg hk0 (Int.le_of_lt hB)),
        Int.toNat_mul hk0 (Int.le_of_lt hB), hr]
    have hD : dst.length = (prod (sh.take k)).toNat * (sumN reps * (prod (sh.drop (k + 1))).toNat) := by
      rw [hd, prod_set sh k _ hk,
        Int.toNat_mul (prod_nonneg _ hnnT) (Int.mul_nonneg (Int.natCast_nonneg _) (Int.le_of_lt hB)),
        Int.toNat_mul (Int.natCast_nonneg _) (Int.le_of_lt hB)]
      simp
    have := fastRepeat_spec e (prod (sh.drop (k + 1))).toNat reps (by omega) (prod (sh.take k)).toNat 0 [] dst
      dst.length (by simp) (by rw [hE]; simp) (by rw [hD]; exact Nat.le_refl _)
    simp only [Nat.zero_mul, List.length_nil, List.nil_append] at this
    rw [show ((0 : Nat) : Int) = 0 by rfl] at this
    rw [hBc, this, repE_repM k sh reps e hk hnn he hr]
    have : dst.drop ((prod (sh.take k)).toNat * (sumN reps * (prod (sh.drop (k + 1))).toNat)) = [] :=
      List.drop_eq_nil_of_le (by rw [hD]; exact Nat.le_refl _)
    rw [this, List.append_nil]

/-! ## operands are left unchanged -/

/-- `Stack` (model of `StackDense`, any operand layouts) writes only the storage of its fresh result:
    every buffer that existed before the call — the operands' and the parents' of views — is cell
    for cell what it was; the operands' metadata are not touched (the function returns no operand). -/
theorem stack_frame (st st' : St) (t d : Dense) (axis : Int) (others : List Dense)
    (h : stackDense st t axis others = .ok (st', d)) :
    d.win.buf = st.heap.size ∧ ∀ b, b < st.heap.size → st'.heap[b]? = st.heap[b]? :=
  stackDense_frame st st' t d axis others h

/-- The same for `Repeat` (model of `StdEng.Repeat`): only the fresh result buffer is written. -/
theorem repeat_frame (st st' : St) (t d : Dense) (axis : Int) (reps : List Int)
    (h : repeatNew st t axis reps = .ok (st', d)) :
    d.win.buf = st.heap.size ∧ ∀ b, b < st.heap.size → st'.heap[b]? = st.heap[b]? :=
  repeatNew_frame st st' t d axis reps h

/-- `RepeatReuse`, whatever the layouts of the source and of the reuse tensor: of the buffers that existed
    before the call only the reuse tensor's is written, and none disappears (temporaries are new buffers). -/
theorem repeatReuse_frame (st st' : St) (t reuse : Dense) (axis : Int) (reps : List Int)
    (h : repeatReuse st t reuse axis reps = .ok st') :
    st.heap.size ≤ st'.heap.size ∧
      ∀ b, b < st.heap.size → b ≠ reuse.win.buf → st'.heap[b]? = st.heap[b]? :=
  Asm.repeatReuse_frame st st' t reuse axis reps h

/-! ## sources and reuse tensors of any layout -/

/-- A source whose storage window is the row-major listing of its elements is read in place. -/
theorem repeat_source_rowmajor (st : St) (t : Dense) (h : storedRowMajor t = true) :
    repeatSource st t = .ok (st, t) := by
  simp [repeatSource, h, pure, Except.pure]

/-- **Repetition reads any other source by coordinate.** A source that is not stored as its row-major listing —
    a non-contiguous or stepped view, a tensor with a pending transpose, column-major data; any rank, any
    strides, unmasked — is replaced by a tensor of the same shape in a buffer that did not exist before, stored
    in row-major order, which holds at every coordinate `c` (its own row-major address) the source's element at
    `c` (the source's strided address); no cell that existed before is changed. The block loops
    (`repeat_spec`) then run on that listing. -/
theorem repeat_source_by_coordinate (st st' : St) (t r : Dense)
    (hst : storedRowMajor t = false) (hnm : t.mask = none) (hlen0 : t.win.len ≠ 0)
    (hl : t.ap.strides.length = t.ap.shape.length) (hp : ∀ d ∈ t.ap.shape, 0 < d)
    (hcap : t.win.len ≤ t.win.cap) (hbuf : t.win.buf < st.heap.size)
    (hr : ∀ c ∈ allCoords t.ap.shape, 0 ≤ dot c t.ap.strides ∧ dot c t.ap.strides < (t.win.len : Int))
    (hs : Has st t.win.buf t.win.off t.win.len)
    (h : repeatSource st t = .ok (st', r)) :
    r.ap.shape = t.ap.shape ∧ storedRowMajor r = true ∧
    r.win = ⟨st.heap.size, 0, (prod t.ap.shape).toNat, (prod t.ap.shape).toNat⟩ ∧
    (∀ c ∈ allCoords t.ap.shape,
      TM.cell st' st.heap.size (rowRank t.ap.shape c).toNat =
        some (TM.cellD st t.win.buf (t.win.off + (dot c t.ap.strides).toNat))) ∧
    (∀ b' k', b' < st.heap.size → TM.cell st' b' k' = TM.cell st b' k') := by
  have hnn : (t.shape.any (· < 0)) = false := by
    simp only [Dense.shape, List.any_eq_false, decide_eq_true_eq]
    intro d hd; have := hp d hd; omega
  unfold repeatSource recycled at h
  simp only [hst, Bool.false_eq_true, if_false, hnn, bind, Except.bind, Dense.fresh, St.alloc] at h
  generalize hr0 : (Dense.mk _ _ _ _ _ _ _ _ _) = r0 at h
  have hsh0 : r0.ap.shape = t.ap.shape := by rw [← hr0]; rfl
  have hstr0 : r0.ap.strides = calcStrides t.ap.shape := by rw [← hr0]; rfl
  have hwin0 : r0.win = ⟨st.heap.size, 0, (prod t.ap.shape).toNat, (prod t.ap.shape).toNat⟩ := by
    rw [← hr0]; simp [Dense.shape, totalSize]
  have hflags0 : r0.ap.o.nonContig = false ∧ r0.ap.o.col = false ∧ r0.old = none := by
    rw [← hr0]; exact ⟨rfl, rfl, rfl⟩
  -- the iterator path: the source needs its iterator, or its data order is not the temporary's
  have hfast : (!r0.requiresIterator && !t.requiresIterator && Dense.sameOrder r0 t) = false := by
    have hst' := hst
    simp only [storedRowMajor, Bool.or_eq_false_iff, Bool.and_eq_false_iff, beq_eq_false_iff_ne, ne_eq] at hst'
    obtain ⟨hl1, hrest⟩ := hst'
    have hl1' : (t.win.len == 1) = false := by simpa using hl1
    rcases hrest with (hnc | hcol) | hold
    · simp [Dense.requiresIterator, hl1', hnc]
    · simp [Dense.sameOrder, hflags0.2.1, hcol]
    · have : t.old.isSome = true := by cases ho : t.old <;> simp_all
      simp [Dense.requiresIterator, hl1', this]
  obtain ⟨hrr, hv, hf⟩ := freshCopy_by_coordinate st st' t r0 r hsh0 hstr0 hwin0 hfast hnm hlen0 hl hp hcap hbuf hr hs
    (by simpa [Dense.shape, totalSize] using h)
  subst hrr
  exact ⟨hsh0, by simp [storedRowMajor, hflags0.1, hflags0.2.1, hflags0.2.2], hwin0, hv, hf⟩

/-- `RepeatReuse` into a reuse tensor that is not stored in row-major order (and has the source's element
    type, no mask, the shape of the result): the repetition is carried out into a fresh row-major temporary,
    which `copyDenseIter` then hands to the reuse tensor. -/
theorem repeatReuse_via_temporary (st : St) (t reuse : Dense) (axis : Int) (reps : List Int)
    (newShape : Shape) (newReps : List Int) (size : Int)
    (hS : shapeRepeat t.shape axis reps = .ok (newShape, newReps, size))
    (heq : shapeEq reuse.shape newShape = true) (hst : storedRowMajor reuse = false)
    (hnm : reuse.mask = none) (hdt : reuse.dt = t.dt) :
    repeatReuse st t reuse axis reps = (do
      let (st, tmp) ← recycled st t.dt newShape
      let st ← denseRepeat st t tmp newShape (if axis == -1 then 0 else axis) size newReps
      let (st, _) ← Dense.copyDenseIter st reuse tmp
      pure st) := by
  unfold repeatReuse
  simp only [hS, heq, hst, hnm, bind, Except.bind, Bool.not_true, Bool.not_false, Bool.false_eq_true, if_false,
    if_true, Option.isSome_none]
  cases hrec : recycled st t.dt newShape with
  | error e => rfl
  | ok x =>
    obtain ⟨s0, tmp⟩ := x
    have hdt' : tmp.dt = t.dt := by
      unfold recycled at hrec
      split at hrec
      · simp [throwPanic] at hrec
      · simp only [Dense.fresh, St.alloc, Except.ok.injEq, Prod.mk.injEq] at hrec
        obtain ⟨_, rfl⟩ := hrec
        rfl
    simp only [hdt, hdt', bne_self_eq_false, Bool.false_eq_true, if_false]

/-- **The reuse tensor is filled by coordinate.** The last step of `repeatReuse_via_temporary`: for a reuse
    tensor of any well-formed layout that is not stored in row-major order and a row-major temporary of the same
    shape in another buffer, the reuse tensor's own cell of every coordinate `c` receives the temporary's
    element `c`; no other cell of any buffer changes — in particular no cell of the reuse tensor's parent
    outside the view. -/
theorem repeatReuse_fill_by_coordinate (st : St) (reuse tmp : Dense) (sh : Shape)
    (hst : storedRowMajor reuse = false)
    (hsd : reuse.ap.shape = sh) (hss : tmp.ap.shape = sh) (hstr : tmp.ap.strides = calcStrides sh)
    (hcol : tmp.ap.o.col = false) (hnm : tmp.isMasked = false)
    (hld : reuse.ap.strides.length = sh.length)
    (hp : ∀ d ∈ sh, 0 < d) (hne : reuse.win.buf ≠ tmp.win.buf)
    (hcd : reuse.win.len ≤ reuse.win.cap) (hcs : tmp.win.len ≤ tmp.win.cap) (htl : (prod sh).toNat ≤ tmp.win.len)
    (hrd : ∀ c ∈ allCoords sh, 0 ≤ dot c reuse.ap.strides ∧ dot c reuse.ap.strides < (reuse.win.len : Int))
    (hinj : ((allCoords sh).map (fun c => dot c reuse.ap.strides)).Nodup)
    (hd : Has st reuse.win.buf reuse.win.off reuse.win.len) (hs : Has st tmp.win.buf tmp.win.off tmp.win.len) :
    ∃ st', Dense.copyDenseIter st reuse tmp = .ok (st', reuse) ∧
      (∀ c ∈ allCoords sh,
        TM.cell st' reuse.win.buf (reuse.win.off + (dot c reuse.ap.strides).toNat) =
          some (TM.cellD st tmp.win.buf (tmp.win.off + (rowRank sh c).toNat))) ∧
      (∀ b' k', (b' ≠ reuse.win.buf ∨ ∀ c ∈ allCoords sh, k' ≠ reuse.win.off + (dot c reuse.ap.strides).toNat) →
        TM.cell st' b' k' = TM.cell st b' k') := by
  have hrs : ∀ c ∈ allCoords sh, 0 ≤ dot c tmp.ap.strides ∧ dot c tmp.ap.strides < (tmp.win.len : Int) := by
    intro c hc
    rw [hstr]
    have hb := rowRank_bounds' sh c (C17compat.allCoords_inBox _ _ hc)
    unfold rowRank at hb
    have hpp : 0 ≤ prod sh := by omega
    omega
  obtain ⟨st', h1, _, hv, hf⟩ := copyIterOffsets_by_coordinate st reuse tmp sh hsd hss hld
    (by rw [hstr, calcStrides_length]) hp hne hcd hcs hrd hrs hinj hd hs
  refine ⟨st', ?_, ?_, hf⟩
  · have hfast : (!reuse.requiresIterator && !tmp.requiresIterator && Dense.sameOrder reuse tmp) = false := by
      have hst' := hst
      simp only [storedRowMajor, Bool.or_eq_false_iff, Bool.and_eq_false_iff, beq_eq_false_iff_ne, ne_eq] at hst'
      obtain ⟨hl1, hrest⟩ := hst'
      have hl1' : (reuse.win.len == 1) = false := by simpa using hl1
      rcases hrest with (hnc | hc) | hold
      · simp [Dense.requiresIterator, hl1', hnc]
      · simp [Dense.sameOrder, hcol, hc]
      · have : reuse.old.isSome = true := by cases ho : reuse.old <;> simp_all
        simp [Dense.requiresIterator, hl1', this]
    unfold Dense.copyDenseIter
    simp only [hfast, Bool.false_eq_true, if_false, bind, Except.bind, h1, Dense.copyMaskIter, hnm, Bool.not_false,
      if_true, pure, Except.pure]
  · intro c hc
    have := hv c hc
    rw [hstr] at this
    exact this

/-! ## non-vacuity -/

example : ∃ E, laStack 1 [⟨[2, 2], [Val.src 0 0, .src 0 1, .src 0 2, .src 0 3]⟩,
      ⟨[2, 2], [Val.src 1 0, .src 1 1, .src 1 2, .src 1 3]⟩] = some ⟨[2, 2, 2], E⟩ ∧
    E.length = 8 := ⟨_, rfl, rfl⟩

example : (laRepeat (⟨[2, 2], [10, 11, 12, 13]⟩ : LA Nat) 0 [2, 0]).map (·.elems) = some [10, 11, 10, 11] := by
  decide

example : (laConcat 1 [(⟨[2, 1], [1, 2]⟩ : LA Nat), ⟨[2, 2], [3, 4, 5, 6]⟩]).map (·.elems) =
    some [1, 3, 4, 2, 5, 6] := by decide

/-- the stepped view `a[0:6:2]` of a six-element vector (window of five cells, stride 2) meets the hypotheses of
    `repeat_source_by_coordinate`; `Repeat` along axis 0, twice, returns the view's elements `a0 a0 a2 a2 a4 a4`
    (finding F64: the raw window `a0 a1 a2 …` used to be read) and leaves the parent as it was -/
def rvSt : St := { heap := #[#[.src 0 0, .src 0 1, .src 0 2, .src 0 3, .src 0 4, .src 0 5]] }
def rvView : Dense := { ap := { shape := [3], strides := [2], fin := true, o := { nonContig := true } },
                        win := ⟨0, 0, 5, 5⟩, dt := "i16", view := true }
example : storedRowMajor rvView = false ∧ rvView.mask = none ∧
    (allCoords rvView.ap.shape).all (fun c => decide (0 ≤ dot c rvView.ap.strides) && decide (dot c rvView.ap.strides < 5)) = true ∧
    (match repeatNew rvSt rvView 0 [2] with
     | .ok (s, d) => d.shape == [6] && s.heap[d.win.buf]? == some #[.src 0 0, .src 0 0, .src 0 2, .src 0 2, .src 0 4, .src 0 4]
         && s.heap[0]? == rvSt.heap[0]?
     | _ => false) = true := by decide

/-- a reuse tensor that is a stepped view (`r[0:7:2]`, four elements over a window of seven cells) meets the
    hypotheses of `repeatReuse_via_temporary` / `repeatReuse_fill_by_coordinate`: the repeated elements land in
    the view's own cells, the parent's cells between them keep their content (finding F67: the first four raw
    cells used to be written) -/
def rrSt : St := { heap := #[#[.src 0 0, .src 0 1],
                            #[.src 1 0, .src 1 1, .src 1 2, .src 1 3, .src 1 4, .src 1 5, .src 1 6]] }
def rrSrc : Dense := { ap := { shape := [2], strides := [1], fin := true }, win := ⟨0, 0, 2, 2⟩, dt := "i16" }
def rrReuse : Dense := { ap := { shape := [4], strides := [2], fin := true, o := { nonContig := true } },
                         win := ⟨1, 0, 7, 7⟩, dt := "i16", view := true }
example : storedRowMajor rrReuse = false ∧ storedRowMajor rrSrc = true ∧
    (match repeatReuse rrSt rrSrc rrReuse 0 [2] with
     | .ok s => s.heap[1]? == some #[.src 0 0, .src 1 1, .src 0 0, .src 1 3, .src 0 1, .src 1 5, .src 0 1]
         && s.heap[0]? == rrSt.heap[0]?
     | _ => false) = true := by decide

end TM.C10
