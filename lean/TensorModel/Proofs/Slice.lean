import TensorModel.Run
/-! Helper lemmas for C02 (slicing). -/
namespace TM

/-- closed form of `sliceDetails` on a non-nil slice -/
theorem sliceDetails_some (s : Sl) (d : Int) :
    sliceDetails (some s) d =
      if s.start > s.stop ∨ s.start < 0 ∨ s.start ≥ d ∨ (s.step = 0 ∧ s.stop - s.start > 1) then
        (if s.start > s.stop then throwErr "invalidSliceIndex start>end"
         else if s.start < 0 then throwErr "invalidSliceIndex start<0"
         else if s.step = 0 ∧ s.stop - s.start > 1 then throwErr "zero step"
         else throwErr "start>=size")
      else .ok (s.start, min s.stop d, s.step) := by
  simp only [sliceDetails, Bool.and_eq_true, beq_iff_eq, decide_eq_true_eq]
  by_cases h1 : s.start > s.stop
  · simp [h1]
  by_cases h2 : s.start < 0
  · simp [h1, h2]
  by_cases h3 : s.step = 0 ∧ s.stop - s.start > 1
  · simp [h1, h2, h3]
  by_cases h4 : s.start ≥ d
  · simp [h1, h2, h3, h4]
  have hc : ¬ (s.start > s.stop ∨ s.start < 0 ∨ s.start ≥ d ∨ (s.step = 0 ∧ s.stop - s.start > 1)) := by
    intro h; rcases h with h | h | h | h <;> contradiction
  rw [if_neg h1, if_neg h2, if_neg h3, if_neg h4, if_neg hc]
  have hm : (if s.stop > d then d else s.stop) = min s.stop d := by
    split <;> omega
  rw [hm]

def axisN (i : Nat) (start stop step : Int) : Int :=
  if step > 0 then
    let q := goDiv (stop - start) step
    let q := if goMod (stop - start) step > 0 && i > 0 then q + 1 else q
    if q ≤ 0 then 1 else q
  else stop - start

theorem sliceAxis_ok (isVec : Bool) (od i : Nat) (size stride : Int) (sl : Option Sl) (r : AxisRes)
    (start stop step : Int)
    (hd : sliceDetails sl size = .ok (start, stop, step))
    (h : sliceAxis isVec od i size stride sl = .ok r) :
    r.dStart = start * stride ∧ r.stride = (if step > 0 then stride * step else stride) ∧
    r.n = axisN i start stop step := by
  simp only [sliceAxis, hd, bind, Except.bind, pure, Except.pure] at h
  injection h with h
  subst h
  unfold axisN
  by_cases hs : step > 0
  · simp [hs]
  · simp [hs]

theorem sliceAxis_details (isVec : Bool) (od i : Nat) (size stride : Int) (sl : Option Sl) (r : AxisRes)
    (h : sliceAxis isVec od i size stride sl = .ok r) :
    ∃ start stop step, sliceDetails sl size = .ok (start, stop, step) := by
  cases hd : sliceDetails sl size with
  | error e => simp [sliceAxis, hd, bind, Except.bind] at h
  | ok v => exact ⟨v.1, v.2.1, v.2.2, rfl⟩

theorem sliceAxis_addr' (isVec : Bool) (od i : Nat) (size stride : Int) (sl : Option Sl) (r : AxisRes)
    (start stop step : Int)
    (hd : sliceDetails sl size = .ok (start, stop, step))
    (h : sliceAxis isVec od i size stride sl = .ok r) (c : Int) :
    r.dStart + c * r.stride = (start + c * (if step > 0 then step else 1)) * stride := by
  obtain ⟨h1, h2, -⟩ := sliceAxis_ok isVec od i size stride sl r start stop step hd h
  rw [h1, h2]
  split
  · rw [Int.add_mul, Int.mul_assoc, Int.mul_comm step stride]
  · rw [Int.add_mul, Int.mul_one]

theorem ceil_div_aux (D step : Int) (hs : 0 < step) :
    (D + step - 1) / step = if D % step > 0 then D / step + 1 else D / step := by
  have hdm := Int.mul_ediv_add_emod D step
  have h0 := Int.emod_nonneg D (Int.ne_of_gt hs)
  have h1 := Int.emod_lt_of_pos D hs
  split
  · have : D + step - 1 = (D % step - 1) + step * (D / step + 1) := by
      rw [Int.mul_add]; omega
    rw [this, Int.add_mul_ediv_left _ _ (Int.ne_of_gt hs), Int.ediv_eq_zero_of_lt (by omega) (by omega)]
    omega
  · have : D + step - 1 = (step - 1) + step * (D / step) := by omega
    rw [this, Int.add_mul_ediv_left _ _ (Int.ne_of_gt hs), Int.ediv_eq_zero_of_lt (by omega) (by omega)]
    omega

theorem axisN_len (i : Nat) (start stop step : Int) (hstep : step > 0) (hlt : start < stop)
    (hx : i > 0 ∨ (stop - start) % step = 0) :
    axisN i start stop step = (stop - start + step - 1) / step := by
  have hD : 0 < stop - start := by omega
  unfold axisN
  generalize stop - start = D at *
  have hq : goDiv D step = D / step := by
    unfold goDiv; exact Int.tdiv_eq_ediv_of_nonneg (by omega)
  have hm : goMod D step = D % step := by
    unfold goMod; exact Int.tmod_eq_emod_of_nonneg (by omega)
  have hdm := Int.mul_ediv_add_emod D step
  have h0 := Int.emod_nonneg D (Int.ne_of_gt hstep)
  have hqpos : D % step = 0 → 0 < D / step := by
    intro hz
    rw [hz] at hdm
    have : 0 < step * (D / step) := by omega
    exact Int.pos_of_mul_pos_right this (by omega)
  have hqnn : 0 ≤ D / step := Int.ediv_nonneg (by omega) (by omega)
  rw [ceil_div_aux D step hstep]
  simp only [hstep, if_true, hq, hm, Bool.and_eq_true, decide_eq_true_eq]
  by_cases hr : D % step > 0
  · have hi : i > 0 := by omega
    simp only [hr, hi, and_self, if_true]
    rw [if_neg (by omega)]
  · simp only [hr, false_and, if_false]
    rw [if_neg (by have := hqpos (by omega); omega)]

/-- effective (start, step) of one axis -/
def selAxis (sl : Option Sl) (d : Int) : Int × Int :=
  match sliceDetails sl d with
  | .ok (st, _, sp) => (st, if sp > 0 then sp else 1)
  | .error _ => (0, 1)

theorem apSLoop_addr' (isVec : Bool) (od : Nat) (sel : List (Option Sl) → Shape → List (Int × Int))
    (hnil : ∀ sls, sel sls [] = [])
    (hcons : ∀ sls d ds, sel sls (d :: ds) = selAxis sls.head?.join d :: sel sls.tail ds)
    (shape : Shape) (strides : List Int) (sls : List (Option Sl))
    (rs : List AxisRes) (i : Nat) (h : apSLoop isVec od i shape strides sls = .ok rs)
    (c : List Int) (hc : c.length = shape.length) :
    rs.length = shape.length ∧
    sumI (rs.map (·.dStart)) + dot c (rs.map (·.stride)) =
      dot (List.zipWith (fun (p : Int × Int) ci => p.1 + ci * p.2) (sel sls shape) c) strides := by
  induction shape generalizing strides sls i rs c with
  | nil =>
    simp only [apSLoop] at h
    injection h with h
    subst h
    cases c with
    | nil => simp [hnil, sumI, dot]
    | cons _ _ => simp at hc
  | cons d ds ih =>
    cases strides with
    | nil => simp [apSLoop, throwPanic] at h
    | cons stride strides =>
      simp only [apSLoop, bind, Except.bind, pure, Except.pure] at h
      cases hr : sliceAxis isVec od i d stride sls.head?.join with
      | error e => simp [hr] at h
      | ok r =>
        cases hrs : apSLoop isVec od (i + 1) ds strides sls.tail with
        | error e => simp [hr, hrs] at h
        | ok rs' =>
          simp only [hr, hrs] at h
          injection h with h
          subst h
          cases c with
          | nil => simp at hc
          | cons c0 cs =>
            have hcs : cs.length = ds.length := by simpa using hc
            obtain ⟨hl, ha⟩ := ih strides sls.tail rs' (i + 1) hrs cs hcs
            obtain ⟨st, e, sp, hd⟩ := sliceAxis_details isVec od i d stride _ r hr
            have h0 := sliceAxis_addr' isVec od i d stride _ r st e sp hd hr c0
            refine ⟨by simp [hl], ?_⟩
            rw [hcons]
            simp only [List.map_cons, sumI, dot, List.zipWith_cons_cons, selAxis, hd]
            rw [← ha, ← h0]
            omega

theorem drop_axis_addr' (strides : List Int) (keep : List Bool) (c : List Int)
    (hl : c.length = strides.length) (hk : keep.length = c.length)
    (hz : ∀ k : Nat, keep[k]? = some false → c[k]? = some 0) :
    dot c strides =
      dot ((c.zip keep).filterMap (fun (x, b) => if b then some x else none))
          ((strides.zip keep).filterMap (fun (x, b) => if b then some x else none)) := by
  induction c generalizing strides keep with
  | nil => simp [dot]
  | cons c0 cs ih =>
    cases strides with
    | nil => simp at hl
    | cons s ss =>
      cases keep with
      | nil => simp at hk
      | cons b bs =>
        have hl' : cs.length = ss.length := by simpa using hl
        have hk' : bs.length = cs.length := by simpa using hk
        have hz' : ∀ k : Nat, bs[k]? = some false → cs[k]? = some 0 := by
          intro k hk; simpa using hz (k + 1) (by simpa using hk)
        have := ih ss bs hl' hk' hz'
        cases b with
        | true => simp [dot, this]
        | false =>
          have h0 : c0 = 0 := by simpa using hz 0 (by simp)
          simp [dot, this, h0]

theorem slice_shares' (t v : Dense) (sls : List (Option Sl)) (h : t.slice sls = .ok v) :
    v.win.buf = t.win.buf ∧ t.win.off ≤ v.win.off ∧ v.win.off + v.win.len ≤ t.win.off + t.win.cap ∧ v.view = true := by
  unfold Dense.slice at h
  simp only [bind, Except.bind, pure, Except.pure] at h
  cases hS : t.ap.S t.win.len sls with
  | error e => simp [hS] at h
  | ok res =>
    obtain ⟨nap, ndStart, ndEnd⟩ := res
    simp only [hS] at h
    split at h
    · simp [throwPanic] at h
    · rename_i hb
      simp only [Bool.or_eq_true, decide_eq_true_eq, not_or, Int.not_lt] at hb
      split at h
      · simp at h
      · injection h with h
        subst h
        simp only
        refine ⟨trivial, by omega, ?_, trivial⟩
        omega

/-- S rejects a non-nil per-axis request exactly on the four stated conditions -/
theorem axisSel_some_reject_iff (s : Sl) (d : Int) :
    axisSel (some s) d = .reject ↔
      (s.start > s.stop ∨ s.start < 0 ∨ s.start ≥ d ∨ (s.step = 0 ∧ s.stop - s.start > 1)) := by
  simp only [axisSel, Bool.or_eq_true, Bool.and_eq_true, beq_iff_eq, decide_eq_true_eq, or_assoc]
  generalize (if s.stop > d then d else s.stop) = e
  by_cases hc : s.start > s.stop ∨ s.start < 0 ∨ s.start ≥ d ∨ (s.step = 0 ∧ s.stop - s.start > 1)
  · simp [hc]
  · rw [if_neg hc]
    simp only [hc, iff_false]
    intro heq
    split at heq
    · cases heq
    · split at heq <;> cases heq

end TM
