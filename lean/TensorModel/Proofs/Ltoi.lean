import TensorModel.Run
/-! Helper lemmas for C01 (addressing). -/
namespace TM

end TM
