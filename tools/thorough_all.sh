#!/bin/bash
# thorough tier of every property on the unchanged tree: one summary line per property (+ violations)
cd "$(dirname "$0")/.."
./setup.sh > /dev/null 2>&1
for p in C01 C02 C03 C04 C05 C06 C07 C08 C09 C10 C11 C12 C13 C14 C15 C16 C17 C18 C19 C20; do
  out=$(./check $p --tier thorough 2>&1 | grep -v KNOWN)
  echo "$(echo "$out" | tail -n1 | cut -c1-220)"
  echo "$out" | grep VIOLATION | while read l; do
    f=$(echo $l | sed 's/.*replay=\([^ ]*\).*/\1/'); echo "   $l"; python3 -c "
import json,sys
d=json.load(open('$f')); print('     ', (d.get('program') or d.get('what') or '')[:400]); print('     ', str(d.get('detail'))[:200]); print('     ', str(d.get('impl'))[:200]); print('     ', str(d.get('spec'))[:200]); print('     ', str(d.get('lean_failures'))[:300])"
  done
done
