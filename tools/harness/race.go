package main

import (
	"bufio"
	"encoding/json"
	"flag"
	"fmt"
	"os"
	"runtime"
	"strings"
	"sync"
)

// race mode (C18). A *set* is one line:
//     R17 ; <shared prefix steps> || <goroutine 1 steps> || <goroutine 2 steps> …
// The prefix builds the shared (read-only) tensors; every goroutine then runs its own steps, over the
// shared tensors and over tensors it creates itself. For the model the set is flattened into one
// sequential program per goroutine (`R17g1 ; prefix ; steps of g1`), because goroutines that only read
// what they share must each obtain exactly what they would obtain running alone.
//
// `harness raceflat` prints the flattened programs (input of the Lean driver);
// `harness race` executes the sets with real goroutines and compares each goroutine with the model.

func splitSet(line string) (pid string, prefix []string, gs [][]string) {
	parts := strings.Split(line, " || ")
	head := strings.Split(parts[0], " ; ")
	pid = strings.TrimSpace(head[0])
	prefix = head[1:]
	for _, p := range parts[1:] {
		gs = append(gs, strings.Split(p, " ; "))
	}
	return
}

func raceFlatCmd(args []string) {
	fs := flag.NewFlagSet("raceflat", flag.ExitOnError)
	sets := fs.String("sets", "", "set file")
	fs.Parse(args)
	f, err := os.Open(*sets)
	must(err)
	sc := bufio.NewScanner(f)
	sc.Buffer(make([]byte, 1<<20), 1<<26)
	w := bufio.NewWriter(os.Stdout)
	defer w.Flush()
	for sc.Scan() {
		line := strings.TrimSpace(sc.Text())
		if line == "" {
			continue
		}
		pid, prefix, gs := splitSet(line)
		for gi, g := range gs {
			fmt.Fprintf(w, "%sg%d ; %s\n", pid, gi, strings.Join(append(append([]string{}, prefix...), g...), " ; "))
		}
	}
}

func (p *prog) fork() *prog {
	q := &prog{vset: p.vset, nbuf: p.nbuf}
	q.vars = append(q.vars, p.vars...)
	q.vdt = append(q.vdt, p.vdt...)
	q.inputs = append(q.inputs, p.inputs...)
	q.fmtSeen = map[string]string{}
	for k, v := range p.fmtSeen {
		q.fmtSeen[k] = v
	}
	return q
}

func raceCmd(args []string) {
	fs := flag.NewFlagSet("race", flag.ExitOnError)
	sets := fs.String("sets", "", "set file")
	model := fs.String("model", "", "model output of the flattened programs")
	out := fs.String("out", "", "result file")
	procs := fs.Int("procs", 4, "GOMAXPROCS")
	yield := fs.Uint64("yield", 1, "seed of the yield injection")
	reps := fs.Int("reps", 2, "repetitions of every set")
	fs.Parse(args)
	runtime.GOMAXPROCS(*procs)
	sf, err := os.Open(*sets)
	must(err)
	mf, err := os.Open(*model)
	must(err)
	of, err := os.Create(*out)
	must(err)
	defer of.Close()
	w := bufio.NewWriter(of)
	defer w.Flush()
	enc := json.NewEncoder(w)
	var encMu sync.Mutex
	ssc := bufio.NewScanner(sf)
	ssc.Buffer(make([]byte, 1<<20), 1<<26)
	msc := bufio.NewScanner(mf)
	msc.Buffer(make([]byte, 1<<20), 1<<26)
	mr := &modelReader{sc: msc}
	mr.advance()
	sum := summary{Outcomes: map[string]int{}, Ops: map[string]int{}, Tagged: map[string]int{}}
	distinct := map[string]bool{}
	for ssc.Scan() {
		line := strings.TrimSpace(ssc.Text())
		if line == "" {
			continue
		}
		pid, prefix, gs := splitSet(line)
		msteps := make([]map[int]*modelStep, len(gs))
		for gi := range gs {
			msteps[gi] = mr.forProgram(fmt.Sprintf("%sg%d", pid, gi))
		}
		sum.Programs++
		for rep := 0; rep < *reps; rep++ {
			base := &prog{}
			ok := true
			for i, st := range prefix {
				toks := strings.Fields(st)
				if len(toks) > 0 && strings.HasPrefix(toks[0], "vset=") {
					fmt.Sscanf(toks[0], "vset=%d", &base.vset)
					continue
				}
				r := base.step(i, toks)
				// the prefix is compared through goroutine 0's model lines
				if ms := msteps[0][i]; ms != nil && ms.hasM {
					if d := base.compareRec(r, ms.m, false); d != "" {
						encMu.Lock()
						sum.Mismatches++
						enc.Encode(mismatch{Pid: pid, Program: line, Step: i, Kind: "corr", Detail: "prefix: " + d, Impl: r.String(), Model: ms.m})
						encMu.Unlock()
						ok = false
						break
					}
				}
				if r.stop {
					ok = false
					break
				}
			}
			if !ok {
				break
			}
			var wg sync.WaitGroup
			for gi, g := range gs {
				wg.Add(1)
				go func(gi int, g []string) {
					defer wg.Done()
					p := base.fork()
					rg := &rng{s: *yield*7919 + uint64(gi)*104729 + uint64(rep)}
					for k, st := range g {
						i := len(prefix) + k
						toks := strings.Fields(st)
						if rg.chance(1, 3) {
							runtime.Gosched()
						}
						r := p.step(i, toks)
						ms := msteps[gi][i]
						encMu.Lock()
						sum.Steps++
						if len(toks) > 0 {
							sum.Ops[toks[0]]++
						}
						if res, ok := r.fields["r"]; ok {
							sum.Outcomes[res]++
						}
						distinct[fmt.Sprintf("%s|%d|%s", strings.Join(toks[:min(2, len(toks))], " "), len(gs), r.fields["shape"])] = true
						encMu.Unlock()
						if ms == nil || !ms.hasM {
							encMu.Lock()
							sum.Mismatches++
							enc.Encode(mismatch{Pid: pid, Program: line, Step: i, Kind: "corr", Detail: fmt.Sprintf("goroutine %d: model produced no line", gi), Impl: r.String()})
							encMu.Unlock()
							return
						}
						d := p.compareRec(r, ms.m, false)
						encMu.Lock()
						sum.Compared++
						encMu.Unlock()
						if d != "" {
							encMu.Lock()
							sum.Mismatches++
							enc.Encode(mismatch{Pid: pid, Program: line, Step: i, Kind: "corr", Detail: fmt.Sprintf("goroutine %d (rep %d, GOMAXPROCS %d): %s", gi, rep, *procs, d), Impl: r.String(), Model: ms.m, Tags: ms.tags})
							encMu.Unlock()
							return
						}
						if r.stop {
							return
						}
					}
				}(gi, g)
			}
			wg.Wait()
		}
		if len(sum.Samples) < 5 && sum.Programs%23 == 1 {
			sum.Samples = append(sum.Samples, line)
		}
	}
	sum.Distinct = len(distinct)
	enc.Encode(map[string]interface{}{"summary": sum})
}

func min(a, b int) int {
	if a < b {
		return a
	}
	return b
}
