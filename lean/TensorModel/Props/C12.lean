import TensorModel.Proofs.Kernels
/-!
  C12 — unary functions and mapped functions.
  Property theorems only; helper lemmas live in `TensorModel/Proofs/Kernels.lean`
  (`cell`, `InBuf`, `ReuseFits` are defined there; see the header of `Props/C06.lean`).
  All theorems hold for an arbitrary scalar function `g : Val → Val`.
-/
set_option linter.unusedSimpArgs false
namespace TM.C12
open TM

/-! ## generated unary methods (`engUnary`), raw path -/

/-- Safe mode: a fresh clone of `a` whose cell `i` is `g a[i]`; `a`, every pre-existing buffer and the
    mask heap are untouched. -/
theorem engUnary_safe (st : St) (g : UnF) (tc kt : List String) (strict : Bool) (a : Dense)
    (htc : a.dt ∈ tc) (hk : a.dt ∈ kt) (hia : a.requiresIterator = false) (hm : a.mask = none)
    (hA : InBuf st a.win.buf a.win.off a.win.len) :
    ∃ out c, engUnary st g tc kt strict a {} = .ok out ∧ out.ret = .fresh c ∧
      c.ap = { a.ap with fin := true } ∧ c.dt = a.dt ∧ c.win = ⟨st.heap.size, 0, a.win.len, a.win.len⟩ ∧
      out.st.mheap = st.mheap ∧
      (∀ i, i < a.win.len → ∃ x, cell st a.win.buf (a.win.off + i) = some x ∧
        cell out.st c.win.buf i = some (g x)) ∧
      (∀ b' k, b' < st.heap.size → cell out.st b' k = cell st b' k) := by
  obtain ⟨st', h, hm', hv, hfr⟩ := engUnary_safe' st g tc kt strict a (by simpa using htc) (by simpa using hk)
    hia hm hA
  refine ⟨_, _, h, rfl, rfl, rfl, rfl, hm', ?_, hfr⟩
  intro i hi
  exact ⟨_, cell_some_cellD (hA.has i hi), hv i hi⟩

/-- `UseUnsafe()`: `a[i] = g a[i]` in place, `a` is returned, nothing else changes. -/
theorem engUnary_unsafe (st : St) (g : UnF) (tc kt : List String) (strict : Bool) (a : Dense)
    (htc : a.dt ∈ tc) (hk : a.dt ∈ kt) (hia : a.requiresIterator = false)
    (hA : InBuf st a.win.buf a.win.off a.win.len) :
    ∃ out, engUnary st g tc kt strict a { unsafe_ := true } = .ok out ∧ out.ret = .a ∧
      out.st.mheap = st.mheap ∧
      (∀ i, i < a.win.len → ∃ x, cell st a.win.buf (a.win.off + i) = some x ∧
        cell out.st a.win.buf (a.win.off + i) = some (g x)) ∧
      (∀ b' k, (b' ≠ a.win.buf ∨ k < a.win.off ∨ a.win.off + a.win.len ≤ k) → cell out.st b' k = cell st b' k) := by
  obtain ⟨st', h, w⟩ := engUnary_unsafe' st g tc kt strict a (by simpa using htc) (by simpa using hk) hia hA
  exact ⟨_, h, rfl, w.sem1 hA.has⟩

/-- `WithReuse(r)`: `r[i] = g a[i]` (copy, then in place); `r` is returned; nothing outside the window
    of `r` changes — in particular `a` is unchanged when it does not overlap `r`'s window. -/
theorem engUnary_reuse (st : St) (g : UnF) (tc kt : List String) (strict : Bool) (a r : Dense)
    (htc : a.dt ∈ tc) (hk : a.dt ∈ kt) (hia : a.requiresIterator = false) (hir : r.requiresIterator = false)
    (hr : ReuseFits r a.shape a.dt a.ap.o.col) (hlen : r.win.len = a.win.len)
    (hA : InBuf st a.win.buf a.win.off a.win.len) (hR : InBuf st r.win.buf r.win.off r.win.len) :
    ∃ out, engUnary st g tc kt strict a { reuse := some r } = .ok out ∧ out.ret = .reuse ∧
      out.reuse = some r ∧ out.st.mheap = st.mheap ∧
      (∀ i, i < r.win.len → ∃ x, cell st a.win.buf (a.win.off + i) = some x ∧
        cell out.st r.win.buf (r.win.off + i) = some (g x)) ∧
      (∀ b' k, (b' ≠ r.win.buf ∨ k < r.win.off ∨ r.win.off + r.win.len ≤ k) → cell out.st b' k = cell st b' k) := by
  obtain ⟨st', h, w⟩ := engUnary_reuse' st g tc kt strict a r (by simpa using htc) (by simpa using hk) hia hir hr
    hlen hA hR
  exact ⟨_, h, rfl, rfl, w.sem1 (by rw [hlen]; exact hA.has)⟩

/-- Refusal by type class (`unaryCheck`): an error value, whatever the options; no state. -/
theorem engUnary_refuses (st : St) (g : UnF) (tc kt : List String) (strict : Bool) (a : Dense) (o : Opts)
    (h : a.dt ∉ tc) : engUnary st g tc kt strict a o = .error (.err "typeclass a") :=
  engUnary_refuses' st g tc kt strict a o (by simpa using h)

/-- the type classes of the generated unary methods: e.g. `Sqrt` admits exactly the float/complex types -/
example : (unaryClasses.lookup "sqrt") = some (floatcmplxTypes, floatcmplxTypes) := by decide

/-! ## the unary iterator kernel -/

/-- `E.<Op>Iter`: `a[i] = g a[i]` at every valid iterator offset; positions whose validity flag is
    clear (masked) are skipped; no other cell changes. -/
theorem kUnIter_sem (st : St) (a : Win) (g : UnF) (ia : ItS)
    (hr : InRange ia a.len) (hnd : (ia.map (·.1)).Nodup) (hA : InBuf st a.buf a.off a.len) :
    ∃ st', kUnIter st a g ia = .ok st' ∧ st'.mheap = st.mheap ∧
      (∀ i, (i, true) ∈ ia → ∃ x, cell st a.buf (a.off + i.toNat) = some x ∧
        cell st' a.buf (a.off + i.toNat) = some (g x)) ∧
      (∀ i, (i, false) ∈ ia → cell st' a.buf (a.off + i.toNat) = cell st a.buf (a.off + i.toNat)) ∧
      (∀ b' k', (b' ≠ a.buf ∨ ∀ i, (i, true) ∈ ia → k' ≠ a.off + i.toNat) → cell st' b' k' = cell st b' k') := by
  obtain ⟨st', h, hm, _, hv, hfr⟩ := kUnIter_spec st a g ia hr hnd hA.has
  refine ⟨st', h, hm, ?_, ?_, hfr⟩
  · intro i hi
    have := hr _ hi
    exact ⟨_, cell_some_cellD (hA.has.at this.1 this.2), hv i hi⟩
  · intro i hi
    apply hfr
    refine Or.inr (fun i' hi' he => ?_)
    have := nodup_fst_flag hnd hi hi'
    have h1 := hr _ hi
    have h2 := hr _ hi'
    simp only at h1 h2
    omega

/-! ## `StdEng.Map` (`Dense.Apply`) -/

/-- Safe mode, no reuse, on a non-view contiguous tensor: `g` is applied to a *clone* of the operand's
    data; the operand and every pre-existing buffer are untouched. -/
theorem engMap_safe (st : St) (g : UnF) (mt : List String) (a : Dense)
    (hmt : a.dt ∈ mt) (hmz : a.isMaterializable = false) (hia : a.requiresIterator = false)
    (hm : a.mask = none) (hsz : (a.win.len : Int) = totalSize a.shape)
    (hA : InBuf st a.win.buf a.win.off a.win.len) :
    ∃ out c, engMap st g mt a {} = .ok out ∧ out.ret = .fresh c ∧ out.st.mheap = st.mheap ∧
      c.win = ⟨st.heap.size, 0, a.win.len, a.win.len⟩ ∧ c.ap.shape = a.shape ∧ c.dt = a.dt ∧
      (∀ i, i < a.win.len → ∃ x, cell st a.win.buf (a.win.off + i) = some x ∧
        cell out.st c.win.buf i = some (g x)) ∧
      (∀ b' k, b' < st.heap.size → cell out.st b' k = cell st b' k) := by
  obtain ⟨st', c, h, hm', hw, hs, hd, hv, hfr⟩ := engMap_safe' st g mt a (by simpa using hmt) hmz hia hm hsz hA
  refine ⟨_, c, h, rfl, hm', hw, hs, hd, ?_, hfr⟩
  intro i hi
  rw [hw]
  exact ⟨_, cell_some_cellD (hA.has i hi), hv i hi⟩

/-- The expected statement for `Map` with a reuse tensor, parameterised by a side condition relating
    the initial contents of the reuse tensor and of the operand: the reuse tensor receives `g a[i]`. -/
def MapReuseStmt (side : St → Dense → Dense → Prop) : Prop :=
  ∀ (st : St) (g : UnF) (mt : List String) (a r : Dense),
    a.dt ∈ mt → a.requiresIterator = false → r.requiresIterator = false →
    ReuseFits r a.shape a.dt a.ap.o.col → totalSize r.shape = totalSize a.shape → r.win.len = a.win.len →
    InBuf st a.win.buf a.win.off a.win.len → InBuf st r.win.buf r.win.off r.win.len → side st a r →
    ∃ out, engMap st g mt a { reuse := some r } = .ok out ∧ out.ret = .reuse ∧
      ∀ i, i < r.win.len → ∃ x, cell st a.win.buf (a.win.off + i) = some x ∧
        cell out.st r.win.buf (r.win.off + i) = some (g x)

/-- the full statement: no condition on the reuse tensor's initial content -/
def engMap_reuse_full : Prop := MapReuseStmt (fun _ _ _ => True)

/-- What the model (= the Go code) does (finding F34): with a reuse tensor, `g` is applied to the reuse
    tensor's *own* data; the operand's data is never read. -/
theorem engMap_reuse_actual (st : St) (g : UnF) (mt : List String) (a r : Dense)
    (hmt : a.dt ∈ mt) (hia : a.requiresIterator = false) (hir : r.requiresIterator = false)
    (hr : ReuseFits r a.shape a.dt a.ap.o.col) (hts : totalSize r.shape = totalSize a.shape)
    (hR : InBuf st r.win.buf r.win.off r.win.len) :
    ∃ out r', engMap st g mt a { reuse := some r } = .ok out ∧ out.ret = .reuse ∧ out.reuse = some r' ∧
      r'.win = r.win ∧ out.st.mheap = st.mheap ∧
      (∀ i, i < r.win.len → ∃ y, cell st r.win.buf (r.win.off + i) = some y ∧
        cell out.st r.win.buf (r.win.off + i) = some (g y)) ∧
      (∀ b' k, (b' ≠ r.win.buf ∨ k < r.win.off ∨ r.win.off + r.win.len ≤ k) → cell out.st b' k = cell st b' k) := by
  obtain ⟨st', r', h, hw, w⟩ := engMap_reuse_actual' st g mt a r (by simpa using hmt) hia hir hr hts hR
  exact ⟨_, r', h, rfl, rfl, hw, w.sem1 hR.has⟩

/-- Proved: the expected statement holds only when the reuse tensor already holds the operand's data. -/
theorem engMap_reuse_partial :
    MapReuseStmt (fun st a r => ∀ i, i < r.win.len →
      cell st r.win.buf (r.win.off + i) = cell st a.win.buf (a.win.off + i)) := by
  intro st g mt a r hmt hia hir hr hts hlen hA hR hside
  obtain ⟨out, r', h, hret, _, _, _, hv, _⟩ := engMap_reuse_actual st g mt a r hmt hia hir hr hts hR
  refine ⟨out, h, hret, ?_⟩
  intro i hi
  obtain ⟨y, hy, hc⟩ := hv i hi
  exact ⟨y, by rw [← hside i hi]; exact hy, hc⟩

namespace W
def st : St := { heap := #[#[.src 0 0, .src 0 1], #[.src 1 0, .src 1 1]] }
def a : Dense := { ap := { shape := [2], strides := [1] }, win := ⟨0, 0, 2, 2⟩, dt := "f64" }
def r : Dense := { ap := { shape := [2], strides := [1] }, win := ⟨1, 0, 2, 2⟩, dt := "f64" }
def g : UnF := fun x => .app1 "g" x
end W

/-- Concrete run of `a.Apply(g, WithReuse(r))`: cell 0 of `r` becomes `g r[0]`, not `g a[0]`. -/
theorem engMap_reuse_witness :
    ∃ out, engMap W.st W.g ["f64"] W.a { reuse := some W.r } = .ok out ∧
      cell out.st 1 0 = some (.app1 "g" (.src 1 0)) :=
  ⟨_, rfl, rfl⟩

/-- **F34**: the full statement is false. -/
theorem engMap_reuse_fails : ¬ engMap_reuse_full := by
  intro hfull
  obtain ⟨out, h, _, hv⟩ := hfull W.st W.g ["f64"] W.a W.r (by decide) (by decide) (by decide)
    ⟨rfl, by decide, by decide, rfl⟩ rfl rfl ⟨_, rfl, by decide⟩ ⟨_, rfl, by decide⟩ trivial
  obtain ⟨out', h', hc'⟩ := engMap_reuse_witness
  rw [h] at h'
  injection h' with h'
  subst h'
  obtain ⟨x, hx, hxy⟩ := hv 0 (by decide)
  have hx' : x = .src 0 0 := by
    have : cell W.st 0 0 = some (.src 0 0) := rfl
    rw [show W.a.win.buf = 0 from rfl, show W.a.win.off + 0 = 0 from rfl, this] at hx
    injection hx with hx; exact hx.symm
  rw [show W.r.win.buf = 1 from rfl, show W.r.win.off + 0 = 0 from rfl, hc', hx'] at hxy
  injection hxy with hxy
  injection hxy with _ hxy
  cases hxy

/-! ## non-vacuity -/
namespace Ex
def st : St := { heap := #[#[.src 0 0, .src 0 1, .src 0 2, .src 0 3], #[.src 1 0, .src 1 1, .src 1 2, .src 1 3]] }
def ta : Dense := { ap := { shape := [2, 2], strides := [2, 1] }, win := ⟨0, 0, 4, 4⟩, dt := "f64" }
def tr : Dense := { ap := { shape := [2, 2], strides := [2, 1] }, win := ⟨1, 0, 4, 4⟩, dt := "f64" }
def g : UnF := fun x => .app1 "g" x
theorem inA : InBuf st 0 0 4 := ⟨_, rfl, by decide⟩
theorem inR : InBuf st 1 0 4 := ⟨_, rfl, by decide⟩
theorem fits : ReuseFits tr ta.shape ta.dt ta.ap.o.col := ⟨rfl, by decide, by decide, rfl⟩

example := engUnary_safe st g floatTypes floatTypes true ta (by decide) (by decide) (by decide) rfl inA
example := engUnary_unsafe st g floatTypes floatTypes true ta (by decide) (by decide) (by decide) inA
example := engUnary_reuse st g floatTypes floatTypes true ta tr (by decide) (by decide) (by decide) (by decide)
  fits rfl inA inR
example := engUnary_refuses st g floatTypes floatTypes true { ta with dt := "i" } {} (by decide)
example := kUnIter_sem st ⟨0, 0, 4, 4⟩ g [(0, true), (2, false), (1, true)] (by unfold InRange; decide) (by decide) inA
example := engMap_safe st g ["f64"] ta (by decide) (by decide) (by decide) rfl (by decide) inA
example := engMap_reuse_actual st g ["f64"] ta tr (by decide) (by decide) (by decide) fits rfl inR
/-- the side condition of `engMap_reuse_partial` is satisfiable: reuse ≡ operand -/
example := engMap_reuse_partial st g ["f64"] ta ta (by decide) (by decide) (by decide)
  ⟨rfl, by decide, by decide, rfl⟩ rfl rfl inA inA (fun _ _ => rfl)
end Ex

end TM.C12
