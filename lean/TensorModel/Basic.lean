/-
  Basic definitions shared by the executable model (M), the specification (S) and the driver.
  Core Lean only (no Mathlib) so that the driver links as a `lean_exe`.
-/
namespace TM

/-- Outcome classes of a library call that the harness can observe:
    an `error` value was returned, or the call panicked. Tags are for humans only. -/
inductive Err where
  | err (tag : String)
  | panic (tag : String)
deriving Repr, Inhabited

abbrev Res := Except Err

def Err.isPanic : Err → Bool
  | .panic _ => true
  | .err _ => false

def throwErr {α} (tag : String) : Res α := .error (.err tag)
def throwPanic {α} (tag : String) : Res α := .error (.panic tag)

/-- Go slice indexing with an `int` index: out of range = panic. -/
def getI? {α} (l : List α) (i : Int) : Option α :=
  if i < 0 then none else l[i.toNat]?

def idx {α} (l : List α) (i : Int) (what : String := "index") : Res α :=
  match getI? l i with
  | some x => .ok x
  | none => throwPanic s!"{what} out of range"

/-- Σ cᵢ·sᵢ over the common prefix. -/
def dot : List Int → List Int → Int
  | c :: cs, s :: ss => c * s + dot cs ss
  | _, _ => 0

def prod : List Int → Int
  | [] => 1
  | x :: xs => x * prod xs

def sumI : List Int → Int
  | [] => 0
  | x :: xs => x + sumI xs

/-- Go's truncated integer division and remainder (`/`, `%`) for a non-zero divisor. -/
def goDiv (a b : Int) : Int := Int.tdiv a b
def goMod (a b : Int) : Int := Int.tmod a b

def rangeI (n : Nat) : List Int := (List.range n).map Int.ofNat

end TM
