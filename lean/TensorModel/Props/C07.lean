import TensorModel.Proofs.Kernels
/-! C07 — property theorems (see Proofs/Kernels.lean for the kernel-level lemmas). -/
namespace TM.C07
end TM.C07
