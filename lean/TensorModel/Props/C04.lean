import TensorModel.Proofs.Views
import TensorModel.Proofs.CopyCoord
import TensorModel.Props.C17compat
/-!
  C04 — views alias their source, copies never do, writes stay inside the view.
  Property theorems only; helper lemmas live in `TensorModel/Proofs/Views.lean`.
-/
namespace TM.C04

/-- cell `k` of buffer `b` of the heap -/
def cell (st : St) (b k : Nat) : Option Val := (st.heap[b]?).bind (·[k]?)

/-- re-insert coordinate 0 at the dropped axes of a sliced pattern -/
def expandCoord : List Bool → List Int → List Int
  | [], _ => []
  | true :: ds, c => 0 :: expandCoord ds c
  | false :: ds, ci :: c => ci :: expandCoord ds c
  | false :: ds, [] => 0 :: expandCoord ds []

/-- effective (start, step) of every axis as `SliceDetails` reports them -/
def selOf : List (Option Sl) → Shape → List (Int × Int)
  | _, [] => []
  | sls, d :: ds =>
    (match sliceDetails sls.head?.join d with
     | .ok (st, _, sp) => (st, if sp > 0 then sp else 1)
     | .error _ => (0, 1)) :: selOf sls.tail ds

/-- which axes `AP.S` drops: new extent one and a non-nil slice was given for the axis -/
def droppedOf (rs : List AxisRes) (sls : List (Option Sl)) : List Bool :=
  (rs.zip (sls.map Option.isSome ++ List.replicate rs.length false)).map (fun (r, given) => r.n == 1 && given)

/-- **A view addresses exactly the requested source cells.** For the non-scalar branch of `AP.S`:
    the offset (relative to the source window) of result coordinate `c` of the view equals the
    source offset of coordinate `startᵢ + cᵢ·stepᵢ` (dropped axes at their single position). Any rank,
    any source strides (so: slices of slices of transposes, to any depth). -/
theorem slice_addr (ap nap : AP) (size ndStart ndEnd : Int) (sls : List (Option Sl)) (rs : List AxisRes)
    (hloop : apSLoop (isVector ap.shape) (if !ap.o.col || isVector ap.shape then 0 else ap.shape.length - 1) 0 ap.shape ap.strides sls = .ok rs)
    (h : ap.S size sls = .ok (nap, ndStart, ndEnd)) (hns : ndEnd - ndStart ≠ 1)
    (c : List Int) (hc : c.length = nap.shape.length)  :
    ndStart + dot c nap.strides =
      dot (List.zipWith (fun (p : Int × Int) ci => p.1 + ci * p.2) (selOf sls ap.shape) (expandCoord (droppedOf rs sls) c)) ap.strides := by
  exact slice_addr' selOf (fun sls => by cases sls <;> rfl) (fun _ _ _ => rfl)
    expandCoord (fun _ => rfl) (fun _ _ => rfl) (fun _ _ _ => rfl)
    ap nap size ndStart ndEnd sls rs hloop h hns c hc

/-- `Memset` through a view (iterator path) writes the cells at the iterator's offsets … -/
theorem memset_writes (st st' : St) (t : Dense) (v : Val) (hm : t.isMaterializable = true)
    (h : t.memset st v = .ok st') (i : Int) (hi : i ∈ t.offsets) :
    st'.get t.win i = .ok v := by
  exact memset_writes' st st' t v hm h i hi

/-- … and no other cell of any buffer: writes stay inside the view. -/
theorem memset_frame (st st' : St) (t : Dense) (v : Val) (hm : t.isMaterializable = true)
    (h : t.memset st v = .ok st') (b k : Nat)
    (hout : b ≠ t.win.buf ∨ ∀ i ∈ t.offsets, (k : Int) ≠ t.win.off + i) :
    cell st' b k = cell st b k := by
  exact memset_frame' st st' t v hm h b k hout

/-- `Zero` on a view (after the `fix:`) touches only the view's cells as well. -/
theorem zero_frame (st st' : St) (t : Dense) (hm : t.isMaterializable = true)
    (h : t.zero st = .ok st') (b k : Nat)
    (hout : b ≠ t.win.buf ∨ ∀ i ∈ t.offsets, (k : Int) ≠ t.win.off + i) :
    cell st' b k = cell st b k := by
  exact zero_frame' st st' t hm h b k hout

/-- `Clone` allocates a fresh buffer, copies the whole storage window and leaves every existing
    buffer as it was; the access pattern is the same, so the clone is logically equal and shares
    nothing. -/
theorem clone_fresh (st st' : St) (t r : Dense) (hnm : t.mask = none) (h : t.clone st = .ok (st', r)) :
    r.win.buf = st.heap.size ∧ r.win.off = 0 ∧ r.win.len = t.win.len ∧
    r.ap.shape = t.ap.shape ∧ r.ap.strides = t.ap.strides ∧ r.ap.o = t.ap.o ∧ r.view = false ∧
    (∀ b k, b < st.heap.size → cell st' b k = cell st b k) := by
  exact clone_fresh' st st' t r hnm h

/-- **A copy of a lazily transposed tensor is the same lazily transposed tensor** (finding F126, repaired): the clone has
    the source's access pattern, the source's backed-up pattern *and the axes of the pending transposition*; so undoing
    the transposition on the clone gives the pattern that undoing it on the source gives, `T` recognises its own undo
    on the clone, and the in-place build's `Transpose()` finds the cycles it has to follow. -/
theorem clone_keeps_pending_transposition (st st' : St) (t r : Dense) (hnm : t.mask = none)
    (h : t.clone st = .ok (st', r)) :
    r.ap = { t.ap with fin := true } ∧ r.old = t.old ∧ r.tw = t.tw ∧ (Dense.ut r).ap = (Dense.ut { t with ap := { t.ap with fin := true } }).ap := by
  obtain ⟨hr, _⟩ := clone_unfold st st' t r hnm h
  subst hr
  refine ⟨rfl, rfl, rfl, ?_⟩
  unfold Dense.ut
  cases t.old <;> rfl

/- Original statement (FALSE as written: nothing says that `t`'s buffer exists in `st`):

theorem clone_eq (st st' : St) (t r : Dense) (hnm : t.mask = none) (h : t.clone st = .ok (st', r))
    (i : Int) (hi : 0 ≤ i ∧ i < t.win.len) :
    st'.get r.win i = st.get t.win i

   Counterexample (`clone_eq_full_fails` below): the empty heap and a tensor whose window names the
   not-yet-allocated buffer `st.heap.size`. `Clone` allocates exactly that index, so the copy loop
   reads the fresh zero-filled buffer and succeeds, whereas the read in the original state panics
   ("no such buffer"). The proved variant adds the well-formedness hypothesis `hwf` that the
   source buffer is allocated in `st`. -/
theorem clone_eq_partial (st st' : St) (t r : Dense) (hnm : t.mask = none) (h : t.clone st = .ok (st', r))
    (hwf : t.win.buf < st.heap.size)
    (i : Int) (hi : 0 ≤ i ∧ i < t.win.len) :
    st'.get r.win i = st.get t.win i := by
  exact clone_eq' st st' t r hnm h hwf i hi

/-- The unrestricted statement fails for a dangling source window. -/
theorem clone_eq_full_fails :
    ∃ (st st' : St) (t r : Dense) (i : Int), t.mask = none ∧ t.clone st = .ok (st', r) ∧
      (0 ≤ i ∧ i < t.win.len) ∧ st'.get r.win i ≠ st.get t.win i := by
  refine ⟨{}, _, { ap := { shape := [1], strides := [1] }, win := ⟨0, 0, 1, 1⟩, dt := "int" }, _, 0,
    rfl, rfl, by decide, ?_⟩
  intro h
  cases h

/-- `CopyTo` refuses views with an error and copies nothing. -/
theorem copyTo_refuses_views (st : St) (t other : Dense) (hv : t.view = true ∨ other.view = true)
    (hs : other.size = t.size) :
    ∃ tag, t.copyTo st other = .error (.err tag) := by
  exact copyTo_refuses_views' st t other hv hs

/-- `Materialize` of a tensor that is neither a view nor lazily transposed returns the tensor itself. -/
theorem materialize_self (st : St) (t : Dense) (h : t.isMaterializable = false) :
    t.materialize st = .ok (st, none) := by
  exact materialize_self' st t h

-- non-vacuity
example : expandCoord [false, true, false] [5, 7] = [5, 0, 7] := by decide

/-- (after the repair of finding F27) a view of a lazily transposed tensor is flagged non-contiguous, hence every
    whole-tensor operation on it (Materialize, Copy, Memset, arithmetic) goes through its iterator and never
    reads its storage window as a block — for every slice list. -/
theorem view_of_transposed_requires_iterator (t v : Dense) (sls : List (Option Sl)) (h : t.slice sls = .ok v)
    (hold : t.old.isSome = true) (hns : isScalar v.ap.shape = false) (hlen : v.win.len ≠ 1) :
    v.ap.o.nonContig = true ∧ v.requiresIterator = true := by
  unfold Dense.slice at h
  simp only [bind, Except.bind, pure, Except.pure] at h
  split at h
  · cases h
  · rename_i r hr
    obtain ⟨nap, s0, e0⟩ := r
    simp only at h
    split at h
    · cases h
    · split at h
      · cases h
      · rename_i m hm
        injection h with h
        subst h
        simp only at hns hlen ⊢
        by_cases hsc : isScalar nap.shape = true
        · simp [hold, hsc] at hns
        · simp [hold, hsc, Dense.requiresIterator, hlen]

/-- **Materialising is a coordinate-wise copy into fresh storage** (iterator path: the view or lazily transposed
    tensor needs its iterator): the result has the source's shape, lives in a buffer that did not exist before, holds
    at every coordinate `c` (its own row-major address) the source's element at `c` (the source's strided address),
    and no cell that existed before is changed. Any rank, any strides, unmasked source. -/
theorem materialize_by_coordinate (st st' : St) (t r : Dense)
    (hmz : t.isMaterializable = true) (hit : t.requiresIterator = true) (hnm : t.mask = none) (hlen0 : t.win.len ≠ 0)
    (hne : t.ap.shape ≠ [])
    (hl : t.ap.strides.length = t.ap.shape.length) (hp : ∀ d ∈ t.ap.shape, 0 < d)
    (hcap : t.win.len ≤ t.win.cap) (hbuf : t.win.buf < st.heap.size)
    (hr : ∀ c ∈ allCoords t.ap.shape, 0 ≤ dot c t.ap.strides ∧ dot c t.ap.strides < (t.win.len : Int))
    (hs : Has st t.win.buf t.win.off t.win.len)
    (h : t.materialize st = .ok (st', some r)) :
    r.ap.shape = t.ap.shape ∧ r.win.buf = st.heap.size ∧ r.win.off = 0 ∧
    (∀ c ∈ allCoords t.ap.shape,
      TM.cell st' r.win.buf (rowRank t.ap.shape c).toNat =
        some (TM.cellD st t.win.buf (t.win.off + (dot c t.ap.strides).toNat))) ∧
    (∀ b' k', b' < st.heap.size → TM.cell st' b' k' = TM.cell st b' k') := by
  have hmask : t.isMasked = false := by
    unfold Dense.isMasked; rw [hnm]; simpa using hlen0
  have hnemp : t.shape.isEmpty = false := by
    unfold Dense.shape; cases hsh : t.ap.shape with
    | nil => exact absurd hsh hne
    | cons _ _ => rfl
  unfold Dense.materialize at h
  simp only [hmz, Bool.not_true, Bool.false_eq_true, if_false, hnemp, bind, Except.bind, pure, Except.pure] at h
  cases hfr : Dense.fresh st t.dt t.shape false (Array.replicate (totalSize t.shape).toNat Val.zero) t.eng with
  | mk st1 r0 =>
  rw [hfr] at h
  simp only at h
  simp only [Dense.fresh, St.alloc, Prod.mk.injEq] at hfr
  obtain ⟨hst1, hr0⟩ := hfr
  have hst1' : st1 = { st with heap := st.heap.push (Array.replicate (totalSize t.shape).toNat Val.zero) } := hst1.symm
  have hsh0 : r0.ap.shape = t.ap.shape := by rw [← hr0]; rfl
  have hstr0 : r0.ap.strides = calcStrides t.ap.shape := by rw [← hr0]; rfl
  have hwin0 : r0.win = ⟨st.heap.size, 0, (prod t.ap.shape).toNat, (prod t.ap.shape).toNat⟩ := by
    rw [← hr0]; simp [Dense.shape, totalSize]
  have hmask0 : r0.mask = none := by rw [← hr0]
  -- the iterator path
  unfold Dense.copyDenseIter at h
  simp only [hit, Bool.not_true, Bool.and_false, Bool.false_and, Bool.false_eq_true, if_false, bind, Except.bind] at h
  have hdot : ∀ c, dot c r0.ap.strides = rowRank t.ap.shape c := by intro c; rw [hstr0]; rfl
  obtain ⟨s2, h2, _, hv, hf⟩ := copyIterOffsets_by_coordinate st1 r0 t t.ap.shape hsh0 rfl
    (by rw [hstr0, calcStrides_length]) hl hp (by rw [hwin0]; exact Nat.ne_of_gt hbuf)
    (by rw [hwin0]; exact Nat.le_refl _) hcap
    (by
      intro c hc
      rw [hdot, hwin0]
      have hb := rowRank_bounds' t.ap.shape c (C17compat.allCoords_inBox _ _ hc)
      have hpp : 0 ≤ prod t.ap.shape := by omega
      simp only
      omega)
    hr
    (by
      have : (fun c => dot c r0.ap.strides) = rowRank t.ap.shape := by funext c; exact hdot c
      rw [this, C17compat.allCoords_map_rowRank _ hp]
      exact rangeI_pairwise _)
    (by
      rw [hwin0, hst1']
      intro i hi
      simp only [Nat.zero_add]
      rw [cell_push_new]
      have hi' : i < (prod t.ap.shape).toNat := hi
      simp [Dense.shape, totalSize, hi'])
    (by rw [hst1']; exact hs.push hbuf _)
  rw [h2] at h
  simp only [Dense.copyMaskIter, hmask, Bool.not_false, if_true, pure, Except.pure, Except.ok.injEq, Prod.mk.injEq,
    Option.some.injEq] at h
  obtain ⟨rfl, rfl⟩ := h
  refine ⟨hsh0, by rw [hwin0], by rw [hwin0], ?_, ?_⟩
  · intro c hc
    have := hv c hc
    rw [hdot, hwin0] at this
    simp only [Nat.zero_add] at this
    rw [hwin0]
    refine this.trans ?_
    rw [hst1']
    congr 1
    unfold cellD
    rw [cell_push_lt _ _ _ _ hbuf]
  · intro b' k' hb'
    rw [hf b' k' (Or.inl (by rw [hwin0]; exact Nat.ne_of_lt hb')), hst1', cell_push_lt _ _ _ _ hb']


/-- **`tensor.Copy` between tensors of which at least one needs its iterator (a view with gaps, a lazily transposed
    tensor) or whose data orders differ copies by coordinate**: the destination's element at `c` becomes the source's
    element at `c`, for any two well-formed layouts of the same shape over different buffers; no other cell of any
    buffer changes — in particular no cell of the destination's parent outside the view. Unmasked source. -/
theorem copy_by_coordinate (st : St) (dst src : Dense) (sh : Shape)
    (hdt : dst.dt = src.dt) (hsd : dst.ap.shape = sh) (hss : src.ap.shape = sh)
    (hit : (src.requiresIterator || dst.requiresIterator || !Dense.sameOrder dst src) = true)
    (hnm : src.isMasked = false)
    (hld : dst.ap.strides.length = sh.length) (hls : src.ap.strides.length = sh.length)
    (hp : ∀ d ∈ sh, 0 < d) (hne : dst.win.buf ≠ src.win.buf)
    (hcd : dst.win.len ≤ dst.win.cap) (hcs : src.win.len ≤ src.win.cap)
    (hrd : ∀ c ∈ allCoords sh, 0 ≤ dot c dst.ap.strides ∧ dot c dst.ap.strides < (dst.win.len : Int))
    (hrs : ∀ c ∈ allCoords sh, 0 ≤ dot c src.ap.strides ∧ dot c src.ap.strides < (src.win.len : Int))
    (hinj : ((allCoords sh).map (fun c => dot c dst.ap.strides)).Nodup)
    (hd : Has st dst.win.buf dst.win.off dst.win.len) (hs : Has st src.win.buf src.win.off src.win.len) :
    ∃ st', Dense.copy st dst src = .ok (st', dst) ∧
      (∀ c ∈ allCoords sh,
        TM.cell st' dst.win.buf (dst.win.off + (dot c dst.ap.strides).toNat) =
          some (TM.cellD st src.win.buf (src.win.off + (dot c src.ap.strides).toNat))) ∧
      (∀ b' k', (b' ≠ dst.win.buf ∨ ∀ c ∈ allCoords sh, k' ≠ dst.win.off + (dot c dst.ap.strides).toNat) →
        TM.cell st' b' k' = TM.cell st b' k') := by
  obtain ⟨st', h1, _, hv, hf⟩ := copyIterOffsets_by_coordinate st dst src sh hsd hss hld hls hp hne hcd hcs hrd hrs hinj hd hs
  refine ⟨st', ?_, hv, hf⟩
  have hfast : (!dst.requiresIterator && !src.requiresIterator && Dense.sameOrder dst src) = false := by
    cases h1 : src.requiresIterator <;> cases h2 : dst.requiresIterator <;> cases h3 : Dense.sameOrder dst src <;>
      simp_all
  unfold Dense.copy Dense.copyDenseIter
  simp only [hdt, bne_self_eq_false, Bool.false_eq_true, if_false, hit, if_true, hfast, bind, Except.bind, h1,
    Dense.copyMaskIter, hnm, Bool.not_false, pure, Except.pure]

/-- non-vacuity: the stepped view `a[0:6:2]` of a six-element vector (window of five cells, stride 2) meets the
    hypotheses, and its materialisation succeeds -/
def mvSt : St := { heap := #[#[.src 0 0, .src 0 1, .src 0 2, .src 0 3, .src 0 4, .src 0 5]] }
def mvView : Dense := { ap := { shape := [3], strides := [2], fin := true, o := { nonContig := true } },
                        win := ⟨0, 0, 5, 5⟩, dt := "i16", view := true }
example : mvView.isMaterializable = true ∧ mvView.requiresIterator = true ∧ mvView.mask = none ∧
    (allCoords mvView.ap.shape).all (fun c => decide (0 ≤ dot c mvView.ap.strides) && decide (dot c mvView.ap.strides < 5)) = true ∧
    (match mvView.materialize mvSt with
     | .ok (s, some r) => r.ap.shape == [3] && (s.heap[1]? == some #[.src 0 0, .src 0 2, .src 0 4])
     | _ => false) = true := by decide

end TM.C04
