import TensorModel.Excl
/-!
  Extension point for operation families modelled in their own module (`TensorModel/Ext/<Family>.lean`).
  A family provides three partial handlers; `Run.lean` tries them when the core interpreters do not
  know the step keyword.
-/
namespace TM

structure Family where
  name : String
  /-- keywords (first token of a step) this family handles -/
  keys : List String
  /-- model step -/
  stepM : PState → Nat → List String → PState × StepOut
  /-- specification step: (M state before, M state after, S state, step index, tokens, M outcome class) -/
  stepS : PState → PState → SState → Nat → List String → String → SOut
  /-- known-defect tags raised by the step (evaluated on M's state before it) and whether they also
      taint the buffers of the objects the step names -/
  excl : PState → List String → List String × Bool

/-- helper for families: finish an S step keeping the S object table aligned with M's -/
def finS (psAfter : PState) (ss : SState) (line : Option String) : SOut :=
  let ss := ss.sync psAfter.ds.size
  { s := { ss with objs := ss.objs.extract 0 psAfter.ds.size }, line := line }

end TM
