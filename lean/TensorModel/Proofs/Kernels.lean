import TensorModel.Proofs.Views
import TensorModel.Proofs.Iter
/-! Helper lemmas about the kernel and engine-glue model (C06, C07, C11, C12). -/
set_option linter.unusedSimpArgs false
namespace TM

/-! ### cell-level view of the heap -/

/-- cell `k` of buffer `b` of the heap (`none` = no such buffer / buffer too short) -/
def cell (st : St) (b k : Nat) : Option Val := (st.heap[b]?).bind (·[k]?)

/-- content of a cell, `Val.zero` when the cell does not exist -/
def cellD (st : St) (b k : Nat) : Val := (cell st b k).getD Val.zero

theorem cell_some_cellD {st : St} {b k : Nat} (h : (cell st b k).isSome = true) :
    cell st b k = some (cellD st b k) := by
  unfold cellD
  cases hc : cell st b k with
  | none => simp [hc] at h
  | some v => rfl

theorem cellD_of_some {st : St} {b k : Nat} {v : Val} (h : cell st b k = some v) : cellD st b k = v := by
  simp [cellD, h]

theorem cell_isSome_of_heap {st : St} {b k : Nat} {ba : Array Val} (hb : st.heap[b]? = some ba)
    (hk : k < ba.size) : (cell st b k).isSome = true := by
  simp [cell, hb, hk]

/-- a window `[off, off+n)` of buffer `b` lies inside the buffer -/
def InBuf (st : St) (b off n : Nat) : Prop := ∃ ba, st.heap[b]? = some ba ∧ off + n ≤ ba.size

theorem InBuf.cell {st : St} {b off n : Nat} (h : InBuf st b off n) (i : Nat) (hi : i < n) :
    (cell st b (off + i)).isSome = true := by
  obtain ⟨ba, hb, hle⟩ := h
  exact cell_isSome_of_heap hb (by omega)

theorem InBuf.lt {st : St} {b off n : Nat} (h : InBuf st b off n) : b < st.heap.size := by
  obtain ⟨ba, hb, _⟩ := h
  exact (Array.getElem?_eq_some_iff.mp hb).1

theorem St.rd_of_cell {s : St} {w : Win} {n : Nat} {i : Int} {v : Val} (h0 : 0 ≤ i) (h1 : i < n)
    (hc : cell s w.buf (w.off + i.toNat) = some v) : s.rd w n i = .ok v := by
  unfold St.rd
  have hr : (decide (i < 0) || decide (i ≥ (n : Int))) = false := by
    simp only [Bool.or_eq_false_iff, decide_eq_false_iff_not]; omega
  simp only [hr]
  unfold cell at hc
  cases hb : s.heap[w.buf]? with
  | none => simp [hb] at hc
  | some bb =>
    simp only [hb, Option.bind_some] at hc
    simp [hc]

theorem St.rd_ok {s : St} {w : Win} {n : Nat} {i : Int} {v : Val} (h : s.rd w n i = .ok v) :
    0 ≤ i ∧ i < n ∧ cell s w.buf (w.off + i.toNat) = some v := by
  unfold St.rd at h
  by_cases hr : (decide (i < 0) || decide (i ≥ (n : Int))) = true
  · simp only [hr, if_true] at h; cases h
  · simp only [hr] at h
    simp only [Bool.or_eq_true, decide_eq_true_eq, not_or] at hr
    refine ⟨by omega, by omega, ?_⟩
    unfold cell
    cases hb : s.heap[w.buf]? with
    | none => simp only [hb] at h; cases h
    | some bb =>
      simp only [hb] at h
      cases hk : bb[w.off + i.toNat]? with
      | none => simp only [hk] at h; cases h
      | some x =>
        simp only [hk] at h
        injection h with h; subst h
        simp [hk]

/-- a successful `St.wr` replaces exactly one cell -/
theorem St.wr_ok {s : St} {w : Win} {n : Nat} {i : Int} {v : Val} (h0 : 0 ≤ i) (h1 : i < n)
    (hc : (cell s w.buf (w.off + i.toNat)).isSome = true) :
    ∃ s', s.wr w n i v = .ok s' ∧ s'.mheap = s.mheap ∧ s'.heap.size = s.heap.size ∧
      ∀ b k, cell s' b k = if b = w.buf ∧ k = w.off + i.toNat then some v else cell s b k := by
  unfold cell at hc
  cases hb : s.heap[w.buf]? with
  | none => simp [hb] at hc
  | some bb =>
    simp only [hb, Option.bind_some] at hc
    have hk : w.off + i.toNat < bb.size := by
      cases hx : bb[w.off + i.toNat]? with
      | none => simp [hx] at hc
      | some x => exact (Array.getElem?_eq_some_iff.mp hx).1
    obtain ⟨hbuf, hbb⟩ := Array.getElem?_eq_some_iff.mp hb
    have hr : (decide (i < 0) || decide (i ≥ (n : Int))) = false := by
      simp only [Bool.or_eq_false_iff, decide_eq_false_iff_not]; omega
    refine ⟨{ s with heap := s.heap.set! w.buf (bb.set! (w.off + i.toNat) v) }, ?_, rfl, by simp, ?_⟩
    · unfold St.wr
      simp only [hr, hb, hk, if_true]
      rfl
    · intro b k
      unfold cell
      by_cases hbe : b = w.buf
      · subst hbe
        by_cases hke : k = w.off + i.toNat
        · subst hke
          simp [hbuf, hk]
        · have : w.off + i.toNat ≠ k := fun h => hke h.symm
          simp [hbuf, hbb, hke, this]
      · have : w.buf ≠ b := fun h => hbe h.symm
        simp [hbe, this]

/-! ### the generic write loop -/

/-- `s` agrees with `st` outside buffer `d`, and at cell `k0` of buffer `d` -/
def AgreeAt (s st : St) (d k0 : Nat) : Prop := ∀ b k, (b ≠ d ∨ k = k0) → cell s b k = cell st b k

theorem AgreeAt.refl (st : St) (d k0 : Nat) : AgreeAt st st d k0 := fun _ _ _ => rfl

/-- A loop whose step `x` writes `v x` to cell `pos x` of the window `d` (or does nothing when
    `act x = false`), provided the step only looks at cells outside `d`'s buffer and at its own
    cell, and distinct active steps write distinct cells. -/
theorem wrLoop {α : Type} (d : Win) (n : Nat) (pos : α → Int) (act : α → Bool) (v : α → Val)
    (step : St → α → Res St) :
    ∀ (l : List α) (st : St),
    (∀ x ∈ l, act x = true → 0 ≤ pos x ∧ pos x < n ∧ (cell st d.buf (d.off + (pos x).toNat)).isSome = true) →
    l.Pairwise (fun x y => act x = true → act y = true → pos x ≠ pos y) →
    (∀ s x, x ∈ l → act x = true → AgreeAt s st d.buf (d.off + (pos x).toNat) →
       step s x = s.wr d n (pos x) (v x)) →
    (∀ s x, x ∈ l → act x = false → step s x = .ok s) →
    ∃ st', l.foldlM step st = .ok st' ∧ st'.mheap = st.mheap ∧ st'.heap.size = st.heap.size ∧
      (∀ x ∈ l, act x = true → cell st' d.buf (d.off + (pos x).toNat) = some (v x)) ∧
      (∀ b k, (b ≠ d.buf ∨ ∀ x ∈ l, act x = true → k ≠ d.off + (pos x).toNat) →
        cell st' b k = cell st b k) := by
  intro l
  induction l with
  | nil =>
    intro st _ _ _ _
    exact ⟨st, rfl, rfl, rfl, by simp, fun _ _ _ => rfl⟩
  | cons x xs ih =>
    intro st hpos hnd hact hskip
    rw [List.pairwise_cons] at hnd
    obtain ⟨hx, hnd⟩ := hnd
    by_cases hax : act x = true
    · obtain ⟨h0, h1, hc⟩ := hpos x (by simp) hax
      obtain ⟨s1, hw, hm1, hs1, hc1⟩ := St.wr_ok (v := v x) h0 h1 hc
      have hst : step st x = .ok s1 := by
        rw [hact st x (by simp) hax (AgreeAt.refl _ _ _)]; exact hw
      have hpos' : ∀ y ∈ xs, act y = true →
          0 ≤ pos y ∧ pos y < n ∧ (cell s1 d.buf (d.off + (pos y).toNat)).isSome = true := by
        intro y hy hay
        obtain ⟨a0, a1, ac⟩ := hpos y (List.mem_cons_of_mem _ hy) hay
        refine ⟨a0, a1, ?_⟩
        rw [hc1]
        split
        · rfl
        · exact ac
      have hact' : ∀ s y, y ∈ xs → act y = true → AgreeAt s s1 d.buf (d.off + (pos y).toNat) →
          step s y = s.wr d n (pos y) (v y) := by
        intro s y hy hay hag
        apply hact s y (List.mem_cons_of_mem _ hy) hay
        intro b k hbk
        rw [hag b k hbk, hc1]
        have hne := hx y hy hax hay
        have a0 := (hpos y (List.mem_cons_of_mem _ hy) hay).1
        split
        · rename_i hh
          rcases hbk with hb | hk
          · exact absurd hh.1 hb
          · exfalso; omega
        · rfl
      obtain ⟨st', hf, hm, hs, hv, hfr⟩ := ih s1 hpos' hnd hact'
        (fun s y hy => hskip s y (List.mem_cons_of_mem _ hy))
      refine ⟨st', ?_, hm.trans hm1, hs.trans hs1, ?_, ?_⟩
      · simp only [List.foldlM_cons, hst, bind, Except.bind]; exact hf
      · intro y hy hay
        rcases List.mem_cons.mp hy with rfl | hy
        · rw [hfr _ _ (Or.inr ?_), hc1]
          · simp
          · intro z hz haz
            have hne := hx z hz hax haz
            have z0 := (hpos z (List.mem_cons_of_mem _ hz) haz).1
            omega
        · exact hv y hy hay
      · intro b k hbk
        rw [hfr b k ?_, hc1]
        · split
          · rename_i hh
            rcases hbk with hb | hk
            · exact absurd hh.1 hb
            · exact absurd hh.2 (hk x (by simp) hax)
          · rfl
        · rcases hbk with hb | hk
          · exact Or.inl hb
          · exact Or.inr (fun z hz => hk z (List.mem_cons_of_mem _ hz))
    · have hax' : act x = false := by simpa using hax
      have hst : step st x = .ok st := hskip st x (by simp) hax'
      obtain ⟨st', hf, hm, hs, hv, hfr⟩ := ih st
        (fun y hy => hpos y (List.mem_cons_of_mem _ hy)) hnd
        (fun s y hy => hact s y (List.mem_cons_of_mem _ hy))
        (fun s y hy => hskip s y (List.mem_cons_of_mem _ hy))
      refine ⟨st', ?_, hm, hs, ?_, ?_⟩
      · simp only [List.foldlM_cons, hst, bind, Except.bind]; exact hf
      · intro y hy hay
        rcases List.mem_cons.mp hy with rfl | hy
        · exact absurd hay hax
        · exact hv y hy hay
      · intro b k hbk
        apply hfr b k
        rcases hbk with hb | hk
        · exact Or.inl hb
        · exact Or.inr (fun z hz => hk z (List.mem_cons_of_mem _ hz))

/-! ### raw (contiguous) kernels -/

/-- cells `off … off+n-1` of buffer `b` exist -/
def Has (st : St) (b off n : Nat) : Prop := ∀ i, i < n → (cell st b (off + i)).isSome = true

theorem InBuf.has {st : St} {b off n : Nat} (h : InBuf st b off n) : Has st b off n :=
  fun i hi => h.cell i hi

theorem Has.mono {st : St} {b off n m : Nat} (h : Has st b off n) (hm : m ≤ n) : Has st b off m :=
  fun i hi => h i (by omega)

/-- `st'` is `st` with cells `off+i`, `i<n`, of buffer `d` replaced by `v i`; nothing else changed -/
structure Writes (st st' : St) (d off n : Nat) (v : Nat → Val) : Prop where
  mheap : st'.mheap = st.mheap
  size : st'.heap.size = st.heap.size
  val : ∀ i, i < n → cell st' d (off + i) = some (v i)
  frame : ∀ b k, (b ≠ d ∨ k < off ∨ off + n ≤ k) → cell st' b k = cell st b k

theorem Writes.other {st st' : St} {d off n : Nat} {v : Nat → Val} (h : Writes st st' d off n v)
    {b : Nat} (hb : b ≠ d) (k : Nat) : cell st' b k = cell st b k := h.frame b k (Or.inl hb)

theorem Writes.cellD_other {st st' : St} {d off n : Nat} {v : Nat → Val} (h : Writes st st' d off n v)
    {b : Nat} (hb : b ≠ d) (k : Nat) : cellD st' b k = cellD st b k := by
  unfold cellD; rw [h.other hb]

theorem Writes.has {st st' : St} {d off n : Nat} {v : Nat → Val} (h : Writes st st' d off n v)
    {b o m : Nat} (hh : Has st b o m) : Has st' b o m := by
  intro i hi
  by_cases hb : b = d
  · subst hb
    by_cases hk : off ≤ o + i ∧ o + i < off + n
    · have := h.val (o + i - off) (by omega)
      rw [show off + (o + i - off) = o + i by omega] at this
      rw [this]; rfl
    · rw [h.frame b (o + i) (Or.inr (by omega))]; exact hh i hi
  · rw [h.other hb]; exact hh i hi

theorem rangeI_pairwise (n : Nat) : (rangeI n).Pairwise (fun x y => x ≠ y) := by
  unfold rangeI
  rw [List.pairwise_map]
  exact (List.nodup_range (n := n)).imp (fun {a b} h hab => h (Int.ofNat.inj hab))

theorem mem_rangeI_cast {n : Nat} {x : Int} : x ∈ rangeI n ↔ ∃ k, k < n ∧ x = (k : Int) := by
  unfold rangeI
  simp only [List.mem_map, List.mem_range]
  constructor
  · rintro ⟨k, hk, rfl⟩; exact ⟨k, hk, rfl⟩
  · rintro ⟨k, hk, rfl⟩; exact ⟨k, hk, rfl⟩

/-- the write loop over `0 … n-1` of a window -/
theorem wrRange (d : Win) (n : Nat) (v : Nat → Val) (step : St → Int → Res St) (st : St)
    (hd : Has st d.buf d.off n)
    (hstep : ∀ s (i : Nat), i < n → AgreeAt s st d.buf (d.off + i) → step s (i : Int) = s.wr d n (i : Int) (v i)) :
    ∃ st', (rangeI n).foldlM step st = .ok st' ∧ Writes st st' d.buf d.off n v := by
  obtain ⟨st', hf, hm, hs, hv, hfr⟩ := wrLoop d n (fun x => x) (fun _ => true) (fun x => v x.toNat) step
    (rangeI n) st
    (by
      intro x hx _
      obtain ⟨k, hk, rfl⟩ := mem_rangeI_cast.mp hx
      refine ⟨by omega, by omega, ?_⟩
      simpa using hd k hk)
    ((rangeI_pairwise n).imp (fun h _ _ => h))
    (by
      intro s x hx _ hag
      obtain ⟨k, hk, rfl⟩ := mem_rangeI_cast.mp hx
      simp only [Int.toNat_natCast] at hag ⊢
      exact hstep s k hk hag)
    (by intro s x _ h; cases h)
  refine ⟨st', hf, hm, hs, ?_, ?_⟩
  · intro i hi
    have := hv (i : Int) (mem_rangeI_cast.mpr ⟨i, hi, rfl⟩) rfl
    simpa using this
  · intro b k hbk
    apply hfr
    rcases hbk with hb | hk
    · exact Or.inl hb
    · refine Or.inr ?_
      intro x hx _
      obtain ⟨j, hj, rfl⟩ := mem_rangeI_cast.mp hx
      simp only [Int.toNat_natCast]
      omega

theorem rd_agree_other {s st : St} {d k0 : Nat} (hag : AgreeAt s st d k0) (w : Win) (n : Nat) (i : Int)
    (h0 : 0 ≤ i) (h1 : i < n) (hne : w.buf ≠ d) (hc : (cell st w.buf (w.off + i.toNat)).isSome = true) :
    s.rd w n i = .ok (cellD st w.buf (w.off + i.toNat)) :=
  St.rd_of_cell h0 h1 ((hag _ _ (Or.inl hne)).trans (cell_some_cellD hc))

theorem rd_agree_self {s st : St} {d : Win} {i : Int} (hag : AgreeAt s st d.buf (d.off + i.toNat)) (n : Nat)
    (h0 : 0 ≤ i) (h1 : i < n) (hc : (cell st d.buf (d.off + i.toNat)).isSome = true) :
    s.rd d n i = .ok (cellD st d.buf (d.off + i.toNat)) :=
  St.rd_of_cell h0 h1 ((hag _ _ (Or.inr rfl)).trans (cell_some_cellD hc))

theorem rdN_other {s st : St} {d k0 : Nat} (hag : AgreeAt s st d k0) (w : Win) (n : Nat) (i : Nat)
    (h1 : i < n) (hne : w.buf ≠ d) (hc : (cell st w.buf (w.off + i)).isSome = true) :
    s.rd w n (i : Int) = .ok (cellD st w.buf (w.off + i)) := by
  have := rd_agree_other hag w n (i : Int) (by omega) (by omega) hne (by simpa using hc)
  simpa using this

theorem rdN_self {s st : St} {d : Win} {i : Nat} (hag : AgreeAt s st d.buf (d.off + i)) (n : Nat)
    (h1 : i < n) (hc : (cell st d.buf (d.off + i)).isSome = true) :
    s.rd d n (i : Int) = .ok (cellD st d.buf (d.off + i)) := by
  have := rd_agree_self (d := d) (i := (i : Int)) (by simpa using hag) n (by omega) (by omega) (by simpa using hc)
  simpa using this

theorem kVV_spec (st : St) (a b : Win) (f : BinF) (hne : a.buf ≠ b.buf) (hcap : a.len ≤ b.cap)
    (ha : Has st a.buf a.off a.len) (hb : Has st b.buf b.off a.len) :
    ∃ st', kVV st a b f = .ok st' ∧
      Writes st st' a.buf a.off a.len (fun i => f (cellD st a.buf (a.off + i)) (cellD st b.buf (b.off + i))) := by
  unfold kVV reslice
  simp only [hcap, if_true, bind, Except.bind]
  apply wrRange a a.len _ _ st ha
  intro s i hi hag
  rw [rdN_self hag a.len hi (ha i hi), rdN_other hag b a.len i hi hne.symm (hb i hi)]

theorem kSV_spec (st : St) (a0 : Val) (b : Win) (f : BinF) (hb : Has st b.buf b.off b.len) :
    ∃ st', kSV st a0 b f = .ok st' ∧
      Writes st st' b.buf b.off b.len (fun i => f a0 (cellD st b.buf (b.off + i))) := by
  unfold kSV
  apply wrRange b b.len _ _ st hb
  intro s i hi hag
  simp only [bind, Except.bind]
  rw [rdN_self hag b.len hi (hb i hi)]

theorem kVS_spec (st : St) (a : Win) (b0 : Val) (f : BinF) (ha : Has st a.buf a.off a.len) :
    ∃ st', kVS st a b0 f = .ok st' ∧
      Writes st st' a.buf a.off a.len (fun i => f (cellD st a.buf (a.off + i)) b0) := by
  unfold kVS
  apply wrRange a a.len _ _ st ha
  intro s i hi hag
  simp only [bind, Except.bind]
  rw [rdN_self hag a.len hi (ha i hi)]

theorem kUn_spec (st : St) (a : Win) (g : UnF) (ha : Has st a.buf a.off a.len) :
    ∃ st', kUn st a g = .ok st' ∧
      Writes st st' a.buf a.off a.len (fun i => g (cellD st a.buf (a.off + i))) := by
  unfold kUn
  apply wrRange a a.len _ _ st ha
  intro s i hi hag
  simp only [bind, Except.bind]
  rw [rdN_self hag a.len hi (ha i hi)]

theorem kIncrVV_spec (st : St) (a b incr : Win) (f acc : BinF) (hna : a.buf ≠ incr.buf) (hnb : b.buf ≠ incr.buf)
    (hcb : a.len ≤ b.cap) (hci : a.len ≤ incr.cap)
    (ha : Has st a.buf a.off a.len) (hb : Has st b.buf b.off a.len) (hi : Has st incr.buf incr.off a.len) :
    ∃ st', kIncrVV st a b incr f acc = .ok st' ∧
      Writes st st' incr.buf incr.off a.len (fun i =>
        acc (cellD st incr.buf (incr.off + i)) (f (cellD st a.buf (a.off + i)) (cellD st b.buf (b.off + i)))) := by
  unfold kIncrVV reslice
  simp only [hcb, hci, if_true, bind, Except.bind]
  apply wrRange incr a.len _ _ st hi
  intro s i hlt hag
  rw [rdN_self hag a.len hlt (hi i hlt), rdN_other hag a a.len i hlt hna (ha i hlt),
    rdN_other hag b a.len i hlt hnb (hb i hlt)]

theorem kIncrSV_spec (st : St) (a0 : Val) (b incr : Win) (f acc : BinF) (hnb : b.buf ≠ incr.buf)
    (hlen : incr.len ≤ b.len)
    (hb : Has st b.buf b.off incr.len) (hi : Has st incr.buf incr.off incr.len) :
    ∃ st', kIncrSV st a0 b incr f acc = .ok st' ∧
      Writes st st' incr.buf incr.off incr.len (fun i =>
        acc (cellD st incr.buf (incr.off + i)) (f a0 (cellD st b.buf (b.off + i)))) := by
  unfold kIncrSV
  apply wrRange incr incr.len _ _ st hi
  intro s i hlt hag
  simp only [bind, Except.bind]
  rw [rdN_self hag incr.len hlt (hi i hlt), rdN_other hag b b.len i (by omega) hnb (hb i hlt)]

theorem kIncrVS_spec (st : St) (a : Win) (b0 : Val) (incr : Win) (f acc : BinF) (hna : a.buf ≠ incr.buf)
    (hlen : incr.len ≤ a.len)
    (ha : Has st a.buf a.off incr.len) (hi : Has st incr.buf incr.off incr.len) :
    ∃ st', kIncrVS st a b0 incr f acc = .ok st' ∧
      Writes st st' incr.buf incr.off incr.len (fun i =>
        acc (cellD st incr.buf (incr.off + i)) (f (cellD st a.buf (a.off + i)) b0)) := by
  unfold kIncrVS
  apply wrRange incr incr.len _ _ st hi
  intro s i hlt hag
  simp only [bind, Except.bind]
  rw [rdN_self hag incr.len hlt (hi i hlt), rdN_other hag a a.len i (by omega) hna (ha i hlt)]

theorem kRecvVV_spec (st : St) (a b recv : Win) (f : BinF) (hna : a.buf ≠ recv.buf) (hnb : b.buf ≠ recv.buf)
    (hca : recv.len ≤ a.cap) (hcb : recv.len ≤ b.cap)
    (ha : Has st a.buf a.off recv.len) (hb : Has st b.buf b.off recv.len) (hr : Has st recv.buf recv.off recv.len) :
    ∃ st', kRecvVV st a b recv f = .ok st' ∧
      Writes st st' recv.buf recv.off recv.len (fun i =>
        f (cellD st a.buf (a.off + i)) (cellD st b.buf (b.off + i))) := by
  unfold kRecvVV reslice
  simp only [hca, hcb, if_true, bind, Except.bind]
  apply wrRange recv recv.len _ _ st hr
  intro s i hlt hag
  rw [rdN_other hag a recv.len i hlt hna (ha i hlt), rdN_other hag b recv.len i hlt hnb (hb i hlt)]

theorem kRecvSV_spec (st : St) (a0 : Val) (b recv : Win) (f : BinF) (hnb : b.buf ≠ recv.buf)
    (hlen : recv.len ≤ b.len)
    (hb : Has st b.buf b.off recv.len) (hr : Has st recv.buf recv.off recv.len) :
    ∃ st', kRecvSV st a0 b recv f = .ok st' ∧
      Writes st st' recv.buf recv.off recv.len (fun i => f a0 (cellD st b.buf (b.off + i))) := by
  unfold kRecvSV
  apply wrRange recv recv.len _ _ st hr
  intro s i hlt hag
  simp only [bind, Except.bind]
  rw [rdN_other hag b b.len i (by omega) hnb (hb i hlt)]

theorem kRecvVS_spec (st : St) (a : Win) (b0 : Val) (recv : Win) (f : BinF) (hna : a.buf ≠ recv.buf)
    (hlen : recv.len ≤ a.len)
    (ha : Has st a.buf a.off recv.len) (hr : Has st recv.buf recv.off recv.len) :
    ∃ st', kRecvVS st a b0 recv f = .ok st' ∧
      Writes st st' recv.buf recv.off recv.len (fun i => f (cellD st a.buf (a.off + i)) b0) := by
  unfold kRecvVS
  apply wrRange recv recv.len _ _ st hr
  intro s i hlt hag
  simp only [bind, Except.bind]
  rw [rdN_other hag a a.len i (by omega) hna (ha i hlt)]

/-- the vector-vector loop of `E.Cmp` (`GtT(a, b, retVal)`) -/
def kCmpVV (s : St) (a b r : Win) (f : BinF) : Res St := do
  reslice b a.len; reslice r a.len
  (rangeI a.len).foldlM (fun s i => do s.wr r a.len i (f (← s.rd a a.len i) (← s.rd b a.len i))) s

theorem kCmpVV_spec (st : St) (a b r : Win) (f : BinF) (hna : a.buf ≠ r.buf) (hnb : b.buf ≠ r.buf)
    (hcb : a.len ≤ b.cap) (hcr : a.len ≤ r.cap)
    (ha : Has st a.buf a.off a.len) (hb : Has st b.buf b.off a.len) (hr : Has st r.buf r.off a.len) :
    ∃ st', kCmpVV st a b r f = .ok st' ∧
      Writes st st' r.buf r.off a.len (fun i => f (cellD st a.buf (a.off + i)) (cellD st b.buf (b.off + i))) := by
  unfold kCmpVV reslice
  simp only [hcb, hcr, if_true, bind, Except.bind]
  apply wrRange r a.len _ _ st hr
  intro s i hlt hag
  rw [rdN_other hag a a.len i hlt hna (ha i hlt), rdN_other hag b a.len i hlt hnb (hb i hlt)]

/-! ### iterator kernels -/

/-- every offset of the stream indexes the window `[0, n)` -/
def InRange (l : ItS) (n : Nat) : Prop := ∀ p ∈ l, 0 ≤ p.1 ∧ p.1 < (n : Int)

theorem mem_zip_iff {α β : Type} {l₁ : List α} {l₂ : List β} {x : α × β} :
    x ∈ l₁.zip l₂ ↔ ∃ k : Nat, l₁[k]? = some x.1 ∧ l₂[k]? = some x.2 := by
  rw [List.mem_iff_getElem?]
  constructor
  · rintro ⟨k, hk⟩; exact ⟨k, List.getElem?_zip_eq_some.mp hk⟩
  · rintro ⟨k, hk⟩; exact ⟨k, List.getElem?_zip_eq_some.mpr hk⟩

theorem pairwise_zip_fst {α β : Type} {R : α → α → Prop} :
    ∀ (l₁ : List α) (l₂ : List β), l₁.Pairwise R → (l₁.zip l₂).Pairwise (fun x y => R x.1 y.1) := by
  intro l₁
  induction l₁ with
  | nil => intro l₂ _; simp
  | cons a as ih =>
    intro l₂ h
    cases l₂ with
    | nil => simp
    | cons b bs =>
      rw [List.pairwise_cons] at h
      simp only [List.zip_cons_cons, List.pairwise_cons]
      exact ⟨fun y hy => h.1 y.1 (List.of_mem_zip hy).1, ih bs h.2⟩

theorem pairwise_zip_snd {α β : Type} {R : β → β → Prop} :
    ∀ (l₁ : List α) (l₂ : List β), l₂.Pairwise R → (l₁.zip l₂).Pairwise (fun x y => R x.2 y.2) := by
  intro l₁
  induction l₁ with
  | nil => intro l₂ _; simp
  | cons a as ih =>
    intro l₂ h
    cases l₂ with
    | nil => simp
    | cons b bs =>
      rw [List.pairwise_cons] at h
      simp only [List.zip_cons_cons, List.pairwise_cons]
      exact ⟨fun y hy => h.1 y.2 (List.of_mem_zip hy).2, ih bs h.2⟩

theorem nodup_fst_pairwise {l : ItS} (h : (l.map (·.1)).Nodup) : l.Pairwise (fun p q => p.1 ≠ q.1) := by
  unfold List.Nodup at h
  rwa [List.pairwise_map] at h

/-- one step of the two-iterator kernel -/
def stepIterVV (a b : Win) (f : BinF) (s : St) (x : (Int × Bool) × (Int × Bool)) : Res St :=
  if x.1.2 && x.2.2 then do s.wr a a.len x.1.1 (f (← s.rd a a.len x.1.1) (← s.rd b b.len x.2.1)) else pure s

theorem kIterVV_fold (a b : Win) (f : BinF) : ∀ (ia ib : ItS) (s : St),
    kIterVV s a b f ia ib = (ia.zip ib).foldlM (stepIterVV a b f) s := by
  intro ia
  induction ia with
  | nil => intro ib s; simp [kIterVV]; rfl
  | cons p ia ih =>
    intro ib s
    cases ib with
    | nil => simp [kIterVV]; rfl
    | cons q ib =>
      obtain ⟨i, vi⟩ := p
      obtain ⟨j, vj⟩ := q
      simp only [kIterVV, List.zip_cons_cons, List.foldlM_cons, ih]
      rfl

def stepIterSV (a0 : Val) (b : Win) (f : BinF) (s : St) (x : Int × Bool) : Res St :=
  if x.2 then do s.wr b b.len x.1 (f a0 (← s.rd b b.len x.1)) else pure s

theorem kIterSV_fold (a0 : Val) (b : Win) (f : BinF) : ∀ (ib : ItS) (s : St),
    kIterSV s a0 b f ib = ib.foldlM (stepIterSV a0 b f) s := by
  intro ib
  induction ib with
  | nil => intro s; simp [kIterSV]; rfl
  | cons p ib ih =>
    intro s
    obtain ⟨i, vi⟩ := p
    simp only [kIterSV, List.foldlM_cons, ih]
    rfl

def stepIterVS (a : Win) (b0 : Val) (f : BinF) (s : St) (x : Int × Bool) : Res St :=
  if x.2 then do s.wr a a.len x.1 (f (← s.rd a a.len x.1) b0) else pure s

theorem kIterVS_fold (a : Win) (b0 : Val) (f : BinF) : ∀ (ia : ItS) (s : St),
    kIterVS s a b0 f ia = ia.foldlM (stepIterVS a b0 f) s := by
  intro ia
  induction ia with
  | nil => intro s; simp [kIterVS]; rfl
  | cons p ia ih =>
    intro s
    obtain ⟨i, vi⟩ := p
    simp only [kIterVS, List.foldlM_cons, ih]
    rfl

def stepUnIter (a : Win) (g : UnF) (s : St) (x : Int × Bool) : Res St :=
  if x.2 then do s.wr a a.len x.1 (g (← s.rd a a.len x.1)) else pure s

theorem kUnIter_fold (a : Win) (g : UnF) : ∀ (ia : ItS) (s : St),
    kUnIter s a g ia = ia.foldlM (stepUnIter a g) s := by
  intro ia
  induction ia with
  | nil => intro s; simp [kUnIter]; rfl
  | cons p ia ih =>
    intro s
    obtain ⟨i, vi⟩ := p
    simp only [kUnIter, List.foldlM_cons, ih]
    rfl

theorem Has.at {st : St} {b off n : Nat} (h : Has st b off n) {i : Int} (h0 : 0 ≤ i) (h1 : i < (n : Int)) :
    (cell st b (off + i.toNat)).isSome = true := h i.toNat (by omega)

/-- two offsets of a duplicate-free stream at different positions differ -/
theorem nodup_fst_ne {l : ItS} (h : (l.map (·.1)).Nodup) {k k' : Nat} {p q : Int × Bool}
    (hk : l[k]? = some p) (hk' : l[k']? = some q) (hne : k ≠ k') : p.1 ≠ q.1 := by
  have hp := nodup_fst_pairwise h
  rw [List.pairwise_iff_getElem] at hp
  obtain ⟨h1, e1⟩ := List.getElem?_eq_some_iff.mp hk
  obtain ⟨h2, e2⟩ := List.getElem?_eq_some_iff.mp hk'
  subst e1 e2
  rcases Nat.lt_or_gt_of_ne hne with hlt | hlt
  · exact hp k k' h1 h2 hlt
  · exact fun e => hp k' k h2 h1 hlt e.symm

theorem kIterVV_spec (st : St) (a b : Win) (f : BinF) (ia ib : ItS) (hne : a.buf ≠ b.buf)
    (hra : InRange ia a.len) (hrb : InRange ib b.len) (hnd : (ia.map (·.1)).Nodup)
    (ha : Has st a.buf a.off a.len) (hb : Has st b.buf b.off b.len) :
    ∃ st', kIterVV st a b f ia ib = .ok st' ∧ st'.mheap = st.mheap ∧ st'.heap.size = st.heap.size ∧
      (∀ (k : Nat) i vi j vj, ia[k]? = some (i, vi) → ib[k]? = some (j, vj) → vi = true → vj = true →
        cell st' a.buf (a.off + i.toNat) =
          some (f (cellD st a.buf (a.off + i.toNat)) (cellD st b.buf (b.off + j.toNat)))) ∧
      (∀ b' k', (b' ≠ a.buf ∨ ∀ (k : Nat) i vi j vj, ia[k]? = some (i, vi) → ib[k]? = some (j, vj) →
          vi = true → vj = true → k' ≠ a.off + i.toNat) → cell st' b' k' = cell st b' k') := by
  rw [kIterVV_fold]
  obtain ⟨st', hf, hm, hs, hv, hfr⟩ := wrLoop a a.len (fun x : (Int × Bool) × (Int × Bool) => x.1.1)
    (fun x => x.1.2 && x.2.2)
    (fun x => f (cellD st a.buf (a.off + x.1.1.toNat)) (cellD st b.buf (b.off + x.2.1.toNat)))
    (stepIterVV a b f) (ia.zip ib) st
    (by
      intro x hx _
      have := hra x.1 (List.of_mem_zip hx).1
      exact ⟨this.1, this.2, ha.at this.1 this.2⟩)
    ((pairwise_zip_fst ia ib (nodup_fst_pairwise hnd)).imp (fun h _ _ => h))
    (by
      intro s x hx hax hag
      have h1 := hra x.1 (List.of_mem_zip hx).1
      have h2 := hrb x.2 (List.of_mem_zip hx).2
      unfold stepIterVV
      simp only [hax, if_true, bind, Except.bind]
      rw [rd_agree_self hag a.len h1.1 h1.2 (ha.at h1.1 h1.2),
        rd_agree_other hag b b.len x.2.1 h2.1 h2.2 hne.symm (hb.at h2.1 h2.2)])
    (by
      intro s x _ hax
      unfold stepIterVV
      simp only [hax]
      rfl)
  refine ⟨st', hf, hm, hs, ?_, ?_⟩
  · intro k i vi j vj h1 h2 hvi hvj
    exact hv ((i, vi), (j, vj)) (mem_zip_iff.mpr ⟨k, h1, h2⟩) (by simp [hvi, hvj])
  · intro b' k' hbk
    apply hfr
    rcases hbk with hb' | hk
    · exact Or.inl hb'
    · refine Or.inr ?_
      intro x hx hax
      obtain ⟨k, h1, h2⟩ := mem_zip_iff.mp hx
      simp only [Bool.and_eq_true] at hax
      exact hk k x.1.1 x.1.2 x.2.1 x.2.2 h1 h2 hax.1 hax.2

/-- single-stream iterator loop: shared proof for `kIterSV`, `kIterVS`, `kUnIter` -/
theorem iter1_spec (st : St) (d : Win) (w : Val → Val) (step : St → Int × Bool → Res St) (l : ItS)
    (hstep : ∀ s x, step s x = if x.2 then do s.wr d d.len x.1 (w (← s.rd d d.len x.1)) else pure s)
    (hr : InRange l d.len) (hnd : (l.map (·.1)).Nodup) (hd : Has st d.buf d.off d.len) :
    ∃ st', l.foldlM step st = .ok st' ∧ st'.mheap = st.mheap ∧ st'.heap.size = st.heap.size ∧
      (∀ i, (i, true) ∈ l → cell st' d.buf (d.off + i.toNat) = some (w (cellD st d.buf (d.off + i.toNat)))) ∧
      (∀ b' k', (b' ≠ d.buf ∨ ∀ i, (i, true) ∈ l → k' ≠ d.off + i.toNat) → cell st' b' k' = cell st b' k') := by
  obtain ⟨st', hf, hm, hs, hv, hfr⟩ := wrLoop d d.len (fun x : Int × Bool => x.1) (fun x => x.2)
    (fun x => w (cellD st d.buf (d.off + x.1.toNat))) step l st
    (by
      intro x hx _
      have := hr x hx
      exact ⟨this.1, this.2, hd.at this.1 this.2⟩)
    ((nodup_fst_pairwise hnd).imp (fun h _ _ => h))
    (by
      intro s x hx hax hag
      have h1 := hr x hx
      rw [hstep]
      simp only [hax, if_true, bind, Except.bind]
      rw [rd_agree_self hag d.len h1.1 h1.2 (hd.at h1.1 h1.2)])
    (by
      intro s x _ hax
      rw [hstep]
      simp only [hax]
      rfl)
  refine ⟨st', hf, hm, hs, ?_, ?_⟩
  · intro i hi
    exact hv (i, true) hi rfl
  · intro b' k' hbk
    apply hfr
    rcases hbk with hb' | hk
    · exact Or.inl hb'
    · refine Or.inr ?_
      intro x hx hax
      obtain ⟨i, vi⟩ := x
      simp only at hax
      subst hax
      exact hk i hx

theorem kIterSV_spec (st : St) (a0 : Val) (b : Win) (f : BinF) (ib : ItS)
    (hr : InRange ib b.len) (hnd : (ib.map (·.1)).Nodup) (hb : Has st b.buf b.off b.len) :
    ∃ st', kIterSV st a0 b f ib = .ok st' ∧ st'.mheap = st.mheap ∧ st'.heap.size = st.heap.size ∧
      (∀ i, (i, true) ∈ ib → cell st' b.buf (b.off + i.toNat) = some (f a0 (cellD st b.buf (b.off + i.toNat)))) ∧
      (∀ b' k', (b' ≠ b.buf ∨ ∀ i, (i, true) ∈ ib → k' ≠ b.off + i.toNat) → cell st' b' k' = cell st b' k') := by
  rw [kIterSV_fold]
  exact iter1_spec st b (fun y => f a0 y) _ ib (fun _ _ => rfl) hr hnd hb

theorem kIterVS_spec (st : St) (a : Win) (b0 : Val) (f : BinF) (ia : ItS)
    (hr : InRange ia a.len) (hnd : (ia.map (·.1)).Nodup) (ha : Has st a.buf a.off a.len) :
    ∃ st', kIterVS st a b0 f ia = .ok st' ∧ st'.mheap = st.mheap ∧ st'.heap.size = st.heap.size ∧
      (∀ i, (i, true) ∈ ia → cell st' a.buf (a.off + i.toNat) = some (f (cellD st a.buf (a.off + i.toNat)) b0)) ∧
      (∀ b' k', (b' ≠ a.buf ∨ ∀ i, (i, true) ∈ ia → k' ≠ a.off + i.toNat) → cell st' b' k' = cell st b' k') := by
  rw [kIterVS_fold]
  exact iter1_spec st a (fun x => f x b0) _ ia (fun _ _ => rfl) hr hnd ha

theorem kUnIter_spec (st : St) (a : Win) (g : UnF) (ia : ItS)
    (hr : InRange ia a.len) (hnd : (ia.map (·.1)).Nodup) (ha : Has st a.buf a.off a.len) :
    ∃ st', kUnIter st a g ia = .ok st' ∧ st'.mheap = st.mheap ∧ st'.heap.size = st.heap.size ∧
      (∀ i, (i, true) ∈ ia → cell st' a.buf (a.off + i.toNat) = some (g (cellD st a.buf (a.off + i.toNat)))) ∧
      (∀ b' k', (b' ≠ a.buf ∨ ∀ i, (i, true) ∈ ia → k' ≠ a.off + i.toNat) → cell st' b' k' = cell st b' k') := by
  rw [kUnIter_fold]
  exact iter1_spec st a g _ ia (fun _ _ => rfl) hr hnd ha

def stepIter3VV (a b d : Win) (f g : BinF) (s : St) (x : (Int × Bool) × (Int × Bool) × (Int × Bool)) : Res St :=
  if x.1.2 && x.2.1.2 && x.2.2.2 then do
    s.wr d d.len x.2.2.1 (g (← s.rd d d.len x.2.2.1) (f (← s.rd a a.len x.1.1) (← s.rd b b.len x.2.1.1)))
  else pure s

theorem kIter3VV_fold (a b d : Win) (f g : BinF) : ∀ (ia ib ik : ItS) (s : St),
    kIter3VV s a b d f g ia ib ik = (ia.zip (ib.zip ik)).foldlM (stepIter3VV a b d f g) s := by
  intro ia
  induction ia with
  | nil => intro ib ik s; simp [kIter3VV]; rfl
  | cons p ia ih =>
    intro ib ik s
    cases ib with
    | nil => simp [kIter3VV]; rfl
    | cons q ib =>
      cases ik with
      | nil => simp [kIter3VV]; rfl
      | cons r ik =>
        obtain ⟨i, vi⟩ := p
        obtain ⟨j, vj⟩ := q
        obtain ⟨k, vk⟩ := r
        simp only [kIter3VV, List.zip_cons_cons, List.foldlM_cons, ih]
        rfl

theorem mem_zip3_iff {α β γ : Type} {l₁ : List α} {l₂ : List β} {l₃ : List γ} {x : α × β × γ} :
    x ∈ l₁.zip (l₂.zip l₃) ↔ ∃ k : Nat, l₁[k]? = some x.1 ∧ l₂[k]? = some x.2.1 ∧ l₃[k]? = some x.2.2 := by
  rw [mem_zip_iff]
  constructor
  · rintro ⟨k, h1, h2⟩; exact ⟨k, h1, List.getElem?_zip_eq_some.mp h2⟩
  · rintro ⟨k, h1, h2⟩; exact ⟨k, h1, List.getElem?_zip_eq_some.mpr h2⟩

/-- three-iterator kernel: destination `d` in a buffer different from both operand buffers -/
theorem kIter3VV_spec (st : St) (a b d : Win) (f g : BinF) (ia ib ik : ItS)
    (hna : a.buf ≠ d.buf) (hnb : b.buf ≠ d.buf)
    (hra : InRange ia a.len) (hrb : InRange ib b.len) (hrk : InRange ik d.len) (hnd : (ik.map (·.1)).Nodup)
    (ha : Has st a.buf a.off a.len) (hb : Has st b.buf b.off b.len) (hd : Has st d.buf d.off d.len) :
    ∃ st', kIter3VV st a b d f g ia ib ik = .ok st' ∧ st'.mheap = st.mheap ∧ st'.heap.size = st.heap.size ∧
      (∀ (k : Nat) i vi j vj m vm, ia[k]? = some (i, vi) → ib[k]? = some (j, vj) → ik[k]? = some (m, vm) →
        vi = true → vj = true → vm = true →
        cell st' d.buf (d.off + m.toNat) =
          some (g (cellD st d.buf (d.off + m.toNat))
            (f (cellD st a.buf (a.off + i.toNat)) (cellD st b.buf (b.off + j.toNat))))) ∧
      (∀ b' k', (b' ≠ d.buf ∨ ∀ (k : Nat) i vi j vj m vm, ia[k]? = some (i, vi) → ib[k]? = some (j, vj) →
          ik[k]? = some (m, vm) → vi = true → vj = true → vm = true → k' ≠ d.off + m.toNat) →
        cell st' b' k' = cell st b' k') := by
  rw [kIter3VV_fold]
  obtain ⟨st', hf, hm, hs, hv, hfr⟩ := wrLoop d d.len
    (fun x : (Int × Bool) × (Int × Bool) × (Int × Bool) => x.2.2.1)
    (fun x => x.1.2 && x.2.1.2 && x.2.2.2)
    (fun x => g (cellD st d.buf (d.off + x.2.2.1.toNat))
      (f (cellD st a.buf (a.off + x.1.1.toNat)) (cellD st b.buf (b.off + x.2.1.1.toNat))))
    (stepIter3VV a b d f g) (ia.zip (ib.zip ik)) st
    (by
      intro x hx _
      have := hrk x.2.2 (List.of_mem_zip (List.of_mem_zip hx).2).2
      exact ⟨this.1, this.2, hd.at this.1 this.2⟩)
    ((pairwise_zip_snd ia (ib.zip ik) (pairwise_zip_snd ib ik (nodup_fst_pairwise hnd))).imp (fun h _ _ => h))
    (by
      intro s x hx hax hag
      have h1 := hra x.1 (List.of_mem_zip hx).1
      have h2 := hrb x.2.1 (List.of_mem_zip (List.of_mem_zip hx).2).1
      have h3 := hrk x.2.2 (List.of_mem_zip (List.of_mem_zip hx).2).2
      unfold stepIter3VV
      simp only [hax, if_true, bind, Except.bind]
      rw [rd_agree_self hag d.len h3.1 h3.2 (hd.at h3.1 h3.2),
        rd_agree_other hag a a.len x.1.1 h1.1 h1.2 hna (ha.at h1.1 h1.2),
        rd_agree_other hag b b.len x.2.1.1 h2.1 h2.2 hnb (hb.at h2.1 h2.2)])
    (by
      intro s x _ hax
      unfold stepIter3VV
      simp only [hax]
      rfl)
  refine ⟨st', hf, hm, hs, ?_, ?_⟩
  · intro k i vi j vj m vm h1 h2 h3 hvi hvj hvm
    exact hv ((i, vi), (j, vj), (m, vm)) (mem_zip3_iff.mpr ⟨k, h1, h2, h3⟩) (by simp [hvi, hvj, hvm])
  · intro b' k' hbk
    apply hfr
    rcases hbk with hb' | hk
    · exact Or.inl hb'
    · refine Or.inr ?_
      intro x hx hax
      obtain ⟨k, h1, h2, h3⟩ := mem_zip3_iff.mp hx
      simp only [Bool.and_eq_true] at hax
      exact hk k x.1.1 x.1.2 x.2.1.1 x.2.1.2 x.2.2.1 x.2.2.2 h1 h2 h3 hax.1.1 hax.1.2 hax.2

/-! ### dispatchers -/

theorem rd0_of_cell {s : St} {w : Win} {v : Val} (hc : cell s w.buf w.off = some v) : s.rd w 1 0 = .ok v :=
  St.rd_of_cell (by omega) (by omega) (by simpa using hc)

theorem eOp_SV (st : St) (a b : Win) (f fv : BinF) (ha : a.len = 1) (hb : b.len ≠ 1) :
    eOp st a b f fv = (do kSV st (← st.rd a 1 0) b f) := by
  simp [eOp, isSc, ha, hb]

theorem eOp_VS (st : St) (a b : Win) (f fv : BinF) (ha : a.len ≠ 1) (hb : b.len = 1) :
    eOp st a b f fv = (do kVS st a (← st.rd b 1 0) f) := by
  simp [eOp, isSc, ha, hb]

theorem eOp_VV (st : St) (a b : Win) (f fv : BinF) (h : a.len = 1 ↔ b.len = 1) :
    eOp st a b f fv = kVV st a b fv := by
  by_cases ha : a.len = 1
  · simp [eOp, isSc, ha, h.mp ha]
  · have hb : b.len ≠ 1 := fun hb => ha (h.mpr hb)
    simp [eOp, isSc, ha, hb]

/-- scalar operand on the LEFT: `b[i] = f a0 b[i]` -/
theorem eOp_scalar_left (st : St) (a b : Win) (f fv : BinF) (a0 : Val) (ha : a.len = 1) (hb : b.len ≠ 1)
    (h0 : cell st a.buf a.off = some a0) : eOp st a b f fv = kSV st a0 b f := by
  rw [eOp_SV st a b f fv ha hb, rd0_of_cell h0]; rfl

/-- scalar operand on the RIGHT: `a[i] = f a[i] b0` -/
theorem eOp_scalar_right (st : St) (a b : Win) (f fv : BinF) (b0 : Val) (ha : a.len ≠ 1) (hb : b.len = 1)
    (h0 : cell st b.buf b.off = some b0) : eOp st a b f fv = kVS st a b0 f := by
  rw [eOp_VS st a b f fv ha hb, rd0_of_cell h0]; rfl

theorem eOpIter_SS (st : St) (a b : Win) (f fv : BinF) (ia ib : ItS) (ha : a.len = 1) (hb : b.len = 1) :
    eOpIter st a b f ia ib fv = kVV st a b fv := by
  simp [eOpIter, isSc, ha, hb]

theorem eOpIter_SV (st : St) (a b : Win) (f fv : BinF) (ia ib : ItS) (ha : a.len = 1) (hb : b.len ≠ 1) :
    eOpIter st a b f ia ib fv = (do kIterSV st (← st.rd a 1 0) b f ib) := by
  simp [eOpIter, isSc, ha, hb]

theorem eOpIter_VS (st : St) (a b : Win) (f fv : BinF) (ia ib : ItS) (ha : a.len ≠ 1) (hb : b.len = 1) :
    eOpIter st a b f ia ib fv = (do kIterVS st a (← st.rd b 1 0) f ia) := by
  simp [eOpIter, isSc, ha, hb]

theorem eOpIter_VV (st : St) (a b : Win) (f fv : BinF) (ia ib : ItS) (ha : a.len ≠ 1) (hb : b.len ≠ 1) :
    eOpIter st a b f ia ib fv = kIterVV st a b f ia ib := by
  simp [eOpIter, isSc, ha, hb]

theorem eOpIter_scalar_left (st : St) (a b : Win) (f fv : BinF) (ia ib : ItS) (a0 : Val) (ha : a.len = 1)
    (hb : b.len ≠ 1) (h0 : cell st a.buf a.off = some a0) :
    eOpIter st a b f ia ib fv = kIterSV st a0 b f ib := by
  rw [eOpIter_SV st a b f fv ia ib ha hb, rd0_of_cell h0]; rfl

theorem eOpIter_scalar_right (st : St) (a b : Win) (f fv : BinF) (ia ib : ItS) (b0 : Val) (ha : a.len ≠ 1)
    (hb : b.len = 1) (h0 : cell st b.buf b.off = some b0) :
    eOpIter st a b f ia ib fv = kIterVS st a b0 f ia := by
  rw [eOpIter_VS st a b f fv ia ib ha hb, rd0_of_cell h0]; rfl

/-- `E.Cmp` refuses a length-one receiver when exactly one operand is a scalar -/
theorem eCmp_refuses (st : St) (a b r : Win) (f : BinF) (h : (a.len = 1 ∧ b.len ≠ 1) ∨ (b.len = 1 ∧ a.len ≠ 1))
    (hr : r.len = 1) : eCmp st a b r f = .error (.err "retVal is a scalar") := by
  rcases h with ⟨ha, hb⟩ | ⟨hb, ha⟩ <;> simp [eCmp, isSc, ha, hb, hr] <;> rfl

theorem eCmp_SV (st : St) (a b r : Win) (f : BinF) (ha : a.len = 1) (hb : b.len ≠ 1) (hr : r.len ≠ 1) :
    eCmp st a b r f = (do kRecvSV st (← st.rd a 1 0) b r f) := by
  simp [eCmp, isSc, ha, hb, hr]

theorem eCmp_VS (st : St) (a b r : Win) (f : BinF) (ha : a.len ≠ 1) (hb : b.len = 1) (hr : r.len ≠ 1) :
    eCmp st a b r f = (do kRecvVS st a (← st.rd b 1 0) r f) := by
  simp [eCmp, isSc, ha, hb, hr]

theorem eCmp_VV (st : St) (a b r : Win) (f : BinF) (h : a.len = 1 ↔ b.len = 1) :
    eCmp st a b r f = kCmpVV st a b r f := by
  by_cases ha : a.len = 1
  · simp [eCmp, kCmpVV, isSc, ha, h.mp ha]
  · have hb : b.len ≠ 1 := fun hb => ha (h.mpr hb)
    simp [eCmp, kCmpVV, isSc, ha, hb]

/-- `E.<Op>Incr` refuses a length-one increment when exactly one operand is a scalar -/
theorem eOpIncr_refuses (st : St) (a b incr : Win) (f fv : BinF) (h : (a.len = 1 ∧ b.len ≠ 1) ∨ (b.len = 1 ∧ a.len ≠ 1))
    (hi : incr.len = 1) : eOpIncr st a b incr f fv = .error (.err "Cannot increment on scalar increment") := by
  rcases h with ⟨ha, hb⟩ | ⟨hb, ha⟩ <;> simp [eOpIncr, isSc, ha, hb, hi] <;> rfl

theorem eOpIncr_SV (st : St) (a b incr : Win) (f fv : BinF) (ha : a.len = 1) (hb : b.len ≠ 1) (hi : incr.len ≠ 1) :
    eOpIncr st a b incr f fv = (do kIncrSV st (← st.rd a 1 0) b incr f accAdd) := by
  simp [eOpIncr, isSc, ha, hb, hi]

theorem eOpIncr_VS (st : St) (a b incr : Win) (f fv : BinF) (ha : a.len ≠ 1) (hb : b.len = 1) (hi : incr.len ≠ 1) :
    eOpIncr st a b incr f fv = (do kIncrVS st a (← st.rd b 1 0) incr f accAdd) := by
  simp [eOpIncr, isSc, ha, hb, hi]

theorem eOpIncr_VV (st : St) (a b incr : Win) (f fv : BinF) (ha : a.len ≠ 1) (hb : b.len ≠ 1) :
    eOpIncr st a b incr f fv = kIncrVV st a b incr fv accAdd := by
  simp [eOpIncr, isSc, ha, hb]

/-- the scalar-scalar branch computes `fv a0 b0` aside (a temporary of the Go code that is no part of the state) and
    adds it to the increment; the operands are not written (finding F32, repaired) -/
theorem eOpIncr_SS (st : St) (a b incr : Win) (f fv : BinF) (ha : a.len = 1) (hb : b.len = 1) :
    eOpIncr st a b incr f fv = (do
      let a0 ← st.rd a 1 0
      let b0 ← st.rd b 1 0
      if incr.len ≠ 1 then kVS st incr (fv a0 b0) accAdd
      else do st.wr incr 1 0 (accAdd (← st.rd incr 1 0) (fv a0 b0))) := by
  simp [eOpIncr, isSc, ha, hb]

/-- What the scalar-scalar branch of `E.OpIncr` does: `fv a0 b0` is added to every cell of `incr`; no cell outside the
    window of `incr` changes — neither operand is written. No aliasing hypothesis is needed. -/
theorem eOpIncr_SS_spec (st : St) (a b incr : Win) (f fv : BinF) (ha : a.len = 1) (hb : b.len = 1)
    (hA : Has st a.buf a.off 1) (hB : Has st b.buf b.off 1) (hI : Has st incr.buf incr.off incr.len) :
    ∃ st', eOpIncr st a b incr f fv = .ok st' ∧
      Writes st st' incr.buf incr.off incr.len
        (fun i => accAdd (cellD st incr.buf (incr.off + i)) (fv (cellD st a.buf a.off) (cellD st b.buf b.off))) := by
  rw [eOpIncr_SS st a b incr f fv ha hb]
  have hca : cell st a.buf a.off = some (cellD st a.buf a.off) := cell_some_cellD (by simpa using hA 0 (by omega))
  have hcb : cell st b.buf b.off = some (cellD st b.buf b.off) := cell_some_cellD (by simpa using hB 0 (by omega))
  rw [rd0_of_cell hca, rd0_of_cell hcb]
  simp only [bind, Except.bind]
  by_cases hi : incr.len = 1
  · simp only [hi, ne_eq, not_true_eq_false, if_false]
    have hci := hI 0 (by omega)
    simp only [Nat.add_zero] at hci
    rw [rd0_of_cell (cell_some_cellD hci)]
    obtain ⟨s2, h2, hm2, hs2, hc2⟩ := St.wr_ok (s := st) (w := incr) (n := 1) (i := 0)
      (v := accAdd (cellD st incr.buf incr.off) (fv (cellD st a.buf a.off) (cellD st b.buf b.off)))
      (by omega) (by omega) (by simpa using hci)
    refine ⟨s2, h2, hm2, hs2, ?_, ?_⟩
    · intro i hlt
      have : i = 0 := by omega
      subst this
      rw [hc2]
      simp
    · intro b' k h
      rw [hc2]
      have : ¬ (b' = incr.buf ∧ k = incr.off + (0 : Int).toNat) := by
        rintro ⟨h1, h2⟩
        simp only [Int.toNat_zero, Nat.add_zero] at h2
        rcases h with h | h | h
        · exact h h1
        · omega
        · omega
      simp only [this, if_false]
  · simp only [hi, ne_eq, not_false_eq_true, if_true]
    exact kVS_spec st incr _ accAdd hI

/-! ### `St.get` / `St.set`, `rawCopy`, `clone`, fresh tensors at cell level -/

theorem St.get_of_cell {s : St} {w : Win} {i : Int} {v : Val} (h0 : 0 ≤ i) (h1 : i < w.len)
    (hc : cell s w.buf (w.off + i.toNat) = some v) : s.get w i = .ok v := by
  unfold St.get
  have hr : (decide (i < 0) || decide (i ≥ (w.len : Int))) = false := by
    simp only [Bool.or_eq_false_iff, decide_eq_false_iff_not]; omega
  simp only [hr]
  unfold cell at hc
  cases hb : s.heap[w.buf]? with
  | none => simp [hb] at hc
  | some bb =>
    simp only [hb, Option.bind_some] at hc
    simp [hc]

theorem St.set_total {s : St} {w : Win} {i : Int} {v : Val} (h0 : 0 ≤ i) (h1 : i < w.len)
    (hc : (cell s w.buf (w.off + i.toNat)).isSome = true) :
    ∃ s', s.set w i v = .ok s' ∧ s'.mheap = s.mheap ∧ s'.heap.size = s.heap.size ∧
      ∀ b k, cell s' b k = if b = w.buf ∧ k = w.off + i.toNat then some v else cell s b k := by
  obtain ⟨s', hw, h⟩ := St.wr_ok (v := v) (n := w.len) h0 h1 hc
  refine ⟨s', ?_, h⟩
  have hr : (decide (i < 0) || decide (i ≥ (w.len : Int))) = false := by
    simp only [Bool.or_eq_false_iff, decide_eq_false_iff_not]; omega
  unfold St.wr at hw
  unfold St.set
  simp only [hr] at hw ⊢
  cases hb : s.heap[w.buf]? with
  | none => simp only [hb] at hw; cases hw
  | some bb =>
    simp only [hb] at hw ⊢
    by_cases hk : w.off + i.toNat < bb.size
    · simp only [hk, if_true] at hw ⊢; exact hw
    · simp only [hk, if_false] at hw; cases hw

theorem mapM_ok_of {α β : Type} (f : α → Res β) (g : α → β) :
    ∀ (l : List α), (∀ x ∈ l, f x = .ok (g x)) → l.mapM f = .ok (l.map g) := by
  intro l
  induction l with
  | nil => intro _; rfl
  | cons x xs ih =>
    intro h
    simp only [List.mapM_cons, bind, Except.bind, pure, Except.pure, h x (by simp),
      ih (fun y hy => h y (List.mem_cons_of_mem _ hy)), List.map_cons]

theorem rawCopy_wr_total (dst : Win) :
    ∀ (vals : List Val) (s : St) (j : Nat), j + vals.length ≤ dst.len → Has s dst.buf (dst.off + j) vals.length →
      ∃ s', Dense.rawCopy.wr dst s (j : Int) vals = .ok s' ∧ s'.mheap = s.mheap ∧ s'.heap.size = s.heap.size ∧
        (∀ i, i < vals.length → cell s' dst.buf (dst.off + j + i) = vals[i]?) ∧
        (∀ b k, (b ≠ dst.buf ∨ k < dst.off + j ∨ dst.off + j + vals.length ≤ k) → cell s' b k = cell s b k) := by
  intro vals
  induction vals with
  | nil =>
    intro s j _ _
    exact ⟨s, rfl, rfl, rfl, fun i hi => by simp at hi, fun _ _ _ => rfl⟩
  | cons v vs ih =>
    intro s j hlen hh
    simp only [List.length_cons] at hlen hh
    obtain ⟨s1, h1, hm1, hs1, hc1⟩ := St.set_total (s := s) (w := dst) (i := (j : Int)) (v := v)
      (by omega) (by omega) (by simpa using hh 0 (by omega))
    simp only [Int.toNat_natCast] at hc1
    have hh1 : Has s1 dst.buf (dst.off + (j + 1)) vs.length := by
      intro i hi
      rw [hc1]
      split
      · rfl
      · have := hh (i + 1) (by omega)
        rwa [show dst.off + j + (i + 1) = dst.off + (j + 1) + i by omega] at this
    obtain ⟨s2, h2, hm2, hs2, hv2, hf2⟩ := ih s1 (j + 1) (by omega) hh1
    have hcast : (j : Int) + 1 = ((j + 1 : Nat) : Int) := by omega
    refine ⟨s2, ?_, hm2.trans hm1, hs2.trans hs1, ?_, ?_⟩
    · simp only [Dense.rawCopy.wr, h1, bind, Except.bind, hcast]; exact h2
    · intro i hi
      cases i with
      | zero =>
        rw [hf2 _ _ (Or.inr (Or.inl (by omega))), hc1]
        simp
      | succ i =>
        simp only [List.length_cons] at hi
        have := hv2 i (by omega)
        rw [show dst.off + (j + 1) + i = dst.off + j + (i + 1) by omega] at this
        rw [this]; simp
    · intro b k hbk
      simp only [List.length_cons] at hbk
      have hbk' : b ≠ dst.buf ∨ k < dst.off + (j + 1) ∨ dst.off + (j + 1) + vs.length ≤ k := by
        rcases hbk with h | h | h
        · exact Or.inl h
        · exact Or.inr (Or.inl (by omega))
        · exact Or.inr (Or.inr (by omega))
      rw [hf2 b k hbk', hc1]
      split
      · rename_i hh'
        rcases hbk with h | h | h
        · exact absurd hh'.1 h
        · omega
        · omega
      · rfl

/-- `copy(dst, src)` always succeeds on existing cells and copies the common prefix (the values are
    read before anything is written, so the windows may overlap) -/
theorem rawCopy_total (s : St) (dst src : Win)
    (hs : Has s src.buf src.off (min dst.len src.len)) (hd : Has s dst.buf dst.off (min dst.len src.len)) :
    ∃ s', Dense.rawCopy s dst src = .ok s' ∧
      Writes s s' dst.buf dst.off (min dst.len src.len) (fun i => cellD s src.buf (src.off + i)) := by
  unfold Dense.rawCopy
  have hm : (rangeI (min dst.len src.len)).mapM (fun i => s.get src i) =
      .ok ((rangeI (min dst.len src.len)).map (fun i => cellD s src.buf (src.off + i.toNat))) := by
    apply mapM_ok_of
    intro x hx
    obtain ⟨k, hk, rfl⟩ := mem_rangeI_cast.mp hx
    exact St.get_of_cell (by omega) (by omega) (by simpa using cell_some_cellD (hs k hk))
  simp only [hm, bind, Except.bind]
  have hlen : ((rangeI (min dst.len src.len)).map (fun i => cellD s src.buf (src.off + i.toNat))).length =
      min dst.len src.len := by simp [rangeI]
  obtain ⟨s', h', hm', hs', hv', hf'⟩ := rawCopy_wr_total dst _ s 0 (by rw [hlen]; omega)
    (by rw [hlen]; simpa using hd)
  refine ⟨s', by simpa using h', hm', hs', ?_, ?_⟩
  · intro i hi
    have := hv' i (by rw [hlen]; exact hi)
    simp only [Nat.add_zero] at this
    rw [this]
    simp [rangeI, hi]
  · intro b k hbk
    apply hf'
    rw [hlen]
    simpa using hbk

theorem cell_push_lt (st : St) (x : Array Val) (b k : Nat) (hb : b < st.heap.size) :
    cell { st with heap := st.heap.push x } b k = cell st b k := push_cell st.heap x b k hb

theorem cell_push_new (st : St) (x : Array Val) (k : Nat) :
    cell { st with heap := st.heap.push x } st.heap.size k = x[k]? := by
  simp [cell]

theorem Has.push {st : St} {b off n : Nat} (h : Has st b off n) (hb : b < st.heap.size) (x : Array Val) :
    Has { st with heap := st.heap.push x } b off n := by
  intro i hi
  rw [cell_push_lt st x b _ hb]; exact h i hi

theorem Has.push_new (st : St) (n : Nat) (v : Val) :
    Has { st with heap := st.heap.push (Array.replicate n v) } st.heap.size 0 n := by
  intro i hi
  rw [cell_push_new]
  simp [hi]

theorem cell_isSome_heap {s : St} {b k : Nat} (h : (cell s b k).isSome = true) :
    ∃ ba, s.heap[b]? = some ba ∧ k < ba.size := by
  unfold cell at h
  cases hb : s.heap[b]? with
  | none => simp [hb] at h
  | some ba =>
    refine ⟨ba, rfl, ?_⟩
    simp only [hb, Option.bind_some] at h
    cases hx : ba[k]? with
    | none => simp [hx] at h
    | some x => exact (Array.getElem?_eq_some_iff.mp hx).1

theorem cell_some_heap {s : St} {b k : Nat} {v : Val} (h : cell s b k = some v) :
    ∃ ba, s.heap[b]? = some ba ∧ ba[k]? = some v := by
  unfold cell at h
  cases hb : s.heap[b]? with
  | none => simp [hb] at h
  | some ba =>
    refine ⟨ba, rfl, ?_⟩
    simpa [hb] using h

/-- the tensor returned by `Clone()` in state `st` -/
def cloneOf (st : St) (t : Dense) : Dense :=
  { ap := { t.ap with fin := true }, old := t.old, tw := t.tw,
    win := ⟨st.heap.size, 0, t.win.len, t.win.len⟩, dt := t.dt, eng := t.eng }

/-- `Clone()` of an unmasked tensor whose window lies in an allocated buffer: total, fresh buffer,
    content copied, every existing buffer untouched -/
theorem clone_spec (st : St) (t : Dense) (hnm : t.mask = none) (hin : t.win.buf < st.heap.size)
    (hh : Has st t.win.buf t.win.off t.win.len) :
    ∃ st', t.clone st = .ok (st', cloneOf st t) ∧ st'.mheap = st.mheap ∧ st'.heap.size = st.heap.size + 1 ∧
      (∀ i, i < t.win.len → cell st' st.heap.size i = some (cellD st t.win.buf (t.win.off + i))) ∧
      (∀ b k, b < st.heap.size → cell st' b k = cell st b k) := by
  have hmin : min t.win.len t.win.len = t.win.len := Nat.min_self _
  obtain ⟨s', h', w'⟩ := rawCopy_total { st with heap := st.heap.push (Array.replicate t.win.len Val.zero) }
    ⟨st.heap.size, 0, t.win.len, t.win.len⟩ t.win
    (by simp only [hmin]; exact hh.push hin _)
    (by simp only [hmin]; exact Has.push_new st t.win.len Val.zero)
  simp only [hmin] at w'
  refine ⟨s', ?_, w'.mheap, by rw [w'.size]; simp, ?_, ?_⟩
  · unfold Dense.clone Dense.copyDense Dense.copyMask St.alloc
    simp only [hnm, bind, Except.bind, pure, Except.pure, h']
    rfl
  · intro i hi
    have := w'.val i hi
    simp only [Nat.zero_add] at this
    rw [this]
    unfold cellD
    rw [cell_push_lt st _ _ _ hin]
  · intro b k hb
    rw [w'.frame b k (Or.inl (Nat.ne_of_lt hb))]
    exact cell_push_lt st _ b k hb

/-- number of cells of a freshly created dense tensor of shape `sh` -/
def denseLen (sh : Shape) : Nat := if sh.isEmpty then 1 else (totalSize sh).toNat

/-- the state after allocating a zero-filled buffer of `n` cells -/
def allocZero (st : St) (n : Nat) : St := { st with heap := st.heap.push (Array.replicate n Val.zero) }

/-- the tensor created by `newDenseLike(e, dt, t)` in state `st` for an operand of shape `sh` and data order `col`: fresh
    buffer, the default strides of that order (`NewDense(dt, shape)` is the row-major case) -/
def freshOf (st : St) (dt : String) (sh : Shape) (col : Bool) : Dense :=
  { ap := { shape := sh, strides := Dense.defaultStrides col sh, fin := true, o := { col := col } },
    win := ⟨st.heap.size, 0, denseLen sh, denseLen sh⟩, dt := dt, eng := .std }

theorem newDenseZero_eq (st : St) (dt : String) (sh : Shape) (col : Bool) :
    newDenseZero st dt sh col = (allocZero st (denseLen sh), freshOf st dt sh col) := by
  simp [newDenseZero, Dense.fresh, St.alloc, allocZero, freshOf, denseLen]

theorem allocZero_cell_lt (st : St) (n b k : Nat) (hb : b < st.heap.size) :
    cell (allocZero st n) b k = cell st b k := cell_push_lt st _ b k hb

theorem allocZero_has (st : St) (n : Nat) : Has (allocZero st n) st.heap.size 0 n := Has.push_new st n Val.zero

theorem allocZero_cellD_lt (st : St) (n b k : Nat) (hb : b < st.heap.size) :
    cellD (allocZero st n) b k = cellD st b k := by
  unfold cellD; rw [allocZero_cell_lt st n b k hb]

theorem Has.allocZero {st : St} {b off n : Nat} (h : Has st b off n) (hb : b < st.heap.size) (m : Nat) :
    Has (TM.allocZero st m) b off n := h.push hb _

/-! ### `storage.CopyIter` -/

/-- one step of `storage.CopyIter` -/
def stepCopyIter (dst src : Win) (s : St) (x : Int × Int) : Res St :=
  if x.1 < 0 || x.2 < 0 || x.1 ≥ dst.cap || x.2 ≥ src.cap then throwPanic "CopyIter: slice bounds out of range" else do
    let v ← (match s.heap[src.buf]? with
      | some b => (match b[src.off + x.2.toNat]? with | some v => pure v | none => throwPanic "src")
      | none => throwPanic "src" : Res Val)
    match s.heap[dst.buf]? with
    | some b =>
      if dst.off + x.1.toNat < b.size then
        .ok { s with heap := s.heap.set! dst.buf (b.set! (dst.off + x.1.toNat) v) }
      else throwPanic "dst"
    | none => throwPanic "dst"

theorem copyIterOffsets_fold (dst src : Win) : ∀ (is js : List Int) (s : St),
    Dense.copyIterOffsets s dst src is js = (is.zip js).foldlM (stepCopyIter dst src) s := by
  intro is
  induction is with
  | nil => intro js s; simp [Dense.copyIterOffsets]; rfl
  | cons i is ih =>
    intro js s
    cases js with
    | nil => simp [Dense.copyIterOffsets]; rfl
    | cons j js =>
      simp only [Dense.copyIterOffsets, List.zip_cons_cons, List.foldlM_cons, stepCopyIter, ih]
      split
      · rfl
      · simp only [bind, Except.bind]
        cases hs : s.heap[src.buf]? with
        | none => rfl
        | some bs =>
          simp only
          cases hv : bs[src.off + j.toNat]? with
          | none => rfl
          | some v =>
            simp only [pure, Except.pure]
            cases hd : s.heap[dst.buf]? with
            | none => rfl
            | some b =>
              simp only
              split <;> rfl

/-- `storage.CopyIter` between different buffers: `dst[is[k]] = src[js[k]]` for the common prefix -/
theorem copyIterOffsets_spec (st : St) (dst src : Win) (is js : List Int) (nd ns : Nat)
    (hne : dst.buf ≠ src.buf) (hnd : nd ≤ dst.cap) (hns : ns ≤ src.cap)
    (hri : ∀ i ∈ is, 0 ≤ i ∧ i < (nd : Int)) (hrj : ∀ j ∈ js, 0 ≤ j ∧ j < (ns : Int)) (hdup : is.Nodup)
    (hd : Has st dst.buf dst.off nd) (hs : Has st src.buf src.off ns) :
    ∃ st', Dense.copyIterOffsets st dst src is js = .ok st' ∧ st'.mheap = st.mheap ∧ st'.heap.size = st.heap.size ∧
      (∀ (k : Nat) i j, is[k]? = some i → js[k]? = some j →
        cell st' dst.buf (dst.off + i.toNat) = some (cellD st src.buf (src.off + j.toNat))) ∧
      (∀ b' k', (b' ≠ dst.buf ∨ ∀ (k : Nat) i j, is[k]? = some i → js[k]? = some j → k' ≠ dst.off + i.toNat) →
        cell st' b' k' = cell st b' k') := by
  rw [copyIterOffsets_fold]
  obtain ⟨st', hf, hm, hsz, hv, hfr⟩ := wrLoop dst dst.cap (fun x : Int × Int => x.1) (fun _ => true)
    (fun x => cellD st src.buf (src.off + x.2.toNat)) (stepCopyIter dst src) (is.zip js) st
    (by
      intro x hx _
      have := hri x.1 (List.of_mem_zip hx).1
      exact ⟨this.1, by omega, hd.at this.1 this.2⟩)
    ((pairwise_zip_fst is js hdup).imp (fun h _ _ => h))
    (by
      intro s x hx _ hag
      have h1 := hri x.1 (List.of_mem_zip hx).1
      have h2 := hrj x.2 (List.of_mem_zip hx).2
      have hc : (decide (x.1 < 0) || decide (x.2 < 0) || decide (x.1 ≥ (dst.cap : Int)) ||
          decide (x.2 ≥ (src.cap : Int))) = false := by
        simp only [Bool.or_eq_false_iff, decide_eq_false_iff_not]; omega
      have hr : (decide (x.1 < 0) || decide (x.1 ≥ (dst.cap : Int))) = false := by
        simp only [Bool.or_eq_false_iff, decide_eq_false_iff_not]; omega
      obtain ⟨bs, hbs, hbv⟩ := cell_some_heap
        ((hag _ _ (Or.inl hne.symm)).trans (cell_some_cellD (hs.at h2.1 h2.2)))
      obtain ⟨bd, hbd, hbk⟩ := cell_isSome_heap
        (by rw [hag _ _ (Or.inr rfl)]; exact hd.at h1.1 h1.2 : (cell s dst.buf (dst.off + x.1.toNat)).isSome = true)
      unfold stepCopyIter St.wr
      simp only [hc, hr, hbs, hbv, hbd, hbk, bind, Except.bind, pure, Except.pure, if_true, Bool.false_eq_true, if_false])
    (by intro s x _ h; cases h)
  refine ⟨st', hf, hm, hsz, ?_, ?_⟩
  · intro k i j h1 h2
    exact hv (i, j) (mem_zip_iff.mpr ⟨k, h1, h2⟩) rfl
  · intro b' k' hbk
    apply hfr
    rcases hbk with hb' | hk
    · exact Or.inl hb'
    · refine Or.inr ?_
      intro x hx _
      obtain ⟨k, h1, h2⟩ := mem_zip_iff.mp hx
      exact hk k x.1 x.2 h1 h2
/-! ### engine glue: options -/

theorem hfo_none (st : St) (sh : Shape) (dt : String) (col strict : Bool) (u sm : Bool) :
    handleFuncOpts st sh dt col strict { unsafe_ := u, same := sm } =
      .ok (st, { reuse := none, safe := !u, toReuse := false, incr := false, same := sm }) := rfl

/-- a reuse / incr tensor that `handleFuncOpts` accepts as it is -/
structure ReuseFits (r : Dense) (sh : Shape) (dt : String) (col : Bool) : Prop where
  dt : r.dt = dt
  len : (r.win.len : Int) = totalSize sh
  shape : shapeEq r.shape sh = true
  col : r.ap.o.col = col

theorem hfo_reuse (st : St) (sh : Shape) (dt : String) (col strict : Bool) (r : Dense)
    (h : ReuseFits r sh dt col) :
    handleFuncOpts st sh dt col strict { reuse := some r } =
      .ok (st, { reuse := some r, safe := true, toReuse := true, incr := false, same := false }) := by
  unfold handleFuncOpts
  simp [h.dt, h.len, h.shape, h.col, bind, Except.bind, pure, Except.pure]

theorem hfo_incr (st : St) (sh : Shape) (dt : String) (col strict : Bool) (r : Dense)
    (h : ReuseFits r sh dt col) :
    handleFuncOpts st sh dt col strict { incr := some r } =
      .ok (st, { reuse := some r, safe := true, toReuse := true, incr := true, same := false }) := by
  unfold handleFuncOpts
  simp [h.dt, h.len, h.shape, bind, Except.bind, pure, Except.pure]

/-! ### engine glue: operands that share memory with the destination (`operandFor`) -/

theorem sharesMemory_of_buf_ne {p q : Dense} (h : p.win.buf ≠ q.win.buf) : sharesMemory p q = false := by
  simp [sharesMemory, h]

theorem prepAliasVV_none (s : St) (a b : Dense) : prepAliasVV s a b none = .ok (s, a, b) := rfl

theorem prepAliasT_none (s : St) (t : Dense) : prepAliasT s t none = .ok (s, t) := rfl

/-- no operand shares memory with the destination: nothing is copied -/
theorem prepAliasVV_sep (s : St) (a b r : Dense) (ha : sharesMemory a r = false) (hb : sharesMemory b r = false) :
    prepAliasVV s a b (some r) = .ok (s, a, b) := by
  simp [prepAliasVV, operandFor, ha, hb, bind, Except.bind, pure, Except.pure]

theorem prepAliasT_sep (s : St) (t r : Dense) (ht : sharesMemory t r = false) :
    prepAliasT s t (some r) = .ok (s, t) := by
  simp [prepAliasT, operandFor, ht, pure, Except.pure]

/-- the operand is handed on as it is when the destination does not share memory with it, or addresses exactly its
    cells in its sequence (in-place loop) -/
theorem prepAliasT_keep (s : St) (t r : Dense) (h : sharesMemory t r = false ∨ sameAccess t r = true) :
    prepAliasT s t (some r) = .ok (s, t) := by
  rcases h with h | h
  · exact prepAliasT_sep s t r h
  · cases hs : sharesMemory t r <;> simp [prepAliasT, operandFor, hs, h, pure, Except.pure]

theorem itStream_nomask (st : St) (t : Dense) (hm : t.mask = none) :
    t.itStream st = .ok (t.offsets.map (·, true)) := by
  unfold Dense.itStream
  simp [hm]
  rfl

theorem requiresIterator_len {t : Dense} (h : t.requiresIterator = true) : t.win.len ≠ 1 := by
  intro h1
  simp [Dense.requiresIterator, h1] at h


/-! ### `engArithVV`: which code path is taken -/

/-- the four checks of `binaryCheck` pass -/
structure BinOK (tc : List String) (a b : Dense) : Prop where
  ta : tc.contains a.dt = true
  dt : a.dt = b.dt
  sh : shapeEq a.shape b.shape = true

theorem BinOK.tb {tc : List String} {a b : Dense} (h : BinOK tc a b) : tc.contains b.dt = true := h.dt ▸ h.ta
theorem BinOK.ne {tc : List String} {a b : Dense} (h : BinOK tc a b) : (a.dt != b.dt) = false := by simp [h.dt]

theorem engArithVV_raw_safe (st : St) (op : String) (tc : List String) (a b : Dense) (hc : BinOK tc a b)
    (hk : (kernelTypes op).contains a.dt = true) (hia : a.requiresIterator = false)
    (hib : b.requiresIterator = false) (hord : sameOrd a b = true) :
    engArithVV st op tc a b {} = (do
      let (s, c) ← a.clone st
      let s ← eOp s c.win b.win (fun x y => .app2 op x y) (vecFn op a.dt)
      pure ⟨s, none, .fresh c⟩) := by
  unfold engArithVV
  simp only [hc.ta, hc.tb, hc.ne, hc.sh, hfo_none, prepAliasVV_none, prepAliasT_none, hk, hia, hib, hord, bind, Except.bind, pure, Except.pure,
    Bool.not_true, Bool.false_eq_true, if_false, Bool.or_false, Bool.and_false, Bool.not_false,
    Bool.and_true]

theorem engArithVV_raw_unsafe (st : St) (op : String) (tc : List String) (a b : Dense) (hc : BinOK tc a b)
    (hk : (kernelTypes op).contains a.dt = true) (hia : a.requiresIterator = false)
    (hib : b.requiresIterator = false) (hord : sameOrd a b = true) :
    engArithVV st op tc a b { unsafe_ := true } = (do
      let s ← eOp st a.win b.win (fun x y => .app2 op x y) (vecFn op a.dt)
      pure ⟨s, none, .a⟩) := by
  unfold engArithVV
  simp only [hc.ta, hc.tb, hc.ne, hc.sh, hfo_none, prepAliasVV_none, prepAliasT_none, hk, hia, hib, hord, bind, Except.bind, pure, Except.pure,
    Bool.not_true, Bool.false_eq_true, if_false, Bool.or_false, Bool.and_false, Bool.not_false,
    Bool.and_true, if_true]

theorem sameOrd_of_col {a b r : Dense} (hord : sameOrd a b = true) (hcol : r.ap.o.col = a.ap.o.col) :
    sameOrd a r = true ∧ sameOrd b r = true := by
  simp only [sameOrd, beq_iff_eq] at hord ⊢
  exact ⟨hcol.symm, by rw [← hord, hcol]⟩

theorem engArithVV_raw_reuse (st : St) (op : String) (tc : List String) (a b r : Dense) (hc : BinOK tc a b)
    (hk : (kernelTypes op).contains a.dt = true) (hia : a.requiresIterator = false)
    (hib : b.requiresIterator = false) (hir : r.requiresIterator = false) (hord : sameOrd a b = true)
    (hr : ReuseFits r a.shape a.dt a.ap.o.col)
    (hsa : sharesMemory a r = false) (hsb : sharesMemory b r = false) :
    engArithVV st op tc a b { reuse := some r } = (do
      let s ← eOpRecv st a.win b.win r.win (fun x y => .app2 op x y)
      pure ⟨s, some r, .reuse⟩) := by
  obtain ⟨h1, h2⟩ := sameOrd_of_col hord hr.col
  unfold engArithVV
  simp only [hc.ta, hc.tb, hc.ne, hc.sh, hfo_reuse _ _ _ _ _ _ hr, prepAliasVV_sep _ _ _ _ hsa hsb, hk, hia, hib, hir, hord, h1, h2, bind,
    Except.bind, pure, Except.pure,
    Bool.not_true, Bool.false_eq_true, if_false, Bool.or_false, Bool.and_false, Bool.not_false,
    Bool.and_true, if_true, Bool.false_and]

theorem engArithVV_raw_incr (st : St) (op : String) (tc : List String) (a b r : Dense) (hc : BinOK tc a b)
    (hk : (kernelTypes op).contains a.dt = true) (hia : a.requiresIterator = false)
    (hib : b.requiresIterator = false) (hir : r.requiresIterator = false) (hord : sameOrd a b = true)
    (hr : ReuseFits r a.shape a.dt a.ap.o.col)
    (hsa : sharesMemory a r = false) (hsb : sharesMemory b r = false) :
    engArithVV st op tc a b { incr := some r } = (do
      if incrRefused a.win b.win r.win then return ⟨st, some r, .failed⟩
      let s ← eOpIncr st a.win b.win r.win (fun x y => .app2 op x y) (vecFn op a.dt)
      pure ⟨s, some r, .reuse⟩) := by
  obtain ⟨h1, h2⟩ := sameOrd_of_col hord hr.col
  unfold engArithVV
  simp only [hc.ta, hc.tb, hc.ne, hc.sh, hfo_incr _ _ _ _ _ _ hr, prepAliasVV_sep _ _ _ _ hsa hsb, hk, hia, hib, hir, hord, h1, h2, bind,
    Except.bind, pure, Except.pure,
    Bool.not_true, Bool.false_eq_true, if_false, Bool.or_false, Bool.and_false, Bool.not_false,
    Bool.and_true, if_true, Bool.false_and]

theorem engArithVV_iter_safe (st : St) (op : String) (tc : List String) (a b : Dense) (hc : BinOK tc a b)
    (hk : (kernelTypes op).contains a.dt = true) (hia : a.requiresIterator = true)
    (hma : a.mask = none) (hmb : b.mask = none) :
    engArithVV st op tc a b {} = (do
      let (s, c) ← a.clone st
      let s ← eOpIter s c.win b.win (fun x y => .app2 op x y) (a.offsets.map (·, true)) (b.offsets.map (·, true))
        (vecFn op a.dt)
      pure ⟨s, none, .fresh c⟩) := by
  unfold engArithVV
  simp only [hc.ta, hc.tb, hc.ne, hc.sh, hfo_none, prepAliasVV_none, prepAliasT_none, hk, hia, itStream_nomask _ _ hma, itStream_nomask _ _ hmb,
    bind, Except.bind, pure, Except.pure,
    Bool.not_true, Bool.false_eq_true, if_false, Bool.or_false, Bool.and_false, Bool.not_false,
    Bool.and_true, if_true, Bool.true_or]

theorem engArithVV_iter_reuse (st : St) (op : String) (tc : List String) (a b r : Dense) (hc : BinOK tc a b)
    (hk : (kernelTypes op).contains a.dt = true) (hia : a.requiresIterator = true)
    (hma : a.mask = none) (hmb : b.mask = none) (hmr : r.mask = none)
    (hr : ReuseFits r a.shape a.dt a.ap.o.col)
    (hsa : sharesMemory a r = false) (hsb : sharesMemory b r = false) :
    engArithVV st op tc a b { reuse := some r } = (do
      let s ← Dense.copyIterOffsets st r.win a.win r.offsets a.offsets
      let s ← eOpIter s r.win b.win (fun x y => .app2 op x y) (r.offsets.map (·, true)) (b.offsets.map (·, true))
        (vecFn op a.dt)
      pure ⟨s, some r, .reuse⟩) := by
  have hmap : ∀ l : List Int, (l.map (·, true)).map (·.1) = l := by
    intro l; induction l with
    | nil => rfl
    | cons x xs ih => simp only [List.map_cons, ih]
  unfold engArithVV
  simp only [hc.ta, hc.tb, hc.ne, hc.sh, hfo_reuse _ _ _ _ _ _ hr, prepAliasVV_sep _ _ _ _ hsa hsb, hk, hia, itStream_nomask _ _ hma,
    itStream_nomask _ _ hmb, itStream_nomask _ _ hmr, hmap,
    bind, Except.bind, pure, Except.pure,
    Bool.not_true, Bool.false_eq_true, if_false, Bool.or_false, Bool.and_false, Bool.not_false,
    Bool.and_true, if_true, Bool.true_or, Bool.false_and]


/-! ### `engArithVV`: what the call does -/

theorem engArithVV_safe_raw' (st : St) (op : String) (tc : List String) (a b : Dense) (hc : BinOK tc a b)
    (hk : (kernelTypes op).contains a.dt = true) (hia : a.requiresIterator = false)
    (hib : b.requiresIterator = false) (hord : sameOrd a b = true)
    (hm : a.mask = none) (hlen : a.win.len = b.win.len) (hcap : a.win.len ≤ b.win.cap)
    (hA : InBuf st a.win.buf a.win.off a.win.len) (hB : InBuf st b.win.buf b.win.off a.win.len) :
    ∃ st', engArithVV st op tc a b {} = .ok ⟨st', none, .fresh (cloneOf st a)⟩ ∧ st'.mheap = st.mheap ∧
      (∀ i, i < a.win.len → cell st' st.heap.size i =
        some (vecFn op a.dt (cellD st a.win.buf (a.win.off + i)) (cellD st b.win.buf (b.win.off + i)))) ∧
      (∀ b' k, b' < st.heap.size → cell st' b' k = cell st b' k) := by
  rw [engArithVV_raw_safe st op tc a b hc hk hia hib hord]
  obtain ⟨s1, h1, hm1, hs1, hv1, hf1⟩ := clone_spec st a hm hA.lt hA.has
  simp only [h1, bind, Except.bind]
  rw [eOp_VV _ _ _ _ _ (by simp [cloneOf, hlen])]
  have hHc : Has s1 st.heap.size 0 a.win.len := by
    intro i hi
    rw [Nat.zero_add, hv1 i hi]; rfl
  have hHb : Has s1 b.win.buf b.win.off a.win.len := by
    intro i hi
    rw [hf1 _ _ hB.lt]; exact hB.has i hi
  obtain ⟨s2, h2, w2⟩ := kVV_spec s1 (cloneOf st a).win b.win (vecFn op a.dt)
    (by simp only [cloneOf]; exact (Nat.ne_of_lt hB.lt).symm) hcap hHc hHb
  simp only [cloneOf] at h2 w2 ⊢
  refine ⟨s2, by rw [h2]; rfl, w2.mheap.trans hm1, ?_, ?_⟩
  · intro i hi
    have := w2.val i hi
    simp only [Nat.zero_add] at this
    rw [this, cellD_of_some (hv1 i hi)]
    unfold cellD
    rw [hf1 _ _ hB.lt]
  · intro b' k hb'
    rw [w2.other (Nat.ne_of_lt hb'), hf1 b' k hb']

theorem engArithVV_refuses' (st : St) (op : String) (tc : List String) (a b : Dense) (o : Opts)
    (h : tc.contains a.dt = false ∨ a.dt ≠ b.dt ∨ shapeEq a.shape b.shape = false) :
    ∃ tag, engArithVV st op tc a b o = .error (.err tag) := by
  unfold engArithVV
  by_cases h1 : tc.contains a.dt = true
  · by_cases h2 : tc.contains b.dt = true
    · by_cases h3 : a.dt = b.dt
      · have h4 : shapeEq a.shape b.shape = false := by
          rcases h with h | h | h
          · rw [h1] at h; cases h
          · exact absurd h3 h
          · exact h
        have hne : (a.dt != b.dt) = false := by simp [h3]
        simp only [h1, h2, hne, h4, bind, Except.bind, Bool.not_true, Bool.false_eq_true, if_false, Bool.not_false,
          if_true, throwErr]
        exact ⟨_, rfl⟩
      · have hne : (a.dt != b.dt) = true := by simp [h3]
        simp only [h1, h2, hne, bind, Except.bind, Bool.not_true, Bool.false_eq_true, if_false, if_true, throwErr]
        exact ⟨_, rfl⟩
    · simp only [h1, h2, bind, Except.bind, Bool.not_true, Bool.false_eq_true, if_false, Bool.not_false, if_true,
        throwErr]
      exact ⟨_, rfl⟩
  · simp only [h1, bind, Except.bind, Bool.not_false, if_true, throwErr]
    exact ⟨_, rfl⟩

/-- `UseUnsafe()` mode, raw path: only the window of `a` is written -/
theorem engArithVV_unsafe_raw' (st : St) (op : String) (tc : List String) (a b : Dense) (hc : BinOK tc a b)
    (hk : (kernelTypes op).contains a.dt = true) (hia : a.requiresIterator = false)
    (hib : b.requiresIterator = false) (hord : sameOrd a b = true)
    (hne : a.win.buf ≠ b.win.buf) (hlen : a.win.len = b.win.len) (hcap : a.win.len ≤ b.win.cap)
    (hA : InBuf st a.win.buf a.win.off a.win.len) (hB : InBuf st b.win.buf b.win.off a.win.len) :
    ∃ st', engArithVV st op tc a b { unsafe_ := true } = .ok ⟨st', none, .a⟩ ∧
      Writes st st' a.win.buf a.win.off a.win.len (fun i =>
        vecFn op a.dt (cellD st a.win.buf (a.win.off + i)) (cellD st b.win.buf (b.win.off + i))) := by
  rw [engArithVV_raw_unsafe st op tc a b hc hk hia hib hord, eOp_VV _ _ _ _ _ (by rw [hlen])]
  obtain ⟨s2, h2, w2⟩ := kVV_spec st a.win b.win (vecFn op a.dt) hne hcap hA.has hB.has
  exact ⟨s2, by simp only [h2, bind, Except.bind]; rfl, w2⟩

/-- reuse mode, raw path: only the window of the reuse tensor is written -/
theorem engArithVV_reuse_raw' (st : St) (op : String) (tc : List String) (a b r : Dense) (hc : BinOK tc a b)
    (hk : (kernelTypes op).contains a.dt = true) (hia : a.requiresIterator = false)
    (hib : b.requiresIterator = false) (hir : r.requiresIterator = false) (hord : sameOrd a b = true)
    (hr : ReuseFits r a.shape a.dt a.ap.o.col)
    (hna : a.win.buf ≠ r.win.buf) (hnb : b.win.buf ≠ r.win.buf)
    (hca : r.win.len ≤ a.win.cap) (hcb : r.win.len ≤ b.win.cap)
    (hA : InBuf st a.win.buf a.win.off r.win.len) (hB : InBuf st b.win.buf b.win.off r.win.len)
    (hR : InBuf st r.win.buf r.win.off r.win.len) :
    ∃ st', engArithVV st op tc a b { reuse := some r } = .ok ⟨st', some r, .reuse⟩ ∧
      Writes st st' r.win.buf r.win.off r.win.len (fun i =>
        .app2 op (cellD st a.win.buf (a.win.off + i)) (cellD st b.win.buf (b.win.off + i))) := by
  rw [engArithVV_raw_reuse st op tc a b r hc hk hia hib hir hord hr (sharesMemory_of_buf_ne hna) (sharesMemory_of_buf_ne hnb)]
  obtain ⟨s2, h2, w2⟩ := kRecvVV_spec st a.win b.win r.win (fun x y => .app2 op x y) hna hnb hca hcb
    hA.has hB.has hR.has
  exact ⟨s2, by simp only [eOpRecv, h2, bind, Except.bind]; rfl, w2⟩

/-- incr mode, raw path, non-scalar operands: `incr[i] += a[i] op b[i]`, only `incr` is written -/
theorem engArithVV_incr_raw' (st : St) (op : String) (tc : List String) (a b r : Dense) (hc : BinOK tc a b)
    (hk : (kernelTypes op).contains a.dt = true) (hia : a.requiresIterator = false)
    (hib : b.requiresIterator = false) (hir : r.requiresIterator = false) (hord : sameOrd a b = true)
    (hr : ReuseFits r a.shape a.dt a.ap.o.col)
    (hna : a.win.buf ≠ r.win.buf) (hnb : b.win.buf ≠ r.win.buf)
    (hla : a.win.len ≠ 1) (hlb : b.win.len ≠ 1)
    (hcb : a.win.len ≤ b.win.cap) (hcr : a.win.len ≤ r.win.cap)
    (hA : InBuf st a.win.buf a.win.off a.win.len) (hB : InBuf st b.win.buf b.win.off a.win.len)
    (hR : InBuf st r.win.buf r.win.off a.win.len) :
    ∃ st', engArithVV st op tc a b { incr := some r } = .ok ⟨st', some r, .reuse⟩ ∧
      Writes st st' r.win.buf r.win.off a.win.len (fun i =>
        accAdd (cellD st r.win.buf (r.win.off + i))
          (vecFn op a.dt (cellD st a.win.buf (a.win.off + i)) (cellD st b.win.buf (b.win.off + i)))) := by
  have hnr : incrRefused a.win b.win r.win = false := by simp [incrRefused, isSc, hla, hlb]
  rw [engArithVV_raw_incr st op tc a b r hc hk hia hib hir hord hr (sharesMemory_of_buf_ne hna) (sharesMemory_of_buf_ne hnb),
    eOpIncr_VV _ _ _ _ _ _ hla hlb]
  obtain ⟨s2, h2, w2⟩ := kIncrVV_spec st a.win b.win r.win (vecFn op a.dt) accAdd hna hnb hcb hcr
    hA.has hB.has hR.has
  exact ⟨s2, by simp only [hnr, h2, bind, Except.bind, Bool.false_eq_true, if_false]; rfl, w2⟩


/-- what `operandFor` returns for an unmasked operand whose window lies in an allocated buffer: the operand itself in the
    same state, or its clone in a fresh buffer — in both cases a tensor with the operand's metadata whose window holds the
    operand's elements, every existing cell being as before -/
theorem operandFor_spec (st : St) (t dst : Dense) (ip : Bool)
    (hm : sharesMemory t dst = true → t.mask = none) (hin : t.win.buf < st.heap.size)
    (hh : Has st t.win.buf t.win.off t.win.len) :
    ∃ s1 t', operandFor st t dst ip = .ok (s1, t') ∧ s1.mheap = st.mheap ∧ st.heap.size ≤ s1.heap.size ∧
      (∀ b k, b < st.heap.size → cell s1 b k = cell st b k) ∧
      t'.win.len = t.win.len ∧ t'.dt = t.dt ∧ t'.ap.shape = t.ap.shape ∧ t'.ap.strides = t.ap.strides ∧
      t'.ap.o = t.ap.o ∧ t'.old = t.old ∧ t'.win.buf < s1.heap.size ∧
      (∀ i, i < t.win.len → cell s1 t'.win.buf (t'.win.off + i) = some (cellD st t.win.buf (t.win.off + i))) ∧
      ((s1 = st ∧ t' = t) ∨ (sharesMemory t dst = true ∧ t' = cloneOf st t ∧ s1.heap.size = st.heap.size + 1)) := by
  have hself : ∀ i, i < t.win.len → cell st t.win.buf (t.win.off + i) = some (cellD st t.win.buf (t.win.off + i)) :=
    fun i hi => cell_some_cellD (hh i hi)
  by_cases hs : sharesMemory t dst = true
  · by_cases hp : (ip && sameAccess t dst) = true
    · exact ⟨st, t, by simp [operandFor, hs, hp, pure, Except.pure], rfl, Nat.le_refl _, fun _ _ _ => rfl, rfl, rfl, rfl,
        rfl, rfl, rfl, hin, hself, Or.inl ⟨rfl, rfl⟩⟩
    · obtain ⟨s1, h1, hm1, hs1, hv1, hf1⟩ := clone_spec st t (hm hs) hin hh
      refine ⟨s1, cloneOf st t, ?_, hm1, by omega, hf1, rfl, rfl, rfl, rfl, rfl, rfl, by simp only [cloneOf]; omega, ?_,
        Or.inr ⟨hs, rfl, hs1⟩⟩
      · simp only [operandFor, hs, hp, Bool.not_true, Bool.false_eq_true, if_false]
        exact h1
      · intro i hi
        have := hv1 i hi
        simpa only [cloneOf, Nat.zero_add] using this
  · have hs' : sharesMemory t dst = false := by simpa using hs
    exact ⟨st, t, by simp [operandFor, hs', pure, Except.pure], rfl, Nat.le_refl _, fun _ _ _ => rfl, rfl, rfl, rfl,
      rfl, rfl, rfl, hin, hself, Or.inl ⟨rfl, rfl⟩⟩

/-- `requiresIterator` only looks at the window length, the order flags, the pending transpose and the mask -/
theorem requiresIterator_len_one {t : Dense} (h : t.win.len = 1) : t.requiresIterator = false := by
  simp [Dense.requiresIterator, h]

/-- incr mode on the raw path, in terms of what `prepDataVV` hands to the kernels (`a'`, `b'`: the operands themselves
    or their copies) -/
theorem engArithVV_raw_incr_gen (st : St) (op : String) (tc : List String) (a b r : Dense) (hc : BinOK tc a b)
    (hk : (kernelTypes op).contains a.dt = true) (hr : ReuseFits r a.shape a.dt a.ap.o.col)
    {s1 : St} {a' b' : Dense} (hpa : prepAliasVV st a b (some r) = .ok (s1, a', b'))
    (hdt : a'.dt = a.dt) (hia : a'.requiresIterator = false) (hib : b'.requiresIterator = false)
    (hir : r.requiresIterator = false) (hab : sameOrd a' b' = true) (har : sameOrd a' r = true)
    (hbr : sameOrd b' r = true) :
    engArithVV st op tc a b { incr := some r } = (do
      if incrRefused a'.win b'.win r.win then return ⟨s1, some r, .failed⟩
      let s ← eOpIncr s1 a'.win b'.win r.win (fun x y => .app2 op x y) (vecFn op a.dt)
      pure ⟨s, some r, .reuse⟩) := by
  unfold engArithVV
  simp only [hc.ta, hc.tb, hc.ne, hc.sh, hfo_incr _ _ _ _ _ _ hr, hpa, hdt, hk, hia, hib, hir, hab, har, hbr, bind,
    Except.bind, pure, Except.pure,
    Bool.not_true, Bool.false_eq_true, if_false, Bool.or_false, Bool.and_false, Bool.not_false,
    Bool.and_true, if_true, Bool.false_and]

/-- incr mode with two one-element operands (finding F32, repaired): `op a0 b0` is added to every cell of the increment;
    no other existing cell is written, whatever the aliasing between the three tensors (an operand that shares memory
    with the increment is read from a copy) -/
theorem engArithVV_incr_raw_one' (st : St) (op : String) (tc : List String) (a b r : Dense) (hc : BinOK tc a b)
    (hk : (kernelTypes op).contains a.dt = true) (hir : r.requiresIterator = false) (hord : sameOrd a b = true)
    (hr : ReuseFits r a.shape a.dt a.ap.o.col)
    (hla : a.win.len = 1) (hlb : b.win.len = 1)
    (hma : sharesMemory a r = true → a.mask = none) (hmb : sharesMemory b r = true → b.mask = none)
    (hA : InBuf st a.win.buf a.win.off 1) (hB : InBuf st b.win.buf b.win.off 1)
    (hR : InBuf st r.win.buf r.win.off r.win.len) :
    ∃ st', engArithVV st op tc a b { incr := some r } = .ok ⟨st', some r, .reuse⟩ ∧ st'.mheap = st.mheap ∧
      (∀ i, i < r.win.len → cell st' r.win.buf (r.win.off + i) =
        some (accAdd (cellD st r.win.buf (r.win.off + i))
          (vecFn op a.dt (cellD st a.win.buf a.win.off) (cellD st b.win.buf b.win.off)))) ∧
      (∀ b' k, b' < st.heap.size → (b' ≠ r.win.buf ∨ k < r.win.off ∨ r.win.off + r.win.len ≤ k) →
        cell st' b' k = cell st b' k) := by
  -- `prepDataVV`: b, then a
  obtain ⟨s1, b', h1, hm1, hle1, hf1, hbl, _, _, _, hbo, _, hbin, hbv, _⟩ := operandFor_spec st b r false hmb hB.lt
    (by rw [hlb]; exact hB.has)
  have hA1 : Has s1 a.win.buf a.win.off a.win.len := by
    intro i hi
    rw [hf1 _ _ hA.lt]; rw [hla] at hi; exact hA.has i hi
  have hsm : sharesMemory a r = true → a.mask = none := hma
  obtain ⟨s2, a', h2, hm2, hle2, hf2, hal, hadt, _, _, hao, _, hain, hav, _⟩ := operandFor_spec s1 a r true hsm
    (by have := hA.lt; omega) hA1
  have hpa : prepAliasVV st a b (some r) = .ok (s2, a', b') := by
    simp only [prepAliasVV, h1, h2, bind, Except.bind, pure, Except.pure]
  have hia : a'.requiresIterator = false := requiresIterator_len_one (by rw [hal, hla])
  have hib : b'.requiresIterator = false := requiresIterator_len_one (by rw [hbl, hlb])
  have hcolr := hr.col
  have hab : sameOrd a' b' = true := by
    simp only [sameOrd, beq_iff_eq] at hord ⊢
    rw [hao, hbo]; exact hord
  have har : sameOrd a' r = true := by
    simp only [sameOrd, beq_iff_eq]
    rw [hao, hcolr]
  have hbr : sameOrd b' r = true := by
    simp only [sameOrd, beq_iff_eq] at hord ⊢
    rw [hbo, hcolr, hord]
  have hnr : incrRefused a'.win b'.win r.win = false := by simp [incrRefused, isSc, hal, hla, hbl, hlb]
  rw [engArithVV_raw_incr_gen st op tc a b r hc hk hr hpa hadt hia hib hir hab har hbr]
  have hA2 : Has s2 a'.win.buf a'.win.off 1 := by
    intro i hi
    rw [hav i (by omega)]; rfl
  have hB2 : Has s2 b'.win.buf b'.win.off 1 := by
    intro i hi
    rw [hf2 _ _ hbin, hbv i (by omega)]; rfl
  have hR2 : Has s2 r.win.buf r.win.off r.win.len := by
    intro i hi
    rw [hf2 _ _ (by have := hR.lt; omega), hf1 _ _ hR.lt]; exact hR.has i hi
  obtain ⟨s3, h3, w3⟩ := eOpIncr_SS_spec s2 a'.win b'.win r.win (fun x y => .app2 op x y) (vecFn op a.dt)
    (by rw [hal, hla]) (by rw [hbl, hlb]) hA2 hB2 hR2
  have ea : cellD s2 a'.win.buf a'.win.off = cellD st a.win.buf a.win.off := by
    have := hav 0 (by omega)
    simp only [Nat.add_zero] at this
    rw [cellD_of_some this]
    unfold cellD
    rw [hf1 _ _ hA.lt]
  have eb : cellD s2 b'.win.buf b'.win.off = cellD st b.win.buf b.win.off := by
    have := hbv 0 (by omega)
    simp only [Nat.add_zero] at this
    unfold cellD
    rw [hf2 _ _ hbin, this]; rfl
  refine ⟨s3, by simp only [hnr, h3, bind, Except.bind, Bool.false_eq_true, if_false]; rfl,
    w3.mheap.trans (hm2.trans hm1), ?_, ?_⟩
  · intro i hi
    rw [w3.val i hi, ea, eb]
    have : cellD s2 r.win.buf (r.win.off + i) = cellD st r.win.buf (r.win.off + i) := by
      unfold cellD
      rw [hf2 _ _ (by have := hR.lt; omega), hf1 _ _ hR.lt]
    rw [this]
  · intro b'' k hb'' hbk
    rw [w3.frame b'' k hbk, hf2 _ _ (by omega), hf1 _ _ hb'']

/-! ### iterator path -/

theorem inRange_map_true {l : List Int} {n : Nat} (h : ∀ i ∈ l, 0 ≤ i ∧ i < (n : Int)) :
    InRange (l.map (·, true)) n := by
  intro p hp
  obtain ⟨i, hi, rfl⟩ := List.mem_map.mp hp
  exact h i hi

theorem map_true_fst (l : List Int) : (l.map (·, true)).map (·.1) = l := by
  induction l with
  | nil => rfl
  | cons x xs ih => simp only [List.map_cons, ih]

theorem getElem?_map_true {l : List Int} {k : Nat} {i : Int} (h : l[k]? = some i) :
    (l.map (·, true))[k]? = some (i, true) := by
  simp [List.getElem?_map, h]

theorem of_getElem?_map_true {l : List Int} {k : Nat} {i : Int} {vi : Bool}
    (h : (l.map (·, true))[k]? = some (i, vi)) : l[k]? = some i := by
  rw [List.getElem?_map] at h
  cases hl : l[k]? with
  | none => simp [hl] at h
  | some x =>
    simp only [hl, Option.map_some, Option.some.injEq, Prod.mk.injEq] at h
    rw [h.1]

/-- `storage.CopyIter` keeps the extent of every buffer -/
theorem copyIterOffsets_has (st st' : St) (dst : Win) (is js : List Int)
    (hv : ∀ (k : Nat) i j, is[k]? = some i → js[k]? = some j → (cell st' dst.buf (dst.off + i.toNat)).isSome = true)
    (hfr : ∀ b' k', (b' ≠ dst.buf ∨ ∀ (k : Nat) i j, is[k]? = some i → js[k]? = some j → k' ≠ dst.off + i.toNat) →
        cell st' b' k' = cell st b' k')
    {b off n : Nat} (h : Has st b off n) : Has st' b off n := by
  intro m hm
  by_cases hb : b = dst.buf
  · by_cases hex : ∃ (k : Nat) (i j : Int), is[k]? = some i ∧ js[k]? = some j ∧ off + m = dst.off + i.toNat
    · obtain ⟨k, i, j, h1, h2, he⟩ := hex
      rw [hb, he]
      exact hv k i j h1 h2
    · rw [hfr _ _ (Or.inr (fun k i j h1 h2 he => hex ⟨k, i, j, h1, h2, he⟩))]; exact h m hm
  · rw [hfr _ _ (Or.inl hb)]; exact h m hm

theorem engArithVV_safe_iter' (st : St) (op : String) (tc : List String) (a b : Dense) (hc : BinOK tc a b)
    (hk : (kernelTypes op).contains a.dt = true) (hia : a.requiresIterator = true)
    (hma : a.mask = none) (hmb : b.mask = none) (hlb : b.win.len ≠ 1)
    (hoa : ∀ i ∈ a.offsets, 0 ≤ i ∧ i < (a.win.len : Int)) (hob : ∀ j ∈ b.offsets, 0 ≤ j ∧ j < (b.win.len : Int))
    (hnd : a.offsets.Nodup)
    (hA : InBuf st a.win.buf a.win.off a.win.len) (hB : InBuf st b.win.buf b.win.off b.win.len) :
    ∃ st', engArithVV st op tc a b {} = .ok ⟨st', none, .fresh (cloneOf st a)⟩ ∧ st'.mheap = st.mheap ∧
      (∀ (k : Nat) i j, a.offsets[k]? = some i → b.offsets[k]? = some j →
        cell st' st.heap.size i.toNat =
          some (.app2 op (cellD st a.win.buf (a.win.off + i.toNat)) (cellD st b.win.buf (b.win.off + j.toNat)))) ∧
      (∀ m, m < a.win.len → (∀ (k : Nat) i j, a.offsets[k]? = some i → b.offsets[k]? = some j → m ≠ i.toNat) →
        cell st' st.heap.size m = some (cellD st a.win.buf (a.win.off + m))) ∧
      (∀ b' k, b' < st.heap.size → cell st' b' k = cell st b' k) := by
  rw [engArithVV_iter_safe st op tc a b hc hk hia hma hmb]
  obtain ⟨s1, h1, hm1, hs1, hv1, hf1⟩ := clone_spec st a hma hA.lt hA.has
  simp only [h1, bind, Except.bind]
  rw [eOpIter_VV _ _ _ _ _ _ _ (by simp only [cloneOf]; exact requiresIterator_len hia) hlb]
  have hHc : Has s1 st.heap.size 0 a.win.len := by
    intro i hi
    rw [Nat.zero_add, hv1 i hi]; rfl
  have hHb : Has s1 b.win.buf b.win.off b.win.len := by
    intro i hi
    rw [hf1 _ _ hB.lt]; exact hB.has i hi
  obtain ⟨s2, h2, hm2, _, hv2, hf2⟩ := kIterVV_spec s1 (cloneOf st a).win b.win (fun x y => .app2 op x y)
    (a.offsets.map (·, true)) (b.offsets.map (·, true))
    (by simp only [cloneOf]; exact (Nat.ne_of_lt hB.lt).symm)
    (inRange_map_true hoa) (inRange_map_true hob) (by rw [map_true_fst]; exact hnd) hHc hHb
  simp only [cloneOf] at h2 hv2 hf2 ⊢
  refine ⟨s2, by rw [h2]; rfl, hm2.trans hm1, ?_, ?_, ?_⟩
  · intro k i j hi hj
    have := hv2 k i true j true (getElem?_map_true hi) (getElem?_map_true hj) rfl rfl
    simp only [Nat.zero_add] at this
    have hlt := hoa i (List.mem_of_getElem? hi)
    rw [this, cellD_of_some (hv1 i.toNat (by omega))]
    unfold cellD
    rw [hf1 _ _ hB.lt]
  · intro m hm hne
    rw [hf2 _ _ (Or.inr ?_), hv1 m hm]
    intro k i vi j vj hi hj _ _
    rw [Nat.zero_add]
    exact hne k i j (of_getElem?_map_true hi) (of_getElem?_map_true hj)
  · intro b' k hb'
    rw [hf2 _ _ (Or.inl (Nat.ne_of_lt hb')), hf1 b' k hb']

/-- the iterator of a clone is the iterator of the original -/
theorem cloneOf_offsets (st : St) (t : Dense) : (cloneOf st t).offsets = t.offsets := rfl

/-- **F10 repaired** (`operandFor`): a second operand that shares memory with the reuse tensor is read from a copy made
    before anything is written — the call is the call on that copy -/
theorem engArithVV_reuse_alias_b (st : St) (op : String) (tc : List String) (a b r : Dense) (hc : BinOK tc a b)
    (hr : ReuseFits r a.shape a.dt a.ap.o.col)
    (hsb : sharesMemory b r = true) (hsa : sharesMemory a r = false) (hrl : r.win.buf < st.heap.size)
    {s1 : St} (h1 : b.clone st = .ok (s1, cloneOf st b)) :
    engArithVV st op tc a b { reuse := some r } = engArithVV s1 op tc a (cloneOf st b) { reuse := some r } := by
  have hsb' : sharesMemory (cloneOf st b) r = false :=
    sharesMemory_of_buf_ne (by simp only [cloneOf]; exact (Nat.ne_of_lt hrl).symm)
  have hdt' : (cloneOf st b).dt = b.dt := rfl
  have hsh' : (cloneOf st b).shape = b.shape := rfl
  have hpa : prepAliasVV st a b (some r) = .ok (s1, a, cloneOf st b) := by
    simp [prepAliasVV, operandFor, hsb, hsa, h1, bind, Except.bind, pure, Except.pure]
  unfold engArithVV
  simp only [hc.ta, hc.tb, hc.ne, hc.sh, hdt', hsh', hfo_reuse _ _ _ _ _ _ hr, hpa, prepAliasVV_sep _ _ _ _ hsa hsb',
    bind, Except.bind, pure, Except.pure, Bool.not_true, Bool.false_eq_true, if_false]

/-- reuse on the iterator path in terms of `Has` (cells exist) instead of `InBuf` -/
theorem engArithVV_reuse_iter_has' (st : St) (op : String) (tc : List String) (a b r : Dense) (hc : BinOK tc a b)
    (hk : (kernelTypes op).contains a.dt = true) (hia : a.requiresIterator = true)
    (hma : a.mask = none) (hmb : b.mask = none) (hmr : r.mask = none)
    (hr : ReuseFits r a.shape a.dt a.ap.o.col)
    (hnra : r.win.buf ≠ a.win.buf) (hnrb : r.win.buf ≠ b.win.buf)
    (hlr : r.win.len ≠ 1) (hlb : b.win.len ≠ 1) (hcr : r.win.len ≤ r.win.cap) (hca : a.win.len ≤ a.win.cap)
    (hor : ∀ i ∈ r.offsets, 0 ≤ i ∧ i < (r.win.len : Int)) (hoa : ∀ i ∈ a.offsets, 0 ≤ i ∧ i < (a.win.len : Int))
    (hob : ∀ j ∈ b.offsets, 0 ≤ j ∧ j < (b.win.len : Int)) (hnd : r.offsets.Nodup)
    (hA : Has st a.win.buf a.win.off a.win.len) (hB : Has st b.win.buf b.win.off b.win.len)
    (hR : Has st r.win.buf r.win.off r.win.len) :
    ∃ st', engArithVV st op tc a b { reuse := some r } = .ok ⟨st', some r, .reuse⟩ ∧ st'.mheap = st.mheap ∧
      (∀ (k : Nat) m i j, r.offsets[k]? = some m → a.offsets[k]? = some i → b.offsets[k]? = some j →
        cell st' r.win.buf (r.win.off + m.toNat) =
          some (.app2 op (cellD st a.win.buf (a.win.off + i.toNat)) (cellD st b.win.buf (b.win.off + j.toNat)))) ∧
      (∀ b' k', b' ≠ r.win.buf → cell st' b' k' = cell st b' k') := by
  rw [engArithVV_iter_reuse st op tc a b r hc hk hia hma hmb hmr hr (sharesMemory_of_buf_ne hnra.symm)
    (sharesMemory_of_buf_ne hnrb.symm)]
  obtain ⟨s1, h1, hm1, _, hv1, hf1⟩ := copyIterOffsets_spec st r.win a.win r.offsets a.offsets r.win.len a.win.len
    hnra hcr hca hor hoa hnd hR hA
  simp only [h1, bind, Except.bind]
  rw [eOpIter_VV _ _ _ _ _ _ _ hlr hlb]
  have hkeep : ∀ {b off n : Nat}, Has st b off n → Has s1 b off n :=
    copyIterOffsets_has st s1 r.win r.offsets a.offsets
      (fun k i j hi hj => by rw [hv1 k i j hi hj]; rfl) hf1
  obtain ⟨s2, h2, hm2, _, hv2, hf2⟩ := kIterVV_spec s1 r.win b.win (fun x y => .app2 op x y)
    (r.offsets.map (·, true)) (b.offsets.map (·, true)) hnrb
    (inRange_map_true hor) (inRange_map_true hob) (by rw [map_true_fst]; exact hnd) (hkeep hR) (hkeep hB)
  refine ⟨s2, by rw [h2]; rfl, hm2.trans hm1, ?_, ?_⟩
  · intro k m i j hm hi hj
    rw [hv2 k m true j true (getElem?_map_true hm) (getElem?_map_true hj) rfl rfl,
      cellD_of_some (hv1 k m i hm hi)]
    unfold cellD
    rw [hf1 _ _ (Or.inl hnrb.symm)]
  · intro b' k' hb'
    rw [hf2 _ _ (Or.inl hb'), hf1 _ _ (Or.inl hb')]

/-- reuse on the iterator path, reuse buffer different from both operand buffers -/
theorem engArithVV_reuse_iter' (st : St) (op : String) (tc : List String) (a b r : Dense) (hc : BinOK tc a b)
    (hk : (kernelTypes op).contains a.dt = true) (hia : a.requiresIterator = true)
    (hma : a.mask = none) (hmb : b.mask = none) (hmr : r.mask = none)
    (hr : ReuseFits r a.shape a.dt a.ap.o.col)
    (hnra : r.win.buf ≠ a.win.buf) (hnrb : r.win.buf ≠ b.win.buf)
    (hlr : r.win.len ≠ 1) (hlb : b.win.len ≠ 1) (hcr : r.win.len ≤ r.win.cap) (hca : a.win.len ≤ a.win.cap)
    (hor : ∀ i ∈ r.offsets, 0 ≤ i ∧ i < (r.win.len : Int)) (hoa : ∀ i ∈ a.offsets, 0 ≤ i ∧ i < (a.win.len : Int))
    (hob : ∀ j ∈ b.offsets, 0 ≤ j ∧ j < (b.win.len : Int)) (hnd : r.offsets.Nodup)
    (hA : InBuf st a.win.buf a.win.off a.win.len) (hB : InBuf st b.win.buf b.win.off b.win.len)
    (hR : InBuf st r.win.buf r.win.off r.win.len) :
    ∃ st', engArithVV st op tc a b { reuse := some r } = .ok ⟨st', some r, .reuse⟩ ∧ st'.mheap = st.mheap ∧
      (∀ (k : Nat) m i j, r.offsets[k]? = some m → a.offsets[k]? = some i → b.offsets[k]? = some j →
        cell st' r.win.buf (r.win.off + m.toNat) =
          some (.app2 op (cellD st a.win.buf (a.win.off + i.toNat)) (cellD st b.win.buf (b.win.off + j.toNat)))) ∧
      (∀ b' k', b' ≠ r.win.buf → cell st' b' k' = cell st b' k') :=
  engArithVV_reuse_iter_has' st op tc a b r hc hk hia hma hmb hmr hr hnra hnrb hlr hlb hcr hca hor hoa hob hnd
    hA.has hB.has hR.has

/-- **F10 repaired**: reuse on the iterator path with a reuse tensor that shares memory with the second operand (it may
    *be* the second operand): the reuse tensor receives `a[i] op b[j]` with `b`'s elements as they were before the call;
    no other existing buffer changes -/
theorem engArithVV_reuse_iter_alias' (st : St) (op : String) (tc : List String) (a b r : Dense) (hc : BinOK tc a b)
    (hk : (kernelTypes op).contains a.dt = true) (hia : a.requiresIterator = true)
    (hma : a.mask = none) (hmb : b.mask = none) (hmr : r.mask = none)
    (hr : ReuseFits r a.shape a.dt a.ap.o.col)
    (hnra : r.win.buf ≠ a.win.buf) (hsb : sharesMemory b r = true)
    (hlr : r.win.len ≠ 1) (hlb : b.win.len ≠ 1) (hcr : r.win.len ≤ r.win.cap) (hca : a.win.len ≤ a.win.cap)
    (hor : ∀ i ∈ r.offsets, 0 ≤ i ∧ i < (r.win.len : Int)) (hoa : ∀ i ∈ a.offsets, 0 ≤ i ∧ i < (a.win.len : Int))
    (hob : ∀ j ∈ b.offsets, 0 ≤ j ∧ j < (b.win.len : Int)) (hnd : r.offsets.Nodup)
    (hA : InBuf st a.win.buf a.win.off a.win.len) (hB : InBuf st b.win.buf b.win.off b.win.len)
    (hR : InBuf st r.win.buf r.win.off r.win.len) :
    ∃ st', engArithVV st op tc a b { reuse := some r } = .ok ⟨st', some r, .reuse⟩ ∧ st'.mheap = st.mheap ∧
      (∀ (k : Nat) m i j, r.offsets[k]? = some m → a.offsets[k]? = some i → b.offsets[k]? = some j →
        cell st' r.win.buf (r.win.off + m.toNat) =
          some (.app2 op (cellD st a.win.buf (a.win.off + i.toNat)) (cellD st b.win.buf (b.win.off + j.toNat)))) ∧
      (∀ b' k', b' < st.heap.size → b' ≠ r.win.buf → cell st' b' k' = cell st b' k') := by
  obtain ⟨s1, h1, hm1, hs1, hv1, hf1⟩ := clone_spec st b hmb hB.lt hB.has
  rw [engArithVV_reuse_alias_b st op tc a b r hc hr hsb (sharesMemory_of_buf_ne hnra.symm) hR.lt h1]
  have hc' : BinOK tc a (cloneOf st b) := ⟨hc.ta, hc.dt, hc.sh⟩
  have hA1 : Has s1 a.win.buf a.win.off a.win.len := fun i hi => by rw [hf1 _ _ hA.lt]; exact hA.has i hi
  have hR1 : Has s1 r.win.buf r.win.off r.win.len := fun i hi => by rw [hf1 _ _ hR.lt]; exact hR.has i hi
  have hB1 : Has s1 (cloneOf st b).win.buf (cloneOf st b).win.off (cloneOf st b).win.len := by
    intro i hi
    simp only [cloneOf, Nat.zero_add] at hi ⊢
    rw [hv1 i hi]; rfl
  obtain ⟨s2, h2, hm2, hv2, hf2⟩ := engArithVV_reuse_iter_has' s1 op tc a (cloneOf st b) r hc' hk hia hma rfl hmr hr hnra
    (by simp only [cloneOf]; exact Nat.ne_of_lt hR.lt) hlr (by simp only [cloneOf]; exact hlb) hcr hca hor hoa
    (by rw [cloneOf_offsets]; simpa only [cloneOf] using hob) hnd hA1 hB1 hR1
  refine ⟨s2, h2, hm2.trans hm1, ?_, ?_⟩
  · intro k m i j hm hi hj
    have hjr := hob j (List.mem_of_getElem? hj)
    rw [hv2 k m i j hm hi (by rw [cloneOf_offsets]; exact hj)]
    have e1 : cellD s1 a.win.buf (a.win.off + i.toNat) = cellD st a.win.buf (a.win.off + i.toNat) := by
      unfold cellD; rw [hf1 _ _ hA.lt]
    have e2 : cellD s1 (cloneOf st b).win.buf ((cloneOf st b).win.off + j.toNat) =
        cellD st b.win.buf (b.win.off + j.toNat) := by
      simp only [cloneOf, Nat.zero_add]
      exact cellD_of_some (hv1 j.toNat (by omega))
    rw [e1, e2]
  · intro b' k' hb' hne
    rw [hf2 _ _ hne, hf1 _ _ hb']

/-! ### `engCmpVV` / `engCmpScalar` -/

theorem engCmpVV_raw_default (st : St) (op : String) (tc : List String) (a b : Dense) (hc : BinOK tc a b)
    (hia : a.requiresIterator = false) (hib : b.requiresIterator = false) (hord : sameOrd a b = true) :
    engCmpVV st op tc a b {} = (do
      let s ← eCmp (allocZero st (denseLen a.shape)) a.win b.win (freshOf st "b" a.shape a.ap.o.col).win (fun x y => .app2 op x y)
      pure ⟨s, none, .fresh (freshOf st "b" a.shape a.ap.o.col)⟩) := by
  unfold engCmpVV
  simp only [hc.ta, hc.tb, hc.ne, hc.sh, hfo_none, prepAliasVV_none, prepAliasT_none, hia, hib, hord, newDenseZero_eq, bind, Except.bind, pure,
    Except.pure, Bool.not_true, Bool.false_eq_true, if_false, Bool.or_false, Bool.and_false, Bool.not_false,
    Bool.and_true, if_true, Bool.false_and, Bool.true_and, Bool.or_self, Bool.false_or]

theorem engCmpVV_raw_same (st : St) (op : String) (tc : List String) (a b : Dense) (hc : BinOK tc a b)
    (hia : a.requiresIterator = false) (hib : b.requiresIterator = false) (hord : sameOrd a b = true) :
    engCmpVV st op tc a b { same := true } = (do
      let s ← Dense.rawCopy (allocZero st (denseLen a.shape)) (freshOf st a.dt a.shape a.ap.o.col).win a.win
      let s ← eOp s (freshOf st a.dt a.shape a.ap.o.col).win b.win (fun x y => .app2 (op ++ ".same") x y)
      pure ⟨s, none, .fresh (freshOf st a.dt a.shape a.ap.o.col)⟩) := by
  unfold engCmpVV
  simp only [hc.ta, hc.tb, hc.ne, hc.sh, hfo_none, prepAliasVV_none, prepAliasT_none, hia, hib, hord, newDenseZero_eq, bind, Except.bind, pure,
    Except.pure, Bool.not_true, Bool.false_eq_true, if_false, Bool.or_false, Bool.and_false, Bool.not_false,
    Bool.and_true, if_true, Bool.false_and, Bool.true_and, Bool.or_self, Bool.false_or, Bool.true_or]

theorem engCmpVV_raw_unsafe (st : St) (op : String) (tc : List String) (a b : Dense) (hc : BinOK tc a b)
    (hia : a.requiresIterator = false) (hib : b.requiresIterator = false) (hord : sameOrd a b = true) :
    engCmpVV st op tc a b { unsafe_ := true } = (do
      let s ← eOp st a.win b.win (fun x y => .app2 (op ++ ".same") x y)
      pure ⟨s, none, .a⟩) := by
  unfold engCmpVV
  simp only [hc.ta, hc.tb, hc.ne, hc.sh, hfo_none, prepAliasVV_none, prepAliasT_none, hia, hib, hord, newDenseZero_eq, bind, Except.bind, pure,
    Except.pure, Bool.not_true, Bool.false_eq_true, if_false, Bool.or_false, Bool.and_false, Bool.not_false,
    Bool.and_true, if_true, Bool.false_and, Bool.true_and, Bool.or_self, Bool.false_or, Bool.or_true]


/-- default mode: a fresh *bool* tensor of `a`'s shape whose cell `i` is `op a[i] b[i]` -/
theorem engCmpVV_default' (st : St) (op : String) (tc : List String) (a b : Dense) (hc : BinOK tc a b)
    (hia : a.requiresIterator = false) (hib : b.requiresIterator = false) (hord : sameOrd a b = true)
    (hlen : a.win.len = b.win.len) (hcap : a.win.len ≤ b.win.cap) (hsz : a.win.len ≤ denseLen a.shape)
    (hA : InBuf st a.win.buf a.win.off a.win.len) (hB : InBuf st b.win.buf b.win.off a.win.len) :
    ∃ st', engCmpVV st op tc a b {} = .ok ⟨st', none, .fresh (freshOf st "b" a.shape a.ap.o.col)⟩ ∧ st'.mheap = st.mheap ∧
      (∀ i, i < a.win.len → cell st' st.heap.size i =
        some (.app2 op (cellD st a.win.buf (a.win.off + i)) (cellD st b.win.buf (b.win.off + i)))) ∧
      (∀ b' k, b' < st.heap.size → cell st' b' k = cell st b' k) := by
  rw [engCmpVV_raw_default st op tc a b hc hia hib hord, eCmp_VV _ _ _ _ _ (by rw [hlen])]
  obtain ⟨s2, h2, w2⟩ := kCmpVV_spec (allocZero st (denseLen a.shape)) a.win b.win (freshOf st "b" a.shape a.ap.o.col).win
    (fun x y => .app2 op x y)
    (by simp only [freshOf]; exact Nat.ne_of_lt hA.lt) (by simp only [freshOf]; exact Nat.ne_of_lt hB.lt)
    hcap (by simp only [freshOf]; exact hsz)
    (hA.has.allocZero hA.lt _) (hB.has.allocZero hB.lt _)
    (by simp only [freshOf]; exact (allocZero_has st _).mono hsz)
  simp only [freshOf] at h2 w2 ⊢
  refine ⟨s2, by simp only [h2, bind, Except.bind]; rfl, w2.mheap, ?_, ?_⟩
  · intro i hi
    have := w2.val i hi
    simp only [Nat.zero_add] at this
    rw [this, allocZero_cellD_lt _ _ _ _ hA.lt, allocZero_cellD_lt _ _ _ _ hB.lt]
  · intro b' k hb'
    rw [w2.other (Nat.ne_of_lt hb'), allocZero_cell_lt _ _ _ _ hb']

/-- `AsSameType`: a fresh tensor of the operand type whose cell `i` is the 1/0 form `op.same a[i] b[i]` -/
theorem engCmpVV_same' (st : St) (op : String) (tc : List String) (a b : Dense) (hc : BinOK tc a b)
    (hia : a.requiresIterator = false) (hib : b.requiresIterator = false) (hord : sameOrd a b = true)
    (hlen : a.win.len = b.win.len) (hcap : a.win.len ≤ b.win.cap) (hsz : a.win.len = denseLen a.shape)
    (hA : InBuf st a.win.buf a.win.off a.win.len) (hB : InBuf st b.win.buf b.win.off a.win.len) :
    ∃ st', engCmpVV st op tc a b { same := true } = .ok ⟨st', none, .fresh (freshOf st a.dt a.shape a.ap.o.col)⟩ ∧
      st'.mheap = st.mheap ∧
      (∀ i, i < a.win.len → cell st' st.heap.size i =
        some (.app2 (op ++ ".same") (cellD st a.win.buf (a.win.off + i)) (cellD st b.win.buf (b.win.off + i)))) ∧
      (∀ b' k, b' < st.heap.size → cell st' b' k = cell st b' k) := by
  rw [engCmpVV_raw_same st op tc a b hc hia hib hord]
  have hmin : min (freshOf st a.dt a.shape a.ap.o.col).win.len a.win.len = a.win.len := by
    simp only [freshOf, ← hsz, Nat.min_self]
  obtain ⟨s1, h1, w1⟩ := rawCopy_total (allocZero st (denseLen a.shape)) (freshOf st a.dt a.shape a.ap.o.col).win a.win
    (by rw [hmin]; exact hA.has.allocZero hA.lt _)
    (by rw [hmin]; simp only [freshOf]; rw [← hsz]; exact allocZero_has st _)
  rw [hmin] at w1
  simp only [h1, bind, Except.bind]
  rw [eOp_VV _ _ _ _ _ (by simp only [freshOf, ← hsz, hlen])]
  obtain ⟨s2, h2, w2⟩ := kVV_spec s1 (freshOf st a.dt a.shape a.ap.o.col).win b.win (fun x y => .app2 (op ++ ".same") x y)
    (by simp only [freshOf]; exact (Nat.ne_of_lt hB.lt).symm)
    (by simp only [freshOf, ← hsz]; exact hcap)
    (by simp only [freshOf, ← hsz]; exact w1.has (by rw [hsz]; exact allocZero_has st _))
    (by simp only [freshOf, ← hsz]; exact w1.has (hB.has.allocZero hB.lt _))
  simp only [freshOf, ← hsz] at h2 w1 w2 ⊢
  refine ⟨s2, by rw [h2]; rfl, w2.mheap.trans w1.mheap, ?_, ?_⟩
  · intro i hi
    have := w2.val i hi
    simp only [Nat.zero_add] at this
    rw [this, cellD_of_some (by simpa using w1.val i hi),
      w1.cellD_other (Nat.ne_of_lt hB.lt), allocZero_cellD_lt _ _ _ _ hA.lt, allocZero_cellD_lt _ _ _ _ hB.lt]
  · intro b' k hb'
    rw [w2.other (Nat.ne_of_lt hb'), w1.other (Nat.ne_of_lt hb'), allocZero_cell_lt _ _ _ _ hb']

/-- `UseUnsafe()`: the 1/0 result of the operand type overwrites `a`, which is returned -/
theorem engCmpVV_unsafe' (st : St) (op : String) (tc : List String) (a b : Dense) (hc : BinOK tc a b)
    (hia : a.requiresIterator = false) (hib : b.requiresIterator = false) (hord : sameOrd a b = true)
    (hne : a.win.buf ≠ b.win.buf) (hlen : a.win.len = b.win.len) (hcap : a.win.len ≤ b.win.cap)
    (hA : InBuf st a.win.buf a.win.off a.win.len) (hB : InBuf st b.win.buf b.win.off a.win.len) :
    ∃ st', engCmpVV st op tc a b { unsafe_ := true } = .ok ⟨st', none, .a⟩ ∧
      Writes st st' a.win.buf a.win.off a.win.len (fun i =>
        .app2 (op ++ ".same") (cellD st a.win.buf (a.win.off + i)) (cellD st b.win.buf (b.win.off + i))) := by
  rw [engCmpVV_raw_unsafe st op tc a b hc hia hib hord, eOp_VV _ _ _ _ _ (by rw [hlen])]
  obtain ⟨s2, h2, w2⟩ := kVV_spec st a.win b.win (fun x y => .app2 (op ++ ".same") x y) hne hcap hA.has hB.has
  exact ⟨s2, by simp only [h2, bind, Except.bind]; rfl, w2⟩

theorem engCmpVV_refuses' (st : St) (op : String) (tc : List String) (a b : Dense) (o : Opts)
    (h : tc.contains a.dt = false) : engCmpVV st op tc a b o = .error (.err "typeclass a") := by
  unfold engCmpVV
  simp only [h, bind, Except.bind, Bool.not_false, if_true, throwErr]

/-- a scalar that does not stand for a tensor (a literal) is not re-read after `handleFuncOpts` -/
theorem ScalarArg.refresh_none (s : St) (sc : ScalarArg) (h : sc.src = none) : sc.refresh s = s := by
  simp [ScalarArg.refresh, h]

theorem engCmpScalar_raw_default_right (st : St) (op : String) (tc : List String) (t : Dense) (sc : ScalarArg)
    (hta : tc.contains t.dt = true) (hdt : t.dt = sc.dt) (hsrc : sc.src = none) (hit : t.requiresIterator = false) :
    engCmpScalar st op tc t sc false {} = (do
      let s ← eCmp (allocZero st (denseLen t.shape)) sc.win t.win (freshOf st "b" t.shape t.ap.o.col).win (fun x y => .app2 op x y)
      pure ⟨s, none, .fresh (freshOf st "b" t.shape t.ap.o.col)⟩) := by
  have hne : (t.dt != sc.dt) = false := by simp [hdt]
  unfold engCmpScalar
  simp only [hta, hne, ScalarArg.refresh_none _ _ hsrc, hfo_none, prepAliasVV_none, prepAliasT_none, hit, newDenseZero_eq, bind, Except.bind, pure,
    Except.pure, Bool.not_true, Bool.false_eq_true, if_false, Bool.or_false, Bool.and_false, Bool.not_false,
    Bool.and_true, if_true, Bool.false_and, Bool.true_and, Bool.or_self, Bool.false_or]

/-- scalar on the LEFT (`leftTensor = false`), default mode: cell `i` of the fresh bool tensor is `op s t[i]` -/
theorem engCmpScalar_left' (st : St) (op : String) (tc : List String) (t : Dense) (sc : ScalarArg)
    (hta : tc.contains t.dt = true) (hdt : t.dt = sc.dt) (hsrc : sc.src = none) (hit : t.requiresIterator = false)
    (hs1 : sc.win.len = 1) (ht1 : t.win.len ≠ 1) (hsz : t.win.len = denseLen t.shape)
    (hS : InBuf st sc.win.buf sc.win.off 1) (hT : InBuf st t.win.buf t.win.off t.win.len) :
    ∃ st', engCmpScalar st op tc t sc false {} = .ok ⟨st', none, .fresh (freshOf st "b" t.shape t.ap.o.col)⟩ ∧
      st'.mheap = st.mheap ∧
      (∀ i, i < t.win.len → cell st' st.heap.size i =
        some (.app2 op (cellD st sc.win.buf sc.win.off) (cellD st t.win.buf (t.win.off + i)))) ∧
      (∀ b' k, b' < st.heap.size → cell st' b' k = cell st b' k) := by
  rw [engCmpScalar_raw_default_right st op tc t sc hta hdt hsrc hit,
    eCmp_SV _ _ _ _ _ hs1 ht1 (by simp only [freshOf, ← hsz]; exact ht1)]
  have hs0 : cell (allocZero st (denseLen t.shape)) sc.win.buf sc.win.off = some (cellD st sc.win.buf sc.win.off) := by
    rw [allocZero_cell_lt _ _ _ _ hS.lt]
    exact cell_some_cellD (by simpa using hS.has 0 (by omega))
  simp only [rd0_of_cell hs0, bind, Except.bind]
  obtain ⟨s2, h2, w2⟩ := kRecvSV_spec (allocZero st (denseLen t.shape)) (cellD st sc.win.buf sc.win.off) t.win
    (freshOf st "b" t.shape t.ap.o.col).win (fun x y => .app2 op x y)
    (by simp only [freshOf]; exact Nat.ne_of_lt hT.lt)
    (by simp only [freshOf, ← hsz]; exact Nat.le_refl _)
    (by simp only [freshOf, ← hsz]; exact hT.has.allocZero hT.lt _)
    (by simp only [freshOf]; exact allocZero_has st _)
  simp only [freshOf, ← hsz] at h2 w2 ⊢
  refine ⟨s2, by rw [h2]; rfl, w2.mheap, ?_, ?_⟩
  · intro i hi
    have := w2.val i hi
    simp only [Nat.zero_add] at this
    rw [this, allocZero_cellD_lt _ _ _ _ hT.lt]
  · intro b' k hb'
    rw [w2.other (Nat.ne_of_lt hb'), allocZero_cell_lt _ _ _ _ hb']

/-- `UseUnsafe()` with the scalar on the left, raw path: the in-place kernel, then — both sides having one element — the
    copy of the scalar's header back into the tensor -/
theorem engCmpScalar_raw_unsafe_left (st : St) (op : String) (tc : List String) (t : Dense) (sc : ScalarArg)
    (hta : tc.contains t.dt = true) (hdt : t.dt = sc.dt) (hsrc : sc.src = none) (hit : t.requiresIterator = false) :
    engCmpScalar st op tc t sc false { unsafe_ := true } = (do
      let s ← eOp st sc.win t.win (fun x y => .app2 (op ++ ".same") x y)
      let s ← (if (sc.win.len == 1 && t.win.len == 1) = true then Dense.rawCopy s t.win sc.win else pure s)
      pure ⟨s, none, .a⟩) := by
  have hne : (t.dt != sc.dt) = false := by simp [hdt]
  unfold engCmpScalar
  simp only [hta, hne, ScalarArg.refresh_none _ _ hsrc, hfo_none, prepAliasVV_none, prepAliasT_none, hit, bind, Except.bind, pure,
    Except.pure, Bool.not_true, Bool.false_eq_true, if_false, Bool.or_false, Bool.and_false, Bool.not_false,
    Bool.and_true, if_true, Bool.false_and, Bool.true_and, Bool.or_self, Bool.false_or, Bool.or_true]

/-- **F33 repaired.** `UseUnsafe()` with the scalar on the left of a one-element tensor: the tensor's cell becomes the
    1/0 form `op.same s t[0]` (scalar FIRST) and the tensor is returned; apart from the scalar's temporary header
    nothing else changes. -/
theorem engCmpScalar_unsafe_left_one' (st : St) (op : String) (tc : List String) (t : Dense) (sc : ScalarArg)
    (hta : tc.contains t.dt = true) (hdt : t.dt = sc.dt) (hsrc : sc.src = none) (hs1 : sc.win.len = 1) (ht1 : t.win.len = 1)
    (hne : sc.win.buf ≠ t.win.buf) (hcap : 1 ≤ t.win.cap)
    (hS : InBuf st sc.win.buf sc.win.off 1) (hT : InBuf st t.win.buf t.win.off 1) :
    ∃ st', engCmpScalar st op tc t sc false { unsafe_ := true } = .ok ⟨st', none, .a⟩ ∧ st'.mheap = st.mheap ∧
      cell st' t.win.buf t.win.off =
        some (.app2 (op ++ ".same") (cellD st sc.win.buf sc.win.off) (cellD st t.win.buf t.win.off)) ∧
      (∀ b' k, b' ≠ sc.win.buf → (b' ≠ t.win.buf ∨ k ≠ t.win.off) → cell st' b' k = cell st b' k) := by
  have hit : t.requiresIterator = false := by simp [Dense.requiresIterator, ht1]
  rw [engCmpScalar_raw_unsafe_left st op tc t sc hta hdt hsrc hit, eOp_VV _ _ _ _ _ (by rw [hs1, ht1])]
  obtain ⟨s1, h1, w1⟩ := kVV_spec st sc.win t.win (fun x y => .app2 (op ++ ".same") x y) hne (by rw [hs1]; exact hcap)
    (by rw [hs1]; exact hS.has) (by rw [hs1]; exact hT.has)
  rw [hs1] at w1
  have hmin : min t.win.len sc.win.len = 1 := by rw [hs1, ht1]; rfl
  obtain ⟨s2, h2, w2⟩ := rawCopy_total s1 t.win sc.win (by rw [hmin]; exact w1.has hS.has) (by rw [hmin]; exact w1.has hT.has)
  rw [hmin] at w2
  have hb : (sc.win.len == 1 && t.win.len == 1) = true := by simp [hs1, ht1]
  refine ⟨s2, by simp only [h1, hb, h2, bind, Except.bind, if_true]; rfl, w2.mheap.trans w1.mheap, ?_, ?_⟩
  · have hv2 := w2.val 0 (by omega)
    have hv1 := w1.val 0 (by omega)
    simp only [Nat.add_zero] at hv2 hv1
    rw [hv2, cellD_of_some hv1]
  · intro b' k hb' hbk
    rw [w2.frame b' k (by rcases hbk with h | h; exact Or.inl h; exact Or.inr (by omega)), w1.other hb']

/-! ### scalar on the left, iterator path, result of the operand's type (finding F31, repaired) -/

theorem hfo_reuse_same (st : St) (sh : Shape) (dt : String) (col strict : Bool) (r : Dense) (sm : Bool)
    (h : ReuseFits r sh dt col) :
    handleFuncOpts st sh dt col strict { reuse := some r, same := sm } =
      .ok (st, { reuse := some r, safe := true, toReuse := true, incr := false, same := sm }) := by
  unfold handleFuncOpts
  simp [h.dt, h.len, h.shape, h.col, bind, Except.bind, pure, Except.pure]

/-- The two steps the scalar-tensor methods take on the iterator path when the result has the operand's type:
    `storage.CopyIter(dataReuse, dataB, iit, bit)` and then the in-place scalar-vector kernel over the *result* with the
    result's own iterator (`<Op>Iter(typ, dataA, dataReuse, ait, iit)`). At the `k`-th position of the two iterators the
    result's cell receives `f s t[k-th]`; nothing outside the result's buffer changes. -/
theorem copyIter_then_kIterSV (s0 : St) (t r sc : Win) (f : BinF) (ro to_ : List Int)
    (hnrt : r.buf ≠ t.buf) (hnrs : r.buf ≠ sc.buf) (hcr : r.len ≤ r.cap) (hct : t.len ≤ t.cap)
    (hor : ∀ i ∈ ro, 0 ≤ i ∧ i < (r.len : Int)) (hot : ∀ j ∈ to_, 0 ≤ j ∧ j < (t.len : Int)) (hnd : ro.Nodup)
    (hR : Has s0 r.buf r.off r.len) (hT : Has s0 t.buf t.off t.len) (hS : Has s0 sc.buf sc.off 1) :
    ∃ s2, (do let s ← Dense.copyIterOffsets s0 r t ro to_
              kIterSV s (← s.rd sc 1 0) r f (ro.map (·, true))) = .ok s2 ∧
      s2.mheap = s0.mheap ∧
      (∀ (k : Nat) m j, ro[k]? = some m → to_[k]? = some j →
        cell s2 r.buf (r.off + m.toNat) =
          some (f (cellD s0 sc.buf sc.off) (cellD s0 t.buf (t.off + j.toNat)))) ∧
      (∀ b' k', b' ≠ r.buf → cell s2 b' k' = cell s0 b' k') := by
  obtain ⟨s1, h1, hm1, _, hv1, hf1⟩ := copyIterOffsets_spec s0 r t ro to_ r.len t.len hnrt hcr hct hor hot hnd hR hT
  have hkeep : ∀ {b off n : Nat}, Has s0 b off n → Has s1 b off n :=
    copyIterOffsets_has s0 s1 r ro to_ (fun k i j hi hj => by rw [hv1 k i j hi hj]; rfl) hf1
  have hsc : cell s1 sc.buf sc.off = some (cellD s0 sc.buf sc.off) := by
    rw [hf1 _ _ (Or.inl hnrs.symm)]
    exact cell_some_cellD (by simpa using hS 0 (by omega))
  obtain ⟨s2, h2, hm2, _, hv2, hf2⟩ := kIterSV_spec s1 (cellD s0 sc.buf sc.off) r f (ro.map (·, true))
    (inRange_map_true hor) (by rw [map_true_fst]; exact hnd) (hkeep hR)
  refine ⟨s2, by simp only [h1, rd0_of_cell hsc, h2, bind, Except.bind], hm2.trans hm1, ?_, ?_⟩
  · intro k m j hm hj
    rw [hv2 m (List.mem_of_getElem? (getElem?_map_true hm)), cellD_of_some (hv1 k m j hm hj)]
  · intro b' k' hb'
    rw [hf2 _ _ (Or.inl hb'), hf1 _ _ (Or.inl hb')]

/-- which path `<Cmp>Scalar(t, s, leftTensor = false, WithReuse(r), AsSameType())` takes for an operand that needs an
    iterator: the copy of the operand into `r` along the two iterators, then the 1/0 kernel over `r` with `r`'s iterator -/
theorem engCmpScalar_iter_same_left_reuse (st : St) (op : String) (tc : List String) (t r : Dense) (sc : ScalarArg)
    (hta : tc.contains t.dt = true) (hdt : t.dt = sc.dt) (hsrc : sc.src = none) (hit : t.requiresIterator = true)
    (hnsc : isScalar t.shape = false) (hs1 : sc.win.len = 1)
    (hmt : t.mask = none) (hmr : r.mask = none) (hr : ReuseFits r t.shape t.dt t.ap.o.col)
    (hst : sharesMemory t r = false) :
    engCmpScalar st op tc t sc false { reuse := some r, same := true } = (do
      let s ← Dense.copyIterOffsets st r.win t.win r.offsets t.offsets
      let s ← eOpIter s sc.win r.win (fun x y => .app2 (op ++ ".same") x y) [] (r.offsets.map (·, true))
      pure ⟨s, some r, .reuse⟩) := by
  have hne : (t.dt != sc.dt) = false := by simp [hdt]
  have hl : (sc.win.len != 1) = false := by simp [hs1]
  unfold engCmpScalar
  simp only [hta, hne, ScalarArg.refresh_none _ _ hsrc, hfo_reuse_same _ _ _ _ _ _ _ hr, prepAliasT_sep _ _ _ hst, hit, hnsc, hl, itStream_nomask _ _ hmt, itStream_nomask _ _ hmr,
    map_true_fst, bind, Except.bind, pure, Except.pure,
    Bool.not_true, Bool.false_eq_true, if_false, Bool.or_false, Bool.and_false, Bool.not_false,
    Bool.and_true, if_true, Bool.true_or, Bool.false_and, Bool.true_and, Bool.or_true]

/-- **F31 repaired**, destination given: at the `k`-th position of the iterators of `r` and `t`, `r` receives
    `op.same s t[k-th]` — scalar first; nothing outside `r`'s buffer changes -/
theorem engCmpScalar_iter_same_left_reuse' (st : St) (op : String) (tc : List String) (t r : Dense) (sc : ScalarArg)
    (hta : tc.contains t.dt = true) (hdt : t.dt = sc.dt) (hsrc : sc.src = none) (hit : t.requiresIterator = true)
    (hnsc : isScalar t.shape = false) (hs1 : sc.win.len = 1)
    (hmt : t.mask = none) (hmr : r.mask = none) (hr : ReuseFits r t.shape t.dt t.ap.o.col)
    (hnrt : r.win.buf ≠ t.win.buf) (hnrs : r.win.buf ≠ sc.win.buf) (hlr : r.win.len ≠ 1)
    (hcr : r.win.len ≤ r.win.cap) (hct : t.win.len ≤ t.win.cap)
    (hor : ∀ i ∈ r.offsets, 0 ≤ i ∧ i < (r.win.len : Int)) (hot : ∀ j ∈ t.offsets, 0 ≤ j ∧ j < (t.win.len : Int))
    (hnd : r.offsets.Nodup)
    (hR : InBuf st r.win.buf r.win.off r.win.len) (hT : InBuf st t.win.buf t.win.off t.win.len)
    (hS : InBuf st sc.win.buf sc.win.off 1) :
    ∃ st', engCmpScalar st op tc t sc false { reuse := some r, same := true } = .ok ⟨st', some r, .reuse⟩ ∧
      st'.mheap = st.mheap ∧
      (∀ (k : Nat) m j, r.offsets[k]? = some m → t.offsets[k]? = some j →
        cell st' r.win.buf (r.win.off + m.toNat) =
          some (.app2 (op ++ ".same") (cellD st sc.win.buf sc.win.off) (cellD st t.win.buf (t.win.off + j.toNat)))) ∧
      (∀ b' k', b' ≠ r.win.buf → cell st' b' k' = cell st b' k') := by
  rw [engCmpScalar_iter_same_left_reuse st op tc t r sc hta hdt hsrc hit hnsc hs1 hmt hmr hr (sharesMemory_of_buf_ne hnrt.symm)]
  obtain ⟨s2, h2, hm2, hv2, hf2⟩ := copyIter_then_kIterSV st t.win r.win sc.win (fun x y => .app2 (op ++ ".same") x y)
    r.offsets t.offsets hnrt hnrs hcr hct hor hot hnd hR.has hT.has hS.has
  refine ⟨s2, ?_, hm2, hv2, hf2⟩
  simp only [bind, Except.bind] at h2 ⊢
  cases hc : Dense.copyIterOffsets st r.win t.win r.offsets t.offsets with
  | error e => rw [hc] at h2; cases h2
  | ok s1 =>
    rw [hc] at h2
    simp only [] at h2 ⊢
    rw [eOpIter_SV _ _ _ _ _ _ _ hs1 hlr]
    simp only [bind, Except.bind]
    cases hrd : s1.rd sc.win 1 0 with
    | error e => rw [hrd] at h2; cases h2
    | ok v => rw [hrd] at h2; simp only [] at h2 ⊢; rw [h2]; rfl

/-- the same call without a destination (`AsSameType()` alone; the shape of the former witness of F31): the result is
    created with the operand's shape and data order, receives the operand's elements along the two iterators, and the
    1/0 kernel runs over it with its own iterator -/
theorem engCmpScalar_iter_same_left (st : St) (op : String) (tc : List String) (t : Dense) (sc : ScalarArg)
    (hta : tc.contains t.dt = true) (hdt : t.dt = sc.dt) (hsrc : sc.src = none) (hit : t.requiresIterator = true)
    (hnsc : isScalar t.shape = false) (hs1 : sc.win.len = 1) (hmt : t.mask = none) :
    engCmpScalar st op tc t sc false { same := true } = (do
      let s ← Dense.copyIterOffsets (allocZero st (denseLen t.shape)) (freshOf st t.dt t.shape t.ap.o.col).win t.win
        (freshOf st t.dt t.shape t.ap.o.col).offsets t.offsets
      let s ← eOpIter s sc.win (freshOf st t.dt t.shape t.ap.o.col).win (fun x y => .app2 (op ++ ".same") x y) []
        ((freshOf st t.dt t.shape t.ap.o.col).offsets.map (·, true))
      pure ⟨s, none, .fresh (freshOf st t.dt t.shape t.ap.o.col)⟩) := by
  have hne : (t.dt != sc.dt) = false := by simp [hdt]
  have hl : (sc.win.len != 1) = false := by simp [hs1]
  have hmf : (freshOf st t.dt t.shape t.ap.o.col).mask = none := rfl
  unfold engCmpScalar
  simp only [hta, hne, ScalarArg.refresh_none _ _ hsrc, hfo_none, prepAliasVV_none, prepAliasT_none, hit, hnsc, hl, newDenseZero_eq, itStream_nomask _ _ hmt, itStream_nomask _ _ hmf,
    map_true_fst, bind, Except.bind, pure, Except.pure,
    Bool.not_true, Bool.false_eq_true, if_false, Bool.or_false, Bool.and_false, Bool.not_false,
    Bool.and_true, if_true, Bool.true_or, Bool.false_and, Bool.true_and, Bool.or_true]

/-- **F31 repaired**, no destination given: the fresh tensor `r` of the operand's type, shape and data order holds, at
    the `k`-th offset of its own iterator, `op.same s t[k-th]` (scalar first, the operand's `k`-th logical element);
    every existing buffer is unchanged -/
theorem engCmpScalar_iter_same_left' (st : St) (op : String) (tc : List String) (t : Dense) (sc : ScalarArg)
    (hta : tc.contains t.dt = true) (hdt : t.dt = sc.dt) (hsrc : sc.src = none) (hit : t.requiresIterator = true)
    (hnsc : isScalar t.shape = false) (hs1 : sc.win.len = 1) (hmt : t.mask = none)
    (hl1 : denseLen t.shape ≠ 1) (hct : t.win.len ≤ t.win.cap)
    (hor : ∀ i ∈ (freshOf st t.dt t.shape t.ap.o.col).offsets, 0 ≤ i ∧ i < (denseLen t.shape : Int))
    (hot : ∀ j ∈ t.offsets, 0 ≤ j ∧ j < (t.win.len : Int))
    (hnd : (freshOf st t.dt t.shape t.ap.o.col).offsets.Nodup)
    (hT : InBuf st t.win.buf t.win.off t.win.len) (hS : InBuf st sc.win.buf sc.win.off 1) :
    ∃ st', engCmpScalar st op tc t sc false { same := true } =
        .ok ⟨st', none, .fresh (freshOf st t.dt t.shape t.ap.o.col)⟩ ∧ st'.mheap = st.mheap ∧
      (∀ (k : Nat) m j, (freshOf st t.dt t.shape t.ap.o.col).offsets[k]? = some m → t.offsets[k]? = some j →
        cell st' st.heap.size m.toNat =
          some (.app2 (op ++ ".same") (cellD st sc.win.buf sc.win.off) (cellD st t.win.buf (t.win.off + j.toNat)))) ∧
      (∀ b' k', b' < st.heap.size → cell st' b' k' = cell st b' k') := by
  rw [engCmpScalar_iter_same_left st op tc t sc hta hdt hsrc hit hnsc hs1 hmt]
  obtain ⟨s2, h2, hm2, hv2, hf2⟩ := copyIter_then_kIterSV (allocZero st (denseLen t.shape)) t.win
    (freshOf st t.dt t.shape t.ap.o.col).win sc.win (fun x y => .app2 (op ++ ".same") x y)
    (freshOf st t.dt t.shape t.ap.o.col).offsets t.offsets
    (by simp only [freshOf]; exact (Nat.ne_of_lt hT.lt).symm) (by simp only [freshOf]; exact (Nat.ne_of_lt hS.lt).symm)
    (by simp only [freshOf]; exact Nat.le_refl _) hct (by simpa only [freshOf] using hor) hot hnd
    (by simp only [freshOf]; exact allocZero_has st _) (hT.has.allocZero hT.lt _) (hS.has.allocZero hS.lt _)
  refine ⟨s2, ?_, hm2, ?_, ?_⟩
  · simp only [bind, Except.bind] at h2 ⊢
    cases hc : Dense.copyIterOffsets (allocZero st (denseLen t.shape)) (freshOf st t.dt t.shape t.ap.o.col).win t.win
        (freshOf st t.dt t.shape t.ap.o.col).offsets t.offsets with
    | error e => rw [hc] at h2; cases h2
    | ok s1 =>
      rw [hc] at h2
      simp only [] at h2 ⊢
      rw [eOpIter_SV _ _ _ _ _ _ _ hs1 (by simp only [freshOf]; exact hl1)]
      simp only [bind, Except.bind]
      cases hrd : s1.rd sc.win 1 0 with
      | error e => rw [hrd] at h2; cases h2
      | ok v => rw [hrd] at h2; simp only [] at h2 ⊢; rw [h2]; rfl
  · intro k m j hm hj
    have := hv2 k m j hm hj
    simp only [freshOf, Nat.zero_add] at this
    rw [this, allocZero_cellD_lt _ _ _ _ hS.lt, allocZero_cellD_lt _ _ _ _ hT.lt]
  · intro b' k' hb'
    rw [hf2 _ _ (by simp only [freshOf]; exact Nat.ne_of_lt hb'), allocZero_cell_lt _ _ _ _ hb']

/-! ### `engUnary`, `engMap` -/

/-- a destination that `handleFuncOpts` accepts as it is has the operand's data order (`prepDataUnary` asks for iterators
    when the two orders differ) -/
theorem ReuseFits.sameOrd {r a : Dense} {sh : Shape} {dt : String} (h : ReuseFits r sh dt a.ap.o.col) :
    sameOrd r a = true := by
  unfold TM.sameOrd
  simp [h.col]

theorem cloneOf_sameOrd (st : St) (a : Dense) : sameOrd (cloneOf st a) a = true := by
  simp [TM.sameOrd, cloneOf]

theorem shapeEq_self (s : Shape) : shapeEq s s = true := by
  unfold shapeEq
  split
  · rfl
  · split
    · rename_i h; simp only [Bool.and_eq_true, beq_iff_eq] at h; omega
    · split
      · rename_i h; simp only [Bool.and_eq_true, beq_iff_eq] at h; omega
      · simp


theorem engUnary_raw_safe (st : St) (g : UnF) (tc kt : List String) (strict : Bool) (a : Dense)
    (hta : tc.contains a.dt = true) (hk : kt.contains a.dt = true) (hia : a.requiresIterator = false) :
    engUnary st g tc kt strict a {} = (do
      let (s, c) ← a.clone st
      let s ← kUn s c.win g
      pure ⟨s, none, .fresh c⟩) := by
  unfold engUnary
  simp only [hta, hk, hfo_none, prepAliasT_none, hia, bind, Except.bind, pure, Except.pure, Bool.not_true, Bool.false_eq_true,
    if_false, Bool.or_false, Bool.not_false, if_true]

theorem engUnary_raw_unsafe (st : St) (g : UnF) (tc kt : List String) (strict : Bool) (a : Dense)
    (hta : tc.contains a.dt = true) (hk : kt.contains a.dt = true) (hia : a.requiresIterator = false) :
    engUnary st g tc kt strict a { unsafe_ := true } = (do
      let s ← kUn st a.win g
      pure ⟨s, none, .a⟩) := by
  unfold engUnary
  simp only [hta, hk, hfo_none, prepAliasT_none, hia, bind, Except.bind, pure, Except.pure, Bool.not_true, Bool.false_eq_true,
    if_false, Bool.or_false, Bool.not_false, if_true]

theorem engUnary_raw_reuse (st : St) (g : UnF) (tc kt : List String) (strict : Bool) (a r : Dense)
    (hta : tc.contains a.dt = true) (hk : kt.contains a.dt = true) (hia : a.requiresIterator = false)
    (hir : r.requiresIterator = false) (hr : ReuseFits r a.shape a.dt a.ap.o.col)
    (hal : sharesMemory a r = false ∨ sameAccess a r = true) :
    engUnary st g tc kt strict a { reuse := some r } = (do
      let s ← Dense.rawCopy st r.win a.win
      let s ← kUn s r.win g
      pure ⟨s, some r, .reuse⟩) := by
  unfold engUnary
  simp only [hta, hk, hfo_reuse _ _ _ _ _ _ hr, prepAliasT_keep _ _ _ hal, hia, hir, hr.sameOrd, bind, Except.bind, pure, Except.pure, Bool.not_true,
    Bool.false_eq_true, if_false, Bool.or_false, Bool.not_false, if_true]

theorem engUnary_refuses' (st : St) (g : UnF) (tc kt : List String) (strict : Bool) (a : Dense) (o : Opts)
    (h : tc.contains a.dt = false) : engUnary st g tc kt strict a o = .error (.err "typeclass a") := by
  unfold engUnary
  simp only [h, bind, Except.bind, Bool.not_false, if_true, throwErr]

theorem engUnary_safe' (st : St) (g : UnF) (tc kt : List String) (strict : Bool) (a : Dense)
    (hta : tc.contains a.dt = true) (hk : kt.contains a.dt = true) (hia : a.requiresIterator = false)
    (hm : a.mask = none) (hA : InBuf st a.win.buf a.win.off a.win.len) :
    ∃ st', engUnary st g tc kt strict a {} = .ok ⟨st', none, .fresh (cloneOf st a)⟩ ∧ st'.mheap = st.mheap ∧
      (∀ i, i < a.win.len → cell st' st.heap.size i = some (g (cellD st a.win.buf (a.win.off + i)))) ∧
      (∀ b' k, b' < st.heap.size → cell st' b' k = cell st b' k) := by
  rw [engUnary_raw_safe st g tc kt strict a hta hk hia]
  obtain ⟨s1, h1, hm1, hs1, hv1, hf1⟩ := clone_spec st a hm hA.lt hA.has
  simp only [h1, bind, Except.bind]
  have hHc : Has s1 st.heap.size 0 a.win.len := by
    intro i hi
    rw [Nat.zero_add, hv1 i hi]; rfl
  obtain ⟨s2, h2, w2⟩ := kUn_spec s1 (cloneOf st a).win g hHc
  simp only [cloneOf] at h2 w2 ⊢
  refine ⟨s2, by rw [h2]; rfl, w2.mheap.trans hm1, ?_, ?_⟩
  · intro i hi
    have := w2.val i hi
    simp only [Nat.zero_add] at this
    rw [this, cellD_of_some (hv1 i hi)]
  · intro b' k hb'
    rw [w2.other (Nat.ne_of_lt hb'), hf1 b' k hb']

theorem engUnary_unsafe' (st : St) (g : UnF) (tc kt : List String) (strict : Bool) (a : Dense)
    (hta : tc.contains a.dt = true) (hk : kt.contains a.dt = true) (hia : a.requiresIterator = false)
    (hA : InBuf st a.win.buf a.win.off a.win.len) :
    ∃ st', engUnary st g tc kt strict a { unsafe_ := true } = .ok ⟨st', none, .a⟩ ∧
      Writes st st' a.win.buf a.win.off a.win.len (fun i => g (cellD st a.win.buf (a.win.off + i))) := by
  rw [engUnary_raw_unsafe st g tc kt strict a hta hk hia]
  obtain ⟨s2, h2, w2⟩ := kUn_spec st a.win g hA.has
  exact ⟨s2, by simp only [h2, bind, Except.bind]; rfl, w2⟩

theorem engUnary_reuse' (st : St) (g : UnF) (tc kt : List String) (strict : Bool) (a r : Dense)
    (hta : tc.contains a.dt = true) (hk : kt.contains a.dt = true) (hia : a.requiresIterator = false)
    (hir : r.requiresIterator = false) (hr : ReuseFits r a.shape a.dt a.ap.o.col)
    (hlen : r.win.len = a.win.len) (hal : sharesMemory a r = false ∨ sameAccess a r = true)
    (hA : InBuf st a.win.buf a.win.off a.win.len) (hR : InBuf st r.win.buf r.win.off r.win.len) :
    ∃ st', engUnary st g tc kt strict a { reuse := some r } = .ok ⟨st', some r, .reuse⟩ ∧
      Writes st st' r.win.buf r.win.off r.win.len (fun i => g (cellD st a.win.buf (a.win.off + i))) := by
  rw [engUnary_raw_reuse st g tc kt strict a r hta hk hia hir hr hal]
  have hmin : min r.win.len a.win.len = r.win.len := by rw [hlen, Nat.min_self]
  obtain ⟨s1, h1, w1⟩ := rawCopy_total st r.win a.win (by rw [hmin, hlen]; exact hA.has) (by rw [hmin]; exact hR.has)
  rw [hmin] at w1
  obtain ⟨s2, h2, w2⟩ := kUn_spec s1 r.win g (w1.has hR.has)
  refine ⟨s2, by simp only [h1, h2, bind, Except.bind]; rfl, w2.mheap.trans w1.mheap, w2.size.trans w1.size, ?_, ?_⟩
  · intro i hi
    rw [w2.val i hi, cellD_of_some (w1.val i hi)]
  · intro b' k hbk
    rw [w2.frame b' k hbk, w1.frame b' k hbk]


theorem cloneOf_requiresIterator (st : St) (a : Dense) (hm : a.mask = none) :
    (cloneOf st a).requiresIterator = a.requiresIterator := by
  simp [Dense.requiresIterator, cloneOf, hm]

/-- a destination made by `Map` itself that has the operand's shape is returned as it is -/
theorem mapFin_created (a c : Dense) (given : Option Dense) (hs : c.shape = a.shape) (s : St) :
    mapFin a given (some c) true s = .ok ⟨s, given, .fresh c⟩ := by
  have h1 : (c.dims == a.dims) = true := by simp [Dense.dims, show c.ap.shape = a.ap.shape from hs]
  have h2 : shapeEq c.shape a.shape = true := by rw [hs]; exact shapeEq_self _
  unfold mapFin
  simp [h1, h2, pure, Except.pure]

/-- safe `Map` on a plain tensor: `g` is applied to a clone of the operand's data -/
theorem engMap_safe' (st : St) (g : UnF) (mt : List String) (a : Dense)
    (hmt : mt.contains a.dt = true) (hmz : a.isMaterializable = false) (hia : a.requiresIterator = false)
    (hm : a.mask = none)
    (hA : InBuf st a.win.buf a.win.off a.win.len) :
    ∃ st' c, engMap st g mt a {} = .ok ⟨st', none, .fresh c⟩ ∧ st'.mheap = st.mheap ∧
      c.win = ⟨st.heap.size, 0, a.win.len, a.win.len⟩ ∧ c.ap.shape = a.shape ∧ c.dt = a.dt ∧
      (∀ i, i < a.win.len → cell st' st.heap.size i = some (g (cellD st a.win.buf (a.win.off + i)))) ∧
      (∀ b' k, b' < st.heap.size → cell st' b' k = cell st b' k) := by
  obtain ⟨s1, h1, hm1, hs1, hv1, hf1⟩ := clone_spec st a hm hA.lt hA.has
  have hHc : Has s1 st.heap.size 0 a.win.len := by
    intro i hi
    rw [Nat.zero_add, hv1 i hi]; rfl
  obtain ⟨s2, h2, w2⟩ := kUn_spec s1 (cloneOf st a).win g hHc
  have hic : (cloneOf st a).requiresIterator = false := by rw [cloneOf_requiresIterator st a hm, hia]
  have hfin := mapFin_created a (cloneOf st a) none rfl s2
  have hsep : prepAliasT s1 a (some (cloneOf st a)) = .ok (s1, a) :=
    prepAliasT_sep s1 a _ (sharesMemory_of_buf_ne (by simp only [cloneOf]; exact Nat.ne_of_lt hA.lt))
  unfold engMap mapKern
  simp only [hfo_none, materialize_self' st a hmz, h1, hsep, hia, hic, cloneOf_sameOrd, hmt, h2, hfin, bind, Except.bind, pure,
    Except.pure, Bool.not_true, Bool.false_eq_true, if_false, Bool.or_false, Bool.not_false, if_true]
  simp only [cloneOf] at w2
  refine ⟨s2, _, rfl, w2.mheap.trans hm1, rfl, rfl, rfl, ?_, ?_⟩
  · intro i hi
    have := w2.val i hi
    simp only [Nat.zero_add] at this
    rw [this, cellD_of_some (hv1 i hi)]
  · intro b' k hb'
    rw [w2.other (Nat.ne_of_lt hb'), hf1 b' k hb']


/-- the outcome of `Map` for a destination `r` given by the caller: `r` itself when it has exactly the operand's shape,
    else `r` reshaped by `reuseCheckShape` — the same storage window in both cases -/
theorem mapFin_given (a r : Dense) (hr : ReuseFits r a.shape a.dt a.ap.o.col) (s : St) :
    ∃ r', mapFin a (some r) (some r) false s = .ok ⟨s, some r', .reuse⟩ ∧ r'.win = r.win := by
  have hne : ((r.win.len : Int) != totalSize a.shape) = false := by simp [hr.len]
  unfold mapFin
  by_cases hd : (r.dims == a.dims && shapeEq r.shape a.shape) = true
  · exact ⟨r, by simp [hd, pure, Except.pure], rfl⟩
  · refine ⟨{ r with ap := { r.ap with shape := a.shape, strides := if a.shape.isEmpty then [] else Dense.defaultStrides r.ap.o.col a.shape, fin := true }, old := none, tw := none, view := false }, ?_, rfl⟩
    simp [hd, hne, pure, Except.pure]

/-- `Map` with a reuse tensor on the raw path: copy of the operand's elements, then the function in place -/
theorem engMap_raw_reuse (st : St) (g : UnF) (mt : List String) (a r : Dense)
    (hmt : mt.contains a.dt = true) (hia : a.requiresIterator = false) (hir : r.requiresIterator = false)
    (hr : ReuseFits r a.shape a.dt a.ap.o.col) (hts : totalSize r.shape = totalSize a.shape)
    (hal : sharesMemory a r = false ∨ sameAccess a r = true) :
    engMap st g mt a { reuse := some r } = (do
      let s ← Dense.rawCopy st r.win a.win
      let s ← kUn s r.win g
      mapFin a (some r) (some r) false s) := by
  have hts' : (totalSize a.shape != totalSize r.shape) = false := by simp [hts]
  unfold engMap mapKern
  simp only [hfo_reuse _ _ _ _ _ _ hr, prepAliasT_keep _ _ _ hal, hts', hia, hir, hr.sameOrd, hmt, bind, Except.bind, pure, Except.pure,
    Bool.not_true, Bool.false_eq_true, if_false, Bool.or_false, Bool.not_false, if_true]

/-- `Map` with a reuse tensor (finding F34, repaired): the reuse tensor receives `g a[i]`; nothing outside its window
    changes -/
theorem engMap_reuse' (st : St) (g : UnF) (mt : List String) (a r : Dense)
    (hmt : mt.contains a.dt = true) (hia : a.requiresIterator = false) (hir : r.requiresIterator = false)
    (hr : ReuseFits r a.shape a.dt a.ap.o.col) (hts : totalSize r.shape = totalSize a.shape)
    (hlen : r.win.len = a.win.len) (hal : sharesMemory a r = false ∨ sameAccess a r = true)
    (hA : InBuf st a.win.buf a.win.off a.win.len) (hR : InBuf st r.win.buf r.win.off r.win.len) :
    ∃ st' r', engMap st g mt a { reuse := some r } = .ok ⟨st', some r', .reuse⟩ ∧ r'.win = r.win ∧
      Writes st st' r.win.buf r.win.off r.win.len (fun i => g (cellD st a.win.buf (a.win.off + i))) := by
  rw [engMap_raw_reuse st g mt a r hmt hia hir hr hts hal]
  have hmin : min r.win.len a.win.len = r.win.len := by rw [hlen, Nat.min_self]
  obtain ⟨s1, h1, w1⟩ := rawCopy_total st r.win a.win (by rw [hmin, hlen]; exact hA.has) (by rw [hmin]; exact hR.has)
  rw [hmin] at w1
  obtain ⟨s2, h2, w2⟩ := kUn_spec s1 r.win g (w1.has hR.has)
  obtain ⟨r', h3, hw⟩ := mapFin_given a r hr s2
  refine ⟨s2, r', by simp only [h1, h2, h3, bind, Except.bind], hw, w2.mheap.trans w1.mheap, w2.size.trans w1.size, ?_, ?_⟩
  · intro i hi
    rw [w2.val i hi, cellD_of_some (w1.val i hi)]
  · intro b' k hbk
    rw [w2.frame b' k hbk, w1.frame b' k hbk]

/-- `Map` with an increment tensor on the raw path: the function over a clone of the operand, the clone added to the
    destination -/
theorem engMap_raw_incr (st : St) (g : UnF) (mt : List String) (a r : Dense)
    (hmt : mt.contains a.dt = true) (hnb : (a.dt == "b") = false)
    (hia : a.requiresIterator = false) (hir : r.requiresIterator = false)
    (hr : ReuseFits r a.shape a.dt a.ap.o.col) (hts : totalSize r.shape = totalSize a.shape)
    (hal : sharesMemory a r = false ∨ sameAccess a r = true) :
    engMap st g mt a { incr := some r } = (do
      let (s, c) ← a.clone st
      let s ← kUn s c.win g
      let s ← eOp s r.win c.win (fun x y => .app2 "add" x y)
      mapFin a (some r) (some r) false s) := by
  have hts' : (totalSize a.shape != totalSize r.shape) = false := by simp [hts]
  unfold engMap mapKern
  simp only [hfo_incr _ _ _ _ _ _ hr, prepAliasT_keep _ _ _ hal, hts', hia, hir, hr.sameOrd, hmt, hnb, bind, Except.bind, pure, Except.pure,
    Bool.not_true, Bool.false_eq_true, if_false, Bool.or_false, Bool.not_false, if_true]

/-- `Map` with an increment tensor (finding F34, repaired): `r[i] += g a[i]`; the operand and every other existing cell
    are unchanged -/
theorem engMap_incr' (st : St) (g : UnF) (mt : List String) (a r : Dense)
    (hmt : mt.contains a.dt = true) (hnb : (a.dt == "b") = false)
    (hia : a.requiresIterator = false) (hir : r.requiresIterator = false)
    (hr : ReuseFits r a.shape a.dt a.ap.o.col) (hts : totalSize r.shape = totalSize a.shape)
    (hlen : r.win.len = a.win.len) (hm : a.mask = none) (hal : sharesMemory a r = false ∨ sameAccess a r = true)
    (hA : InBuf st a.win.buf a.win.off a.win.len) (hR : InBuf st r.win.buf r.win.off r.win.len) :
    ∃ st' r', engMap st g mt a { incr := some r } = .ok ⟨st', some r', .reuse⟩ ∧ r'.win = r.win ∧
      st'.mheap = st.mheap ∧
      (∀ i, i < r.win.len → cell st' r.win.buf (r.win.off + i) =
        some (.app2 "add" (cellD st r.win.buf (r.win.off + i)) (g (cellD st a.win.buf (a.win.off + i))))) ∧
      (∀ b' k, b' < st.heap.size → (b' ≠ r.win.buf ∨ k < r.win.off ∨ r.win.off + r.win.len ≤ k) →
        cell st' b' k = cell st b' k) := by
  rw [engMap_raw_incr st g mt a r hmt hnb hia hir hr hts hal]
  obtain ⟨s1, h1, hm1, hs1, hv1, hf1⟩ := clone_spec st a hm hA.lt hA.has
  have hHc : Has s1 st.heap.size 0 a.win.len := by
    intro i hi
    rw [Nat.zero_add, hv1 i hi]; rfl
  obtain ⟨s2, h2, w2⟩ := kUn_spec s1 (cloneOf st a).win g hHc
  have hrb : r.win.buf ≠ st.heap.size := Nat.ne_of_lt hR.lt
  have hR1 : Has s1 r.win.buf r.win.off r.win.len := by
    intro i hi
    rw [hf1 _ _ hR.lt]; exact hR.has i hi
  have hR2 : Has s2 r.win.buf r.win.off r.win.len := w2.has hR1
  have hC2 : Has s2 st.heap.size 0 r.win.len := by
    rw [hlen]; exact w2.has hHc
  obtain ⟨s3, h3, w3⟩ := kVV_spec s2 r.win (cloneOf st a).win (fun x y => .app2 "add" x y) hrb
    (by simp only [cloneOf]; omega) hR2 hC2
  obtain ⟨r', h4, hw⟩ := mapFin_given a r hr s3
  have he : eOp s2 r.win (cloneOf st a).win (fun x y => .app2 "add" x y) = .ok s3 := by
    rw [eOp_VV _ _ _ _ _ (by simp only [cloneOf, hlen]), h3]
  refine ⟨s3, r', by simp only [h1, h2, he, h4, bind, Except.bind], hw,
    w3.mheap.trans (w2.mheap.trans hm1), ?_, ?_⟩
  · intro i hi
    have hv3 := w3.val i hi
    simp only [cloneOf, Nat.zero_add] at hv3
    rw [hv3]
    have e1 : cellD s2 r.win.buf (r.win.off + i) = cellD st r.win.buf (r.win.off + i) := by
      unfold cellD
      rw [w2.other (by simpa [cloneOf] using hrb), hf1 _ _ hR.lt]
    have hv2 := w2.val i (by simp only [cloneOf]; omega)
    simp only [cloneOf, Nat.zero_add] at hv2
    have e2 : cellD s2 st.heap.size i = g (cellD st a.win.buf (a.win.off + i)) := by
      rw [cellD_of_some hv2, cellD_of_some (hv1 i (by omega))]
    rw [e1, e2]
  · intro b' k hb' hbk
    rw [w3.frame b' k hbk, w2.other (by simpa [cloneOf] using Nat.ne_of_lt hb'), hf1 b' k hb']

/-! ### unary operations with an increment tensor of the other data order (part of finding F35, repaired) -/

/-- an increment tensor that `handleFuncOpts` accepts as it is — whatever its data order (`WithIncr` never touches the
    order flag) -/
structure IncrFits (r : Dense) (sh : Shape) (dt : String) : Prop where
  dt : r.dt = dt
  len : (r.win.len : Int) = totalSize sh
  shape : shapeEq r.shape sh = true

theorem hfo_incr_any (st : St) (sh : Shape) (dt : String) (col strict : Bool) (r : Dense)
    (h : IncrFits r sh dt) :
    handleFuncOpts st sh dt col strict { incr := some r } =
      .ok (st, { reuse := some r, safe := true, toReuse := true, incr := true, same := false }) := by
  unfold handleFuncOpts
  simp [h.dt, h.len, h.shape, bind, Except.bind, pure, Except.pure]

/-- `prepDataUnary` sends a contiguous operand and a contiguous increment tensor of the *other* data order to the iterator
    path: the function runs over a clone of the operand, which is then added to the increment along the two iterators -/
theorem engUnary_incr_mixed_order (st : St) (g : UnF) (tc kt : List String) (strict : Bool) (a r : Dense)
    (hta : tc.contains a.dt = true) (hk : kt.contains a.dt = true) (hord : sameOrd r a = false)
    (hma : a.mask = none) (hmr : r.mask = none) (hr : IncrFits r a.shape a.dt)
    (hal : sharesMemory a r = false ∨ sameAccess a r = true) :
    engUnary st g tc kt strict a { incr := some r } = (do
      let (s, c) ← a.clone st
      let s ← kUnIter s c.win g (a.offsets.map (·, true))
      let s ← eOpIter s r.win c.win (fun x y => .app2 "add" x y) (r.offsets.map (·, true)) (a.offsets.map (·, true))
      pure ⟨s, some r, .reuse⟩) := by
  unfold engUnary
  simp only [hta, hk, hfo_incr_any _ _ _ _ _ _ hr, prepAliasT_keep _ _ _ hal, hord, itStream_nomask _ _ hma, itStream_nomask _ _ hmr,
    bind, Except.bind, pure, Except.pure, Bool.not_true, Bool.false_eq_true, if_false, Bool.or_false, Bool.not_false,
    if_true, Bool.or_true]

/-- … and what that computes: at the `k`-th position of the two iterators the increment tensor's cell receives
    `+ g a[k-th]` — by coordinate, whatever the two storage orders; the operand and every other existing cell are
    unchanged -/
theorem engUnary_incr_mixed_order' (st : St) (g : UnF) (tc kt : List String) (strict : Bool) (a r : Dense)
    (hta : tc.contains a.dt = true) (hk : kt.contains a.dt = true) (hord : sameOrd r a = false)
    (hma : a.mask = none) (hmr : r.mask = none) (hr : IncrFits r a.shape a.dt)
    (hla : a.win.len ≠ 1) (hlr : r.win.len ≠ 1)
    (hor : ∀ i ∈ r.offsets, 0 ≤ i ∧ i < (r.win.len : Int)) (hoa : ∀ j ∈ a.offsets, 0 ≤ j ∧ j < (a.win.len : Int))
    (hndr : r.offsets.Nodup) (hnda : a.offsets.Nodup) (hal : sharesMemory a r = false ∨ sameAccess a r = true)
    (hA : InBuf st a.win.buf a.win.off a.win.len) (hR : InBuf st r.win.buf r.win.off r.win.len) :
    ∃ st', engUnary st g tc kt strict a { incr := some r } = .ok ⟨st', some r, .reuse⟩ ∧ st'.mheap = st.mheap ∧
      (∀ (k : Nat) m j, r.offsets[k]? = some m → a.offsets[k]? = some j →
        cell st' r.win.buf (r.win.off + m.toNat) =
          some (.app2 "add" (cellD st r.win.buf (r.win.off + m.toNat)) (g (cellD st a.win.buf (a.win.off + j.toNat))))) ∧
      (∀ b' k', b' < st.heap.size → b' ≠ r.win.buf → cell st' b' k' = cell st b' k') := by
  rw [engUnary_incr_mixed_order st g tc kt strict a r hta hk hord hma hmr hr hal]
  obtain ⟨s1, h1, hm1, hs1, hv1, hf1⟩ := clone_spec st a hma hA.lt hA.has
  have hHc : Has s1 st.heap.size 0 a.win.len := by
    intro i hi
    rw [Nat.zero_add, hv1 i hi]; rfl
  obtain ⟨s2, h2, hm2, hs2, hv2, hf2⟩ := kUnIter_spec s1 (cloneOf st a).win g (a.offsets.map (·, true))
    (by simp only [cloneOf]; exact inRange_map_true hoa) (by rw [map_true_fst]; exact hnda)
    (by simp only [cloneOf]; exact hHc)
  have hrb : r.win.buf ≠ st.heap.size := Nat.ne_of_lt hR.lt
  have hR1 : Has s1 r.win.buf r.win.off r.win.len := by
    intro i hi
    rw [hf1 _ _ hR.lt]; exact hR.has i hi
  have hR2 : Has s2 r.win.buf r.win.off r.win.len := by
    intro i hi
    rw [hf2 _ _ (Or.inl (by simpa [cloneOf] using hrb))]; exact hR1 i hi
  have hC2 : Has s2 st.heap.size 0 a.win.len := by
    intro m hm
    by_cases hex : ∃ i, (i, true) ∈ a.offsets.map (·, true) ∧ 0 + m = 0 + i.toNat
    · obtain ⟨i, hi, he⟩ := hex
      have := hv2 i hi
      simp only [cloneOf] at this
      rw [he, this]; rfl
    · have := hf2 st.heap.size (0 + m) (Or.inr (fun i hi he => hex ⟨i, hi, by simpa [cloneOf] using he⟩))
      rw [this]; exact hHc m hm
  obtain ⟨s3, h3, hm3, _, hv3, hf3⟩ := kIterVV_spec s2 r.win (cloneOf st a).win (fun x y => .app2 "add" x y)
    (r.offsets.map (·, true)) (a.offsets.map (·, true)) (by simpa [cloneOf] using hrb)
    (inRange_map_true hor) (by simp only [cloneOf]; exact inRange_map_true hoa) (by rw [map_true_fst]; exact hndr)
    hR2 (by simp only [cloneOf]; exact hC2)
  have he : eOpIter s2 r.win (cloneOf st a).win (fun x y => .app2 "add" x y) (r.offsets.map (·, true))
      (a.offsets.map (·, true)) = .ok s3 := by
    rw [eOpIter_VV _ _ _ _ _ _ _ hlr (by simp only [cloneOf]; exact hla), h3]
  refine ⟨s3, by simp only [h1, h2, he, bind, Except.bind]; rfl, hm3.trans (hm2.trans hm1), ?_, ?_⟩
  · intro k m j hm hj
    have hjr := hoa j (List.mem_of_getElem? hj)
    have hvk := hv3 k m true j true (getElem?_map_true hm) (getElem?_map_true hj) rfl rfl
    simp only [cloneOf, Nat.zero_add] at hvk
    rw [hvk]
    have e1 : cellD s2 r.win.buf (r.win.off + m.toNat) = cellD st r.win.buf (r.win.off + m.toNat) := by
      unfold cellD
      rw [hf2 _ _ (Or.inl (by simpa [cloneOf] using hrb)), hf1 _ _ hR.lt]
    have hc2 := hv2 j (List.mem_of_getElem? (getElem?_map_true hj))
    simp only [cloneOf, Nat.zero_add] at hc2
    have e2 : cellD s2 st.heap.size j.toNat = g (cellD st a.win.buf (a.win.off + j.toNat)) := by
      rw [cellD_of_some hc2, cellD_of_some (hv1 j.toNat (by omega))]
    rw [e1, e2]
  · intro b' k' hb' hne
    rw [hf3 _ _ (Or.inl hne), hf2 _ _ (Or.inl (by simpa [cloneOf] using Nat.ne_of_lt hb')), hf1 b' k' hb']

/-! ### link with C05: iterator offsets are the row-major logical offsets -/

/-- the iterator of a well-formed pattern yields the offsets of the coordinates in row-major order -/
theorem offsets_rowmajor (ap : AP) (hl : ap.strides.length = ap.shape.length) (hp : ∀ d ∈ ap.shape, 0 < d) :
    FlatIt.offsets ap = (allCoords ap.shape).map (fun c => dot c ap.strides) := by
  by_cases hs : ap.shape = []
  · unfold FlatIt.offsets
    rw [scalar_run_full ap hs]
    simp [hs, allCoords, dot]
  · by_cases hv : ap.isVectorLike = true
    · have hv' := hv
      simp only [AP.isVectorLike, Bool.and_eq_true] at hv'
      unfold FlatIt.offsets totalSize
      rw [vec_run_full ap hp hv hs, veclike_spec ap.shape ap.strides hl hp hv'.1 hv'.2]
    · unfold FlatIt.offsets totalSize
      rw [nd_run_full ap hl hp (by simpa using hv), spec_eq ap.shape ap.strides hp]

/-- **coordinate-wise**: the two-iterator kernel driven by the iterators of two well-formed patterns
    of the same shape combines, for every coordinate `c`, the element of `a` at `c` with the element of
    `b` at `c` (whatever the strides: transposes, views, …) and stores it at `a`'s cell for `c`. -/
theorem kIterVV_coordwise' (st : St) (a b : Win) (f : BinF) (pa pb : AP) (hsh : pa.shape = pb.shape)
    (hla : pa.strides.length = pa.shape.length) (hlb : pb.strides.length = pb.shape.length)
    (hp : ∀ d ∈ pa.shape, 0 < d) (hne : a.buf ≠ b.buf)
    (hoa : ∀ i ∈ FlatIt.offsets pa, 0 ≤ i ∧ i < (a.len : Int)) (hob : ∀ j ∈ FlatIt.offsets pb, 0 ≤ j ∧ j < (b.len : Int))
    (hnd : (FlatIt.offsets pa).Nodup)
    (ha : Has st a.buf a.off a.len) (hb : Has st b.buf b.off b.len) :
    ∃ st', kIterVV st a b f ((FlatIt.offsets pa).map (·, true)) ((FlatIt.offsets pb).map (·, true)) = .ok st' ∧
      st'.mheap = st.mheap ∧
      (∀ c ∈ allCoords pa.shape,
        cell st' a.buf (a.off + (dot c pa.strides).toNat) =
          some (f (cellD st a.buf (a.off + (dot c pa.strides).toNat))
                  (cellD st b.buf (b.off + (dot c pb.strides).toNat)))) ∧
      (∀ b' k', (b' ≠ a.buf ∨ ∀ c ∈ allCoords pa.shape, k' ≠ a.off + (dot c pa.strides).toNat) →
        cell st' b' k' = cell st b' k') := by
  obtain ⟨st', h, hm, _, hv, hfr⟩ := kIterVV_spec st a b f _ _ hne (inRange_map_true hoa) (inRange_map_true hob)
    (by rw [map_true_fst]; exact hnd) ha hb
  have ea := offsets_rowmajor pa hla hp
  have eb := offsets_rowmajor pb hlb (hsh ▸ hp)
  refine ⟨st', h, hm, ?_, ?_⟩
  · intro c hc
    obtain ⟨k, hk⟩ := List.mem_iff_getElem?.mp hc
    have h1 : (FlatIt.offsets pa)[k]? = some (dot c pa.strides) := by
      rw [ea, List.getElem?_map, hk]; rfl
    have h2 : (FlatIt.offsets pb)[k]? = some (dot c pb.strides) := by
      rw [eb, ← hsh, List.getElem?_map, hk]; rfl
    exact hv k _ true _ true (getElem?_map_true h1) (getElem?_map_true h2) rfl rfl
  · intro b' k' hbk
    apply hfr
    rcases hbk with hb' | hk
    · exact Or.inl hb'
    · refine Or.inr ?_
      intro k i vi j vj hi _ _ _
      have hi' := of_getElem?_map_true hi
      rw [ea, List.getElem?_map] at hi'
      cases hck : (allCoords pa.shape)[k]? with
      | none => simp [hck] at hi'
      | some c =>
        simp only [hck, Option.map_some, Option.some.injEq] at hi'
        rw [← hi']
        exact hk c (List.mem_of_getElem? hck)


/-! ### scalar variants of the three-iterator kernels -/

def stepIter3SV (a0 : Val) (b d : Win) (f g : BinF) (s : St) (x : (Int × Bool) × (Int × Bool)) : Res St :=
  if x.1.2 && x.2.2 then do s.wr d d.len x.2.1 (g (← s.rd d d.len x.2.1) (f a0 (← s.rd b b.len x.1.1))) else pure s

theorem kIter3SV_fold (a0 : Val) (b d : Win) (f g : BinF) : ∀ (ib ik : ItS) (s : St),
    kIter3SV s a0 b d f g ib ik = (ib.zip ik).foldlM (stepIter3SV a0 b d f g) s := by
  intro ib
  induction ib with
  | nil => intro ik s; simp [kIter3SV]; rfl
  | cons p ib ih =>
    intro ik s
    cases ik with
    | nil => simp [kIter3SV]; rfl
    | cons q ik =>
      obtain ⟨i, vi⟩ := p
      obtain ⟨j, vj⟩ := q
      simp only [kIter3SV, List.zip_cons_cons, List.foldlM_cons, ih]
      rfl

theorem kIter3SV_spec (st : St) (a0 : Val) (b d : Win) (f g : BinF) (ib ik : ItS) (hnb : b.buf ≠ d.buf)
    (hrb : InRange ib b.len) (hrk : InRange ik d.len) (hnd : (ik.map (·.1)).Nodup)
    (hb : Has st b.buf b.off b.len) (hd : Has st d.buf d.off d.len) :
    ∃ st', kIter3SV st a0 b d f g ib ik = .ok st' ∧ st'.mheap = st.mheap ∧ st'.heap.size = st.heap.size ∧
      (∀ (k : Nat) j vj m vm, ib[k]? = some (j, vj) → ik[k]? = some (m, vm) → vj = true → vm = true →
        cell st' d.buf (d.off + m.toNat) =
          some (g (cellD st d.buf (d.off + m.toNat)) (f a0 (cellD st b.buf (b.off + j.toNat))))) ∧
      (∀ b' k', (b' ≠ d.buf ∨ ∀ (k : Nat) j vj m vm, ib[k]? = some (j, vj) → ik[k]? = some (m, vm) →
          vj = true → vm = true → k' ≠ d.off + m.toNat) → cell st' b' k' = cell st b' k') := by
  rw [kIter3SV_fold]
  obtain ⟨st', hf, hm, hs, hv, hfr⟩ := wrLoop d d.len (fun x : (Int × Bool) × (Int × Bool) => x.2.1)
    (fun x => x.1.2 && x.2.2)
    (fun x => g (cellD st d.buf (d.off + x.2.1.toNat)) (f a0 (cellD st b.buf (b.off + x.1.1.toNat))))
    (stepIter3SV a0 b d f g) (ib.zip ik) st
    (by
      intro x hx _
      have := hrk x.2 (List.of_mem_zip hx).2
      exact ⟨this.1, this.2, hd.at this.1 this.2⟩)
    ((pairwise_zip_snd ib ik (nodup_fst_pairwise hnd)).imp (fun h _ _ => h))
    (by
      intro s x hx hax hag
      have h1 := hrb x.1 (List.of_mem_zip hx).1
      have h2 := hrk x.2 (List.of_mem_zip hx).2
      unfold stepIter3SV
      simp only [hax, if_true, bind, Except.bind]
      rw [rd_agree_self hag d.len h2.1 h2.2 (hd.at h2.1 h2.2),
        rd_agree_other hag b b.len x.1.1 h1.1 h1.2 hnb (hb.at h1.1 h1.2)])
    (by
      intro s x _ hax
      unfold stepIter3SV
      simp only [hax]
      rfl)
  refine ⟨st', hf, hm, hs, ?_, ?_⟩
  · intro k j vj m vm h1 h2 hvj hvm
    exact hv ((j, vj), (m, vm)) (mem_zip_iff.mpr ⟨k, h1, h2⟩) (by simp [hvj, hvm])
  · intro b' k' hbk
    apply hfr
    rcases hbk with hb' | hk
    · exact Or.inl hb'
    · refine Or.inr ?_
      intro x hx hax
      obtain ⟨k, h1, h2⟩ := mem_zip_iff.mp hx
      simp only [Bool.and_eq_true] at hax
      exact hk k x.1.1 x.1.2 x.2.1 x.2.2 h1 h2 hax.1 hax.2

def stepIter3VS (a : Win) (b0 : Val) (d : Win) (f g : BinF) (s : St) (x : (Int × Bool) × (Int × Bool)) : Res St :=
  if x.1.2 && x.2.2 then do s.wr d d.len x.2.1 (g (← s.rd d d.len x.2.1) (f (← s.rd a a.len x.1.1) b0)) else pure s

theorem kIter3VS_fold (a : Win) (b0 : Val) (d : Win) (f g : BinF) : ∀ (ia ik : ItS) (s : St),
    kIter3VS s a b0 d f g ia ik = (ia.zip ik).foldlM (stepIter3VS a b0 d f g) s := by
  intro ia
  induction ia with
  | nil => intro ik s; simp [kIter3VS]; rfl
  | cons p ia ih =>
    intro ik s
    cases ik with
    | nil => simp [kIter3VS]; rfl
    | cons q ik =>
      obtain ⟨i, vi⟩ := p
      obtain ⟨j, vj⟩ := q
      simp only [kIter3VS, List.zip_cons_cons, List.foldlM_cons, ih]
      rfl

theorem kIter3VS_spec (st : St) (a : Win) (b0 : Val) (d : Win) (f g : BinF) (ia ik : ItS) (hna : a.buf ≠ d.buf)
    (hra : InRange ia a.len) (hrk : InRange ik d.len) (hnd : (ik.map (·.1)).Nodup)
    (ha : Has st a.buf a.off a.len) (hd : Has st d.buf d.off d.len) :
    ∃ st', kIter3VS st a b0 d f g ia ik = .ok st' ∧ st'.mheap = st.mheap ∧ st'.heap.size = st.heap.size ∧
      (∀ (k : Nat) i vi m vm, ia[k]? = some (i, vi) → ik[k]? = some (m, vm) → vi = true → vm = true →
        cell st' d.buf (d.off + m.toNat) =
          some (g (cellD st d.buf (d.off + m.toNat)) (f (cellD st a.buf (a.off + i.toNat)) b0))) ∧
      (∀ b' k', (b' ≠ d.buf ∨ ∀ (k : Nat) i vi m vm, ia[k]? = some (i, vi) → ik[k]? = some (m, vm) →
          vi = true → vm = true → k' ≠ d.off + m.toNat) → cell st' b' k' = cell st b' k') := by
  rw [kIter3VS_fold]
  obtain ⟨st', hf, hm, hs, hv, hfr⟩ := wrLoop d d.len (fun x : (Int × Bool) × (Int × Bool) => x.2.1)
    (fun x => x.1.2 && x.2.2)
    (fun x => g (cellD st d.buf (d.off + x.2.1.toNat)) (f (cellD st a.buf (a.off + x.1.1.toNat)) b0))
    (stepIter3VS a b0 d f g) (ia.zip ik) st
    (by
      intro x hx _
      have := hrk x.2 (List.of_mem_zip hx).2
      exact ⟨this.1, this.2, hd.at this.1 this.2⟩)
    ((pairwise_zip_snd ia ik (nodup_fst_pairwise hnd)).imp (fun h _ _ => h))
    (by
      intro s x hx hax hag
      have h1 := hra x.1 (List.of_mem_zip hx).1
      have h2 := hrk x.2 (List.of_mem_zip hx).2
      unfold stepIter3VS
      simp only [hax, if_true, bind, Except.bind]
      rw [rd_agree_self hag d.len h2.1 h2.2 (hd.at h2.1 h2.2),
        rd_agree_other hag a a.len x.1.1 h1.1 h1.2 hna (ha.at h1.1 h1.2)])
    (by
      intro s x _ hax
      unfold stepIter3VS
      simp only [hax]
      rfl)
  refine ⟨st', hf, hm, hs, ?_, ?_⟩
  · intro k i vi m vm h1 h2 hvi hvm
    exact hv ((i, vi), (m, vm)) (mem_zip_iff.mpr ⟨k, h1, h2⟩) (by simp [hvi, hvm])
  · intro b' k' hbk
    apply hfr
    rcases hbk with hb' | hk
    · exact Or.inl hb'
    · refine Or.inr ?_
      intro x hx hax
      obtain ⟨k, h1, h2⟩ := mem_zip_iff.mp hx
      simp only [Bool.and_eq_true] at hax
      exact hk k x.1.1 x.1.2 x.2.1 x.2.2 h1 h2 hax.1 hax.2

/-! ### presentation lemmas: from `cellD` form to "the old cells are `x`, `y`" form -/

theorem Writes.sem1 {st st' : St} {d off n sb so : Nat} {F : Val → Val}
    (w : Writes st st' d off n (fun i => F (cellD st sb (so + i)))) (hS : Has st sb so n) :
    st'.mheap = st.mheap ∧
    (∀ i, i < n → ∃ x, cell st sb (so + i) = some x ∧ cell st' d (off + i) = some (F x)) ∧
    (∀ b k, (b ≠ d ∨ k < off ∨ off + n ≤ k) → cell st' b k = cell st b k) :=
  ⟨w.mheap, fun i hi => ⟨_, cell_some_cellD (hS i hi), w.val i hi⟩, w.frame⟩

theorem Writes.sem2 {st st' : St} {d off n ab ao bb bo : Nat} {F : Val → Val → Val}
    (w : Writes st st' d off n (fun i => F (cellD st ab (ao + i)) (cellD st bb (bo + i))))
    (hA : Has st ab ao n) (hB : Has st bb bo n) :
    st'.mheap = st.mheap ∧
    (∀ i, i < n → ∃ x y, cell st ab (ao + i) = some x ∧ cell st bb (bo + i) = some y ∧
      cell st' d (off + i) = some (F x y)) ∧
    (∀ b k, (b ≠ d ∨ k < off ∨ off + n ≤ k) → cell st' b k = cell st b k) :=
  ⟨w.mheap, fun i hi => ⟨_, _, cell_some_cellD (hA i hi), cell_some_cellD (hB i hi), w.val i hi⟩, w.frame⟩

theorem Writes.sem3 {st st' : St} {d off n ab ao bb bo cb co : Nat} {F : Val → Val → Val → Val}
    (w : Writes st st' d off n (fun i => F (cellD st cb (co + i)) (cellD st ab (ao + i)) (cellD st bb (bo + i))))
    (hC : Has st cb co n) (hA : Has st ab ao n) (hB : Has st bb bo n) :
    st'.mheap = st.mheap ∧
    (∀ i, i < n → ∃ r x y, cell st cb (co + i) = some r ∧ cell st ab (ao + i) = some x ∧
      cell st bb (bo + i) = some y ∧ cell st' d (off + i) = some (F r x y)) ∧
    (∀ b k, (b ≠ d ∨ k < off ∨ off + n ≤ k) → cell st' b k = cell st b k) :=
  ⟨w.mheap, fun i hi => ⟨_, _, _, cell_some_cellD (hC i hi), cell_some_cellD (hA i hi),
    cell_some_cellD (hB i hi), w.val i hi⟩, w.frame⟩

/-- in a duplicate-free stream an offset listed with flag `false` is not listed with flag `true` -/
theorem nodup_fst_flag {l : ItS} (h : (l.map (·.1)).Nodup) {i i' : Int} (h1 : (i, false) ∈ l)
    (h2 : (i', true) ∈ l) : i' ≠ i := by
  obtain ⟨k, hk⟩ := List.mem_iff_getElem?.mp h1
  obtain ⟨k', hk'⟩ := List.mem_iff_getElem?.mp h2
  have hne : k' ≠ k := by
    intro e; subst e
    rw [hk] at hk'; cases hk'
  exact nodup_fst_ne h hk' hk hne

/-- the position `k` of a duplicate-free stream is the only one addressing its offset -/
theorem nodup_pos_unique {l : ItS} (h : (l.map (·.1)).Nodup) {n : Nat} (hr : InRange l n) {k k' : Nat}
    {p q : Int × Bool} (hk : l[k]? = some p) (hk' : l[k']? = some q) (off : Nat)
    (he : off + p.1.toNat = off + q.1.toNat) : k = k' := by
  apply Classical.byContradiction
  intro hne
  have := nodup_fst_ne h hk hk' hne
  have h1 := hr p (List.mem_of_getElem? hk)
  have h2 := hr q (List.mem_of_getElem? hk')
  omega

end TM
