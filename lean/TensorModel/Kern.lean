import TensorModel.Dense2
/-!
  Model of the execution kernels (`internal/execution/generic_*.go`) and of the per-type dispatchers
  `E.<Op>…` (`eng_*.go`), type-generically: one definition per family × variant. That every
  element-type specialisation in the Go sources is an instance of these definitions is the subject
  of C17 (regenerated tables).  Scalar-ness is decided like the Go code does: raw length == 1.
-/
namespace TM

/-- a typed slice handed to a kernel: a window whose indexable length is `len` and which may be
    re-sliced up to `cap` (`b = b[:len(a)]`) -/
abbrev Slice := Win

/-- read `w[i]` where the slice was re-sliced to length `n` (`n ≤ cap` checked by the caller) -/
def St.rd (s : St) (w : Win) (n : Nat) (i : Int) : Res Val :=
  if i < 0 || i ≥ n then throwPanic "index out of range"
  else match s.heap[w.buf]? with
    | none => throwPanic "no such buffer"
    | some b => match b[w.off + i.toNat]? with
      | none => throwPanic "buffer too short"
      | some v => .ok v

def St.wr (s : St) (w : Win) (n : Nat) (i : Int) (v : Val) : Res St :=
  if i < 0 || i ≥ n then throwPanic "index out of range"
  else match s.heap[w.buf]? with
    | none => throwPanic "no such buffer"
    | some b =>
      if w.off + i.toNat < b.size then .ok { s with heap := s.heap.set! w.buf (b.set! (w.off + i.toNat) v) }
      else throwPanic "buffer too short"

/-- `x = x[:n]` : legal iff `n ≤ cap(x)` -/
def reslice (w : Win) (n : Nat) : Res Unit := if n ≤ w.cap then .ok () else throwPanic "slice bounds out of range"

abbrev BinF := Val → Val → Val

/-- `for i := range a { a[i] = f a[i] b[i] }` with `b = b[:len(a)]` -/
def kVV (s : St) (a b : Win) (f : BinF) : Res St := do
  reslice b a.len
  (rangeI a.len).foldlM (fun s i => do s.wr a a.len i (f (← s.rd a a.len i) (← s.rd b a.len i))) s

/-- SV: `for i := range b { b[i] = f a0 b[i] }` -/
def kSV (s : St) (a0 : Val) (b : Win) (f : BinF) : Res St :=
  (rangeI b.len).foldlM (fun s i => do s.wr b b.len i (f a0 (← s.rd b b.len i))) s

/-- VS: `for i := range a { a[i] = f a[i] b0 }` -/
def kVS (s : St) (a : Win) (b0 : Val) (f : BinF) : Res St :=
  (rangeI a.len).foldlM (fun s i => do s.wr a a.len i (f (← s.rd a a.len i) b0)) s

/-- Incr: `b = b[:len(a)]; incr = incr[:len(a)]; for i := range incr { incr[i] += f a[i] b[i] }` -/
def kIncrVV (s : St) (a b incr : Win) (f : BinF) (acc : BinF) : Res St := do
  reslice b a.len; reslice incr a.len
  (rangeI a.len).foldlM (fun s i => do
    s.wr incr a.len i (acc (← s.rd incr a.len i) (f (← s.rd a a.len i) (← s.rd b a.len i)))) s

def kIncrSV (s : St) (a0 : Val) (b incr : Win) (f acc : BinF) : Res St :=
  (rangeI incr.len).foldlM (fun s i => do
    s.wr incr incr.len i (acc (← s.rd incr incr.len i) (f a0 (← s.rd b b.len i)))) s

def kIncrVS (s : St) (a : Win) (b0 : Val) (incr : Win) (f acc : BinF) : Res St :=
  (rangeI incr.len).foldlM (fun s i => do
    s.wr incr incr.len i (acc (← s.rd incr incr.len i) (f (← s.rd a a.len i) b0))) s

/-- Recv: `a = a[:len(recv)]; b = b[:len(recv)]; recv[i] = f a[i] b[i]` -/
def kRecvVV (s : St) (a b recv : Win) (f : BinF) : Res St := do
  reslice a recv.len; reslice b recv.len
  (rangeI recv.len).foldlM (fun s i => do
    s.wr recv recv.len i (f (← s.rd a recv.len i) (← s.rd b recv.len i))) s

def kRecvSV (s : St) (a0 : Val) (b recv : Win) (f : BinF) : Res St :=
  (rangeI recv.len).foldlM (fun s i => do s.wr recv recv.len i (f a0 (← s.rd b b.len i))) s

def kRecvVS (s : St) (a : Win) (b0 : Val) (recv : Win) (f : BinF) : Res St :=
  (rangeI recv.len).foldlM (fun s i => do s.wr recv recv.len i (f (← s.rd a a.len i) b0)) s

/-- iterator stream: offsets paired with validity (`NextValidity`) -/
abbrev ItS := List (Int × Bool)

/-- Iter VV: lock-step until either iterator is exhausted; `a[i] = f a[i] b[j]` when both valid -/
def kIterVV (s : St) (a b : Win) (f : BinF) : ItS → ItS → Res St
  | (i, vi) :: ia, (j, vj) :: ib => do
    let s ← (if vi && vj then do s.wr a a.len i (f (← s.rd a a.len i) (← s.rd b b.len j)) else pure s)
    kIterVV s a b f ia ib
  | _, _ => .ok s

def kIterSV (s : St) (a0 : Val) (b : Win) (f : BinF) : ItS → Res St
  | (i, vi) :: ib => do
    let s ← (if vi then do s.wr b b.len i (f a0 (← s.rd b b.len i)) else pure s)
    kIterSV s a0 b f ib
  | [] => .ok s

def kIterVS (s : St) (a : Win) (b0 : Val) (f : BinF) : ItS → Res St
  | (i, vi) :: ia => do
    let s ← (if vi then do s.wr a a.len i (f (← s.rd a a.len i) b0) else pure s)
    kIterVS s a b0 f ia
  | [] => .ok s

/-- three-iterator kernels: `dst[k] = g dst[k] (f a[i] b[j])` (incr: g = +; recv: g = fun _ x => x) -/
def kIter3VV (s : St) (a b d : Win) (f g : BinF) : ItS → ItS → ItS → Res St
  | (i, vi) :: ia, (j, vj) :: ib, (k, vk) :: ik => do
    let s ← (if vi && vj && vk then do
      s.wr d d.len k (g (← s.rd d d.len k) (f (← s.rd a a.len i) (← s.rd b b.len j))) else pure s)
    kIter3VV s a b d f g ia ib ik
  | _, _, _ => .ok s

def kIter3SV (s : St) (a0 : Val) (b d : Win) (f g : BinF) : ItS → ItS → Res St
  | (j, vj) :: ib, (k, vk) :: ik => do
    let s ← (if vj && vk then do s.wr d d.len k (g (← s.rd d d.len k) (f a0 (← s.rd b b.len j))) else pure s)
    kIter3SV s a0 b d f g ib ik
  | _, _ => .ok s

def kIter3VS (s : St) (a : Win) (b0 : Val) (d : Win) (f g : BinF) : ItS → ItS → Res St
  | (i, vi) :: ia, (k, vk) :: ik => do
    let s ← (if vi && vk then do s.wr d d.len k (g (← s.rd d d.len k) (f (← s.rd a a.len i) b0)) else pure s)
    kIter3VS s a b0 d f g ia ik
  | _, _ => .ok s

/-! ### Dispatchers `E.<Op>…(t, a, b, …)`: case analysis on raw length == 1 -/

def isSc (w : Win) : Bool := w.len == 1

/-- `E.Op(t, a, b)`; `fSame` is the kernel function (arith: the operator; cmp-same: 1/0 of the type) -/
def eOp (s : St) (a b : Win) (f : BinF) (fv : BinF := f) : Res St := do
  if isSc a && !isSc b then kSV s (← s.rd a 1 0) b f
  else if !isSc a && isSc b then kVS s a (← s.rd b 1 0) f
  else kVV s a b fv

/-- `E.OpIter(t, a, b, ait, bit)` -/
def eOpIter (s : St) (a b : Win) (f : BinF) (ia ib : ItS) (fv : BinF := f) : Res St := do
  if isSc a && isSc b then kVV s a b fv
  else if isSc a then kIterSV s (← s.rd a 1 0) b f ib
  else if isSc b then kIterVS s a (← s.rd b 1 0) f ia
  else kIterVV s a b f ia ib

def accAdd : BinF := fun r x => .app2 "add" r x
def accSet : BinF := fun _ x => x

/-- `E.OpIncr(t, a, b, incr)` -/
def eOpIncr (s : St) (a b incr : Win) (f : BinF) (fv : BinF := f) : Res St := do
  if ((isSc a && !isSc b) || (isSc b && !isSc a)) && isSc incr then throwErr "Cannot increment on scalar increment"
  if isSc a && isSc b then
    -- `tmp := []T{at[0]}; Vec<Op>(tmp, bt)`: `a op b` is computed in a temporary that is no part of the state;
    -- `AddVS(it, tmp[0])` over a longer increment
    let v := fv (← s.rd a 1 0) (← s.rd b 1 0)
    if !isSc incr then kVS s incr v accAdd
    else s.wr incr 1 0 (accAdd (← s.rd incr 1 0) v)
  else if isSc a then kIncrSV s (← s.rd a 1 0) b incr f accAdd
  else if isSc b then kIncrVS s a (← s.rd b 1 0) incr f accAdd
  else kIncrVV s a b incr fv accAdd

/-- `E.OpIterIncr(t, a, b, incr, ait, bit, iit)`; the scalar-scalar corner computes `a op b` in a temporary and adds
    it to the increment (`AddIterVS(it, tmp[0], iit)` over a longer increment) -/
def eOpIterIncr (s : St) (a b incr : Win) (f : BinF) (ia ib ik : ItS) (fv : BinF := f) : Res St := do
  if ((isSc a && !isSc b) || (isSc b && !isSc a)) && isSc incr then throwErr "Cannot increment on a scalar increment"
  if isSc a && isSc b then
    let v := fv (← s.rd a 1 0) (← s.rd b 1 0)
    if !isSc incr then kIterVS s incr v accAdd ik
    else s.wr incr 1 0 (accAdd (← s.rd incr 1 0) v)
  else if isSc a then kIter3SV s (← s.rd a 1 0) b incr f accAdd ib ik
  else if isSc b then kIter3VS s a (← s.rd b 1 0) incr f accAdd ia ik
  else kIter3VV s a b incr f accAdd ia ib ik

/-- `E.OpRecv(t, a, b, recv)` (arithmetic: always the VV receiver kernel) -/
def eOpRecv (s : St) (a b recv : Win) (f : BinF) : Res St := kRecvVV s a b recv f

/-- `E.Cmp(t, a, b, retVal)` (bool receiver) -/
def eCmp (s : St) (a b r : Win) (f : BinF) : Res St := do
  if ((isSc a && !isSc b) || (isSc b && !isSc a)) && isSc r then throwErr "retVal is a scalar"
  else if isSc a && !isSc b then kRecvSV s (← s.rd a 1 0) b r f
  else if !isSc a && isSc b then kRecvVS s a (← s.rd b 1 0) r f
  else do
    -- `GtT(a, b, retVal)`: b = b[:len(a)]; retVal = retVal[:len(a)]
    reslice b a.len; reslice r a.len
    (rangeI a.len).foldlM (fun s i => do s.wr r a.len i (f (← s.rd a a.len i) (← s.rd b a.len i))) s

/-- `E.CmpIter(t, a, b, retVal, ait, bit, rit)` -/
def eCmpIter (s : St) (a b r : Win) (f : BinF) (ia ib ir : ItS) : Res St := do
  if ((isSc a && !isSc b) || (isSc b && !isSc a)) && isSc r then throwErr "retVal is a scalar"
  else if isSc a && isSc b then do
    reslice b a.len; reslice r a.len
    (rangeI a.len).foldlM (fun s i => do s.wr r a.len i (f (← s.rd a a.len i) (← s.rd b a.len i))) s
  else if isSc a then kIter3SV s (← s.rd a 1 0) b r f accSet ib ir
  else if isSc b then kIter3VS s a (← s.rd b 1 0) r f accSet ia ir
  else kIter3VV s a b r f accSet ia ib ir

end TM
