package main

import (
	"fmt"
	"sort"
	"strings"
)

// parseFields splits "k=v k=v ..." (values contain no spaces).
func parseFields(s string) map[string]string {
	out := map[string]string{}
	for _, kv := range strings.Fields(s) {
		i := strings.IndexByte(kv, '=')
		if i < 0 {
			out[kv] = ""
			continue
		}
		out[kv[:i]] = kv[i+1:]
	}
	return out
}

// compareRec compares one implementation record with the model's line (with subset=true only the
// keys present in the model line are compared: used for the specification lines). Returns "" when
// equal, otherwise a description of the first difference.
func (p *prog) compareRec(r *rec, model string, subset bool) string {
	mf := parseFields(model)
	keys := map[string]bool{}
	for k := range mf {
		keys[k] = true
	}
	if !subset {
		for k := range r.fields {
			keys[k] = true
		}
		for k := range r.vals {
			keys[k] = true
		}
	}
	ks := make([]string, 0, len(keys))
	for k := range keys {
		ks = append(ks, k)
	}
	sort.Strings(ks)
	for _, k := range ks {
		mv, mok := mf[k]
		if vals, ok := r.vals[k]; ok {
			if !mok {
				return fmt.Sprintf("field %s missing in model", k)
			}
			terms, err := parseTermList(mv)
			if err != nil {
				return fmt.Sprintf("field %s: %v", k, err)
			}
			if len(terms) != len(vals) {
				return fmt.Sprintf("field %s: impl has %d values, model %d", k, len(vals), len(terms))
			}
			for i, t := range terms {
				want, err := p.eval(t, r.dt)
				if err != nil {
					return fmt.Sprintf("field %s[%d]: %v", k, i, err)
				}
				if !valEq(want, vals[i]) {
					return fmt.Sprintf("field %s[%d]: impl=%s model=%s", k, i, fmtVal(vals[i]), fmtVal(want))
				}
			}
			continue
		}
		fv, fok := r.fields[k]
		if !fok {
			return fmt.Sprintf("field %s=%s missing in impl", k, mv)
		}
		if !mok {
			return fmt.Sprintf("field %s=%s missing in model", k, fv)
		}
		if fv != mv {
			// "a|b" in the model/spec line: any of the alternatives is accepted
			okAlt := false
			if strings.Contains(mv, "|") && k == "r" {
				for _, alt := range strings.Split(mv, "|") {
					if alt == fv {
						okAlt = true
					}
				}
			}
			if !okAlt {
				return fmt.Sprintf("field %s: impl=%s model=%s", k, fv, mv)
			}
		}
	}
	return ""
}

func (r *rec) String() string {
	var parts []string
	ks := make([]string, 0)
	for k := range r.fields {
		ks = append(ks, k)
	}
	sort.Strings(ks)
	for _, k := range ks {
		parts = append(parts, k+"="+r.fields[k])
	}
	ks = ks[:0]
	for k := range r.vals {
		ks = append(ks, k)
	}
	sort.Strings(ks)
	for _, k := range ks {
		vs := make([]string, len(r.vals[k]))
		for i, v := range r.vals[k] {
			vs[i] = fmtVal(v)
		}
		parts = append(parts, k+"=["+strings.Join(vs, ",")+"]")
	}
	return strings.Join(parts, " ")
}

// compareSpec compares a record with the specification line. The shape may be given with
// alternatives (`shapeopt=2,1?,3`: axes marked `?` may be dropped). If the implementation's shape
// is an allowed alternative other than the conventional one, the comparison succeeds and `off`
// tells the caller to stop spec-checking this program (S follows the conventional choice).
func (p *prog) compareSpec(r *rec, spec string) (diff string, off bool) {
	mf := parseFields(spec)
	pat, hasPat := mf["shapeopt"]
	if hasPat {
		delete(mf, "shapeopt")
		if impl, ok := r.fields["shape"]; ok && impl != mf["shape"] {
			if matchShapePattern(impl, pat) {
				off = true
				delete(mf, "shape")
			}
		}
	}
	var parts []string
	for k, v := range mf {
		parts = append(parts, k+"="+v)
	}
	return p.compareRec(r, strings.Join(parts, " "), true), off
}

func matchShapePattern(impl, pat string) bool {
	var is, ps []string
	if impl != "-" {
		is = strings.Split(impl, ",")
	}
	if pat != "-" {
		ps = strings.Split(pat, ",")
	}
	var rec func(i, j int) bool
	rec = func(i, j int) bool {
		if j == len(ps) {
			return i == len(is)
		}
		opt := strings.HasSuffix(ps[j], "?")
		d := strings.TrimSuffix(ps[j], "?")
		if i < len(is) && is[i] == d && rec(i+1, j+1) {
			return true
		}
		return opt && rec(i, j+1)
	}
	return rec(0, 0)
}
