import TensorModel.Ext.Hooks
/-!
  C14 — serialisation (`dense_io.go`, `types.go:numpyDtype/fromNumpyDtype`).

  The byte-level codecs (encoding/gob, gogo-protobuf, flatbuffers, encoding/csv, encoding/binary,
  regexp) are third-party and modelled by contract: the model works on **records of fields**. Per
  format an encoder `St → Dense → Res Rec` says exactly which fields the Go code writes (shape,
  strides, order flags, the raw storage window or the iterated elements, the mask) and a decoder
  `St → Rec → Res (St × Dense)` says how the reader rebuilds a tensor from them (fresh buffer,
  strides taken over or recomputed, the `sanity` check). The NumPy header is format logic of this
  library and is modelled on characters: `fmtHdr` is the formatter of `WriteNpy`, `parseHdr` the
  three regular expressions of `ReadNpy` (equivalent on formatter output).

  Protocol step: `rt <gob|npy|csv|pb|fb> $a [mask=<bits>]` (see `tools/harness/ext_serial.go`).
-/
namespace TM
namespace Serial

/-! ## Characters: decimal integers -/

def digitChar (k : Nat) : Char :=
  match k with
  | 0 => '0' | 1 => '1' | 2 => '2' | 3 => '3' | 4 => '4'
  | 5 => '5' | 6 => '6' | 7 => '7' | 8 => '8' | _ => '9'

def dval (c : Char) : Option Nat :=
  if c = '0' then some 0 else if c = '1' then some 1 else if c = '2' then some 2
  else if c = '3' then some 3 else if c = '4' then some 4 else if c = '5' then some 5
  else if c = '6' then some 6 else if c = '7' then some 7 else if c = '8' then some 8
  else if c = '9' then some 9 else none

/-- decimal digits of `n`, least significant first (`fuel ≥ n` suffices; structural, so that the
    kernel can evaluate it) -/
def digitsRevF : Nat → Nat → List Char
  | 0, n => [digitChar (n % 10)]
  | fuel + 1, n => if n < 10 then [digitChar n] else digitChar (n % 10) :: digitsRevF fuel (n / 10)

def digitsRev (n : Nat) : List Char := digitsRevF n n

def natDigits (n : Nat) : List Char := (digitsRev n).reverse

/-- `%d` -/
def fmtInt (i : Int) : List Char :=
  if i < 0 then '-' :: natDigits (-i).toNat else natDigits i.toNat

def parseNatAux (acc : Nat) : List Char → Option Nat
  | [] => some acc
  | c :: cs => match dval c with
    | some d => parseNatAux (acc * 10 + d) cs
    | none => none

/-- `strconv.Atoi` (base 10, optional sign, at least one digit) -/
def parseInt (s : List Char) : Option Int :=
  match s with
  | [] => none
  | c :: ds =>
    if c = '-' then (if ds.isEmpty then none else (parseNatAux 0 ds).map (fun n => -(Int.ofNat n)))
    else if c = '+' then (if ds.isEmpty then none else (parseNatAux 0 ds).map Int.ofNat)
    else (parseNatAux 0 (c :: ds)).map Int.ofNat

/-! ## The NumPy header -/

/-- `numpyDtypes` of `types.go` (64-bit platform): element type ↦ dtype code -/
def npCode (dt : String) : Option String :=
  match dt with
  | "b" => some "b1" | "i" => some "i8" | "i8" => some "i1" | "i16" => some "i2" | "i32" => some "i4"
  | "i64" => some "i8" | "u" => some "u8" | "u8" => some "u1" | "u16" => some "u2" | "u32" => some "u4"
  | "u64" => some "u8" | "f32" => some "f4" | "f64" => some "f8" | "c64" => some "c8" | "c128" => some "c16"
  | _ => none

/-- `fromNumpyDtype` (64-bit platform): `i8`/`u8` are `Int`/`Uint`, never `Int64`/`Uint64` -/
def fromNpCode (code : String) : Option String :=
  match code with
  | "b1" => some "b" | "i1" => some "i8" | "i2" => some "i16" | "i4" => some "i32" | "i8" => some "i"
  | "u1" => some "u8" | "u2" => some "u16" | "u4" => some "u32" | "u8" => some "u"
  | "f4" => some "f32" | "f8" => some "f64" | "c8" => some "c64" | "c16" => some "c128"
  | _ => none

/-- the thirteen distinct dtype codes `WriteNpy` can emit (fifteen element types) -/
def npCodes : List String := ["b1", "i1", "i2", "i4", "i8", "u1", "u2", "u4", "u8", "f4", "f8", "c8", "c16"]

def joinDims : List Int → List Char
  | [] => []
  | [d] => fmtInt d
  | d :: ds => fmtInt d ++ (',' :: ' ' :: joinDims ds)

/-- text between the parentheses: `N,` for rank one, otherwise `Shape.Format` (`a, b, c`) -/
def shapeBody (shape : Shape) : List Char :=
  match shape with
  | [d] => fmtInt d ++ [',']
  | _ => joinDims shape

/-- the shape as written into the header: `(N,)` for rank one, otherwise `Shape.Format` -/
def fmtShape (shape : Shape) : List Char := '(' :: (shapeBody shape ++ [')'])

def hdrBase (code : List Char) (shape : Shape) : List Char :=
  "{'descr': '<".toList ++ code ++ "', 'fortran_order': False, 'shape': ".toList ++ fmtShape shape ++ ['}']

/-- header text of `WriteNpy`: the dict literal padded with `16 - (10 + len) % 16` spaces -/
def fmtHdr (code : List Char) (shape : Shape) : List Char :=
  let h := hdrBase code shape
  h ++ List.replicate (16 - (10 + h.length) % 16) ' '

def stripPrefix : List Char → List Char → Option (List Char)
  | [], s => some s
  | _ :: _, [] => none
  | p :: ps, c :: cs => if p = c then stripPrefix ps cs else none

/-- text after the leftmost occurrence of `pat` -/
def findAfter (pat : List Char) : List Char → Option (List Char)
  | [] => stripPrefix pat []
  | c :: cs => match stripPrefix pat (c :: cs) with
    | some r => some r
    | none => findAfter pat cs

def isWs (c : Char) : Bool := c = ' ' || c = '\t' || c = '\n' || c = '\r' || c = '\x0c' || c = '\x0b'

def takeUntilQuote : List Char → Option (List Char)
  | [] => none
  | c :: cs => if c = '\'' then some [] else (takeUntilQuote cs).map (c :: ·)

/-- prefix before the last `)` -/
def upToLastClose : List Char → Option (List Char)
  | [] => none
  | c :: cs => match upToLastClose cs with
    | some r => some (c :: r)
    | none => if c = ')' then some [] else none

/-- `strings.Split(s, ",")` -/
def splitComma : List Char → List (List Char)
  | [] => [[]]
  | c :: cs =>
    if c = ',' then [] :: splitComma cs
    else match splitComma cs with
      | [] => [[c]]
      | h :: t => (c :: h) :: t

def trimR : List Char → List Char
  | [] => []
  | c :: cs => match trimR cs with
    | [] => if c = ' ' then [] else [c]
    | r => c :: r

/-- `strings.Trim(s, " ")` -/
def trimSp (s : List Char) : List Char := trimR (s.dropWhile (· = ' '))

/-- the loop over the comma-separated sizes: stops at the first empty item -/
def parseDims : List (List Char) → Option (List Int)
  | [] => some []
  | s :: ss =>
    let s' := trimSp s
    if s'.isEmpty then some []
    else match parseInt s' with
      | none => none
      | some n => (parseDims ss).map (n :: ·)

/-- `npyDescRE = 'descr':\s*'([^']*)'` then `[1:]` (the byte-order mark is dropped unseen) -/
def parseDescr (h : List Char) : Option (List Char) := do
  let r ← findAfter "'descr':".toList h
  match r.dropWhile isWs with
  | c :: r' =>
    if c = '\'' then
      match ← takeUntilQuote r' with
      | [] => none   -- Go: `match[1][1:]` of an empty capture panics; not reachable from the writer
      | _ :: code => some code
    else none
  | [] => none

/-- `rowOrderRE = 'fortran_order':\s*(False|True)`; only `False` is accepted by the reader -/
def parseOrder (h : List Char) : Option Bool := do
  let r ← findAfter "'fortran_order':".toList h
  let r := r.dropWhile isWs
  match stripPrefix "False".toList r with
  | some _ => some false
  | none => match stripPrefix "True".toList r with
    | some _ => some true
    | none => none

/-- `shapeRE = 'shape':\s*\(([^\(]*)\)` (greedy: up to the last `)` before any further `(`) -/
def parseShape (h : List Char) : Option (List Int) := do
  let r ← findAfter "'shape':".toList h
  match r.dropWhile isWs with
  | c :: r' =>
    if c = '(' then
      let seg := r'.takeWhile (· ≠ '(')
      match upToLastClose seg with
      | some body => parseDims (splitComma body)
      | none => none
    else none
  | [] => none

/-- header parser of `ReadNpy`: dtype code and shape; `none` = an error is returned -/
def parseHdr (h : List Char) : Option (List Char × Shape) := do
  let code ← parseDescr h
  let _ ← fromNpCode (String.ofList code)
  let fortran ← parseOrder h
  if fortran then none
  let shape ← parseShape h
  pure (code, shape)

/-! ## Records -/

structure Rec where
  shape : Shape := []
  strides : List Int := []
  o : Order := {}
  dt : String := ""              -- gob: element type of the slice; pb/fb: `Dtype.String()`; csv: `As(…)`
  mask : List Bool := []
  data : List Val := []            -- payload cells in the order they are written
  hdr : List Char := []            -- npy: header text
  rows : List (List Val) := []     -- csv: records
deriving Inhabited

inductive Fmt where | gob | npy | csv | pb | fb
deriving DecidableEq, Repr, Inhabited

def Fmt.ofString : String → Option Fmt
  | "gob" => some .gob | "npy" => some .npy | "csv" => some .csv | "pb" => some .pb | "fb" => some .fb
  | _ => none

/-- `FillValue()` of the element's type, as a term the harness evaluates -/
def fillOf (v : Val) : Val := .app1 "fill" v

def maskCells (st : St) (t : Dense) : Res (List Bool) :=
  match t.mask with
  | none => pure []
  | some m => (rangeI m.len).mapM (fun i => st.mget m i)

/-- elements in iterator (= logical) order, masked ones replaced by the fill value -/
def filledIter (st : St) (t : Dense) (m : Win) : Res (List Val) :=
  t.offsets.mapM (fun i => do
    let b ← st.mget m i
    let v ← st.get t.win i
    pure (if b then fillOf v else v))

/-! ### what gob, protobuf and flatbuffers write: `packed()` -/

/-- `packed()`: the tensor itself when its storage window is exactly as long as the tensor is large
    (`t.len() == t.Size()`); otherwise `recycledDense(dt, shape)` — a fresh row-major tensor of the same
    shape — filled by `copyDenseIter(retVal, t, nil, nil)` (elements and, for a masked source, the mask
    along both iterators). -/
def packed (st : St) (t : Dense) : Res (St × Dense) := do
  if (t.win.len : Int) == totalSize t.shape then pure (st, t) else
  let (st, r) := Dense.fresh st t.dt t.shape false (Array.replicate (totalSize t.shape).toNat Val.zero) t.eng
  Dense.copyDenseIter st r t

/-! ### gob -/

/-- `GobEncode`: of the packed tensor — shape, strides, order flags, triangle, the whole mask, the
    backing slice (`t.array.Data()`: a slice for tensors of rank 0, too) -/
def gobEnc (st : St) (t : Dense) : Res Rec := do
  let (st, t) ← packed st t
  let mask ← maskCells st t
  let data ← t.rawCells st
  pure { shape := t.shape, strides := t.strides, o := t.ap.o, dt := t.dt, mask := mask, data := data }

/-- `sanity()` of a freshly decoded (non-view) tensor -/
def sanityOk (shape : Shape) (len : Nat) : Bool := (len : Int) == totalSize shape || isScalar shape

/-- `GobDecode`: `AP.Init(shape, strides)`, `fromSlice(data)`, `addMask`, `fix`, `sanity` -/
def gobDec (st : St) (r : Rec) : Res (St × Dense) := do
  let n := r.data.length
  let (st, b) := st.alloc r.data.toArray
  if r.mask.length > 0 && r.mask.length != n then throwPanic "Mask is not same length as data"
  let (st, mask) :=
    if r.mask.length > 0 then
      let (st, mb) := st.allocMask r.mask.toArray
      (st, some (⟨mb, 0, n, n⟩ : Win))
    else (st, none)
  if !sanityOk r.shape n then throwErr "sanity check failed"
  pure (st, { ap := { shape := r.shape, strides := r.strides, fin := true, o := r.o },
              win := ⟨b, 0, n, n⟩, dt := r.dt, mask := mask })

/-! ### npy -/

/-- `WriteNpy`: header, then the elements in the iterator's (= logical) order; when the tensor is
    masked, masked cells are replaced by the fill value. `binary.Write` refuses the platform-sized
    `int`/`uint`. -/
def npyEnc (st : St) (t : Dense) : Res Rec := do
  match npCode t.dt with
  | none => throwErr "Unsupported Dtype conversion to Numpy Dtype"
  | some code =>
    let hdr := fmtHdr code.toList t.shape
    let body ← (match t.mask with
      | some m => if t.isMasked then filledIter st t m else t.iterCells st
      | none => t.iterCells st : Res (List Val))
    if (t.dt == "i" || t.dt == "u") && !body.isEmpty then throwErr "binary.Write: invalid type"
    pure { shape := t.shape, dt := code, hdr := hdr, data := body }

/-- `ReadNpy`: header by regular expressions, `size` elements from the body into a fresh buffer,
    `setShape` (row-major strides). `binary.Read` refuses `*int`/`*uint`. -/
def npyDec (st : St) (r : Rec) : Res (St × Dense) := do
  match parseHdr r.hdr with
  | none => throwErr "header"
  | some (code, shape) =>
    match fromNpCode (String.ofList code) with
    | none => throwErr "Unsupported Dtype conversion"
    | some dt =>
      let size := (totalSize shape).toNat
      let cells ← (
        if dt == "i" || dt == "u" then
          (if size == 0 then pure [] else throwErr "binary.Read: invalid type")
        else if r.data.length < size then throwErr "unexpected EOF"
        else pure (r.data.take size) : Res (List Val))
      let (st, b) := st.alloc cells.toArray
      if !sanityOk shape size then throwErr "sanity check failed"
      pure (st, { ap := { shape := shape, strides := calcStrides shape, fin := true }, win := ⟨b, 0, size, size⟩, dt := dt })

/-! ### csv -/

structure CsvSt where
  it : FlatIt
  record : List Val := []
  rows : List (List Val) := []
  k : Nat := 0
  lastCol : Int := 0

/-- the `for i, err = it.Next(); err == nil; …` loop of `WriteCSV` -/
def csvLoop (st : St) (t : Dense) (masked : Bool) (cols : Int) : Nat → CsvSt → Res CsvSt
  | 0, s => pure s
  | fuel + 1, s =>
    match s.it.next with
    | (_, none) => pure s
    | (it', some i) => do
      let v ← st.get t.win i
      let record := s.record ++ [v]
      let record ← (if masked then
          match t.mask with
          | some m => do
            let b ← st.mget m i
            if b then
              (if s.k < record.length then pure (record.set s.k (fillOf v))
               else throwPanic "record[k]: index out of range")
            else pure record
          | none => pure record
        else pure record : Res (List Val))
      let k := if masked then s.k + 1 else s.k
      -- a written record is emptied and its index `k` starts again at 0
      let (rows, record, k) := if s.lastCol == cols - 1 then (s.rows ++ [record], [], 0) else (s.rows, record, k)
      -- `coord` aliases the iterator's track, already advanced to the next element
      let tr := it'.track
      let n := tr.length
      let lastCol ← (
        if isRowVec t.shape then idx tr (n - 1 : Int) "coord"
        else if isColVec t.shape then idx tr (n - 1 : Int) "coord"
        else idx tr (n - 1 : Int) "coord")
      csvLoop st t masked cols fuel { it := it', record := record, rows := rows, k := k, lastCol := lastCol }

/-- `WriteCSV`: matrices only; one record per row, cut with the iterator's coordinate -/
def csvEnc (st : St) (t : Dense) : Res Rec := do
  if t.shape.length != 2 then throwErr "Cannot write *Dense to CSV"
  let cols ← idx t.shape 1 "shape[1]"
  let masked := t.mask.isSome && t.isMasked
  let s ← csvLoop st t masked cols ((totalSize t.shape).toNat + 2) { it := FlatIt.new t.ap }
  pure { dt := t.dt, rows := s.rows }

/-- element types `convFromStrs` converts to -/
def csvTypes : List String :=
  ["b", "i", "i8", "i16", "i32", "i64", "u", "u8", "u16", "u32", "u64", "f32", "f64", "c64", "c128", "str"]

/-- `ReadCSV(r, As(dt))`: records appended to one backing slice; shape `(rows, len(last record))`.
    (`%v` then `strconv.Parse*` is the identity on every value of the supported types.) -/
def csvDec (st : St) (r : Rec) : Res (St × Dense) := do
  match r.rows with
  | [] => throwPanic "fromSlice(nil)"
  | first :: _ =>
    if !csvTypes.contains r.dt then throwErr "convFromStrs not yet implemented"
    if r.rows.any (fun row => row.length != first.length) then throwErr "wrong number of fields"
    let cells := r.rows.flatten
    let shape : Shape := [r.rows.length, (r.rows.getLast?.getD []).length]
    let (st, b) := st.alloc cells.toArray
    pure (st, { ap := { shape := shape, strides := calcStrides shape, fin := false },
                win := ⟨b, 0, cells.length, cells.length⟩, dt := r.dt })

/-! ### protobuf / flatbuffers -/

/-- `PBEncode` / `FBEncode`: of the packed tensor — shape and strides (as int32), a 4-valued order code
    (the transposed flag is not representable), the dtype *name*, the raw bytes of the storage window.
    No mask. -/
def rawEnc (st : St) (t : Dense) : Res Rec := do
  let (st, t) ← packed st t
  let data ← t.rawCells st
  pure { shape := t.shape, strides := t.strides, o := { col := t.ap.o.col, nonContig := t.ap.o.nonContig },
         dt := t.dt, data := data }

/-- `makeArray(shape.TotalSize())` then `copy(db, data)`: the common prefix -/
def rawFill (size : Nat) (data : List Val) : List Val :=
  data.take size ++ List.replicate (size - data.length) Val.zero

/-- `PBDecode`: shape/strides taken over, fresh buffer of `TotalSize` cells, `sanity` -/
def pbDec (st : St) (r : Rec) : Res (St × Dense) := do
  let size := (totalSize r.shape).toNat
  let (st, b) := st.alloc (rawFill size r.data).toArray
  if !sanityOk r.shape size then throwErr "sanity check failed"
  pure (st, { ap := { shape := r.shape, strides := r.strides, fin := false, o := r.o }, win := ⟨b, 0, size, size⟩, dt := r.dt })

/-- `FBDecode`: as `PBDecode` (every serialized stride is taken over), then `fix()` -/
def fbDec (st : St) (r : Rec) : Res (St × Dense) := do
  let size := (totalSize r.shape).toNat
  let (st, b) := st.alloc (rawFill size r.data).toArray
  if !sanityOk r.shape size then throwErr "sanity check failed"
  pure (st, { ap := { shape := r.shape, strides := r.strides, fin := true, o := r.o }, win := ⟨b, 0, size, size⟩, dt := r.dt })

def encodeRec (f : Fmt) (st : St) (t : Dense) : Res Rec :=
  match f with
  | .gob => gobEnc st t
  | .npy => npyEnc st t
  | .csv => csvEnc st t
  | .pb => rawEnc st t
  | .fb => rawEnc st t

def decodeRec (f : Fmt) (st : St) (r : Rec) : Res (St × Dense) :=
  match f with
  | .gob => gobDec st r
  | .npy => npyDec st r
  | .csv => csvDec st r
  | .pb => pbDec st r
  | .fb => fbDec st r

/-! ## Known-defect regions -/

/-- F74: npy of int64/uint64: read back as the platform `int`/`uint`, which `binary.Read` refuses. -/
def Excl_npyInt64 (t : Dense) : Bool := t.dt == "i64" || t.dt == "u64"

/-- finding F125: `WriteCSV` prints the elements of every element type with `%v`, `ReadCSV` (`convFromStrs`) converts back
    only to the types of `csvTypes`: a matrix of another element type (uintptr) is written and cannot be read back -/
def Excl_csvUnreadable (t : Dense) : Bool := !csvTypes.contains t.dt && t.shape.length == 2

def exclFor (f : Fmt) (t : Dense) : List String :=
  match f with
  | .gob => []
  | .npy =>
    if (npCode t.dt).isNone || t.dt == "i" || t.dt == "u" then [] else
    (if Excl_npyInt64 t then ["F74"] else [])
  | .csv => if Excl_csvUnreadable t then ["F125"] else []
  | .pb => []
  | .fb => []

/-! ## Protocol step -/

def parseBits (s : String) : Option (List Bool) :=
  s.toList.mapM (fun c => if c = '1' then some true else if c = '0' then some false else none)

structure RtArgs where
  fmt : Fmt
  id : Nat
  t : Dense                      -- the source (with the requested mask already attached)
  bits : Option (List Bool)
  st : St

inductive RtParse where
  | bad | skip
  | ok (a : RtArgs)

/-- parse the step and attach the mask: bit `k` goes to the storage index `Ltoi` gives the k-th
    coordinate (`SetMask` of a fresh slice as long as the storage window) -/
def rtParse (ps : PState) (toks : List String) : RtParse :=
  match toks with
  | "rt" :: f :: v :: opts =>
    match Fmt.ofString f with
    | none => if (ps.obj v).isSome then .bad else .skip
    | some fmt =>
      match ps.obj v with
      | none => .skip
      | some (id, t) =>
        match opts with
        | [] => .ok { fmt := fmt, id := id, t := t, bits := none, st := ps.st }
        | [o] =>
          if !o.startsWith "mask=" then .bad else
          match parseBits (o.drop 5).toString with
          | none => .bad
          | some bits =>
            let cs := allCoords t.shape
            if bits.length != cs.length then .skip else
            match cs.mapM (fun c => ltoi t.shape t.strides c) with
            | .error _ => .skip
            | .ok idxs =>
              if idxs.any (fun i => i < 0 || i ≥ t.win.len) then .skip else
              let cells := (idxs.zip bits).foldl (fun (a : Array Bool) (i, b) => a.set! i.toNat b)
                (Array.replicate t.win.len false)
              let (st, mb) := ps.st.allocMask cells
              .ok { fmt := fmt, id := id, bits := some bits, st := st,
                    t := { t with mask := some ⟨mb, 0, t.win.len, t.win.len⟩ } }
        | _ => .bad
  | _ => .bad

/-- mask of a tensor listed by coordinate -/
def logicalMask (st : St) (t : Dense) : String :=
  match t.mask with
  | some m =>
    if !(t.isMasked && m.len > 0) then "-" else
    String.ofList ((allCoords t.shape).map (fun c =>
      match ltoi t.shape t.strides c with
      | .ok i => (match st.mget m i with | .ok true => '1' | .ok false => '0' | .error _ => 'x')
      | .error _ => 'x'))
  | none => "-"

/-- what the independent reader of the harness reports about the written header and body -/
def npyFields (t : Dense) (r : Rec) : String :=
  match parseHdr r.hdr with
  | none => "npyck=bad:hdr npyhdr=- npynl=-"
  | some (code, shape) =>
    let nl := if r.hdr.getLast? == some '\n' then "1" else "0"
    let hdr := s!"npyhdr=<{String.ofList code}:C:{showInts shape} npynl={nl}"
    let size := totalSize shape
    if (10 + r.hdr.length) % 16 != 0 then s!"npyck=bad:align {hdr}"
    else if some (String.ofList code) != npCode t.dt then s!"npyck=bad:descr {hdr}"
    else if shape != t.shape then s!"npyck=bad:shape {hdr} npybody={showVals r.data}"
    else if (r.data.length : Int) != size then s!"npyck=bad:len {hdr} npybody={showVals r.data}"
    else s!"npyck=ok {hdr} npybody={showVals r.data}"

def resClass {α} (r : Res α) : String :=
  match r with
  | .ok _ => "ok"
  | .error (.err _) => "err"
  | .error (.panic _) => "panic"

def stepM (ps : PState) (_stepIdx : Nat) (toks : List String) : PState × StepOut :=
  match rtParse ps toks with
  | .bad => (ps.failVar, .fields "r=badprog")
  | .skip => (ps.failVar, .fields "r=skip")
  | .ok a =>
    let ps := ({ ps with st := a.st }).setObj a.id a.t
    let isNpy := a.fmt == Fmt.npy
    let encR := encodeRec a.fmt a.st a.t
    match encR with
    | .error e =>
      let c := resClass encR
      let npy := if isNpy then " npyck=- npyhdr=- npynl=-" else ""
      let line := s!"r={c} enc={c} back=- dt=- lmask=-{npy}"
      (ps.failVar, if e.isPanic then .stop line else .fields line)
    | .ok rec =>
      let npy := if isNpy then " " ++ npyFields a.t rec else ""
      let decR := decodeRec a.fmt a.st rec
      match decR with
      | .error e =>
        let c := resClass decR
        let line := s!"r={c} enc=ok back=0 dt=- lmask=-{npy}"
        (ps.failVar, if e.isPanic then .stop line else .fields line)
      | .ok (st, d) =>
        let ve := match a.bits with
          | none => ""
          | some bits =>
            let cs := (allCoords a.t.shape).zip bits
            let vs := (cs.filter (fun (p : List Int × Bool) => !p.2)).map
              (fun (p : List Int × Bool) => showRes (d.at_ st p.1) Val.toStr)
            " velems=" ++ (if vs.isEmpty then "-" else String.intercalate "," vs)
        let line := s!"r=ok enc=ok back=1 dt={d.dt} lmask={logicalMask st d}{npy}{ve}"
        (({ ps with st := st }).newVar d, .fields line)

/-- which formats carry a mask -/
def carriesMask (f : Fmt) : Bool := f == Fmt.gob

/-- S: the encoder may refuse; otherwise the bytes must read back as a tensor with the source's
    element type, shape and logical elements (and mask, where the format carries one). Elements
    under the source's mask are not specified for formats without a mask. The written .npy bytes,
    read by a conforming reader, must be the logical row-major listing under the logical shape. -/
def stepS (psBefore psAfter : PState) (ss : SState) (_stepIdx : Nat) (toks : List String) (mres : String) : SOut :=
  let ss := ss.sync psBefore.ds.size
  let newId := psBefore.ds.size
  match toks with
  | "rt" :: f :: v :: opts =>
    match Fmt.ofString f, sObj psBefore ss v, psBefore.obj v with
    | some fmt, some (_, o), some (_, d) =>
      match o.elems ss with
      | none => finS psAfter ss none
      | some es =>
        let bits : Option (Option (List Bool)) := match opts with
          | [] => some none
          | [m] => if m.startsWith "mask=" then (parseBits (m.drop 5).toString).map some else none
          | _ => none
        match bits with
        | none => finS psAfter ss none
        | some bits =>
          if (match bits with | some b => b.length != es.length | none => false) then finS psAfter ss none else
          if mres == "ok" then
            let valid : List Val := match bits with
              | some b => ((es.zip b).filter (fun (p : Val × Bool) => !p.2)).map (·.1)
              | none => es
            let line := s!"r=ok back=1 dt={d.dt}"
            let line := match bits with
              | some b => line ++ s!" velems={showVals valid}" ++ (if carriesMask fmt then s!" lmask={showBools b}" else "")
              | none => line
            let line := if fmt == Fmt.npy then
                line ++ " npyck=ok" ++ (if bits.isNone then s!" npybody={showVals es}" else "")
              else line
            -- the decoded tensor: a new owner of the same logical array (unspecified under a mask the format drops)
            if bits.isSome && !carriesMask fmt && (bits.getD []).any id then
              finS psAfter ss (some line)
            else
              let root := ss.store.size
              let ss := { ss with store := ss.store.push es.toArray }
              let o' : SObj := { root := root, idx := ⟨o.idx.shape, List.range es.length⟩ }
              finS psAfter ({ ss with objs := (ss.sync newId).objs.push (some o') }) (some line)
          else if mres == "err" || mres == "panic" then
            finS psAfter ss (some "r=err|panic back=-")
          else finS psAfter ss none
    | _, _, _ => finS psAfter ss none
  | _ => finS psAfter ss none

def excl (ps : PState) (toks : List String) : List String × Bool :=
  match rtParse ps toks with
  | .ok a => (exclFor a.fmt a.t, false)
  | _ => ([], false)

end Serial

def serialFamily : Family :=
  { name := "Serial", keys := ["rt"], stepM := Serial.stepM, stepS := Serial.stepS, excl := Serial.excl }

end TM
