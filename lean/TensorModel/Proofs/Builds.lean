import TensorModel.Generated.DivmodAsm
/-!
  `divmod_amd64.s` (default build) and `mathutils_go.go` (`noasm` build) are the same function:
  for every pair of 64-bit operands the regenerated instruction list returns Go's `a / b`, `a % b`
  in the result slots, leaves the argument slots alone, and faults exactly when Go panics (`b = 0`).
-/
namespace TM.Asm
open TM.Generated

theorem sdiv_neg_one (a : BitVec 64) : a.sdiv (BitVec.allOnes 64) = -a := by
  have h1 : -(18446744073709551615#64) = 1#64 := by decide
  have hm : (18446744073709551615#64).msb = true := by decide
  cases ha : a.msb <;> simp [BitVec.sdiv, ha, hm, h1, BitVec.udiv_one]

theorem srem_neg_one (a : BitVec 64) : a.srem (BitVec.allOnes 64) = 0#64 := by
  have h1 : -(18446744073709551615#64) = 1#64 := by decide
  have hm : (18446744073709551615#64).msb = true := by decide
  cases ha : a.msb <;> simp [BitVec.srem, ha, hm, h1, BitVec.umod_one]

/-- the run of the regenerated instruction list from the entry state -/
def runDivmod (regs : Reg → BitVec 64) (q0 r0 : BitVec 64) (zf dx : Bool) (a b : BitVec 64) : Outcome :=
  run divmodAsm 16 0 (entry regs q0 r0 zf dx a b)

theorem divmod_asm_zero (regs : Reg → BitVec 64) (q0 r0 : BitVec 64) (zf dx : Bool) (a : BitVec 64) :
    ∃ o, runDivmod regs q0 r0 zf dx a 0#64 = o ∧ (match o with | .fault => True | _ => False) := by
  refine ⟨_, rfl, ?_⟩
  simp [runDivmod, run, step, divmodAsm, entry, Machine.read, Machine.write, Machine.setReg]

/-- the frame (q, r, a, b) at `RET`, `none` if the run did not return -/
def Outcome.frame : Outcome → Option (BitVec 64 × BitVec 64 × BitVec 64 × BitVec 64)
  | .returned m => some (m.fq, m.fr, m.fa, m.fb)
  | _ => none

theorem divmod_asm_neg_one (regs : Reg → BitVec 64) (q0 r0 : BitVec 64) (zf dx : Bool) (a : BitVec 64) :
    (runDivmod regs q0 r0 zf dx a (BitVec.allOnes 64)).frame =
      some (a.sdiv (BitVec.allOnes 64), a.srem (BitVec.allOnes 64), a, BitVec.allOnes 64) := by
  rw [sdiv_neg_one, srem_neg_one]
  simp [runDivmod, run, step, divmodAsm, entry, Machine.read, Machine.write, Machine.setReg, Outcome.frame]

theorem divmod_asm_general (regs : Reg → BitVec 64) (q0 r0 : BitVec 64) (zf dx : Bool) (a b : BitVec 64)
    (h0 : b ≠ 0#64) (h1 : b ≠ BitVec.allOnes 64) :
    (runDivmod regs q0 r0 zf dx a b).frame = some (a.sdiv b, a.srem b, a, b) := by
  have h1 : b ≠ 18446744073709551615#64 := by simpa using h1
  simp [runDivmod, run, step, divmodAsm, entry, Machine.read, Machine.write, Machine.setReg, Outcome.frame, h0, h1]

end TM.Asm
