package main

// Family "Mask" (property C15): steps mnew, harden, soften, mpred, mq, mruns, filled, miter, mdump, mmat.

import (
	"fmt"
	"math"
	"strconv"
	"strings"

	"gorgonia.org/tensor"
)

func init() {
	extSteps["mnew"] = stepMnew
	extSteps["harden"] = stepMaskHardenSoften
	extSteps["soften"] = stepMaskHardenSoften
	extSteps["mpred"] = stepMpred
	extSteps["mq"] = stepMq
	extSteps["mruns"] = stepMruns
	extSteps["filled"] = stepMaskFilled
	extSteps["miter"] = stepMiter
	extSteps["mdump"] = stepMdump
	extSteps["mmat"] = stepMmat
	extSteps["mapply"] = func(p *prog, idx int, toks []string) *rec {
		return p.stepUn(append([]string{"un", "apply"}, toks[1:]...))
	}
	extSteps["mtranspose"] = func(p *prog, idx int, toks []string) *rec {
		if len(toks) != 2 {
			return simple("badprog")
		}
		t, _ := p.get(toks[1])
		if t == nil {
			return simple("skip")
		}
		return simple(guard(func() error { return t.Transpose() }))
	}

	boolArgs := func(args []interface{}) (bool, bool, interface{}) {
		for _, a := range args {
			if m, ok := a.(errMark); ok {
				return false, false, m
			}
		}
		if len(args) != 2 {
			return false, false, nil
		}
		a, ok1 := args[0].(bool)
		b, ok2 := args[1].(bool)
		if !ok1 || !ok2 {
			return false, false, nil
		}
		return a, b, true
	}
	extraOps["and"] = func(args []interface{}) (interface{}, error) {
		a, b, ok := boolArgs(args)
		if m, isMark := ok.(errMark); isMark {
			return m, nil
		}
		if ok == nil {
			return nil, fmt.Errorf("and: two booleans expected")
		}
		return a && b, nil
	}
	extraOps["or"] = func(args []interface{}) (interface{}, error) {
		a, b, ok := boolArgs(args)
		if m, isMark := ok.(errMark); isMark {
			return m, nil
		}
		if ok == nil {
			return nil, fmt.Errorf("or: two booleans expected")
		}
		return a || b, nil
	}
	// |a-x| <= 1e-8 exactly as the generated MaskedValues computes it
	extraOps["mvalues"] = func(args []interface{}) (interface{}, error) {
		if len(args) != 2 {
			return nil, fmt.Errorf("mvalues: arity")
		}
		switch a := args[0].(type) {
		case float32:
			x, ok := args[1].(float32)
			if !ok {
				break
			}
			return math.Abs(float64(a-x)) <= float64(1.0e-8), nil
		case float64:
			x, ok := args[1].(float64)
			if !ok {
				break
			}
			return math.Abs(float64(a-x)) <= float64(1.0e-8), nil
		}
		return nil, fmt.Errorf("mvalues: floats expected")
	}
	extraOps["pair"] = func(args []interface{}) (interface{}, error) {
		if len(args) != 2 {
			return nil, fmt.Errorf("pair: arity")
		}
		return [2]interface{}{args[0], args[1]}, nil
	}
	// delta = val3 + val2*|val1|
	extraOps["mvalues3"] = func(args []interface{}) (interface{}, error) {
		if len(args) != 3 {
			return nil, fmt.Errorf("mvalues3: arity")
		}
		yz, ok := args[2].([2]interface{})
		if !ok {
			return nil, fmt.Errorf("mvalues3: pair expected")
		}
		switch a := args[0].(type) {
		case float32:
			x, ok1 := args[1].(float32)
			y, ok2 := yz[0].(float32)
			z, ok3 := yz[1].(float32)
			if !ok1 || !ok2 || !ok3 {
				break
			}
			delta := float64(z) + float64(y)*math.Abs(float64(x))
			return math.Abs(float64(a-x)) <= delta, nil
		case float64:
			x, ok1 := args[1].(float64)
			y, ok2 := yz[0].(float64)
			z, ok3 := yz[1].(float64)
			if !ok1 || !ok2 || !ok3 {
				break
			}
			delta := float64(z) + float64(y)*math.Abs(float64(x))
			return math.Abs(float64(a-x)) <= delta, nil
		}
		return nil, fmt.Errorf("mvalues3: floats expected")
	}
	// the documented default fill value of the element type (argument: the type's zero value)
	extraOps["fillv"] = func(args []interface{}) (interface{}, error) {
		if len(args) != 1 {
			return nil, fmt.Errorf("fillv: arity")
		}
		switch args[0].(type) {
		case bool:
			return true, nil
		case int:
			return int(999999), nil
		case int8:
			return int8(99), nil
		case int16:
			return int16(9999), nil
		case int32:
			return int32(999999), nil
		case int64:
			return int64(999999), nil
		case uint:
			return uint(999999), nil
		case uint8:
			return uint8(99), nil
		case uint16:
			return uint16(9999), nil
		case uint32:
			return uint32(999999), nil
		case uint64:
			return uint64(999999), nil
		case float32:
			return float32(1.0e20), nil
		case float64:
			return float64(1.0e20), nil
		case complex64:
			return complex64(1.0e20 + 0i), nil
		case complex128:
			return complex128(1.0e20 + 0i), nil
		case string:
			return `N/A`, nil
		}
		return nil, fmt.Errorf("fillv: unsupported type %T", args[0])
	}
}

func maskParseBits(s string) ([]bool, bool) {
	out := make([]bool, len(s))
	for i, c := range s {
		switch c {
		case '1':
			out[i] = true
		case '0':
		default:
			return nil, false
		}
	}
	return out, true
}

func stepMnew(p *prog, idx int, toks []string) *rec {
	if len(toks) != 5 {
		return simple("badprog")
	}
	dt := dtByName(toks[1])
	shape, err := parseInts(toks[2])
	if dt == nil || err != nil || (toks[3] != "C" && toks[3] != "Fraw") {
		p.push(nil, dt)
		return simple("badprog")
	}
	var mask []bool
	hasMask := toks[4] != "-"
	if hasMask {
		m, ok := maskParseBits(toks[4])
		if !ok {
			p.push(nil, dt)
			return simple("badprog")
		}
		mask = m
	}
	n := 1
	for _, d := range shape {
		n *= d
	}
	buf := p.nbuf
	p.nbuf++
	in := make([]interface{}, n)
	backing := dt.makeSlice(n, func(i int) interface{} { v := dt.genVal(p.vset, buf, i); in[i] = v; return v })
	p.inputs = append(p.inputs, in)
	return p.newOp(dt, func() (*tensor.Dense, error) {
		var bo tensor.ConsOpt
		if hasMask {
			bo = tensor.WithBacking(backing, mask)
		} else {
			bo = tensor.WithBacking(backing)
		}
		if toks[3] == "Fraw" {
			return tensor.New(tensor.WithShape(shape...), bo, tensor.AsFortran(nil)), nil
		}
		return tensor.New(tensor.WithShape(shape...), bo), nil
	})
}

func stepMaskHardenSoften(p *prog, idx int, toks []string) *rec {
	if len(toks) != 2 {
		return simple("badprog")
	}
	t, _ := p.get(toks[1])
	if t == nil {
		return simple("skip")
	}
	return simple(guard(func() error {
		if toks[0] == "soften" {
			t.SoftenMask()
		} else {
			t.HardenMask()
		}
		return nil
	}))
}

// maskLogical reads the mask by MaskAt at every coordinate (row-major order).
func maskLogical(t *tensor.Dense) []interface{} {
	cs := allCoords(t.Shape())
	out := make([]interface{}, len(cs))
	for i, c := range cs {
		out[i] = maskAtSafe(t, c)
	}
	return out
}

func maskAtSafe(t *tensor.Dense, c []int) (v interface{}) {
	defer func() {
		if r := recover(); r != nil {
			v = errMark("panic")
		}
	}()
	b, err := t.MaskAt(c...)
	if err != nil {
		return errMark("err")
	}
	return b
}

func maskBoolVals(m []bool) []interface{} {
	out := make([]interface{}, len(m))
	for i, b := range m {
		out[i] = b
	}
	return out
}

var maskPredArity = map[string][2]int{
	"eq": {1, 1}, "ne": {1, 1}, "gt": {1, 1}, "gte": {1, 1}, "lt": {1, 1}, "lte": {1, 1},
	"inside": {2, 2}, "outside": {2, 2}, "values": {2, 3},
}

func stepMpred(p *prog, idx int, toks []string) *rec {
	if len(toks) < 4 {
		return simple("badprog")
	}
	op, mode := toks[1], toks[3]
	t, dt := p.get(toks[2])
	ar, okOp := maskPredArity[op]
	if t == nil || !okOp {
		return simple("skip")
	}
	litToks := toks[4:]
	if len(litToks) < ar[0] || len(litToks) > ar[1] || (mode != "soft" && mode != "hard" && mode != "dflt") {
		return simple("badprog")
	}
	lits := make([]interface{}, len(litToks))
	for i, lt := range litToks {
		if !strings.HasPrefix(lt, "#") {
			return simple("badprog")
		}
		v, err := scalarLit(lt, dt)
		if err != nil {
			return simple("badprog")
		}
		lits[i] = v
	}
	res := guard(func() error {
		switch mode {
		case "soft":
			t.SoftenMask()
		case "hard":
			t.HardenMask()
		}
		switch op {
		case "eq":
			return t.MaskedEqual(lits[0])
		case "ne":
			return t.MaskedNotEqual(lits[0])
		case "gt":
			return t.MaskedGreater(lits[0])
		case "gte":
			return t.MaskedGreaterEqual(lits[0])
		case "lt":
			return t.MaskedLess(lits[0])
		case "lte":
			return t.MaskedLessEqual(lits[0])
		case "inside":
			return t.MaskedInside(lits[0], lits[1])
		case "outside":
			return t.MaskedOutside(lits[0], lits[1])
		case "values":
			return t.MaskedValues(lits[0], lits[1], lits[2:]...)
		}
		return fmt.Errorf("unknown predicate")
	})
	r := simple(res)
	if res == "ok" {
		r.dt = dt
		m, _ := tensor.VerifMaskInfo(t)
		r.vals["maskt"] = maskBoolVals(m)
		r.vals["lmaskt"] = maskLogical(t)
	}
	return r
}

func stepMq(p *prog, idx int, toks []string) *rec {
	if len(toks) < 3 || len(toks) > 4 {
		return simple("badprog")
	}
	kind := toks[1]
	t, _ := p.get(toks[2])
	if t == nil {
		return simple("skip")
	}
	var axis []int
	if len(toks) == 4 {
		a, err := parseInts(toks[3])
		if err != nil {
			return simple("skip")
		}
		axis = a
	}
	var out interface{}
	res := guard(func() error {
		switch kind {
		case "count":
			out = t.MaskedCount(axis...)
		case "ncount":
			out = t.NonMaskedCount(axis...)
		case "any":
			out = t.MaskedAny(axis...)
		case "all":
			out = t.MaskedAll(axis...)
		default:
			return fmt.Errorf("unknown query")
		}
		return nil
	})
	if res == "err" {
		return simple("badprog")
	}
	r := simple(res)
	if res != "ok" {
		return r
	}
	b2i := func(b bool) int {
		if b {
			return 1
		}
		return 0
	}
	switch v := out.(type) {
	case int:
		r.fields["q"] = strconv.Itoa(v)
		r.fields["qshape"] = "s"
	case bool:
		r.fields["q"] = strconv.Itoa(b2i(v))
		r.fields["qshape"] = "s"
	case *tensor.Dense:
		var vals []int
		switch d := v.Data().(type) {
		case []int:
			vals = d
		case []bool:
			for _, b := range d {
				vals = append(vals, b2i(b))
			}
		case int:
			vals = []int{d}
		case bool:
			vals = []int{b2i(d)}
		}
		r.fields["q"] = showInts(vals)
		r.fields["qshape"] = showInts(v.Shape())
	default:
		r.fields["q"] = fmt.Sprintf("?%T", out)
		r.fields["qshape"] = "?"
	}
	return r
}

func maskShowSlices(sl []tensor.Slice) string {
	if len(sl) == 0 {
		return "-"
	}
	parts := make([]string, len(sl))
	for i, s := range sl {
		parts[i] = fmt.Sprintf("%d:%d", s.Start(), s.End())
	}
	return strings.Join(parts, ",")
}

func stepMruns(p *prog, idx int, toks []string) *rec {
	if len(toks) != 3 {
		return simple("badprog")
	}
	t, _ := p.get(toks[2])
	if t == nil {
		return simple("skip")
	}
	r := newRec()
	res := guard(func() error {
		switch toks[1] {
		case "contig":
			r.fields["runs"] = maskShowSlices(t.FlatMaskedContiguous())
		case "notcontig":
			r.fields["runs"] = maskShowSlices(t.FlatNotMaskedContiguous())
		case "clump":
			r.fields["runs"] = maskShowSlices(t.ClumpMasked())
		case "clumpun":
			r.fields["runs"] = maskShowSlices(t.ClumpUnmasked())
		case "edges":
			a, b := t.FlatMaskedEdges()
			r.fields["edges"] = fmt.Sprintf("%d,%d", a, b)
		case "notedges":
			a, b := t.FlatNotMaskedEdges()
			r.fields["edges"] = fmt.Sprintf("%d,%d", a, b)
		default:
			return fmt.Errorf("unknown finder")
		}
		return nil
	})
	if res == "err" {
		return simple("badprog")
	}
	if res != "ok" {
		return simple(res)
	}
	r.fields["r"] = "ok"
	return r
}

func stepMaskFilled(p *prog, idx int, toks []string) *rec {
	if len(toks) != 4 {
		p.push(nil, nil)
		return simple("badprog")
	}
	t, dt := p.get(toks[1])
	if t == nil {
		p.push(nil, dt)
		return simple("skip")
	}
	var vals []interface{}
	if toks[2] != "dflt" {
		if !strings.HasPrefix(toks[2], "#") {
			p.push(nil, dt)
			return simple("badprog")
		}
		v, err := scalarLit(toks[2], dt)
		if err != nil {
			p.push(nil, dt)
			return simple("badprog")
		}
		vals = []interface{}{v}
	}
	if toks[3] != "copy" && toks[3] != "inplace" {
		p.push(nil, dt)
		return simple("badprog")
	}
	return p.finishTensorOp(func() (*tensor.Dense, error) {
		var out interface{}
		var err error
		if toks[3] == "copy" {
			out, err = t.Filled(vals...)
		} else {
			out, err = t.FilledInplace(vals...)
		}
		if err != nil {
			return nil, err
		}
		d, ok := out.(*tensor.Dense)
		if !ok {
			return nil, fmt.Errorf("not dense")
		}
		return d, nil
	})
}

func stepMiter(p *prog, idx int, toks []string) *rec {
	if len(toks) != 3 {
		return simple("badprog")
	}
	t, dt := p.get(toks[1])
	if t == nil {
		return simple("skip")
	}
	r := newRec()
	r.dt = dt
	res := guard(func() error {
		it := tensor.IteratorFromDense(t)
		var seq []string
		var offs, voffs, skips []int
		var valid strings.Builder
		bound := t.Shape().TotalSize() + 3
		callV := func(inv bool) bool {
			var i, sk int
			var err error
			tag := "v"
			if inv {
				tag = "i"
				i, sk, err = it.NextInvalid()
			} else {
				i, sk, err = it.NextValid()
			}
			seq = append(seq, fmt.Sprintf("%s%d/%d", tag, i, sk))
			if err != nil {
				return false
			}
			offs = append(offs, i)
			skips = append(skips, sk)
			return true
		}
		callY := func() bool {
			i, v, err := it.NextValidity()
			if err != nil {
				seq = append(seq, "E")
				return false
			}
			if v {
				seq = append(seq, strconv.Itoa(i)+"+")
			} else {
				seq = append(seq, strconv.Itoa(i)+"-")
			}
			valid.WriteString(b01(v))
			voffs = append(voffs, i)
			return true
		}
		for _, c := range toks[2] {
			switch c {
			case 'n':
				i, err := it.Next()
				if err != nil {
					seq = append(seq, "E")
				} else {
					seq = append(seq, strconv.Itoa(i))
				}
			case 'v':
				callV(false)
			case 'i':
				callV(true)
			case 'y':
				callY()
			case 'V':
				for k := 0; k < bound && callV(false); k++ {
				}
			case 'I':
				for k := 0; k < bound && callV(true); k++ {
				}
			case 'Y':
				for k := 0; k < bound && callY(); k++ {
				}
			case 'r':
				it.SetReverse()
			case 'f':
				it.SetForward()
			case 'x':
				it.Reset()
			case 'c':
				seq = append(seq, "c"+showInts(it.Coord()))
			case 'd':
				seq = append(seq, "d"+b01(it.Done()))
			default:
				seq = append(seq, "?")
			}
		}
		if len(seq) == 0 {
			r.fields["seq"] = "-"
		} else {
			r.fields["seq"] = strings.Join(seq, "|")
		}
		raw := rawVals(t)
		at := func(os []int) []interface{} {
			cells := make([]interface{}, len(os))
			for i, o := range os {
				if o < 0 || o >= len(raw) {
					cells[i] = errMark("oob")
				} else {
					cells[i] = raw[o]
				}
			}
			return cells
		}
		r.vals["cells"] = at(offs)
		r.vals["vcells"] = at(voffs)
		r.fields["skips"] = showInts(skips)
		if valid.Len() == 0 {
			r.fields["valid"] = "-"
		} else {
			r.fields["valid"] = valid.String()
		}
		return nil
	})
	if res != "ok" {
		return simple(res)
	}
	return r
}

func maskSameShape(a, b tensor.Shape) bool {
	if len(a) != len(b) {
		return false
	}
	for i := range a {
		if a[i] != b[i] {
			return false
		}
	}
	return true
}

func stepMdump(p *prog, idx int, toks []string) *rec {
	if len(toks) < 2 {
		return simple("badprog")
	}
	t, dt := p.get(toks[1])
	if t == nil {
		return simple("skip")
	}
	var ops []*tensor.Dense
	for _, tok := range toks[2:] {
		o, _ := p.get(tok)
		if o == nil {
			return simple("skip")
		}
		ops = append(ops, o)
	}
	r := p.dump(t, dt)
	_, soft := tensor.VerifMaskInfo(t)
	r.fields["soft"] = b01(soft)
	r.vals["lmask"] = maskLogical(t)
	same := true
	for _, o := range ops {
		if !maskSameShape(o.Shape(), t.Shape()) {
			same = false
		}
	}
	if same {
		cs := allCoords(t.Shape())
		ve := make([]interface{}, len(cs))
		for i, c := range cs {
			ok := true
			for _, o := range ops {
				if b, isB := maskAtSafe(o, c).(bool); !isB || b {
					ok = false
				}
			}
			if ok {
				ve[i] = atSafe(t, c)
			} else {
				ve[i] = errMark("?")
			}
		}
		r.vals["velems"] = ve
	}
	return r
}

func stepMmat(p *prog, idx int, toks []string) *rec {
	if len(toks) != 2 {
		p.push(nil, nil)
		return simple("badprog")
	}
	t, dt := p.get(toks[1])
	if t == nil {
		p.push(nil, dt)
		return simple("skip")
	}
	return p.newOp(dt, func() (*tensor.Dense, error) { return t.Materialize().(*tensor.Dense), nil })
}
