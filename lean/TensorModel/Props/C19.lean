import TensorModel.Run
/-! C19 — property theorems. -/
namespace TM.C19
end TM.C19
