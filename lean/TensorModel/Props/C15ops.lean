import TensorModel.Ext.MaskOps
import TensorModel.Props.C15
/-!
  C15 (second part) — the mask setters, the constructor option `WithMask`, and the arg-reductions of masked
  tensors. Theorems about the model functions of `Ext/MaskOps.lean`.

  * the masked arg kernel `argMaskedGo` (the loop of `Arg{max,min}Masked<T>`) equals, for every length, the
    specification `specArgValid` (fold over the valid elements), and that fold returns the *first* index of
    the extreme among the valid elements; a lane without valid element: the kernel answers 0, the spec `none`;
  * the flat route of a masked tensor reads the raw window only for contiguous row-major tensors and the iterator's listing
    elsewhere, and equals the specification on both (`engArgMasked_flat_spec`; F111 repaired);
  * flat and per-axis routes agree on a single lane; the per-axis route judges every lane by its own mask bits and
    equals the specification lane by lane (`argIterMasked_lanes`, `argIterMasked_eq_spec`; F110 repaired);
  * setters: exactly the named bit changes, elements untouched, refusals — with or without mask: `SetMaskAt`/`SetMaskAtIndex`
    on a tensor without mask validate and make the mask on demand (`setMaskAt_sets`, `setMaskAtIndex_sets`, `makeMask_masked`;
    F112 repaired); a view's bit is the parent's bit shifted by the window start; `ResetMask` writes exactly the bits of the
    tensor's own elements, also on a view with gaps, and makes a tensor without mask masked (`resetMask_frame`,
    `resetMask_unmasked`; F113 repaired);
  * `MaskFromSlice`: the per-type loop tests its bound after the store;
  * `WithMask` before the shape or the backing is known drops the mask (F115, narrowed): `_partial` / `_full_fails`.
-/
namespace TM.C15ops
open TM TM.Mask TM.MaskOps

/-! ## the masked arg kernel = fold over the valid elements (all lengths) -/

section kernel
variable {α : Type}

/-- the loop from any state: the remaining valid elements are folded into the loop state -/
theorem argMaskedGo_fold (better : α → α → Bool) (stop : α → Bool) :
    ∀ (row : List (α × Bool)) (i : Nat) (cur : Option (Nat × α)),
      (∀ p ∈ row, p.2 = false → stop p.1 = false) →
      argMaskedGo better stop i cur row =
        ((((validIdx i row).foldl (stepBest better) cur).map (·.1)).getD 0)
  | [], i, cur, _ => by cases cur <;> simp [argMaskedGo, validIdx]
  | (v, m) :: rest, i, cur, h => by
    have hrest : ∀ p ∈ rest, p.2 = false → stop p.1 = false := fun p hp => h p (List.mem_cons_of_mem _ hp)
    cases m with
    | true => simp [argMaskedGo, validIdx, argMaskedGo_fold better stop rest (i + 1) cur hrest]
    | false =>
      have hs : stop v = false := h (v, false) (List.mem_cons_self ..) rfl
      simp [argMaskedGo, validIdx, hs, argMaskedGo_fold better stop rest (i + 1) _ hrest]

/-- **masked arg kernel = specification**, every length: without a float early return among the valid
    elements the Go loop returns the index the fold over the valid elements selects (and 0 where the
    specification is silent). -/
theorem argMaskedGo_eq_spec (better : α → α → Bool) (stop : α → Bool) (row : List (α × Bool))
    (h : ∀ p ∈ row, p.2 = false → stop p.1 = false) :
    argMaskedGo better stop 0 none row = (specArgValid better row).getD 0 := by
  rw [argMaskedGo_fold better stop row 0 none h]; rfl

theorem validIdx_nil_iff : ∀ (row : List (α × Bool)) (i : Nat), validIdx i row = [] ↔ ∀ p ∈ row, p.2 = true
  | [], _ => by simp [validIdx]
  | (v, m) :: rest, i => by
    cases m with
    | true => simp [validIdx, validIdx_nil_iff rest (i + 1)]
    | false => simp [validIdx]

theorem foldl_stepBest_some (better : α → α → Bool) : ∀ (l : List (Nat × α)) (b : Nat × α),
    ∃ r, l.foldl (stepBest better) (some b) = some r
  | [], b => ⟨b, rfl⟩
  | y :: l, b => by
    simp only [List.foldl_cons, stepBest]
    split <;> exact foldl_stepBest_some better l _

/-- **where the property is silent**: the specification gives no index exactly when the lane has no valid
    element -/
theorem specArgValid_none_iff (better : α → α → Bool) (row : List (α × Bool)) :
    specArgValid better row = none ↔ ∀ p ∈ row, p.2 = true := by
  unfold specArgValid
  rw [← validIdx_nil_iff row 0]
  cases hv : validIdx 0 row with
  | nil => simp
  | cons y l =>
    obtain ⟨r, hr⟩ := foldl_stepBest_some better l y
    simp [stepBest, hr]

/-- … and there the Go kernel answers 0 -/
theorem argMaskedGo_all_masked (better : α → α → Bool) (stop : α → Bool) (row : List (α × Bool))
    (h : ∀ p ∈ row, p.2 = true) : argMaskedGo better stop 0 none row = 0 := by
  rw [argMaskedGo_eq_spec better stop row (fun p hp hf => by rw [h p hp] at hf; cases hf)]
  rw [(specArgValid_none_iff better row).mpr h]; rfl

/-! ### the fold returns the first index of the extreme -/

/-- `r` is the first best element of `l`: nothing in `l` beats it, it beats everything before it -/
def FirstBest (better : α → α → Bool) (l : List (Nat × α)) (r : Nat × α) : Prop :=
  ∃ pre post, l = pre ++ r :: post ∧ (∀ y ∈ pre, better r.2 y.2 = true) ∧ (∀ y ∈ post, better y.2 r.2 = false)

/-- the order facts used: `better` is asymmetric and its complement is transitive-compatible
    (a strict weak order: `>` or `<` of a linear order) -/
structure StrictWeak (better : α → α → Bool) : Prop where
  asymm : ∀ a b, better a b = true → better b a = false
  neg : ∀ a b c, better a b = true → better c b = false → better a c = true

theorem StrictWeak.trans {better : α → α → Bool} (hw : StrictWeak better) (a b c : α)
    (h1 : better a b = true) (h2 : better b c = true) : better a c = true :=
  hw.neg a b c h1 (hw.asymm b c h2)

theorem foldl_stepBest_firstBest {better : α → α → Bool} (hw : StrictWeak better) :
    ∀ (l done : List (Nat × α)) (b : Nat × α), FirstBest better done b →
      ∃ r, l.foldl (stepBest better) (some b) = some r ∧ FirstBest better (done ++ l) r
  | [], done, b, h => ⟨b, rfl, by simpa using h⟩
  | y :: l, done, b, ⟨pre, post, hd, hpre, hpost⟩ => by
    simp only [List.foldl_cons, stepBest]
    by_cases hy : better y.2 b.2 = true
    · simp only [hy, if_true]
      have hfb : FirstBest better (done ++ [y]) y := by
        refine ⟨done, [], by simp, ?_, by simp⟩
        intro p hp
        rw [hd] at hp
        rcases List.mem_append.mp hp with hp | hp
        · exact hw.trans _ _ _ hy (hpre p hp)
        · rcases List.mem_cons.mp hp with hp | hp
          · subst hp; exact hy
          · exact hw.neg _ _ _ hy (hpost p hp)
      obtain ⟨r, hr, hfr⟩ := foldl_stepBest_firstBest hw l (done ++ [y]) y hfb
      exact ⟨r, hr, by simpa using hfr⟩
    · have hy' : better y.2 b.2 = false := by simpa using hy
      simp only [hy', Bool.false_eq_true, if_false]
      have hfb : FirstBest better (done ++ [y]) b := by
        refine ⟨pre, post ++ [y], by simp [hd], hpre, ?_⟩
        intro p hp
        rcases List.mem_append.mp hp with hp | hp
        · exact hpost p hp
        · simp at hp; subst hp; exact hy'
      obtain ⟨r, hr, hfr⟩ := foldl_stepBest_firstBest hw l (done ++ [y]) b hfb
      exact ⟨r, hr, by simpa using hfr⟩

/-- **first index of the extreme among the valid elements.** The element the specification selects is a
    valid element, no valid element beats it, and it beats every valid element before it. -/
theorem specArgValid_first_extreme {better : α → α → Bool} (hw : StrictWeak better) (row : List (α × Bool))
    (i : Nat) (h : specArgValid better row = some i) :
    ∃ v, FirstBest better (validIdx 0 row) (i, v) := by
  unfold specArgValid at h
  cases hv : validIdx 0 row with
  | nil => simp [hv] at h
  | cons y l =>
    rw [hv] at h
    have hfb : FirstBest better [y] y := ⟨[], [], rfl, by simp, by simp⟩
    obtain ⟨r, hr, hfr⟩ := foldl_stepBest_firstBest hw l [y] y hfb
    simp only [List.foldl_cons, stepBest, hr, Option.map_some, Option.some.injEq] at h
    refine ⟨r.2, ?_⟩
    have : r = (i, r.2) := by rw [← h]
    rw [← this]; simpa using hfr

/-- the valid elements are listed with their positions, in increasing order of position -/
theorem validIdx_mem : ∀ (row : List (α × Bool)) (k j : Nat) (w : α),
    (j, w) ∈ validIdx k row ↔ k ≤ j ∧ row[j - k]? = some (w, false)
  | [], k, j, w => by simp [validIdx]
  | (v, m) :: rest, k, j, w => by
    have ih := validIdx_mem rest (k + 1) j w
    cases m with
    | true =>
      simp only [validIdx, if_true, ih]
      constructor
      · rintro ⟨h1, h2⟩
        refine ⟨by omega, ?_⟩
        have : j - k = (j - (k + 1)) + 1 := by omega
        rw [this]; simpa using h2
      · rintro ⟨h1, h2⟩
        by_cases hjk : j = k
        · subst hjk; simp at h2
        · refine ⟨by omega, ?_⟩
          have : j - k = (j - (k + 1)) + 1 := by omega
          rw [this] at h2; simpa using h2
    | false =>
      simp only [validIdx, Bool.false_eq_true, if_false, List.mem_cons, ih, Prod.mk.injEq]
      constructor
      · rintro (⟨h1, h2⟩ | ⟨h1, h2⟩)
        · subst h1; subst h2; simp
        · refine ⟨by omega, ?_⟩
          have : j - k = (j - (k + 1)) + 1 := by omega
          rw [this]; simpa using h2
      · rintro ⟨h1, h2⟩
        by_cases hjk : j = k
        · subst hjk; simp at h2; left; exact ⟨rfl, h2.symm⟩
        · right
          refine ⟨by omega, ?_⟩
          have : j - k = (j - (k + 1)) + 1 := by omega
          rw [this] at h2; simpa using h2

theorem validIdx_sorted : ∀ (row : List (α × Bool)) (k : Nat), (validIdx k row).Pairwise (fun a b => a.1 < b.1)
  | [], _ => by simp [validIdx]
  | (v, m) :: rest, k => by
    cases m with
    | true => simpa [validIdx] using validIdx_sorted rest (k + 1)
    | false =>
      simp only [validIdx, Bool.false_eq_true, if_false, List.pairwise_cons]
      refine ⟨?_, validIdx_sorted rest (k + 1)⟩
      intro p hp
      have := (validIdx_mem rest (k + 1) p.1 p.2).mp hp
      omega

/-- **row-level statement**: the selected index `i` is valid; no valid element beats `row[i]`; `row[i]` beats every
    valid element at a smaller position. -/
theorem specArgValid_row {better : α → α → Bool} (hw : StrictWeak better) (row : List (α × Bool))
    (i : Nat) (h : specArgValid better row = some i) :
    ∃ v, row[i]? = some (v, false) ∧
      (∀ (j : Nat) (w : α), row[j]? = some (w, false) → better w v = false) ∧
      (∀ (j : Nat) (w : α), j < i → row[j]? = some (w, false) → better v w = true) := by
  obtain ⟨v, pre, post, hl, hpre, hpost⟩ := specArgValid_first_extreme hw row i h
  have hmem : ∀ j w, (j, w) ∈ validIdx 0 row ↔ row[j]? = some (w, false) := by
    intro j w; simpa using validIdx_mem row 0 j w
  have hself : (i, v) ∈ validIdx 0 row := by rw [hl]; simp
  have hsorted := validIdx_sorted row 0
  rw [hl] at hsorted
  refine ⟨v, (hmem i v).mp hself, ?_, ?_⟩
  · intro j w hj
    have hjm := (hmem j w).mpr hj
    rw [hl] at hjm
    rcases List.mem_append.mp hjm with hp | hp
    · exact hw.asymm _ _ (hpre (j, w) hp)
    · rcases List.mem_cons.mp hp with hp | hp
      · have : w = v := by injection hp
        subst this
        cases hb : better w w with
        | false => rfl
        | true => have := hw.asymm w w hb; rw [hb] at this; cases this
      · exact hpost (j, w) hp
  · intro j w hji hj
    have hjm := (hmem j w).mpr hj
    rw [hl] at hjm
    rcases List.mem_append.mp hjm with hp | hp
    · exact hpre (j, w) hp
    · exfalso
      rcases List.mem_cons.mp hp with hp | hp
      · injection hp with h1 _; omega
      · have hs := (List.pairwise_append.mp hsorted).2.1
        have := (List.pairwise_cons.mp hs).1 (j, w) hp
        simp at this; omega

end kernel

/-- `>` and `<` of the integers are strict weak orders (the model's keys of the numeric element types) -/
theorem strictWeak_int_gt : StrictWeak (fun a b : Int => decide (a > b)) :=
  ⟨fun a b h => by simp at h ⊢; omega, fun a b c h1 h2 => by simp at h1 h2 ⊢; omega⟩
theorem strictWeak_int_lt : StrictWeak (fun a b : Int => decide (a < b)) :=
  ⟨fun a b h => by simp at h ⊢; omega, fun a b c h1 h2 => by simp at h1 h2 ⊢; omega⟩

/-! ## flat and per-axis routes -/

theorem chunks_one {β} (n : Nat) (l : List β) : Red.chunks n 1 l = [l.take n] := by
  simp [Red.chunks]

theorem zip_take_left {β γ} : ∀ (a : List β) (b : List γ) (n : Nat), a.length ≤ n → a.zip (b.take n) = a.zip b
  | [], _, _, _ => by simp
  | _ :: _, [], _, _ => by simp
  | _ :: _, _ :: _, 0, h => by simp at h
  | x :: a, y :: b, n + 1, h => by
    simp only [List.take_succ_cons, List.zip_cons_cons, List.cons.injEq, true_and]
    exact zip_take_left a b n (by simpa using h)

/-- the kernel looks at the first `lane.length` mask entries only -/
theorem argMaskedK_take (isMax isFloat : Bool) (lane : List Red.Key) (raw : List Bool) (n : Nat)
    (h : lane.length ≤ n) : argMaskedK isMax isFloat lane (raw.take n) = argMaskedK isMax isFloat lane raw := by
  simp [argMaskedK, zip_take_left lane raw n h]

/-- **flat vs per-axis agreement** on a single lane (a vector reduced along its only axis, data and mask bits of the
    same length): the per-axis route calls the kernel once, with the same data and the same bits as the flat route. -/
theorem argIterMasked_single_lane (isMax isFloat : Bool) (cells : List Red.Key) (bits : List Bool)
    (h : cells ≠ []) (hl : bits.length = cells.length) :
    argIterMasked isMax isFloat cells.length cells bits = [argMaskedK isMax isFloat cells bits] := by
  have hpos : 0 < cells.length := List.length_pos_iff.mpr h
  have hb : bits.length / cells.length = 1 := by rw [hl]; exact Nat.div_self hpos
  simp only [argIterMasked, laneChunks, Red.argChunks, hb, Nat.div_self hpos, chunks_one, List.zipWith_cons_cons,
    List.zipWith_nil_left, List.cons.injEq, and_true]
  rw [List.take_length]
  exact argMaskedK_take isMax isFloat cells bits cells.length (Nat.le_refl _)

theorem zipWith_congr_mem {β γ δ} (f g : β → γ → δ) : ∀ (l1 : List β) (l2 : List γ),
    (∀ p ∈ l1.zip l2, f p.1 p.2 = g p.1 p.2) → List.zipWith f l1 l2 = List.zipWith g l1 l2
  | [], _, _ => by simp
  | _ :: _, [], _ => by simp
  | a :: l1, b :: l2, h => by
    simp only [List.zipWith_cons_cons, List.cons.injEq]
    exact ⟨h (a, b) (by simp), zipWith_congr_mem f g l1 l2 (fun p hp => h p (by simp [hp]))⟩

/-- **every lane is judged by its own mask bits** (unguarded; before the repair of `Arg{max,min}IterMasked` this held
    only when every lane's bits coincided with the first `lastSize` entries of the raw mask): the `k`-th result is the
    kernel on the `k`-th run of `lastSize` elements and the `k`-th run of `lastSize` mask bits, both in iterator order. -/
theorem argIterMasked_lanes (isMax isFloat : Bool) (lastSize : Nat) (cells : List Red.Key) (laneMask : List Bool) :
    argIterMasked isMax isFloat lastSize cells laneMask =
      List.zipWith (argMaskedK isMax isFloat) (Red.argChunks lastSize cells) (laneChunks lastSize laneMask) := rfl

/-- **per-axis Argmax/Argmin of a masked tensor = specification, lane by lane** (every number of lanes, every lane
    length): when no valid element triggers the float early return, the result of lane `k` is the index the fold over
    the valid elements of lane `k` selects — the first index of the extreme among them (`specArgValid_row`) — and 0
    for a lane without valid element, where the specification is silent. -/
theorem argIterMasked_eq_spec (isMax isFloat : Bool) (lastSize : Nat) (cells : List Red.Key) (laneMask : List Bool)
    (hstop : ∀ q ∈ (Red.argChunks lastSize cells).zip (laneChunks lastSize laneMask),
      ∀ p ∈ q.1.zip q.2, p.2 = false → stopK isMax isFloat p.1 = false) :
    argIterMasked isMax isFloat lastSize cells laneMask =
      List.zipWith (fun lane bits => (specArgValid (betterK isMax) (lane.zip bits)).getD 0)
        (Red.argChunks lastSize cells) (laneChunks lastSize laneMask) := by
  unfold argIterMasked
  apply zipWith_congr_mem
  intro q hq
  exact argMaskedGo_eq_spec _ _ _ (hstop q hq)

/-! ## the setters -/

/-- the store on a masked tensor is exactly `t.mask[i] = v` -/
theorem storeMaskBit_masked (s : St) (t : Dense) (m : Win) (v : Bool) (i : Int)
    (hm : t.mask = some m) (hk : t.isMasked = true) :
    storeMaskBit s t v i = (s.mset m i v).map (fun s' => (s', t)) := by
  simp only [storeMaskBit, hk, hm, Bool.not_true, Bool.false_and, Bool.false_eq_true, if_false, bind, Except.bind,
    pure, Except.pure]
  cases s.mset m i v <;> rfl

theorem storeMaskBit_masked_ok {s s' : St} {t t' : Dense} {m : Win} {v : Bool} {i : Int}
    (hm : t.mask = some m) (hk : t.isMasked = true) (h : storeMaskBit s t v i = .ok (s', t')) :
    t' = t ∧ s.mset m i v = .ok s' := by
  rw [storeMaskBit_masked s t m v i hm hk] at h
  cases h1 : s.mset m i v with
  | error e => rw [h1] at h; cases h
  | ok s1 =>
    rw [h1] at h
    simp only [Except.map] at h
    injection h with h; injection h with h2 h3
    exact ⟨h3.symm, by rw [h2]⟩

/-- **SetMaskAtIndex: exactly the named bit.** On a masked tensor bit `i` of the mask window becomes `v`, every other
    bit of the window keeps its value, the tensor's metadata and the element storage are untouched. -/
theorem setMaskAtIndex_frame (s s' : St) (t t' : Dense) (m : Win) (v : Bool) (i : Int)
    (hm : t.mask = some m) (hk : t.isMasked = true) (h : setMaskAtIndex s t v i = .ok (s', t')) :
    t' = t ∧ s'.mget m i = .ok v ∧ (∀ j, j ≠ i → s'.mget m j = s.mget m j) ∧ s'.heap = s.heap := by
  unfold setMaskAtIndex at h
  split at h
  · cases h
  · obtain ⟨ht, hs⟩ := storeMaskBit_masked_ok hm hk h
    refine ⟨ht, C15.St.mget_mset_same hs, fun j hj => C15.St.mget_mset_other hs hj, ?_⟩
    obtain ⟨b, _, _, _, _, rfl⟩ := C15.St.mset_ok hs
    rfl

/-- **refusal (unguarded: with or without mask)**: an index outside the data window is an error; nothing is written -/
theorem setMaskAtIndex_oob (s : St) (t : Dense) (v : Bool) (i : Int) (hi : i < 0 ∨ i ≥ t.win.len) :
    ∃ e, setMaskAtIndex s t v i = .error (.err e) := by
  have : (decide (i < 0) || decide (i ≥ (t.win.len : Int))) = true := by
    rcases hi with hi | hi <;> simp [hi]
  exact ⟨"SetMaskAtIndex: index out of range", by simp only [setMaskAtIndex, this, if_true, throwErr]⟩

/-- **SetMaskAt: exactly the named bit.** On a masked tensor: the coordinates are resolved like those of `At`,
    `MaskAt` of the named coordinates becomes `v`, `MaskAt` of every coordinate with another storage offset and every
    element (by `At`) are unchanged. -/
theorem setMaskAt_frame (s s' : St) (t t' : Dense) (m : Win) (v : Bool) (c : List Int) (i : Int)
    (hm : t.mask = some m) (hk : t.isMasked = true) (hl : c.length = t.dims)
    (hi : ltoi t.shape t.strides c = .ok i) (h : setMaskAt s t v c = .ok (s', t')) :
    t' = t ∧ maskAt s' t c = .ok v ∧
    (∀ c' i', c'.length = t.dims → ltoi t.shape t.strides c' = .ok i' → i' ≠ i → maskAt s' t c' = maskAt s t c') ∧
    (∀ c', t.at_ s' c' = t.at_ s c') := by
  have hl' : (c.length != t.dims) = false := by simp [hl]
  simp only [setMaskAt, hl', hi, Bool.false_eq_true, if_false, bind, Except.bind] at h
  obtain ⟨ht, hs⟩ := storeMaskBit_masked_ok hm hk h
  refine ⟨ht, ?_, ?_, ?_⟩
  · simp [maskAt, hk, hm, hl, hi, bind, Except.bind, C15.St.mget_mset_same hs]
  · intro c' i' hl2 hi2 hne
    simp [maskAt, hk, hm, hl2, hi2, bind, Except.bind, C15.St.mget_mset_other hs hne]
  · intro c'
    obtain ⟨b, _, _, _, _, rfl⟩ := C15.St.mset_ok hs
    simp [Dense.at_, St.get]

/-- **refusals of `SetMaskAt` (unguarded: with or without mask)**: wrong arity, and whatever `At` refuses (out of range) -/
theorem setMaskAt_refuses_arity (s : St) (t : Dense) (v : Bool) (c : List Int)
    (hl : c.length ≠ t.dims) : ∃ e, setMaskAt s t v c = .error (.err e) := by
  have hl' : (c.length != t.dims) = true := by simp [hl]
  exact ⟨"dimMismatch", by simp [setMaskAt, hl', throwErr, bind, Except.bind]⟩

theorem setMaskAt_refuses_range (s : St) (t : Dense) (v : Bool) (c : List Int) (e : Err)
    (hl : c.length = t.dims) (hi : ltoi t.shape t.strides c = .error e) :
    setMaskAt s t v c = .error e := by
  have hl' : (c.length != t.dims) = false := by simp [hl]
  simp [setMaskAt, hl', hi, bind, Except.bind]

/-- clearing a bit of a tensor without mask changes nothing (nothing is masked there) -/
theorem storeMaskBit_unmasked_clear (s : St) (t : Dense) (i : Int) (hk : t.isMasked = false) :
    storeMaskBit s t false i = .ok (s, t) := by
  simp [storeMaskBit, hk, pure, Except.pure]

/-! ### views: which parent bit changes -/

/-- a window cut out of another one (`Dense.slice` cuts the mask window exactly like the data window,
    `C15.mask_follows_slice`): writing position `i` of the inner window writes position `k + i` of the outer one -/
theorem mset_shifted (s : St) (m mv : Win) (k : Nat) (i : Int) (v : Bool)
    (hb : mv.buf = m.buf) (ho : mv.off = m.off + k) (hi0 : 0 ≤ i) (hi1 : i < mv.len) (hfit : k + mv.len ≤ m.len) :
    s.mset mv i v = s.mset m ((k : Int) + i) v := by
  have h1 : (decide (i < 0) || decide (i ≥ (mv.len : Int))) = false := by
    simp only [Bool.or_eq_false_iff, decide_eq_false_iff_not]; omega
  have h2 : (decide ((k : Int) + i < 0) || decide ((k : Int) + i ≥ (m.len : Int))) = false := by
    simp only [Bool.or_eq_false_iff, decide_eq_false_iff_not]; omega
  have h3 : mv.off + i.toNat = m.off + ((k : Int) + i).toNat := by omega
  simp only [St.mset, h1, h2, hb, h3]

/-- **SetMaskAtIndex on a view changes the parent's bit `ndStart + i`** (and nothing else, by
    `setMaskAtIndex_frame` applied to the parent's window): the view's mask window is the parent's, shifted by the
    view's window start. -/
theorem setMaskAtIndex_view_parent (s : St) (t v : Dense) (m mv : Win) (k : Nat) (b : Bool) (i : Int)
    (hmv : v.mask = some mv) (hkv : v.isMasked = true)
    (hb : mv.buf = m.buf) (ho : mv.off = m.off + k) (hfit : k + mv.len ≤ m.len)
    (hi0 : 0 ≤ i) (hi1 : i < mv.len) :
    setMaskAtIndex s v b i = (s.mset m ((k : Int) + i) b).map (fun s' => (s', v)) := by
  have hlen : mv.len = v.win.len := by
    simp only [Dense.isMasked, hmv] at hkv; simpa using hkv
  have hr : (decide (i < 0) || decide (i ≥ (v.win.len : Int))) = false := by
    simp only [Bool.or_eq_false_iff, decide_eq_false_iff_not]; omega
  simp only [setMaskAtIndex, hr, Bool.false_eq_true, if_false]
  rw [storeMaskBit_masked s v mv b i hmv hkv, mset_shifted s m mv k i b hb ho hi0 hi1 hfit]

/-! ### ResetMask -/

theorem foldlM_map_zip (s : St) (m : Win) (v : Bool) : ∀ (l : List Int) (s : St),
    l.foldlM (fun s i => s.mset m i v) s =
      ((List.replicate l.length v).zip l).foldlM (fun s (p : Bool × Int) => s.mset m p.2 p.1) s
  | [], s => rfl
  | i :: l, s => by
    simp only [List.foldlM_cons, List.length_cons, List.replicate_succ, List.zip_cons_cons, bind, Except.bind]
    cases s.mset m i v with
    | error e => rfl
    | ok s1 => exact foldlM_map_zip s m v l s1

/-- `memsetBools(t.mask, v)` writes `v` to every position of the window -/
theorem memsetMask_eq_writeMask (s : St) (m : Win) (v : Bool) :
    memsetMask s m v = writeMask s m (List.replicate m.len v) := by
  unfold memsetMask writeMask
  have := foldlM_map_zip s m v (rangeI m.len) s
  simpa [rangeI] using this

theorem zip_foldlM_heap (m : Win) : ∀ (l : List (Bool × Int)) (s s' : St),
    l.foldlM (fun s (p : Bool × Int) => s.mset m p.2 p.1) s = .ok s' → s'.heap = s.heap
  | [], s, s', h => by
    simp only [List.foldlM_nil, pure, Except.pure] at h
    injection h with h; rw [h]
  | p :: l, s, s', h => by
    simp only [List.foldlM_cons, bind, Except.bind] at h
    cases h1 : s.mset m p.2 p.1 with
    | error e => rw [h1] at h; cases h
    | ok s1 =>
      rw [h1] at h
      have hheap : s1.heap = s.heap := by
        obtain ⟨b, _, _, _, _, rfl⟩ := C15.St.mset_ok h1
        rfl
      rw [zip_foldlM_heap m l s1 s' h, hheap]

/-! ### tensors without mask: the setters make one (F112 repaired) -/

theorem memsetMask_heap (s s' : St) (m : Win) (v : Bool) (h : memsetMask s m v = .ok s') : s'.heap = s.heap := by
  rw [memsetMask_eq_writeMask] at h
  exact zip_foldlM_heap m _ s s' h

theorem memsetMask_read (s s' : St) (m : Win) (v : Bool) (h : memsetMask s m v = .ok s') (j : Nat) (hj : j < m.len) :
    s'.mget m (j : Int) = .ok v := by
  rw [memsetMask_eq_writeMask] at h
  exact C15.writeMask_read s s' m _ h (by simp) j _ (by simp [hj])

theorem maskSize_data (t : Dense) (h : t.win.len ≠ 0) : maskSize t = t.win.len := by simp [maskSize, h]
theorem maskSize_noData (t : Dense) (h : t.win.len = 0) : maskSize t = (totalSize t.shape).toNat := by simp [maskSize, h]

theorem mget_fresh (s : St) (n j : Nat) (hj : j < n) :
    (s.allocMask (Array.replicate n false)).1.mget ⟨s.mheap.size, 0, n, n⟩ (j : Int) = .ok false := by
  have hr : (decide ((j : Int) < 0) || decide ((j : Int) ≥ ((n : Nat) : Int))) = false := by
    simp only [Bool.or_eq_false_iff, decide_eq_false_iff_not]; omega
  simp only [St.mget, St.allocMask, hr, Bool.false_eq_true, if_false]
  simp [hj]

/-- **`makeMask` on a tensor with data**: the tensor becomes masked — a mask window as long as the data window (what
    `IsMasked` compares with; also for a view whose window has gaps), every bit clear — nothing else changes. -/
theorem makeMask_masked (s s1 : St) (t t1 : Dense) (hw : t.win.len ≠ 0) (h : makeMask s t = .ok (s1, t1)) :
    ∃ m, t1 = { t with mask := some m } ∧ m.len = t.win.len ∧ s1.heap = s.heap ∧
      (∀ j : Nat, j < m.len → s1.mget m (j : Int) = .ok false) := by
  have hsz : maskSize t = t.win.len := maskSize_data t hw
  unfold makeMask at h
  simp only [hsz] at h
  cases hm : t.mask with
  | none =>
    simp only [hm, hw, beq_iff_eq, if_false, pure, Except.pure] at h
    injection h with h; injection h with h1 h2
    subst h1; subst h2
    exact ⟨_, rfl, rfl, rfl, fun j hj => mget_fresh s _ j hj⟩
  | some m0 =>
    simp only [hm, bind, Except.bind, pure, Except.pure] at h
    generalize (if m0.len ≥ t.win.len then { m0 with len := t.win.len } else m0) = m1 at h
    split at h
    · injection h with h; injection h with h1 h2
      subst h1; subst h2
      exact ⟨_, rfl, rfl, rfl, fun j hj => mget_fresh s _ j hj⟩
    · cases hms : memsetMask s { m1 with len := t.win.len } false with
      | error e => rw [hms] at h; cases h
      | ok s2 =>
        rw [hms] at h
        injection h with h; injection h with h1 h2
        subst h1; subst h2
        exact ⟨_, rfl, rfl, memsetMask_heap _ _ _ _ hms, fun j hj => memsetMask_read _ _ _ _ hms j hj⟩

theorem isMasked_withMask (t : Dense) (m : Win) (h : m.len = t.win.len) : ({ t with mask := some m } : Dense).isMasked = true := by
  simp [Dense.isMasked, h]

/-- **the store on a tensor without mask, `v = true`**: the tensor is given a mask of its own (every bit clear), then bit `i`
    is set: afterwards it is masked, bit `i` holds `true`, every other bit of the new mask `false`, elements untouched. -/
theorem storeMaskBit_unmasked_set (s s' : St) (t t' : Dense) (i : Int) (hk : t.isMasked = false) (hw : t.win.len ≠ 0)
    (h : storeMaskBit s t true i = .ok (s', t')) :
    ∃ m, t' = { t with mask := some m } ∧ m.len = t.win.len ∧ t'.isMasked = true ∧ s'.heap = s.heap ∧
      s'.mget m i = .ok true ∧ (∀ j : Nat, (j : Int) ≠ i → j < m.len → s'.mget m (j : Int) = .ok false) := by
  simp only [storeMaskBit, hk, Bool.not_false, Bool.not_true, Bool.and_false, Bool.false_eq_true, if_false, if_true,
    bind, Except.bind] at h
  cases hmk : makeMask s t with
  | error e => rw [hmk] at h; cases h
  | ok p =>
    obtain ⟨s1, t1⟩ := p
    rw [hmk] at h
    obtain ⟨m, ht1, hlen, hheap, hclear⟩ := makeMask_masked s s1 t t1 hw hmk
    subst ht1
    simp only [pure, Except.pure] at h
    cases hs : s1.mset m i true with
    | error e => rw [hs] at h; cases h
    | ok s2 =>
      rw [hs] at h
      injection h with h; injection h with h1 h2
      subst h1; subst h2
      refine ⟨m, rfl, hlen, isMasked_withMask t m hlen, ?_, C15.St.mget_mset_same hs, ?_⟩
      · obtain ⟨b, _, _, _, _, rfl⟩ := C15.St.mset_ok hs
        exact hheap
      · intro j hji hj
        rw [C15.St.mget_mset_other hs hji]
        exact hclear j hj

/-- **SetMaskAt sets the named bit — unguarded** (with or without mask; F112 repaired: before, a tensor without mask
    reported success and stayed unmasked). `t.win.len ≠ 0`: the tensor has data. -/
theorem setMaskAt_sets (s s' : St) (t t' : Dense) (v : Bool) (c : List Int) (hw : t.win.len ≠ 0)
    (h : setMaskAt s t v c = .ok (s', t')) : maskAt s' t' c = .ok v := by
  by_cases hl : c.length = t.dims
  · cases hi : ltoi t.shape t.strides c with
    | error e => rw [setMaskAt_refuses_range s t v c e hl hi] at h; cases h
    | ok i =>
      cases hk : t.isMasked with
      | true =>
        cases hm : t.mask with
        | none => simp [Dense.isMasked, hm] at hk; exact absurd hk hw
        | some m =>
          obtain ⟨ht, hset, _, _⟩ := setMaskAt_frame s s' t t' m v c i hm hk hl hi h
          rw [ht]; exact hset
      | false =>
        have hl' : (c.length != t.dims) = false := by simp [hl]
        simp only [setMaskAt, hl', hi, Bool.false_eq_true, if_false, bind, Except.bind] at h
        cases v with
        | false =>
          rw [storeMaskBit_unmasked_clear s t i hk] at h
          injection h with h; injection h with h1 h2
          subst h1; subst h2
          simp [maskAt, hk, pure, Except.pure]
        | true =>
          obtain ⟨m, ht', _, hk', _, hget, _⟩ := storeMaskBit_unmasked_set s s' t t' i hk hw h
          have hm' : t'.mask = some m := by rw [ht']
          have hd : t'.dims = t.dims := by rw [ht']; rfl
          have hsh : t'.shape = t.shape := by rw [ht']; rfl
          have hst : t'.strides = t.strides := by rw [ht']; rfl
          simp [maskAt, hk', hm', hd, hsh, hst, hl, hi, bind, Except.bind, hget]
  · obtain ⟨e, he⟩ := setMaskAt_refuses_arity s t v c hl
    rw [he] at h; cases h

/-- **SetMaskAtIndex sets the named bit — unguarded**: after a successful call the tensor is masked whenever `v = true`, and
    position `i` of its mask window holds `v` (a tensor without mask and `v = false`: it stays without mask, nothing is masked). -/
theorem setMaskAtIndex_sets (s s' : St) (t t' : Dense) (i : Int) (h : setMaskAtIndex s t true i = .ok (s', t')) :
    ∃ m, t'.mask = some m ∧ t'.isMasked = true ∧ s'.mget m i = .ok true := by
  unfold setMaskAtIndex at h
  split at h
  · cases h
  · rename_i hr
    have hw : t.win.len ≠ 0 := by
      simp only [Bool.or_eq_true, decide_eq_true_eq, not_or] at hr
      omega
    cases hk : t.isMasked with
    | true =>
      cases hm : t.mask with
      | none => simp [Dense.isMasked, hm] at hk; exact absurd hk hw
      | some m =>
        obtain ⟨ht, hs⟩ := storeMaskBit_masked_ok hm hk h
        exact ⟨m, by rw [ht]; exact hm, by rw [ht]; exact hk, C15.St.mget_mset_same hs⟩
    | false =>
      obtain ⟨m, ht', _, hk', _, hget, _⟩ := storeMaskBit_unmasked_set s s' t t' i hk hw h
      exact ⟨m, by rw [ht'], hk', hget⟩

/-- a one-dimensional tensor of two cells without mask (the witness of F112) -/
def unmaskedVec : Dense := { ap := { shape := [2], strides := [1], fin := true }, win := ⟨0, 0, 2, 2⟩, dt := "i" }

-- the witness of F112: `SetMaskAt(true, 0)` on a tensor without mask makes the mask and sets the bit; a malformed position is refused
example : ∃ s' t', setMaskAt { heap := #[#[Val.zero, Val.zero]] } unmaskedVec true [0] = .ok (s', t') ∧ t'.isMasked = true ∧
    maskAt s' t' [0] = .ok true ∧ maskAt s' t' [1] = .ok false := ⟨_, _, rfl, rfl, rfl, rfl⟩
example : ∃ e, setMaskAt {} unmaskedVec true [0, 0, 0] = .error (.err e) := ⟨_, rfl⟩
example : ∃ e, setMaskAt {} unmaskedVec true [2] = .error (.err e) := ⟨_, rfl⟩
example : ∃ e, setMaskAtIndex {} unmaskedVec false 2 = .error (.err e) := ⟨_, rfl⟩

/-- a fold of mask writes of the same value `v`: every listed position reads `v` afterwards -/
theorem foldlM_mset_get (m : Win) (v : Bool) (i : Int) :
    ∀ (l : List Int) (s s' : St), l.foldlM (fun s j => s.mset m j v) s = .ok s' →
      (i ∈ l ∨ s.mget m i = .ok v) → s'.mget m i = .ok v := by
  intro l
  induction l with
  | nil =>
    intro s s' h hi
    simp only [List.foldlM_nil, pure, Except.pure] at h
    injection h with h; subst h
    rcases hi with hi | hi
    · cases hi
    · exact hi
  | cons a l ih =>
    intro s s' h hi
    simp only [List.foldlM_cons, bind, Except.bind] at h
    cases hf : s.mset m a v with
    | error e => simp [hf] at h
    | ok s1 =>
      simp only [hf] at h
      apply ih s1 s' h
      by_cases hia : i = a
      · subst hia; exact Or.inr (C15.St.mget_mset_same hf)
      · rcases hi with hi | hi
        · rcases List.mem_cons.mp hi with hi | hi
          · exact absurd hi hia
          · exact Or.inl hi
        · exact Or.inr ((C15.St.mget_mset_other hf hia).trans hi)

/-- … every position that is not listed, and every other mask buffer, keeps its value; the element storage is untouched -/
theorem foldlM_mset_frame (m : Win) (v : Bool) (l : List Int) (s s' : St)
    (h : l.foldlM (fun s j => s.mset m j v) s = .ok s') :
    (∀ j, j ∉ l → s'.mget m j = s.mget m j) ∧ (∀ (m2 : Win) (j : Int), m2.buf ≠ m.buf → s'.mget m2 j = s.mget m2 j) ∧
      s'.heap = s.heap := by
  refine ⟨fun j hj => ?_, fun m2 j hb => ?_, ?_⟩
  · refine foldlM_inv (fun s j => s.mset m j v) (fun x => x.mget m j = s.mget m j) l ?_ s s' h rfl
    intro s1 a s2 ha hs hP
    rw [← hP]
    exact C15.St.mget_mset_other hs (fun hja => hj (hja ▸ ha))
  · refine foldlM_inv (fun s j => s.mset m j v) (fun x => x.mget m2 j = s.mget m2 j) l ?_ s s' h rfl
    intro s1 a s2 _ hs hP
    rw [← hP]
    exact C15.St.mget_mset_otherbuf hs hb
  · refine foldlM_inv (fun s j => s.mset m j v) (fun x => x.heap = s.heap) l ?_ s s' h rfl
    intro s1 a s2 _ hs hP
    rw [← hP]; exact St.mset_heap hs

theorem resetMask_masked_eq (s : St) (t : Dense) (m : Win) (val : Option Bool) (hm : t.mask = some m) (hk : t.isMasked = true) :
    resetMask s t val = (t.resetMaskBits s m (val.getD false)).map (fun s' => (s', t)) := by
  simp only [resetMask, hk, hm, Bool.not_true, Bool.false_eq_true, if_false, bind, Except.bind, pure, Except.pure]
  cases t.resetMaskBits s m (val.getD false) <;> rfl

/-- **ResetMask on a masked tensor — exactly the bits of the tensor's own elements (unguarded; F113 repaired).** The positions
    written are `maskResetOffsets`: for a view or a pending transpose the storage offsets of the tensor's elements (its
    iterator's offsets), otherwise the whole mask window, which is then as long as the data. Every such position holds the
    fill value afterwards (`false` without argument); **every other position of the window** — on a view with gaps: the
    parent's bits of cells outside the view — every other mask buffer, the tensor's metadata and the element storage are
    untouched. -/
theorem resetMask_frame (s s' : St) (t t' : Dense) (m : Win) (val : Option Bool)
    (hm : t.mask = some m) (hk : t.isMasked = true) (h : resetMask s t val = .ok (s', t')) :
    t' = t ∧ (∀ i ∈ t.maskResetOffsets m, s'.mget m i = .ok (val.getD false)) ∧
      (∀ j, j ∉ t.maskResetOffsets m → s'.mget m j = s.mget m j) ∧
      (∀ (m2 : Win) (j : Int), m2.buf ≠ m.buf → s'.mget m2 j = s.mget m2 j) ∧ s'.heap = s.heap := by
  rw [resetMask_masked_eq s t m val hm hk] at h
  cases h1 : t.resetMaskBits s m (val.getD false) with
  | error e => rw [h1] at h; cases h
  | ok s1 =>
    rw [h1] at h
    simp only [Except.map] at h
    injection h with h; injection h with hs ht
    subst hs
    unfold Dense.resetMaskBits at h1
    obtain ⟨f1, f2, f3⟩ := foldlM_mset_frame m _ _ s s1 h1
    exact ⟨ht.symm, fun i hi => foldlM_mset_get m _ i _ s s1 h1 (Or.inl hi), f1, f2, f3⟩

/-- a tensor that is neither a view nor lazily transposed: the whole mask window is filled (`memsetBools`) -/
theorem resetMask_plain (s s' : St) (t t' : Dense) (m : Win) (val : Option Bool)
    (hm : t.mask = some m) (hk : t.isMasked = true) (hv : t.isMaterializable = false)
    (h : resetMask s t val = .ok (s', t')) (i : Nat) (hi : i < m.len) : s'.mget m (i : Int) = .ok (val.getD false) := by
  refine (resetMask_frame s s' t t' m val hm hk h).2.1 (i : Int) ?_
  simp only [Dense.maskResetOffsets, hv, Bool.false_eq_true, if_false, rangeI, List.mem_map, List.mem_range]
  exact ⟨i, hi, rfl⟩

/-- **ResetMask on a tensor without mask** (data present): the mask is made as long as the data window — also for a view
    with gaps, which therefore becomes masked (the second half of F113) — and the bits of the elements hold the fill value. -/
theorem resetMask_unmasked (s s' : St) (t t' : Dense) (val : Option Bool) (hk : t.isMasked = false) (hw : t.win.len ≠ 0)
    (h : resetMask s t val = .ok (s', t')) :
    ∃ m, t' = { t with mask := some m } ∧ t'.isMasked = true ∧ s'.heap = s.heap ∧
      ∀ i ∈ t.maskResetOffsets m, s'.mget m i = .ok (val.getD false) := by
  simp only [resetMask, hk, Bool.not_false, if_true, bind, Except.bind] at h
  cases hmk : makeMask s t with
  | error e => rw [hmk] at h; cases h
  | ok p =>
    obtain ⟨s1, t1⟩ := p
    rw [hmk] at h
    obtain ⟨m, ht1, hlen, hheap, _⟩ := makeMask_masked s s1 t t1 hw hmk
    subst ht1
    simp only [pure, Except.pure] at h
    cases h1 : Dense.resetMaskBits s1 { t with mask := some m } m (val.getD false) with
    | error e => rw [h1] at h; cases h
    | ok s2 =>
      rw [h1] at h
      injection h with h; injection h with hs ht
      subst hs; subst ht
      unfold Dense.resetMaskBits at h1
      obtain ⟨_, _, f3⟩ := foldlM_mset_frame m _ _ s1 s2 h1
      exact ⟨m, rfl, isMasked_withMask t m hlen, by rw [f3, hheap], fun i hi => foldlM_mset_get m _ i _ s1 s2 h1 (Or.inl hi)⟩

/-- a (2,2) view with gaps into a masked (3,3) tensor: window cells 0,1,3,4 are its elements, cell 2 is a gap
    (the witness of F113) -/
def gapView : Dense :=
  { ap := { shape := [2, 2], strides := [3, 1], fin := true, o := { nonContig := true } }, win := ⟨0, 4, 5, 5⟩, dt := "i",
    view := true, mask := some ⟨0, 4, 5, 5⟩ }
def gapState : St := { heap := #[Array.replicate 9 Val.zero], mheap := #[Array.replicate 9 false] }

/-- is window position `j` the storage offset of an element of `t`? -/
def isElemOffset (t : Dense) (j : Int) : Bool :=
  (allCoords t.shape).any (fun c => match ltoi t.shape t.strides c with | .ok i => i == j | .error _ => false)

-- the witness of F113: `ResetMask(true)` on the view with gaps sets the bits of its four elements (window positions 0,1,3,4) and
-- leaves window position 2 — the parent's bit of a cell outside the view — as it was
example : gapView.maskResetOffsets ⟨0, 4, 5, 5⟩ = [0, 1, 3, 4] ∧ isElemOffset gapView 2 = false := by decide
example : ∃ s' t', resetMask gapState gapView (some true) = .ok (s', t') ∧
    s'.mget ⟨0, 4, 5, 5⟩ 2 = .ok false ∧ s'.mget ⟨0, 4, 5, 5⟩ 0 = .ok true ∧ s'.mget ⟨0, 4, 5, 5⟩ 1 = .ok true ∧
    s'.mget ⟨0, 4, 5, 5⟩ 3 = .ok true ∧ s'.mget ⟨0, 4, 5, 5⟩ 4 = .ok true := ⟨_, _, rfl, rfl, rfl, rfl, rfl, rfl⟩
-- the same view of a tensor without mask becomes masked
example : ∃ s' t', resetMask { heap := #[Array.replicate 9 Val.zero] } { gapView with mask := none } (some true) = .ok (s', t') ∧
    t'.isMasked = true ∧ maskAt s' t' [1, 1] = .ok true := ⟨_, _, rfl, rfl, rfl⟩

/-! ## MaskFromSlice -/

/-- `copy(t.mask, m)` for a `[]bool`: position `i` of the window holds `m[i]` for every `i` below both lengths
    (sizes that do not match: the common prefix is copied, nothing is refused) -/
theorem copyBools_read (s s' : St) (m : Win) (l : List Bool) (h : copyBools s m l = .ok s')
    (i : Nat) (b : Bool) (hb : (l.take m.len)[i]? = some b) : s'.mget m (i : Int) = .ok b :=
  C15.writeMask_read s s' m (l.take m.len) h (by simp [List.length_take]; omega) i b hb

/-- the per-type loop of the numeric / string arms tests its bound **after** the store: an entry at a position
    at or behind the end of the mask panics when it is non-zero … -/
theorem numLoop_overrun_panics (s : St) (m : Win) (n i : Nat) (rest : List Bool) (hi : i ≥ m.len) :
    ∃ e, numLoop s m n i (true :: rest) = .error (.panic e) := by
  have hc : (i : Int) < 0 ∨ m.len ≤ i := Or.inr hi
  exact ⟨"mask index out of range", by simp [numLoop, St.mset, hc, throwPanic, bind, Except.bind]⟩

/-- … and ends the loop quietly when it is zero (the rest of the slice is ignored) -/
theorem numLoop_overrun_quiet (s : St) (m : Win) (n i : Nat) (rest : List Bool) (hi : i ≥ n) :
    numLoop s m n i (false :: rest) = .ok s := by
  simp [numLoop, hi, pure, Except.pure, bind, Except.bind]

/-- inside the mask the loop only ever *sets* bits: a zero entry writes nothing -/
theorem numLoop_zero_entry (s : St) (m : Win) (n i : Nat) (rest : List Bool) (hi : i < n) :
    numLoop s m n i (false :: rest) = numLoop s m n (i + 1) rest := by
  have : ¬ i ≥ n := by omega
  simp [numLoop, this, pure, Except.pure, bind, Except.bind]

theorem numLoop_set_entry (s s1 : St) (m : Win) (n i : Nat) (rest : List Bool) (hi : i < n)
    (h : s.mset m (i : Int) true = .ok s1) :
    numLoop s m n i (true :: rest) = numLoop s1 m n (i + 1) rest := by
  have : ¬ i ≥ n := by omega
  simp [numLoop, this, h, bind, Except.bind]

/-! ## the constructor option WithMask -/

/-- `makeMask` on a tensor that has no mask yet: a fresh, cleared window of `maskSize` entries — the length of the data
    window once the data exists, the size of the shape before -/
theorem makeMask_fresh (s : St) (t : Dense) (hm : t.mask = none) (hs : maskSize t ≠ 0) :
    makeMask s t = .ok ((s.allocMask (Array.replicate (maskSize t) false)).1,
      { t with mask := some ⟨s.mheap.size, 0, maskSize t, maskSize t⟩ }) := by
  simp [makeMask, hm, hs, St.allocMask, pure, Except.pure]

/-- `MaskFromSlice` leaves the tensor's metadata as `makeMask` made it (the arms only write mask bits) -/
theorem maskFromSlice_meta (s s' : St) (t t' : Dense) (x : MaskSrc) (h : maskFromSlice s t x = .ok (s', t')) :
    ∃ s1, makeMask s t = .ok (s1, t') := by
  unfold maskFromSlice at h
  simp only [bind, Except.bind] at h
  cases hmk : makeMask s t with
  | error e => rw [hmk] at h; cases h
  | ok p =>
    obtain ⟨s1, t1⟩ := p
    rw [hmk] at h
    simp only at h
    cases x with
    | bools l =>
      simp only at h
      cases hc : copyBools s1 (t1.mask.getD ⟨0, 0, 0, 0⟩) l with
      | error e => rw [hc] at h; cases h
      | ok s2 =>
        rw [hc] at h
        simp only [pure, Except.pure] at h
        injection h with h; injection h with _ h2; subst h2; exact ⟨s1, rfl⟩
    | nums nz =>
      simp only at h
      cases hc : numLoop s1 (t1.mask.getD ⟨0, 0, 0, 0⟩) (t1.mask.getD ⟨0, 0, 0, 0⟩).len 0 nz with
      | error e => rw [hc] at h; cases h
      | ok s2 =>
        rw [hc] at h
        simp only [pure, Except.pure] at h
        injection h with h; injection h with _ h2; subst h2; exact ⟨s1, rfl⟩
    | other =>
      simp only [pure, Except.pure] at h
      injection h with h; injection h with _ h2; subst h2; exact ⟨s1, rfl⟩

/-- the size of the mask `WithMask` makes on the half-built tensor: the number of cells of the backing once `WithBacking`
    has run (`n`), else the total size of the shape known so far — 1 when no `WithShape` preceded it either
    (`Shape(nil).TotalSize() = 1`) -/
def consMaskSize (c : ConsSt) (n : Nat) : Nat :=
  if c.hasData && n != 0 then n else (totalSize (c.shape.getD [])).toNat

theorem consMaskSize_backing (c : ConsSt) (n : Nat) (hd : c.hasData = true) (hn : n ≠ 0) : consMaskSize c n = n := by
  simp [consMaskSize, hd, hn]
theorem consMaskSize_noBacking (c : ConsSt) (n : Nat) (hd : c.hasData = false) :
    consMaskSize c n = (totalSize (c.shape.getD [])).toNat := by simp [consMaskSize, hd]

/-- **the size `WithMask` gives the mask**: `consMaskSize` — fixed *when the option runs*, whatever the length of the slice. -/
theorem withMask_mask_len (dt : String) (dims : Shape) (n : Nat) (x : MaskSrc) (s s' : St) (c c' : ConsSt)
    (hm : c.mask = none) (hs : consMaskSize c n ≠ 0)
    (h : consOpt dt dims n (some x) s c 'M' = .ok (s', c')) :
    ∃ w, c'.mask = some w ∧ w.len = consMaskSize c n ∧ c'.shape = c.shape ∧ c'.hasData = c.hasData := by
  have e1 : ('M' == 'S') = false := by decide
  have e2 : ('M' == 'B') = false := by decide
  simp only [consOpt, e1, e2, Bool.false_eq_true, if_false, beq_self_eq_true, if_true, bind, Except.bind] at h
  cases hmf : maskFromSlice s
      { ap := { shape := c.shape.getD [], strides := [], fin := false }, win := ⟨0, 0, if c.hasData then n else 0, 0⟩,
        dt := dt, mask := c.mask } x with
  | error e => rw [hmf] at h; cases h
  | ok p =>
    obtain ⟨s2, t2⟩ := p
    rw [hmf] at h
    simp only [pure, Except.pure] at h
    injection h with h; injection h with _ h2; subst h2
    obtain ⟨s1, hmk⟩ := maskFromSlice_meta _ _ _ _ _ hmf
    have hsz : maskSize
        { ap := { shape := c.shape.getD [], strides := [], fin := false },
          win := ⟨0, 0, if c.hasData then n else 0, 0⟩, dt := dt, mask := c.mask } = consMaskSize c n := by
      cases hd : c.hasData <;> by_cases hn : n = 0 <;> simp [maskSize, consMaskSize, hd, hn, Dense.shape]
    rw [makeMask_fresh s _ hm (by rw [hsz]; exact hs)] at hmk
    injection hmk with hmk; injection hmk with _ ht
    subst ht
    exact ⟨_, rfl, hsz, rfl, rfl⟩

/-- `fix()` keeps a mask exactly when its length is the data length -/
theorem consFix_mask (c : ConsSt) (n : Nat) (w : Win) (hm : c.mask = some w) :
    (consFix c n).2.2 = some (if w.len != (consFix c n).2.1 then { w with len := 0 } else w) := by
  simp [consFix, hm]

/-- a mask of the backing's length survives `fix()` whatever is known about the shape (`WithBacking` before `WithMask`:
    `withMask_mask_len` with `consMaskSize_backing`) -/
theorem withMask_kept_backing (c : ConsSt) (n : Nat) (w : Win)
    (hd : c.hasData = true) (hm : c.mask = some w) (hw : w.len = n) :
    (consFix c n).2.2 = some w ∧ (consFix c n).2.1 = w.len := by
  cases hsh : c.shape <;> simp [consFix, hsh, hd, hm, hw]

/-- **F115, guarded statement**: when `WithShape` has run before `WithMask` (and the backing, if any, has as many cells
    as the shape), the mask survives `fix()`: its length is the data length. -/
theorem withMask_kept_partial (c : ConsSt) (n : Nat) (sh : Shape) (w : Win)
    (hsh : c.shape = some sh) (hne : sh ≠ []) (hm : c.mask = some w) (hw : w.len = (totalSize sh).toNat)
    (hn : c.hasData = true → n = (totalSize sh).toNat) :
    (consFix c n).2.2 = some w ∧ (consFix c n).2.1 = w.len := by
  have hse : sh.isEmpty = false := by cases sh <;> simp_all
  cases hd : c.hasData with
  | false => simp [consFix, hsh, hd, hm, hw, hse]
  | true => simp [consFix, hsh, hd, hm, hw, hn hd]

/-- **F115, the unguarded statement is false**: `New(WithMask(mask), WithBacking(b))` — the option given before anything
    tells a size — with a `[]bool` of the backing's length builds a tensor *without* mask. -/
theorem withMask_kept_full_fails :
    ∃ (s' : St) (t : Dense), consNew {} "f64" [6] 6 ((Array.range 6).map (fun i => Val.src 0 i)) ['M', 'B']
        (some (.bools [false, true, false, false, true, false])) = .ok (s', t) ∧ t.win.len = 6 ∧ t.isMasked = false := by
  refine ⟨_, _, rfl, rfl, rfl⟩

/-- the same options with `WithShape` first: masked, with the bits of the slice -/
example : ∃ (s' : St) (t : Dense) (m : Win), consNew {} "f64" [2, 3] 6 ((Array.range 6).map (fun i => Val.src 0 i)) ['S', 'B', 'M']
    (some (.bools [false, true, false, false, true, false])) = .ok (s', t) ∧ t.mask = some m ∧ t.isMasked = true ∧
    maskBits s' m = .ok [false, true, false, false, true, false] := ⟨_, _, _, rfl, rfl, rfl, rfl⟩

/-- after `WithBacking` alone the mask is sized by the backing: masked, with the bits of the slice -/
example : ∃ (s' : St) (t : Dense) (m : Win), consNew {} "f64" [6] 6 ((Array.range 6).map (fun i => Val.src 0 i)) ['B', 'M']
    (some (.bools [false, true, false, false, true, false])) = .ok (s', t) ∧ t.mask = some m ∧ t.isMasked = true ∧
    maskBits s' m = .ok [false, true, false, false, true, false] := ⟨_, _, _, rfl, rfl, rfl, rfl⟩

/-- a non-bool mask given before anything tells a size panics on its first non-zero entry behind position 0 -/
example : ∃ e, consNew {} "f64" [6] 6 ((Array.range 6).map (fun i => Val.src 0 i)) ['M', 'B']
    (some (.nums [false, true, false, false, true, false])) = .error (.panic e) := ⟨_, rfl⟩

/-! ## MaskFromDense -/

/-- **a receiver without mask is given one as soon as an operand is masked — unguarded: scalars included** (F117 repaired:
    the mask used to be made only when `len(t.mask) < t.DataSize()`, and `DataSize()` is 0 for scalars). The new mask is as
    long as the data window; the metadata is otherwise unchanged. -/
theorem maskFromDense_makes_mask (s s' : St) (objs : Array Dense) (self : Nat) (t t' : Dense) (tts : List (Option Nat))
    (hm : t.mask = none) (hw : t.win.len ≠ 0)
    (hany : (tts.map (fun o => match o.bind (fun i => if i == self then some t else objs[i]?) with
      | some d => d.isMasked | none => false)).any id = true)
    (h : maskFromDense s objs self t tts = .ok (s', t')) :
    ∃ m, t' = { t with mask := some m } ∧ m.len = t.win.len ∧ t'.isMasked = true := by
  unfold maskFromDense at h
  simp only [bind, Except.bind, pure, Except.pure] at h
  split at h
  · rename_i hno
    simp only [Bool.not_eq_true'] at hno
    exact absurd (hany.symm.trans hno) (by decide)
  · have hlt : 0 < t.win.len := Nat.pos_of_ne_zero hw
    simp only [hm, hlt, if_true] at h
    cases hmk : makeMask s t with
    | error e => rw [hmk] at h; cases h
    | ok p =>
      obtain ⟨s1, t1⟩ := p
      rw [hmk] at h
      obtain ⟨m, ht1, hlen, _, _⟩ := makeMask_masked s s1 t t1 hw hmk
      subst ht1
      simp only at h
      split at h
      · cases h
      · injection h with h; injection h with _ h2
        exact ⟨m, h2.symm, hlen, by rw [← h2]; exact isMasked_withMask t m hlen⟩

-- the witness of F117: a scalar receiver without mask, a masked scalar operand: the receiver becomes masked and its element is masked
example : ∃ s' t', maskFromDense { heap := #[#[Val.zero], #[Val.zero]], mheap := #[#[true]] }
      #[{ ap := { shape := [], strides := [], fin := true }, win := ⟨0, 0, 1, 1⟩, dt := "i16" },
        { ap := { shape := [], strides := [], fin := true }, win := ⟨1, 0, 1, 1⟩, dt := "i16", mask := some ⟨0, 0, 1, 1⟩ }] 0
      { ap := { shape := [], strides := [], fin := true }, win := ⟨0, 0, 1, 1⟩, dt := "i16" } [some 1] = .ok (s', t') ∧
    t'.isMasked = true ∧ maskAt s' t' [] = .ok true := ⟨_, _, rfl, rfl, rfl⟩

/-- without a masked operand nothing happens -/
theorem maskFromDense_no_masked (s : St) (objs : Array Dense) (self : Nat) (t : Dense) :
    maskFromDense s objs self t [] = .ok (s, t) := by
  simp [maskFromDense, pure, Except.pure]

/-- one iteration of `for j := range t.mask { t.mask[j] = t.mask[j] || tt.mask[j%n] }` -/
def orStep (tm ttm : Win) (s : St) (j : Int) : Res St := do
  if ttm.len == 0 then throwPanic "integer divide by zero"
  let a ← s.mget tm j
  let b ← s.mget ttm (j % (ttm.len : Int))
  s.mset tm j (a || b)

theorem orInto_eq (s : St) (tm ttm : Win) : orInto s tm ttm = (rangeI tm.len).foldlM (orStep tm ttm) s := rfl

theorem orStep_ok {tm ttm : Win} {s s1 : St} {j : Int} (h : orStep tm ttm s j = .ok s1) :
    ∃ a b, s.mget tm j = .ok a ∧ s.mget ttm (j % (ttm.len : Int)) = .ok b ∧ s.mset tm j (a || b) = .ok s1 := by
  unfold orStep at h
  simp only [bind, Except.bind, pure, Except.pure] at h
  by_cases hz : (ttm.len == 0) = true
  · simp only [hz, if_true, throwPanic] at h; cases h
  · simp only [hz, Bool.false_eq_true, if_false] at h
    cases ha : s.mget tm j with
    | error e => rw [ha] at h; cases h
    | ok a0 =>
      rw [ha] at h
      simp only at h
      cases hbv : s.mget ttm (j % (ttm.len : Int)) with
      | error e => rw [hbv] at h; cases h
      | ok b0 =>
        rw [hbv] at h
        exact ⟨a0, b0, rfl, rfl, h⟩

/-- the loop from position `k` on, operand mask in another buffer: positions `k … k+n-1` receive the disjunction, every
    other position and the operand's mask keep their values -/
theorem orLoop_spec (tm ttm : Win) (hb : ttm.buf ≠ tm.buf) :
    ∀ (n k : Nat) (s s' : St),
      ((List.range' k n).map Int.ofNat).foldlM (orStep tm ttm) s = .ok s' →
      (∀ j : Nat, k ≤ j → j < k + n → ∀ a b, s.mget tm (j : Int) = .ok a → s.mget ttm ((j : Int) % (ttm.len : Int)) = .ok b →
          s'.mget tm (j : Int) = .ok (a || b)) ∧
      (∀ j : Int, (j < k ∨ j ≥ ((k + n : Nat) : Int)) → s'.mget tm j = s.mget tm j) ∧
      (∀ j : Int, s'.mget ttm j = s.mget ttm j)
  | 0, k, s, s', h => by
    simp only [List.range'_zero, List.map_nil, List.foldlM_nil, pure, Except.pure] at h
    injection h with h; subst h
    exact ⟨fun j h1 h2 => by omega, fun _ _ => rfl, fun _ => rfl⟩
  | n + 1, k, s, s', h => by
    simp only [List.range'_succ, List.map_cons, List.foldlM_cons, bind, Except.bind, Int.ofNat_eq_natCast] at h
    cases hst : orStep tm ttm s (k : Int) with
    | error e => rw [hst] at h; cases h
    | ok s1 =>
      rw [hst] at h
      obtain ⟨a0, b0, ha, hbv, hs⟩ := orStep_ok hst
      obtain ⟨ih1, ih2, ih3⟩ := orLoop_spec tm ttm hb n (k + 1) s1 s' h
      have hother : ∀ j : Int, s1.mget ttm j = s.mget ttm j := fun j => C15.St.mget_mset_otherbuf hs hb
      refine ⟨?_, ?_, ?_⟩
      · intro j hj1 hj2 a b hja hjb
        by_cases hjk : j = k
        · subst hjk
          rw [ha] at hja; injection hja with hja; subst hja
          rw [hbv] at hjb; injection hjb with hjb; subst hjb
          rw [ih2 (j : Int) (Or.inl (by omega))]
          exact C15.St.mget_mset_same hs
        · refine ih1 j (by omega) (by omega) a b ?_ ?_
          · rw [C15.St.mget_mset_other hs (by omega)]; exact hja
          · rw [hother]; exact hjb
      · intro j hj
        rw [ih2 j (by omega)]
        exact C15.St.mget_mset_other hs (by omega)
      · intro j; rw [ih3 j, hother]

/-- **MaskFromDense, one operand (what the code does)**: position `j` of the receiver's mask *window* becomes
    `old[j] ∨ operand[j mod n]` — both by **storage index** (finding F116: logical positions only when both tensors are stored
    in their logical order), an operand of another length is cycled; the operand's mask is unchanged. -/
theorem orInto_spec (s s' : St) (tm ttm : Win) (hb : ttm.buf ≠ tm.buf) (h : orInto s tm ttm = .ok s')
    (j : Nat) (hj : j < tm.len) (a b : Bool)
    (ha : s.mget tm (j : Int) = .ok a) (hbv : s.mget ttm ((j : Int) % (ttm.len : Int)) = .ok b) :
    s'.mget tm (j : Int) = .ok (a || b) ∧ ∀ i : Int, s'.mget ttm i = s.mget ttm i := by
  rw [orInto_eq] at h
  unfold rangeI at h
  rw [List.range_eq_range'] at h
  obtain ⟨h1, _, h3⟩ := orLoop_spec tm ttm hb tm.len 0 s s' h
  exact ⟨h1 j (by omega) (by omega) a b ha hbv, h3⟩

/-- **F116, the storage-order statement is not the logical one**: receiver (2,3) contiguous without set bits, operand the lazy
    transpose of a (3,2) tensor whose element (0,1) is masked — logically position (1,0), flat index 3 — and the
    receiver's bit 1 (element (0,1)) is set instead. -/
theorem maskFromDense_logical_full_fails :
    ∃ (s s' : St) (t t' tt : Dense) (m : Win), maskFromDense s #[t, tt] 0 t [some 1] = .ok (s', t') ∧ t'.mask = some m ∧
      maskAt s tt [1, 0] = .ok true ∧ maskAt s' t' [1, 0] = .ok false ∧ maskAt s' t' [0, 1] = .ok true := by
  refine ⟨{ heap := #[Array.replicate 6 Val.zero, Array.replicate 6 Val.zero],
            mheap := #[Array.replicate 6 false, #[false, true, false, false, false, false]] }, _,
    { ap := { shape := [2, 3], strides := [3, 1], fin := true }, win := ⟨0, 0, 6, 6⟩, dt := "i", mask := some ⟨0, 0, 6, 6⟩ }, _,
    { ap := { shape := [2, 3], strides := [1, 2], fin := true }, old := some { shape := [3, 2], strides := [2, 1], fin := true },
      win := ⟨1, 0, 6, 6⟩, dt := "i", mask := some ⟨1, 0, 6, 6⟩ }, ⟨0, 0, 6, 6⟩, rfl, rfl, rfl, rfl, rfl⟩

/-! ## decision logic of the masked arg-reductions -/

theorem engArgMasked_refuses_type (st : St) (isMax : Bool) (vs : Nat) (t : Dense) (m : Win) (axis : Int)
    (hm : t.mask = some m) (hk : t.isMasked = true) (h : ordTypes.contains t.dt = false) :
    ∃ e, engArgMasked st isMax vs t axis = .error (.err e) := by
  have h' : t.dt ∉ ordTypes := by simpa using h
  exact ⟨"typeclass", by simp [engArgMasked, hm, hk, h', throwErr, bind, Except.bind]⟩

theorem engArgMasked_refuses_axis (st : St) (isMax : Bool) (vs : Nat) (t : Dense) (m : Win) (axis : Int)
    (hm : t.mask = some m) (hk : t.isMasked = true) (h : ordTypes.contains t.dt = true) (ha : axis ≥ t.dims) :
    ∃ e, engArgMasked st isMax vs t axis = .error (.err e) := by
  have h' : t.dt ∈ ordTypes := by simpa using h
  exact ⟨"dimMismatch", by simp [engArgMasked, hm, hk, h', ha, throwErr, bind, Except.bind]⟩

/-- **the direct flat route** (contiguous row-major masked tensors, `flatArgNeedsIterator` false): the kernel runs over the
    raw window and the raw mask, which there are the row-major listing of the elements and of their bits -/
theorem engArgMasked_flat_kernel (st : St) (isMax : Bool) (vs : Nat) (t : Dense) (m : Win)
    (cells : List Val) (bits : List Bool) (ks : List Red.Key)
    (hm : t.mask = some m) (hk : t.isMasked = true) (hty : ordTypes.contains t.dt = true)
    (hraw : flatMaskedViaIter t = false)
    (hc : t.rawCells st = .ok cells) (hb : maskBits st m = .ok bits)
    (hkeys : cells.mapM (Red.knownKey vs t.dt) = some ks) :
    engArgMasked st isMax vs t (-1) =
      .ok (.ok (Dense.fresh st "i" [] false #[Val.lit s!"k{argMaskedK isMax (Red.isFloatDt t.dt) ks bits}:i"]).1
               (Dense.fresh st "i" [] false #[Val.lit s!"k{argMaskedK isMax (Red.isFloatDt t.dt) ks bits}:i"]).2) := by
  have hty' : t.dt ∈ ordTypes := by simpa using hty
  have hd : ¬ ((-1 : Int) ≥ (t.dims : Int)) := by omega
  simp [engArgMasked, hm, hk, hty', hd, hraw, hc, hb, hkeys, bind, Except.bind, pure, Except.pure]

/-- **the iterator flat route** (lazily transposed, non-contiguous or column-major masked tensors): one run of the kernel
    over the elements and their own mask bits, both in iterator order — no storage index, no cell outside a view -/
theorem engArgMasked_flat_iter (st : St) (isMax : Bool) (vs : Nat) (t : Dense) (m : Win)
    (cells : List Val) (bits : List Bool) (ks : List Red.Key)
    (hm : t.mask = some m) (hk : t.isMasked = true) (hty : ordTypes.contains t.dt = true)
    (hvia : flatMaskedViaIter t = true)
    (hc : t.offsets.mapM (fun i => st.get t.win i) = .ok cells)
    (hb : t.offsets.mapM (fun i => st.mget m i) = .ok bits)
    (hkeys : cells.mapM (Red.knownKey vs t.dt) = some ks) :
    engArgMasked st isMax vs t (-1) =
      .ok (.ok (Dense.fresh st "i" [] false
                  #[Val.lit s!"k{(argIterMasked isMax (Red.isFloatDt t.dt) (totalSize t.shape).toNat ks bits).headD 0}:i"]).1
               (Dense.fresh st "i" [] false
                  #[Val.lit s!"k{(argIterMasked isMax (Red.isFloatDt t.dt) (totalSize t.shape).toNat ks bits).headD 0}:i"]).2) := by
  have hty' : t.dt ∈ ordTypes := by simpa using hty
  have hd : ¬ ((-1 : Int) ≥ (t.dims : Int)) := by omega
  simp [engArgMasked, hm, hk, hty', hd, hvia, hc, hb, hkeys, bind, Except.bind, pure, Except.pure]

theorem mapM_ok_length {β γ} (g : β → Res γ) : ∀ (l : List β) (es : List γ), l.mapM g = .ok es → es.length = l.length
  | [], es, h => by
    simp only [List.mapM_nil, pure, Except.pure] at h
    injection h with h; subst h; rfl
  | x :: xs, es, h => by
    simp only [List.mapM_cons, bind, Except.bind, pure, Except.pure] at h
    cases hx : g x with
    | error e => rw [hx] at h; cases h
    | ok v =>
      rw [hx] at h
      simp only at h
      cases hxs : xs.mapM g with
      | error e => rw [hxs] at h; cases h
      | ok vs =>
        rw [hxs] at h
        injection h with h; subst h
        simp [mapM_ok_length g xs vs hxs]

theorem mapM_some_length {β γ} (g : β → Option γ) : ∀ (l : List β) (es : List γ), l.mapM g = some es → es.length = l.length
  | [], es, h => by
    simp only [List.mapM_nil, pure] at h
    injection h with h; subst h; rfl
  | x :: xs, es, h => by
    simp only [List.mapM_cons, bind, Option.bind, pure] at h
    cases hx : g x with
    | none => rw [hx] at h; cases h
    | some v =>
      rw [hx] at h
      simp only at h
      cases hxs : xs.mapM g with
      | none => rw [hxs] at h; cases h
      | some vs =>
        rw [hxs] at h
        injection h with h; subst h
        simp [mapM_some_length g xs vs hxs]

/-- the listing flat `Argmax/Argmin` of a masked tensor search: storage offsets in reading order -/
def flatMaskedOffsets (t : Dense) : List Int := if flatMaskedViaIter t then t.offsets else rangeI t.win.len

/-- **flat Argmax/Argmin of a masked tensor = specification (F111 repaired: every layout).** `cells` / `bits` are the
    elements and their mask bits in the order the route reads them — the raw window for a contiguous row-major tensor, the
    iterator's (row-major logical) order for every other layout, where the iterator delivers as many elements as the shape
    has. When no valid element triggers the float early return the result is the index S names — the first index of the
    extreme among the valid elements, a position in that listing — and 0 where S is silent. -/
theorem engArgMasked_flat_spec (st : St) (isMax : Bool) (vs : Nat) (t : Dense) (m : Win)
    (cells : List Val) (bits : List Bool) (ks : List Red.Key)
    (hm : t.mask = some m) (hk : t.isMasked = true) (hty : ordTypes.contains t.dt = true)
    (hc : (flatMaskedOffsets t).mapM (fun i => st.get t.win i) = .ok cells)
    (hb : (flatMaskedOffsets t).mapM (fun i => st.mget m i) = .ok bits)
    (hkeys : cells.mapM (Red.knownKey vs t.dt) = some ks)
    (hsize : flatMaskedViaIter t = true → ks.length = (totalSize t.shape).toNat ∧ ks ≠ [])
    (hstop : ∀ p ∈ ks.zip bits, p.2 = false → stopK isMax (Red.isFloatDt t.dt) p.1 = false) :
    ∃ st' r, engArgMasked st isMax vs t (-1) = .ok (.ok st' r) ∧ r.shape = [] ∧
      r.rawCells st' = .ok [Val.lit s!"k{(specArgValid (betterK isMax) (ks.zip bits)).getD 0}:i"] := by
  have hspec : argMaskedK isMax (Red.isFloatDt t.dt) ks bits = (specArgValid (betterK isMax) (ks.zip bits)).getD 0 :=
    argMaskedGo_eq_spec _ _ _ hstop
  cases hvia : flatMaskedViaIter t with
  | false =>
    simp only [flatMaskedOffsets, hvia, Bool.false_eq_true, if_false] at hc hb
    have hmw : m.len = t.win.len := by
      simp only [Dense.isMasked, hm] at hk; simpa using hk
    have hb' : maskBits st m = .ok bits := by unfold maskBits; rw [hmw]; exact hb
    refine ⟨_, _, engArgMasked_flat_kernel st isMax vs t m cells bits ks hm hk hty hvia hc hb' hkeys, rfl, ?_⟩
    rw [hspec]
    simp [Dense.fresh, Dense.rawCells, St.alloc, St.get, rangeI]
    rfl
  | true =>
    simp only [flatMaskedOffsets, hvia, if_true] at hc hb
    obtain ⟨hlen, hne⟩ := hsize hvia
    have hbl : bits.length = ks.length := by
      rw [mapM_ok_length _ _ _ hb, mapM_some_length _ _ _ hkeys, mapM_ok_length _ _ _ hc]
    refine ⟨_, _, engArgMasked_flat_iter st isMax vs t m cells bits ks hm hk hty hvia hc hb hkeys, rfl, ?_⟩
    rw [← hlen, argIterMasked_single_lane isMax _ ks bits hne hbl, List.headD_cons, hspec]
    simp [Dense.fresh, Dense.rawCells, St.alloc, St.get, rangeI]
    rfl

/-- tensors without mask take the route of C08 -/
theorem engArgMasked_unmasked (st : St) (isMax : Bool) (vs : Nat) (t : Dense) (axis : Int) (hk : t.isMasked = false) :
    engArgMasked st isMax vs t axis = Red.engArg st isMax vs t axis := by
  unfold engArgMasked
  cases hm : t.mask with
  | none => rfl
  | some m => simp [hk]

/-! ## non-vacuity -/

-- first of the tied maxima among the valid elements (positions 1 and 3 are masked)
example : argMaskedK true false [.num 1, .num 9, .num 5, .num 9, .num 5] [false, true, false, true, false] = 2 := by decide
example : specArgValid (betterK true) ([Red.Key.num 1, .num 9, .num 5, .num 9, .num 5].zip [false, true, false, true, false]) = some 2 := by decide
-- a lane without valid element: the kernel answers 0, the specification nothing
example : argMaskedK false false [.num 3, .num 1] [true, true] = 0 ∧
    specArgValid (betterK false) ([Red.Key.num 3, .num 1].zip [true, true]) = none := by decide
-- float early return on the infinity of the searched direction, NaN
example : argMaskedK true true [.num 1, .num Red.infKey, .num 7] [false, false, false] = 1 ∧
    argMaskedK true true [.nan, .num 2] [true, false] = 1 ∧ argMaskedK false true [.num 2, .nan, .num 1] [false, false, false] = 1 := by decide
-- strings
example : argMaskedK false false [.str "s2", .str "s10", .str "s1"] [false, false, true] = 1 := by decide
-- (2,2) rows [1,2],[5,3] with mask rows [0,1],[1,0]: every row is judged by its own bits (the witness of F110)
example : argIterMasked true false 2 [.num 1, .num 2, .num 5, .num 3] [false, true, true, false] = [0, 1] := by decide
-- the hypothesis of `argIterMasked_eq_spec` is satisfiable with more than one lane, and the specification names the same indices
example : (∀ q ∈ (Red.argChunks 2 [.num 1, .num 2, .num 5, .num 3]).zip (laneChunks 2 [false, true, true, false]),
      ∀ p ∈ q.1.zip q.2, p.2 = false → stopK true false p.1 = false) ∧
    List.zipWith (fun lane bits => (specArgValid (betterK true) (lane.zip bits)).getD 0)
      (Red.argChunks 2 [.num 1, .num 2, .num 5, .num 3]) (laneChunks 2 [false, true, true, false]) = [0, 1] := by decide
-- the witness of F111: (2,3) elements 1..6, element (1,2) masked, lazily transposed: the flat route goes through the iterator
-- (listing 1,4,2,5,3,6 with the bit on the last entry) and answers the row-major position 3 of the 5, not its storage index 4
example : flatMaskedViaIter
    { ap := { shape := [3, 2], strides := [1, 3], fin := true }, old := some { shape := [2, 3], strides := [3, 1], fin := true },
      win := ⟨0, 0, 6, 6⟩, dt := "i16", mask := some ⟨0, 0, 6, 6⟩ } = true := by decide
example : (argIterMasked true false 6 [.num 1, .num 4, .num 2, .num 5, .num 3, .num 6] [false, false, false, false, false, true]).headD 0 = 3 ∧
    argMaskedK true false [.num 1, .num 2, .num 3, .num 4, .num 5, .num 6] [false, false, false, false, false, true] = 4 := by decide
example : StrictWeak (fun a b : Int => decide (a > b)) := strictWeak_int_gt

end TM.C15ops
