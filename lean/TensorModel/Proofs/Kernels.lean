import TensorModel.Run
/-! Helper lemmas about the kernel and engine-glue model (C06, C07, C11, C12). -/
namespace TM
end TM
