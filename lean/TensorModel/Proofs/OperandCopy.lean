import TensorModel.Eng
import TensorModel.Proofs.Views
/-!
  Helper lemmas about `operandFor` / `prepAliasVV` (the head of `prepDataVV`): the operand handed to the kernels is
  the caller's tensor or a clone of it, and a clone of an unmasked tensor has the same element type, shape, data
  order, window length and iterator requirement.
-/
set_option linter.unusedSimpArgs false
namespace TM

theorem clone_facts (s s' : St) (t r : Dense) (hm : t.mask = none) (h : t.clone s = .ok (s', r)) :
    r.dt = t.dt ∧ r.win.len = t.win.len ∧ r.ap.o = t.ap.o ∧ r.requiresIterator = t.requiresIterator ∧
    r.ap.shape = t.ap.shape ∧ r.mask = none := by
  obtain ⟨hr, _⟩ := clone_unfold s s' t r hm h
  subst hr
  simp [Dense.requiresIterator, Dense.isMasked, hm]

theorem operandFor_facts (s s' : St) (t dst t' : Dense) (ip : Bool) (hm : t.mask = none)
    (h : operandFor s t dst ip = .ok (s', t')) :
    t'.dt = t.dt ∧ t'.win.len = t.win.len ∧ t'.ap.o = t.ap.o ∧ t'.requiresIterator = t.requiresIterator ∧
    t'.ap.shape = t.ap.shape ∧ t'.mask = none := by
  unfold operandFor at h
  split at h
  · cases h; simp [hm]
  · split at h
    · cases h; simp [hm]
    · exact clone_facts s s' t t' hm h

theorem prepAliasVV_facts (s s' : St) (a x y a' x' : Dense) (hma : a.mask = none) (hmx : x.mask = none)
    (h : prepAliasVV s a x (some y) = .ok (s', a', x')) :
    (a'.dt = a.dt ∧ a'.win.len = a.win.len ∧ a'.ap.o = a.ap.o ∧ a'.requiresIterator = a.requiresIterator ∧
      a'.ap.shape = a.ap.shape) ∧
    (x'.dt = x.dt ∧ x'.win.len = x.win.len ∧ x'.ap.o = x.ap.o ∧ x'.requiresIterator = x.requiresIterator ∧
      x'.ap.shape = x.ap.shape) := by
  unfold prepAliasVV at h
  simp only [bind, Except.bind, pure, Except.pure] at h
  cases h1 : operandFor s x y false with
  | error e => rw [h1] at h; cases h
  | ok p1 =>
    obtain ⟨s1, x1⟩ := p1
    rw [h1] at h
    simp only at h
    cases h2 : operandFor s1 a y true with
    | error e => rw [h2] at h; cases h
    | ok p2 =>
      obtain ⟨s2, a2⟩ := p2
      rw [h2] at h
      cases h
      have f1 := operandFor_facts _ _ _ _ _ _ hmx h1
      have f2 := operandFor_facts _ _ _ _ _ _ hma h2
      exact ⟨⟨f2.1, f2.2.1, f2.2.2.1, f2.2.2.2.1, f2.2.2.2.2.1⟩, ⟨f1.1, f1.2.1, f1.2.2.1, f1.2.2.2.1, f1.2.2.2.2.1⟩⟩
end TM
