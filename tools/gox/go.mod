module gox

go 1.18
