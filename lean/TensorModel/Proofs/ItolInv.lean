import TensorModel.Proofs.Ltoi
import TensorModel.Proofs.Iter
/-!
  `Itol` (flat index -> coordinate, by repeated `divmod`) inverts `Ltoi` on the default row-major layout.
-/
set_option linter.unusedSimpArgs false
namespace TM
open TM

theorem calcStrides_cons' (d : Int) (ds : Shape) : calcStrides (d :: ds) = prod ds :: calcStrides ds := by
  simp [calcStrides]

/-- `Itol` inverts `Ltoi` on the default row-major layout: the flat index of an in-box coordinate is split back into
    exactly that coordinate (any rank, any positive extents) -/
theorem itol_go_rowRank : ∀ (shape : Shape), (∀ d ∈ shape, 0 < d) → ∀ (sh' : Shape) (c : List Int), inBox shape c = true →
    itol.go (rowRank shape c) sh' (calcStrides shape) = .ok c := by
  intro shape
  induction shape with
  | nil =>
    intro _ sh' c hc
    cases c with
    | nil => simp [calcStrides, itol.go]
    | cons _ _ => simp [inBox] at hc
  | cons d ds ih =>
    intro hp sh' c hc
    cases c with
    | nil => simp [inBox] at hc
    | cons x xs =>
      simp only [inBox, Bool.and_eq_true, decide_eq_true_eq] at hc
      obtain ⟨⟨hx0, hxd⟩, hxs⟩ := hc
      have hps : ∀ e ∈ ds, 0 < e := fun e he => hp e (by simp [he])
      have hP := prod_pos ds hps
      have hb := rowRank_bounds' ds xs hxs
      rw [calcStrides_cons', rowRank_cons, itol.go]
      have hne : (prod ds == 0) = false := by
        simp only [beq_eq_false_iff_ne, ne_eq]; omega
      simp only [hne, Bool.false_eq_true, if_false, bind, Except.bind, pure, Except.pure]
      have hmod : goMod (x * prod ds + rowRank ds xs) (prod ds) = rowRank ds xs := by
        unfold goMod
        rw [Int.tmod_eq_emod_of_nonneg (by
          have : 0 ≤ x * prod ds := Int.mul_nonneg hx0 (Int.le_of_lt hP)
          omega)]
        rw [Int.add_comm, Int.add_mul_emod_self_right]
        exact Int.emod_eq_of_lt hb.1 hb.2
      have hdiv : goDiv (x * prod ds + rowRank ds xs) (prod ds) = x := by
        unfold goDiv
        rw [Int.tdiv_eq_ediv_of_nonneg (by
          have : 0 ≤ x * prod ds := Int.mul_nonneg hx0 (Int.le_of_lt hP)
          omega)]
        rw [Int.add_comm, Int.add_mul_ediv_right _ _ (by omega)]
        rw [Int.ediv_eq_zero_of_lt hb.1 hb.2]; omega
      rw [hmod, hdiv, ih hps sh'.tail xs hxs]

theorem itol_ltoi_rowMajor (shape : Shape) (hp : ∀ d ∈ shape, 0 < d) (c : List Int) (hc : inBox shape c = true) :
    itol (rowRank shape c) shape (calcStrides shape) = .ok c := by
  unfold itol
  exact itol_go_rowRank shape hp shape c hc
end TM
