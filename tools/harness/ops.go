package main

import (
	"fmt"
	"math"
	"math/cmplx"

	"github.com/chewxy/math32"
)

type integer interface {
	~int | ~int8 | ~int16 | ~int32 | ~int64 | ~uint | ~uint8 | ~uint16 | ~uint32 | ~uint64
}
type float interface{ ~float32 | ~float64 }
type realnum interface{ integer | float }

func b2t[T realnum](b bool) T {
	if b {
		return 1
	}
	return 0
}

// binReal evaluates the operators every ordered numeric type shares, with Go's own operators.
func binReal[T realnum](f string, a, b T) (interface{}, bool) {
	switch f {
	case "add":
		return a + b, true
	case "sub":
		return a - b, true
	case "mul":
		return a * b, true
	case "gt":
		return a > b, true
	case "gte":
		return a >= b, true
	case "lt":
		return a < b, true
	case "lte":
		return a <= b, true
	case "eq":
		return a == b, true
	case "ne":
		return a != b, true
	case "gt.same":
		return b2t[T](a > b), true
	case "gte.same":
		return b2t[T](a >= b), true
	case "lt.same":
		return b2t[T](a < b), true
	case "lte.same":
		return b2t[T](a <= b), true
	case "eq.same":
		return b2t[T](a == b), true
	case "ne.same":
		return b2t[T](a != b), true
	case "minb": // the kernels' form: `if b < a { a = b }`
		if b < a {
			return b, true
		}
		return a, true
	case "maxb":
		if b > a {
			return b, true
		}
		return a, true
	}
	return nil, false
}

func binInt[T integer](f string, a, b T) (interface{}, error) {
	if v, ok := binReal(f, a, b); ok {
		return v, nil
	}
	switch f {
	case "div", "div.vec":
		if b == 0 {
			return nil, fmt.Errorf("integer division by zero in the oracle (outside the specification's domain)")
		}
		return a / b, nil
	case "mod":
		if b == 0 {
			return nil, fmt.Errorf("integer modulo by zero in the oracle (outside the specification's domain)")
		}
		return a % b, nil
	}
	return nil, fmt.Errorf("unknown integer function %q", f)
}

func binF64(f string, a, b float64) (interface{}, error) {
	if v, ok := binReal(f, a, b); ok {
		return v, nil
	}
	switch f {
	case "div":
		return a / b, nil
	case "div.vec": // gorgonia.org/vecf64.Div: any zero divisor gives +Inf
		if b == 0 {
			return math.Inf(0), nil
		}
		return a / b, nil
	case "mod":
		return math.Mod(a, b), nil
	case "pow":
		return math.Pow(a, b), nil
	}
	return nil, fmt.Errorf("unknown float64 function %q", f)
}

func binF32(f string, a, b float32) (interface{}, error) {
	if v, ok := binReal(f, a, b); ok {
		return v, nil
	}
	switch f {
	case "div":
		return a / b, nil
	case "div.vec":
		if b == 0 {
			return math32.Inf(0), nil
		}
		return a / b, nil
	case "mod":
		return math32.Mod(a, b), nil
	case "pow":
		return math32.Pow(a, b), nil
	}
	return nil, fmt.Errorf("unknown float32 function %q", f)
}

func binC128(f string, a, b complex128) (interface{}, error) {
	switch f {
	case "add":
		return a + b, nil
	case "sub":
		return a - b, nil
	case "mul":
		return a * b, nil
	case "div", "div.vec":
		return a / b, nil
	case "pow":
		return cmplx.Pow(a, b), nil
	case "eq":
		return a == b, nil
	case "ne":
		return a != b, nil
	case "eq.same":
		if a == b {
			return complex128(1), nil
		}
		return complex128(0), nil
	case "ne.same":
		if a != b {
			return complex128(1), nil
		}
		return complex128(0), nil
	}
	return nil, fmt.Errorf("unknown complex128 function %q", f)
}

func binC64(f string, a, b complex64) (interface{}, error) {
	switch f {
	case "add":
		return a + b, nil
	case "sub":
		return a - b, nil
	case "mul":
		return a * b, nil
	case "div", "div.vec":
		return a / b, nil
	case "pow":
		return complex64(cmplx.Pow(complex128(a), complex128(b))), nil
	case "eq":
		return a == b, nil
	case "ne":
		return a != b, nil
	case "eq.same":
		if a == b {
			return complex64(1), nil
		}
		return complex64(0), nil
	case "ne.same":
		if a != b {
			return complex64(1), nil
		}
		return complex64(0), nil
	}
	return nil, fmt.Errorf("unknown complex64 function %q", f)
}

func binStr(f string, a, b string) (interface{}, error) {
	switch f {
	case "add":
		return a + b, nil
	case "gt":
		return a > b, nil
	case "gte":
		return a >= b, nil
	case "lt":
		return a < b, nil
	case "lte":
		return a <= b, nil
	case "eq":
		return a == b, nil
	case "ne":
		return a != b, nil
	case "minb":
		if b < a {
			return b, nil
		}
		return a, nil
	case "maxb":
		if b > a {
			return b, nil
		}
		return a, nil
	case "gt.same":
		return strTF(a > b), nil
	case "gte.same":
		return strTF(a >= b), nil
	case "lt.same":
		return strTF(a < b), nil
	case "lte.same":
		return strTF(a <= b), nil
	case "eq.same":
		return strTF(a == b), nil
	case "ne.same":
		return strTF(a != b), nil
	}
	return nil, fmt.Errorf("unknown string function %q", f)
}

func strTF(b bool) string {
	if b {
		return "true"
	}
	return "false"
}

func binBool(f string, a, b bool) (interface{}, error) {
	switch f {
	case "eq", "eq.same":
		return a == b, nil
	case "ne", "ne.same":
		return a != b, nil
	}
	return nil, fmt.Errorf("unknown bool function %q", f)
}

// applyOp evaluates the scalar function named f on typed Go values with Go's own operators and
// maths routines (the same ones the kernels of that element type name).
// extraOps: scalar functions contributed by operation-family files (consulted first).
var extraOps = map[string]func(args []interface{}) (interface{}, error){}

func applyOp(f string, dt *dtInfo, args []interface{}) (interface{}, error) {
	if g, ok := extraOps[f]; ok {
		return g(args)
	}
	for _, a := range args {
		if m, ok := a.(errMark); ok {
			return m, nil
		}
	}
	if len(args) == 1 {
		return applyUnary(f, args[0])
	}
	if len(args) == 3 {
		return applyTernary(f, args[0], args[1], args[2])
	}
	if len(args) != 2 {
		return nil, fmt.Errorf("bad arity for %q", f)
	}
	switch a := args[0].(type) {
	case int:
		if b, ok := args[1].(int); ok {
			return binInt(f, a, b)
		}
	case int8:
		if b, ok := args[1].(int8); ok {
			return binInt(f, a, b)
		}
	case int16:
		if b, ok := args[1].(int16); ok {
			return binInt(f, a, b)
		}
	case int32:
		if b, ok := args[1].(int32); ok {
			return binInt(f, a, b)
		}
	case int64:
		if b, ok := args[1].(int64); ok {
			return binInt(f, a, b)
		}
	case uint:
		if b, ok := args[1].(uint); ok {
			return binInt(f, a, b)
		}
	case uint8:
		if b, ok := args[1].(uint8); ok {
			return binInt(f, a, b)
		}
	case uint16:
		if b, ok := args[1].(uint16); ok {
			return binInt(f, a, b)
		}
	case uint32:
		if b, ok := args[1].(uint32); ok {
			return binInt(f, a, b)
		}
	case uint64:
		if b, ok := args[1].(uint64); ok {
			return binInt(f, a, b)
		}
	case float32:
		if b, ok := args[1].(float32); ok {
			return binF32(f, a, b)
		}
	case float64:
		if b, ok := args[1].(float64); ok {
			return binF64(f, a, b)
		}
	case complex64:
		if b, ok := args[1].(complex64); ok {
			return binC64(f, a, b)
		}
	case complex128:
		if b, ok := args[1].(complex128); ok {
			return binC128(f, a, b)
		}
	case string:
		if b, ok := args[1].(string); ok {
			return binStr(f, a, b)
		}
	case bool:
		if b, ok := args[1].(bool); ok {
			return binBool(f, a, b)
		}
	}
	return nil, fmt.Errorf("operands of %q have mismatched or unsupported types %T, %T", f, args[0], args[1])
}

func unInt[T integer](f string, a T) (interface{}, error) {
	switch f {
	case "neg":
		return -a, nil
	case "inv":
		if a == 0 {
			return nil, fmt.Errorf("integer 1/0 in the oracle (outside the specification's domain)")
		}
		return 1 / a, nil
	case "square":
		return a * a, nil
	case "cube":
		return a * a * a, nil
	case "abs":
		if a < 0 {
			return -a, nil
		}
		return a, nil
	case "sign":
		var zero T
		if a < zero {
			return zero - 1, nil
		} else if a > 0 {
			return T(1), nil
		}
		return a, nil
	}
	return nil, fmt.Errorf("unknown integer unary function %q", f)
}

func unF64(f string, a float64) (interface{}, error) {
	switch f {
	case "neg":
		return -a, nil
	case "inv":
		return 1 / a, nil
	case "square":
		return a * a, nil
	case "cube":
		return a * a * a, nil
	case "abs":
		return math.Abs(a), nil
	case "sign":
		if a < 0 {
			return float64(-1), nil
		} else if a > 0 {
			return float64(1), nil
		}
		return a, nil
	case "exp":
		return math.Exp(a), nil
	case "tanh":
		return math.Tanh(a), nil
	case "log":
		return math.Log(a), nil
	case "log2":
		return math.Log2(a), nil
	case "log10":
		return math.Log10(a), nil
	case "sqrt":
		return math.Sqrt(a), nil
	case "cbrt":
		return math.Cbrt(a), nil
	case "invsqrt":
		return float64(1) / math.Sqrt(a), nil
	}
	return nil, fmt.Errorf("unknown float64 unary function %q", f)
}

func unF32(f string, a float32) (interface{}, error) {
	switch f {
	case "neg":
		return -a, nil
	case "inv":
		return 1 / a, nil
	case "square":
		return a * a, nil
	case "cube":
		return a * a * a, nil
	case "abs":
		return math32.Abs(a), nil
	case "sign":
		if a < 0 {
			return float32(-1), nil
		} else if a > 0 {
			return float32(1), nil
		}
		return a, nil
	case "exp":
		return math32.Exp(a), nil
	case "tanh":
		return math32.Tanh(a), nil
	case "log":
		return math32.Log(a), nil
	case "log2":
		return math32.Log2(a), nil
	case "log10":
		return math32.Log10(a), nil
	case "sqrt":
		return math32.Sqrt(a), nil
	case "cbrt":
		return math32.Cbrt(a), nil
	case "invsqrt":
		return float32(1) / math32.Sqrt(a), nil
	}
	return nil, fmt.Errorf("unknown float32 unary function %q", f)
}

func unC128(f string, a complex128) (interface{}, error) {
	switch f {
	case "neg":
		return -a, nil
	case "inv":
		return 1 / a, nil
	case "square":
		return a * a, nil
	case "cube":
		return a * a * a, nil
	case "exp":
		return cmplx.Exp(a), nil
	case "tanh":
		return cmplx.Tanh(a), nil
	case "log":
		return cmplx.Log(a), nil
	case "log10":
		return cmplx.Log10(a), nil
	case "sqrt":
		return cmplx.Sqrt(a), nil
	}
	return nil, fmt.Errorf("unknown complex128 unary function %q", f)
}

func unC64(f string, a complex64) (interface{}, error) {
	switch f {
	case "neg":
		return -a, nil
	case "inv":
		return 1 / a, nil
	case "square":
		return a * a, nil
	case "cube":
		return a * a * a, nil
	case "exp":
		return complex64(cmplx.Exp(complex128(a))), nil
	case "tanh":
		return complex64(cmplx.Tanh(complex128(a))), nil
	case "log":
		return complex64(cmplx.Log(complex128(a))), nil
	case "log10":
		return complex64(cmplx.Log10(complex128(a))), nil
	case "sqrt":
		return complex64(cmplx.Sqrt(complex128(a))), nil
	}
	return nil, fmt.Errorf("unknown complex64 unary function %q", f)
}

func applyUnary(f string, a interface{}) (interface{}, error) {
	switch x := a.(type) {
	case int:
		return unInt(f, x)
	case int8:
		return unInt(f, x)
	case int16:
		return unInt(f, x)
	case int32:
		return unInt(f, x)
	case int64:
		return unInt(f, x)
	case uint:
		return unInt(f, x)
	case uint8:
		return unInt(f, x)
	case uint16:
		return unInt(f, x)
	case uint32:
		return unInt(f, x)
	case uint64:
		return unInt(f, x)
	case float32:
		return unF32(f, x)
	case float64:
		return unF64(f, x)
	case complex64:
		return unC64(f, x)
	case complex128:
		return unC128(f, x)
	}
	return nil, fmt.Errorf("unary %q on unsupported type %T", f, a)
}

func clampInt[T integer](a, lo, hi T) T {
	if a < lo {
		return lo
	}
	if a > hi {
		return hi
	}
	return a
}

func applyTernary(f string, a, b, c interface{}) (interface{}, error) {
	if f != "clamp" {
		return nil, fmt.Errorf("unknown ternary function %q", f)
	}
	switch x := a.(type) {
	case int:
		return clampInt(x, b.(int), c.(int)), nil
	case int8:
		return clampInt(x, b.(int8), c.(int8)), nil
	case int16:
		return clampInt(x, b.(int16), c.(int16)), nil
	case int32:
		return clampInt(x, b.(int32), c.(int32)), nil
	case int64:
		return clampInt(x, b.(int64), c.(int64)), nil
	case uint:
		return clampInt(x, b.(uint), c.(uint)), nil
	case uint8:
		return clampInt(x, b.(uint8), c.(uint8)), nil
	case uint16:
		return clampInt(x, b.(uint16), c.(uint16)), nil
	case uint32:
		return clampInt(x, b.(uint32), c.(uint32)), nil
	case uint64:
		return clampInt(x, b.(uint64), c.(uint64)), nil
	case float64:
		lo, hi := b.(float64), c.(float64)
		if x < lo || math.IsInf(x, -1) {
			return lo, nil
		}
		if x > hi || math.IsInf(x, 1) {
			return hi, nil
		}
		return x, nil
	case float32:
		lo, hi := b.(float32), c.(float32)
		if x < lo || math32.IsInf(x, -1) {
			return lo, nil
		}
		if x > hi || math32.IsInf(x, 1) {
			return hi, nil
		}
		return x, nil
	}
	return nil, fmt.Errorf("clamp on unsupported type %T", a)
}
