package main

import (
	"fmt"
	"reflect"
	"strconv"
	"strings"

	"gorgonia.org/tensor"
)

// vslice is a harness-defined tensor.Slice with an arbitrary (start,end,step) triple.
type vslice struct{ start, end, step int }

func (s vslice) Start() int { return s.start }
func (s vslice) End() int   { return s.end }
func (s vslice) Step() int  { return s.step }

func parseInts(s string) ([]int, error) {
	if s == "-" || s == "" {
		return []int{}, nil
	}
	parts := strings.Split(s, ",")
	out := make([]int, len(parts))
	for i, p := range parts {
		n, err := strconv.Atoi(p)
		if err != nil {
			return nil, err
		}
		out[i] = n
	}
	return out, nil
}

func parseSlices(s string) ([]tensor.Slice, error) {
	if s == "-" {
		return []tensor.Slice{}, nil
	}
	parts := strings.Split(s, ",")
	out := make([]tensor.Slice, len(parts))
	for i, p := range parts {
		if p == "n" {
			out[i] = nil
			continue
		}
		viaS := strings.HasPrefix(p, "S") // build the slice with the library's constructor S(...)
		f := strings.Split(strings.TrimPrefix(p, "S"), ":")
		ns := make([]int, len(f))
		for j := range f {
			n, err := strconv.Atoi(f[j])
			if err != nil {
				return nil, err
			}
			ns[j] = n
		}
		if viaS {
			if len(ns) < 1 || len(ns) > 3 {
				return nil, fmt.Errorf("bad slice %q", p)
			}
			out[i] = tensor.S(ns[0], ns[1:]...)
			continue
		}
		switch len(ns) {
		case 1:
			out[i] = vslice{ns[0], ns[0] + 1, 0}
		case 2:
			out[i] = vslice{ns[0], ns[1], 1}
		case 3:
			out[i] = vslice{ns[0], ns[1], ns[2]}
		default:
			return nil, fmt.Errorf("bad slice %q", p)
		}
	}
	return out, nil
}

func showInts(a []int) string {
	if len(a) == 0 {
		return "-"
	}
	s := make([]string, len(a))
	for i, v := range a {
		s[i] = strconv.Itoa(v)
	}
	return strings.Join(s, ",")
}

// rec is the outcome of one program step on the implementation.
type rec struct {
	fields map[string]string        // plain fields, compared as strings
	vals   map[string][]interface{} // typed lists (elems, raw, v): values or errMark
	dt     *dtInfo                  // element type for evaluating the model's terms
	stop   bool
}

func newRec() *rec { return &rec{fields: map[string]string{}, vals: map[string][]interface{}{}} }

// prog is the execution state of one program.
type prog struct {
	vars   []*tensor.Dense
	vdt    []*dtInfo
	// slices passed to the library so far (caller-owned), their contents at that time, and the step
	held     [][]int
	heldCopy [][]int
	heldStep []int
	pendingArgmut string
	curStep  int
	inputs [][]interface{} // initial contents of model buffer b (in creation order of `new`)
	nbuf   int
	vset   int
	// text each (tensor, verb) pair was formatted to the first time (step `fmt`): formatting the same tensor again -
	// in another goroutine, under any interleaving - must give the same text
	fmtSeen map[string]string
}

// guard runs f, converting a panic into ("panic").
func guard(f func() error) (res string) {
	defer func() {
		if r := recover(); r != nil {
			res = "panic"
		}
	}()
	if err := f(); err != nil {
		return "err"
	}
	return "ok"
}

func allCoords(shape []int) [][]int {
	out := [][]int{{}}
	for _, d := range shape {
		var next [][]int
		for _, c := range out {
			for i := 0; i < d; i++ {
				cc := append(append([]int{}, c...), i)
				next = append(next, cc)
			}
		}
		out = next
	}
	return out
}

func atSafe(t *tensor.Dense, c []int) (v interface{}) {
	defer func() {
		if r := recover(); r != nil {
			v = errMark("panic")
		}
	}()
	x, err := t.At(c...)
	if err != nil {
		return errMark("err")
	}
	return x
}

func rawVals(t *tensor.Dense) (out []interface{}) {
	defer func() {
		if r := recover(); r != nil {
			out = []interface{}{errMark("panic")}
		}
	}()
	_, n, _ := tensor.VerifWindow(t)
	if n == 0 {
		return nil
	}
	if t.IsScalar() {
		out = make([]interface{}, n)
		for i := 0; i < n; i++ {
			out[i] = t.Get(i)
		}
		return out
	}
	rv := reflect.ValueOf(t.Data())
	if rv.Kind() != reflect.Slice {
		return []interface{}{rv.Interface()}
	}
	out = make([]interface{}, rv.Len())
	for i := range out {
		out[i] = rv.Index(i).Interface()
	}
	return out
}

func orderStr(o tensor.DataOrder) string {
	s := "C"
	if o.IsColMajor() {
		s = "F"
	}
	if o.IsNotContiguous() {
		s += "n"
	} else {
		s += "c"
	}
	if o.IsTransposed() {
		s += "t"
	} else {
		s += "-"
	}
	return s
}

func b01(b bool) string {
	if b {
		return "1"
	}
	return "0"
}

func (p *prog) dump(t *tensor.Dense, dt *dtInfo) *rec {
	r := newRec()
	r.dt = dt
	r.fields["shape"] = showInts(t.Shape())
	r.fields["strides"] = showInts(t.Strides())
	r.fields["o"] = orderStr(t.DataOrder())
	r.fields["view"] = b01(t.IsView())
	oz, _, _ := tensor.VerifOld(t)
	r.fields["old"] = b01(!oz)
	_, n, _ := tensor.VerifWindow(t)
	r.fields["len"] = strconv.Itoa(n)
	r.fields["wf"] = b01(wfMeta(t.Shape(), t.Strides(), n, t.Size()))
	cs := allCoords(t.Shape())
	if len(cs) > 4096 {
		r.fields["elems"] = "big"
	} else {
		el := make([]interface{}, len(cs))
		for i, c := range cs {
			el[i] = atSafe(t, c)
		}
		r.vals["elems"] = el
	}
	r.vals["raw"] = rawVals(t)
	m, _ := tensor.VerifMaskInfo(t)
	if m == nil {
		r.fields["mask"] = "-"
	} else {
		var sb strings.Builder
		for _, b := range m {
			sb.WriteString(b01(b))
		}
		if len(m) == 0 {
			sb.WriteString("-")
		}
		r.fields["mask"] = sb.String()
	}
	return r
}

// wfMeta is the C13 metadata invariant evaluated on the implementation's own accessors: one
// stride per axis, Size() = product of the shape, all addresses distinct and inside the window.
func wfMeta(shape, strides []int, length int, reportedSize int) bool {
	prod := 1
	for _, d := range shape {
		if d < 0 {
			return false
		}
		prod *= d
	}
	if prod > 4096 {
		return true
	}
	if len(strides) != len(shape) || reportedSize != prod {
		return false
	}
	seen := map[int]bool{}
	for _, c := range allCoords(shape) {
		a := 0
		for i := range c {
			a += c[i] * strides[i]
		}
		if a < 0 || a >= length || seen[a] {
			return false
		}
		seen[a] = true
	}
	return true
}

func (p *prog) get(tok string) (*tensor.Dense, *dtInfo) {
	if !strings.HasPrefix(tok, "$") {
		return nil, nil
	}
	k, err := strconv.Atoi(tok[1:])
	if err != nil || k < 0 || k >= len(p.vars) {
		return nil, nil
	}
	return p.vars[k], p.vdt[k]
}

func (p *prog) push(t *tensor.Dense, dt *dtInfo) {
	p.vars = append(p.vars, t)
	p.vdt = append(p.vdt, dt)
}

func simple(res string) *rec {
	r := newRec()
	r.fields["r"] = res
	if res == "panic" {
		r.stop = true
	}
	return r
}

// newOp runs a tensor-producing operation; on failure the variable slot is nil.
func (p *prog) newOp(dt *dtInfo, f func() (*tensor.Dense, error)) *rec {
	var out *tensor.Dense
	res := guard(func() error {
		t, err := f()
		if err != nil {
			return err
		}
		out = t
		return nil
	})
	if res != "ok" {
		out = nil
	}
	p.push(out, dt)
	return simple(res)
}

// extSteps: step keywords handled by operation-family files (registered in their init()).
var extSteps = map[string]func(p *prog, idx int, toks []string) *rec{}

// hold registers a slice the harness (the "caller") passes to the library: the library must never
// mutate, retain or recycle it (C19). Every held slice is re-checked after every later step.
func (p *prog) hold(s []int) []int {
	p.held = append(p.held, s)
	p.heldCopy = append(p.heldCopy, append([]int(nil), s...))
	p.heldStep = append(p.heldStep, p.curStep)
	return s
}

func (p *prog) checkHeld() string {
	var bad []string
	for i, s := range p.held {
		c := p.heldCopy[i]
		same := len(s) == len(c)
		for j := 0; same && j < len(s); j++ {
			if s[j] != c[j] {
				same = false
			}
		}
		if !same {
			bad = append(bad, fmt.Sprintf("step%d:%v->%v", p.heldStep[i], c, s))
			p.heldCopy[i] = append([]int(nil), s...) // report once
		}
	}
	return strings.Join(bad, "|")
}

func (p *prog) step(idx int, toks []string) *rec {
	p.curStep = idx
	r := p.stepInner(idx, toks)
	if m := p.checkHeld(); m != "" {
		r.fields["argmut"] = strings.ReplaceAll(m, " ", ",")
	}
	if p.pendingArgmut != "" {
		r.fields["argmut"] = p.pendingArgmut
		p.pendingArgmut = ""
	}
	return r
}

func (p *prog) stepInner(idx int, toks []string) *rec {
	if len(toks) == 0 {
		return simple("badprog")
	}
	if f, ok := extSteps[toks[0]]; ok {
		return f(p, idx, toks)
	}
	switch toks[0] {
	case "new":
		if len(toks) != 4 {
			break
		}
		dt := dtByName(toks[1])
		shape, err := parseInts(toks[2])
		if dt == nil || err != nil {
			break
		}
		n := 1
		for _, d := range shape {
			n *= d
		}
		buf := p.nbuf
		p.nbuf++
		in := make([]interface{}, n)
		backing := dt.makeSlice(n, func(i int) interface{} { v := dt.genVal(p.vset, buf, i); in[i] = v; return v })
		p.inputs = append(p.inputs, in)
		return p.newOp(dt, func() (*tensor.Dense, error) {
			switch toks[3] {
			case "C":
				return tensor.New(tensor.WithShape(p.hold(shape)...), tensor.WithBacking(backing)), nil
			case "Fraw":
				return tensor.New(tensor.WithShape(shape...), tensor.WithBacking(backing), tensor.AsFortran(nil)), nil
			case "Fconv":
				return tensor.New(tensor.WithShape(shape...), tensor.AsFortran(backing)), nil
			// the same constructors with the options given in another order (the result must not depend on it)
			case "CN":
				// NewDense(dt, shape, WithBacking(…)): the shape is the caller's slice (held: never retained, zeroed or recycled)
				return tensor.NewDense(dt.dt, tensor.Shape(p.hold(shape)), tensor.WithBacking(backing)), nil
			case "C1":
				return tensor.New(tensor.WithBacking(backing), tensor.WithShape(shape...)), nil
			case "Fraw1":
				return tensor.New(tensor.AsFortran(nil), tensor.WithShape(shape...), tensor.WithBacking(backing)), nil
			case "Fraw2":
				return tensor.New(tensor.WithBacking(backing), tensor.AsFortran(nil), tensor.WithShape(shape...)), nil
			}
			return nil, fmt.Errorf("bad order")
		})
	case "slice":
		if len(toks) != 3 {
			break
		}
		t, dt := p.get(toks[1])
		sls, err := parseSlices(toks[2])
		if t == nil || err != nil {
			p.push(nil, dt)
			return simple("skip")
		}
		return p.newOp(dt, func() (*tensor.Dense, error) {
			// the slice list is handed over as the prefix of a longer caller-owned list (spare capacity behind it): the
			// library must not touch what lies behind the prefix, nor the prefix itself (C19)
			full := make([]tensor.Slice, len(sls)+3)
			copy(full, sls)
			for i := len(sls); i < len(full); i++ {
				full[i] = vslice{7, 9, 2}
			}
			v, err := t.Slice(full[:len(sls)]...)
			for i := range full {
				var want tensor.Slice = vslice{7, 9, 2}
				if i < len(sls) {
					want = sls[i]
				}
				if full[i] != want {
					p.pendingArgmut = fmt.Sprintf("slicelist[%d]", i)
				}
			}
			if err != nil {
				return nil, err
			}
			return v.(*tensor.Dense), nil
		})
	case "T":
		if len(toks) != 3 {
			break
		}
		t, _ := p.get(toks[1])
		axes, err := parseInts(toks[2])
		if t == nil || err != nil {
			return simple("skip")
		}
		p.hold(axes)
		return simple(guard(func() error { return t.T(axes...) }))
	case "UT":
		t, _ := p.get(toks[1])
		if t == nil {
			return simple("skip")
		}
		return simple(guard(func() error { t.UT(); return nil }))
	case "transpose":
		t, _ := p.get(toks[1])
		if t == nil {
			return simple("skip")
		}
		return simple(guard(func() error { return t.Transpose() }))
	case "at":
		t, dt := p.get(toks[1])
		c, err := parseInts(toks[2])
		if t == nil || err != nil {
			return simple("skip")
		}
		var v interface{}
		p.hold(c)
		res := guard(func() error { x, err := t.At(c...); v = x; return err })
		r := simple(res)
		if res == "ok" {
			r.dt = dt
			r.vals["v"] = []interface{}{v}
		}
		return r
	case "setat":
		t, dt := p.get(toks[1])
		c, err := parseInts(toks[2])
		if t == nil || err != nil {
			return simple("skip")
		}
		v, _ := dt.litVal("w" + strconv.Itoa(idx))
		p.hold(c)
		return simple(guard(func() error { return t.SetAt(v, c...) }))
	case "clone":
		t, dt := p.get(toks[1])
		if t == nil {
			p.push(nil, dt)
			return simple("skip")
		}
		return p.newOp(dt, func() (*tensor.Dense, error) { return t.Clone().(*tensor.Dense), nil })
	case "shallow":
		t, dt := p.get(toks[1])
		if t == nil {
			p.push(nil, dt)
			return simple("skip")
		}
		return p.newOp(dt, func() (*tensor.Dense, error) { return t.ShallowClone(), nil })
	case "mat":
		t, dt := p.get(toks[1])
		if t == nil {
			p.push(nil, dt)
			return simple("skip")
		}
		return p.newOp(dt, func() (*tensor.Dense, error) { return t.Materialize().(*tensor.Dense), nil })
	case "safeT":
		t, dt := p.get(toks[1])
		axes, err := parseInts(toks[2])
		if t == nil || err != nil {
			p.push(nil, dt)
			return simple("skip")
		}
		p.hold(axes)
		return p.newOp(dt, func() (*tensor.Dense, error) { return t.SafeT(axes...) })
	case "apiT", "apiTranspose":
		// package-level tensor.T (a safe transpose) and tensor.Transpose (safe transpose + data movement)
		t, dt := p.get(toks[1])
		if len(toks) != 3 {
			break
		}
		axes, err := parseInts(toks[2])
		if t == nil || err != nil {
			p.push(nil, dt)
			return simple("skip")
		}
		p.hold(axes)
		return p.newOp(dt, func() (*tensor.Dense, error) {
			var r tensor.Tensor
			var err error
			if toks[0] == "apiT" {
				r, err = tensor.T(t, axes...)
			} else {
				r, err = tensor.Transpose(t, axes...)
			}
			if err != nil {
				return nil, err
			}
			return r.(*tensor.Dense), nil
		})
	case "apimat":
		t, dt := p.get(toks[1])
		if t == nil {
			p.push(nil, dt)
			return simple("skip")
		}
		return p.newOp(dt, func() (*tensor.Dense, error) { return tensor.Materialize(t).(*tensor.Dense), nil })
	case "narrow":
		// narrow $v dim start length fn|meth
		t, dt := p.get(toks[1])
		if t == nil || len(toks) != 6 {
			p.push(nil, dt)
			return simple("skip")
		}
		dim, _ := strconv.Atoi(toks[2])
		start, _ := strconv.Atoi(toks[3])
		length, _ := strconv.Atoi(toks[4])
		return p.newOp(dt, func() (*tensor.Dense, error) {
			var v tensor.View
			var err error
			if toks[5] == "fn" {
				v, err = tensor.Narrow(t, dim, start, length)
			} else {
				v, err = t.Narrow(dim, start, length)
			}
			if err != nil {
				return nil, err
			}
			return v.(*tensor.Dense), nil
		})
	case "fmt":
		// fmt $v <verb>: formatting is a read-only use of the tensor (C18); its text must not depend on what else
		// is being formatted at the same time
		t, _ := p.get(toks[1])
		if t == nil || len(toks) != 3 {
			return simple("skip")
		}
		var txt string
		res := guard(func() error { txt = fmt.Sprintf(toks[2], t); return nil })
		if res != "ok" {
			return simple(res)
		}
		key := fmt.Sprintf("%p|%s", t, toks[2])
		if p.fmtSeen == nil {
			p.fmtSeen = map[string]string{}
		}
		if prev, ok := p.fmtSeen[key]; ok && prev != txt {
			r := simple("fmtdiff")
			r.fields["got"] = strconv.Quote(txt)
			r.fields["want"] = strconv.Quote(prev)
			return r
		}
		p.fmtSeen[key] = txt
		return simple("ok")
	case "roll":
		t, dt := p.get(toks[1])
		if t == nil || len(toks) != 5 {
			p.push(nil, dt)
			return simple("skip")
		}
		axis, _ := strconv.Atoi(toks[2])
		start, _ := strconv.Atoi(toks[3])
		return p.newOp(dt, func() (*tensor.Dense, error) { return t.RollAxis(axis, start, toks[4] == "1") })
	case "memset":
		t, dt := p.get(toks[1])
		if t == nil {
			return simple("skip")
		}
		v, _ := dt.litVal("w" + strconv.Itoa(idx))
		return simple(guard(func() error { return t.Memset(v) }))
	case "zero":
		t, _ := p.get(toks[1])
		if t == nil {
			return simple("skip")
		}
		return simple(guard(func() error { t.Zero(); return nil }))
	case "copy":
		d, _ := p.get(toks[1])
		t, _ := p.get(toks[2])
		if t == nil || d == nil {
			return simple("skip")
		}
		return simple(guard(func() error { return tensor.Copy(d, t) }))
	case "copyto":
		t, _ := p.get(toks[1])
		d, _ := p.get(toks[2])
		if t == nil || d == nil {
			return simple("skip")
		}
		return simple(guard(func() error { return t.CopyTo(d) }))
	case "reshape":
		t, _ := p.get(toks[1])
		dims, err := parseInts(toks[2])
		if t == nil || err != nil {
			return simple("skip")
		}
		p.hold(dims)
		return simple(guard(func() error { return t.Reshape(dims...) }))
	case "calcS":
		t, _ := p.get(toks[1])
		sls, err := parseSlices(toks[2])
		if t == nil || err != nil {
			return simple("skip")
		}
		var sh tensor.Shape
		res := guard(func() error { x, err := t.Shape().S(sls...); sh = x; return err })
		r := simple(res)
		if res == "ok" {
			r.fields["shape"] = showInts(sh)
		}
		return r
	case "calcT":
		t, _ := p.get(toks[1])
		axes, err := parseInts(toks[2])
		if t == nil || err != nil {
			return simple("skip")
		}
		var sh tensor.Shape
		res := guard(func() error {
			ap, _, err := t.Info().T(axes...)
			if _, ok := err.(tensor.NoOpError); ok {
				err = nil
			}
			sh = ap.Shape()
			return err
		})
		r := simple(res)
		if res == "ok" {
			r.fields["shape"] = showInts(sh)
		}
		return r
	case "bin":
		return p.stepBin(toks)
	case "un":
		return p.stepUn(toks)
	case "atbox":
		t, dt := p.get(toks[1])
		if t == nil || len(toks) != 4 {
			return simple("skip")
		}
		lo, _ := strconv.Atoi(toks[2])
		hi, _ := strconv.Atoi(toks[3])
		r := newRec()
		r.dt = dt
		coords := [][]int{{}}
		for _, d := range t.Shape() {
			var next [][]int
			for _, c := range coords {
				for i := lo; i <= d+hi; i++ {
					next = append(next, append(append([]int{}, c...), i))
				}
			}
			coords = next
		}
		box := make([]interface{}, len(coords))
		for i, c := range coords {
			box[i] = atSafe(t, c)
		}
		r.vals["box"] = box
		return r
	case "iter":
		t, _ := p.get(toks[1])
		if t == nil {
			return simple("skip")
		}
		r := newRec()
		_, dt := p.get(toks[1])
		r.dt = dt
		res := guard(func() error {
			seq, offs := runIterScript(t, toks[2])
			r.fields["seq"] = seq
			raw := rawVals(t)
			cells := make([]interface{}, len(offs))
			for i, o := range offs {
				if o < 0 || o >= len(raw) {
					cells[i] = errMark("oob")
				} else {
					cells[i] = raw[o]
				}
			}
			r.vals["cells"] = cells
			return nil
		})
		if res != "ok" {
			return simple(res)
		}
		return r
	case "dump":
		t, dt := p.get(toks[1])
		if t == nil {
			return simple("skip")
		}
		return p.dump(t, dt)
	}
	return simple("badprog")
}

func runIterScript(t *tensor.Dense, script string) (string, []int) {
	it := tensor.FlatIteratorFromDense(t)
	var out []string
	var offs []int
	bound := t.Shape().TotalSize() + 3
	for _, c := range script {
		switch c {
		case 'n':
			i, err := it.Next()
			if err != nil {
				out = append(out, "E")
			} else {
				out = append(out, strconv.Itoa(i))
			}
		case 'N':
			extra := 2
			for k := 0; k < bound+3; k++ {
				i, err := it.Next()
				if err != nil {
					if extra == 0 {
						break
					}
					extra--
					out = append(out, "E")
					continue
				}
				out = append(out, fmt.Sprintf("%d@%s", i, showInts(it.Coord())))
				offs = append(offs, i)
			}
		case 's':
			i, err := it.Start()
			if err != nil {
				out = append(out, "sE")
			} else {
				out = append(out, "s"+strconv.Itoa(i))
			}
		case 'C':
			var got []string
			for i := range it.Chan() {
				got = append(got, strconv.Itoa(i))
			}
			out = append(out, "C"+strings.Join(got, ","))
		case 'L':
			got, err := it.Slice(nil)
			if _, noop := err.(tensor.NoOpError); err != nil && !noop {
				out = append(out, "LE")
			} else {
				ss := make([]string, len(got))
				for i, g := range got {
					ss[i] = strconv.Itoa(g)
				}
				// Slice(nil) hands back the exhaustion (no-op) error of its last Next together with the indices
				out = append(out, "L"+strings.Join(ss, ",")+map[bool]string{true: "!", false: ""}[err != nil])
			}
		case 'r':
			it.SetReverse()
		case 'f':
			it.SetForward()
		case 'x':
			it.Reset()
		case 'c':
			out = append(out, "c"+showInts(it.Coord()))
		case 'd':
			out = append(out, "d"+b01(it.Done()))
		default:
			out = append(out, "?")
		}
	}
	return strings.Join(out, "|"), offs
}
