import TensorModel.Ext.Hooks
import TensorModel.Ext.MinMax
/-! Registry of operation families (one import + one list entry per family). -/
namespace TM

def families : List Family := [minMaxFamily]

end TM
