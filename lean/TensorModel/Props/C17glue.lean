import TensorModel.Generated.Glue
import TensorModel.Eng
/-!
  C17 (and C06, C07, C11, C12) — the engine / method / package-function glue is one pattern per family.

  `Generated/Glue.lean` is regenerated from /repo on every run by `tools/gluex`: for every function of the families
  below, the id of its body after abstracting the operation's own name (and, as a separate column, the element-type
  class it checks). The model has ONE definition per family, parameterised by the operation
  (`engArithVV`, `engArithScalar`, `engCmpVV`, `engCmpScalar`, `engUnary`, `engMMVV`, `engMMScalar`, `stepBin`'s
  dispatch for the package functions / methods); these theorems are what entitles it to.
-/
namespace TM.C17glue
open TM.Gen

/-- the families and their members as the model assumes them (hand-written expectation) -/
def expected : List (String × List String) := [
  ("eng.arith.vv", ["Add", "Sub", "Mul", "Div", "Pow", "Mod"]),
  ("eng.arith.scalar", ["AddScalar", "SubScalar", "MulScalar", "DivScalar", "PowScalar", "ModScalar"]),
  ("eng.cmp.ord.vv", ["Gt", "Gte", "Lt", "Lte"]),
  ("eng.cmp.eq.vv", ["ElEq", "ElNe"]),
  ("eng.cmp.ord.scalar", ["GtScalar", "GteScalar", "LtScalar", "LteScalar"]),
  ("eng.cmp.eq.scalar", ["EqScalar", "NeScalar"]),
  ("eng.unary", ["Neg", "Inv", "Square", "Cube", "Exp", "Tanh", "Log", "Log2", "Log10", "Sqrt", "Cbrt", "InvSqrt", "Abs", "Sign"]),
  ("eng.minmax.vv", ["MinBetween", "MaxBetween"]),
  ("eng.minmax.scalar", ["MinBetweenScalar", "MaxBetweenScalar"]),
  ("dense.arith.vv", ["Add", "Sub", "Mul", "Div", "Pow", "Mod"]),
  ("dense.arith.scalar", ["AddScalar", "SubScalar", "MulScalar", "DivScalar", "PowScalar", "ModScalar"]),
  ("dense.cmp.vv", ["Gt", "Gte", "Lt", "Lte", "ElEq", "ElNe"]),
  ("dense.cmp.scalar", ["GtScalar", "GteScalar", "LtScalar", "LteScalar", "ElEqScalar", "ElNeScalar"]),
  ("api.arith", ["Add", "Sub", "Mul", "Div", "Pow", "Mod"]),
  ("api.cmp", ["Gt", "Gte", "Lt", "Lte", "ElEq", "ElNe"]),
  ("api.unary", ["Neg", "Inv", "Square", "Cube", "Exp", "Tanh", "Log", "Log2", "Log10", "Sqrt", "Cbrt", "InvSqrt", "Abs", "Sign"]),
  ("api.minmax", ["MinBetween", "MaxBetween"]) ]

def members (fam : String) : List String := (glueTable.filter (·.1 == fam)).map (·.2.1)

def sameSet (a b : List String) : Bool := a.all b.contains && b.all a.contains && a.length == b.length

/-- every function the model assumes exists in the source, in its family, and the source has no further member -/
theorem glue_complete : glueMissing = [] ∧ (∀ e ∈ expected, sameSet (members e.1) e.2 = true) ∧
    glueTable.length = (expected.map (·.2.length)).sum := by decide +kernel

def uniformB : Bool :=
  glueTable.all (fun r => glueTable.all (fun r' => r.1 != r'.1 || r.2.2.2 == r'.2.2.2))

theorem glue_uniformB : uniformB = true := by decide +kernel

/-- **One pattern per family**: two functions of the same family have the same body once the operation's name (and
    the element-type class) is abstracted — `StdEng.Mod` is `StdEng.Add` with `Mod` for `Add`, `LteScalar` is
    `GtScalar` with `Lte`/`Gte` for `Gt`/`Lt`, `tensor.ElNe` is `tensor.Gt`, … -/
theorem glue_uniform (r r' : String × String × String × Nat) (h : r ∈ glueTable) (h' : r' ∈ glueTable)
    (hf : r.1 = r'.1) : r.2.2.2 = r'.2.2.2 := by
  have hu := glue_uniformB
  unfold uniformB at hu
  rw [List.all_eq_true] at hu
  have h1 := hu r h
  rw [List.all_eq_true] at h1
  have h2 := h1 r' h'
  simp only [Bool.or_eq_true, bne_iff_ne, ne_eq, beq_iff_eq] at h2
  rcases h2 with h2 | h2
  · exact absurd hf h2
  · exact h2

/-- the element-type class of a function of the table -/
def classOf (fam fn : String) : Option String :=
  (glueTable.find? (fun r => r.1 == fam && r.2.1 == fn)).map (·.2.2.1)

def className (tc : List String) : String :=
  if tc == numberTypes then "numberTypes" else if tc == ordTypes then "ordTypes" else if tc == eqTypes then "eqTypes"
  else if tc == signedTypes then "signedTypes" else if tc == floatTypes then "floatTypes"
  else if tc == floatcmplxTypes then "floatcmplxTypes" else if tc == nonComplexNumberTypes then "nonComplexNumberTypes" else "?"

def capFirst (s : String) : String :=
  match s.toList with
  | c :: cs => String.ofList (c.toUpper :: cs)
  | [] => s

/-- source name of the model's unary operation -/
def unaryName (op : String) : String :=
  match op with
  | "invsqrt" => "InvSqrt"
  | _ => capFirst op

/-- **The model's table of admissible element types per unary operation is the source's**: for every generated unary
    engine method, the class the model checks (`unaryClasses`) is the class named in the method's `unaryCheck`. -/
theorem unary_classes_agree :
    ∀ e ∈ unaryClasses, e.1 = "clamp" ∨ classOf "eng.unary" (unaryName e.1) = some (className e.2.1) := by
  decide +kernel

/-- arithmetic checks `numberTypes`, ordered comparisons and elementwise min/max `ordTypes`, (in)equality `eqTypes` -/
theorem binary_classes :
    (∀ r ∈ glueTable, (r.1 = "eng.arith.vv" ∨ r.1 = "eng.arith.scalar") → r.2.2.1 = "numberTypes") ∧
    (∀ r ∈ glueTable, (r.1 = "eng.cmp.ord.vv" ∨ r.1 = "eng.cmp.ord.scalar" ∨ r.1 = "eng.minmax.vv" ∨ r.1 = "eng.minmax.scalar") →
      r.2.2.1 = "ordTypes") ∧
    (∀ r ∈ glueTable, (r.1 = "eng.cmp.eq.vv" ∨ r.1 = "eng.cmp.eq.scalar") → r.2.2.1 = "eqTypes") := by
  decide +kernel

-- non-vacuity: the table is not empty and the families have the sizes the model assumes
example : glueTable.length = 94 := by decide
example : members "eng.arith.vv" = ["Add", "Sub", "Mul", "Div", "Pow", "Mod"] := by decide

end TM.C17glue
