module gluex

go 1.18
