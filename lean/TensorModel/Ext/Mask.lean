import TensorModel.Ext.Hooks
/-!
  Family **Mask** (property C15): masking predicates, mask inspection, filling, masked iteration.

  M mirrors `dense_maskcmp_methods.go` (generated predicates), the mask plumbing of `dense.go`
  (`makeMask`, `IsMasked`, `HardenMask`/`SoftenMask`, `addMask` through `WithBacking(b, mask)`),
  `dense_mask_inspection.go`, `dense_mask_filling.go` and the masked iterator of `iterator.go`.

  Route chosen for predicate results (documented in the family report): the mask heap of M stays
  *concrete* (`St.mheap : Array (Array Bool)`). A predicate compares raw cells with literals; M decides
  it for cells whose value is known under value set 0 (`s<b>.<o>` = 1+o+37·b, `#k<n>` = n,
  `#w<n>` = 101+3n, `z` = 0; wrapped to the element type) — that keeps every later inspection /
  iteration / arithmetic step of the same program decidable. In addition the step prints the new mask
  as boolean *terms* (`maskt=`, `lmaskt=`) which the harness evaluates with Go's own comparison on
  the real inputs, so programs run under other value sets (NaN, extremes, ties) are checked as well
  as long as they stop observing the mask after the predicate.

  S keeps, per storage root, a trailer of mask cells behind the data cells of the root buffer
  (`cells ++ maskcells ++ [marker]`): the mask is attached to the abstract *cells*, hence follows
  the elements through slicing and (lazy or physical) transposition by construction.
  A root without trailer has an unknown mask: S is silent about it.

  Steps (see `stepM` / `stepS`; Go side `tools/harness/ext_mask.go`):
    `mnew <dt> <shape> <C|Fraw> <bits|->`        New(WithShape, WithBacking(b, mask)); bits in storage order
    `harden $a` / `soften $a`                   HardenMask / SoftenMask
    `mpred <eq|ne|gt|gte|lt|lte|inside|outside|values> $a <soft|hard|dflt> #lit…`
    `mq <count|ncount|any|all> $a [axis]`       MaskedCount / NonMaskedCount / MaskedAny / MaskedAll
    `mruns <contig|notcontig|clump|clumpun|edges|notedges> $a`
    `filled $a <#lit|dflt> <copy|inplace>`      Filled / FilledInplace
    `miter $a <script>`                         IteratorFromDense: n v i y (Next, NextValid, NextInvalid,
                                                NextValidity), V I Y (to exhaustion), r f x c d
    `mdump $a [$op…]`                           dump + soft flag + `lmask` (MaskAt at every coordinate) +
                                                `velems` (elements, `?` where a listed operand is masked)
    `mmat $a`, `mtranspose $a`, `mapply $a [opts]`   Materialize / Transpose / Apply on masked tensors
-/
namespace TM
namespace Mask

/-! ## helpers -/

def parseBits (s : String) : Option (List Bool) :=
  s.toList.mapM (fun c => if c == '1' then some true else if c == '0' then some false else none)

def bitLit (b : Bool) : Val := .lit (if b then "k1:b" else "k0:b")

def showPairs (l : List (Int × Int)) : String :=
  if l.isEmpty then "-" else String.intercalate "," (l.map (fun (a, b) => s!"{a}:{b}"))

/-- all mask bits of a window -/
def maskBits (s : St) (m : Win) : Res (List Bool) := (rangeI m.len).mapM (fun i => s.mget m i)

def memsetMask (s : St) (m : Win) (v : Bool) : Res St :=
  (rangeI m.len).foldlM (fun s i => s.mset m i v) s

/-- the size `makeMask()` gives the mask: one entry per cell of the data window once the data exists
    (`t.array.Header.Raw != nil`: `size = t.len()`, what `IsMasked` compares with), the size of the shape before
    (the half-built tensor of `New(…)`; a data window of length 0 stands for "no data yet"). -/
def maskSize (t : Dense) : Nat := if t.win.len == 0 then (totalSize t.shape).toNat else t.win.len

/-- `makeMask()`: size is `maskSize`; an existing slice is re-sliced when its capacity
    suffices, otherwise a new one is made; then cleared. -/
def makeMask (s : St) (t : Dense) : Res (St × Dense) := do
  let size := maskSize t
  match t.mask with
  | none =>
    if size == 0 then pure (s, t) else
    let (s, b) := s.allocMask (Array.replicate size false)
    pure (s, { t with mask := some ⟨b, 0, size, size⟩ })
  | some m0 =>
    let m1 : Win := if m0.len ≥ size then { m0 with len := size } else m0
    if m1.cap < size then
      let (s, b) := s.allocMask (Array.replicate size false)
      pure (s, { t with mask := some ⟨b, 0, size, size⟩ })
    else
      let m2 : Win := { m1 with len := size }
      let s ← memsetMask s m2 false
      pure (s, { t with mask := some m2 })

/-! ## pure kernels (the loops of the Go code over plain lists; the subject of Props/C15.lean) -/

/-- the soft / hard template of every generated predicate: `ps` are the predicate values of the raw
    cells, `ms` the mask; entries of the mask behind the data are kept. -/
def predKernel (soft : Bool) : List Bool → List Bool → List Bool
  | p :: ps, m :: ms => (if soft then p else m || p) :: predKernel soft ps ms
  | _, ms => ms

/-- the offset stream of a masked iterator: storage offsets in iteration order, each with its mask bit -/
abbrev VS := List (Int × Bool)

/-- one `NextValid` (`want = false`) / `NextInvalid` (`want = true`) call on the remaining stream:
    (offset, elements consumed, remaining stream); `none` = exhausted -/
def scanS (want : Bool) : VS → Nat → Option (Int × Nat × VS)
  | [], _ => none
  | (i, b) :: rest, c => if b == want then some (i, c + 1, rest) else scanS want rest (c + 1)

/-- repeated `NextValid` / `NextInvalid` to exhaustion: (offset, skip count) of every success -/
def enumS (want : Bool) : VS → Nat → List (Int × Nat)
  | [], _ => []
  | (i, b) :: rest, c => if b == want then (i, c + 1) :: enumS want rest 0 else enumS want rest (c + 1)

/-- `scanS` without the skip count: (offset, remaining stream) -/
def findS (want : Bool) : VS → Option (Int × VS)
  | [] => none
  | (i, b) :: rest => if b == want then some (i, rest) else findS want rest

/-- `FlatNotMaskedContiguous` (`want = false`) / `FlatMaskedContiguous` (`want = true`):
    `for start := next(want); ok; start = next(want) { end := next(!want); if none { end = size } … }` -/
def runsS (want : Bool) (size : Int) : Nat → VS → List (Int × Int)
  | 0, _ => []
  | fuel + 1, vs =>
    match findS want vs with
    | none => []
    | some (start, rest) =>
      match findS (!want) rest with
      | none => [(start, size)]
      | some (e, rest') => (start, e) :: runsS want size fuel rest'

def countTrue (l : List Bool) : Nat := (l.filter id).length

/-- write a whole mask window -/
def writeMask (s : St) (m : Win) (bits : List Bool) : Res St :=
  (bits.zip (rangeI m.len)).foldlM (fun s (v, j) => s.mset m j v) s

/-! ## values known to the model (value set 0) -/

def wrapInt (dt : String) (v : Int) : Int :=
  let w (bits : Nat) (signed : Bool) : Int :=
    let m : Int := (2 : Int) ^ bits
    let r := v % m
    if signed && r ≥ m / 2 then r - m else r
  match dt with
  | "i8" => w 8 true | "i16" => w 16 true | "i32" => w 32 true | "i64" => w 64 true | "i" => w 64 true
  | "u8" => w 8 false | "u16" => w 16 false | "u32" => w 32 false | "u64" => w 64 false | "u" => w 64 false
  | "b" => v % 2
  | _ => v

def litInt (x : String) : Option Int :=
  if x.startsWith "k" then (x.drop 1).toString.toInt?
  else if x.startsWith "w" then ((x.drop 1).toString.toInt?).map (fun n => 101 + n * 3)
  else none

def knownInt : Val → Option Int
  | .src b o => some (1 + (o : Int) + 37 * (b : Int))
  | .zero => some 0
  | .lit s => match s.splitOn ":" with
    | [x, _] => litInt x
    | [x] => litInt x
    | _ => none
  | _ => none

inductive KV where
  | num (v : Int)
  | str (s : String)
deriving Repr, DecidableEq

def known (dt : String) (v : Val) : Option KV :=
  match knownInt v with
  | none => none
  | some n =>
    if dt == "str" then (match v with | .zero => some (.str "") | _ => some (.str s!"s{n}"))
    else some (.num (wrapInt dt n))

def KV.lt : KV → KV → Bool
  | .num a, .num b => decide (a < b)
  | .str a, .str b => decide (a < b)
  | _, _ => false
def KV.le (a b : KV) : Bool := a.lt b || a == b
def KV.absDiff : KV → KV → Int
  | .num a, .num b => (a - b).natAbs
  | _, _ => 0
def KV.toInt : KV → Int | .num a => a | _ => 0

/-- the predicate of `Masked<Op>` on known values -/
def predHolds (op : String) (a : KV) (ls : List KV) : Bool :=
  match op, ls with
  | "eq", [x] => a == x
  | "ne", [x] => !(a == x)
  | "gt", [x] => x.lt a
  | "gte", [x] => x.le a
  | "lt", [x] => a.lt x
  | "lte", [x] => a.le x
  | "inside", [x, y] => x.le a && a.le y
  | "outside", [x, y] => a.lt x || y.lt a
  | "values", [x, _] => a == x                                     -- |a-x| ≤ 1e-8 on integers
  | "values", [x, y, z] => decide (a.absDiff x ≤ z.toInt + y.toInt * (x.toInt.natAbs : Int))
  | _, _ => false

/-- the same predicate as a term for the harness (Go's own comparison on the real values) -/
def predTerm (op : String) (a : Val) (ls : List Val) : Val :=
  match op, ls with
  | "inside", [x, y] => .app2 "and" (.app2 "gte" a x) (.app2 "lte" a y)
  | "outside", [x, y] => .app2 "or" (.app2 "lt" a x) (.app2 "gt" a y)
  | "values", [x, _] => .app2 "mvalues" a x
  | "values", [x, y, z] => .app3 "mvalues3" a x (.app2 "pair" y z)
  | _, [x] => .app2 op a x
  | _, _ => .lit "k0:b"

def predArity : String → Option (Nat × Nat)
  | "eq" | "ne" | "gt" | "gte" | "lt" | "lte" => some (1, 1)
  | "inside" | "outside" => some (2, 2)
  | "values" => some (2, 3)
  | _ => none

/-- element types the generated type switch has a case for -/
def predTypes (op : String) : List String := if op == "values" then floatTypes else ordTypes

/-- predicate value of every raw cell (decided on known values), with a "was known" flag -/
def predVals (op dt : String) (lv : List Val) (cells : List Val) : List (Bool × Bool) :=
  cells.map (fun a => match known dt a, (lv.map (known dt)).mapM id with
    | some ka, some ks => (predHolds op ka ks, true)
    | _, _ => (false, false))

structure PredOut where
  st : St
  t : Dense
  terms : List Val      -- the whole mask after the call, as terms
  allKnown : Bool

/-- `t.Masked<Op>(lits...)`; a literal is (token, element type) -/
def maskPred (s : St) (t : Dense) (op : String) (lits : List (String × String)) : Res PredOut := do
  if op == "values" && !(floatTypes.contains t.dt) then throwErr "MaskedValues: floating point types only"
  -- `typeclassCheck(t.t, ordTypes)` of every other predicate: an element type the type switch has no arm for
  -- (bool, complex, uintptr, …) is refused before the mask is touched. (The `default:` arm of the switch says the
  -- same for types registered as ordered by the caller; no such type exists in the model.)
  if !(predTypes op).contains t.dt then throwErr "unsupportedDtype"
  let (s, t) ← (if !t.isMasked then makeMask s t else pure (s, t) : Res (St × Dense))
  match t.mask with
  | none => pure { st := s, t := t, terms := [], allKnown := true }
  | some m =>
    if lits.any (fun l => l.2 != t.dt) then throwPanic "interface conversion (literal of another type)"
    let lv := lits.map (fun l => Val.lit s!"{l.1}:{l.2}")
    let soft := t.maskSoft
    let cells ← t.rawCells s
    let bits ← maskBits s m
    -- `mask[i]` for every `i < len(data)`
    if bits.length < cells.length then throwPanic "mask[i]: index out of range" else
    let pv := predVals op t.dt lv cells
    let newBits := predKernel soft (pv.map (·.1)) bits
    let s ← writeMask s m newBits
    let pts := cells.map (fun a => predTerm op a lv)
    let head := List.zipWith (fun pt (old : Bool) => if soft then pt else Val.app2 "or" (bitLit old) pt) pts bits
    pure { st := s, t := t, terms := head ++ (bits.drop cells.length).map bitLit, allKnown := pv.all (·.2) }

/-- `MaskAt(coords...)` for every coordinate, on a list of per-cell mask entries -/
def logicalOf {α} (t : Dense) (cells : List α) (dflt : α) (showA : α → String) : String :=
  let cs := allCoords t.shape
  if cs.isEmpty then "-" else
  String.intercalate "," (cs.map (fun c =>
    if !t.isMasked then showA dflt else
    match ltoi t.shape t.strides c with
    | .ok i => (match getI? cells i with | some x => showA x | none => "panic")
    | .error (.err _) => "err"
    | .error (.panic _) => "panic"))

/-- logical mask bits by `MaskAt` -/
def lmaskStr (s : St) (t : Dense) : String :=
  match t.mask with
  | some m => (match maskBits s m with
    | .ok bits => logicalOf t (bits.map bitLit) (bitLit false) Val.toStr
    | .error _ => "panic")
  | none => logicalOf t ([] : List Val) (bitLit false) Val.toStr

/-! ## masked iterator -/

structure MIt where
  it : FlatIt
  mask : Option Win        -- `none`: plain `FlatIterator` (tensor not masked, or empty mask)
deriving Inhabited

/-- `IteratorFromDense(t)` -/
def iterFromDense (t : Dense) : MIt :=
  { it := FlatIt.new t.ap,
    mask := if t.isMasked then (match t.mask with | some m => if m.len == 0 then none else some m | none => none) else none }

structure ItRes where
  it : MIt
  idx : Int
  skip : Int
  ok : Bool

/-- the scanning loop shared by the masked `NextValid` (`want = false`) and `NextInvalid` (`want = true`) -/
def scanMask (s : St) (m : Win) (want : Bool) : Nat → FlatIt → Int → Res (FlatIt × Int × Int × Bool)
  | 0, it, c => pure (it, -1, c, false)
  | fuel + 1, it, c =>
    match it.next with
    | (it', none) => pure (it', -1, c, false)
    | (it', some i) => do
      let b ← s.mget m i
      if b == want then pure (it', i, c + 1, true) else scanMask s m want fuel it' (c + 1)

def MIt.fuel (it : MIt) : Nat := it.it.size.toNat + 2

def MIt.nextValid (s : St) (it : MIt) : Res ItRes :=
  match it.mask with
  | some m => do
    let (f, i, c, ok) ← scanMask s m false it.fuel it.it 0
    pure ⟨{ it with it := f }, i, (if it.it.reverse then -c else c), ok⟩
  | none =>
    let f := it.it
    if f.done then pure ⟨it, -1, 1, false⟩
    else if f.isScalar then pure ⟨{ it with it := { f with done := true } }, 0, (if f.reverse then -1 else 1), true⟩
    else match f.next with
      | (f', some i) => pure ⟨{ it with it := f' }, i, (if f.reverse then -1 else 1), true⟩
      | (f', none) => pure ⟨{ it with it := f' }, -1, 1, false⟩

def MIt.nextInvalid (s : St) (it : MIt) : Res ItRes :=
  match it.mask with
  | some m => do
    let (f, i, c, ok) ← scanMask s m true it.fuel it.it 0
    pure ⟨{ it with it := f }, i, (if it.it.reverse then -c else c), ok⟩
  | none =>
    -- no invalid element: `it.done = true`, the skip count is the distance to the end
    let f := it.it
    pure ⟨{ it with it := { f with done := true } }, -1, (if f.reverse then -f.lastIndex else f.size - f.lastIndex), false⟩

/-- `NextValidity`: (iterator, offset, valid); `none` = exhausted -/
def MIt.nextValidity (s : St) (it : MIt) : Res (MIt × Option (Int × Bool)) :=
  match it.it.next with
  | (f, none) => pure ({ it with it := f }, none)
  | (f, some i) =>
    match it.mask with
    | none => pure ({ it with it := f }, some (i, true))
    | some m => do pure ({ it with it := f }, some (i, !(← s.mget m i)))

/-- the offset stream of `IteratorFromDense(t)` for a masked tensor, run forward from the start -/
def maskStream (s : St) (t : Dense) (m : Win) : Res VS :=
  t.offsets.mapM (fun i => do pure (i, ← s.mget m i))

/-! ## inspection -/

/-- `doMaskCt` -/
def doMaskCt (s : St) (t : Dense) : Res Int := do
  if !t.isMasked then return 0
  match t.mask with
  | none => return 0
  | some m =>
    if (m.len : Int) == t.size then return countTrue (← maskBits s m)
    else
      -- `for _, _, err := it.NextInvalid(); err == nil; … { count++ }`
      return (enumS true (← maskStream s t m) 0).length

/-- `doMaskAll` -/
def doMaskAll (s : St) (t : Dense) : Res Bool := do
  if !t.isMasked then return false
  match t.mask with
  | none => return false
  | some m =>
    if (m.len : Int) == t.size then return (← maskBits s m).all id
    else return (scanS false (← maskStream s t m) 0).isNone   -- `NextValid` finds nothing

/-- `doMaskAny` -/
def doMaskAny (s : St) (t : Dense) : Res Bool := do
  if !t.isMasked then return false
  match t.mask with
  | none => return false
  | some m =>
    if (m.len : Int) == t.size then return (← maskBits s m).any id
    else return (scanS true (← maskStream s t m) 0).isSome    -- `NextInvalid` finds something

def b2i (b : Bool) : Int := if b then 1 else 0

/-- the reduction function applied to the whole tensor or to one lane -/
def maskFn (s : St) (kind : String) (t : Dense) : Res Int := do
  match kind with
  | "count" => doMaskCt s t
  | "ncount" => if !t.isMasked then pure t.size else do pure (t.size - (← doMaskCt s t))
  | "any" => do pure (b2i (← doMaskAny s t))
  | "all" => do pure (b2i (← doMaskAll s t))
  | _ => throwPanic "unknown query"

inductive QRes where
  | scalar (v : Int)
  | arr (shape : Shape) (vals : List Int)

def listSet {α} (l : List α) (i : Nat) (v : α) : List α := l.set i v

/-- `MaskedReduce(t, retType, fn, axis...)` -/
def maskedReduce (s : St) (t : Dense) (kind : String) (axis : List Int) : Res QRes := do
  match axis with
  | [] => return .scalar (← maskFn s kind t)
  | ax :: _ =>
    if isVector t.shape then return .scalar (← maskFn s kind t)
    if ax ≥ t.dims then return .scalar (-1)
    if ax < 0 then throwPanic "slices[ax]: index out of range"
    let axn := ax.toNat
    -- the result shape is the shape without the axis
    let rshape := t.shape.eraseIdx axn
    let rstrides := calcStrides rshape
    let n := if rshape.isEmpty then 1 else (totalSize rshape).toNat
    let axd ← idx t.shape ax "t.shape[ax]"
    let it0 := FlatIt.new { shape := rshape, strides := rstrides, fin := true }
    let rec loop (fuel : Nat) (it : FlatIt) (ret : List Int) : Res (List Int) :=
      match fuel with
      | 0 => pure ret
      | fuel + 1 =>
        -- `copy(coord, it.Coord())` before `it.Next()`: the coordinates of the element `Next` returns
        let coord := it.track
        match it.next with
        | (_, none) => pure ret
        | (it', some _) => do
          -- slices[d] = makeRS(coord[k], coord[k]+1) for d ≠ ax; `slices[ax]` was set to the full
          -- range before the loop and becomes nil inside it
          let rec build (d k : Nat) (n : Nat) (acc : List (Option Sl)) : Res (List (Option Sl)) :=
            match n with
            | 0 => pure acc.reverse
            | n + 1 =>
              if d == axn then build (d + 1) k n (none :: acc)
              else do
                let c ← idx coord (Int.ofNat k) "coord[k]"
                build (d + 1) (k + 1) n (some ⟨c, c + 1, 1⟩ :: acc)
          let sls ← build 0 0 t.dims []
          let lane ← (match t.slice sls with
            | .ok v => pure v
            | .error _ => throwPanic "interface conversion: tensor.View is nil" : Res Dense)
          let v ← maskFn s kind lane
          -- `retVal.SetAt(fn(ts), coord...)`: the error is dropped
          let ret := if coord.length != rshape.length then ret else
            match ltoi rshape rstrides coord with
            | .ok i => if i < 0 then ret else ret.set i.toNat v
            | .error _ => ret
          loop fuel it' ret
    let _ := axd
    let vals ← loop (n + 2) it0 (List.replicate n 0)
    return .arr rshape vals

def QRes.show : QRes → String
  | .scalar v => s!"q={v} qshape=s"
  | .arr sh vals => s!"q={showInts vals} qshape={showInts sh}"

/-- the finders on a tensor without mask: `IteratorFromDense` is a plain `FlatIterator`, whose
    `NextInvalid` finds nothing and exhausts the iterator -/
def flatRunsPlain (s : St) (t : Dense) (masked : Bool) : Res (List (Int × Int)) := do
  let size := t.size
  let rec loop (fuel : Nat) (it : MIt) (acc : List (Int × Int)) : Res (List (Int × Int)) :=
    match fuel with
    | 0 => pure acc.reverse
    | fuel + 1 => do
      let r ← (if masked then it.nextInvalid s else it.nextValid s)
      if !r.ok then pure acc.reverse else
      let e ← (if masked then r.it.nextValid s else r.it.nextInvalid s)
      let stop := if e.idx == -1 then size else e.idx
      loop fuel e.it ((r.idx, stop) :: acc)
  loop (size.toNat + 2) (iterFromDense t) []

/-- `FlatNotMaskedContiguous` (`masked = false`) / `FlatMaskedContiguous` (`masked = true`) -/
def flatRuns (s : St) (t : Dense) (masked : Bool) : Res (List (Int × Int)) := do
  match (iterFromDense t).mask with
  | none => flatRunsPlain s t masked
  | some m =>
    let vs ← maskStream s t m
    pure (runsS masked t.size (vs.length + 1) vs)

/-- `FlatNotMaskedEdges` (`masked = false`) / `FlatMaskedEdges` (`masked = true`) -/
def flatEdges (s : St) (t : Dense) (masked : Bool) : Res (Int × Int) := do
  if !t.isMasked then return (if masked then (-1, -1) else (0, t.size - 1))
  let it := iterFromDense t
  let it : MIt := { it with it := (← it.it.setForward) }
  let a ← (if masked then it.nextInvalid s else it.nextValid s)
  if !a.ok then return (-1, -1)
  let it : MIt := { a.it with it := (← a.it.it.setReverse) }
  let b ← (if masked then it.nextInvalid s else it.nextValid s)
  return (a.idx, b.idx)

/-! ## filling -/

def fillDefault : Val := .app1 "fillv" .zero

/-- the fill loop of `Filled` / `FilledInplace` on tensor `tc`: scalars test `mask[0]`, every other
    shape (row and column vectors included) walks `NextInvalid` -/
def fillLoop (s : St) (tc : Dense) (v : Val) : Res St := do
  if isScalar tc.shape then
    match tc.mask with
    | some m => if (← s.mget m 0) then s.set tc.win 0 v else pure s
    | none => throwPanic "mask[0]"
  else
    -- `for i, _, err := it.NextInvalid(); err == nil; … { tc.Set(i, fillval) }`
    match (iterFromDense tc).mask with
    | none => pure s
    | some m => do
      let vs ← maskStream s tc m
      (enumS true vs 0).foldlM (fun s (i, _) => s.set tc.win i v) s

/-- `Filled(val...)`: a clone with the masked data replaced -/
def filled (s : St) (t : Dense) (v : Val) : Res (St × Dense) := do
  let (s, tc) ← t.clone s
  if !t.isMasked then return (s, tc)
  let s ← fillLoop s tc v
  pure (s, tc)

/-- `FilledInplace(val...)` -/
def filledInplace (s : St) (t : Dense) (v : Val) : Res St := do
  if !t.isMasked then return s
  fillLoop s t v

/-! ## iteration scripts -/

structure ScriptOut where
  seq : List String := []
  offs : List Int := []       -- offsets returned by successful v / i calls (cells are read there)
  skips : List Int := []
  valid : List Bool := []
  voffs : List Int := []      -- offsets of the y calls

def runMIterScript (s : St) (t : Dense) (script : String) : Res ScriptOut := do
  let bound := t.size.toNat + 3
  let callV (inv : Bool) (it : MIt) (o : ScriptOut) : Res (MIt × ScriptOut × Bool) := do
    let r ← (if inv then it.nextInvalid s else it.nextValid s)
    let tag := if inv then "i" else "v"
    let o := { o with seq := s!"{tag}{r.idx}/{r.skip}" :: o.seq }
    if r.ok then pure (r.it, { o with offs := r.idx :: o.offs, skips := r.skip :: o.skips }, true)
    else pure (r.it, o, false)
  let callY (it : MIt) (o : ScriptOut) : Res (MIt × ScriptOut × Bool) := do
    match ← it.nextValidity s with
    | (it, none) => pure (it, { o with seq := "E" :: o.seq }, false)
    | (it, some (i, v)) =>
      pure (it, { o with seq := s!"{i}{if v then "+" else "-"}" :: o.seq, valid := v :: o.valid, voffs := i :: o.voffs }, true)
  let rec rep (fuel : Nat) (f : MIt → ScriptOut → Res (MIt × ScriptOut × Bool)) (it : MIt) (o : ScriptOut) :
      Res (MIt × ScriptOut) :=
    match fuel with
    | 0 => pure (it, o)
    | fuel + 1 => do
      let (it, o, ok) ← f it o
      if ok then rep fuel f it o else pure (it, o)
  let (_, o) ← script.toList.foldlM (fun (acc : MIt × ScriptOut) c => do
    let (it, o) := acc
    match c with
    | 'n' => match it.it.next with
      | (f, some i) => pure ({ it with it := f }, { o with seq := s!"{i}" :: o.seq })
      | (f, none) => pure ({ it with it := f }, { o with seq := "E" :: o.seq })
    | 'v' => do let (it, o, _) ← callV false it o; pure (it, o)
    | 'i' => do let (it, o, _) ← callV true it o; pure (it, o)
    | 'y' => do let (it, o, _) ← callY it o; pure (it, o)
    | 'V' => rep bound (callV false) it o
    | 'I' => rep bound (callV true) it o
    | 'Y' => rep bound callY it o
    | 'r' => do pure ({ it with it := (← it.it.setReverse) }, o)
    | 'f' => do pure ({ it with it := (← it.it.setForward) }, o)
    | 'x' => do pure ({ it with it := (← it.it.reset) }, o)
    | 'c' => pure (it, { o with seq := s!"c{showInts it.it.track}" :: o.seq })
    | 'd' => pure (it, { o with seq := (if it.it.done then "d1" else "d0") :: o.seq })
    | _ => pure (it, { o with seq := "?" :: o.seq })) (iterFromDense t, {})
  pure { o with seq := o.seq.reverse, offs := o.offs.reverse, skips := o.skips.reverse, valid := o.valid.reverse, voffs := o.voffs.reverse }

def cellsAt (s : St) (t : Dense) (offs : List Int) : String :=
  if offs.isEmpty then "-" else
  String.intercalate "," (offs.map (fun i => match s.get t.win i with | .ok v => v.toStr | .error _ => "oob"))

/-- `StdEng.transposeMask`: `tmp := make([]bool, len(orig))`, gather along the iterator, then
    `copy(orig, tmp)` — the *whole* mask window is overwritten, so on a view (window longer than the
    size) the entries behind the gathered ones are cleared. -/
def transposeMask (s : St) (t : Dense) : Res St := do
  match t.mask with
  | none => pure s
  | some m =>
    if !t.isMasked then pure s else
    let offs := t.offsets
    let vals ← offs.mapM (fun i => s.mget m i)
    if vals.length > m.len then throwPanic "tmp[j]: index out of range" else
    writeMask s m (vals ++ List.replicate (m.len - vals.length) false)

/-- `(*Dense).Transpose()` as `Dense.transpose`: `denseTranspose` calls `transposeMask` for every
    element type, then gathers the data. -/
def transposeM (s : St) (t : Dense) : Res (St × Dense) := do
  match t.old with
  | none => pure (s, t)
  | some _ =>
    if isScalar t.shape then pure (s, t) else
    let exp := Dense.defaultStrides t.ap.o.col t.shape
    let done : Dense := { t with ap := { t.ap with strides := Dense.copyPrefix t.ap.strides exp }, old := none, tw := none }
    if isVector t.shape then pure (s, done) else
    let s ← transposeMask s t
    let s ← Dense.gatherCopy s t
    pure (s, done)

/-! ## M steps -/

def resLine {α} (r : Res α) (f : α → String) : StepOut :=
  match r with
  | .ok a => .fields (f a)
  | .error (.err _) => .fields "r=err"
  | .error (.panic _) => .stop "r=panic"

/-- `MaskAt(coords...)` -/
def maskAt (s : St) (t : Dense) (c : List Int) : Res Bool := do
  if !t.isMasked then return false
  if c.length != t.dims then throwErr "dimMismatch"
  let i ← ltoi t.shape t.strides c
  match t.mask with
  | some m => s.mget m i
  | none => throwPanic "mask[at]"

/-- validity (by `MaskAt`) of every coordinate of `sh` in all the listed tensors; `none` when a
    listed tensor has another shape -/
def validAll (st : St) (sh : Shape) (ops : List Dense) : Option (List Bool) :=
  if ops.any (fun d => d.shape != sh) then none else
  some ((allCoords sh).map (fun c => ops.all (fun d =>
    match maskAt st d c with | .ok b => !b | .error _ => false)))

def velemsStr (st : St) (t : Dense) (ops : List Dense) : Option String :=
  match validAll st t.shape ops with
  | none => none
  | some vs =>
    let cs := allCoords t.shape
    some (if cs.isEmpty then "-" else String.intercalate "," ((cs.zip vs).map (fun (c, v) =>
      if v then showRes (t.at_ st c) Val.toStr else "?")))

def parseLit (dflt : String) (tok : String) : Option (String × String) :=
  if !tok.startsWith "#" then none else
  match ((tok.drop 1).toString.splitOn ":") with
  | [l] => some (l, dflt)
  | [l, d] => some (l, d)
  | _ => none

def stepM (ps : PState) (_stepIdx : Nat) (toks : List String) : PState × StepOut :=
  match toks with
  | ["mnew", dt, shape, order, bits] =>
    let mb : Option (Option (List Bool)) := if bits == "-" then some none else (parseBits bits).map some
    match parseIntList shape, mb with
    | some sh, some mb =>
      if order != "C" && order != "Fraw" then (ps.failVar, .fields "r=badprog") else
      let n := (totalSize sh).toNat
      let bid := ps.nnew
      let ps := { ps with nnew := ps.nnew + 1 }
      let cells : Array Val := (Array.range n).map (fun i => Val.src bid i)
      finishNew ps (do
        -- `WithBacking(b, mask)`: `addMask` panics on a length mismatch
        match mb with
        | some b => if b.length > 0 && b.length != n then throwPanic "Mask is not same length as data"
        | none => pure ()
        let (st, d) ← Dense.newRow ps.st dt sh cells
        let d := if order == "Fraw" then
            { d with ap := { d.ap with strides := calcStridesCol sh, o := { d.ap.o with col := true } } } else d
        match mb with
        | none => pure (st, d)
        | some b =>
          let (st, mbuf) := st.allocMask b.toArray
          pure (st, { d with mask := some ⟨mbuf, 0, b.length, b.length⟩ }))
    | _, _ => (ps.failVar, .fields "r=badprog")
  | ["harden", v] =>
    match ps.obj v with
    | some (id, t) => (ps.setObj id { t with maskSoft := false }, .fields "r=ok")
    | none => (ps, .fields "r=skip")
  | ["soften", v] =>
    match ps.obj v with
    | some (id, t) => (ps.setObj id { t with maskSoft := true }, .fields "r=ok")
    | none => (ps, .fields "r=skip")
  | "mpred" :: op :: v :: mode :: litToks =>
    match ps.obj v, predArity op with
    | some (id, t), some (lo, hi) =>
      let lits := litToks.filterMap (parseLit t.dt)
      if lits.length != litToks.length || lits.length < lo || lits.length > hi ||
         !(["soft", "hard", "dflt"].contains mode) then (ps, .fields "r=badprog") else
      let t := if mode == "soft" then { t with maskSoft := true } else if mode == "hard" then { t with maskSoft := false } else t
      let ps := ps.setObj id t
      match maskPred ps.st t op lits with
      | .ok o =>
        let ps := { ps with st := o.st }.setObj id o.t
        let terms := if o.terms.isEmpty then "-" else String.intercalate "," (o.terms.map Val.toStr)
        let lm := logicalOf o.t o.terms (bitLit false) Val.toStr
        (ps, .fields s!"r=ok maskt={terms} lmaskt={lm}")
      | .error (.err _) => (ps, .fields "r=err")
      | .error (.panic _) => (ps, .stop "r=panic")
    | _, _ => (ps, .fields "r=skip")
  | "mq" :: kind :: v :: rest =>
    match ps.obj v, (match rest with | [] => some [] | [a] => parseIntList a | _ => none) with
    | some (_, t), some axis =>
      if !(["count", "ncount", "any", "all"].contains kind) then (ps, .fields "r=badprog") else
      (ps, resLine (maskedReduce ps.st t kind axis) (fun q => s!"r=ok {q.show}"))
    | _, _ => (ps, .fields "r=skip")
  | ["mruns", kind, v] =>
    match ps.obj v with
    | some (_, t) =>
      (match kind with
      | "contig" | "clump" => (ps, resLine (flatRuns ps.st t true) (fun l => s!"r=ok runs={showPairs l}"))
      | "notcontig" | "clumpun" => (ps, resLine (flatRuns ps.st t false) (fun l => s!"r=ok runs={showPairs l}"))
      | "edges" => (ps, resLine (flatEdges ps.st t true) (fun (a, b) => s!"r=ok edges={a},{b}"))
      | "notedges" => (ps, resLine (flatEdges ps.st t false) (fun (a, b) => s!"r=ok edges={a},{b}"))
      | _ => (ps, .fields "r=badprog"))
    | none => (ps, .fields "r=skip")
  | ["filled", v, lit, how] =>
    match ps.obj v with
    | some (id, t) =>
      let fv : Option Val := if lit == "dflt" then some fillDefault else (parseLit t.dt lit).map (fun (l, d) => Val.lit s!"{l}:{d}")
      (match fv, how with
      | some fv, "copy" =>
        (match filled ps.st t fv with
        | .ok (st, d) => ({ ps with st := st }.newVar d, .fields "r=ok ident=new")
        | .error (.err _) => (ps.failVar, .fields "r=err")
        | .error (.panic _) => (ps.failVar, .stop "r=panic"))
      | some fv, "inplace" =>
        (match filledInplace ps.st t fv with
        | .ok st => let ps := { ps with st := st }.aliasVar id; (ps, .fields s!"r=ok ident={ps.firstVar id}")
        | .error (.err _) => (ps.failVar, .fields "r=err")
        | .error (.panic _) => (ps.failVar, .stop "r=panic"))
      | _, _ => (ps.failVar, .fields "r=badprog"))
    | none => (ps.failVar, .fields "r=skip")
  | ["miter", v, script] =>
    match ps.obj v with
    | some (_, t) => (ps, resLine (runMIterScript ps.st t script) (fun o =>
        s!"seq={if o.seq.isEmpty then "-" else String.intercalate "|" o.seq} cells={cellsAt ps.st t o.offs} skips={showInts o.skips} valid={showBools o.valid} vcells={cellsAt ps.st t o.voffs}"))
    | none => (ps, .fields "r=skip")
  | "mdump" :: v :: opToks =>
    match ps.obj v with
    | some (_, t) =>
      let ops := opToks.filterMap (fun tok => (ps.obj tok).map (·.2))
      if ops.length != opToks.length then (ps, .fields "r=skip") else
      let ve := match velemsStr ps.st t ops with | some s => s!" velems={s}" | none => ""
      (ps, .fields (dumpFields ps.st t ++ s!" soft={if t.maskSoft then 1 else 0} lmask={lmaskStr ps.st t}" ++ ve))
    | none => (ps, .fields "r=skip")
  | "mapply" :: v :: rest => stepUn ps "apply" v rest
  | ["mtranspose", v] =>
    match ps.obj v with
    | some (id, t) => finishMut ps id (transposeM ps.st t)
    | none => (ps, .fields "r=skip")
  | ["mmat", v] =>
    match ps.obj v with
    | some (id, t) =>
      (match Dense.materialize ps.st t with
      | .ok (st, some d) => ({ ps with st := st }.newVar d, .fields "r=ok")
      | .ok (_, none) => (ps.aliasVar id, .fields "r=ok")
      | .error (.err _) => (ps.failVar, .fields "r=err")
      | .error (.panic _) => (ps.failVar, .stop "r=panic"))
    | none => (ps.failVar, .fields "r=skip")
  | _ => (ps, .fields "r=badprog")

/-! ## S — masks attached to abstract cells

  The root buffer of a tensor built by `mnew` is `cells ++ maskcells ++ [marker]`; an object's logical
  mask is read through its cell references, so it follows the elements through `slice`, `T`, `UT`,
  `transpose` (all handled by the core S interpreter, which only touches the data cells).
  A root without trailer has an *unknown* mask (S is silent about it). -/

inductive RootMask where
  | unknown
  | unmasked (n : Nat)
  | masked (n : Nat) (bits : List Bool)

def rootMask (ss : SState) (root : Nat) : RootMask :=
  match ss.store[root]? with
  | none => .unknown
  | some b =>
    if b.size < 3 || b.size % 2 == 0 then .unknown else
    let n := (b.size - 1) / 2
    match b[b.size - 1]? with
    | some (.lit "MT") => .masked n ((b.extract n (2 * n)).toList.map (fun v => v == Val.lit "1"))
    | some (.lit "UT") => .unmasked n
    | _ => .unknown

def setRootMask (ss : SState) (root : Nat) (m : RootMask) : SState :=
  match ss.store[root]? with
  | none => ss
  | some b =>
    let n := match rootMask ss root with | .unknown => b.size | .unmasked n => n | .masked n _ => n
    let cells := b.extract 0 n
    let b' := match m with
      | .unknown => cells
      | .unmasked _ => cells ++ Array.replicate n (Val.lit "0") ++ #[Val.lit "UT"]
      | .masked _ bits =>
        cells ++ ((List.range n).map (fun i => Val.lit (if bits[i]?.getD false then "1" else "0"))).toArray ++ #[Val.lit "MT"]
    { ss with store := ss.store.set! root b' }

/-- logical mask of an object (row-major order of its coordinates) -/
def sLMask (ss : SState) (o : SObj) : Option (List Bool) :=
  match rootMask ss o.root with
  | .unknown => none
  | .unmasked _ => some (o.idx.elems.map (fun _ => false))
  | .masked _ bits => o.idx.elems.mapM (fun k => bits[k]?)

def showBitTerms (l : List Bool) : String :=
  if l.isEmpty then "-" else String.intercalate "," (l.map (fun b => (bitLit b).toStr))

/-- maximal runs of `want` in a flat mask: half-open index ranges -/
def runsOf (want : Bool) : List Bool → Nat → Option Nat → List (Int × Int)
  | [], i, some st => [(Int.ofNat st, Int.ofNat i)]
  | [], _, none => []
  | b :: bs, i, cur =>
    if b == want then runsOf want bs (i + 1) (some (cur.getD i))
    else match cur with
      | some st => (Int.ofNat st, Int.ofNat i) :: runsOf want bs (i + 1) none
      | none => runsOf want bs (i + 1) none

/-- first and last index holding `want` (-1,-1 when there is none) -/
def edgesOf (want : Bool) (l : List Bool) : Int × Int :=
  let idxs := (List.range l.length).filter (fun i => l[i]? == some want)
  match idxs.head?, idxs.getLast? with
  | some a, some b => (Int.ofNat a, Int.ofNat b)
  | _, _ => (-1, -1)

def insertAt (c : List Int) (ax : Nat) (i : Int) : List Int := c.take ax ++ [i] ++ c.drop ax

def foldKind (kind : String) (lane : List Bool) : Int :=
  match kind with
  | "count" => (lane.filter id).length
  | "ncount" => (lane.filter (fun b => !b)).length
  | "any" => b2i (lane.any id)
  | _ => b2i (lane.all id && !lane.isEmpty)

/-- counts / any / all along one axis of a logical mask -/
def reduceAxis (kind : String) (m : LA Bool) (ax : Nat) : Option (Shape × List Int) := do
  let d ← m.shape[ax]?
  let rsh := m.shape.eraseIdx ax
  let vals ← (allCoords rsh).mapM (fun c => do
    let lane ← (rangeI d.toNat).mapM (fun i => m.at (insertAt c ax i))
    pure (foldKind kind lane))
  pure (rsh, vals)

def stepS (psBefore psAfter : PState) (ss : SState) (_stepIdx : Nat) (toks : List String) (mres : String) : SOut :=
  let ss := ss.sync psBefore.ds.size
  let newId := psBefore.ds.size
  let fin := finS psAfter
  let pushObj (ss : SState) (o : SObj) : SState := { ss with objs := (ss.sync newId).objs.push (some o) }
  match toks with
  | ["mnew", _, shape, order, bits] =>
    match parseIntList shape with
    | none => fin ss none
    | some sh =>
      if sh.any (· < 0) then fin ss none else
      let n := (totalSize sh).toNat
      let bid := psBefore.nnew
      let cells : Array Val := (Array.range n).map (fun i => Val.src bid i)
      let trailer : Option (Array Val) :=
        if bits == "-" then some (Array.replicate n (Val.lit "0") ++ #[Val.lit "UT"])
        else match parseBits bits with
          | some b => if b.length == n then some ((b.map (fun x => Val.lit (if x then "1" else "0"))).toArray ++ #[Val.lit "MT"]) else none
          | none => none
      let idx : Option (LA Nat) := match order with
        | "Fraw" => LA.tabulate sh (fun c => some (colRank sh c).toNat)
        | "C" => some ⟨sh, List.range n⟩
        | _ => none
      match trailer, idx with
      | some tr, some idx =>
        let root := ss.store.size
        let ss := { ss with store := ss.store.push (cells ++ tr) }
        fin (pushObj ss { root := root, idx := idx, col := order != "C" }) (some "r=ok")
      | _, _ => fin ss none
  | ["mtranspose", v] => TM.stepS psBefore psAfter ss _stepIdx ["transpose", v] mres
  | "mapply" :: v :: rest => TM.stepS psBefore psAfter ss _stepIdx ("un" :: "apply" :: v :: rest) mres
  | ["harden", _] => fin ss (some "r=ok")
  | ["soften", _] => fin ss (some "r=ok")
  | "mpred" :: op :: v :: mode :: litToks =>
    match sObj psBefore ss v, psBefore.obj v, predArity op with
    | some (id, o), some (_, d), some (lo, hi) =>
      let lits := litToks.filterMap (parseLit d.dt)
      if lits.length != litToks.length || lits.length < lo || lits.length > hi then fin ss none else
      -- the property's domain: ordered predicates on ordered types, (in)equality on every comparable
      -- type, by-values on floats; the literal must have the element type. The library's (in)equality
      -- predicates have a comparison for the ordered types only and refuse bool / complex tensors with an
      -- error (the former finding F86: they returned nil and marked nothing): S accepts that refusal — and
      -- then nothing may have changed, no mask is made — or the marks it defines.
      let dom := if op == "values" then floatTypes else if op == "eq" || op == "ne" then eqTypes.filter (· != "uptr") else ordTypes
      if op == "values" && !floatTypes.contains d.dt then fin ss none else
      if !dom.contains d.dt || lits.any (fun l => l.2 != d.dt) || mode == "dflt" then
        fin (setRootMask ss o.root .unknown) none else
      if !(predTypes op).contains d.dt && mres != "ok" then fin ss (some "r=ok|err") else
      let soft := mode == "soft"
      let others := (List.range ss.objs.size).any (fun j => j != id && (match ss.objs[j]? with
        | some (some o') => o'.root == o.root | _ => false))
      -- a tensor without mask that shares its storage with other tensors gets a mask of its own:
      -- the property does not say what the others see afterwards
      let (old, forget) : Option (List Bool) × Bool := match rootMask ss o.root with
        | .unknown => (none, true)
        | .unmasked n => (some (List.replicate n false), others)
        | .masked _ bits => (some bits, false)
      match old, ss.store[o.root]? with
      | some bits, some cells =>
        let lv := lits.map (fun l => Val.lit s!"{l.1}:{l.2}")
        let lk := lv.map (known d.dt)
        let upd := o.idx.elems.foldl (fun (acc : List Bool × Bool) k =>
          let (bits, kn) := acc
          match cells[k]?, lk.mapM (fun x => x) with
          | some a, some ks =>
            (match known d.dt a with
            | some ka => (bits.set k ((if soft then false else bits[k]?.getD false) || predHolds op ka ks), kn)
            | none => (bits, false))
          | _, _ => (bits, false)) (bits, true)
        let terms := o.idx.elems.map (fun k =>
          let a := cells[k]?.getD Val.zero
          let pt := predTerm op a lv
          if soft then pt else Val.app2 "or" (bitLit (bits[k]?.getD false)) pt)
        let ss := if upd.2 && !forget && mres == "ok" then setRootMask ss o.root (.masked bits.length upd.1)
          else setRootMask ss o.root .unknown
        fin ss (some s!"r=ok lmaskt={showVals terms}")
      | _, _ => fin (setRootMask ss o.root .unknown) none
    | _, _, _ => fin ss none
  | "mq" :: kind :: v :: rest =>
    match sObj psBefore ss v, (match rest with | [] => some [] | [a] => parseIntList a | _ => none) with
    | some (_, o), some axis =>
      match sLMask ss o with
      | none => fin ss none
      | some lm =>
        if !(["count", "ncount", "any", "all"].contains kind) then fin ss none else
        match axis with
        | [] => fin ss (some s!"r=ok q={foldKind kind lm} qshape=s")
        | ax :: _ =>
          if ax < 0 || ax ≥ o.idx.shape.length then fin ss none else
          match reduceAxis kind ⟨o.idx.shape, lm⟩ ax.toNat with
          | some (rsh, vals) =>
            if rsh.isEmpty then fin ss (some s!"r=ok q={showInts vals} qshape=s")
            else fin ss (some s!"r=ok q={showInts vals} qshape={showInts rsh}")
          | none => fin ss none
    | _, _ => fin ss none
  | ["mruns", kind, v] =>
    match sObj psBefore ss v with
    | some (_, o) =>
      match sLMask ss o with
      | none => fin ss none
      | some lm =>
        match kind with
        | "contig" | "clump" => fin ss (some s!"r=ok runs={showPairs (runsOf true lm 0 none)}")
        | "notcontig" | "clumpun" => fin ss (some s!"r=ok runs={showPairs (runsOf false lm 0 none)}")
        | "edges" => let (a, b) := edgesOf true lm; fin ss (some s!"r=ok edges={a},{b}")
        | "notedges" => let (a, b) := edgesOf false lm; fin ss (some s!"r=ok edges={a},{b}")
        | _ => fin ss none
    | none => fin ss none
  | ["filled", v, lit, how] =>
    match sObj psBefore ss v, psBefore.obj v with
    | some (id, o), some (_, d) =>
      let fv : Option Val := if lit == "dflt" then some fillDefault else (parseLit d.dt lit).map (fun (l, dd) => Val.lit s!"{l}:{dd}")
      let bad (ss : SState) : SOut := if how == "inplace" then fin (ss.setObj id none) none else fin ss none
      match fv, sLMask ss o, o.elems ss with
      | some fv, some lm, some es =>
        let es' := List.zipWith (fun e (m : Bool) => if m then fv else e) es lm
        if how == "copy" then
          if mres != "ok" then fin ss (some "r=ok ident=new") else
          let root := ss.store.size
          let ss := { ss with store := ss.store.push es'.toArray }
          fin (pushObj ss { root := root, idx := ⟨o.idx.shape, List.range es'.length⟩ }) (some "r=ok ident=new")
        else if how == "inplace" then
          match ss.store[o.root]? with
          | some b =>
            let b' := (o.idx.elems.zip es').foldl (fun b (k, x) => b.setIfInBounds k x) b
            fin { ss with store := ss.store.set! o.root b' } (some s!"r=ok ident={psBefore.firstVar id}")
          | none => bad ss
        else fin ss none
      | _, _, _ => bad ss
    | _, _ => fin ss none
  | ["miter", v, script] =>
    match sObj psBefore ss v with
    | some (_, o) =>
      match sLMask ss o, o.elems ss with
      | some lm, some es =>
        let n := lm.length
        let pos (want : Bool) : List Nat := (List.range n).filter (fun i => lm[i]? == some want)
        let cellsOf (ps : List Nat) : List Val := ps.filterMap (fun i => es[i]?)
        let fwdSkips (ps : List Nat) : List Int :=
          (ps.foldl (fun (acc : List Int × Int) (i : Nat) => ((Int.ofNat i - acc.2) :: acc.1, Int.ofNat i)) ([], -1)).1.reverse
        let revSkips (ps : List Nat) : List Int :=
          (ps.foldl (fun (acc : List Int × Int) (i : Nat) => ((Int.ofNat i - acc.2) :: acc.1, Int.ofNat i)) ([], Int.ofNat n)).1.reverse
        match script with
        | "V" => let p := pos false; fin ss (some s!"cells={showVals (cellsOf p)} skips={showInts (fwdSkips p)}")
        | "I" => let p := pos true; fin ss (some s!"cells={showVals (cellsOf p)} skips={showInts (fwdSkips p)}")
        | "rV" => let p := (pos false).reverse; fin ss (some s!"cells={showVals (cellsOf p)} skips={showInts (revSkips p)}")
        | "rI" => let p := (pos true).reverse; fin ss (some s!"cells={showVals (cellsOf p)} skips={showInts (revSkips p)}")
        | "Y" => fin ss (some s!"valid={showBools (lm.map (!·))} vcells={showVals es}")
        | "rY" => fin ss (some s!"valid={showBools (lm.reverse.map (!·))} vcells={showVals es.reverse}")
        | _ => fin ss none
      | _, _ => fin ss none
    | none => fin ss none
  | "mdump" :: v :: opToks =>
    match sObj psBefore ss v with
    | some (_, o) =>
      let ops := opToks.map (fun tok => (sObj psBefore ss tok).map (·.2))
      let lmPart := match sLMask ss o with | some lm => s!" lmask={showBitTerms lm}" | none => ""
      let valid : Option (List Bool) := ops.foldl (fun acc op => do
        let vs ← acc
        let op ← op
        if op.idx.shape != o.idx.shape then none else
        let lm ← sLMask ss op
        pure (List.zipWith (fun a (m : Bool) => a && !m) vs lm)) (some (o.idx.elems.map (fun _ => true)))
      let vePart := match valid, o.elems ss with
        | some vs, some es =>
          let l := List.zipWith (fun (e : Val) (ok : Bool) => if ok then e.toStr else "?") es vs
          s!" velems={if l.isEmpty then "-" else String.intercalate "," l}"
        | _, _ => ""
      fin ss (some (s!"shape={showInts o.idx.shape}" ++ lmPart ++ vePart))
    | none => fin ss none
  | ["mmat", v] =>
    match sObj psBefore ss v with
    | some (_, o) =>
      if mres != "ok" then fin ss (some "r=ok") else
      if psAfter.ds.size == psBefore.ds.size then fin ss (some "r=ok") else
      match o.elems ss with
      | some es =>
        let root := ss.store.size
        let n := es.length
        let tr : Array Val := match rootMask ss o.root, sLMask ss o with
          | .masked _ _, some lm => (lm.map (fun x => Val.lit (if x then "1" else "0"))).toArray ++ #[Val.lit "MT"]
          | .unmasked _, _ => Array.replicate n (Val.lit "0") ++ #[Val.lit "UT"]
          | _, _ => #[]
        let ss := { ss with store := ss.store.push (es.toArray ++ tr) }
        fin (pushObj ss { root := root, idx := ⟨o.idx.shape, List.range n⟩ }) (some "r=ok")
      | none => fin ss none
    | none => fin ss none
  | _ => fin ss none

/-! ## known-defect regions (see findings.d/mask.json) -/

/-- F80: the generated predicates loop over the *raw storage window*: a masked tensor whose window is
    longer than its size (a view with gaps, or a clone of one) marks — and, when soft, clears — window
    cells that are not elements of the tensor. (A tensor without mask gets a mask of its own, sized by the
    window since `makeMask` looks at the data: the bits of the gaps are not bits of any element.) -/
def Excl_predRawWindow (t : Dense) : Bool := t.isMasked && (t.win.len : Int) != totalSize t.shape

/-- F81: the run / edge finders report what `NextValid` / `NextInvalid` return, i.e. *storage
    offsets*; they are flat indices only when the tensor is walked in storage order. -/
def Excl_runsStorageOffsets (t : Dense) : Bool := t.isMasked && t.offsets != rangeI t.size.toNat

/-- F84: per-axis `MaskedCount/NonMaskedCount/MaskedAny/MaskedAll`: the axis is ignored for row and
    column vectors (the whole-tensor scalar is returned). -/
def Excl_reduceAxis (t : Dense) (ax : Int) : Bool :=
  decide (0 ≤ ax) && decide (ax < t.dims) && t.dims == 2 && isVector t.shape

def excl (ps : PState) (toks : List String) : List String × Bool :=
  let tag (b : Bool) (s : String) : List String := if b then [s] else []
  match toks with
  | "mpred" :: _ :: v :: _ =>
    match ps.obj v with
    | some (_, t) => (tag (Excl_predRawWindow t) "F80", true)
    | none => ([], false)
  | ["mruns", _, v] =>
    match ps.obj v with
    | some (_, t) => (tag (Excl_runsStorageOffsets t) "F81" ++ tag (Excl_shortStrides t) "F24", false)
    | none => ([], false)
  | ["filled", v, _, _] =>
    match ps.obj v with
    | some _ => ([], true)
    | none => ([], false)
  | ["mq", _, v, axis] =>
    match ps.obj v, parseIntList axis with
    | some (_, t), some (ax :: _) => (tag (Excl_reduceAxis t ax) "F84" ++ tag (Excl_shortStrides t) "F24", false)
    | _, _ => ([], false)
  | ["mmat", v] =>
    match ps.obj v with
    | some _ => ([], false)
    | none => ([], false)
  | ["mtranspose", v] =>
    match ps.obj v with
    | some (_, t) => (tag (Excl_transposeView t) "F5" ++ tag (Excl_transposeCol t) "F6", true)
    | none => ([], false)
  | ["miter", v, _] =>
    match ps.obj v with
    | some (_, t) => (tag (Excl_shortStrides t) "F24", false)
    | none => ([], false)
  | _ => ([], false)

end Mask

def maskFamily : Family :=
  { name := "Mask",
    keys := ["mnew", "harden", "soften", "mpred", "mq", "mruns", "filled", "miter", "mdump", "mmat", "mtranspose", "mapply"],
    stepM := Mask.stepM, stepS := Mask.stepS, excl := Mask.excl }

end TM
