#!/usr/bin/env python3
"""
tools/seedtest.py <name> <out_dir> <prop> [<prop>…] [--thorough]
Confirms a seeded change (patch.diff + zz_demo_test.go + meta.json produced by an independent agent):
  1. in a scratch worktree of /repo: the demo passes without the patch, fails with it, the tree builds;
  2. stores it under /verif/seeded/<name>/;
  3. applies it to /repo, runs ./check for the given properties, undoes it (git checkout -- .), records which
     checks raised a VIOLATION.
"""
import json, os, shutil, subprocess, sys, re
V = os.path.dirname(os.path.dirname(os.path.abspath(__file__)))
ENV = dict(os.environ, GOFLAGS="-mod=mod", GOPROXY="off", GOSUMDB="off", GOTOOLCHAIN="local")

def sh(cmd, cwd=None, timeout=3600):
    p = subprocess.run(cmd, cwd=cwd, env=ENV, shell=isinstance(cmd, str), stdout=subprocess.PIPE, stderr=subprocess.STDOUT, text=True, timeout=timeout)
    return p.returncode, p.stdout

def main():
    args = [a for a in sys.argv[1:] if not a.startswith("--")]
    thorough = "--thorough" in sys.argv
    name, out, props = args[0], args[1], args[2:]
    dst = os.path.join(V, "seeded", name)
    os.makedirs(dst, exist_ok=True)
    for f in ("patch.diff", "zz_demo_test.go", "meta.json"):
        if os.path.exists(os.path.join(out, f)) and os.path.abspath(os.path.join(out, f)) != os.path.abspath(os.path.join(dst, f)):
            shutil.copy(os.path.join(out, f), os.path.join(dst, f))
    meta = json.load(open(os.path.join(dst, "meta.json"))) if os.path.exists(os.path.join(dst, "meta.json")) else {}
    demo = [l for l in open(os.path.join(dst, "zz_demo_test.go")) if l.startswith("func Test")]
    tname = re.match(r"func (Test\w+)", demo[0]).group(1)
    tags = meta.get("demo_tags") or ""
    tagargs = ["-tags", tags] if tags else []
    if meta.get("demo_race"):
        tagargs.append("-race")
    before = set(os.listdir(os.path.join(V, "replays"))) if os.path.isdir(os.path.join(V, "replays")) else set()
    wt = f"/tmp/seedverify_{name}"
    sh(["git", "-C", "/repo", "worktree", "remove", "--force", wt])
    rc, o = sh(["git", "-C", "/repo", "worktree", "add", "-q", wt, "HEAD"])
    confirm = {}
    try:
        shutil.copy(os.path.join(dst, "zz_demo_test.go"), os.path.join(wt, "zz_demo_test.go"))
        rc, o = sh(["go", "test", "-vet=off", "-count=1"] + tagargs + ["-run", f"^{tname}$", "."], cwd=wt)
        confirm["demo_without_patch"] = "PASS" if rc == 0 else "FAIL"
        rc, o = sh(["git", "apply", os.path.join(dst, "patch.diff")], cwd=wt)
        confirm["patch_applies"] = rc == 0
        rc, o = sh(["go", "build", "./..."], cwd=wt)
        confirm["builds"] = rc == 0
        rc, o = sh(["go", "test", "-vet=off", "-count=1"] + tagargs + ["-run", f"^{tname}$", "."], cwd=wt)
        confirm["demo_with_patch"] = "PASS" if rc == 0 else "FAIL"
        os.remove(os.path.join(wt, "zz_demo_test.go"))
        rc, o = sh("go test -vet=off -count=1 . ./internal/... ./native/... 2>&1 | grep -E '^--- FAIL' | grep -v -E 'TestSaveLoadNumpy|TestDense_SVD|TestDense_SubScalar_reuse|TestFloat64Engine_makeArray|TestFloat32Engine_makeArray'", cwd=wt)
        confirm["suite_other_failures"] = o.strip()
    finally:
        sh(["git", "-C", "/repo", "worktree", "remove", "--force", wt])
    ok = confirm.get("demo_without_patch") == "PASS" and confirm.get("demo_with_patch") == "FAIL" and confirm.get("builds") and not confirm.get("suite_other_failures")
    meta["confirmed"] = confirm
    meta["kept"] = bool(ok)
    results = {}
    if ok:
        rc, o = sh(["git", "-C", "/repo", "status", "--porcelain"])
        if o.strip():
            print("refusing: /repo has uncommitted changes:", o)
            sys.exit(2)
        rc, o = sh(["git", "-C", "/repo", "apply", os.path.join(dst, "patch.diff")])
        try:
            for p in props:
                for tier in (["quick", "thorough"] if thorough else ["quick"]):
                    rc, o = sh([os.path.join(V, "check"), p, "--tier", tier], cwd=V, timeout=7200)
                    viol = [l for l in o.splitlines() if l.startswith("VIOLATION")]
                    results[f"{p}:{tier}"] = {"exit": rc, "violations": viol[:3]}
                    replay = None
                    for l in viol:
                        m = re.search(r"replay=(\S+)", l)
                        if m and os.path.exists(m.group(1)):
                            replay = json.load(open(m.group(1)))
                            results[f"{p}:{tier}"]["replay"] = {k: replay.get(k) for k in ("program", "detail", "set", "what", "lean_failures") if replay.get(k)}
                            break
                    if rc == 1:
                        break
        finally:
            sh(["git", "-C", "/repo", "checkout", "--", "."])
            for fn in os.listdir(os.path.join(V, "replays")):
                if fn not in before:
                    os.remove(os.path.join(V, "replays", fn))
    meta["checks_run"] = results
    meta["detected_by"] = [k for k, v in results.items() if v["exit"] == 1]
    json.dump(meta, open(os.path.join(dst, "meta.json"), "w"), indent=1)
    print(json.dumps({"name": name, "kept": meta["kept"], "confirmed": confirm, "detected_by": meta["detected_by"],
                      "results": {k: (v["exit"], v.get("replay", {}).get("program", "")[:200], v["violations"][:1]) for k, v in results.items()}}, indent=1))

if __name__ == "__main__":
    main()
