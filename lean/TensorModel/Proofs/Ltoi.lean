import TensorModel.Run
/-! Helper lemmas for C01 (addressing). -/
namespace TM

/-! ### `inBox` basics -/

theorem inBox_length : ∀ (sh : Shape) (c : List Int), inBox sh c = true → c.length = sh.length := by
  intro sh
  induction sh with
  | nil => intro c h; cases c <;> simp_all [inBox]
  | cons d ds ih =>
    intro c h
    cases c with
    | nil => simp [inBox] at h
    | cons x xs =>
      simp only [inBox, Bool.and_eq_true] at h
      simp [ih xs h.2]

theorem prefixProds_length : ∀ (sh : Shape) (a : Int), (prefixProds a sh).length = sh.length := by
  intro sh
  induction sh with
  | nil => intro a; simp [prefixProds]
  | cons d ds ih => intro a; simp [prefixProds, ih]

theorem calcStrides_length : ∀ (sh : Shape), (calcStrides sh).length = sh.length := by
  intro sh
  induction sh with
  | nil => simp [calcStrides]
  | cons d ds ih => simp [calcStrides, ih]

/-- in-box coordinates of an all-ones shape are all zero -/
theorem inBox_scalarEquiv_zero : ∀ (sh : Shape) (c : List Int),
    isScalarEquiv sh = true → inBox sh c = true → c.all (· == 0) = true := by
  intro sh
  induction sh with
  | nil => intro c _ h; cases c <;> simp_all [inBox]
  | cons d ds ih =>
    intro c hs h
    cases c with
    | nil => simp [inBox] at h
    | cons x xs =>
      simp only [inBox, Bool.and_eq_true, decide_eq_true_eq] at h
      simp only [isScalarEquiv, List.all_cons, Bool.and_eq_true, beq_iff_eq] at hs
      have := ih xs (by simpa [isScalarEquiv] using hs.2) h.2
      simp only [List.all_cons, Bool.and_eq_true, beq_iff_eq]
      exact ⟨by omega, this⟩

theorem dot_zero_left : ∀ (c s : List Int), c.all (· == 0) = true → dot c s = 0 := by
  intro c
  induction c with
  | nil => intro s _; simp [dot]
  | cons x xs ih =>
    intro s h
    simp only [List.all_cons, Bool.and_eq_true, beq_iff_eq] at h
    cases s with
    | nil => simp [dot]
    | cons y ys => simp [dot, h.1, ih ys h.2]

/-- all zeros of the right arity are in the box of an all-ones shape -/
theorem zero_inBox_scalarEquiv : ∀ (sh : Shape) (c : List Int),
    isScalarEquiv sh = true → c.length = sh.length → c.all (· == 0) = true → inBox sh c = true := by
  intro sh
  induction sh with
  | nil => intro c _ hl _; cases c <;> simp_all [inBox]
  | cons d ds ih =>
    intro c hs hl h
    cases c with
    | nil => simp at hl
    | cons x xs =>
      simp only [isScalarEquiv, List.all_cons, Bool.and_eq_true, beq_iff_eq] at hs
      simp only [List.all_cons, Bool.and_eq_true, beq_iff_eq] at h
      simp only [inBox, Bool.and_eq_true, decide_eq_true_eq]
      refine ⟨⟨by omega, by omega⟩, ih xs (by simpa [isScalarEquiv] using hs.2) (by simpa using hl) h.2⟩

/-! ### the `ltoi.go` recursion -/

theorem go_exact (shape : Shape) (strides : List Int) (hlen : strides.length = shape.length) :
    ∀ (cs : List Int) (i : Nat) (acc : Int), inBox (shape.drop i) cs = true →
      ltoi.go shape strides i acc cs = .ok (acc + dot cs (strides.drop i)) := by
  intro cs
  induction cs with
  | nil => intro i acc _; simp [ltoi.go, dot]
  | cons c cs ih =>
    intro i acc hbox
    by_cases hi : i < shape.length
    · have hi' : i < strides.length := by omega
      rw [List.drop_eq_getElem_cons hi] at hbox
      rw [List.drop_eq_getElem_cons hi']
      simp only [inBox, Bool.and_eq_true, decide_eq_true_eq] at hbox
      obtain ⟨⟨h0, h1⟩, hrest⟩ := hbox
      have ih' := ih (i+1) (acc + strides[i] * c) hrest
      have hoob : (decide (c < 0) || decide (c ≥ shape[i])) = false := by
        simp only [Bool.or_eq_false_iff, decide_eq_false_iff_not]; omega
      have harith : acc + strides[i] * c + dot cs (List.drop (i + 1) strides)
          = acc + dot (c :: cs) (strides[i] :: List.drop (i + 1) strides) := by
        simp only [dot]; rw [Int.mul_comm]; omega
      rw [ltoi.go]
      simp only [List.getElem?_eq_getElem hi, hoob]
      by_cases hv : (isVector shape && strides.length == 1) = true
      · have h1 : strides.length = 1 := by
          simp only [Bool.and_eq_true, beq_iff_eq] at hv; exact hv.2
        have hi0 : i = 0 := by omega
        subst hi0
        simp only [hv, List.getElem?_eq_getElem hi']
        simp only [Bool.false_eq_true, if_false, if_true]
        rw [ih', harith]
      · simp only [hv, List.getElem?_eq_getElem hi']
        simp only [Bool.false_eq_true, if_false]
        rw [ih', harith]
    · have : shape.drop i = [] := List.drop_eq_nil_of_le (by omega)
      rw [this] at hbox; simp [inBox] at hbox

theorem go_rejects (shape : Shape) (strides : List Int) (hlen : strides.length = shape.length) :
    ∀ (cs : List Int) (i : Nat) (acc : Int), cs.length = (shape.drop i).length →
      inBox (shape.drop i) cs = false →
      ∃ tag, ltoi.go shape strides i acc cs = .error (.err tag) := by
  intro cs
  induction cs with
  | nil =>
    intro i acc hl hbox
    have : shape.drop i = [] := by
      cases h : shape.drop i with
      | nil => rfl
      | cons a b => rw [h] at hl; simp at hl
    rw [this] at hbox; simp [inBox] at hbox
  | cons c cs ih =>
    intro i acc hl hbox
    by_cases hi : i < shape.length
    · have hi' : i < strides.length := by omega
      rw [List.drop_eq_getElem_cons hi] at hbox hl
      rw [ltoi.go]
      simp only [List.getElem?_eq_getElem hi]
      by_cases hoob : (decide (c < 0) || decide (c ≥ shape[i])) = true
      · simp only [hoob, if_true]; exact ⟨_, rfl⟩
      · simp only [hoob]
        simp only [Bool.false_eq_true, if_false]
        have hin : (decide (0 ≤ c) && decide (c < shape[i])) = true := by
          simp only [Bool.or_eq_true, decide_eq_true_eq, not_or] at hoob
          simp only [Bool.and_eq_true, decide_eq_true_eq]; omega
        have hrest : inBox (shape.drop (i+1)) cs = false := by
          simp only [inBox, hin, Bool.true_and] at hbox; exact hbox
        have hl' : cs.length = (shape.drop (i+1)).length := by
          simp only [List.length_cons] at hl; omega
        by_cases hv : (isVector shape && strides.length == 1) = true
        · have h1 : strides.length = 1 := by
            simp only [Bool.and_eq_true, beq_iff_eq] at hv; exact hv.2
          have hi0 : i = 0 := by omega
          subst hi0
          simp only [hv, List.getElem?_eq_getElem hi', if_true]
          exact ih _ _ hl' hrest
        · simp only [hv, List.getElem?_eq_getElem hi']
          simp only [Bool.false_eq_true, if_false]
          exact ih _ _ hl' hrest
    · have : shape.drop i = [] := List.drop_eq_nil_of_le (by omega)
      rw [this] at hl; simp at hl

theorem ltoi_exact' (shape : Shape) (strides c : List Int)
    (hlen : strides.length = shape.length) (hc : inBox shape c = true) :
    ltoi shape strides c = .ok (dot c strides) := by
  unfold ltoi
  by_cases hs : isScalarEquiv shape = true
  · have hz := inBox_scalarEquiv_zero shape c hs hc
    simp only [hs, hz, if_true, dot_zero_left c strides hz]
  · simp only [hs]
    simp only [Bool.false_eq_true, if_false]
    have := go_exact shape strides hlen c 0 0 (by simpa using hc)
    simpa using this

theorem ltoi_rejects' (shape : Shape) (strides c : List Int)
    (hlen : strides.length = shape.length) (harity : c.length = shape.length)
    (hbad : inBox shape c = false) :
    ∃ tag, ltoi shape strides c = .error (.err tag) := by
  unfold ltoi
  by_cases hs : isScalarEquiv shape = true
  · simp only [hs, if_true]
    by_cases hz : c.all (· == 0) = true
    · have := zero_inBox_scalarEquiv shape c hs harity hz
      rw [this] at hbad; cases hbad
    · simp only [hz]; exact ⟨_, rfl⟩
  · simp only [hs]
    simp only [Bool.false_eq_true, if_false]
    exact go_rejects shape strides hlen c 0 0 (by simpa using harity) (by simpa using hbad)

/-! ### mixed-radix arithmetic -/

theorem mr_bounds (c d r P : Int) (h0 : 0 ≤ c) (h1 : c < d) (hr0 : 0 ≤ r) (hr1 : r < P) :
    0 ≤ c * P + r ∧ c * P + r < d * P := by
  have hP : 0 ≤ P := by omega
  have hcP : 0 ≤ c * P := Int.mul_nonneg h0 hP
  have h2 : (c + 1) * P ≤ d * P := Int.mul_le_mul_of_nonneg_right (by omega) hP
  rw [Int.add_mul, Int.one_mul] at h2
  constructor <;> omega

theorem mr_inj (c c' r r' P : Int) (hr0 : 0 ≤ r) (hr1 : r < P) (hr0' : 0 ≤ r') (hr1' : r' < P)
    (h : c * P + r = c' * P + r') : c = c' ∧ r = r' := by
  have e1 : (c * P + r) % P = r := by
    rw [Int.add_comm, Int.add_mul_emod_self_right]; exact Int.emod_eq_of_lt hr0 hr1
  have e2 : (c' * P + r') % P = r' := by
    rw [Int.add_comm, Int.add_mul_emod_self_right]; exact Int.emod_eq_of_lt hr0' hr1'
  have hr : r = r' := by rw [← e1, ← e2, h]
  subst hr
  have hc : c * P = c' * P := by omega
  exact ⟨Int.eq_of_mul_eq_mul_right (by omega) hc, rfl⟩

/-! ### row-major rank -/

theorem rowRank_cons (d : Int) (ds : Shape) (c : Int) (cs : List Int) :
    rowRank (d :: ds) (c :: cs) = c * prod ds + rowRank ds cs := by
  simp [rowRank, calcStrides, dot]

theorem rowRank_bounds' : ∀ (shape : Shape) (c : List Int), inBox shape c = true →
    0 ≤ rowRank shape c ∧ rowRank shape c < prod shape := by
  intro shape
  induction shape with
  | nil => intro c h; cases c <;> simp_all [inBox, rowRank, dot, prod]
  | cons d ds ih =>
    intro c h
    cases c with
    | nil => simp [inBox] at h
    | cons x xs =>
      simp only [inBox, Bool.and_eq_true, decide_eq_true_eq] at h
      obtain ⟨⟨h0, h1⟩, hrest⟩ := h
      have := ih xs hrest
      rw [rowRank_cons, prod]
      exact mr_bounds x d _ _ h0 h1 this.1 this.2

theorem rowRank_inj' : ∀ (shape : Shape) (c c' : List Int), inBox shape c = true →
    inBox shape c' = true → rowRank shape c = rowRank shape c' → c = c' := by
  intro shape
  induction shape with
  | nil => intro c c' h h' _; cases c <;> cases c' <;> simp_all [inBox]
  | cons d ds ih =>
    intro c c' h h' he
    cases c with
    | nil => simp [inBox] at h
    | cons x xs =>
      cases c' with
      | nil => simp [inBox] at h'
      | cons y ys =>
        simp only [inBox, Bool.and_eq_true, decide_eq_true_eq] at h h'
        have b := rowRank_bounds' ds xs h.2
        have b' := rowRank_bounds' ds ys h'.2
        rw [rowRank_cons, rowRank_cons] at he
        have := mr_inj x y _ _ (prod ds) b.1 b.2 b'.1 b'.2 he
        rw [this.1, ih xs ys h.2 h'.2 this.2]

/-! ### column-major rank -/

theorem dot_prefixProds_scale : ∀ (ds : Shape) (cs : List Int) (a : Int),
    dot cs (prefixProds a ds) = a * dot cs (prefixProds 1 ds) := by
  intro ds
  induction ds with
  | nil => intro cs a; cases cs <;> simp [prefixProds, dot]
  | cons d ds ih =>
    intro cs a
    cases cs with
    | nil => simp [dot]
    | cons x xs =>
      simp only [prefixProds, dot]
      rw [ih xs (a * d), ih xs (1 * d)]
      rw [Int.mul_add, Int.one_mul, Int.mul_one, Int.mul_comm x a, Int.mul_assoc]

theorem colRank_cons (d : Int) (ds : Shape) (c : Int) (cs : List Int) :
    colRank (d :: ds) (c :: cs) = colRank ds cs * d + c := by
  simp only [colRank, prefixProds, dot]
  rw [dot_prefixProds_scale ds cs (1 * d), Int.one_mul, Int.mul_one, Int.mul_comm d, Int.add_comm]

theorem colRank_bounds' : ∀ (shape : Shape) (c : List Int), inBox shape c = true →
    0 ≤ colRank shape c ∧ colRank shape c < prod shape := by
  intro shape
  induction shape with
  | nil => intro c h; cases c <;> simp_all [inBox, colRank, dot, prod]
  | cons d ds ih =>
    intro c h
    cases c with
    | nil => simp [inBox] at h
    | cons x xs =>
      simp only [inBox, Bool.and_eq_true, decide_eq_true_eq] at h
      obtain ⟨⟨h0, h1⟩, hrest⟩ := h
      have := ih xs hrest
      rw [colRank_cons, prod, Int.mul_comm d]
      exact mr_bounds _ _ x d this.1 this.2 h0 h1

theorem colRank_inj' : ∀ (shape : Shape) (c c' : List Int), inBox shape c = true →
    inBox shape c' = true → colRank shape c = colRank shape c' → c = c' := by
  intro shape
  induction shape with
  | nil => intro c c' h h' _; cases c <;> cases c' <;> simp_all [inBox]
  | cons d ds ih =>
    intro c c' h h' he
    cases c with
    | nil => simp [inBox] at h
    | cons x xs =>
      cases c' with
      | nil => simp [inBox] at h'
      | cons y ys =>
        simp only [inBox, Bool.and_eq_true, decide_eq_true_eq] at h h'
        rw [colRank_cons, colRank_cons] at he
        have := mr_inj _ _ x y d h.1.1 h.1.2 h'.1.1 h'.1.2 he
        rw [this.2, ih xs ys h.2 h'.2 this.1]

/-! ### `At` / `SetAt` unfolding -/

theorem at_of_arity (st : St) (t : Dense) (c : List Int) (h : c.length = t.dims) :
    t.at_ st c = (ltoi t.shape t.strides c >>= fun i => st.get t.win i) := by
  simp [Dense.at_, h]

theorem setAt_of_arity (st : St) (t : Dense) (c : List Int) (v : Val) (h : c.length = t.dims) :
    t.setAt st c v = (ltoi t.shape t.strides c >>= fun i => st.set t.win i v) := by
  simp [Dense.setAt, h]

theorem at_bad_arity (st : St) (t : Dense) (c : List Int) (h : c.length ≠ t.dims) :
    t.at_ st c = .error (.err "dimMismatch") := by
  simp [Dense.at_, h]; rfl

theorem setAt_bad_arity (st : St) (t : Dense) (c : List Int) (v : Val) (h : c.length ≠ t.dims) :
    t.setAt st c v = .error (.err "dimMismatch") := by
  simp [Dense.setAt, h]; rfl

theorem at_inBox (st : St) (t : Dense) (c : List Int)
    (hlen : t.strides.length = t.shape.length) (hc : inBox t.shape c = true) :
    t.at_ st c = st.get t.win (dot c t.strides) := by
  rw [at_of_arity st t c (inBox_length _ _ hc), ltoi_exact' _ _ _ hlen hc]; rfl

theorem setAt_inBox (st : St) (t : Dense) (c : List Int) (v : Val)
    (hlen : t.strides.length = t.shape.length) (hc : inBox t.shape c = true) :
    t.setAt st c v = st.set t.win (dot c t.strides) v := by
  rw [setAt_of_arity st t c v (inBox_length _ _ hc), ltoi_exact' _ _ _ hlen hc]; rfl

/-! ### heap cells: `St.get` / `St.set` -/

theorem St.set_ok {s s' : St} {w : Win} {i : Int} {v : Val} (h : s.set w i v = .ok s') :
    ∃ b, 0 ≤ i ∧ i < w.len ∧ s.heap[w.buf]? = some b ∧ w.off + i.toNat < b.size ∧
      s' = { s with heap := s.heap.set! w.buf (b.set! (w.off + i.toNat) v) } := by
  unfold St.set at h
  by_cases hr : (decide (i < 0) || decide (i ≥ (w.len : Int))) = true
  · simp only [hr, if_true] at h; cases h
  · simp only [hr] at h
    simp only [Bool.or_eq_true, decide_eq_true_eq, not_or] at hr
    cases hb : s.heap[w.buf]? with
    | none => simp only [hb] at h; cases h
    | some b =>
      simp only [hb] at h
      by_cases hk : w.off + i.toNat < b.size
      · simp only [hk, if_true, Bool.false_eq_true, if_false] at h
        refine ⟨b, by omega, by omega, rfl, hk, ?_⟩
        injection h with h; exact h.symm
      · simp only [hk, if_false, Bool.false_eq_true] at h; cases h

theorem St.get_set_same {s s' : St} {w : Win} {i : Int} {v : Val} (h : s.set w i v = .ok s') :
    s'.get w i = .ok v := by
  obtain ⟨b, h0, h1, hb, hk, rfl⟩ := St.set_ok h
  obtain ⟨hbuf, hbb⟩ := Array.getElem?_eq_some_iff.mp hb
  have hr : (decide (i < 0) || decide (i ≥ (w.len : Int))) = false := by
    simp only [Bool.or_eq_false_iff, decide_eq_false_iff_not]; omega
  simp [St.get, hr, hbuf, hk]

theorem St.get_set_other {s s' : St} {w : Win} {i j : Int} {v : Val} (h : s.set w i v = .ok s')
    (hne : j ≠ i) : s'.get w j = s.get w j := by
  obtain ⟨b, h0, h1, hb, hk, rfl⟩ := St.set_ok h
  obtain ⟨hbuf, hbb⟩ := Array.getElem?_eq_some_iff.mp hb
  unfold St.get
  by_cases hr : (decide (j < 0) || decide (j ≥ (w.len : Int))) = true
  · simp only [hr, if_true]
  · simp only [hr]
    simp only [Bool.or_eq_true, decide_eq_true_eq, not_or] at hr
    have hk' : i.toNat ≠ j.toNat := by omega
    simp [hbuf, hbb, hk']

theorem St.set_mheap {s s' : St} {w : Win} {i : Int} {v : Val} (h : s.set w i v = .ok s') :
    s'.mheap = s.mheap := by
  obtain ⟨b, _, _, _, _, rfl⟩ := St.set_ok h
  rfl

/-- frame: a successful `St.set` changes only cell `w.off + i` of buffer `w.buf`. -/
theorem St.set_frame {s s' : St} {w : Win} {i : Int} {v : Val} (h : s.set w i v = .ok s')
    (b k : Nat) (hne : b ≠ w.buf ∨ (k : Int) ≠ w.off + i) :
    (s'.heap[b]?).bind (·[k]?) = (s.heap[b]?).bind (·[k]?) := by
  obtain ⟨bb, h0, h1, hb, hk, rfl⟩ := St.set_ok h
  by_cases hbe : w.buf = b
  · subst hbe
    have hk' : w.off + i.toNat ≠ k := by
      rcases hne with hne | hne
      · exact absurd rfl hne
      · omega
    obtain ⟨hbuf, hbb⟩ := Array.getElem?_eq_some_iff.mp hb
    simp [hbuf, hbb, hk']
  · simp [hbe]

end TM
