package main

// Family Compat (C17): the generated per-type conversion code — tensor.ToMat64 (convToFloat64s /
// convToFloat64), tensor.FromMat64 (convFromFloat64s) and the typed accessors of
// gorgonia.org/tensor/native. Steps:
//
//	tomat $a [unsafe]                      ToMat64(t, [UseUnsafe()]): r, rows, cols, alias, data (RawMatrix().Data)
//	frommat <dt> <r>,<c> <vset> [unsafe]   FromMat64(mat.NewDense(r, c, values), As(dt), [UseUnsafe()]) -> new variable
//	native $a <vec|mat|t3> [<dt>]          native.Vector<T> / Matrix<T> / Tensor3<T> (T = <dt>, default: the tensor's type)
//
// Scalar functions evaluated here with Go's own conversions (see Ext/Compat.lean for their meaning):
// tof64, tof64b, cvt.<dt>, cvtm.<dt>.

import (
	"fmt"
	"math"
	"reflect"
	"strconv"
	"unsafe"

	"gonum.org/v1/gonum/mat"
	"gorgonia.org/tensor"
	"gorgonia.org/tensor/native"
)

func init() {
	extSteps["tomat"] = func(p *prog, idx int, toks []string) *rec { return p.stepToMat(toks) }
	extSteps["frommat"] = func(p *prog, idx int, toks []string) *rec { return p.stepFromMat(toks) }
	extSteps["native"] = func(p *prog, idx int, toks []string) *rec { return p.stepNative(toks) }
	extraOps["tof64"] = func(args []interface{}) (interface{}, error) { return toF64(args, false) }
	extraOps["tof64b"] = func(args []interface{}) (interface{}, error) { return toF64(args, true) }
	for _, d := range dtypes {
		name := d.name
		extraOps["cvt."+name] = func(args []interface{}) (interface{}, error) { return fromF64(name, args, false) }
		extraOps["cvtm."+name] = func(args []interface{}) (interface{}, error) { return fromF64(name, args, true) }
	}
}

// toF64: the type-generic element -> float64 conversion (Go's conversion; complex: the real part).
// bulk = as the float32 arm of convToFloat64s computes it (non-finite values special-cased to the same
// values, so there is nothing to distinguish); the arms of the other types are the per-element conversion itself.
func toF64(args []interface{}, bulk bool) (interface{}, error) {
	if len(args) != 1 {
		return nil, fmt.Errorf("tof64: bad arity")
	}
	switch x := args[0].(type) {
	case errMark:
		return x, nil
	case int:
		return float64(x), nil
	case int8:
		return float64(x), nil
	case int16:
		return float64(x), nil
	case int32:
		return float64(x), nil
	case int64:
		return float64(x), nil
	case uint:
		return float64(x), nil
	case uint8:
		return float64(x), nil
	case uint16:
		return float64(x), nil
	case uint32:
		return float64(x), nil
	case uint64:
		return float64(x), nil
	case float32:
		return float64(x), nil
	case float64:
		return x, nil
	case complex64:
		return float64(real(x)), nil
	case complex128:
		return real(x), nil
	}
	return nil, fmt.Errorf("tof64 on unsupported type %T", args[0])
}

// fromF64: float64 -> T. mirror=false: Go's own conversion (complex: complex(T'(v), 0)).
// mirror=true: as the arm of convFromFloat64s computes it (integers: NaN/Inf -> 0; the complex arms are
// the type-generic conversion).
func fromF64(dt string, args []interface{}, mirror bool) (interface{}, error) {
	if len(args) != 1 {
		return nil, fmt.Errorf("cvt: bad arity")
	}
	if m, ok := args[0].(errMark); ok {
		return m, nil
	}
	v, ok := args[0].(float64)
	if !ok {
		return nil, fmt.Errorf("cvt.%s on %T (float64 expected)", dt, args[0])
	}
	nonFinite := math.IsNaN(v) || math.IsInf(v, 0)
	d := dtByName(dt)
	if d == nil {
		return nil, fmt.Errorf("cvt: unknown type %q", dt)
	}
	if d.kind == "int" || d.kind == "uint" {
		if nonFinite {
			if mirror {
				return d.zero(), nil
			}
			return nil, fmt.Errorf("float64 -> %s of a non-finite value is implementation-dependent (outside the specification's domain)", dt)
		}
	}
	switch dt {
	case "i":
		return int(v), nil
	case "i8":
		return int8(v), nil
	case "i16":
		return int16(v), nil
	case "i32":
		return int32(v), nil
	case "i64":
		return int64(v), nil
	case "u":
		return uint(v), nil
	case "u8":
		return uint8(v), nil
	case "u16":
		return uint16(v), nil
	case "u32":
		return uint32(v), nil
	case "u64":
		return uint64(v), nil
	case "f32":
		return float32(v), nil
	case "f64":
		return v, nil
	case "c64":
		return complex(float32(v), float32(0)), nil
	case "c128":
		return complex(v, float64(0)), nil
	}
	return nil, fmt.Errorf("cvt: no conversion float64 -> %s", dt)
}

func compatOpts(toks []string) ([]tensor.FuncOpt, bool) {
	var out []tensor.FuncOpt
	for _, t := range toks {
		switch t {
		case "safe":
		case "unsafe":
			out = append(out, tensor.UseUnsafe())
		default:
			return nil, false
		}
	}
	return out, true
}

// stepToMat: `tomat $a [unsafe]`
func (p *prog) stepToMat(toks []string) *rec {
	if len(toks) < 2 {
		return simple("badprog")
	}
	opts, ok := compatOpts(toks[2:])
	if !ok {
		return simple("badprog")
	}
	t, dt := p.get(toks[1])
	if t == nil {
		return simple("skip")
	}
	var m *mat.Dense
	res := guard(func() error {
		var err error
		m, err = tensor.ToMat64(t, opts...)
		return err
	})
	r := simple(res)
	if res != "ok" {
		return r
	}
	r.dt = dt
	rows, cols := m.Dims()
	r.fields["rows"] = strconv.Itoa(rows)
	r.fields["cols"] = strconv.Itoa(cols)
	raw := m.RawMatrix()
	// read the matrix by coordinate (equal to raw.Data for the contiguous matrices NewDense builds)
	vals := make([]interface{}, 0, rows*cols)
	for i := 0; i < rows; i++ {
		for j := 0; j < cols; j++ {
			vals = append(vals, raw.Data[i*raw.Stride+j])
		}
	}
	r.vals["data"] = vals
	alias := false
	if addr, n, _ := tensor.VerifWindow(t); n > 0 && len(raw.Data) > 0 {
		alias = uintptr(unsafe.Pointer(&raw.Data[0])) == addr
	}
	r.fields["alias"] = b01(alias)
	return r
}

// matVal is entry i (row-major) of the matrix a `frommat` step builds, for target type d and value set vs.
//
//	0: distinct positive values with fractions
//	1: special values inside the range where float64 -> T is defined: zero, negative zero, negatives (signed
//	   targets), fractions, the extremes of T; float / complex targets also +-Inf, NaN, huge and denormal values
//	3: ties, halves and negatives (unsigned targets: non-negative)
//	5: non-finite values mixed with finite ones (integer targets: the specification gives no verdict on values)
func matVal(d *dtInfo, vs, i int) float64 {
	signed := d.kind != "uint"
	switch vs {
	case 1:
		switch d.kind {
		case "int":
			hi := math.Ldexp(1, d.bits-1) - 1 // exact for bits <= 32
			lo := -math.Ldexp(1, d.bits-1)
			if d.bits == 64 {
				hi = 9223372036854774784 // 2^63 - 1024: the largest float64 below 2^63
			}
			tab := []float64{0, math.Copysign(0, -1), 1, -1, 2.5, -7.75, hi, lo, 0.5, -0.5, 100.999, -100.999, 3, -2}
			return tab[i%len(tab)]
		case "uint":
			hi := math.Ldexp(1, d.bits) - 1
			if d.bits == 64 {
				hi = 18446744073709549568 // 2^64 - 2048
			}
			tab := []float64{0, 1, 2.5, 7.75, hi, 0.5, 100.999, 200, math.Floor(hi / 2), 3}
			return tab[i%len(tab)]
		default:
			tab := []float64{0, math.Copysign(0, -1), 1, -1, 2.5, -7.75, 1e30, -1e30, math.Inf(1), math.Inf(-1), math.NaN(), 5e-324, 0.1, 3, 100, -0.25}
			return tab[i%len(tab)]
		}
	case 3:
		k := float64((i * 3) % 5)
		if signed {
			return (k - 2) * 0.5
		}
		return k * 0.5
	case 5:
		tab := []float64{math.NaN(), math.Inf(1), math.Inf(-1), 1.5, 2}
		if signed {
			tab[4] = -2
		}
		return tab[i%len(tab)]
	}
	return 1 + float64(i) + 0.25*float64(i%4)
}

// stepFromMat: `frommat <dt> <r>,<c> <vset> [unsafe]`
func (p *prog) stepFromMat(toks []string) *rec {
	bad := func() *rec { p.push(nil, nil); return simple("badprog") }
	if len(toks) < 4 {
		return bad()
	}
	opts, ok := compatOpts(toks[4:])
	dt := dtByName(toks[1])
	shape, err := parseInts(toks[2])
	vs, err2 := strconv.Atoi(toks[3])
	if !ok || dt == nil || err != nil || err2 != nil || len(shape) != 2 || shape[0] <= 0 || shape[1] <= 0 {
		return bad()
	}
	rows, cols := shape[0], shape[1]
	n := rows * cols
	p.nbuf++
	in := make([]interface{}, n)
	data := make([]float64, n)
	for i := range data {
		data[i] = matVal(dt, vs, i)
		in[i] = data[i]
	}
	p.inputs = append(p.inputs, in)
	m := mat.NewDense(rows, cols, data)
	opts = append(opts, tensor.As(dt.dt))
	var out *tensor.Dense
	res := guard(func() error { out = tensor.FromMat64(m, opts...); return nil })
	if res != "ok" {
		out = nil
	}
	p.push(out, dt)
	r := simple(res)
	if res == "ok" {
		alias := false
		if addr, k, _ := tensor.VerifWindow(out); k > 0 {
			alias = uintptr(unsafe.Pointer(&data[0])) == addr
		}
		r.fields["alias"] = b01(alias)
	}
	return r
}

var nativeFns = map[string]interface{}{
	"vecB": native.VectorB, "matB": native.MatrixB, "t3B": native.Tensor3B,
	"vecI": native.VectorI, "matI": native.MatrixI, "t3I": native.Tensor3I,
	"vecI8": native.VectorI8, "matI8": native.MatrixI8, "t3I8": native.Tensor3I8,
	"vecI16": native.VectorI16, "matI16": native.MatrixI16, "t3I16": native.Tensor3I16,
	"vecI32": native.VectorI32, "matI32": native.MatrixI32, "t3I32": native.Tensor3I32,
	"vecI64": native.VectorI64, "matI64": native.MatrixI64, "t3I64": native.Tensor3I64,
	"vecU": native.VectorU, "matU": native.MatrixU, "t3U": native.Tensor3U,
	"vecU8": native.VectorU8, "matU8": native.MatrixU8, "t3U8": native.Tensor3U8,
	"vecU16": native.VectorU16, "matU16": native.MatrixU16, "t3U16": native.Tensor3U16,
	"vecU32": native.VectorU32, "matU32": native.MatrixU32, "t3U32": native.Tensor3U32,
	"vecU64": native.VectorU64, "matU64": native.MatrixU64, "t3U64": native.Tensor3U64,
	"vecF32": native.VectorF32, "matF32": native.MatrixF32, "t3F32": native.Tensor3F32,
	"vecF64": native.VectorF64, "matF64": native.MatrixF64, "t3F64": native.Tensor3F64,
	"vecC64": native.VectorC64, "matC64": native.MatrixC64, "t3C64": native.Tensor3C64,
	"vecC128": native.VectorC128, "matC128": native.MatrixC128, "t3C128": native.Tensor3C128,
	"vecStr": native.VectorStr, "matStr": native.MatrixStr, "t3Str": native.Tensor3Str,
}

var nativeSuffix = map[string]string{
	"b": "B", "i": "I", "i8": "I8", "i16": "I16", "i32": "I32", "i64": "I64",
	"u": "U", "u8": "U8", "u16": "U16", "u32": "U32", "u64": "U64",
	"f32": "F32", "f64": "F64", "c64": "C64", "c128": "C128", "str": "Str",
}

func flattenNested(v reflect.Value, out *[]interface{}) {
	if v.Kind() == reflect.Slice {
		for i := 0; i < v.Len(); i++ {
			flattenNested(v.Index(i), out)
		}
		return
	}
	*out = append(*out, v.Interface())
}

// stepNative: `native $a <vec|mat|t3> [<dt>]`
func (p *prog) stepNative(toks []string) *rec {
	if len(toks) < 3 || len(toks) > 4 {
		return simple("badprog")
	}
	kind := toks[2]
	if kind != "vec" && kind != "mat" && kind != "t3" {
		return simple("badprog")
	}
	t, dt := p.get(toks[1])
	if t == nil {
		return simple("skip")
	}
	acc := dt.name
	if len(toks) == 4 {
		acc = toks[3]
	}
	fn, ok := nativeFns[kind+nativeSuffix[acc]]
	if !ok {
		// no accessor of that name: the model answers with the type refusal; keep the two sides aligned
		return simple("err")
	}
	var elems []interface{}
	res := guard(func() error {
		out := reflect.ValueOf(fn).Call([]reflect.Value{reflect.ValueOf(t)})
		if e, _ := out[1].Interface().(error); e != nil {
			return e
		}
		flattenNested(out[0], &elems)
		return nil
	})
	r := simple(res)
	if res == "ok" {
		r.dt = dt
		r.vals["elems"] = elems
	}
	return r
}
