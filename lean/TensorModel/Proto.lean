import TensorModel.Dense2
/-! Line protocol shared with the Go harness: parsing of program steps, printing of observations. -/
namespace TM

def parseIntList (s : String) : Option (List Int) :=
  if s == "-" || s == "" then some [] else (s.splitOn ",").mapM String.toInt?

/-- `n` = nil slice, `i` = single index (`ss`), `s:e` (step 1), `s:e:st` -/
def parseSl (s : String) : Option (Option Sl) :=
  if s == "n" then some none else
  -- `S…`: the slice is built with the library's constructor `S(start, opt...)` (`slice.go`): end defaults to
  -- start+1; the step is the third argument when given, else 0 for a one-element range and 1 otherwise
  if s.startsWith "S" then
    match ((s.drop 1).toString.splitOn ":").mapM String.toInt? with
    | some [i] => some (some ⟨i, i + 1, 0⟩)
    | some [a, b] => some (some ⟨a, b, if b == a + 1 then 0 else 1⟩)
    | some [a, b, c] => some (some ⟨a, b, c⟩)
    | _ => none
  else
  match (s.splitOn ":").mapM String.toInt? with
  | some [i] => some (some ⟨i, i + 1, 0⟩)
  | some [a, b] => some (some ⟨a, b, 1⟩)
  | some [a, b, c] => some (some ⟨a, b, c⟩)
  | _ => none

def parseSlList (s : String) : Option (List (Option Sl)) :=
  if s == "-" then some [] else (s.splitOn ",").mapM parseSl

def parseVar (s : String) : Option Nat :=
  if s.startsWith "$" then (s.drop 1).toString.toNat? else none

def showInts (l : List Int) : String :=
  if l.isEmpty then "-" else String.intercalate "," (l.map toString)

def showVals (l : List Val) : String :=
  if l.isEmpty then "-" else String.intercalate "," (l.map Val.toStr)

def showBools (l : List Bool) : String :=
  if l.isEmpty then "-" else String.ofList (l.map (fun b => if b then '1' else '0'))

def Order.show (o : Order) : String :=
  (if o.col then "F" else "C") ++ (if o.nonContig then "n" else "c") ++ (if o.transposed then "t" else "-")

def showRes {α} (r : Res α) (f : α → String) : String :=
  match r with
  | .ok a => f a
  | .error (.err _) => "err"
  | .error (.panic _) => "panic"

/-- all coordinates of a shape in row-major order -/
def allCoords : Shape → List (List Int)
  | [] => [[]]
  | d :: ds => (rangeI d.toNat).flatMap (fun i => (allCoords ds).map (i :: ·))

end TM
