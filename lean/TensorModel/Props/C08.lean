import TensorModel.Proofs.Reduce
import TensorModel.Proofs.Views
import TensorModel.Proofs.Kernels
import TensorModel.Proofs.Compact
/-!
  C08 — reductions fold exactly the elements along the requested axes.
  Property theorems about the model functions of `TensorModel/Ext/Reduce.lean`; helper lemmas live
  in `TensorModel/Proofs/Reduce.lean`.

  S is `Red.specAxis F sh k l`: the reduction of axis `k` of the logical array with row-major listing
  `l` and shape `sh`, where `F` folds the elements met along the axis (in axis order).
-/
namespace TM.C08
open TM TM.Red

theorem throwErr_bind {α β : Type} (t : String) (f : α → Res β) : (throwErr t >>= f) = throwErr t := rfl
theorem throwPanic_bind {α β : Type} (t : String) (f : α → Res β) : (throwPanic t >>= f) = throwPanic t := rfl
theorem throwErr_map {α β : Type} (t : String) (f : α → β) : (f <$> (throwErr t : Res α)) = throwErr t := rfl
theorem ok_bind {α β : Type} (x : α) (f : α → Res β) : ((Except.ok x : Res α) >>= f) = f x := rfl
theorem pure_bind' {α β : Type} (x : α) (f : α → Res β) : ((pure x : Res α) >>= f) = f x := rfl

/-! ## 1. Decision logic: what is refused -/

/-- an axis outside the rank is refused with an error (negative axes are not caught here) -/
theorem prepReduce_axis_oob (st : St) (a : Dense) (axis : Int) (h : axis ≥ a.dims) :
    prepReduce st a axis = throwErr "dimMismatch" := by
  simp [prepReduce, h, throwErr_bind]

/-- **An operand that needs an iterator (non-contiguous view, pending transpose, masked) is refused
    with an error, never folded.** -/
theorem prepReduce_refuses_iterable (st : St) (a : Dense) (axis : Int) (h : a.requiresIterator = true) :
    ∃ tag, prepReduce st a axis = .error (.err tag) := by
  unfold prepReduce
  by_cases hax : axis ≥ a.dims
  · exact ⟨_, by simp [hax, throwErr_bind]; rfl⟩
  · exact ⟨_, by simp [hax, h, throwErr_map]; rfl⟩

/-- `compactOperand` leaves views, lazily transposed tensors and tensors in their default layout alone -/
theorem compactOperand_default (st : St) (a : Dense) (h : (a.isMaterializable || a.hasDefaultLayout) = true) :
    compactOperand st a = .ok (st, a) := by
  unfold compactOperand
  have : (!a.isMaterializable && !a.hasDefaultLayout) = false := by
    cases h1 : a.isMaterializable <;> cases h2 : a.hasDefaultLayout <;> simp_all
  simp [this]

/-- what `compactOperand` hands on: a tensor of the same shape and element type; nothing that existed is written -/
theorem compactOperand_ok (st st1 : St) (a a1 : Dense) (h : compactOperand st a = .ok (st1, a1)) :
    a1.shape = a.shape ∧ a1.dt = a.dt ∧ st.heap.size ≤ st1.heap.size ∧
      (∀ b k : Nat, b < st.heap.size → (st1.heap[b]?).bind (·[k]?) = (st.heap[b]?).bind (·[k]?)) := by
  unfold compactOperand at h
  split at h
  · obtain ⟨cap, _, cdt, _, _, _, _, hsz, hfr⟩ := compacted_spec st st1 a a1 h
    refine ⟨by rw [Dense.shape, cap], cdt, by omega, fun b k hb => by rw [hfr b hb]⟩
  · simp only [Except.ok.injEq, Prod.mk.injEq] at h
    obtain ⟨rfl, rfl⟩ := h
    exact ⟨rfl, rfl, Nat.le_refl _, fun _ _ _ => rfl⟩

/-- a view, a lazily transposed or a masked tensor that needs its iterator is refused by every reduction step; a
    tensor that owns its data in another layout than the default one is not: it is compacted first
    (`optimizedReduce_compacts`) -/
theorem optimizedReduce_refuses_iterable (st : St) (op : RedOp) (a : Dense) (axis : Int)
    (h : a.requiresIterator = true) (hc : (a.isMaterializable || a.hasDefaultLayout) = true) :
    ∃ tag, optimizedReduce st op a axis = .error (.err tag) := by
  obtain ⟨tag, ht⟩ := prepReduce_refuses_iterable st a axis h
  exact ⟨tag, by simp [optimizedReduce, compactOperand_default st a hc, ht, bind, Except.bind]⟩

/-- **(after the repair of finding F44)** a reduction step on a tensor that owns its data without holding it in the
    default layout of its shape (the clone of a non-contiguous view) is the step on its compact copy -/
theorem optimizedReduce_compacts (st : St) (op : RedOp) (a : Dense) (axis : Int)
    (hm : a.isMaterializable = false) (hd : a.hasDefaultLayout = false) (hnn : 0 ≤ totalSize a.shape) :
    optimizedReduce st op a axis = (do
      let (st1, c) ← a.compacted st
      optimizedReduce st1 op c axis) := by
  cases hc : a.compacted st with
  | error e => simp [optimizedReduce, compactOperand, hm, hd, hc, bind, Except.bind]
  | ok p =>
    obtain ⟨st1, c⟩ := p
    have h2 : compactOperand st1 c = .ok (st1, c) := compactOperand_default st1 c (by
      rw [compacted_hasDefaultLayout st st1 a c hc hnn]; simp)
    show optimizedReduce st op a axis = optimizedReduce st1 op c axis
    unfold optimizedReduce
    rw [h2]
    simp [compactOperand, hm, hd, hc]

/-- the generic `Reduce` and every step of `Sum/Max/Min`: a column-major operand is refused ("NYI")
    when the axis is the first or the last one -/
theorem reduceVals_colmajor_refused (op : RedOp) (a reuse : Dense) (data : List Val) (axis : Int)
    (hc : a.ap.o.col = true) (hax : axis = 0 ∨ axis = (a.dims : Int) - 1) :
    reduceVals op a reuse data axis = throwErr "NYI: colmajor" := by
  unfold reduceVals
  rcases hax with h | h
  · subst h
    by_cases h0 : (0 : Int) = (a.dims : Int) - 1
    · simp [hc, ← h0, throwErr_bind]
    · have : ((0 : Int) == (a.dims : Int) - 1) = false := by simp [h0]
      simp [hc, this, throwErr_bind]
  · subst h
    simp [hc, throwErr_bind]

/-- `Sum/Max/Min` refuse an element type without a method triple, on both paths -/
theorem engReduce_unsupported_type (st : St) (op : RedOp) (a : Dense) (along : List Int)
    (hm : a.isMaterializable = false) (hd : a.hasDefaultLayout = true) (ht : op.types.contains a.dt = false) :
    ∃ tag, (engReduce st op a along).res = .error (.err tag) := by
  have ht' : a.dt ∉ op.types := by simpa using ht
  unfold engReduce
  simp only [hm, Bool.false_eq_true, if_false, Option.getD_none, compactOperand_default st a (by simp [hd])]
  by_cases hs : allAxesShortcut along a.dims = true
  · exact ⟨_, by simp [hs, ht', throwErr]; rfl⟩
  · exact ⟨_, by simp [hs, ht', throwErr]; rfl⟩

/-- … whatever the layout of the operand: such an element type is never folded -/
theorem engReduce_unsupported_type_never (st : St) (op : RedOp) (a : Dense) (along : List Int)
    (hm : a.isMaterializable = false) (ht : op.types.contains a.dt = false) (r : Dense) :
    (engReduce st op a along).res ≠ .ok r := by
  unfold engReduce
  simp only [hm, Bool.false_eq_true, if_false, Option.getD_none]
  cases hc : compactOperand st a with
  | error e => simp
  | ok p =>
    obtain ⟨st1, a2⟩ := p
    have hdt : a2.dt = a.dt := (compactOperand_ok st st1 a a2 hc).2.1
    have ht' : a2.dt ∉ op.types := by rw [hdt]; simpa using ht
    by_cases hs : allAxesShortcut along a2.dims = true
    · simp [hs, ht', throwErr]
    · simp [hs, ht', throwErr]

/-- no axes given = all axes -/
theorem allAxes_nil (n : Nat) : allAxesShortcut [] n = true := by
  simp [allAxesShortcut]

/-- the shortcut is taken for `0,1,…,n-1` — and, the start not being checked, for every run of `n`
    consecutive integers (`Sum(t, 1, 2)` of a matrix is the total, not an error) -/
example : allAxesShortcut [0, 1, 2] 3 = true ∧ allAxesShortcut [1, 2] 2 = true ∧ allAxesShortcut [-1, 0] 2 = true ∧
    allAxesShortcut [1, 0] 2 = false ∧ allAxesShortcut [0, 2] 2 = false ∧ allAxesShortcut [0, 1] 3 = false := by
  decide

/-- arg-reductions refuse unordered element types and an axis outside the rank -/
theorem engArg_refuses (st : St) (isMax : Bool) (vs : Nat) (t : Dense) (axis : Int)
    (h : ordTypes.contains t.dt = false ∨ axis ≥ t.dims) :
    ∃ tag, engArg st isMax vs t axis = .error (.err tag) := by
  unfold engArg
  by_cases ho : t.dt ∈ ordTypes
  · rcases h with h | h
    · exact absurd ho (by simpa using h)
    · exact ⟨_, by simp [ho, h, throwErr_bind]; rfl⟩
  · exact ⟨_, by simp [ho, throwErr_bind]; rfl⟩

/-! ## 2. Result shape -/

/-- S: reducing a set of axes removes exactly those axes from the shape -/
theorem specAxes_shape {α : Type} [Inhabited α] (F : List α → α) : ∀ (axes sh : List Nat) (l : List α),
    (specAxes F sh axes l).1 = axes.foldl (fun s k => s.eraseIdx k) sh
  | [], _, _ => rfl
  | k :: ks, sh, l => by simp [specAxes, specAxes_shape F ks]

theorem erase_all : ∀ (n : Nat) (sh : List Nat), sh.length = n →
    (List.range n).reverse.foldl (fun s k => s.eraseIdx k) sh = []
  | 0, sh, h => by simp [List.length_eq_zero_iff.mp h]
  | n + 1, sh, h => by
    rw [List.range_succ, List.reverse_append]
    simp only [List.reverse_cons, List.reverse_nil, List.nil_append, List.singleton_append, List.foldl_cons]
    apply erase_all n
    rw [List.length_eraseIdx, if_pos (by omega)]; omega

/-- S: a scalar when all axes are reduced -/
theorem specAxes_all_scalar {α : Type} [Inhabited α] (F : List α → α) (sh : List Nat) (l : List α) :
    (specAxes F sh (List.range sh.length).reverse l).1 = [] := by
  rw [specAxes_shape]; exact erase_all sh.length sh rfl

theorem length_flatMap_const {β γ : Type} (f : β → List γ) (n : Nat) :
    ∀ (l : List β), (∀ a ∈ l, (f a).length = n) → (l.flatMap f).length = l.length * n
  | [], _ => by simp
  | x :: xs, h => by
    rw [List.flatMap_cons, List.length_append, h x (by simp),
      length_flatMap_const f n xs (fun a ha => h a (by simp [ha])), List.length_cons, Nat.add_mul, Nat.one_mul, Nat.add_comm]

/-- S: the result has as many elements as the reduced shape -/
theorem specAxis_length {α : Type} [Inhabited α] (F : List α → α) : ∀ (sh : List Nat) (k : Nat) (l : List α),
    l.length = prodN sh → k < sh.length → (specAxis F sh k l).length = prodN (sh.eraseIdx k)
  | [], _, _, _, hk => by simp at hk
  | d :: ds, 0, l, _, _ => by simp [specAxis, columns]
  | d :: ds, k + 1, l, hl, hk => by
    simp only [prodN] at hl
    simp only [specAxis, List.eraseIdx_cons_succ, prodN]
    rw [length_flatMap_const _ (prodN (ds.eraseIdx k)), chunks_length]
    intro c hc
    exact specAxis_length F ds k c (chunks_mem_length _ _ _ (Nat.le_of_eq hl.symm) c hc) (by simpa using hk)

/-- the shape computed by `prepReduce` is the shape with the axis erased -/
theorem removeAxis_aux : ∀ (sh : Shape) (j : Int) (k : Nat),
    ((sh.zip ((List.range sh.length).map (fun (i : Nat) => (i : Int) + j))).filterMap
      (fun (p : Int × Int) => if p.2 == (k : Int) + j then none else some p.1)) = sh.eraseIdx k
  | [], _, _ => by simp
  | d :: ds, j, 0 => by
    rw [List.length_cons, List.range_succ_eq_map]
    simp only [List.map_cons, List.map_map, List.zip_cons_cons, List.filterMap_cons, Int.natCast_zero, Int.zero_add,
      beq_self_eq_true, if_true, List.eraseIdx_cons_zero]
    have key : ∀ (ds : Shape) (f : Nat → Int), (∀ i, f i ≠ j) →
        ((ds.zip ((List.range ds.length).map f)).filterMap
          (fun (p : Int × Int) => if p.2 == j then none else some p.1)) = ds := by
      intro ds
      induction ds with
      | nil => intro f _; simp
      | cons x xs ih =>
        intro f hf
        rw [List.length_cons, List.range_succ_eq_map]
        simp only [List.map_cons, List.map_map, List.zip_cons_cons, List.filterMap_cons]
        have : (f 0 == j) = false := by simp [hf 0]
        simp only [this, Bool.false_eq_true, if_false]
        rw [ih (f ∘ Nat.succ) (fun i => hf _)]
    apply key
    intro i
    simp only [Function.comp, Nat.succ_eq_add_one, Int.natCast_add, Int.natCast_one]
    omega
  | d :: ds, j, k + 1 => by
    rw [List.length_cons, List.range_succ_eq_map]
    simp only [List.map_cons, List.map_map, List.zip_cons_cons, List.filterMap_cons, List.eraseIdx_cons_succ]
    have h0 : (((0 : Nat) : Int) + j == ((k + 1 : Nat) : Int) + j) = false := by
      simp only [beq_eq_false_iff_ne, ne_eq]; omega
    simp only [h0, Bool.false_eq_true, if_false]
    congr 1
    have := removeAxis_aux ds (j + 1) k
    rw [← this]
    congr 2
    · funext p
      have : ((k + 1 : Nat) : Int) + j = (k : Int) + (j + 1) := by omega
      rw [this]
    · apply List.map_congr_left
      intro i _
      simp only [Function.comp, Nat.succ_eq_add_one, Int.natCast_add, Int.natCast_one]; omega

theorem removeAxis_eq_eraseIdx (sh : Shape) (k : Nat) : removeAxis sh k = sh.eraseIdx k := by
  have := removeAxis_aux sh 0 k
  simp only [Int.add_zero] at this
  rw [← this]
  rfl

/-- M: what `prepReduce` hands to the kernels: a fresh, plain, row-major tensor of the operand's element
    type whose shape is the operand's shape with the axis removed, in a buffer of its own. -/
theorem prepReduce_ok (st st' : St) (a r : Dense) (axis : Int) (h : prepReduce st a axis = .ok (st', r)) :
    r.shape = removeAxis a.shape axis ∧ r.strides = calcStrides r.shape ∧ r.dt = a.dt ∧ r.view = false ∧
      r.old = none ∧ r.ap.o = {} ∧ r.win.buf = st.heap.size ∧ r.win.off = 0 ∧ st'.heap.size = st.heap.size + 1 ∧
      a.requiresIterator = false ∧ axis < a.dims ∧
      (∀ b k : Nat, b < st.heap.size → (st'.heap[b]?).bind (·[k]?) = (st.heap[b]?).bind (·[k]?)) := by
  unfold prepReduce at h
  by_cases hax : axis ≥ a.dims
  · rw [if_pos hax] at h; cases h
  · rw [if_neg hax] at h
    by_cases hit : (a.requiresIterator || (Dense.fresh st a.dt (removeAxis a.shape axis) false
        (Array.replicate (freshSize (removeAxis a.shape axis)) Val.zero) a.eng).snd.requiresIterator) = true
    · simp only [hit, if_true] at h; cases h
    · simp only [hit, Bool.false_eq_true, if_false] at h
      injection h with h
      injection h with h1 h2
      subst h1; subst h2
      simp only [Bool.or_eq_true, not_or, Bool.not_eq_true] at hit
      refine ⟨rfl, rfl, rfl, rfl, rfl, rfl, rfl, rfl, by simp [Dense.fresh, St.alloc], hit.1, by omega, ?_⟩
      intro b k hb
      exact push_cell st.heap _ b k hb

theorem writeVals_ok (st st' : St) (reuse r : Dense) (vals : List Val) (h : writeVals st reuse vals = .ok (st', r)) :
    r = reuse ∧ ∀ b k : Nat, b ≠ reuse.win.buf → (st'.heap[b]?).bind (·[k]?) = (st.heap[b]?).bind (·[k]?) := by
  unfold writeVals at h
  split at h
  · cases h
  · cases hf : (vals.zip (rangeI vals.length)).foldlM (fun st (x : Val × Int) => st.set reuse.win x.2 x.1) st with
    | error e => rw [hf] at h; cases h
    | ok s1 =>
      rw [hf] at h
      injection h with h
      injection h with h1 h2
      subst h1; subst h2
      refine ⟨rfl, ?_⟩
      intro b k hb
      exact foldlM_inv (fun st (x : Val × Int) => st.set reuse.win x.2 x.1)
        (fun x => (x.heap[b]?).bind (·[k]?) = (st.heap[b]?).bind (·[k]?)) _
        (fun s a s' _ hs hP => by rw [← hP]; exact St.set_frame hs b k (Or.inl hb)) st _ hf rfl

/-- **M: one reduction step returns a new tensor whose shape is the operand's with the axis removed,
    and leaves every cell of every existing buffer — in particular the operand — unchanged.** -/
theorem optimizedReduce_ok (st st' : St) (op : RedOp) (a r : Dense) (axis : Int)
    (h : optimizedReduce st op a axis = .ok (st', r)) :
    r.shape = removeAxis a.shape axis ∧ r.strides = calcStrides r.shape ∧ r.dt = a.dt ∧ r.view = false ∧
      st.heap.size ≤ r.win.buf ∧
      (∀ b k : Nat, b < st.heap.size → (st'.heap[b]?).bind (·[k]?) = (st.heap[b]?).bind (·[k]?)) := by
  unfold optimizedReduce at h
  cases hco : compactOperand st a with
  | error e => rw [hco] at h; cases h
  | ok p0 =>
  obtain ⟨st0, a0⟩ := p0
  rw [hco] at h
  simp only [ok_bind] at h
  obtain ⟨c1, c2, c3, c4⟩ := compactOperand_ok st st0 a a0 hco
  cases hp : prepReduce st0 a0 axis with
  | error e => rw [hp] at h; cases h
  | ok p =>
    obtain ⟨st1, reuse⟩ := p
    rw [hp] at h
    simp only [ok_bind] at h
    cases hd : a0.rawCells st1 with
    | error e => rw [hd] at h; cases h
    | ok data =>
      rw [hd] at h
      simp only [ok_bind] at h
      cases hv : reduceVals op a0 reuse data axis with
      | error e => rw [hv] at h; cases h
      | ok vals =>
        rw [hv] at h
        simp only [ok_bind] at h
        obtain ⟨h1, h2, h3, h4, _, _, h7, _, _, _, _, h12⟩ := prepReduce_ok st0 st1 a0 reuse axis hp
        obtain ⟨hr, hfr⟩ := writeVals_ok st1 st' reuse r vals h
        subst hr
        refine ⟨by rw [h1, c1], h2, by rw [h3, c2], h4, by omega, ?_⟩
        intro b k hb
        rw [hfr b k (by omega), h12 b k (by omega), c4 b k hb]

/-- with a natural-number axis the removed axis is `eraseIdx` -/
theorem optimizedReduce_shape (st st' : St) (op : RedOp) (a r : Dense) (k : Nat)
    (h : optimizedReduce st op a k = .ok (st', r)) : r.shape = a.shape.eraseIdx k := by
  rw [(optimizedReduce_ok st st' op a r k h).1, removeAxis_eq_eraseIdx]

/-- M: the all-axes shortcut returns a scalar (rank 0) -/
theorem engReduce_allAxes_scalar (st : St) (op : RedOp) (a r : Dense) (along : List Int)
    (hm : a.isMaterializable = false) (hs : allAxesShortcut along a.dims = true)
    (h : (engReduce st op a along).res = .ok r) : r.shape = [] ∧ r.strides = [] := by
  unfold engReduce at h
  simp only [hm, Bool.false_eq_true, if_false, Option.getD_none] at h
  cases hc : compactOperand st a with
  | error e => rw [hc] at h; cases h
  | ok p =>
    obtain ⟨st1, a2⟩ := p
    rw [hc] at h
    have hdims : a2.dims = a.dims := by
      have := (compactOperand_ok st st1 a a2 hc).1
      unfold Dense.dims; unfold Dense.shape at this; rw [this]
    simp only [hdims, hs, if_true] at h
    split at h
    · cases h
    · split at h
      · cases h
      · split at h
        · cases h
        · injection h with h; subst h; exact ⟨rfl, rfl⟩

/-- **(after the repair of finding F44) the all-axes shortcut of `Sum/Max/Min` folds exactly the elements** of a
    tensor that owns its data without holding it in the default layout (the clone of a non-contiguous view keeps the
    view's window — before the repair `Monotonic<Op>` folded the cells between the elements too): row-major, flagged
    non-contiguous, unmasked, its pattern inside its window, any rank and strides. The call succeeds and returns a
    new scalar holding the kernel's fold of the row-major listing of the tensor's elements; nothing that existed is
    written. -/
theorem engReduce_allAxes_folds_elements (st : St) (op : RedOp) (a : Dense) (along : List Int)
    (hm : a.isMaterializable = false) (hd : a.hasDefaultLayout = false)
    (hs : allAxesShortcut along a.dims = true) (ht : op.types.contains a.dt = true)
    (hrow : a.ap.o.col = false) (hit : a.requiresIterator = true) (hnm : a.mask = none) (hlen0 : a.win.len ≠ 0)
    (hne : a.ap.shape ≠ [])
    (hl : a.ap.strides.length = a.ap.shape.length) (hp : ∀ d ∈ a.ap.shape, 0 < d)
    (hcap : a.win.len ≤ a.win.cap) (hbuf : a.win.buf < st.heap.size)
    (hr : ∀ c ∈ allCoords a.ap.shape, 0 ≤ dot c a.ap.strides ∧ dot c a.ap.strides < (a.win.len : Int))
    (hh : Has st a.win.buf a.win.off a.win.len) :
    ∃ r, (engReduce st op a along).res = .ok r ∧ r.shape = [] ∧ r.win.off = 0 ∧
      cell (engReduce st op a along).st r.win.buf 0 = some (rowFold op.lastF op.lastInit
        ((allCoords a.ap.shape).map (fun x => cellD st a.win.buf (a.win.off + (dot x a.ap.strides).toNat)))) ∧
      (∀ b k, b < st.heap.size → cell (engReduce st op a along).st b k = cell st b k) := by
  obtain ⟨st1, c, hc, hcs, hcd, _, hraw, hfr⟩ :=
    compacted_rawCells_rowMajor st a hrow hit hnm hlen0 hne hl hp hcap hbuf hr hh
  have hco : compactOperand st a = .ok (st1, c) := by simp [compactOperand, hm, hd, hc]
  have hdims : c.dims = a.dims := by unfold Dense.dims; unfold Dense.shape at hcs; rw [hcs]
  have ht' : (!op.types.contains c.dt) = false := by rw [hcd, ht]; rfl
  have hnonempty : ((allCoords a.ap.shape).map
      (fun x => cellD st a.win.buf (a.win.off + (dot x a.ap.strides).toNat))).isEmpty = false := by
    have hlenr := congrArg List.length (C17compat.allCoords_map_rowRank a.ap.shape hp)
    have hpp := prod_pos _ hp
    cases hac : allCoords a.ap.shape with
    | nil => rw [hac] at hlenr; simp [rangeI] at hlenr; omega
    | cons _ _ => rfl
  have hsz1 := (compacted_spec st st1 a c hc).2.2.2.2.2.2.2.1
  unfold engReduce
  simp only [hm, Bool.false_eq_true, if_false, Option.getD_none, hco, hdims, hs, if_true, ht', hraw, hnonempty,
    Bool.and_false, Dense.fresh, St.alloc]
  refine ⟨_, rfl, rfl, rfl, ?_, ?_⟩
  · simp [cell]
  · intro b k hb
    rw [cell_push_lt _ _ _ _ (by omega)]
    exact hfr b k hb

/-- non-vacuity (the witness of finding F44): the clone of `a[0:6:2]` — three elements, stride 2, a window of five
    cells, flagged non-contiguous, not a view — meets the hypotheses; `Sum` folds its three elements (before the
    repair: all five cells of the window) -/
def f44St : St := { heap := #[#[.src 0 0, .src 0 1, .src 0 2, .src 0 3, .src 0 4]] }
def f44Clone : Dense := { ap := { shape := [3], strides := [2], fin := true, o := { nonContig := true } },
                          win := ⟨0, 0, 5, 5⟩, dt := "i" }
example : f44Clone.isMaterializable = false ∧ f44Clone.hasDefaultLayout = false ∧ f44Clone.requiresIterator = true ∧
    allAxesShortcut [] f44Clone.dims = true ∧ sumOp.types.contains f44Clone.dt = true ∧
    (match (engReduce f44St sumOp f44Clone []).res with
     | .ok r => r.shape == [] &&
         ((engReduce f44St sumOp f44Clone []).st.heap[r.win.buf]? ==
           some #[.app2 "add" (.app2 "add" (.app2 "add" .zero (.src 0 0)) (.src 0 2)) (.src 0 4)])
     | _ => false) = true := by decide

/-! ## 3. The kernels compute S's fold on a contiguous row-major operand (any rank) -/

/-- **`reduceFirst`** (axis 0; `Vec<Op>` accumulated slab by slab) on the row-major listing of an array
    of shape `d :: ds` = S's reduction of axis 0, every element folded left to right from the first. -/
theorem reduceFirst_spec {α : Type} [Inhabited α] (f : α → α → α) (d : Nat) (ds : List Nat) (data : List α)
    (hd : 1 ≤ d) (hlen : data.length = prodN (d :: ds)) :
    reduceFirstK f data (prodN ds) d = specAxis (fold1 f) (d :: ds) 0 data :=
  reduceFirstK_spec' f d ds data hd (by simpa [prodN] using hlen)

/-- **`reduceLast`** (last axis; rows folded left to right) on the row-major listing of an array of
    shape `pre ++ [d]` = S's reduction of the last axis with the same row fold. -/
theorem reduceLast_spec {α : Type} [Inhabited α] (F : List α → α) (pre : List Nat) (d : Nat) (data : List α)
    (hd : 0 < d) (hlen : data.length = prodN (pre ++ [d])) :
    reduceLastK F data d = specAxis F (pre ++ [d]) pre.length data :=
  reduceLastK_spec' F pre d data hd hlen

/-- a row fold that starts from a left identity (`Sum<T>`: `0 + x₁ + …`) is the fold from the first element -/
theorem rowFold_leftId {α : Type} [Inhabited α] (f : α → α → α) (z : α) (hz : ∀ x, f z x = x) :
    ∀ (row : List α), row ≠ [] → rowFold f (some z) row = fold1 f row
  | [], h => absurd rfl h
  | x :: xs, _ => by simp [rowFold, fold1, hz]

/-- `Sum` along the last axis = S's canonical fold, provided the zero value is a left identity of the
    addition (integers, complex and floating point numbers except for the sign of a zero sum). -/
theorem sumLast_spec {α : Type} [Inhabited α] (f : α → α → α) (z : α) (hz : ∀ x, f z x = x)
    (pre : List Nat) (d : Nat) (data : List α) (hd : 0 < d) (hlen : data.length = prodN (pre ++ [d])) :
    reduceLastK (rowFold f (some z)) data d = specAxis (fold1 f) (pre ++ [d]) pre.length data := by
  rw [← reduceLast_spec (fold1 f) pre d data hd hlen]
  have hp : prodN (pre ++ [d]) = prodN pre * d := by simp [prodN_append, prodN]
  simp only [reduceLastK]
  apply List.map_congr_left
  intro c hc
  apply rowFold_leftId f z hz
  have := chunks_mem_length d (data.length / d) data (Nat.div_mul_le_self _ _) c hc
  intro h0; rw [h0] at this; simp at this; omega

theorem goDiv_cast (d m : Nat) (hd : 0 < d) : goDiv ((d * m : Nat) : Int) (d : Int) = (m : Int) := by
  rw [goDiv, Int.natCast_mul]
  exact Int.mul_tdiv_cancel_left _ (by omega)

theorem natOf_cast (what : String) (n : Nat) : natOf what (n : Int) = .ok n := by
  have : ¬ ((n : Int) < 0) := by omega
  simp [natOf, this]

/-- M's kernel selection, axis 0 of a row-major operand whose window holds `d·m` cells: the first-axis kernel
    with `split = m`, `size = d`, and no bounds panic. -/
theorem reduceVals_first (op : RedOp) (a reuse : Dense) (data : List Val) (d m : Nat) (rest : Shape)
    (hcol : a.ap.o.col = false) (hsh : a.ap.shape = (d : Int) :: rest) (hd : 1 ≤ d)
    (hlen : a.win.len = d * m) (hcap : d * m ≤ a.win.cap)
    (hr : reuse.win.len = m) (hrc : m ≤ reuse.win.cap) (hdata : data.length = d * m) :
    reduceVals op a reuse data 0 = .ok (reduceFirstK op.firstF data m d) := by
  have hshape : a.shape = (d : Int) :: rest := hsh
  have hsc : isScalar ((d : Int) :: rest) = false := by simp [isScalar]
  have hne : ((d : Int) == 0) = false := by simp; omega
  have hm : m ≤ a.win.cap := by
    have : m ≤ d * m := Nat.le_mul_of_pos_left m hd
    omega
  have hmd : m * d = d * m := Nat.mul_comm _ _
  unfold reduceVals
  simp only [hcol, hshape, hsc, hlen, beq_self_eq_true, Bool.not_false, Bool.and_true, Bool.true_or, if_true,
    Bool.false_eq_true, if_false, idx, getI?, ok_bind, Int.lt_irrefl, Int.toNat_zero, List.getElem?_cons_zero, hne,
    goDiv_cast d m hd, natOf_cast, hr, hmd, hdata]
  have g1 : (decide (m > reuse.win.cap) || decide (m > a.win.cap)) = false := by simp; omega
  have g2 : (decide (d ≥ 2) && (decide (d * m > a.win.cap) || decide (m > m + (a.win.cap - d * m)))) = false := by
    simp; intro _; omega
  have g3 : (decide (d ≥ 2) && (m != m || decide (d * m > d * m))) = false := by simp
  simp only [g1, g2, g3, Bool.false_eq_true, if_false]
  rfl

/-- **M = S, first axis.** On a contiguous row-major operand of shape `d :: ds` (window = its `∏` cells)
    every step of `Sum/Max/Min/Reduce` along axis 0 writes exactly S's reduction of axis 0. -/
theorem first_axis_refines (op : RedOp) (a reuse : Dense) (data : List Val) (d : Nat) (ds : List Nat)
    (hcol : a.ap.o.col = false) (hsh : a.ap.shape = (d :: ds).map Int.ofNat) (hd : 1 ≤ d)
    (hlen : a.win.len = prodN (d :: ds)) (hcap : a.win.len ≤ a.win.cap)
    (hr : reuse.win.len = prodN ds) (hrc : reuse.win.len ≤ reuse.win.cap) (hdata : data.length = a.win.len) :
    reduceVals op a reuse data 0 = .ok (specAxis (fold1 op.firstF) (d :: ds) 0 data) := by
  rw [← reduceFirst_spec op.firstF d ds data hd (by rw [hdata, hlen])]
  simp only [prodN] at hlen
  exact reduceVals_first op a reuse data d (prodN ds) (ds.map Int.ofNat) hcol (by simpa using hsh) hd hlen
    (by omega) hr (by omega) (by omega)

/-- M's kernel selection, last axis (rank ≥ 2) of a row-major operand: the last-axis kernel -/
theorem getI_append_last (pre : Shape) (d : Int) : getI? (pre ++ [d]) (pre.length : Int) = some d := by
  have : ¬ ((pre.length : Int) < 0) := by omega
  simp [getI?, this]

theorem reduceVals_last (op : RedOp) (a reuse : Dense) (data : List Val) (d : Nat) (pre : Shape)
    (hcol : a.ap.o.col = false) (hsh : a.ap.shape = pre ++ [(d : Int)]) (hpre : pre ≠ []) (hd : 1 ≤ d) :
    reduceVals op a reuse data (pre.length : Int) = .ok (reduceLastK (rowFold op.lastF op.lastInit) data d) := by
  have hshape : a.shape = pre ++ [(d : Int)] := hsh
  have hdims : a.dims = pre.length + 1 := by simp [Dense.dims, hsh]
  have hp : 0 < pre.length := List.length_pos_iff.mpr hpre
  have h0 : ((pre.length : Int) == 0) = false := by simp; omega
  have hd0 : (d == 0) = false := by simp; omega
  unfold reduceVals
  simp only [hcol, hshape, hdims, h0, Bool.and_false, Bool.or_false, Bool.false_eq_true, if_false,
    Int.natCast_add, Int.natCast_one, Int.add_sub_cancel, beq_self_eq_true, Bool.not_false, Bool.and_true,
    if_true, idx, getI_append_last, ok_bind, natOf_cast, hd0]
  rfl

/-- **M = S, last axis.** On a contiguous row-major operand of shape `pre ++ [d]` (rank ≥ 2) every step
    along the last axis writes S's reduction of that axis with the operation's row fold (`Sum`: from
    the zero value, see `sumLast_spec`; `Max/Min`: from the first element). -/
theorem last_axis_refines (op : RedOp) (a reuse : Dense) (data : List Val) (pre : List Nat) (d : Nat)
    (hcol : a.ap.o.col = false) (hsh : a.ap.shape = (pre ++ [d]).map Int.ofNat) (hpre : pre ≠ []) (hd : 1 ≤ d)
    (hdata : data.length = prodN (pre ++ [d])) :
    reduceVals op a reuse data (pre.length : Int) =
      .ok (specAxis (rowFold op.lastF op.lastInit) (pre ++ [d]) pre.length data) := by
  rw [← reduceLast_spec _ pre d data hd hdata]
  have := reduceVals_last op a reuse data d (pre.map Int.ofNat) hcol (by simpa using hsh) (by simpa using hpre) hd
  simpa using this

/-! ## 4. The middle-axis kernel (finding F40, repaired) -/

/-- M's kernel selection for a middle axis of a row-major operand: the default kernel, whose walk
    jumps by `(dimSize-1)*stride` at the end of every block -/
theorem reduceVals_default (op : RedOp) (a reuse : Dense) (data : List Val) (axis : Int)
    (d0 d os stride expected : Nat)
    (hcol : a.ap.o.col = false) (hax0 : axis ≠ 0) (haxl : axis ≠ (a.dims : Int) - 1)
    (h1 : getI? a.shape 0 = some (d0 : Int)) (h2 : getI? a.shape axis = some (d : Int))
    (h3 : getI? a.strides 0 = some (os : Int)) (h4 : getI? a.strides axis = some (stride : Int))
    (h5 : getI? reuse.strides 0 = some (expected : Int))
    (hok : defaultOk data.length d0 d os stride expected ((d - 1) * stride) = true) :
    reduceVals op a reuse data axis = .ok (reduceDefaultK op.defF data d0 d os stride expected ((d - 1) * stride)) := by
  have e0 : (axis == 0) = false := by simp [hax0]
  have el : (axis == (a.dims : Int) - 1) = false := by simp [haxl]
  unfold reduceVals
  simp only [hcol, e0, el, Bool.and_false, Bool.or_false, Bool.false_eq_true, if_false,
    Bool.not_false, Bool.and_true, idx, h1, h2, h3, h4, h5, ok_bind, natOf_cast, hok, Bool.not_true]
  rfl

theorem jump_lands (d s : Nat) (hd : 1 ≤ d) : s + (d - 1) * s = d * s := by
  obtain ⟨e, rfl⟩ : ∃ e, d = e + 1 := ⟨d - 1, by omega⟩
  rw [Nat.add_sub_cancel, Nat.add_mul, Nat.one_mul, Nat.add_comm]

/-- **`reduceDefault`** (an axis that is neither the first nor the last) on the row-major listing of an
    array of shape `d0 :: pre ++ d :: rest` = S's reduction of the axis of extent `d`, for every rank
    and every extent. (Before the repair of finding F40 the walk jumped by `stride`; that kernel
    satisfies the statement only when `∏ pre = 1` or `d = 2`, see the example below.) -/
theorem reduceDefault_spec {α : Type} [Inhabited α] (f : α → α → α) (d0 : Nat) (pre : List Nat) (d : Nat)
    (rest : List Nat) (data : List α) (hs : 1 ≤ prodN rest) (hd : 1 ≤ d) (hlen : data.length = prodN (d0 :: (pre ++ d :: rest))) :
    reduceDefaultK f data d0 d (prodN (pre ++ d :: rest)) (prodN rest) (prodN pre * prodN rest) ((d - 1) * prodN rest) =
      specAxis (fold1 f) (d0 :: (pre ++ d :: rest)) (pre.length + 1) data := by
  apply reduceDefaultK_spec' f d0 pre d rest _ data hs _ hlen
  intro p _
  rw [jump_lands d (prodN rest) hd]

/-- the kernel never reads outside its slab (no index panic) on such an operand -/
theorem reduceDefault_in_bounds (d0 : Nat) (pre : List Nat) (d : Nat) (rest : List Nat) (n : Nat)
    (hs : 1 ≤ prodN rest) (hd : 1 ≤ d) (hlen : n = prodN (d0 :: (pre ++ d :: rest))) :
    defaultOk n d0 d (prodN (pre ++ d :: rest)) (prodN rest) (prodN pre * prodN rest) ((d - 1) * prodN rest) = true := by
  have hp : prodN (pre ++ d :: rest) = prodN pre * (d * prodN rest) := by rw [prodN_append]; rfl
  rw [hp]
  apply defaultOk_of_jump n d0 (prodN pre) d (prodN rest) _ hs hd (jump_lands d (prodN rest) hd)
  rw [hlen, prodN, hp]
  exact Nat.le_refl _

/-- **M = S, middle axis.** On a row-major operand of shape `d0 :: pre ++ d :: rest` whose metadata
    look-ups give the row-major values, the step along the axis of extent `d` writes S's reduction of that
    axis (no bounds panic), for every rank. -/
theorem middle_axis_refines (op : RedOp) (a reuse : Dense) (data : List Val)
    (d0 : Nat) (pre : List Nat) (d : Nat) (rest : List Nat)
    (hcol : a.ap.o.col = false) (hdims : a.dims = pre.length + 2 + rest.length) (hrest : rest ≠ [])
    (h1 : getI? a.shape 0 = some (d0 : Int)) (h2 : getI? a.shape ((pre.length + 1 : Nat) : Int) = some (d : Int))
    (h3 : getI? a.strides 0 = some ((prodN (pre ++ d :: rest) : Nat) : Int))
    (h4 : getI? a.strides ((pre.length + 1 : Nat) : Int) = some ((prodN rest : Nat) : Int))
    (h5 : getI? reuse.strides 0 = some ((prodN pre * prodN rest : Nat) : Int))
    (hs : 1 ≤ prodN rest) (hd : 1 ≤ d) (hdata : data.length = prodN (d0 :: (pre ++ d :: rest))) :
    reduceVals op a reuse data ((pre.length + 1 : Nat) : Int) =
      .ok (specAxis (fold1 op.defF) (d0 :: (pre ++ d :: rest)) (pre.length + 1) data) := by
  have hrl : 0 < rest.length := List.length_pos_iff.mpr hrest
  rw [← reduceDefault_spec op.defF d0 pre d rest data hs hd hdata]
  exact reduceVals_default op a reuse data _ d0 d _ _ _ hcol (by omega) (by rw [hdims]; omega) h1 h2 h3 h4 h5
    (reduceDefault_in_bounds d0 pre d rest _ hs hd hdata)

/-- the former witness of F40, `Sum` over axis 2 of a (2,2,3,4) range tensor: the repaired walk gives
    S's values 48 51 54 57 in row 2; the walk that jumped by `stride` gave 36 39 42 45 -/
example : reduceDefaultK (· + ·) (List.range 48) 2 3 24 4 8 8 = specAxis (fold1 (· + ·)) [2, 2, 3, 4] 2 (List.range 48) := by decide
example : ((specAxis (fold1 (· + ·)) [2, 2, 3, 4] 2 (List.range 48)).drop 4).take 4 = [48, 51, 54, 57] := by decide
example : ((reduceDefaultK (· + ·) (List.range 48) 2 3 24 4 8 4).drop 4).take 4 = [36, 39, 42, 45] := by decide
/-- extent 1: the repaired walk stays in bounds (the old one left the slab: Go index panic) -/
example : defaultOk 16 2 1 8 4 8 0 = true ∧ defaultOk 16 2 1 8 4 8 4 = false := by decide

/-! ## 5. Arg-reductions -/

/-- `r` is the first index of the greatest element of `l` -/
def IsFirstMax (l : List Int) (r : Nat) : Prop :=
  ∃ m, l[r]? = some m ∧ (∀ (j : Nat) (x : Int), l[j]? = some x → x ≤ m) ∧ (∀ (j : Nat) (x : Int), j < r → l[j]? = some x → x < m)
def IsFirstMin (l : List Int) (r : Nat) : Prop :=
  ∃ m, l[r]? = some m ∧ (∀ (j : Nat) (x : Int), l[j]? = some x → m ≤ x) ∧ (∀ (j : Nat) (x : Int), j < r → l[j]? = some x → m < x)

theorem go_max : ∀ (rest pre : List Int) (best : Nat) (f : Int),
    pre[best]? = some f → (∀ (j : Nat) (x : Int), pre[j]? = some x → x ≤ f) → (∀ (j : Nat) (x : Int), j < best → pre[j]? = some x → x < f) →
    IsFirstMax (pre ++ rest) (argKernel.go true false pre.length best (.num f) (rest.map Key.num))
  | [], pre, best, f, h1, h2, h3 => by
    simp only [List.map_nil, argKernel.go, List.append_nil]
    exact ⟨f, h1, h2, h3⟩
  | v :: vs, pre, best, f, h1, h2, h3 => by
    have hb : best < pre.length := by
      rcases Nat.lt_or_ge best pre.length with h | h
      · exact h
      · rw [List.getElem?_eq_none h] at h1; cases h1
    simp only [List.map_cons, argKernel.go, Bool.false_and, Bool.false_eq_true, if_false, if_true, Key.gt]
    have hl : (pre ++ [v]).length = pre.length + 1 := by simp
    have happ : pre ++ v :: vs = (pre ++ [v]) ++ vs := by simp
    by_cases hv : v > f
    · simp only [hv, decide_true, if_true]
      rw [happ, ← hl]
      apply go_max vs (pre ++ [v]) pre.length v
      · simp
      · intro j x hj
        rcases Nat.lt_or_ge j pre.length with h | h
        · rw [List.getElem?_append_left h] at hj; have := h2 j x hj; omega
        · rw [List.getElem?_append_right h] at hj
          cases hjj : j - pre.length with
          | zero => rw [hjj] at hj; simp at hj; omega
          | succ n => rw [hjj] at hj; simp at hj
      · intro j x hj hx
        rw [List.getElem?_append_left hj] at hx; have := h2 j x hx; omega
    · simp only [hv, decide_false, Bool.false_eq_true, if_false]
      rw [happ, ← hl]
      apply go_max vs (pre ++ [v]) best f
      · rw [List.getElem?_append_left hb]; exact h1
      · intro j x hj
        rcases Nat.lt_or_ge j pre.length with h | h
        · rw [List.getElem?_append_left h] at hj; exact h2 j x hj
        · rw [List.getElem?_append_right h] at hj
          cases hjj : j - pre.length with
          | zero => rw [hjj] at hj; simp at hj; omega
          | succ n => rw [hjj] at hj; simp at hj
      · intro j x hj hx
        rw [List.getElem?_append_left (by omega)] at hx; exact h3 j x hj hx

theorem argmax_first (q : Int) (qs : List Int) :
    IsFirstMax (q :: qs) (argKernel true false ((q :: qs).map Key.num)) := by
  have := go_max qs [q] 0 q (by simp) (by
    intro j x hj
    cases j with
    | zero => simp at hj; omega
    | succ n => simp at hj) (by intro j x hj; omega)
  simpa [argKernel] using this

theorem go_min : ∀ (rest pre : List Int) (best : Nat) (f : Int),
    pre[best]? = some f → (∀ (j : Nat) (x : Int), pre[j]? = some x → f ≤ x) → (∀ (j : Nat) (x : Int), j < best → pre[j]? = some x → f < x) →
    IsFirstMin (pre ++ rest) (argKernel.go false false pre.length best (.num f) (rest.map Key.num))
  | [], pre, best, f, h1, h2, h3 => by
    simp only [List.map_nil, argKernel.go, List.append_nil]
    exact ⟨f, h1, h2, h3⟩
  | v :: vs, pre, best, f, h1, h2, h3 => by
    have hb : best < pre.length := by
      rcases Nat.lt_or_ge best pre.length with h | h
      · exact h
      · rw [List.getElem?_eq_none h] at h1; cases h1
    simp only [List.map_cons, argKernel.go, Bool.false_and, Bool.false_eq_true, if_false, Key.lt, Key.gt]
    have hl : (pre ++ [v]).length = pre.length + 1 := by simp
    have happ : pre ++ v :: vs = (pre ++ [v]) ++ vs := by simp
    by_cases hv : f > v
    · simp only [hv, decide_true, if_true]
      rw [happ, ← hl]
      apply go_min vs (pre ++ [v]) pre.length v
      · simp
      · intro j x hj
        rcases Nat.lt_or_ge j pre.length with h | h
        · rw [List.getElem?_append_left h] at hj; have := h2 j x hj; omega
        · rw [List.getElem?_append_right h] at hj
          cases hjj : j - pre.length with
          | zero => rw [hjj] at hj; simp at hj; omega
          | succ n => rw [hjj] at hj; simp at hj
      · intro j x hj hx
        rw [List.getElem?_append_left hj] at hx; have := h2 j x hx; omega
    · simp only [hv, decide_false, Bool.false_eq_true, if_false]
      rw [happ, ← hl]
      apply go_min vs (pre ++ [v]) best f
      · rw [List.getElem?_append_left hb]; exact h1
      · intro j x hj
        rcases Nat.lt_or_ge j pre.length with h | h
        · rw [List.getElem?_append_left h] at hj; exact h2 j x hj
        · rw [List.getElem?_append_right h] at hj
          cases hjj : j - pre.length with
          | zero => rw [hjj] at hj; simp at hj; omega
          | succ n => rw [hjj] at hj; simp at hj
      · intro j x hj hx
        rw [List.getElem?_append_left (by omega)] at hx; exact h3 j x hj hx

/-- **`Argmin<T>` (integers, strings by analogy): the first index of the least element of the row** -/
theorem argmin_first (q : Int) (qs : List Int) :
    IsFirstMin (q :: qs) (argKernel false false ((q :: qs).map Key.num)) := by
  have := go_min qs [q] 0 q (by simp) (by
    intro j x hj
    cases j with
    | zero => simp at hj; omega
    | succ n => simp at hj) (by intro j x hj; omega)
  simpa [argKernel] using this

/-- the first index of the greatest element is unique: M's kernel and any other function with this
    property (S's `argFirst`) agree -/
theorem isFirstMax_unique (l : List Int) (r r' : Nat) (h : IsFirstMax l r) (h' : IsFirstMax l r') : r = r' := by
  obtain ⟨m, hm, hle, hlt⟩ := h
  obtain ⟨m', hm', hle', hlt'⟩ := h'
  have e1 := hle r' m' hm'
  have e2 := hle' r m hm
  rcases Nat.lt_trichotomy r r' with h | h | h
  · have := hlt' r m h hm; omega
  · exact h
  · have := hlt r' m' h hm'; omega

theorem isFirstMin_unique (l : List Int) (r r' : Nat) (h : IsFirstMin l r) (h' : IsFirstMin l r') : r = r' := by
  obtain ⟨m, hm, hle, hlt⟩ := h
  obtain ⟨m', hm', hle', hlt'⟩ := h'
  have e1 := hle r' m' hm'
  have e2 := hle' r m hm
  rcases Nat.lt_trichotomy r r' with h | h | h
  · have := hlt' r m h hm; omega
  · exact h
  · have := hlt r' m' h hm'; omega

theorem foldl_best_max : ∀ (qs : List Int) (q : Int),
    ∃ m, (qs.map Key.num).foldl (fun b v => if (if true then v.gt b else v.lt b) then v else b) (Key.num q) = Key.num m ∧
      q ≤ m ∧ (∀ x ∈ qs, x ≤ m) ∧ (m = q ∨ m ∈ qs)
  | [], q => ⟨q, rfl, Int.le_refl _, by simp, Or.inl rfl⟩
  | v :: vs, q => by
    simp only [List.map_cons, List.foldl_cons, if_true]
    have hg : (Key.num v).gt (Key.num q) = decide (v > q) := rfl
    rw [hg]
    by_cases hv : v > q
    · simp only [hv, decide_true, if_true]
      obtain ⟨m, h1, h2, h3, h4⟩ := foldl_best_max vs v
      refine ⟨m, by simpa using h1, by omega, ?_, ?_⟩
      · intro x hx
        rcases List.mem_cons.mp hx with h | h
        · omega
        · exact h3 x h
      · rcases h4 with h | h
        · exact Or.inr (by simp [h])
        · exact Or.inr (by simp [h])
    · simp only [hv, decide_false, Bool.false_eq_true, if_false]
      obtain ⟨m, h1, h2, h3, h4⟩ := foldl_best_max vs q
      refine ⟨m, by simpa using h1, h2, ?_, ?_⟩
      · intro x hx
        rcases List.mem_cons.mp hx with h | h
        · omega
        · exact h3 x h
      · rcases h4 with h | h
        · exact Or.inl h
        · exact Or.inr (by simp [h])

theorem argFirst_isFirstMax (q : Int) (qs : List Int) : IsFirstMax (q :: qs) (argFirst true ((q :: qs).map Key.num)) := by
  obtain ⟨m, hb, hq, hall, hmem⟩ := foldl_best_max qs q
  have hall' : ∀ x ∈ q :: qs, x ≤ m := by
    intro x hx; rcases List.mem_cons.mp hx with h | h
    · omega
    · exact hall x h
  have hmem' : m ∈ q :: qs := by rcases hmem with h | h <;> simp [h]
  simp only [argFirst, List.map_cons]
  simp only [if_true] at hb
  simp only [if_true, hb, ← List.map_cons, List.findIdx?_map]
  cases hf : List.findIdx? ((fun v => !(Key.num m).gt v) ∘ Key.num) (q :: qs) with
  | none =>
    rw [List.findIdx?_eq_none_iff] at hf
    have := hf m hmem'
    simp [Key.gt] at this
  | some i =>
    simp only [Option.getD_some]
    rw [List.findIdx?_eq_some_iff_getElem] at hf
    obtain ⟨hi, hp, hlt⟩ := hf
    simp only [Function.comp, Key.gt, Bool.not_eq_true', decide_eq_false_iff_not, Int.not_lt] at hp
    have hle : (q :: qs)[i] ≤ m := hall' _ (List.getElem_mem hi)
    have he : (q :: qs)[i] = m := by omega
    refine ⟨m, by simp [List.getElem?_eq_getElem hi, he], ?_, ?_⟩
    · intro j x hj
      exact hall' x (List.mem_of_getElem? hj)
    · intro j x hji hj
      have hjl : j < (q :: qs).length := by omega
      have := hlt j hji
      simp only [Function.comp, Key.gt, Bool.not_eq_true', decide_eq_false_iff_not, Int.not_lt] at this
      rw [List.getElem?_eq_getElem hjl] at hj
      injection hj with hj
      omega

/-- **M = S for integer rows**: the kernel's index is S's `argFirst` -/
theorem argmax_kernel_eq_spec (q : Int) (qs : List Int) :
    argKernel true false ((q :: qs).map Key.num) = argFirst true ((q :: qs).map Key.num) :=
  isFirstMax_unique _ _ _ (argmax_first q qs) (argFirst_isFirstMax q qs)

theorem foldl_best_min : ∀ (qs : List Int) (q : Int),
    ∃ m, (qs.map Key.num).foldl (fun b v => if (if false then v.gt b else v.lt b) then v else b) (Key.num q) = Key.num m ∧
      m ≤ q ∧ (∀ x ∈ qs, m ≤ x) ∧ (m = q ∨ m ∈ qs)
  | [], q => ⟨q, rfl, Int.le_refl _, by simp, Or.inl rfl⟩
  | v :: vs, q => by
    simp only [List.map_cons, List.foldl_cons, Bool.false_eq_true, if_false]
    have hg : (Key.num v).lt (Key.num q) = decide (q > v) := rfl
    rw [hg]
    by_cases hv : q > v
    · simp only [hv, decide_true, if_true]
      obtain ⟨m, h1, h2, h3, h4⟩ := foldl_best_min vs v
      refine ⟨m, by simpa using h1, by omega, ?_, ?_⟩
      · intro x hx
        rcases List.mem_cons.mp hx with h | h
        · omega
        · exact h3 x h
      · rcases h4 with h | h
        · exact Or.inr (by simp [h])
        · exact Or.inr (by simp [h])
    · simp only [hv, decide_false, Bool.false_eq_true, if_false]
      obtain ⟨m, h1, h2, h3, h4⟩ := foldl_best_min vs q
      refine ⟨m, by simpa using h1, h2, ?_, ?_⟩
      · intro x hx
        rcases List.mem_cons.mp hx with h | h
        · omega
        · exact h3 x h
      · rcases h4 with h | h
        · exact Or.inl h
        · exact Or.inr (by simp [h])

theorem argFirst_isFirstMin (q : Int) (qs : List Int) : IsFirstMin (q :: qs) (argFirst false ((q :: qs).map Key.num)) := by
  obtain ⟨m, hb, hq, hall, hmem⟩ := foldl_best_min qs q
  have hall' : ∀ x ∈ q :: qs, m ≤ x := by
    intro x hx; rcases List.mem_cons.mp hx with h | h
    · omega
    · exact hall x h
  have hmem' : m ∈ q :: qs := by rcases hmem with h | h <;> simp [h]
  simp only [argFirst, List.map_cons]
  simp only [Bool.false_eq_true, if_false] at hb
  simp only [Bool.false_eq_true, if_false, hb, ← List.map_cons, List.findIdx?_map]
  cases hf : List.findIdx? ((fun v => !(Key.num m).lt v) ∘ Key.num) (q :: qs) with
  | none =>
    rw [List.findIdx?_eq_none_iff] at hf
    have := hf m hmem'
    simp [Key.lt, Key.gt] at this
  | some i =>
    simp only [Option.getD_some]
    rw [List.findIdx?_eq_some_iff_getElem] at hf
    obtain ⟨hi, hp, hlt⟩ := hf
    simp only [Function.comp, Key.lt, Key.gt, Bool.not_eq_true', decide_eq_false_iff_not, Int.not_lt] at hp
    have hle : m ≤ (q :: qs)[i] := hall' _ (List.getElem_mem hi)
    have he : (q :: qs)[i] = m := by omega
    refine ⟨m, by simp [List.getElem?_eq_getElem hi, he], ?_, ?_⟩
    · intro j x hj
      exact hall' x (List.mem_of_getElem? hj)
    · intro j x hji hj
      have hjl : j < (q :: qs).length := by omega
      have := hlt j hji
      simp only [Function.comp, Key.lt, Key.gt, Bool.not_eq_true', decide_eq_false_iff_not, Int.not_lt] at this
      rw [List.getElem?_eq_getElem hjl] at hj
      injection hj with hj
      omega

/-- **M = S for integer rows**: the same for `Argmin` -/
theorem argmin_kernel_eq_spec (q : Int) (qs : List Int) :
    argKernel false false ((q :: qs).map Key.num) = argFirst false ((q :: qs).map Key.num) :=
  isFirstMin_unique _ _ _ (argmin_first q qs) (argFirst_isFirstMin q qs)

/-- S's row function on sample rows with ties and negatives -/
example : argFirst true [.num 3, .num 7, .num 7, .num (-1)] = 1 ∧ argFirst false [.num 3, .num (-1), .num 7, .num (-1)] = 1 ∧
    argFirst true [.num infKey, .num 0, .num infKey] = 0 ∧ argFirst true [.str "s10", .str "s9", .str "s2"] = 1 := by decide

/-- the float kernels' loop: without a NaN and without the searched infinity among the remaining elements
    it is the generic loop -/
theorem go_float_partial (isMax : Bool) : ∀ (rest : List Key) (i best : Nat) (f : Key),
    (∀ v ∈ rest, (v.isNaN || v == .num (if isMax then infKey else -infKey)) = false) →
    argKernel.go isMax true i best f rest = argKernel.go isMax false i best f rest
  | [], _, _, _, _ => by simp [argKernel.go]
  | v :: vs, i, best, f, h => by
    have hv := h v (by simp)
    have hvs : ∀ w ∈ vs, (w.isNaN || w == .num (if isMax then infKey else -infKey)) = false :=
      fun w hw => h w (by simp [hw])
    simp only [argKernel.go, hv, Bool.true_and, Bool.false_and, Bool.false_eq_true, if_false]
    rw [go_float_partial isMax vs (i + 1) i v hvs, go_float_partial isMax vs (i + 1) best f hvs]

/-- once the running maximum is +Inf (the greatest value) the generic loop keeps its index -/
theorem go_max_stays : ∀ (vs : List Int) (i best : Nat), (∀ x ∈ vs, x ≤ infKey) →
    argKernel.go true false i best (.num infKey) (vs.map Key.num) = best
  | [], _, _, _ => by simp [argKernel.go]
  | v :: vs, i, best, h => by
    have hv : ¬ (v > infKey) := by have := h v (by simp); omega
    simp only [List.map_cons, argKernel.go, Bool.false_and, Bool.false_eq_true, if_false, if_true, Key.gt, hv,
      decide_false]
    exact go_max_stays vs (i + 1) best (fun x hx => h x (by simp [hx]))

theorem go_min_stays : ∀ (vs : List Int) (i best : Nat), (∀ x ∈ vs, -infKey ≤ x) →
    argKernel.go false false i best (.num (-infKey)) (vs.map Key.num) = best
  | [], _, _, _ => by simp [argKernel.go]
  | v :: vs, i, best, h => by
    have hv : ¬ (-infKey > v) := by have := h v (by simp); omega
    simp only [List.map_cons, argKernel.go, Bool.false_and, Bool.false_eq_true, if_false, Key.lt, Key.gt, hv,
      decide_false]
    exact go_min_stays vs (i + 1) best (fun x hx => h x (by simp [hx]))

/-- the float loop returns at the first +Inf; the generic loop makes it the running maximum there and
    keeps it: the same index, for rows whose values do not exceed +Inf -/
theorem go_max_float : ∀ (vs : List Int) (i best : Nat) (f : Int), (∀ x ∈ vs, x ≤ infKey) → f < infKey →
    argKernel.go true true i best (.num f) (vs.map Key.num) = argKernel.go true false i best (.num f) (vs.map Key.num)
  | [], _, _, _, _, _ => by simp [argKernel.go]
  | v :: vs, i, best, f, h, hf => by
    have hvs : ∀ x ∈ vs, x ≤ infKey := fun x hx => h x (by simp [hx])
    have hvle : v ≤ infKey := h v (by simp)
    by_cases hv : v = infKey
    · subst hv
      have hgt : infKey > f := by omega
      simp only [List.map_cons, argKernel.go, Key.isNaN, Bool.false_or, Bool.true_and, Bool.false_and, if_true,
        BEq.rfl, Key.gt, hgt, decide_true, Bool.false_eq_true, if_false]
      exact (go_max_stays vs (i + 1) i hvs).symm
    · have hne : (Key.num v == Key.num infKey) = false := by
        simp only [beq_eq_false_iff_ne, ne_eq, Key.num.injEq]; exact hv
      have hvlt : v < infKey := by omega
      simp only [List.map_cons, argKernel.go, Key.isNaN, Bool.false_or, Bool.true_and, Bool.false_and, if_true, hne,
        Bool.false_eq_true, if_false]
      by_cases hg : v > f
      · simp only [Key.gt, hg, decide_true, if_true]
        exact go_max_float vs (i + 1) i v hvs hvlt
      · simp only [Key.gt, hg, decide_false, Bool.false_eq_true, if_false]
        exact go_max_float vs (i + 1) best f hvs hf

theorem go_min_float : ∀ (vs : List Int) (i best : Nat) (f : Int), (∀ x ∈ vs, -infKey ≤ x) → -infKey < f →
    argKernel.go false true i best (.num f) (vs.map Key.num) = argKernel.go false false i best (.num f) (vs.map Key.num)
  | [], _, _, _, _, _ => by simp [argKernel.go]
  | v :: vs, i, best, f, h, hf => by
    have hvs : ∀ x ∈ vs, -infKey ≤ x := fun x hx => h x (by simp [hx])
    have hvle : -infKey ≤ v := h v (by simp)
    by_cases hv : v = -infKey
    · subst hv
      have hgt : f > -infKey := by omega
      simp only [List.map_cons, argKernel.go, Key.isNaN, Bool.false_or, Bool.true_and, Bool.false_and,
        BEq.rfl, Key.lt, Key.gt, hgt, decide_true, Bool.false_eq_true, if_false, if_true]
      exact (go_min_stays vs (i + 1) i hvs).symm
    · have hne : (Key.num v == Key.num (-infKey)) = false := by
        simp only [beq_eq_false_iff_ne, ne_eq, Key.num.injEq]; exact hv
      have hvlt : -infKey < v := by omega
      simp only [List.map_cons, argKernel.go, Key.isNaN, Bool.false_or, Bool.true_and, Bool.false_and, hne,
        Bool.false_eq_true, if_false]
      by_cases hg : f > v
      · simp only [Key.lt, Key.gt, hg, decide_true, if_true]
        exact go_min_float vs (i + 1) i v hvs hvlt
      · simp only [Key.lt, Key.gt, hg, decide_false, Bool.false_eq_true, if_false]
        exact go_min_float vs (i + 1) best f hvs hf

/-- **Float kernels = generic kernel** on every NaN-free row whose values lie within ±Inf (`infKey` is the
    key of the greatest float): the early return at the first searched infinity — first element
    included — is the first index of the extreme. -/
theorem argmax_float_eq_generic (q : Int) (qs : List Int) (hb : ∀ x ∈ q :: qs, x ≤ infKey) :
    argKernel true true ((q :: qs).map Key.num) = argKernel true false ((q :: qs).map Key.num) := by
  have hqs : ∀ x ∈ qs, x ≤ infKey := fun x hx => hb x (by simp [hx])
  have hq : q ≤ infKey := hb q (by simp)
  by_cases h : q = infKey
  · subst h
    simp only [List.map_cons, argKernel, Key.isNaN, Bool.false_or, Bool.true_and, Bool.false_and, BEq.rfl, if_true,
      Bool.false_eq_true, if_false]
    exact (go_max_stays qs 1 0 hqs).symm
  · have hne : (Key.num q == Key.num infKey) = false := by
      simp only [beq_eq_false_iff_ne, ne_eq, Key.num.injEq]; exact h
    simp only [List.map_cons, argKernel, Key.isNaN, Bool.false_or, Bool.true_and, Bool.false_and, if_true, hne,
      Bool.false_eq_true, if_false]
    exact go_max_float qs 1 0 q hqs (by omega)

theorem argmin_float_eq_generic (q : Int) (qs : List Int) (hb : ∀ x ∈ q :: qs, -infKey ≤ x) :
    argKernel false true ((q :: qs).map Key.num) = argKernel false false ((q :: qs).map Key.num) := by
  have hqs : ∀ x ∈ qs, -infKey ≤ x := fun x hx => hb x (by simp [hx])
  have hq : -infKey ≤ q := hb q (by simp)
  by_cases h : q = -infKey
  · subst h
    simp only [List.map_cons, argKernel, Key.isNaN, Bool.false_or, Bool.true_and, Bool.false_and, BEq.rfl, if_true,
      Bool.false_eq_true, if_false]
    exact (go_min_stays qs 1 0 hqs).symm
  · have hne : (Key.num q == Key.num (-infKey)) = false := by
      simp only [beq_eq_false_iff_ne, ne_eq, Key.num.injEq]; exact h
    simp only [List.map_cons, argKernel, Key.isNaN, Bool.false_or, Bool.true_and, Bool.false_and, hne,
      Bool.false_eq_true, if_false]
    exact go_min_float qs 1 0 q hqs (by omega)

/-- **M = S for float rows** (finding F43 repaired): on a NaN-free row with values within ±Inf the float
    kernel returns S's `argFirst`, the first index of the extreme — also when the row starts with the
    searched infinity and contains it again. -/
theorem argKernel_float_full (isMax : Bool) (q : Int) (qs : List Int)
    (hb : ∀ x ∈ q :: qs, -infKey ≤ x ∧ x ≤ infKey) :
    argKernel isMax true ((q :: qs).map Key.num) = argFirst isMax ((q :: qs).map Key.num) := by
  cases isMax with
  | true => rw [argmax_float_eq_generic q qs (fun x hx => (hb x hx).2), argmax_kernel_eq_spec]
  | false => rw [argmin_float_eq_generic q qs (fun x hx => (hb x hx).1), argmin_kernel_eq_spec]

/-- the former witness row of F43: index 0, as S says -/
example : argKernel true true [.num infKey, .num 0, .num infKey] = 0 ∧ argFirst true [.num infKey, .num 0, .num infKey] = 0 ∧
    argKernel false true [.num (-infKey), .num 0, .num (-infKey)] = 0 := by decide

/-- a NaN decides the result wherever it stands: its index is returned (S is silent on rows with NaN) -/
example : argKernel true true [.nan, .num 5] = 0 ∧ argKernel true true [.num 5, .nan, .num 7] = 1 := by decide

/-- logical listing read through a list of storage offsets -/
def logicalOf {α : Type} (raw : List α) (offs : List Int) : List α := offs.filterMap (getI? raw)

theorem logicalOf_range {α : Type} (raw : List α) : logicalOf raw (rangeI raw.length) = raw := by
  apply List.ext_getElem?
  intro i
  simp only [logicalOf, rangeI, List.filterMap_map]
  induction raw generalizing i with
  | nil => simp
  | cons x xs ih =>
    rw [List.length_cons, List.range_succ_eq_map, List.filterMap_cons]
    have h0 : (getI? (x :: xs) ∘ Int.ofNat) 0 = some x := by simp [getI?, Function.comp]
    simp only [h0]
    cases i with
    | zero => simp
    | succ n =>
      simp only [List.getElem?_cons_succ, List.filterMap_map]
      rw [← ih n]
      congr 2

/-- flat Argmax/Argmin on a tensor that needs an iterator or is column-major (views with gaps, lazily
    transposed tensors, column-major tensors, clones of non-contiguous views): the cells are read at the
    row-major addresses of the coordinates, in coordinate order — whatever the strides -/
theorem flatArg_iter_offsets (t : Dense) (hv : flatArgViaIter t = true)
    (hl : t.strides.length = t.shape.length) (hpos : ∀ d ∈ t.shape, 0 < d) :
    flatArgOffsets t = (allCoords t.shape).map (fun c => dot c t.strides) := by
  unfold flatArgOffsets Dense.offsets
  simp only [hv, if_true]
  exact offsets_rowmajor t.ap hl hpos

/-- … and the iterator kernel's single run over all of them is the flat kernel over that listing -/
theorem argChunks_single {α : Type} (f : List Key → α) (d : α) (ks : List Key) (hne : ks ≠ []) :
    ((argChunks ks.length ks).map f).headD d = f ks := by
  have hpos : 0 < ks.length := List.length_pos_iff.mpr hne
  unfold argChunks
  rw [Nat.div_self hpos]
  simp [chunks]

/-- **Flat Argmax/Argmin read the logical elements in row-major order** (finding F41 repaired): for a
    tensor with one stride per axis and positive dimensions, the keys the kernel sees are the elements
    listed by coordinate. On the raw path (contiguous, row-major, no pending transpose) this is the
    metadata invariant `¬Excl_rawNotLogical` (the row-major addresses of the coordinates are `0,1,…,len-1`);
    on every other layout it holds for arbitrary strides. -/
theorem flatArg_full (t : Dense) (raw : List Key)
    (hl : t.strides.length = t.shape.length) (hpos : ∀ d ∈ t.shape, 0 < d)
    (hsmall : (allCoords t.shape).length ≤ 4096)
    (hx : flatArgViaIter t = false → Excl_rawNotLogical t = false) :
    logicalOf raw (flatArgOffsets t) = logicalOf raw ((allCoords t.shape).map (fun c => dot c t.strides)) := by
  cases hv : flatArgViaIter t with
  | true => rw [flatArg_iter_offsets t hv hl hpos]
  | false =>
    have hx' := hx hv
    unfold Excl_rawNotLogical at hx'
    have hs : ¬ ((allCoords t.shape).length > 4096) := by omega
    simp only [hs, if_false, bne_eq_false_iff_eq] at hx'
    unfold flatArgOffsets
    simp only [hv, Bool.false_eq_true, if_false]
    rw [hx']

/-- on the raw path the window *is* the logical listing -/
theorem flatArg_raw (t : Dense) (raw : List Key) (hlen : raw.length = t.win.len)
    (hsmall : (allCoords t.shape).length ≤ 4096) (hx : Excl_rawNotLogical t = false) :
    logicalOf raw ((allCoords t.shape).map (fun c => dot c t.strides)) = raw := by
  unfold Excl_rawNotLogical at hx
  have hs : ¬ ((allCoords t.shape).length > 4096) := by omega
  simp only [hs, if_false, bne_eq_false_iff_eq] at hx
  rw [hx, ← hlen, logicalOf_range]

/-- the former witness of F41: a lazily transposed (2,2) tensor with storage 1 9 2 4 has the logical
    listing 1 2 9 4; the flat arg-max reads it through the iterator and returns rank 2 (the raw kernel
    returned the storage index 1) -/
def wT41 : Dense := { ap := { shape := [2, 2], strides := [1, 2], fin := true, o := { transposed := true } },
                      old := some { shape := [2, 2], strides := [2, 1], fin := true }, win := ⟨0, 0, 4, 4⟩, dt := "i" }
example : flatArgViaIter wT41 = true ∧ flatArgOffsets wT41 = [0, 2, 1, 3] ∧
    argKernel true false (logicalOf [.num 1, .num 9, .num 2, .num 4] (flatArgOffsets wT41)) = 2 ∧
    argFirst true (logicalOf [.num 1, .num 9, .num 2, .num 4] ((allCoords wT41.shape).map (fun c => dot c wT41.strides))) = 2 ∧
    argKernel true false [.num 1, .num 9, .num 2, .num 4] = 1 := by decide

end TM.C08
