import TensorModel.Run
import TensorModel.Proofs.Views
import TensorModel.Proofs.Builds
/-!
  C20 — alternative engines and build configurations are observationally equivalent.
  Property theorems only (helper lemmas: `Proofs/Builds.lean`, `Proofs/Views.lean`).

  * build `noasm`: `divmod_amd64.s` (its instruction list is regenerated from the source on every
    run, `Generated/DivmodAsm.lean`) computes exactly what `mathutils_go.go` computes, for every
    pair of 64-bit operands, and faults exactly where Go panics;
  * engines: `Float64Engine` / `Float32Engine` `Add` and `FMA` (model `Ext/Engines.lean`) coincide
    with the default engine (model `Eng.lean`) on every operand pair the default engine accepts on
    its contiguous path, and defer to it on the iterator path — and the recorded exception F37
    (no shape / order check) is exhibited by a kernel-checked witness;
  * build `inplacetranspose`: not modelled separately — the single model is compared with all three
    builds by the correspondence run (see DESIGN.md §4 C20).
-/
set_option linter.unusedSimpArgs false
namespace TM.C20
open TM TM.Asm TM.Generated

/-! ## `divmod`: assembly = pure Go -/

/-- every instruction of the regenerated list is understood by the machine model -/
theorem divmod_asm_no_unknown : divmodAsm.all (fun i => match i with | .unknown _ => false | _ => true) = true := by
  decide

/-- `b ≠ 0`: the assembly returns with `q = a / b`, `r = a % b` (Go semantics: truncated, `MinInt / -1 = MinInt`,
    `MinInt % -1 = 0`) and the argument slots untouched, from any entry state. -/
theorem divmod_asm_spec (regs : Reg → BitVec 64) (q0 r0 : BitVec 64) (zf dx : Bool) (a b : BitVec 64) (hb : b ≠ 0#64) :
    (runDivmod regs q0 r0 zf dx a b).frame = some (a.sdiv b, a.srem b, a, b) := by
  by_cases h1 : b = BitVec.allOnes 64
  · subst h1; exact divmod_asm_neg_one regs q0 r0 zf dx a
  · exact divmod_asm_general regs q0 r0 zf dx a b hb h1

/-- `b = 0`: the assembly faults (`IDIVQ` by zero → the runtime's divide panic), as `a / 0` does in Go. -/
theorem divmod_asm_zero_faults (regs : Reg → BitVec 64) (q0 r0 : BitVec 64) (zf dx : Bool) (a : BitVec 64) :
    (match runDivmod regs q0 r0 zf dx a 0#64 with | .fault => True | _ => False) := by
  obtain ⟨o, ho, h⟩ := divmod_asm_zero regs q0 r0 zf dx a
  rw [ho]; exact h

/-- The two builds agree: for all operands, the default build's `divmod` (assembly) and the `noasm`
    build's `divmod` (Go) return the same pair, or both panic. -/
theorem divmod_builds_agree (regs : Reg → BitVec 64) (q0 r0 : BitVec 64) (zf dx : Bool) (a b : BitVec 64) :
    (runDivmod regs q0 r0 zf dx a b).frame.map (fun f => (f.1, f.2.1)) = goDivmod a b := by
  by_cases hb : b = 0#64
  · subst hb
    have := divmod_asm_zero_faults regs q0 r0 zf dx a
    revert this
    cases h : runDivmod regs q0 r0 zf dx a 0#64 <;> simp [Outcome.frame, goDivmod]
  · rw [divmod_asm_spec regs q0 r0 zf dx a b hb]
    simp [goDivmod, hb]

/-- link to the unbounded-integer model (`goDiv`/`goMod` of `Basic.lean`, used by `itol`): when the
    mathematical quotient fits (everything but `MinInt / -1`), the 64-bit result is the truncated
    quotient / remainder of the operands read as integers. -/
theorem divmod_int_model (a b : BitVec 64) (hb : b ≠ 0#64) (hov : ¬(a = BitVec.intMin 64 ∧ b = BitVec.allOnes 64)) :
    (a.sdiv b).toInt = goDiv a.toInt b.toInt ∧ (a.srem b).toInt = goMod a.toInt b.toInt := by
  constructor
  · unfold goDiv
    rw [BitVec.toInt_sdiv_of_ne_or_ne]
    by_cases h : a = BitVec.intMin 64
    · right; intro hb1; exact hov ⟨h, by simpa using hb1⟩
    · left; exact h
  · unfold goMod
    exact BitVec.toInt_srem a b

example : (runDivmod (fun _ => 0#64) 0#64 0#64 false false (BitVec.ofInt 64 (-7)) (BitVec.ofInt 64 2)).frame
    = some (BitVec.ofInt 64 (-3), BitVec.ofInt 64 (-1), BitVec.ofInt 64 (-7), BitVec.ofInt 64 2) := by decide

/-! ## specialised float engines = default engine -/

/-- On the iterator path the specialised `Add` *is* the default engine's `Add` (it defers to it). -/
theorem floatAdd_iter_defers (s : St) (e : Eng) (a b : Dense) (o : Opts)
    (h : (a.requiresIterator || b.requiresIterator) = true) :
    engFloatAdd s e a b o = engArithVV s "add" numberTypes a b o := by
  unfold engFloatAdd
  simp only [h, if_true]

/-- Contiguous path, safe and `UseUnsafe()` modes: for operands the default engine accepts (same
    element type — the engine's —, same shape, same data order, equally long windows) the specialised
    `Add` returns exactly the default engine's outcome: the same new state (every buffer), the same
    returned tensor, the same errors. -/
theorem floatAdd_eq_std (s : St) (e : Eng) (a b : Dense) (u : Bool)
    (he : e ≠ .std) (hdt : a.dt = engDt e) (hdb : b.dt = a.dt)
    (hsh : shapeEq a.shape b.shape = true) (hord : sameOrd a b = true)
    (hia : a.requiresIterator = false) (hib : b.requiresIterator = false)
    (hm : a.mask = none) (hlen : a.win.len = b.win.len) :
    engFloatAdd s e a b { unsafe_ := u } = engArithVV s "add" numberTypes a b { unsafe_ := u } := by
  have hnum : engDt e ∈ numberTypes := by
    cases e <;> simp_all [engDt, numberTypes]
  have hk : engDt e ∈ kernelTypes "add" := by
    simpa [kernelTypes] using hnum
  have hv : vecFn "add" (engDt e) = fun x y => Val.app2 "add" x y := by
    simp [vecFn]
  have heop : ∀ (s' : St) (w : Win), w.len = b.win.len →
      eOp s' w b.win (fun x y => Val.app2 "add" x y) (vecFn "add" (engDt e)) = kVV s' w b.win (fun x y => Val.app2 "add" x y) := by
    intro s' w hw
    unfold eOp isSc
    rw [hv, hw]
    cases h1 : (b.win.len == 1) <;> simp
  unfold engFloatAdd engArithVV handleFuncOptsF handleFuncOpts
  simp [hia, hib, hdt, hdb, hsh, hord, hnum, hk]
  cases u
  · simp
    cases hc : Dense.clone s a with
    | error err => simp [bind, Except.bind]
    | ok p =>
      obtain ⟨s', c⟩ := p
      have hcl := (clone_fresh' s s' a c hm hc).2.2.1
      simp [bind, Except.bind, heop s' c.win (by rw [hcl, hlen])]
  · simp [heop s a.win hlen]

/-- `FMA(a, x, y)`, contiguous path: the specialised engines' fused kernel is the default engine's
    `Mul(a, x, WithIncr(y))` whenever the default engine takes its plain `MulIncr` kernel (operands
    accepted, `y` of the operands' shape and order, more than one element). -/
theorem floatFMA_eq_std (s : St) (e : Eng) (a x y : Dense)
    (he : e ≠ .std) (hdt : a.dt = engDt e) (hdx : x.dt = a.dt) (hdy : y.dt = a.dt)
    (hsh : shapeEq a.shape x.shape = true) (hshy : shapeEq y.shape a.shape = true)
    (hord : sameOrd a x = true) (hordy : sameOrd a y = true)
    (hia : a.requiresIterator = false) (hix : x.requiresIterator = false) (hiy : y.requiresIterator = false)
    (hleny : (y.win.len : Int) = totalSize a.shape)
    (hna : a.win.len ≠ 1) (hnx : x.win.len ≠ 1) :
    engFloatFMA s e a x y = engArithVV s "mul" numberTypes a x { incr := some y } := by
  have hnum : engDt e ∈ numberTypes := by
    cases e <;> simp_all [engDt, numberTypes]
  have hk : engDt e ∈ kernelTypes "mul" := by
    simpa [kernelTypes] using hnum
  have hv : vecFn "mul" (engDt e) = fun p q => Val.app2 "mul" p q := by
    simp [vecFn]
  have hoxy : sameOrd x y = true := by
    unfold sameOrd at *; simp_all
  unfold engFloatFMA engArithVV handleFuncOpts eOpIncr isSc
  simp [hia, hix, hiy, hdt, hdx, hdy, hsh, hshy, hord, hordy, hoxy, hnum, hk, hleny, hna, hnx, hv]

/-! ## non-vacuity and the recorded exception -/

/-- two contiguous f64 vectors of length 2 over buffers 0 and 1 -/
def wA : Dense := { ap := { shape := [2], strides := [1], fin := true }, win := ⟨0, 0, 2, 2⟩, dt := "f64", eng := .f64 }
def wB : Dense := { ap := { shape := [2], strides := [1], fin := true }, win := ⟨1, 0, 2, 2⟩, dt := "f64", eng := .f64 }
/-- a contiguous f64 vector of length 3 over buffer 1 (different shape) -/
def wC : Dense := { ap := { shape := [3], strides := [1], fin := true }, win := ⟨1, 0, 3, 3⟩, dt := "f64", eng := .f64 }
def wSt : St := { heap := #[#[.src 0 0, .src 0 1], #[.src 1 0, .src 1 1, .src 1 2]] }

/-- the hypotheses of `floatAdd_eq_std` / `floatFMA_eq_std` are satisfiable -/
example : Eng.f64 ≠ .std ∧ wA.dt = engDt .f64 ∧ wB.dt = wA.dt ∧ shapeEq wA.shape wB.shape = true ∧ sameOrd wA wB = true ∧
    wA.requiresIterator = false ∧ wB.requiresIterator = false ∧ wA.mask = none ∧ wA.win.len = wB.win.len := by decide

/-- … and on that instance the call does succeed (the equality is not between two errors) -/
example : (match engFloatAdd wSt .f64 wA wB { unsafe_ := true } with | .ok _ => true | .error _ => false) = true := by decide

/-- F37, the recorded exception to the equivalence: operands of *different shapes* (lengths 2 and 3) are
    refused by the default engine and combined cell by cell by the specialised engine. -/
theorem floatAdd_skips_shape_check :
    (match engFloatAdd wSt .f64 wA wC { unsafe_ := true } with | .ok _ => true | .error _ => false) = true ∧
    (match engArithVV wSt "add" numberTypes wA wC { unsafe_ := true } with | .ok _ => true | .error _ => false) = false := by
  decide

end TM.C20
