import TensorModel.Ext.Hooks
/-!
  Family `MultIter` (C05): the multi-iterator (`iterator_mult.go`).

  * `NewMultIterator(aps...)` — `MultIt.new`: selection of `maxDims` / `maxShape`, the validation pass
    through `BroadcastStrides` (skipped for an operand that has the iterator's own shape: `hasShape`), one
    zeroed stride block per operand, block sharing keyed by the operand's strides (`genIterator` /
    `hashIntArray`; the model's key is the strides list itself: two *different* lists with the same 64-bit
    FNV-1a sum are outside the model — stated as an assumption); the block of an operand of the iterator's
    own shape is a copy of its own strides, the block of any other operand comes from `BroadcastStrides`
    with its vector special case; the later "fill 0s with 1s", `fit0`, `whichBlock`, `lastIndexArr`;
  * `MultIteratorFromDense(tts...)` — `MultIt.fromDense`: the mask pass (more than one masked operand: the
    iterator is run to exhaustion once to build the joint mask and is *left exhausted*);
  * `Next`, `Start`, `Reset`, `Done`, `SetReverse`, `SetForward`, `Coord`, `LastIndex`.

  Aliasing that matters: the `FlatIterator` of a block is created from an `AP` whose strides slice *aliases*
  `it.strides`. It is created BEFORE the zeros of the block are replaced by ones, so its `isVector` /
  `veclikeDim` flags are those of the pre-fill strides, while every later step (`ndNext`, `Reset` …) reads the
  post-fill strides: `mkFit`.

  Step `multi $a $b [$c …] <script>` (operands are separate tokens — the tag machinery of `Run.lean` finds the
  objects a step names by resolving single tokens). Script letters (as `iter`, plus `s`, `l`):
    n  Next            → `i:l0/l1/…` (returned index, `LastIndex(j)` for every j) or `E`
    N  Next until the error, then two more calls → `i@coord:l0/l1/…` …, `E`, `E`
    s  Start           → as `n`
    r  SetReverse   f  SetForward   x  Reset
    c  Coord → `c…`    d  Done → `d0|d1`    l  → `l:l0/l1/…` (LastIndex without stepping)
  Fields: `seq=`, `ev=` (one letter per `Next`/`Start` call: `y` an index was returned, `E` the error),
  `cells<j>=` for every operand j: the cells of operand j at its `LastIndex(j)` after every successful call.
  (`cells0= cells1= …` rather than one `cells=` list with `|` separators: the harness' term-list parser has
  no separator token, and S can speak about operand j alone.)
-/
namespace TM
namespace MultIter

/-! ### BroadcastStrides -/

/-- `BorrowInts(n)`: the pool hands out zeroed slices (`ReturnInts` clears, `New` makes) -/
def zeros (n : Nat) : List Int := List.replicate n 0

/-- Go's `copy(dst, src)` on lists: the common prefix is overwritten -/
def copyInto (dst src : List Int) : List Int := src.take dst.length ++ dst.drop src.length

/-- the loop `for i := dims-1; i >= start; i--` of `BroadcastStrides` on the aligned lists
    (`dest[start:]`, `src`, `srcStrides`): the *last* axis is visited first, so its error / index panic wins -/
def bcLoop : List Int → List Int → List Int → Res (List Int)
  | d :: ds, s :: ss, strides => do
    let rest ← bcLoop ds ss (strides.drop 1)
    if s == 1 then pure (0 :: rest)
    else if s != d then throwErr "Cannot broadcast"
    else match strides with
      | st :: _ => pure (st :: rest)
      | [] => throwPanic "srcStrides: index out of range"
  | _, _, _ => pure []

/-- `BroadcastStrides(destShape, srcShape, destStrides, srcStrides)`; only `len(destStrides)` = `nDest` is
    used (here always `maxDims ≥ len(destShape)`) -/
def broadcastStrides (dest src : Shape) (nDest : Nat) (srcStrides : List Int) : Res (List Int) :=
  if isVector dest && isVector src then
    -- two vectors: a copy of the source's own strides
    pure srcStrides
  else if dest.length < src.length then throwErr "dimension mismatch"
  else if nDest < dest.length then throwPanic "retVal: index out of range"
  else do
    let start := dest.length - src.length
    let tail ← bcLoop (dest.drop start) src srcStrides
    pure (copyInto (zeros nDest) (zeros start ++ tail))

/-! ### NewMultIterator -/

/-- `hasShape(ap, shape)`: the operand has exactly the iterator's shape, axis by axis, and one stride per
    axis (a scalar-equivalent shape may come without strides) — it is not broadcast -/
def hasShape (shape : Shape) (ap : AP) : Bool :=
  ap.shape == shape && (ap.strides.length == shape.length || isScalarEquiv ap.shape)

/-- the `maxDims` / `maxShape` loop -/
def selMax : List AP → Nat → Shape → Nat × Shape
  | [], md, ms => (md, ms)
  | ap :: aps, md, ms =>
    if ap.shape.length ≥ md then
      selMax aps ap.shape.length (if totalSize ap.shape > totalSize ms then ap.shape else ms)
    else selMax aps md ms

/-- "fill 0s with 1s" -/
def fill (l : List Int) : List Int := l.map (fun s => if s == 0 then 1 else s)

/-- a stride block: the key it was registered under (the operand's own strides) and its contents before
    the fill -/
structure Blk where
  key : List Int
  pre : List Int
deriving Repr, DecidableEq, Inhabited

/-- `newFlatIterator(&ap2)` on the block's slice of `it.strides`, seen after the fill: flags from the
    pre-fill contents, strides read by the steps = the post-fill contents -/
def mkFit (shape : Shape) (b : Blk) : FlatIt :=
  { FlatIt.new { shape := shape, strides := b.pre } with strides := fill b.pre }

/-- the main loop of `NewMultIterator`: `genIterator` (look the strides up / register a new block),
    the operand's own strides (`hasShape`) or `BroadcastStrides` into the new block, `whichBlock[i]`. `share = false` is the iterator without block
    sharing (every operand its own block), used to state that sharing is unobservable.

    `fitArr[nBlocks-1] = newFlatIterator(&ap2)` is executed for every operand; `offset` still points to the
    latest block when an operand shares an earlier one, so the latest block's iterator is replaced by a fresh
    iterator over the same strides slice — the same iterator (`FlatIterator` reads only shape and strides of
    its AP; `o` and `Δ` of `ap2` are never looked at, `outerFirst` is never set). -/
def assign (share : Bool) (shape : Shape) (maxDims : Nat) : List AP → List Blk → List Nat → Res (List Blk × List Nat)
  | [], bs, w => pure (bs, w)
  | ap :: aps, bs, w =>
    match (if share then bs.findIdx? (fun b => b.key == ap.strides) else none) with
    | some f => assign share shape maxDims aps bs (w ++ [f])
    | none =>
      -- `copy(it.strides[offset:offset+maxDims], ap.strides)`
      if hasShape shape ap then
        assign share shape maxDims aps (bs ++ [⟨ap.strides, copyInto (zeros maxDims) ap.strides⟩]) (w ++ [bs.length])
      else
      match broadcastStrides shape ap.shape maxDims ap.strides with
      | .ok s => assign share shape maxDims aps (bs ++ [⟨ap.strides, copyInto (zeros maxDims) s⟩]) (w ++ [bs.length])
      | .error (.err _) => throwPanic "unreachable: validated before"
      | .error e => .error e

structure MultIt where
  shape : Shape
  fits : List FlatIt          -- fitArr
  which : List Nat            -- whichBlock
  fit0 : Nat                  -- position of fit0 in fitArr
  last : List Int             -- lastIndexArr
  done : Bool := false
deriving Repr, Inhabited

/-- `it.fit0 = it.fitArr[0]; for _, f := range it.fitArr { if it.fit0.size < f.size { it.fit0 = f } }` -/
def selFit0 (fits : List FlatIt) : Nat :=
  let rec go : List FlatIt → Nat → Nat → Int → Nat
    | [], _, best, _ => best
    | f :: fs, i, best, bsz => if bsz < f.size then go fs (i + 1) i f.size else go fs (i + 1) best bsz
  match fits with
  | [] => 0
  | f :: _ => go fits 0 0 f.size

/-- the validation pass:
    `for _, ap := range aps { if hasShape(ap, shape) { continue }; if _, err := BroadcastStrides(…); err != nil { panic(…) } }` -/
def validate (shape : Shape) (maxDims : Nat) : List AP → Res Unit
  | [] => pure ()
  | ap :: aps =>
    if hasShape shape ap then validate shape maxDims aps else
    match broadcastStrides shape ap.shape maxDims ap.strides with
    | .ok _ => validate shape maxDims aps
    | .error (.err _) => throwPanic "can not broadcast strides"
    | .error e => .error e

/-- `NewMultIterator(aps...)` for at least one AP (`nil` for none: the harness never asks) -/
def MultIt.newWith (share : Bool) (aps : List AP) : Res MultIt :=
  match aps with
  | [] => throwPanic "nil iterator"
  | ap0 :: _ =>
    let maxDims := (selMax aps 0 ap0.shape).1
    let shape := (selMax aps 0 ap0.shape).2
    match validate shape maxDims aps with
    | .error e => .error e
    | .ok _ =>
      match assign share shape maxDims aps [] [] with
      | .error e => .error e
      | .ok (blks, which) =>
        -- `it.shape[:maxDims]`: `shape` was borrowed with `len(maxShape)` cells (cap = len)
        if maxDims > shape.length then throwPanic "slice bounds out of range" else
        let fits := blks.map (mkFit (shape.take maxDims))
        pure { shape := shape, fits := fits, which := which, fit0 := selFit0 fits, last := zeros aps.length }

def MultIt.new (aps : List AP) : Res MultIt := MultIt.newWith true aps

/-! ### the methods -/

def lastOf (fits : List FlatIt) (b : Nat) : Int := match fits[b]? with | some f => f.lastIndex | none => 0

/-- the loop `for _, f := range it.fitArr { if _, err := f.Next(); err != nil { return } ; it.done = it.done || f.done }`:
    (iterators, `it.done`, no error met) -/
def nextAll : List FlatIt → Bool → List FlatIt × Bool × Bool
  | [], d => ([], d, true)
  | f :: fs, d =>
    match f.next with
    | (f', none) => (f' :: fs, d, false)
    | (f', some _) =>
      match nextAll fs (d || f'.done) with
      | (fs', d', ok) => (f' :: fs', d', ok)

/-- `MultIterator.Next`: `none` = an error was returned -/
def MultIt.next (it : MultIt) : MultIt × Option Int :=
  if it.done then (it, none) else
  match nextAll it.fits false with
  | (fits, d, false) => ({ it with fits := fits, done := d }, none)
  | (fits, d, true) =>
    ({ it with fits := fits, done := d, last := it.which.map (lastOf fits) }, some (lastOf fits it.fit0))

/-- `MultIterator.Reset` -/
def MultIt.reset (it : MultIt) : Res MultIt := do
  let fits ← it.fits.mapM FlatIt.reset
  pure { it with fits := fits, last := it.which.map (lastOf fits), done := false }

/-- `MultIterator.Start` -/
def MultIt.start (it : MultIt) : Res (MultIt × Option Int) := do
  let it ← it.reset
  pure it.next

/-- `MultIterator.SetReverse` / `SetForward`: the flat iterators are switched (and thereby reset), `it.done`
    is cleared; `lastIndexArr` is left as it is -/
def MultIt.setReverse (it : MultIt) : Res MultIt := do
  let fits ← it.fits.mapM FlatIt.setReverse
  pure { it with fits := fits, done := false }

def MultIt.setForward (it : MultIt) : Res MultIt := do
  let fits ← it.fits.mapM FlatIt.setForward
  pure { it with fits := fits, done := false }

/-- `MultIterator.Done` (recomputes `it.done`) -/
def MultIt.isDone (it : MultIt) : MultIt × Bool :=
  let d := it.fits.all (·.done)
  ({ it with done := d }, d)

/-- `MultIterator.Coord` -/
def MultIt.coord (it : MultIt) : List Int := match it.fits[it.fit0]? with | some f => f.track | none => []

/-- `MultIterator.LastIndex(j)` -/
def MultIt.lastIndex (it : MultIt) (j : Nat) : Int := it.last[j]?.getD 0

/-- `k` calls of `Next`, collecting what they return -/
def MultIt.nextN : Nat → MultIt → MultIt × List (Option Int)
  | 0, it => (it, [])
  | k + 1, it =>
    match MultIt.nextN k it with
    | (itk, rs) => match itk.next with
      | (it', r) => (it', rs ++ [r])

/-! ### MultIteratorFromDense -/

structure Operand where
  ap : AP
  /-- `IsMasked()` -/
  hasMask : Bool := false
  /-- `Mask()` -/
  mask : List Bool := []
deriving Inhabited

def setAt {α} (l : List α) (i : Nat) (a : α) : List α := l.set i a

/-- the joint-mask pass: `for i, err := it.Start(); err == nil; i, err = it.Next() { for j, k := range it.lastIndexArr { … } }` -/
def maskPass (ops : List Operand) : Nat → MultIt → Option Int → List Bool → Res MultIt
  | 0, it, _, _ => pure it
  | _, it, none, _ => pure it
  | fuel + 1, it, some i, mask => do
    let mask ← (List.range ops.length).foldlM (fun (mask : List Bool) j => do
      match ops[j]? with
      | some op =>
        if !op.hasMask then pure mask else
        -- `it.mask[i] = it.mask[i] || tts[j].Mask()[k]`: `it.mask[i]` is read first, `||` short-circuits
        if i < 0 then throwPanic "it.mask: index out of range" else
        match mask[i.toNat]? with
        | none => throwPanic "it.mask: index out of range"
        | some true => pure mask
        | some false =>
          let k := it.lastIndex j
          if k < 0 then throwPanic "Mask(): index out of range" else
          match op.mask[k.toNat]? with
          | none => throwPanic "Mask(): index out of range"
          | some b => pure (setAt mask i.toNat b)
      | none => pure mask) mask
    match it.next with
    | (it', r) => maskPass ops fuel it' r mask

/-- `MultIteratorFromDense(tts...)` -/
def MultIt.fromDenseWith (share : Bool) (ops : List Operand) : Res MultIt := do
  let it ← MultIt.newWith share (ops.map (·.ap))
  let numMasked := (ops.filter (·.hasMask)).length
  if numMasked > 1 then
    let n := (totalSize it.shape).toNat
    let (it, r) ← it.start
    maskPass ops (n + 2) it r (List.replicate n false)
  else pure it

def MultIt.fromDense (ops : List Operand) : Res MultIt := MultIt.fromDenseWith true ops

/-! ### the script of the `multi` step -/

structure ScriptOut where
  seq : List String := []       -- reversed
  ev : List Char := []          -- reversed
  offs : List (List Int) := []  -- per successful call (reversed): LastIndex(j) for every j

def showLast (it : MultIt) : String := String.intercalate "/" (it.last.map toString)

def runScript (it0 : MultIt) (bound : Nat) (script : String) : Res ScriptOut := do
  let rec nexts (fuel : Nat) (it : MultIt) (extra : Nat) (o : ScriptOut) : MultIt × ScriptOut :=
    match fuel with
    | 0 => (it, o)
    | fuel + 1 =>
      match it.next with
      | (it', some i) =>
        nexts fuel it' extra { seq := s!"{i}@{showInts it'.coord}:{showLast it'}" :: o.seq, ev := 'y' :: o.ev, offs := it'.last :: o.offs }
      | (it', none) =>
        if extra == 0 then (it', o) else nexts fuel it' (extra - 1) { o with seq := "E" :: o.seq, ev := 'E' :: o.ev }
  let single (r : MultIt × Option Int) (o : ScriptOut) : MultIt × ScriptOut :=
    match r with
    | (it', some i) => (it', { seq := s!"{i}:{showLast it'}" :: o.seq, ev := 'y' :: o.ev, offs := it'.last :: o.offs })
    | (it', none) => (it', { o with seq := "E" :: o.seq, ev := 'E' :: o.ev })
  let (_, out) ← script.toList.foldlM (fun (acc : MultIt × ScriptOut) c => do
    let (it, o) := acc
    match c with
    | 'n' => pure (single it.next o)
    | 's' => pure (single (← it.start) o)
    | 'N' => pure (nexts (bound + 3) it 2 o)
    | 'r' => pure ((← it.setReverse), o)
    | 'f' => pure ((← it.setForward), o)
    | 'x' => pure ((← it.reset), o)
    | 'c' => pure (it, { o with seq := s!"c{showInts it.coord}" :: o.seq })
    | 'd' => let (it', d) := it.isDone; pure (it', { o with seq := (if d then "d1" else "d0") :: o.seq })
    | 'l' => pure (it, { o with seq := s!"l:{showLast it}" :: o.seq })
    | _ => pure (it, { o with seq := "?" :: o.seq })) (it0, {})
  pure out

/-! ### S: the abstract iterator over the logical elements

  An iterator over a tensor with `n` logical elements: `p` = number of elements yielded since the last
  restart; `Next` yields element `p` of the row-major listing (element `n-1-p` when reversed) and reports the
  error once `p = n`; `Reset`, `SetReverse`, `SetForward` restart. No strides, offsets or blocks. -/

structure SIt where
  p : Nat := 0
  rev : Bool := false

structure SOutS where
  ev : List Char := []         -- reversed
  pos : List Nat := []         -- reversed: logical positions yielded

def sNext (n : Nat) (it : SIt) (o : SOutS) : SIt × SOutS × Bool :=
  if it.p < n then
    ({ it with p := it.p + 1 }, { ev := 'y' :: o.ev, pos := (if it.rev then n - 1 - it.p else it.p) :: o.pos }, true)
  else (it, { o with ev := 'E' :: o.ev }, false)

def specScript (n : Nat) (script : String) : Option SOutS :=
  let rec nexts (fuel : Nat) (it : SIt) (extra : Nat) (o : SOutS) : SIt × SOutS :=
    match fuel with
    | 0 => (it, o)
    | fuel + 1 =>
      match sNext n it o with
      | (it', o', true) => nexts fuel it' extra o'
      | (it', o', false) => if extra == 0 then (it', o) else nexts fuel it' (extra - 1) o'
  (script.toList.foldlM (fun (acc : SIt × SOutS) c =>
    let (it, o) := acc
    match c with
    | 'n' => let (it', o', _) := sNext n it o; some (it', o')
    | 's' => let (it', o', _) := sNext n { it with p := 0 } o; some (it', o')
    | 'N' => some (nexts (n + 6) it 2 o)
    | 'r' => some ({ p := 0, rev := true }, o)
    | 'f' => some ({ p := 0, rev := false }, o)
    | 'x' => some ({ it with p := 0 }, o)
    | 'c' | 'd' | 'l' => some (it, o)
    | _ => none) (({}, {}) : SIt × SOutS)).map (fun (r : SIt × SOutS) => r.2)

/-! ### Steps -/

def maskBits (st : St) (m : Win) : Res (List Bool) := (rangeI m.len).mapM (fun i => st.mget m i)

def operandOf (st : St) (t : Dense) : Res Operand := do
  let bits ← (match t.mask with | some m => maskBits st m | none => pure [] : Res (List Bool))
  pure { ap := t.ap, hasMask := t.isMasked, mask := bits }

def cellStr (st : St) (t : Dense) (i : Int) : String :=
  match st.get t.win i with | .ok v => v.toStr | .error _ => "oob"

def transpose {α} (rows : List (List α)) (n : Nat) : List (List α) :=
  (List.range n).map (fun j => rows.filterMap (fun r => r[j]?))

def splitOps (toks : List String) : Option (List String × String) :=
  match toks.reverse with
  | script :: ops => if ops.length ≥ 2 then some (ops.reverse, script) else none
  | [] => none

def stepM (ps : PState) (_i : Nat) (toks : List String) : PState × StepOut :=
  match toks with
  | "multi" :: rest =>
    match splitOps rest with
    | none => (ps, .fields "r=badprog")
    | some (opToks, script) =>
      let ts := opToks.filterMap (fun tok => (ps.obj tok).map (·.2))
      if ts.length != opToks.length then (ps, .fields "r=skip") else
      let bound := (ts.map (fun t => t.size.toNat)).foldl max 0 + 3
      let res : Res ScriptOut := do
        let ops ← ts.mapM (operandOf ps.st)
        let it ← MultIt.fromDense ops
        runScript it bound script
      match res with
      | .ok o =>
        let perOp := transpose o.offs.reverse ts.length
        let cells := (List.zip ts perOp).mapIdx (fun j (t, offs) =>
          let cs := offs.map (cellStr ps.st t)
          s!"cells{j}={if cs.isEmpty then "-" else String.intercalate "," cs}")
        let seq := o.seq.reverse
        (ps, .fields (s!"seq={if seq.isEmpty then "-" else String.intercalate "|" seq} ev={if o.ev.isEmpty then "-" else String.ofList o.ev.reverse} "
          ++ String.intercalate " " cells))
      | .error (.err _) => (ps, .fields "r=err")
      | .error (.panic _) => (ps, .stop "r=panic")
  | _ => (ps, .fields "r=badprog")

/-- S. Equally shaped, unmasked operands with at least one element: `ev` and, for EVERY operand j, the
    elements of operand j at the logical positions the abstract iterator yields. Anything else (unequal
    shapes, masks, empty tensors, unknown script letters): no line. -/
def stepS (psBefore psAfter : PState) (ss : SState) (_i : Nat) (toks : List String) (_mres : String) : SOut :=
  let ss := ss.sync psBefore.ds.size
  let fin := finS psAfter
  match toks with
  | "multi" :: rest =>
    match splitOps rest with
    | none => fin ss none
    | some (opToks, script) =>
      let ds := opToks.filterMap (fun tok => (psBefore.obj tok).map (·.2))
      if ds.length != opToks.length then fin ss none else
      match ds with
      | [] => fin ss none
      | d0 :: _ =>
        if ds.any (fun d => d.shape != d0.shape || d.mask.isSome) then fin ss none else
        let n := (totalSize d0.shape).toNat
        if n == 0 || d0.shape.any (· ≤ 0) then fin ss none else
        match specScript n script with
        | none => fin ss none
        | some o =>
          let pos := o.pos.reverse
          let cells := opToks.mapIdx (fun j tok =>
            match sObj psBefore ss tok with
            | some (_, so) =>
              match so.elems ss with
              | some es =>
                if es.length != n then none else
                some s!"cells{j}={showVals (pos.filterMap (fun p => es[p]?))}"
              | none => none
            | none => none)
          let known := cells.filterMap id
          fin ss (some (String.intercalate " " (s!"ev={if o.ev.isEmpty then "-" else String.ofList o.ev.reverse}" :: known)))
  | _ => fin ss none

/-- no recorded defect region is left in this family (F100, F101, F102 are repaired: `findings.d/multiter.json`) -/
def excl (_ps : PState) (_toks : List String) : List String × Bool := ([], false)

end MultIter

def multIterFamily : Family :=
  { name := "MultIter", keys := ["multi"], stepM := MultIter.stepM, stepS := MultIter.stepS, excl := MultIter.excl }

end TM
