-- Lists the generated functions / dispatcher arms that do not conform to their template.
-- cd /verif/lean && lake build TensorModel.Generated.Kernels TensorModel.Generated.Dispatch \
--   && lake env lean ../tools/gox/diagnose.lean
import TensorModel.Templates
import TensorModel.Generated.Kernels
import TensorModel.Generated.Dispatch
open TM.Templates TM.Generated
#eval nonconformingKernels kfamsChunks.flatten
#eval nonconformingArms dmethsChunks.flatten
