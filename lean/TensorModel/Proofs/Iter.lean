import TensorModel.Run
/-! Helper lemmas for C05 (iterators). -/
namespace TM

end TM
