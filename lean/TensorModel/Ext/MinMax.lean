import TensorModel.Ext.Hooks
/-!
  Family `MinMax`: `MinBetween` / `MaxBetween` (`defaultengine_minmax.go`, `api_minmax.go`,
  `internal/execution/eng_minmaxbetween.go`, `generic_minmax.go`). Part of C06 (elementwise
  minimum / maximum) and C07 (option modes).

  Kernel forms: VV `if b[i] < a[i] { a[i] = b[i] }`, VS `if b < a[i] { a[i] = b }`,
  SV `if a < b[i] { b[i] = a }`. With `minb x y := if y < x then y else x` these are
  `minb a[i] b[i]`, `minb a[i] b` and `minb b[i] a` respectively.
-/
namespace TM

/-- `E.MinBetween(t, a, b)` -/
def eMM (s : St) (op : String) (a b : Win) : Res St := do
  let f : BinF := fun x y => .app2 op x y
  if isSc a && !isSc b then kSV s (← s.rd a 1 0) b (fun a0 bi => .app2 op bi a0)
  else if !isSc a && isSc b then kVS s a (← s.rd b 1 0) f
  else kVV s a b f

/-- `E.MinBetweenIter(t, a, b, ait, bit)` -/
def eMMIter (s : St) (op : String) (a b : Win) (ia ib : ItS) : Res St := do
  let f : BinF := fun x y => .app2 op x y
  if isSc a && isSc b then kVV s a b f
  else if isSc a then kIterSV s (← s.rd a 1 0) b (fun a0 bi => .app2 op bi a0) ib
  else if isSc b then kIterVS s a (← s.rd b 1 0) f ia
  else kIterVV s a b f ia ib

/-- `StdEng.MinBetween(a, b, opts...)`: a result tensor of the operand's shape and data order is created in safe mode
    when no reuse tensor is given (`newDenseLike`); `UseUnsafe()` without reuse tensor works in place in `a`; a reuse
    tensor is the destination whether or not `UseUnsafe()` is given as well. -/
def engMMVV (s : St) (op : String) (a b : Dense) (o : Opts) : Res EngOut := do
  if !ordTypes.contains a.dt then throwErr "typeclass a"
  if !ordTypes.contains b.dt then throwErr "typeclass b"
  if a.dt != b.dt then throwErr "typeMismatch"
  if !shapeEq a.shape b.shape then throwErr "shapeMismatch"
  let (s, fo) ← handleFuncOpts s a.shape a.dt a.ap.o.col true o
  let (s, a, b) ← prepAliasVV s a b fo.reuse
  let useIter := a.requiresIterator || b.requiresIterator ||
    (match fo.reuse with | some r => r.requiresIterator | none => false) || !sameOrd a b ||
    (match fo.reuse with | some r => !sameOrd a r || !sameOrd b r | none => false)
  let (s, reuse, created) : St × Option Dense × Bool := match fo.reuse with
    | some r => (s, some r, false)
    | none =>
      if fo.safe then let (s, d) := newDenseZero s a.dt a.shape a.ap.o.col; (s, some d, true)
      else (s, none, false)
  match reuse with
  | none =>
    -- `!safe && reuse == nil`: in place in `a`
    if useIter then
      let ia ← a.itStream s
      let ib ← b.itStream s
      let s ← eMMIter s op a.win b.win ia ib
      pure ⟨s, none, .a⟩
    else
      let s ← eMM s op a.win b.win
      pure ⟨s, none, .a⟩
  | some r =>
    let ret : Ret := if created then .fresh r else .reuse
    let reuseOut : Option Dense := if created then fo.reuse else some r
    if useIter then
      let ia ← a.itStream s
      let ib ← b.itStream s
      let ir ← r.itStream s
      let s ← Dense.copyIterOffsets s r.win a.win (ir.map (·.1)) (ia.map (·.1))
      let s ← eMMIter s op r.win b.win ir ib
      pure ⟨s, reuseOut, ret⟩
    else
      let s ← Dense.rawCopy s r.win a.win
      let s ← eMM s op r.win b.win
      pure ⟨s, reuseOut, ret⟩

/-- `StdEng.MinBetweenScalar(t, s, leftTensor, opts...)` -/
def engMMScalar (s : St) (op : String) (t : Dense) (sc : ScalarArg) (leftTensor : Bool) (o : Opts) : Res EngOut := do
  if !ordTypes.contains t.dt then throwErr "typeclass t"
  if t.dt != sc.dt then throwErr "scalar dtype"
  let (s, fo) ← handleFuncOpts s t.shape t.dt t.ap.o.col true o
  let (s, t) ← prepAliasT s t fo.reuse
  let s := sc.refresh s
  let isSclr := isScalar t.shape
  let useIter := !isSclr && (t.requiresIterator ||
    (match fo.reuse with | some r => r.requiresIterator || !sameOrd r t | none => false))
  let (dA, dB) := if leftTensor then (t.win, sc.win) else (sc.win, t.win)
  let (s, reuse, created) : St × Option Dense × Bool := match fo.reuse with
    | some r => (s, some r, false)
    | none =>
      if fo.safe then let (s, d) := newDenseZero s t.dt t.shape t.ap.o.col; (s, some d, true)
      else (s, none, false)
  if useIter && sc.win.len != 1 then throwPanic "nil iterator: scalar operand with a multi-cell window"
  match reuse with
  | none =>
    -- `!safe && reuse == nil`: in place in the tensor
    if useIter then
      let it ← t.itStream s
      let (ia, ib) : ItS × ItS := if leftTensor then (it, []) else ([], it)
      let s ← eMMIter s op dA dB ia ib
      pure ⟨s, none, .a⟩
    else
      let s ← eMM s op dA dB
      -- scalar on the left of a one-element tensor: the kernel has put the result into the scalar's header; it is
      -- copied back into the tensor
      let s ← (if !leftTensor && dA.len == 1 && dB.len == 1 then Dense.rawCopy s dB dA else pure s)
      pure ⟨s, none, .a⟩
  | some r =>
    let ret : Ret := if created then .fresh r else .reuse
    let reuseOut : Option Dense := if created then fo.reuse else some r
    if useIter then
      let it ← t.itStream s
      let ir ← r.itStream s
      if !leftTensor then
        let s ← Dense.copyIterOffsets s r.win dB (ir.map (·.1)) (it.map (·.1))
        -- `MinBetweenIter(typ, dataA, dataReuse, ait, iit)`: the result is walked with its own iterator
        let s ← eMMIter s op dA r.win [] ir
        pure ⟨s, reuseOut, ret⟩
      else
        let s ← Dense.copyIterOffsets s r.win dA (ir.map (·.1)) (it.map (·.1))
        let s ← eMMIter s op r.win dB ir []
        pure ⟨s, reuseOut, ret⟩
    else
      if dA.len == 1 && dB.len == 1 && !leftTensor then
        let s ← Dense.rawCopy s r.win dB
        let s ← eMM s op r.win dA
        pure ⟨s, reuseOut, ret⟩
      else if leftTensor then
        let s ← Dense.rawCopy s r.win dA
        let s ← eMM s op r.win dB
        pure ⟨s, reuseOut, ret⟩
      else
        let s ← Dense.rawCopy s r.win dB
        let s ← eMM s op dA r.win
        pure ⟨s, reuseOut, ret⟩

def mmStepM (ps : PState) (_i : Nat) (toks : List String) : PState × StepOut :=
  match toks with
  | "mmb" :: op :: via :: a :: b :: optToks =>
    let po := parseOpts ps optToks
    if po.bad || !(op == "minb" || op == "maxb") then (ps.failVar, .fields "r=skip") else
    let vv (aId : Nat) (x y : Dense) := applyEng ps aId po (engMMVV ps.st op x y po.o)
    let sc (st : St) (tId : Nat) (t : Dense) (s : ScalarArg) (left : Bool) :=
      applyEng { ps with st := st } tId po (engMMScalar st op t s left po.o)
    match parseOperand ps a, parseOperand ps b with
    | .ten aId x, .ten bId y =>
      if via == "meth" then vv aId x y
      else if !isScalar y.shape && !isScalar x.shape then vv aId x y
      else if !isScalar y.shape then
        let (st, s) := tenScalar ps.st x
        sc st bId y s false
      else
        let (st, s) := tenScalar ps.st y
        sc st aId x s true
    | .ten aId x, .lit l dt =>
      let (st, s) := litScalar ps.st l (dt.getD x.dt)
      sc st aId x s true
    | .lit l dt, .ten bId y =>
      let (st, s) := litScalar ps.st l (dt.getD y.dt)
      sc st bId y s false
    | _, _ => (ps.failVar, .fields "r=skip")
  | _ => (ps, .fields "r=badprog")

/-- F10 (shared with `bin`; what is left of it): the destination of an unsafe call (the first operand) shares storage
    cells with the other operand through a different access pattern. -/
def mmExcl (ps : PState) (toks : List String) : List String × Bool :=
  match toks with
  | "mmb" :: _ :: _ :: a :: b :: opts =>
    let uns := opts.contains "unsafe"
    let reuse := (opts.find? (·.startsWith "reuse=")).bind (fun t => (ps.obj (t.drop 6).toString).map (·.2))
    let f10 := uns && reuse.isNone && (match ps.obj a, ps.obj b with
      | some (_, x), some (_, y) => sharesMemory x y && !sameAccess x y
      | _, _ => false)
    let tens := [a, b].filterMap (fun t => (ps.obj t).map (·.2))
    let f35 := tens.any (fun t => Excl_reuseOrderFlip t reuse)
    ((if f10 then ["F10"] else []) ++ (if f35 then ["F35"] else []), true)
  | _ => ([], false)

/-- S: elementwise minimum / maximum (`minb x y`, both orders agree on NaN-free data). -/
def mmStepS (psBefore psAfter : PState) (ss : SState) (_i : Nat) (toks : List String) (mres : String) : SOut :=
  let ss := ss.sync psBefore.ds.size
  let newId := psBefore.ds.size
  let fin := finS psAfter
  match toks with
  | "mmb" :: op :: _via :: a :: b :: optToks =>
    let unsafe_ := optToks.contains "unsafe"
    let reuseTok := (optToks.find? (·.startsWith "reuse=")).map (fun t => (t.drop 6).toString)
    let idOf (tok : String) : List Nat := match sObj psBefore ss tok with | some (i, _) => [i] | none => []
    let dests : List Nat := (if unsafe_ then idOf a ++ idOf b else []) ++ (match reuseTok with | some t => idOf t | none => [])
    let undef (ss : SState) : SOut := fin (dests.foldl (fun ss i => ss.kill i) ss) none
    let refuse (ss : SState) : SOut := fin (dests.foldl (fun ss i => ss.kill i) ss) (some "r=err")
    if optToks.any (·.startsWith "incr=") then undef ss else
    let opnd (tok : String) : Option (Option (Nat × SObj) × Option String) :=
      if tok.startsWith "$" then (sObj psBefore ss tok).map (fun x => (some x, none))
      else if tok.startsWith "#" then some (none, some (tok.drop 1).toString) else none
    match opnd a, opnd b with
    | some (ta, la), some (tb, lb) =>
      let tens := match ta, tb with | some x, _ => some x | none, some y => some y | none, none => none
      match tens with
      | none => undef ss
      | some (tid, t) =>
        let dtOf (tok : String) : String := match psBefore.obj tok with | some (_, d) => d.dt | none => "?"
        let tdt := if ta.isSome then dtOf a else dtOf b
        let litDt (l : String) : String := match l.splitOn ":" with | [_, d] => d | _ => tdt
        let litTerm (l : String) : Val := match l.splitOn ":" with | [x, d] => .lit s!"{x}:{d}" | _ => .lit s!"{l}:{tdt}"
        let scalarTensor := (match ta with | some (_, x) => x.idx.shape.isEmpty | none => false) ||
                            (match tb with | some (_, x) => x.idx.shape.isEmpty | none => false)
        if scalarTensor then undef ss else
        let dtA := match ta, la with | some _, _ => dtOf a | _, some l => litDt l | _, _ => "?"
        let dtB := match tb, lb with | some _, _ => dtOf b | _, some l => litDt l | _, _ => "?"
        if !ordTypes.contains tdt || dtA != dtB then refuse ss else
        let shapesOk := match ta, tb with
          | some (_, x), some (_, y) => some (x.idx.shape == y.idx.shape, totalSize x.idx.shape == totalSize y.idx.shape)
          | _, _ => none
        match shapesOk with
        | some (false, false) => refuse ss
        | some (false, true) => undef ss
        | _ =>
          let ea := match ta, la with
            | some (_, x), _ => x.elems ss
            | none, some l => some (List.replicate t.idx.elems.length (litTerm l))
            | _, _ => none
          let eb := match tb, lb with
            | some (_, y), _ => y.elems ss
            | none, some l => some (List.replicate t.idx.elems.length (litTerm l))
            | _, _ => none
          match ea, eb with
          | some ea, some eb =>
            let vals := List.zipWith (fun x y => Val.app2 op x y) ea eb
            match reuseTok with
            | some rt =>
              match sObj psBefore ss rt with
              | some (rid, ro) =>
                if ro.idx.elems.length != vals.length then refuse ss else
                if ro.idx.shape != t.idx.shape then undef ss else
                match ss.store[ro.root]? with
                | some bcells =>
                  let b' := (ro.idx.elems.zip vals).foldl (fun b (k, v) => b.setIfInBounds k v) bcells
                  if ro.isView && mres != "ok" then fin ss (some "r=ok|err") else
                  fin { ss with store := ss.store.set! ro.root b' } (some s!"r={if ro.isView then "ok|err" else "ok"} ident={psBefore.firstVar rid}")
                | none => undef ss
              | none => undef ss
            | none =>
              if unsafe_ then
                match ss.store[t.root]? with
                | some bcells =>
                  let b' := (t.idx.elems.zip vals).foldl (fun b (k, v) => b.setIfInBounds k v) bcells
                  fin { ss with store := ss.store.set! t.root b' } (some s!"r=ok ident={psBefore.firstVar tid}")
                | none => undef ss
              else
                let root := ss.store.size
                let ss := { ss with store := ss.store.push vals.toArray }
                let o' : SObj := { root := root, idx := ⟨t.idx.shape, List.range vals.length⟩ }
                fin ({ ss with objs := (ss.sync newId).objs.push (some o') }) (some "r=ok ident=new")
          | _, _ => undef ss
    | _, _ => undef ss
  | _ => fin ss none

def minMaxFamily : Family :=
  { name := "MinMax", keys := ["mmb"], stepM := mmStepM, stepS := mmStepS, excl := mmExcl }

end TM
