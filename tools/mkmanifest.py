#!/usr/bin/env python3
"""Regenerates /verif/MANIFEST.json from tools/props.py (claimed checks) and the list of all properties."""
import json, os, sys
sys.path.insert(0, os.path.dirname(os.path.abspath(__file__)))
import props as PROPS
V = os.path.dirname(os.path.dirname(os.path.abspath(__file__)))
ids = [json.loads(l)["id"] for l in open(os.path.join(V, "properties.jsonl"))]
BASE = "for m in $(cat /w/out/gomods.txt); do MF=$(cd /repo/$m && . /w/out/goenv.sh && gomodflag); (cd /repo/$m && go test $MF -json -vet=off -count=1 -timeout 25m ./...); done"
man = {
    "version": 1,
    "setup_cmd": "./setup.sh",
    "hooks": {"guard": "verif", "enable": "go build -tags verif (harness module tools/harness with replace gorgonia.org/tensor => /repo)",
              "baseline_off_cmd": BASE, "add_only": True,
              "source_commits": PROPS.HOOK_COMMITS},
    "engines": [
        {"name": "lean-model", "path": "lean", "serves_properties": sorted(PROPS.PROPS), "kind_free_text": "Lean 4 executable model M, specification S, property theorems (lean/TensorModel/Props), driver tmdriver"},
        {"name": "go-harness", "path": "tools/harness", "serves_properties": sorted(PROPS.PROPS), "kind_free_text": "Go program generator + in-process executor of gorgonia/tensor + comparator against the driver's output"},
    ],
    "checks": [],
    "not_applicable": [],
    "notes": "Technique family: machine-checked proof in Lean 4. Every check = Lean theorems about the model (re-built and axiom-audited on every run) + correspondence run model<->implementation + specification oracle. See DESIGN.md.",
}
for pid in ids:
    if pid in PROPS.PROPS:
        c = PROPS.PROPS[pid]
        man["checks"].append({
            "property_id": pid,
            "quick_cmd": f"./check {pid} --tier quick",
            "thorough_cmd": f"./check {pid} --tier thorough",
            "evidence_file": f"/verif/evidence/{pid}.json",
            "replay_cmd_template": f"./check {pid} --replay {{path}}",
            "engine": "lean-model",
            "level_claimed": {"category": "proof", "text": c.get("level_text", PROPS.DEFAULT_LEVEL_TEXT), "design_ref": c.get("design_ref", "DESIGN.md §4 " + pid)},
            "level_note": c.get("level_note", PROPS.DEFAULT_LEVEL_NOTE),
            "technique": c.get("technique", "Lean 4 theorems (refinement of the spec by an executable model mirroring the Go code) + differential correspondence model/implementation + spec oracle"),
        })
    else:
        man["not_applicable"].append({"property_id": pid, "reason": PROPS.NOT_YET.get(pid, "check not built yet in this round (the technique applies; see DESIGN.md §4)")})
json.dump(man, open(os.path.join(V, "MANIFEST.json"), "w"), indent=1)
print("claimed:", [c["property_id"] for c in man["checks"]])
