import TensorModel.Iter
import TensorModel.Val
/-!
  Model of `*Dense`: storage windows over a heap of buffers, views, lazy/physical transposition,
  element access, whole-tensor writes, copies. Mirrors `dense.go`, `dense_matop.go`,
  `dense_matop_memmove.go`, `dense_views.go`, `array.go`, `consopt.go`,
  `defaultengine_matop_transpose.go`.
-/
namespace TM

/-- `array.Header.Raw[s:e]` in element units: a window of a heap buffer. -/
structure Win where
  buf : Nat
  off : Nat
  len : Nat
  cap : Nat
deriving Repr, DecidableEq, Inhabited

inductive Eng where | std | f32 | f64
deriving Repr, DecidableEq, Inhabited

structure Dense where
  ap : AP
  old : Option AP := none            -- `none` = zero AP (no pending transpose)
  tw : Option (List Int) := none     -- transposeWith
  win : Win
  dt : String                        -- element type name
  view : Bool := false               -- viewOf ≠ 0
  mask : Option Win := none          -- window into the mask heap; IsMasked ⇔ len = win.len
  maskSoft : Bool := false
  eng : Eng := .std
deriving Repr, Inhabited

abbrev Heap := Array (Array Val)

structure St where
  heap : Heap := #[]
  mheap : Array (Array Bool) := #[]
deriving Inhabited

def St.alloc (s : St) (cells : Array Val) : St × Nat :=
  ({ s with heap := s.heap.push cells }, s.heap.size)

def St.allocMask (s : St) (cells : Array Bool) : St × Nat :=
  ({ s with mheap := s.mheap.push cells }, s.mheap.size)

/-- read cell `i` of a window (Go: typed slice index, panics outside `[0,len)`). -/
def St.get (s : St) (w : Win) (i : Int) : Res Val :=
  if i < 0 || i ≥ w.len then throwPanic "data index out of range"
  else match s.heap[w.buf]? with
    | none => throwPanic "no such buffer"
    | some b => match b[w.off + i.toNat]? with
      | none => throwPanic "buffer too short"
      | some v => .ok v

def St.set (s : St) (w : Win) (i : Int) (v : Val) : Res St :=
  if i < 0 || i ≥ w.len then throwPanic "data index out of range"
  else match s.heap[w.buf]? with
    | none => throwPanic "no such buffer"
    | some b =>
      if w.off + i.toNat < b.size then
        .ok { s with heap := s.heap.set! w.buf (b.set! (w.off + i.toNat) v) }
      else throwPanic "buffer too short"

def St.mget (s : St) (w : Win) (i : Int) : Res Bool :=
  if i < 0 || i ≥ w.len then throwPanic "mask index out of range"
  else match s.mheap[w.buf]? with
    | none => throwPanic "no such mask buffer"
    | some b => match b[w.off + i.toNat]? with
      | none => throwPanic "mask buffer too short"
      | some v => .ok v

def St.mset (s : St) (w : Win) (i : Int) (v : Bool) : Res St :=
  if i < 0 || i ≥ w.len then throwPanic "mask index out of range"
  else match s.mheap[w.buf]? with
    | none => throwPanic "no such mask buffer"
    | some b =>
      if w.off + i.toNat < b.size then
        .ok { s with mheap := s.mheap.set! w.buf (b.set! (w.off + i.toNat) v) }
      else throwPanic "mask buffer too short"

namespace Dense

def shape (t : Dense) : Shape := t.ap.shape
def strides (t : Dense) : List Int := t.ap.strides
def dims (t : Dense) : Nat := t.ap.shape.length
def size (t : Dense) : Int := totalSize t.ap.shape
def isMasked (t : Dense) : Bool := match t.mask with | some m => m.len == t.win.len | none => t.win.len == 0
def isMaterializable (t : Dense) : Bool := t.view || t.old.isSome
/-- `RequiresIterator` -/
def requiresIterator (t : Dense) : Bool :=
  if t.win.len == 1 then false
  else t.ap.o.nonContig || t.old.isSome || (t.mask.isSome && t.isMasked)
def oshape (t : Dense) : Shape := match t.old with | some o => o.shape | none => t.ap.shape
def ostrides (t : Dense) : List Int := match t.old with | some o => o.strides | none => t.ap.strides

/-- default strides for the tensor's data order (`AP.calcStrides`) -/
def defaultStrides (col : Bool) (sh : Shape) : List Int :=
  if col then calcStridesCol sh else calcStrides sh

/-- `New(WithShape(shape), WithBacking(b))` over a fresh buffer of `n` cells, row-major. -/
def newRow (s : St) (dt : String) (sh : Shape) (cells : Array Val) : Res (St × Dense) :=
  let (s, b) := s.alloc cells
  let n := cells.size
  -- sanity(): non-view, non-scalar tensors must have len = size
  if sh != [] && (n : Int) != totalSize sh then throwPanic "sanity: shape mismatch"
  else if sh == [] && n == 0 then throwPanic "empty"
  else .ok (s, { ap := { shape := sh, strides := calcStrides sh, fin := true }, win := ⟨b, 0, n, n⟩, dt := dt })

/-- `At(coords...)` -/
def at_ (s : St) (t : Dense) (coords : List Int) : Res Val := do
  if coords.length != t.dims then throwErr "dimMismatch"
  let i ← ltoi t.shape t.strides coords
  s.get t.win i

/-- `SetAt(v, coords...)` -/
def setAt (s : St) (t : Dense) (coords : List Int) (v : Val) : Res St := do
  if coords.length != t.dims then throwErr "dimMismatch"
  let i ← ltoi t.shape t.strides coords
  s.set t.win i v

/-- `Slice(slices...)` -/
def slice (t : Dense) (sls : List (Option Sl)) : Res Dense := do
  let (nap, ndStart, ndEnd) ← t.ap.S t.win.len sls
  -- array.sliceInto(i, j): panics if i < 0 || j < i || j > cap
  if ndStart < 0 || ndEnd < ndStart || ndEnd > t.win.cap then throwPanic "sliceInto out of bounds"
  let w : Win := ⟨t.win.buf, t.win.off + ndStart.toNat, (ndEnd - ndStart).toNat, t.win.cap - ndStart.toNat⟩
  let m ← (match t.mask with
    | some m =>
      if t.isMasked then
        (if ndEnd > m.cap then throwPanic "mask slice out of bounds"
         else pure (some (⟨m.buf, m.off + ndStart.toNat, (ndEnd - ndStart).toNat, m.cap - ndStart.toNat⟩ : Win)))
      else pure none
    | none => pure none : Res (Option Win))
  -- a view of a lazily transposed tensor is flagged non-contiguous (its strides are not those of its storage order)
  let nap := if t.old.isSome && !isScalar nap.shape then { nap with o := { nap.o with nonContig := true } } else nap
  pure { ap := nap, win := w, dt := t.dt, view := true, mask := m, eng := t.eng }

/-- iterator offsets of the *current* access pattern -/
def offsets (t : Dense) : List Int := FlatIt.offsets t.ap

/-- `copy(dst.strides, exp)`: overwrite the common prefix -/
def copyPrefix : List Int → List Int → List Int
  | _ :: ds, e :: es => e :: copyPrefix ds es
  | ds, _ => ds

/-- gather `orig[i]` for every iterator offset `i` into a temporary, then `copy(orig, tmp)`. -/
def gatherCopy (s : St) (t : Dense) : Res St := do
  let offs := t.offsets
  let vals ← offs.mapM (fun i => s.get t.win i)
  let rec wr (s : St) (j : Nat) : List Val → Res St
    | [] => .ok s
    | v :: vs => do
      if j ≥ t.win.len then .ok s else
      let s ← s.set t.win j v
      wr s (j + 1) vs
  wr s 0 vals

def gatherCopyMask (s : St) (t : Dense) : Res St := do
  match t.mask with
  | none => pure s
  | some m =>
    if !t.isMasked then pure s else
    let offs := t.offsets
    let vals ← offs.mapM (fun i => s.mget m i)
    -- `tmp := make([]bool, len(orig))`, gather into tmp, `copy(orig, tmp)`: the whole mask window is
    -- overwritten, entries behind the gathered ones become false
    let padded := vals ++ List.replicate (m.len - vals.length) false
    let rec wr (s : St) (j : Nat) : List Bool → Res St
      | [] => .ok s
      | v :: vs => do
        if j ≥ m.len then .ok s else
        let s ← s.mset m j v
        wr s (j + 1) vs
    wr s 0 padded

/-- fresh tensor holding `cells`, default strides for `col` -/
def fresh (s : St) (dt : String) (sh : Shape) (col : Bool) (cells : Array Val) (eng : Eng := .std) : St × Dense :=
  let (s, b) := s.alloc cells
  (s, { ap := { shape := sh, strides := defaultStrides col sh, fin := true, o := { col := col } },
        win := ⟨b, 0, cells.size, cells.size⟩, dt := dt, eng := eng })

/-- all cells of the window -/
def rawCells (s : St) (t : Dense) : Res (List Val) :=
  (rangeI t.win.len).mapM (fun i => s.get t.win i)

/-- elements in iterator order of the current pattern -/
def iterCells (s : St) (t : Dense) : Res (List Val) :=
  t.offsets.mapM (fun i => s.get t.win i)

end Dense
end TM
