import TensorModel.Proofs.Views
/-!
  C04 — views alias their source, copies never do, writes stay inside the view.
  Property theorems only; helper lemmas live in `TensorModel/Proofs/Views.lean`.
-/
namespace TM.C04

/-- cell `k` of buffer `b` of the heap -/
def cell (st : St) (b k : Nat) : Option Val := (st.heap[b]?).bind (·[k]?)

/-- re-insert coordinate 0 at the dropped axes of a sliced pattern -/
def expandCoord : List Bool → List Int → List Int
  | [], _ => []
  | true :: ds, c => 0 :: expandCoord ds c
  | false :: ds, ci :: c => ci :: expandCoord ds c
  | false :: ds, [] => 0 :: expandCoord ds []

/-- effective (start, step) of every axis as `SliceDetails` reports them -/
def selOf : List (Option Sl) → Shape → List (Int × Int)
  | _, [] => []
  | sls, d :: ds =>
    (match sliceDetails sls.head?.join d with
     | .ok (st, _, sp) => (st, if sp > 0 then sp else 1)
     | .error _ => (0, 1)) :: selOf sls.tail ds

/-- which axes `AP.S` drops: new extent one and a non-nil slice was given for the axis -/
def droppedOf (rs : List AxisRes) (sls : List (Option Sl)) : List Bool :=
  (rs.zip (sls.map Option.isSome ++ List.replicate rs.length false)).map (fun (r, given) => r.n == 1 && given)

/-- **A view addresses exactly the requested source cells.** For the non-scalar branch of `AP.S`:
    the offset (relative to the source window) of result coordinate `c` of the view equals the
    source offset of coordinate `startᵢ + cᵢ·stepᵢ` (dropped axes at their single position). Any rank,
    any source strides (so: slices of slices of transposes, to any depth). -/
theorem slice_addr (ap nap : AP) (size ndStart ndEnd : Int) (sls : List (Option Sl)) (rs : List AxisRes)
    (hloop : apSLoop (isVector ap.shape) (if !ap.o.col || isVector ap.shape then 0 else ap.shape.length - 1) 0 ap.shape ap.strides sls = .ok rs)
    (h : ap.S size sls = .ok (nap, ndStart, ndEnd)) (hns : ndEnd - ndStart ≠ 1)
    (c : List Int) (hc : c.length = nap.shape.length)  :
    ndStart + dot c nap.strides =
      dot (List.zipWith (fun (p : Int × Int) ci => p.1 + ci * p.2) (selOf sls ap.shape) (expandCoord (droppedOf rs sls) c)) ap.strides := by
  exact slice_addr' selOf (fun sls => by cases sls <;> rfl) (fun _ _ _ => rfl)
    expandCoord (fun _ => rfl) (fun _ _ => rfl) (fun _ _ _ => rfl)
    ap nap size ndStart ndEnd sls rs hloop h hns c hc

/-- `Memset` through a view (iterator path) writes the cells at the iterator's offsets … -/
theorem memset_writes (st st' : St) (t : Dense) (v : Val) (hm : t.isMaterializable = true)
    (h : t.memset st v = .ok st') (i : Int) (hi : i ∈ t.offsets) :
    st'.get t.win i = .ok v := by
  exact memset_writes' st st' t v hm h i hi

/-- … and no other cell of any buffer: writes stay inside the view. -/
theorem memset_frame (st st' : St) (t : Dense) (v : Val) (hm : t.isMaterializable = true)
    (h : t.memset st v = .ok st') (b k : Nat)
    (hout : b ≠ t.win.buf ∨ ∀ i ∈ t.offsets, (k : Int) ≠ t.win.off + i) :
    cell st' b k = cell st b k := by
  exact memset_frame' st st' t v hm h b k hout

/-- `Zero` on a view (after the `fix:`) touches only the view's cells as well. -/
theorem zero_frame (st st' : St) (t : Dense) (hm : t.isMaterializable = true)
    (h : t.zero st = .ok st') (b k : Nat)
    (hout : b ≠ t.win.buf ∨ ∀ i ∈ t.offsets, (k : Int) ≠ t.win.off + i) :
    cell st' b k = cell st b k := by
  exact zero_frame' st st' t hm h b k hout

/-- `Clone` allocates a fresh buffer, copies the whole storage window and leaves every existing
    buffer as it was; the access pattern is the same, so the clone is logically equal and shares
    nothing. -/
theorem clone_fresh (st st' : St) (t r : Dense) (hnm : t.mask = none) (h : t.clone st = .ok (st', r)) :
    r.win.buf = st.heap.size ∧ r.win.off = 0 ∧ r.win.len = t.win.len ∧
    r.ap.shape = t.ap.shape ∧ r.ap.strides = t.ap.strides ∧ r.ap.o = t.ap.o ∧ r.view = false ∧
    (∀ b k, b < st.heap.size → cell st' b k = cell st b k) := by
  exact clone_fresh' st st' t r hnm h

/- Original statement (FALSE as written: nothing says that `t`'s buffer exists in `st`):

theorem clone_eq (st st' : St) (t r : Dense) (hnm : t.mask = none) (h : t.clone st = .ok (st', r))
    (i : Int) (hi : 0 ≤ i ∧ i < t.win.len) :
    st'.get r.win i = st.get t.win i

   Counterexample (`clone_eq_full_fails` below): the empty heap and a tensor whose window names the
   not-yet-allocated buffer `st.heap.size`. `Clone` allocates exactly that index, so the copy loop
   reads the fresh zero-filled buffer and succeeds, whereas the read in the original state panics
   ("no such buffer"). The proved variant adds the well-formedness hypothesis `hwf` that the
   source buffer is allocated in `st`. -/
theorem clone_eq_partial (st st' : St) (t r : Dense) (hnm : t.mask = none) (h : t.clone st = .ok (st', r))
    (hwf : t.win.buf < st.heap.size)
    (i : Int) (hi : 0 ≤ i ∧ i < t.win.len) :
    st'.get r.win i = st.get t.win i := by
  exact clone_eq' st st' t r hnm h hwf i hi

/-- The unrestricted statement fails for a dangling source window. -/
theorem clone_eq_full_fails :
    ∃ (st st' : St) (t r : Dense) (i : Int), t.mask = none ∧ t.clone st = .ok (st', r) ∧
      (0 ≤ i ∧ i < t.win.len) ∧ st'.get r.win i ≠ st.get t.win i := by
  refine ⟨{}, _, { ap := { shape := [1], strides := [1] }, win := ⟨0, 0, 1, 1⟩, dt := "int" }, _, 0,
    rfl, rfl, by decide, ?_⟩
  intro h
  cases h

/-- `CopyTo` refuses views with an error and copies nothing. -/
theorem copyTo_refuses_views (st : St) (t other : Dense) (hv : t.view = true ∨ other.view = true)
    (hs : other.size = t.size) :
    ∃ tag, t.copyTo st other = .error (.err tag) := by
  exact copyTo_refuses_views' st t other hv hs

/-- `Materialize` of a tensor that is neither a view nor lazily transposed returns the tensor itself. -/
theorem materialize_self (st : St) (t : Dense) (h : t.isMaterializable = false) :
    t.materialize st = .ok (st, none) := by
  exact materialize_self' st t h

-- non-vacuity
example : expandCoord [false, true, false] [5, 7] = [5, 0, 7] := by decide

/-- (after the repair of finding F27) a view of a lazily transposed tensor is flagged non-contiguous, hence every
    whole-tensor operation on it (Materialize, Copy, Memset, arithmetic) goes through its iterator and never
    reads its storage window as a block — for every slice list. -/
theorem view_of_transposed_requires_iterator (t v : Dense) (sls : List (Option Sl)) (h : t.slice sls = .ok v)
    (hold : t.old.isSome = true) (hns : isScalar v.ap.shape = false) (hlen : v.win.len ≠ 1) :
    v.ap.o.nonContig = true ∧ v.requiresIterator = true := by
  unfold Dense.slice at h
  simp only [bind, Except.bind, pure, Except.pure] at h
  split at h
  · cases h
  · rename_i r hr
    obtain ⟨nap, s0, e0⟩ := r
    simp only at h
    split at h
    · cases h
    · split at h
      · cases h
      · rename_i m hm
        injection h with h
        subst h
        simp only at hns hlen ⊢
        by_cases hsc : isScalar nap.shape = true
        · simp [hold, hsc] at hns
        · simp [hold, hsc, Dense.requiresIterator, hlen]

end TM.C04
