import TensorModel.Run
import TensorModel.Proofs.ColMajor
import TensorModel.Props.C01
import TensorModel.Props.C05
import TensorModel.Props.C11
import TensorModel.Proofs.CoreEq
/-!
  C16 — a column-major tensor is the array with the same logical contents.
  Property theorems only (helper lemmas: `Proofs/ColMajor.lean`, `Proofs/Ltoi.lean`, `Proofs/Iter.lean`,
  `Proofs/Kernels.lean`). The statements say that the *metadata-level* functions every operation is
  built from (coordinate → offset, iteration order, the iterator-path decision of the engine glue and
  of Copy) are order-independent at the level of coordinates: a column-major operand is addressed by
  coordinate exactly like a row-major one, only the cell that holds a coordinate differs (`colRank`
  instead of `rowRank`).
-/
set_option linter.unusedSimpArgs false
namespace TM.C16
open TM

/-! ## element access -/

/-- Column-major strides as computed by `CalcStridesColMajor` for a proper n-d shape (not a vector, not
    scalar-equivalent): `At(c)` addresses the cell whose column-major rank is `c`, for every rank. -/
theorem colMajor_at (shape : Shape) (c : List Int) (hv : isVector shape = false) (hs : isScalarEquiv shape = false)
    (hc : inBox shape c = true) :
    ltoi shape (calcStridesCol shape) c = .ok (colRank shape c) := by
  unfold calcStridesCol
  simp only [hs, hv, Bool.false_eq_true, if_false]
  exact C01.ltoi_colMajor shape c hc

/-- distinct in-range coordinates of a column-major tensor are held by distinct cells inside the window -/
theorem colMajor_covers (shape : Shape) (c c' : List Int) (hc : inBox shape c = true) (hc' : inBox shape c' = true) :
    (0 ≤ colRank shape c ∧ colRank shape c < prod shape) ∧ (colRank shape c = colRank shape c' → c = c') :=
  ⟨C01.colRank_bounds shape c hc, C01.colRank_inj shape c c' hc hc'⟩

/-- a coordinate outside the box is rejected whatever the data order (the check does not look at strides) -/
theorem colMajor_rejects (shape : Shape) (c : List Int) (hv : isVector shape = false) (hs : isScalarEquiv shape = false)
    (harity : c.length = shape.length) (hbad : inBox shape c = false) :
    ∃ tag, ltoi shape (calcStridesCol shape) c = .error (.err tag) := by
  apply C01.ltoi_rejects shape _ c _ harity hbad
  unfold calcStridesCol
  simp only [hs, hv, Bool.false_eq_true, if_false]
  exact prefixProds_length shape 1

/-- the same about the source as translated on this run: `CalcStridesColMajor` (shape.go) followed by
    `Ltoi` (utils.go) addresses the column-major rank of the coordinate -/
theorem colMajor_at_source (shape : Shape) (c : List Int) (hpos : ∀ d ∈ shape, 0 ≤ d)
    (hv : isVector shape = false) (hs : isScalarEquiv shape = false) (hc : inBox shape c = true) :
    (do let st ← Gen.Shape_CalcStridesColMajor shape; pure (Gen.clsE (Gen.Ltoi shape st c))) = .ok (.val (colRank shape c)) :=
  C01.source_colMajor_addressing shape c hpos hv hs hc

/-- `CalcStridesColMajor` (source) = the model's `calcStridesCol`, every rank (incl. the short stride
    vectors of vectors and scalar-equivalent shapes, finding F24) -/
theorem calcStridesCol_source (shape : Shape) (hpos : ∀ d ∈ shape, 0 ≤ d) :
    Gen.Shape_CalcStridesColMajor shape = .ok (calcStridesCol shape) :=
  Gen.Shape_CalcStridesColMajor_eq shape hpos

/-! ## iteration -/

/-- The flat iterator of a column-major tensor visits the logical elements in *row-major order of
    coordinates* (the same order as for a row-major tensor): its k-th offset is the column-major rank of
    the k-th coordinate. -/
theorem colMajor_iter_logical (shape : Shape) (o : Order) (hpos : ∀ d ∈ shape, 0 < d)
    (hnv : isVectorLike shape = false) :
    FlatIt.offsets { shape := shape, strides := prefixProds 1 shape, fin := true, o := o } =
      (allCoords shape).map (colRank shape) := by
  have h := C05.ndNext_run { shape := shape, strides := prefixProds 1 shape, fin := true, o := o }
    ⟨prefixProds_length shape 1, hpos⟩ (by simp [AP.isVectorLike, hnv])
  rw [h]
  rfl

/-- … and for the row-major twin it is the row-major rank of the same k-th coordinate: iterating a
    column-major and a row-major tensor of one shape side by side pairs equal coordinates. -/
theorem rowMajor_iter_logical (shape : Shape) (o : Order) (hpos : ∀ d ∈ shape, 0 < d)
    (hnv : isVectorLike shape = false) :
    FlatIt.offsets { shape := shape, strides := calcStrides shape, fin := true, o := o } =
      (allCoords shape).map (rowRank shape) := by
  have h := C05.ndNext_run { shape := shape, strides := calcStrides shape, fin := true, o := o }
    ⟨calcStrides_length shape, hpos⟩ (by simp [AP.isVectorLike, hnv])
  rw [h]
  rfl

/-! ## operations on operands of different data order -/

/-- `prepDataVV`: operands of different data order never reach the raw (storage-order) kernels: the
    engine takes the iterator path — safe mode shown; the call is the clone of `a` followed by the
    iterator kernel over both operands' own iterators. -/
theorem mixed_order_uses_iterators (st : St) (op : String) (a b : Dense)
    (hsh : shapeEq a.shape b.shape = true) (hdt : a.dt = b.dt) (hnum : a.dt ∈ numberTypes)
    (hk : a.dt ∈ kernelTypes op) (hord : a.ap.o.col ≠ b.ap.o.col) (hma : a.mask = none) (hmb : b.mask = none) :
    engArithVV st op numberTypes a b {} = (do
      let (s, c) ← a.clone st
      let s ← eOpIter s c.win b.win (fun x y => .app2 op x y) (a.offsets.map (·, true)) (b.offsets.map (·, true))
        (vecFn op a.dt)
      pure ⟨s, none, .fresh c⟩) := by
  apply engArithVV_iter_safe_ord st op numberTypes a b ⟨by simpa using hnum, hdt, hsh⟩ (by simpa using hk) _ hma hmb
  unfold sameOrd
  simpa using hord

/-- Arithmetic on operands of different data order is coordinate-wise: the result cell at `a`'s k-th
    iterator offset is `op` of the k-th logical element of `a` and the k-th logical element of `b`
    (k-th in row-major order of coordinates for both, by `colMajor_iter_logical` /
    `rowMajor_iter_logical`); every existing buffer — both operands — is unchanged. -/
theorem mixed_order_arith_coordinatewise (st : St) (op : String) (a b : Dense)
    (hsh : shapeEq a.shape b.shape = true) (hdt : a.dt = b.dt) (hnum : a.dt ∈ numberTypes)
    (hk : a.dt ∈ kernelTypes op) (hord : a.ap.o.col ≠ b.ap.o.col)
    (hma : a.mask = none) (hmb : b.mask = none) (hla : a.win.len ≠ 1) (hlb : b.win.len ≠ 1)
    (hoa : ∀ i ∈ a.offsets, 0 ≤ i ∧ i < (a.win.len : Int)) (hob : ∀ j ∈ b.offsets, 0 ≤ j ∧ j < (b.win.len : Int))
    (hnd : a.offsets.Nodup)
    (hA : InBuf st a.win.buf a.win.off a.win.len) (hB : InBuf st b.win.buf b.win.off b.win.len) :
    ∃ st', engArithVV st op numberTypes a b {} = .ok ⟨st', none, .fresh (cloneOf st a)⟩ ∧ st'.mheap = st.mheap ∧
      (∀ (k : Nat) i j, a.offsets[k]? = some i → b.offsets[k]? = some j →
        cell st' st.heap.size i.toNat =
          some (.app2 op (cellD st a.win.buf (a.win.off + i.toNat)) (cellD st b.win.buf (b.win.off + j.toNat)))) ∧
      (∀ b' k, b' < st.heap.size → cell st' b' k = cell st b' k) := by
  apply engArithVV_safe_mixed_order' st op numberTypes a b ⟨by simpa using hnum, hdt, hsh⟩ (by simpa using hk) _
    hma hmb hla hlb hoa hob hnd hA hB
  unfold sameOrd
  simpa using hord

/-- **Comparison of column-major operands is coordinate-wise** (finding F36, repaired: the result is given the operands'
    data order). For two contiguous column-major tensors of one proper n-d shape, `StdEng.<Cmp>(a, b)` returns a fresh
    column-major tensor `r`, and for every coordinate `c` of the shape `At(c)` addresses in `r`, `a` and `b` the cell of
    the same rank — the column-major rank of `c` — and `r`'s cell there is `op` of `a`'s and `b`'s cells there:
    `r.At(c) = op (a.At(c)) (b.At(c))`. Before the repair `r` was row-major and this failed for every `c` whose
    row-major and column-major ranks differ. -/
theorem colMajor_cmp_coordinatewise (st : St) (op : String) (tc : List String) (a b : Dense)
    (hshape : b.shape = a.shape) (hdt : a.dt = b.dt) (htc : a.dt ∈ tc)
    (hca : a.ap.o.col = true) (hcb : b.ap.o.col = true)
    (hsa : a.strides = calcStridesCol a.shape) (hsb : b.strides = calcStridesCol a.shape)
    (hv : isVector a.shape = false) (hs : isScalarEquiv a.shape = false)
    (hia : a.requiresIterator = false) (hib : b.requiresIterator = false)
    (hlen : a.win.len = b.win.len) (hcap : a.win.len ≤ b.win.cap) (hsz : (a.win.len : Int) = totalSize a.shape)
    (hA : InBuf st a.win.buf a.win.off a.win.len) (hB : InBuf st b.win.buf b.win.off a.win.len)
    (c : List Int) (hc : inBox a.shape c = true) :
    ∃ out r x y, engCmpVV st op tc a b {} = .ok out ∧ out.ret = .fresh r ∧ r.dt = "b" ∧ r.ap.o.col = true ∧
      r.ap.shape = a.shape ∧
      ltoi r.ap.shape r.ap.strides c = .ok (colRank a.shape c) ∧
      ltoi a.shape a.strides c = .ok (colRank a.shape c) ∧
      ltoi b.shape b.strides c = .ok (colRank a.shape c) ∧
      cell st a.win.buf (a.win.off + (colRank a.shape c).toNat) = some x ∧
      cell st b.win.buf (b.win.off + (colRank a.shape c).toNat) = some y ∧
      cell out.st r.win.buf (r.win.off + (colRank a.shape c).toNat) = some (.app2 op x y) := by
  have hne : a.shape ≠ [] := by
    intro h; rw [h] at hs; simp [isScalarEquiv] at hs
  have hdl : denseLen a.shape = a.win.len := by
    have : a.shape.isEmpty = false := by
      cases hsh : a.shape with
      | nil => exact absurd hsh hne
      | cons _ _ => rfl
    rw [C11.denseLen_def, this]
    simp only [Bool.false_eq_true, if_false]
    omega
  obtain ⟨out, r, h, hret, _, hrdt, hrs, hrst, hrc, hrw, _, _, _, hval, _⟩ :=
    C11.engCmpVV_default st op tc a b (by rw [hshape]; exact shapeEq_self _) hdt htc hia hib
      (by unfold sameOrd; simp [hca, hcb]) hlen hcap (by omega) hA hB
  have hk := C01.colRank_bounds a.shape c hc
  have hkl : (colRank a.shape c).toNat < a.win.len := by
    have : prod a.shape = (a.win.len : Int) := by rw [hsz]; rfl
    omega
  obtain ⟨x, y, hx, hy, hxy⟩ := hval _ hkl
  have hat := colMajor_at a.shape c hv hs hc
  refine ⟨out, r, x, y, h, hret, hrdt, by rw [hrc, hca], hrs, ?_, ?_, ?_, hx, hy, ?_⟩
  · rw [hrs, hrst, hca]; exact hat
  · rw [hsa]; exact hat
  · rw [hshape, hsb]; exact hat
  · have hoff : r.win.off = 0 := by rw [hrw]
    rw [hoff, Nat.zero_add]; exact hxy

/-- **A unary operation with an increment tensor of the other data order adds by coordinate** (the `WithIncr` part of
    finding F35, repaired: `prepDataUnary` takes the iterator path when the data orders of the operand and of the
    destination differ, as `prepDataVV/VS/SV` do). For a contiguous operand `a` and a contiguous increment tensor `r` of
    the other order, `StdEng.<Op>(a, WithIncr(r))` returns `r`, and at the `k`-th position of the two iterators — the
    `k`-th coordinate in row-major order of coordinates for both, by `colMajor_iter_logical` / `rowMajor_iter_logical` —
    `r`'s cell has received `+ g` of `a`'s cell; the operand and every other existing cell are unchanged. Before the
    repair the raw kernels added cell `i` of the clone to cell `i` of `r`. -/
theorem unary_incr_mixed_order_coordinatewise (st : St) (g : UnF) (tc kt : List String) (strict : Bool) (a r : Dense)
    (htc : a.dt ∈ tc) (hk : a.dt ∈ kt) (hord : r.ap.o.col ≠ a.ap.o.col)
    (hma : a.mask = none) (hmr : r.mask = none) (hr : IncrFits r a.shape a.dt)
    (hla : a.win.len ≠ 1) (hlr : r.win.len ≠ 1)
    (hor : ∀ i ∈ r.offsets, 0 ≤ i ∧ i < (r.win.len : Int)) (hoa : ∀ j ∈ a.offsets, 0 ≤ j ∧ j < (a.win.len : Int))
    (hndr : r.offsets.Nodup) (hnda : a.offsets.Nodup) (hal : sharesMemory a r = false ∨ sameAccess a r = true)
    (hA : InBuf st a.win.buf a.win.off a.win.len) (hR : InBuf st r.win.buf r.win.off r.win.len) :
    ∃ out, engUnary st g tc kt strict a { incr := some r } = .ok out ∧ out.ret = .reuse ∧ out.reuse = some r ∧
      out.st.mheap = st.mheap ∧
      (∀ (k : Nat) m j, r.offsets[k]? = some m → a.offsets[k]? = some j →
        ∃ acc x, cell st r.win.buf (r.win.off + m.toNat) = some acc ∧ cell st a.win.buf (a.win.off + j.toNat) = some x ∧
          cell out.st r.win.buf (r.win.off + m.toNat) = some (.app2 "add" acc (g x))) ∧
      (∀ b' k', b' < st.heap.size → b' ≠ r.win.buf → cell out.st b' k' = cell st b' k') := by
  obtain ⟨st', h, hm, hv, hfr⟩ := engUnary_incr_mixed_order' st g tc kt strict a r (by simpa using htc) (by simpa using hk)
    (by unfold sameOrd; simpa using hord) hma hmr hr hla hlr hor hoa hndr hnda hal hA hR
  refine ⟨_, h, rfl, rfl, hm, ?_, hfr⟩
  intro k m j hk' hj
  have hmr' := hor m (List.mem_of_getElem? hk')
  have hjr := hoa j (List.mem_of_getElem? hj)
  exact ⟨_, _, cell_some_cellD (hR.has.at hmr'.1 hmr'.2), cell_some_cellD (hA.has.at hjr.1 hjr.2), hv k m j hk' hj⟩

/-- `tensor.Copy` between tensors of different data order copies element by element along both
    iterators (i.e. by coordinate), never the raw storage (the `fix:` of finding F26). -/
theorem copy_mixed_order_by_coordinate (st : St) (dst src : Dense) (hdt : dst.dt = src.dt)
    (hord : dst.ap.o.col ≠ src.ap.o.col) :
    Dense.copy st dst src = (do
      let s ← Dense.copyIterOffsets st dst.win src.win dst.offsets src.offsets
      Dense.copyMaskIter s dst src dst.offsets src.offsets) := by
  have hso : Dense.sameOrder dst src = false := by
    unfold Dense.sameOrder; simpa using hord
  unfold Dense.copy Dense.copyDenseIter
  simp [hdt, hso]

/-! ## non-vacuity -/

example : isVector [2, 3] = false ∧ isScalarEquiv [2, 3] = false ∧ inBox [2, 3] [1, 2] = true ∧
    (match ltoi [2, 3] (calcStridesCol [2, 3]) [1, 2] with | .ok 5 => true | _ => false) = true ∧
    colRank [2, 3] [1, 2] = 5 ∧ rowRank [2, 3] [1, 2] = 5 ∧ colRank [2, 3] [0, 1] = 2 ∧ rowRank [2, 3] [0, 1] = 1 := by decide

example : FlatIt.offsets { shape := [2, 3], strides := prefixProds 1 [2, 3], fin := true } = [0, 2, 4, 1, 3, 5] := by decide

namespace ExCmp
def st : St := { heap := #[#[.src 0 0, .src 0 1, .src 0 2, .src 0 3, .src 0 4, .src 0 5],
                           #[.src 1 0, .src 1 1, .src 1 2, .src 1 3, .src 1 4, .src 1 5]] }
/-- two column-major (2,3) tensors (the layout of the former witness of F36) -/
def ta : Dense := { ap := { shape := [2, 3], strides := [1, 2], o := { col := true } }, win := ⟨0, 0, 6, 6⟩, dt := "u32" }
def tb : Dense := { ap := { shape := [2, 3], strides := [1, 2], o := { col := true } }, win := ⟨1, 0, 6, 6⟩, dt := "u32" }
example := colMajor_cmp_coordinatewise st "lt" ordTypes ta tb rfl rfl (by decide) rfl rfl (by decide) (by decide)
  (by decide) (by decide) (by decide) (by decide) rfl (by decide) (by decide) ⟨_, rfl, by decide⟩ ⟨_, rfl, by decide⟩
  [1, 1] (by decide)
/-- concretely: coordinate (1,1) is cell 3 of all three tensors, and the result's cell 3 is `lt a[3] b[3]` -/
example : ∃ out r, engCmpVV st "lt" ordTypes ta tb {} = .ok out ∧ out.ret = .fresh r ∧ r.ap.strides = [1, 2] ∧
    cell out.st 2 3 = some (.app2 "lt" (.src 0 3) (.src 1 3)) := ⟨_, _, rfl, rfl, by decide, rfl⟩
end ExCmp

namespace ExIncr
def st : St := { heap := #[#[.src 0 0, .src 0 1, .src 0 2, .src 0 3, .src 0 4, .src 0 5],
                           #[.src 1 0, .src 1 1, .src 1 2, .src 1 3, .src 1 4, .src 1 5]] }
/-- a column-major (3,2) operand and a row-major (3,2) increment tensor (`new f32 3,2 Fraw ; new f32 3,2 C ;
    un neg $0 incr=$1`) -/
def ta : Dense := { ap := { shape := [3, 2], strides := [1, 3], o := { col := true } }, win := ⟨0, 0, 6, 6⟩, dt := "f32" }
def tr : Dense := { ap := { shape := [3, 2], strides := [2, 1] }, win := ⟨1, 0, 6, 6⟩, dt := "f32" }
example : ta.offsets = [0, 3, 1, 4, 2, 5] ∧ tr.offsets = [0, 1, 2, 3, 4, 5] := by decide
example := unary_incr_mixed_order_coordinatewise st (fun x => .app1 "neg" x) numberTypes numberTypes true ta tr
  (by decide) (by decide) (by decide) rfl rfl ⟨rfl, by decide, by decide⟩ (by decide) (by decide) (by decide) (by decide)
  (by decide) (by decide) (by decide) ⟨_, rfl, by decide⟩ ⟨_, rfl, by decide⟩
/-- concretely: coordinate (0,1) is cell 1 of `r` and cell 3 of `a`; `r`'s cell 1 becomes `r[1] + neg a[3]` (before the
    repair: `r[1] + neg a[1]`, the element at coordinate (1,0)) -/
example : ∃ out, engUnary st (fun x => .app1 "neg" x) numberTypes numberTypes true ta { incr := some tr } = .ok out ∧
    cell out.st 1 1 = some (.app2 "add" (.src 1 1) (.app1 "neg" (.src 0 3))) := ⟨_, rfl, rfl⟩
end ExIncr

end TM.C16
