#!/usr/bin/env python3
"""mutate.py DIR CASE  -- apply one named source mutation to a copy of internal/execution.

Every mutation is a textual replacement inside ONE function (or one dispatcher arm); the script
fails if the text to replace is not found, so a silent no-op cannot be mistaken for a pass."""
import re, sys

def func_span(src, name, recv=False):
    pat = r'^func (\(e E\) )?%s\(' % re.escape(name)
    m = re.search(pat, src, re.M)
    if not m:
        sys.exit("mutate: func %s not found" % name)
    n = re.search(r'^func ', src[m.end():], re.M)
    end = m.end() + n.start() if n else len(src)
    return m.start(), end

def in_func(path, name, old, new, count=1):
    src = open(path).read()
    a, b = func_span(src, name)
    body = src[a:b]
    if old not in body:
        sys.exit("mutate: %r not found in %s" % (old, name))
    open(path, 'w').write(src[:a] + body.replace(old, new, count) + src[b:])

def in_arm(path, method, case, old, new, delete=False):
    src = open(path).read()
    a, b = func_span(src, method)
    body = src[a:b]
    m = re.search(r'^\tcase %s:\n' % case, body, re.M)
    if not m:
        sys.exit("mutate: case %s not found in %s" % (case, method))
    n = re.search(r'^\t(case \w+|default):\n', body[m.end():], re.M)
    end = m.end() + n.start()
    arm = body[m.start():end]
    if delete:
        arm2 = ''
    else:
        if old not in arm:
            sys.exit("mutate: %r not found in arm %s of %s" % (old, case, method))
        arm2 = arm.replace(old, new, 1)
    open(path, 'w').write(src[:a] + body[:m.start()] + arm2 + body[end:] + src[b:])

def swap_funcs(path, f, g):
    src = open(path).read()
    a1, b1 = func_span(src, f)
    a2, b2 = func_span(src, g)
    assert b1 <= a2
    open(path, 'w').write(src[:a1] + src[a2:b2] + src[b1:a2] + src[a1:b1] + src[b2:])

d, case = sys.argv[1], sys.argv[2]
P = lambda f: d + '/internal/execution/' + f
M = {
 # ---- must be detected
 'swap_operands_SubSVI16':   lambda: in_func(P('generic_arith_mixed.go'), 'SubSVI16', 'b[i] = a - b[i]', 'b[i] = b[i] - a'),
 'incr_to_assign_AddIncrI8': lambda: in_func(P('generic_arith_vv.go'), 'AddIncrI8', 'incr[i] += a[i] + b[i]', 'incr[i] = a[i] + b[i]'),
 'lte_to_lt_LteI8':          lambda: in_func(P('generic_cmp_vv.go'), 'LteI8', 'a[i] <= b[i]', 'a[i] < b[i]'),
 'drop_validity_NegIterF64': lambda: in_func(P('generic_unary.go'), 'NegIterF64', 'if validi {', '{'),
 'wrong_accessor_Add_Int8':  lambda: in_arm(P('eng_arith.go'), 'Add', 'Int8', 'bt := b.Int8s()', 'bt := b.Int16s()'),
 'wrong_kernel_Add_Uint8':   lambda: in_arm(P('eng_arith.go'), 'Add', 'Uint8', 'VecAddU8(at, bt)', 'VecSubU8(at, bt)'),
 'wrong_suffix_Add_Uint8':   lambda: in_arm(P('eng_arith.go'), 'Add', 'Uint8', 'AddSVU8(at[0], bt)', 'AddSVU16(at[0], bt)'),
 'wrong_operator_SquareC64': lambda: in_func(P('generic_unary.go'), 'SquareC64', 'a[i] * a[i]', 'a[i] + a[i]'),
 'wrong_index_AddIterU32':   lambda: in_func(P('generic_arith_vv.go'), 'AddIterU32', 'a[i] = a[i] + b[j]', 'a[j] = a[i] + b[j]'),
 'deleted_arm_Mul_Float32':  lambda: in_arm(P('eng_arith.go'), 'Mul', 'Float32', '', '', delete=True),
 'changed_guard_VecDivI64':  lambda: in_func(P('generic_arith_vv.go'), 'VecDivI64', 'if b[i] == 0 {', 'if b[i] != 0 {'),
 'wrong_argwiring_GtIter':   lambda: in_arm(P('eng_cmp.go'), 'GtIter', 'Float64', 'GtIterSVF64(at[0], bt, rt, bit, rit)', 'GtIterSVF64(at[0], bt, rt, ait, rit)'),
 'deleted_kernel_MinSVU16':  lambda: (lambda s, p: open(p, 'w').write(s[:func_span(s, 'MinSVU16')[0]] + s[func_span(s, 'MinSVU16')[1]:]))(open(P('generic_minmax.go')).read(), P('generic_minmax.go')),
 # ---- must NOT be detected
 'harmless_rename_local':    lambda: (in_func(P('generic_arith_vv.go'), 'VecAddI16', 'for i := range a {\n\t\ta[i] = a[i] + b[i]', 'for idx := range a {\n\t\ta[idx] = a[idx] + b[idx]'),
                                      in_func(P('generic_unary.go'), 'NegIterF64', 'validi', 'ok', 99)),
 'harmless_comments':        lambda: (in_func(P('generic_cmp_vv.go'), 'LteI8', 'for i := range retVal {', '// compare element-wise\n\n\tfor i := range retVal { /* loop */\n'),
                                      in_arm(P('eng_arith.go'), 'Add', 'Int8', 'bt := b.Int8s()', 'bt := b.Int8s() // typed view\n')),
 'harmless_reorder_funcs':   lambda: swap_funcs(P('generic_arith_vv.go'), 'VecAddI8', 'VecSubF32'),
 'baseline':                 lambda: None,
}
if case == '--list':
    print('\n'.join(M)); sys.exit(0)
M[case]()
