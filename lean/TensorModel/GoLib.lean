import TensorModel.AP
/-!
  Run-time library for the *regenerated* Lean definitions of hand-written Go functions
  (`Generated/Core.lean`, written by `tools/gol` from /repo's sources on every run).

  `tools/gol` translates a Go function body statement by statement into Lean `do`-notation over the
  monad `GoM`; loops become structurally recursive auxiliary functions over the list of iteration
  values (or over a fuel counter for general `for` loops). This file fixes what the Go primitives
  *mean* (trusted, ~100 lines):

  * `int` is `Int` (unbounded — the assumption stated in DESIGN.md §3); `[]int`, `Shape` are
    `List Int` with value semantics (the translator refuses functions in which that differs from
    Go's reference semantics: a slice that is index-assigned while aliased);
  * `error` values are `GoErr = Option String`; a run-time panic (index out of range, division by
    zero, explicit `panic`) is `Fault.panic`; running out of loop fuel is the separate `Fault.fuel`,
    which no theorem ever equates with a Go outcome;
  * `Slice` (the interface) is `Option Sl`, `nil` = `none`.
-/
namespace TM.Gen

inductive Fault where
  | panic (msg : String)
  | fuel
deriving Repr, DecidableEq

abbrev GoM := Except Fault
abbrev GoErr := Option String
abbrev GoSlice := Option Sl

/-- `DataOrder` / `Triangle` (Go `byte` flag sets): non-negative integers with bitwise operations -/
abbrev GoOrder := Int
abbrev GoTri := Int

def gand (a b : GoOrder) : GoOrder := ((a.toNat &&& b.toNat : Nat) : Int)
def gor (a b : GoOrder) : GoOrder := ((a.toNat ||| b.toNat : Nat) : Int)
def gxor (a b : GoOrder) : GoOrder := ((a.toNat ^^^ b.toNat : Nat) : Int)
/-- `a &^ b` (bit clear), for flag sets below 256 -/
def gandnot (a b : GoOrder) : GoOrder := ((a.toNat &&& (255 ^^^ b.toNat) : Nat) : Int)

/-- the Go struct `AP` (`ap.go`): shape, strides, lock flag, data order, triangle -/
structure GoAP where
  shape : List Int := []
  strides : List Int := []
  fin : Bool := false
  o : GoOrder := 0
  tri : GoTri := 0
deriving Repr, DecidableEq

/-- loop control: the enclosing function returns `r`, or the loop ends / goes on with state `s` -/
inductive Ctl (ρ σ : Type) where
  | ret (r : ρ)
  | next (s : σ)

def gpanic {α} (msg : String) : GoM α := throw (.panic msg)

def len {α} (l : List α) : Int := l.length

def gidx {α} (l : List α) (i : Int) : GoM α :=
  if i < 0 then gpanic "index out of range" else
  match l[i.toNat]? with
  | some v => pure v
  | none => gpanic "index out of range"

def gset {α} (l : List α) (i : Int) (v : α) : GoM (List α) :=
  if i < 0 || i ≥ len l then gpanic "index out of range" else pure (l.set i.toNat v)

/-- `x[lo:hi]` (bounds against the length; capacity is not modelled) -/
def gslice {α} (l : List α) (lo hi : Int) : GoM (List α) :=
  if lo < 0 || hi < lo || hi > len l then gpanic "slice bounds out of range"
  else pure ((l.take hi.toNat).drop lo.toNat)

/-- `make([]int, n)` / `BorrowInts(n)` -/
def gmake (n : Int) : GoM (List Int) :=
  if n < 0 then gpanic "makeslice: len out of range" else pure (List.replicate n.toNat 0)

/-- `copy(dst, src)`: the new value of `dst` -/
def gcopy {α} (dst src : List α) : List α :=
  src.take dst.length ++ dst.drop (min dst.length src.length)

def gdiv (a b : Int) : GoM Int := if b == 0 then gpanic "integer divide by zero" else pure (Int.tdiv a b)
def gmod (a b : Int) : GoM Int := if b == 0 then gpanic "integer divide by zero" else pure (Int.tmod a b)

/-- `divmod(a, b)` (`divmod_amd64.s` / `mathutils_go.go`; their agreement is `C20.divmod_builds_agree`) -/
def divmod (a b : Int) : GoM (Int × Int) :=
  if b == 0 then gpanic "integer divide by zero" else pure (Int.tdiv a b, Int.tmod a b)

/-- index/value pairs of `for i, v := range xs` -/
def enumFrom {α} (k : Nat) : List α → List (Int × α)
  | [] => []
  | x :: xs => ((k : Int), x) :: enumFrom (k + 1) xs
def enum {α} (l : List α) : List (Int × α) := enumFrom 0 l

/-- `a, a+1, …, b-1` -/
def upFrom : Nat → Int → List Int
  | 0, _ => []
  | n + 1, x => x :: upFrom n (x + 1)
def rangeUp (a b : Int) : List Int := upFrom (b - a).toNat a
/-- `a, a-1, …, b` (inclusive) -/
def downFrom : Nat → Int → List Int
  | 0, _ => []
  | n + 1, x => x :: downFrom n (x - 1)
def rangeDown (a b : Int) : List Int := downFrom (a - b + 1).toNat a

/-! the `Slice` interface -/
def Slice_Start (s : GoSlice) : GoM Int := match s with | some x => pure x.start | none => gpanic "nil Slice"
def Slice_End (s : GoSlice) : GoM Int := match s with | some x => pure x.stop | none => gpanic "nil Slice"
def Slice_Step (s : GoSlice) : GoM Int := match s with | some x => pure x.step | none => gpanic "nil Slice"

/-! outcome classes for comparing a regenerated definition with the hand-written model -/
inductive Cls (α : Type) where
  | val (a : α)
  | err
  | panic
  | fuel
deriving DecidableEq, Repr

/-- outcome class of a regenerated function whose last result is the Go `error` -/
def clsE {α} : GoM (α × GoErr) → Cls α
  | .ok (a, none) => .val a
  | .ok (_, some _) => .err
  | .error (.panic _) => .panic
  | .error .fuel => .fuel

/-- outcome class of a regenerated function without `error` result -/
def clsV {α} : GoM α → Cls α
  | .ok a => .val a
  | .error (.panic _) => .panic
  | .error .fuel => .fuel

/-- outcome class of a model function -/
def clsM {α} : Res α → Cls α
  | .ok a => .val a
  | .error (.err _) => .err
  | .error (.panic _) => .panic

end TM.Gen
