package main

// Family MultIter (C05): the multi-iterator (iterator_mult.go). Step
//
//	multi $a $b [$c ...] <script>
//
// builds tensor.IteratorFromDense(a, b, c...) on the real tensors (two or more operands: a
// *tensor.MultIterator) and drives it with the script (letters as the `iter` step, plus s and l):
//
//	n Next   N Next until the error, then two more calls   s Start
//	r SetReverse   f SetForward   x Reset   c Coord   d Done   l LastIndex(j) for every j
//
// Fields: seq (per call: returned index, [Coord,] LastIndex(j) for every j), ev (y / E per Next or
// Start call), cells<j> (the cells of operand j at LastIndex(j) after every successful call).

import (
	"fmt"
	"strconv"
	"strings"

	"gorgonia.org/tensor"
)

func init() {
	extSteps["multi"] = func(p *prog, idx int, toks []string) *rec { return p.stepMulti(toks) }
}

func (p *prog) stepMulti(toks []string) *rec {
	if len(toks) < 4 {
		return simple("badprog")
	}
	script := toks[len(toks)-1]
	opToks := toks[1 : len(toks)-1]
	ts := make([]*tensor.Dense, len(opToks))
	var dt *dtInfo
	for i, tok := range opToks {
		t, d := p.get(tok)
		if t == nil {
			return simple("skip")
		}
		ts[i] = t
		if dt == nil {
			dt = d
		}
	}
	r := newRec()
	r.dt = dt
	res := guard(func() error {
		seq, ev, offs := runMultiScript(ts, script)
		r.fields["seq"] = seq
		r.fields["ev"] = ev
		for j, t := range ts {
			raw := rawVals(t)
			cells := make([]interface{}, len(offs))
			for i, o := range offs {
				k := o[j]
				if k < 0 || k >= len(raw) {
					cells[i] = errMark("oob")
				} else {
					cells[i] = raw[k]
				}
			}
			r.vals["cells"+strconv.Itoa(j)] = cells
		}
		return nil
	})
	if res != "ok" {
		return simple(res)
	}
	return r
}

func runMultiScript(ts []*tensor.Dense, script string) (string, string, [][]int) {
	dts := make([]tensor.DenseTensor, len(ts))
	bound := 0
	for i, t := range ts {
		dts[i] = t
		if n := t.Shape().TotalSize(); n > bound {
			bound = n
		}
	}
	bound += 3
	it := tensor.IteratorFromDense(dts...).(*tensor.MultIterator)
	nit := len(ts)
	var out []string
	var ev []byte
	var offs [][]int
	lasts := func() string {
		s := make([]string, nit)
		for j := range s {
			s[j] = strconv.Itoa(it.LastIndex(j))
		}
		return strings.Join(s, "/")
	}
	record := func() {
		o := make([]int, nit)
		for j := range o {
			o[j] = it.LastIndex(j)
		}
		offs = append(offs, o)
	}
	single := func(i int, err error) {
		if err != nil {
			out = append(out, "E")
			ev = append(ev, 'E')
			return
		}
		out = append(out, fmt.Sprintf("%d:%s", i, lasts()))
		ev = append(ev, 'y')
		record()
	}
	for _, c := range script {
		switch c {
		case 'n':
			single(it.Next())
		case 's':
			single(it.Start())
		case 'N':
			extra := 2
			for k := 0; k < bound+3; k++ {
				i, err := it.Next()
				if err != nil {
					if extra == 0 {
						break
					}
					extra--
					out = append(out, "E")
					ev = append(ev, 'E')
					continue
				}
				out = append(out, fmt.Sprintf("%d@%s:%s", i, showInts(it.Coord()), lasts()))
				ev = append(ev, 'y')
				record()
			}
		case 'r':
			it.SetReverse()
		case 'f':
			it.SetForward()
		case 'x':
			it.Reset()
		case 'c':
			out = append(out, "c"+showInts(it.Coord()))
		case 'd':
			out = append(out, "d"+b01(it.Done()))
		case 'l':
			out = append(out, "l:"+lasts())
		default:
			out = append(out, "?")
		}
	}
	seq := strings.Join(out, "|")
	if seq == "" {
		seq = "-"
	}
	evs := string(ev)
	if evs == "" {
		evs = "-"
	}
	return seq, evs, offs
}
