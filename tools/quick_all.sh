#!/bin/bash
# quick tier of every property on the unchanged tree: one summary line per property (+ violations)
cd "$(dirname "$0")/.."
for p in C01 C02 C03 C04 C05 C06 C07 C08 C09 C10 C11 C12 C13 C14 C15 C16 C17 C18 C19 C20; do
  out=$(./check $p --tier quick 2>&1 | grep -v KNOWN)
  echo "$(echo "$out" | tail -n1 | cut -c1-200)"
  echo "$out" | grep VIOLATION
done
