package main

import (
	"runtime"
	"runtime/debug"
	"bufio"
	"encoding/json"
	"flag"
	"fmt"
	"os"
	"strings"
)

// mismatch is one divergence between the implementation and the model (kind "corr") or the
// specification (kind "spec").
type mismatch struct {
	Pid     string   `json:"pid"`
	Program string   `json:"program"`
	Step    int      `json:"step"`
	Kind    string   `json:"kind"`
	Detail  string   `json:"detail"`
	Impl    string   `json:"impl"`
	Model   string   `json:"model"`
	Tags    []string `json:"tags,omitempty"`
	CorrOK  bool     `json:"corr_ok"`
}

type summary struct {
	Programs    int            `json:"programs"`
	Steps       int            `json:"steps"`
	Compared    int            `json:"compared"`
	SpecChecked int            `json:"spec_checked"`
	Mismatches  int            `json:"mismatches"`
	Distinct    int            `json:"distinct_nontrivial"`
	Outcomes    map[string]int `json:"outcomes"`
	Ops         map[string]int `json:"ops"`
	Tagged      map[string]int `json:"tagged"`
	Samples     []string       `json:"samples"`
}

func splitProgram(line string) (pid string, steps [][]string) {
	parts := strings.Split(line, " ; ")
	pid = strings.TrimSpace(parts[0])
	for _, s := range parts[1:] {
		steps = append(steps, strings.Fields(s))
	}
	return
}

// modelReader hands out, per program id, the model lines grouped by step index.
type modelReader struct {
	sc   *bufio.Scanner
	next string
	eof  bool
}

func (m *modelReader) advance() {
	if m.sc.Scan() {
		m.next = m.sc.Text()
	} else {
		m.eof = true
		m.next = ""
	}
}

type modelStep struct {
	m    string
	s    string
	tags []string
	hasM bool
	hasS bool
}

func (m *modelReader) forProgram(pid string) map[int]*modelStep {
	out := map[int]*modelStep{}
	prefix := pid + "."
	for !m.eof && strings.HasPrefix(m.next, prefix) {
		line := m.next
		sp := strings.IndexByte(line, ' ')
		if sp < 0 {
			m.advance()
			continue
		}
		var idx int
		fmt.Sscanf(line[len(prefix):sp], "%d", &idx)
		rest := line[sp+1:]
		ms := out[idx]
		if ms == nil {
			ms = &modelStep{}
			out[idx] = ms
		}
		switch {
		case strings.HasPrefix(rest, "M "):
			ms.m, ms.hasM = rest[2:], true
		case strings.HasPrefix(rest, "S "):
			ms.s, ms.hasS = rest[2:], true
		case strings.HasPrefix(rest, "X "):
			ms.tags = append(ms.tags, strings.Fields(rest[2:])...)
		}
		m.advance()
	}
	return out
}

func runCmd(args []string) {
	fs := flag.NewFlagSet("run", flag.ExitOnError)
	progs := fs.String("progs", "", "program file")
	model := fs.String("model", "", "model output file")
	out := fs.String("out", "", "result file (json lines: mismatches, then one summary)")
	vset := fs.Int("vset", 0, "default value set")
	ownOut := fs.String("own", "", "write the ownership event trace of every program to this file (C19)")
	fs.Parse(args)
	var ownW *bufio.Writer
	if *ownOut != "" {
		f, err := os.Create(*ownOut)
		must(err)
		defer f.Close()
		ownW = bufio.NewWriter(f)
		defer ownW.Flush()
		own.install()
		debug.SetGCPercent(-1) // no address is reused while a program's slice ids are alive
	}
	pf, err := os.Open(*progs)
	must(err)
	mf, err := os.Open(*model)
	must(err)
	of, err := os.Create(*out)
	must(err)
	defer of.Close()
	w := bufio.NewWriter(of)
	defer w.Flush()
	enc := json.NewEncoder(w)

	psc := bufio.NewScanner(pf)
	psc.Buffer(make([]byte, 1<<20), 1<<26)
	msc := bufio.NewScanner(mf)
	msc.Buffer(make([]byte, 1<<20), 1<<26)
	mr := &modelReader{sc: msc}
	mr.advance()

	sum := summary{Outcomes: map[string]int{}, Ops: map[string]int{}, Tagged: map[string]int{}}
	distinct := map[string]bool{}
	for psc.Scan() {
		line := strings.TrimSpace(psc.Text())
		if line == "" {
			continue
		}
		pid, steps := splitProgram(line)
		msteps := mr.forProgram(pid)
		sum.Programs++
		p := &prog{vset: *vset}
		if ownW != nil {
			runtime.GC()
			own.reset()
		}
		var opsig []string
		seenTag := map[string]bool{}
		for _, ms := range msteps {
			for _, t := range ms.tags {
				if !seenTag[t] {
					seenTag[t] = true
					sum.Tagged[t]++
				}
			}
		}
		specOff := false
		corrSeen := false
		for i, toks := range steps {
			if len(toks) > 0 && strings.HasPrefix(toks[0], "vset=") {
				fmt.Sscanf(toks[0], "vset=%d", &p.vset)
				continue
			}
			sum.Steps++
			if len(toks) > 0 {
				sum.Ops[toks[0]]++
				opsig = append(opsig, toks[0])
			}
			r := p.step(i, toks)
			if ownW != nil {
				own.afterStep(p, i)
			}
			if res, ok := r.fields["r"]; ok {
				sum.Outcomes[res]++
			}
			if sh, ok := r.fields["shape"]; ok {
				distinct[strings.Join(opsig, ">")+"|"+sh+"|"+r.fields["strides"]+"|"+r.fields["o"]+"|"+r.fields["view"]+r.fields["old"]] = true
			}
			if sq, ok := r.fields["seq"]; ok {
				distinct[strings.Join(opsig, ">")+"|"+sq] = true
			}
			ms := msteps[i]
			var ptags []string
			if ms != nil {
				ptags = ms.tags
			}
			if ms == nil || !ms.hasM {
				sum.Mismatches++
				enc.Encode(mismatch{Pid: pid, Program: line, Step: i, Kind: "corr", Detail: "model produced no line for this step", Impl: r.String(), Tags: ptags})
				break
			}
			if strings.HasPrefix(ms.m, "r=unknown-values") {
				// the model cannot decide the result of this step (an arg-reduction over values it no longer
				// knows): the real call has been made — its side effects on the operands are still observed by
				// the later dumps — but its result is not compared and the result variable is dropped on both sides
				if len(p.vars) > 0 {
					p.vars[len(p.vars)-1] = nil
				}
				sum.Outcomes["model-undecided"]++
				continue
			}
			sum.Compared++
			dCorr := ""
			if !corrSeen {
				dCorr = p.compareRec(r, ms.m, false)
			}
			dSpec := ""
			if ms.hasS && !specOff {
				sum.SpecChecked++
				var off bool
				dSpec, off = p.compareSpec(r, ms.s)
				if off {
					specOff = true
					sum.Outcomes["spec-allowed-alternative"]++
				}
			}
			if dSpec != "" {
				// the property itself is violated on this program; CorrOK tells whether the implementation
				// at least does what the model (which mirrors known defects) predicts
				sum.Mismatches++
				enc.Encode(mismatch{Pid: pid, Program: line, Step: i, Kind: "spec", Detail: dSpec, Impl: r.String(), Model: ms.s, Tags: ptags, CorrOK: dCorr == "" && !corrSeen})
				break
			}
			if dCorr != "" {
				sum.Mismatches++
				enc.Encode(mismatch{Pid: pid, Program: line, Step: i, Kind: "corr", Detail: dCorr, Impl: r.String(), Model: ms.m, Tags: ptags})
				// model and implementation agree on the outcome of the step and differ in an observation only (flags,
				// strides, raw window …): keep running the program against the specification alone — a later step may
				// turn the divergence into a wrong element, which is the failing input the report wants
				if !strings.HasPrefix(dCorr, "field r:") && !strings.Contains(dCorr, "ident") && !r.stop {
					corrSeen = true
					continue
				}
				break
			}
			if r.stop {
				break
			}
		}
		if ownW != nil {
			fmt.Fprintln(ownW, own.line(pid))
		}
		if len(sum.Samples) < 5 && sum.Programs%97 == 1 {
			sum.Samples = append(sum.Samples, line)
		}
	}
	sum.Distinct = len(distinct)
	enc.Encode(map[string]interface{}{"summary": sum})
}

func must(err error) {
	if err != nil {
		fmt.Fprintln(os.Stderr, "harness:", err)
		os.Exit(2)
	}
}

func main() {
	if len(os.Args) < 2 {
		fmt.Fprintln(os.Stderr, "usage: harness gen|run ...")
		os.Exit(2)
	}
	switch os.Args[1] {
	case "gen":
		genCmd(os.Args[2:])
	case "run":
		runCmd(os.Args[2:])
	case "race":
		raceCmd(os.Args[2:])
	case "raceflat":
		raceFlatCmd(os.Args[2:])
	default:
		fmt.Fprintln(os.Stderr, "unknown subcommand")
		os.Exit(2)
	}
}
