package main

import "fmt"

// applyOp evaluates the scalar function named f on typed Go values with Go's own operators.
// (Extended by the arithmetic / comparison / unary checks.)
func applyOp(f string, dt *dtInfo, args []interface{}) (interface{}, error) {
	return nil, fmt.Errorf("unknown scalar function %q", f)
}
