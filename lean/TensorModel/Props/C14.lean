import TensorModel.Proofs.Serial
import TensorModel.Proofs.CopyCoord
import TensorModel.Props.C05
import TensorModel.Props.C17compat
/-!
  C14 — serialisation round-trips the logical tensor.
  Property theorems only; helper lemmas live in `TensorModel/Proofs/Serial.lean`, the model in
  `TensorModel/Ext/Serial.lean`.

  Record level: the byte codecs (gob, protobuf, flatbuffers, csv, binary) are contracts; the theorems
  are about which fields `dense_io.go` writes and how its readers rebuild a tensor from them. The
  NumPy header is modelled on characters (formatter of `WriteNpy`, regular expressions of `ReadNpy`).
-/
namespace TM.C14
open TM.Serial

/-! ## The NumPy header -/

/-- `strconv.Atoi` inverts `%d` on every integer. -/
theorem atoi_fmtInt (i : Int) : parseInt (fmtInt i) = some i := parseInt_fmtInt i

/-- The header parser of `ReadNpy` inverts the header formatter of `WriteNpy` for every dtype code the
    writer can emit and every shape of every rank — rank 0 `()`, rank 1 `(N,)`, rank n `(a, b, …)`. -/
theorem npyHeader_roundtrip (code : String) (hc : code ∈ npCodes) (shape : Shape) :
    parseHdr (fmtHdr code.toList shape) = some (code.toList, shape) :=
  parseHdr_fmtHdr code hc shape

/-- … in particular for the code of every element type `numpyDtype` accepts. -/
theorem npyHeader_roundtrip_dtype (dt code : String) (h : npCode dt = some code) (shape : Shape) :
    parseHdr (fmtHdr code.toList shape) = some (code.toList, shape) := by
  refine parseHdr_fmtHdr code ?_ shape
  unfold npCode at h
  split at h <;> first | (injection h with h; subst h; decide) | cases h

/-- The alignment invariant the code implements, which is also the one format version 1.0 asks for:
    magic (6) + version (2) + length field (2) + header is a multiple of 16. -/
theorem npyHeader_aligned (code : List Char) (shape : Shape) : (10 + (fmtHdr code shape).length) % 16 = 0 :=
  fmtHdr_aligned code shape

/-- The format also asks for the header to end in a newline. -/
def npyHeader_terminated_full : Prop := ∀ (code : List Char) (shape : Shape), (fmtHdr code shape).getLast? = some '\n'

/-- It never does: `WriteNpy` pads with spaces only (between 1 and 16 of them). NumPy's own reader
    tolerates this; recorded as an observation, not a finding. -/
theorem npyHeader_terminated_full_fails : ¬ npyHeader_terminated_full := by
  intro h
  have h1 := h [] []
  rw [fmtHdr_last] at h1
  exact absurd h1 (by decide)

/-! ## What the encoders refuse -/

/-- `WriteCSV` refuses every tensor that is not of rank two (scalars, plain vectors, rank ≥ 3). -/
theorem csv_refuses_nonmatrix (st : St) (t : Dense) (h : t.ap.shape.length ≠ 2) :
    ∃ tag, csvEnc st t = .error (.err tag) := csvEnc_refuses st t h

/-- `WriteNpy` refuses element types without a NumPy code (strings). -/
theorem npy_refuses_unsupported (st : St) (t : Dense) (h : npCode t.dt = none) :
    ∃ tag, npyEnc st t = .error (.err tag) := npyEnc_unsupported st t h

example : npCode "str" = none := rfl

/-! ## Round trips at the record level -/

/-- contiguous row-major, window = size, unmasked -/
structure Plain (t : Dense) : Prop where
  strides : t.ap.strides = calcStrides t.ap.shape
  len : (t.win.len : Int) = totalSize t.ap.shape
  mask : t.mask = none

/-- `decode (encode t) ≃ t`: same shape, element type and strides over a fresh buffer holding exactly
    the cells of the source window; hence the same element at every coordinate. -/
def SameTensor (st : St) (t : Dense) (st' : St) (d : Dense) : Prop :=
  d.ap.shape = t.ap.shape ∧ d.dt = t.dt ∧ d.ap.strides = t.ap.strides ∧ d.mask = none ∧
  (∃ cells, t.rawCells st = .ok cells ∧ FreshOf st st' d cells) ∧
  ∀ c, d.at_ st' c = t.at_ st c

/-- the decoded tensor is the contiguous row-major tensor whose storage is the source's *logical*
    listing (what the iterator yields: C05) -/
def SameListing (st : St) (t : Dense) (st' : St) (d : Dense) : Prop :=
  d.ap.shape = t.ap.shape ∧ d.dt = t.dt ∧ d.ap.strides = calcStrides t.ap.shape ∧ d.mask = none ∧
  ∃ cells, t.iterCells st = .ok cells ∧ FreshOf st st' d cells

theorem sameTensor_of_decoded {st st' : St} {t d : Dense} {ap : AP} {cells : List Val}
    (hr : t.rawCells st = .ok cells) (hd : Decoded st st' d ap t.dt cells)
    (hsh : ap.shape = t.ap.shape) (hst : ap.strides = t.ap.strides) : SameTensor st t st' d := by
  have hsh' : d.ap.shape = t.ap.shape := by rw [hd.ap, hsh]
  have hst' : d.ap.strides = t.ap.strides := by rw [hd.ap, hst]
  exact ⟨hsh', hd.dt, hst', hd.mask, ⟨cells, hr, hd.fresh⟩,
    at_eq_of_raw hsh' hst' (get_fresh_raw hr hd.fresh)⟩

/-- `decode (encode t)` has the logical content of `t`: same shape and element type, no mask, and at every
    coordinate of the shape the same element (coordinates outside the shape are refused by both: C01) -/
def SameContent (st : St) (t : Dense) (st' : St) (d : Dense) : Prop :=
  d.ap.shape = t.ap.shape ∧ d.dt = t.dt ∧ d.mask = none ∧ ∀ c ∈ allCoords t.ap.shape, d.at_ st' c = t.at_ st c

theorem SameTensor.content {st st' : St} {t d : Dense} (h : SameTensor st t st' d) : SameContent st t st' d :=
  ⟨h.1, h.2.1, h.2.2.2.1, fun c _ => h.2.2.2.2.2 c⟩

/-! ### what gob, protobuf and flatbuffers write -/

/-- a tensor an encoder can be handed: one stride per axis, positive dimensions, a non-empty storage window
    inside an existing buffer that holds the address of every coordinate; and — the library's flag
    discipline — a tensor whose window is not exactly as long as the tensor is large (a view with gaps)
    is marked as needing its iterator -/
structure WFsrc (st : St) (t : Dense) : Prop where
  slen : t.ap.strides.length = t.ap.shape.length
  pos : ∀ d ∈ t.ap.shape, 0 < d
  len0 : 0 < t.win.len
  cap : t.win.len ≤ t.win.cap
  buf : t.win.buf < st.heap.size
  inr : ∀ c ∈ allCoords t.ap.shape, 0 ≤ dot c t.ap.strides ∧ dot c t.ap.strides < (t.win.len : Int)
  has : Has st t.win.buf t.win.off t.win.len
  flagged : (t.win.len : Int) ≠ totalSize t.ap.shape → t.requiresIterator = true

/-- **`packed()` of a tensor whose window is longer than its size is a coordinate-wise copy into fresh
    row-major storage**: same shape and element type, default strides, a new buffer of exactly `size` cells
    that holds at the row-major rank of every coordinate the source's element at that coordinate. Any rank,
    any strides. -/
theorem packed_by_coordinate (st : St) (t : Dense) (wf : WFsrc st t) (hnm : t.mask = none)
    (hw : (t.win.len : Int) ≠ totalSize t.ap.shape) :
    ∃ st1 r, packed st t = .ok (st1, r) ∧
      r.ap = { shape := t.ap.shape, strides := calcStrides t.ap.shape, fin := true, o := {} } ∧
      r.dt = t.dt ∧ r.mask = none ∧
      r.win = ⟨st.heap.size, 0, (prod t.ap.shape).toNat, (prod t.ap.shape).toNat⟩ ∧
      (∀ c ∈ allCoords t.ap.shape,
        TM.cell st1 st.heap.size (rowRank t.ap.shape c).toNat =
          some (TM.cellD st t.win.buf (t.win.off + (dot c t.ap.strides).toNat))) := by
  have hit := wf.flagged hw
  have hl := wf.slen
  have hp := wf.pos
  have hbuf := wf.buf
  have hmask : t.isMasked = false := by
    unfold Dense.isMasked; rw [hnm]; simpa using Nat.ne_of_gt wf.len0
  have hneq : ((t.win.len : Int) == totalSize t.shape) = false := by simpa [Dense.shape] using hw
  unfold packed
  simp only [hneq, Bool.false_eq_true, if_false]
  cases hfr : Dense.fresh st t.dt t.shape false (Array.replicate (totalSize t.shape).toNat Val.zero) t.eng with
  | mk st1 r0 =>
  simp only
  simp only [Dense.fresh, St.alloc, Prod.mk.injEq] at hfr
  obtain ⟨hst1, hr0⟩ := hfr
  have hst1' : st1 = { st with heap := st.heap.push (Array.replicate (totalSize t.shape).toNat Val.zero) } := hst1.symm
  have hap0 : r0.ap = { shape := t.ap.shape, strides := calcStrides t.ap.shape, fin := true, o := {} } := by
    rw [← hr0]; simp [Dense.shape, Dense.defaultStrides]
  have hsh0 : r0.ap.shape = t.ap.shape := by rw [hap0]
  have hstr0 : r0.ap.strides = calcStrides t.ap.shape := by rw [hap0]
  have hwin0 : r0.win = ⟨st.heap.size, 0, (prod t.ap.shape).toNat, (prod t.ap.shape).toNat⟩ := by
    rw [← hr0]; simp [Dense.shape, totalSize]
  have hmask0 : r0.mask = none := by rw [← hr0]
  have hdt0 : r0.dt = t.dt := by rw [← hr0]
  unfold Dense.copyDenseIter
  simp only [hit, Bool.not_true, Bool.and_false, Bool.false_and, Bool.false_eq_true, if_false, bind, Except.bind]
  have hdot : ∀ c, dot c r0.ap.strides = rowRank t.ap.shape c := by intro c; rw [hstr0]; rfl
  obtain ⟨s2, h2, _, hv, _⟩ := copyIterOffsets_by_coordinate st1 r0 t t.ap.shape hsh0 rfl
    (by rw [hstr0, calcStrides_length]) hl hp (by rw [hwin0]; exact Nat.ne_of_gt hbuf)
    (by rw [hwin0]; exact Nat.le_refl _) wf.cap
    (by
      intro c hc
      rw [hdot, hwin0]
      have hb := rowRank_bounds' t.ap.shape c (C17compat.allCoords_inBox _ _ hc)
      have hpp : 0 ≤ prod t.ap.shape := by omega
      simp only
      omega)
    wf.inr
    (by
      have : (fun c => dot c r0.ap.strides) = rowRank t.ap.shape := by funext c; exact hdot c
      rw [this, C17compat.allCoords_map_rowRank _ hp]
      exact rangeI_pairwise _)
    (by
      rw [hwin0, hst1']
      intro i hi
      simp only [Nat.zero_add]
      rw [cell_push_new]
      have hi' : i < (prod t.ap.shape).toNat := hi
      simp [Dense.shape, totalSize, hi'])
    (by rw [hst1']; exact wf.has.push hbuf _)
  rw [h2]
  simp only [Dense.copyMaskIter, hmask, Bool.not_false, if_true, pure, Except.pure]
  refine ⟨s2, r0, rfl, hap0, hdt0, hmask0, hwin0, ?_⟩
  intro c hc
  have := hv c hc
  rw [hdot, hwin0] at this
  simp only [Nat.zero_add] at this
  refine this.trans ?_
  rw [hst1']
  congr 1
  unfold cellD
  rw [cell_push_lt _ _ _ _ hbuf]

/-- reading a window cell that exists -/
theorem get_of_cell {s : St} {w : Win} {i : Int} {v : Val} (h0 : 0 ≤ i) (h1 : i < (w.len : Int))
    (hc : TM.cell s w.buf (w.off + i.toNat) = some v) : s.get w i = .ok v := by
  unfold St.get
  have : (i < 0 || i ≥ (w.len : Int)) = false := by simp; omega
  rw [this]
  simp only [Bool.false_eq_true, if_false]
  unfold TM.cell at hc
  cases hb : s.heap[w.buf]? with
  | none => simp [hb] at hc
  | some b =>
    simp only [hb, Option.bind_some] at hc
    simp only [hc]

/-- a reader that takes over the shape and the default strides of the packed copy `r` of `t` and a fresh copy
    of `r`'s window returns the content of `t` -/
theorem sameContent_of_packed {st st1 st' : St} {t r d : Dense} {cells : List Val} {ap : AP}
    (wf : WFsrc st t)
    (hwin : r.win = ⟨st.heap.size, 0, (prod t.ap.shape).toNat, (prod t.ap.shape).toNat⟩)
    (hcell : ∀ c ∈ allCoords t.ap.shape,
      TM.cell st1 st.heap.size (rowRank t.ap.shape c).toNat =
        some (TM.cellD st t.win.buf (t.win.off + (dot c t.ap.strides).toNat)))
    (hr : r.rawCells st1 = .ok cells) (hd : Decoded st st' d ap t.dt cells)
    (hsh : ap.shape = t.ap.shape) (hst : ap.strides = calcStrides t.ap.shape) : SameContent st t st' d := by
  have hsh' : d.ap.shape = t.ap.shape := by rw [hd.ap, hsh]
  have hst' : d.ap.strides = calcStrides t.ap.shape := by rw [hd.ap, hst]
  refine ⟨hsh', hd.dt, hd.mask, ?_⟩
  intro c hc
  have hbox := C17compat.allCoords_inBox _ _ hc
  have hb := rowRank_bounds' t.ap.shape c hbox
  -- the decoded side
  have hd1 : d.at_ st' c = st'.get d.win (rowRank t.ap.shape c) := by
    rw [at_inBox st' d c (by simp only [Dense.strides, Dense.shape]; rw [hst', hsh', calcStrides_length])
      (by simp only [Dense.shape]; rw [hsh']; exact hbox)]
    simp only [Dense.strides]; rw [hst']; rfl
  have hd2 : st'.get d.win (rowRank t.ap.shape c) = st1.get r.win (rowRank t.ap.shape c) :=
    get_fresh_raw hr hd.fresh _
  have hd3 : st1.get r.win (rowRank t.ap.shape c) =
      .ok (TM.cellD st t.win.buf (t.win.off + (dot c t.ap.strides).toNat)) := by
    apply get_of_cell hb.1
    · rw [hwin]; simp only; omega
    · rw [hwin]; simp only [Nat.zero_add]; exact hcell c hc
  -- the source side
  have hs1 : t.at_ st c = st.get t.win (dot c t.ap.strides) :=
    at_inBox st t c wf.slen hbox
  have hr' := wf.inr c hc
  have hs2 : st.get t.win (dot c t.ap.strides) =
      .ok (TM.cellD st t.win.buf (t.win.off + (dot c t.ap.strides).toNat)) :=
    get_of_cell hr'.1 hr'.2 (cell_some_cellD (wf.has.at hr'.1 hr'.2))
  rw [hd1, hd2, hd3, hs1, hs2]

/-! ### gob -/

/-- gob, any stride vector and data order over a window that is exactly as long as the tensor is large
    (transposed, column-major, contiguous views), unmasked, every rank: shape, strides, order flags and the
    window are carried over, the very same tensor comes back. -/
theorem gob_roundtrip_window (st : St) (t : Dense) (rec : Rec) (hm : t.mask = none)
    (hw : (t.win.len : Int) = totalSize t.ap.shape) (h : gobEnc st t = .ok rec) :
    ∃ st' d, gobDec st rec = .ok (st', d) ∧ SameTensor st t st' d := by
  obtain ⟨cells, hr, hok, _⟩ := gob_dec_enc st st t t rec (packed_same st t hw) hm h
  obtain ⟨st', d, hd, hdec⟩ := hok (Or.inl hw)
  exact ⟨st', d, hd, sameTensor_of_decoded hr hdec rfl rfl⟩

/-- gob of a contiguous row-major non-view tensor of any rank. -/
theorem gob_roundtrip (st : St) (t : Dense) (rec : Rec) (hp : Plain t)
    (h : gobEnc st t = .ok rec) : ∃ st' d, gobDec st rec = .ok (st', d) ∧ SameTensor st t st' d :=
  gob_roundtrip_window st t rec hp.mask hp.len h

/-- gob carries the mask: a masked tensor whose window is its size reads back with the same shape, strides
    and order flags over a fresh copy of the window, and with a fresh copy of the whole mask (masks are
    index-aligned with the window, so the mask of every coordinate is preserved). -/
theorem gob_roundtrip_masked (st : St) (t : Dense) (rec : Rec) (m : Win) (hm : t.mask = some m)
    (hml : m.len = t.win.len) (hpos : 0 < t.win.len) (hw : (t.win.len : Int) = totalSize t.ap.shape)
    (h : gobEnc st t = .ok rec) :
    ∃ cells mc st' d, t.rawCells st = .ok cells ∧ maskCells st t = .ok mc ∧ gobDec st rec = .ok (st', d) ∧
      d.ap.shape = t.ap.shape ∧ d.ap.strides = t.ap.strides ∧ d.ap.o = t.ap.o ∧ d.dt = t.dt ∧
      FreshOf st st' d cells ∧
      d.mask = some ⟨st.mheap.size, 0, mc.length, mc.length⟩ ∧ st'.mheap = st.mheap.push mc.toArray := by
  obtain ⟨cells, mc, st', d, hr, hmk, hd, hap, hdt, hf, hmask, hmh⟩ :=
    gob_dec_enc_masked st t rec m hm hml hpos hw h
  exact ⟨cells, mc, st', d, hr, hmk, hd, by rw [hap], by rw [hap], by rw [hap], hdt, hf, hmask, hmh⟩

/-- The reader's own check: a record whose backing slice is not as long as its shape is large (and whose
    shape is not of rank 0) is refused by `sanity()` — what used to happen to the bytes `GobEncode` wrote for
    a view with gaps. -/
theorem gob_decoder_checks_window (st : St) (shape strides : List Int) (o : Order) (dt : String) (cells : List Val)
    (hs : isScalar shape = false) (hw : (cells.length : Int) ≠ totalSize shape) :
    ∃ tag, gobDec st { shape := shape, strides := strides, o := o, dt := dt, data := cells } = .error (.err tag) := by
  have hsan : ¬ sanityOk shape cells.length = true := by
    rw [sanityOk_iff]
    intro h'
    rcases h' with h' | h'
    · exact hw h'
    · rw [hs] at h'; cases h'
  rw [gobDec_data, if_neg hsan]
  exact ⟨_, rfl⟩

/-- **gob, every unmasked tensor** (any rank, any strides, views with gaps — column slices, stepped slices —
    included): the bytes `GobEncode` writes read back as a tensor of the same shape and element type with
    the same element at every coordinate. -/
theorem gob_roundtrip_full (st : St) (t : Dense) (rec : Rec) (hm : t.mask = none) (wf : WFsrc st t)
    (h : gobEnc st t = .ok rec) : ∃ st' d, gobDec st rec = .ok (st', d) ∧ SameContent st t st' d := by
  by_cases hw : (t.win.len : Int) = totalSize t.ap.shape
  · obtain ⟨st', d, hd, hs⟩ := gob_roundtrip_window st t rec hm hw h
    exact ⟨st', d, hd, hs.content⟩
  · obtain ⟨st1, r, hp, hap, hdt, hmask, hwin, hcell⟩ := packed_by_coordinate st t wf hm hw
    obtain ⟨cells, hr, hok, _⟩ := gob_dec_enc st st1 t r rec hp hmask h
    have h0 : 0 ≤ prod t.ap.shape := Int.le_of_lt (prod_pos _ wf.pos)
    obtain ⟨st', d, hd, hdec⟩ := hok (Or.inl (by rw [hwin, hap]; simp only [totalSize]; omega))
    rw [hdt] at hdec
    exact ⟨st', d, hd, sameContent_of_packed wf hwin hcell hr hdec (by rw [hap]) (by rw [hap])⟩

/-! witnesses: a 3×3 buffer, a (2,3) matrix over its first six cells, its lazy transpose, the column
    slice `[:, 1:3]` of the 3×3 matrix, a column vector, a rank-0 tensor -/
def buf9 : St := { heap := #[#[.src 0 0, .src 0 1, .src 0 2, .src 0 3, .src 0 4, .src 0 5, .src 0 6, .src 0 7, .src 0 8]] }
def mat23 : Dense := { ap := { shape := [2, 3], strides := [3, 1], fin := true }, win := ⟨0, 0, 6, 9⟩, dt := "f64" }
def mat23T : Dense :=
  { ap := { shape := [3, 2], strides := [1, 3], fin := true, o := { transposed := true } },
    old := some mat23.ap, tw := some [1, 0], win := ⟨0, 0, 6, 9⟩, dt := "f64" }
def view32 : Dense :=
  { ap := { shape := [3, 2], strides := [3, 1], fin := true, o := { nonContig := true } },
    win := ⟨0, 1, 8, 8⟩, dt := "f64", view := true }
def col31 : Dense := { ap := { shape := [3, 1], strides := [1, 1], fin := true }, win := ⟨0, 0, 3, 9⟩, dt := "f64" }
def cell0 : Dense := { ap := { shape := [], strides := [], fin := true }, win := ⟨0, 0, 1, 9⟩, dt := "f64" }

/-- the column slice `[:, 1:3]` of a 3×3 matrix, whose bytes the reader used to refuse: what is written is
    the (3,2) row-major tensor over the six cells of the view … -/
example : (gobEnc buf9 view32).toOption.map (fun r => (r.shape, r.strides, r.data)) =
    some ([3, 2], [2, 1], [.src 0 1, .src 0 2, .src 0 4, .src 0 5, .src 0 7, .src 0 8]) := rfl

/-- … and it is read back. -/
theorem gob_roundtrip_view : ∃ rec st' d, gobEnc buf9 view32 = .ok rec ∧ gobDec buf9 rec = .ok (st', d) ∧
    d.ap.shape = [3, 2] ∧ d.ap.strides = [2, 1] ∧
    FreshOf buf9 st' d [.src 0 1, .src 0 2, .src 0 4, .src 0 5, .src 0 7, .src 0 8] :=
  ⟨_, _, _, rfl, rfl, rfl, rfl, rfl, rfl⟩

/-- a rank-0 tensor reads back as itself. -/
theorem gob_roundtrip_scalar : ∃ rec st' d, gobEnc buf9 cell0 = .ok rec ∧ gobDec buf9 rec = .ok (st', d) ∧
    SameTensor buf9 cell0 st' d := by
  obtain ⟨rec, hrec⟩ : ∃ rec, gobEnc buf9 cell0 = .ok rec := ⟨_, rfl⟩
  obtain ⟨st', d, hd, hs⟩ := gob_roundtrip_window buf9 cell0 rec rfl (by decide) hrec
  exact ⟨rec, st', d, hrec, hd, hs⟩

/-! ### protobuf and flatbuffers -/

/-- protobuf, any stride vector and data order over a window exactly as long as the tensor is large: the very
    same tensor comes back. -/
theorem pb_roundtrip_window (st : St) (t : Dense) (rec : Rec) (hw : (t.win.len : Int) = totalSize t.ap.shape)
    (hm : t.mask = none) (h : rawEnc st t = .ok rec) :
    ∃ st' d, pbDec st rec = .ok (st', d) ∧ SameTensor st t st' d := by
  have _ := hm
  have h0 : 0 ≤ totalSize t.ap.shape := by omega
  obtain ⟨st1, r, cells, hp, hr, hok⟩ := pb_dec_enc st t rec h
  rw [packed_same st t hw] at hp
  injection hp with hp
  injection hp with h1 h2
  subst h1 h2
  obtain ⟨st', d, hd, hdec⟩ := hok h0
  have hlen := rawCells_length st t cells hr
  have : (totalSize t.ap.shape).toNat = cells.length := by omega
  rw [this, rawFill_exact] at hdec
  exact ⟨st', d, hd, sameTensor_of_decoded hr hdec rfl rfl⟩

theorem pb_roundtrip (st : St) (t : Dense) (rec : Rec) (hp : Plain t) (h : rawEnc st t = .ok rec) :
    ∃ st' d, pbDec st rec = .ok (st', d) ∧ SameTensor st t st' d :=
  pb_roundtrip_window st t rec hp.len hp.mask h

/-- flatbuffers, as protobuf (tensors carrying fewer strides than dimensions included). -/
theorem fb_roundtrip_window (st : St) (t : Dense) (rec : Rec) (hw : (t.win.len : Int) = totalSize t.ap.shape)
    (hm : t.mask = none) (h : rawEnc st t = .ok rec) :
    ∃ st' d, fbDec st rec = .ok (st', d) ∧ SameTensor st t st' d := by
  have _ := hm
  have h0 : 0 ≤ totalSize t.ap.shape := by omega
  obtain ⟨st1, r, cells, hp, hr, hok⟩ := fb_dec_enc st t rec h
  rw [packed_same st t hw] at hp
  injection hp with hp
  injection hp with h1 h2
  subst h1 h2
  obtain ⟨st', d, hd, hdec⟩ := hok h0
  have hlen := rawCells_length st t cells hr
  have : (totalSize t.ap.shape).toNat = cells.length := by omega
  rw [this, rawFill_exact] at hdec
  exact ⟨st', d, hd, sameTensor_of_decoded hr hdec rfl rfl⟩

theorem fb_roundtrip (st : St) (t : Dense) (rec : Rec) (hp : Plain t) (h : rawEnc st t = .ok rec) :
    ∃ st' d, fbDec st rec = .ok (st', d) ∧ SameTensor st t st' d :=
  fb_roundtrip_window st t rec hp.len hp.mask h

/-- **protobuf, every unmasked tensor** (views with gaps included): the bytes `PBEncode` writes read back as a
    tensor of the same shape and element type with the same element at every coordinate. -/
theorem pb_roundtrip_full (st : St) (t : Dense) (rec : Rec) (hm : t.mask = none) (wf : WFsrc st t)
    (h : rawEnc st t = .ok rec) : ∃ st' d, pbDec st rec = .ok (st', d) ∧ SameContent st t st' d := by
  by_cases hw : (t.win.len : Int) = totalSize t.ap.shape
  · obtain ⟨st', d, hd, hs⟩ := pb_roundtrip_window st t rec hw hm h
    exact ⟨st', d, hd, hs.content⟩
  · obtain ⟨st1, r, hp, hap, hdt, _, hwin, hcell⟩ := packed_by_coordinate st t wf hm hw
    obtain ⟨st1', r', cells, hp', hr, hok⟩ := pb_dec_enc st t rec h
    rw [hp] at hp'
    injection hp' with hp'
    injection hp' with h1 h2
    subst h1 h2
    have h0 : 0 ≤ prod t.ap.shape := Int.le_of_lt (prod_pos _ wf.pos)
    obtain ⟨st', d, hd, hdec⟩ := hok (by rw [hap]; exact h0)
    have hlen := rawCells_length st1 r cells hr
    have : (totalSize r.ap.shape).toNat = cells.length := by rw [hlen, hwin, hap]; rfl
    rw [this, rawFill_exact, hdt] at hdec
    exact ⟨st', d, hd, sameContent_of_packed wf hwin hcell hr hdec (by rw [hap]) (by rw [hap])⟩

/-- **flatbuffers, every unmasked tensor** (views with gaps included). -/
theorem fb_roundtrip_full (st : St) (t : Dense) (rec : Rec) (hm : t.mask = none) (wf : WFsrc st t)
    (h : rawEnc st t = .ok rec) : ∃ st' d, fbDec st rec = .ok (st', d) ∧ SameContent st t st' d := by
  by_cases hw : (t.win.len : Int) = totalSize t.ap.shape
  · obtain ⟨st', d, hd, hs⟩ := fb_roundtrip_window st t rec hw hm h
    exact ⟨st', d, hd, hs.content⟩
  · obtain ⟨st1, r, hp, hap, hdt, _, hwin, hcell⟩ := packed_by_coordinate st t wf hm hw
    obtain ⟨st1', r', cells, hp', hr, hok⟩ := fb_dec_enc st t rec h
    rw [hp] at hp'
    injection hp' with hp'
    injection hp' with h1 h2
    subst h1 h2
    have h0 : 0 ≤ prod t.ap.shape := Int.le_of_lt (prod_pos _ wf.pos)
    obtain ⟨st', d, hd, hdec⟩ := hok (by rw [hap]; exact h0)
    have hlen := rawCells_length st1 r cells hr
    have : (totalSize r.ap.shape).toNat = cells.length := by rw [hlen, hwin, hap]; rfl
    rw [this, rawFill_exact, hdt] at hdec
    exact ⟨st', d, hd, sameContent_of_packed wf hwin hcell hr hdec (by rw [hap]) (by rw [hap])⟩

/-- the column slice `[:, 1:3]` of a 3×3 matrix, which used to come back with other cells under the view's
    strides: both readers now return the (3,2) row-major tensor over the six cells of the view. -/
theorem pb_roundtrip_view : ∃ rec st' d, rawEnc buf9 view32 = .ok rec ∧ pbDec buf9 rec = .ok (st', d) ∧
    d.ap.shape = [3, 2] ∧ d.ap.strides = [2, 1] ∧
    FreshOf buf9 st' d [.src 0 1, .src 0 2, .src 0 4, .src 0 5, .src 0 7, .src 0 8] :=
  ⟨_, _, _, rfl, rfl, rfl, rfl, rfl, rfl⟩

theorem fb_roundtrip_view : ∃ rec st' d, rawEnc buf9 view32 = .ok rec ∧ fbDec buf9 rec = .ok (st', d) ∧
    d.ap.shape = [3, 2] ∧ d.ap.strides = [2, 1] ∧
    FreshOf buf9 st' d [.src 0 1, .src 0 2, .src 0 4, .src 0 5, .src 0 7, .src 0 8] :=
  ⟨_, _, _, rfl, rfl, rfl, rfl, rfl, rfl⟩

/-! ### npy -/

/-- npy of an unmasked tensor of a round-trippable element type, **any layout** (lazily transposed,
    column-major, non-contiguous and stepped views included): the bytes read back as the row-major
    tensor holding the source's logical listing. (int64/uint64: F74, int/uint/string: refused.) -/
theorem npy_roundtrip_full (st : St) (t : Dense) (rec : Rec) (hm : t.mask = none) (hdt : NpGood t.dt)
    (wf : C05.WFit t.ap) (h : npyEnc st t = .ok rec) :
    ∃ st' d, npyDec st rec = .ok (st', d) ∧ SameListing st t st' d := by
  have hlen : (t.offsets).length = (totalSize t.ap.shape).toNat := C05.run_length t.ap wf
  have h0 : 0 ≤ totalSize t.ap.shape := Int.le_of_lt (prod_pos _ wf.2)
  obtain ⟨cells, st', d, hr, hd, hdec⟩ := npy_dec_enc st t rec hm hdt h h0 hlen
  refine ⟨st', d, hd, ?_, hdec.dt, ?_, hdec.mask, cells, hr, hdec.fresh⟩
  · rw [hdec.ap]
  · rw [hdec.ap]

/-- the iterator of a contiguous row-major tensor walks the storage window left to right -/
theorem plain_offsets (t : Dense) (hp : Plain t) (wf : C05.WFit t.ap) : t.offsets = rangeI t.win.len := by
  have hlen : t.win.len = (totalSize t.ap.shape).toNat := by have := hp.len; omega
  unfold Dense.offsets
  by_cases hs : t.ap.shape = []
  · rw [C05.scalar_run _ hs, hlen, hs]; rfl
  · have hspec : C05.specOffsets t.ap = rangeI (totalSize t.ap.shape).toNat := by
      unfold C05.specOffsets
      rw [hp.strides]
      exact C17compat.allCoords_map_rowRank _ wf.2
    by_cases hv : t.ap.isVectorLike = true
    · rw [C05.single_run _ wf hv hs, hspec, hlen]
    · rw [C05.ndNext_run _ wf (by simpa using hv), hspec, hlen]

/-- npy of a contiguous row-major tensor: the very same tensor comes back. -/
theorem npy_roundtrip (st : St) (t : Dense) (rec : Rec) (hp : Plain t) (wf : C05.WFit t.ap) (hdt : NpGood t.dt)
    (h : npyEnc st t = .ok rec) : ∃ st' d, npyDec st rec = .ok (st', d) ∧ SameTensor st t st' d := by
  have hlen : (t.offsets).length = (totalSize t.ap.shape).toNat := C05.run_length t.ap wf
  have h0 : 0 ≤ totalSize t.ap.shape := by have := hp.len; omega
  obtain ⟨cells, st', d, hr, hd, hdec⟩ := npy_dec_enc st t rec hp.mask hdt h h0 hlen
  have hraw : t.rawCells st = .ok cells := by
    unfold Dense.iterCells at hr
    rw [plain_offsets t hp wf] at hr
    exact hr
  exact ⟨st', d, hd, sameTensor_of_decoded hraw hdec rfl hp.strides.symm⟩

/-- on the lazy transpose of a (2,3) matrix that used to be written in storage order: the body is the
    logical listing. -/
example : (npyEnc buf9 mat23T).toOption.map (·.data) =
    some [.src 0 0, .src 0 3, .src 0 1, .src 0 4, .src 0 2, .src 0 5] := rfl

/-! ### csv -/

/-- The reader's half of the csv round trip, for every matrix: records of equal length `c` read back
    as the `(rows, c)` row-major tensor over their concatenation. -/
theorem csv_decode_rows (st : St) (dt : String) (first : List Val) (rest : List (List Val))
    (hdt : csvTypes.contains dt = true) (hun : ∀ r ∈ first :: rest, r.length = first.length) :
    ∃ st' d, csvDec st { dt := dt, rows := first :: rest } = .ok (st', d) ∧
      d.ap.shape = [((first :: rest).length : Int), (first.length : Int)] ∧
      d.ap.strides = calcStrides d.ap.shape ∧ d.dt = dt ∧ FreshOf st st' d (first :: rest).flatten := by
  rw [csvDec_rows st dt first rest hdt hun]
  exact ⟨_, _, rfl, rfl, rfl, rfl, rfl, rfl⟩

/-- csv round trip — partial: the writer's half (that `WriteCSV` cuts the iterator's listing into
    one record per row) is assumed here as `hcut`; it holds for every matrix (column vectors
    included) and is checked against the implementation by the harness and on instances below, but is
    not proved for all shapes (it needs the coordinate invariant of the iterator, C05.coord_tracks,
    threaded through `csvLoop`). -/
theorem csv_roundtrip_partial (st : St) (t : Dense) (rec : Rec) (r c : Nat) (cells : List Val)
    (hshape : t.ap.shape = [(r : Int), (c : Int)]) (hdt : csvTypes.contains t.dt = true)
    (h : csvEnc st t = .ok rec) (hit : t.iterCells st = .ok cells)
    (hcut : rec.dt = t.dt ∧ rec.rows.flatten = cells ∧ rec.rows.length = r ∧ rec.rows ≠ [] ∧
      ∀ row ∈ rec.rows, row.length = c) :
    ∃ st' d, csvDec st rec = .ok (st', d) ∧ SameListing st t st' d := by
  have _ := h
  obtain ⟨hd, hflat, hlen, hne, hrow⟩ := hcut
  have e : csvDec st rec = csvDec st { dt := rec.dt, rows := rec.rows } := rfl
  cases hrows : rec.rows with
  | nil => exact absurd hrows hne
  | cons first rest =>
    have hfirst : first.length = c := hrow first (by simp [hrows])
    have hun : ∀ x ∈ first :: rest, x.length = first.length := by
      intro x hx; rw [hfirst]; exact hrow x (by rw [hrows]; exact hx)
    rw [e, hrows, csvDec_rows st rec.dt first rest (by rw [hd]; exact hdt) hun]
    refine ⟨_, _, rfl, ?_, hd, ?_, rfl, cells, hit, ?_⟩
    · rw [hshape, ← hlen, hrows, hfirst]
    · rw [hshape, ← hlen, hrows, hfirst]
    · rw [← hflat, hrows]; exact ⟨rfl, rfl⟩

/-- Writer's half on instances: a (2,3) matrix, its lazy transpose and a non-contiguous view are cut
    into the right records. -/
example : (csvEnc buf9 mat23).toOption.map (·.rows) =
    some [[.src 0 0, .src 0 1, .src 0 2], [.src 0 3, .src 0 4, .src 0 5]] := rfl
example : (csvEnc buf9 mat23T).toOption.map (·.rows) =
    some [[.src 0 0, .src 0 3], [.src 0 1, .src 0 4], [.src 0 2, .src 0 5]] := rfl
example : (csvEnc buf9 view32).toOption.map (·.rows) =
    some [[.src 0 1, .src 0 2], [.src 0 4, .src 0 5], [.src 0 7, .src 0 8]] := rfl
example : (csvEnc buf9 col31).toOption.map (·.rows) = some [[.src 0 0], [.src 0 1], [.src 0 2]] := rfl

/-- canonical contiguous row-major `(r,c)` matrix over a buffer whose cell `i` is `src 0 i` -/
def plainMat (r c : Nat) : St × Dense :=
  ({ heap := #[((List.range (r * c)).map (Val.src 0)).toArray] },
   { ap := { shape := [(r : Int), (c : Int)], strides := calcStrides [(r : Int), (c : Int)], fin := true },
     win := ⟨0, 0, r * c, r * c⟩, dt := "f64" })

def srcOff : Val → Nat
  | .src _ o => o
  | _ => 0

/-- records written by `WriteCSV` for the canonical matrix, as source offsets -/
def csvRowsIdx (r c : Nat) : Option (List (List Nat)) :=
  match csvEnc (plainMat r c).1 (plainMat r c).2 with
  | .ok rec => some (rec.rows.map (·.map srcOff))
  | .error _ => none

/-- Writer's half, bounded: for all `1 ≤ r ≤ 5`, `1 ≤ c ≤ 4` (row vectors, column vectors and `(1,1)`
    included) the records are exactly the rows (kernel-evaluated). -/
theorem csv_writer_rows_bounded :
    ∀ r ∈ [1, 2, 3, 4, 5], ∀ c ∈ [1, 2, 3, 4],
      csvRowsIdx r c = some ((List.range r).map (fun i => (List.range c).map (fun j => i * c + j))) := by
  decide

/-! masked matrices: `WriteCSV` writes the fill value in place of a masked element. The position inside the
    current record is counted by `k`, which restarts with every record (it used to run on, so that a masked
    element in any row but the first indexed past the end of the record and the call panicked). -/

/-- the canonical `(r,c)` matrix with the mask `bits` (one bit per cell, row-major) -/
def maskedMat (r c : Nat) (bits : List Bool) : St × Dense :=
  ({ heap := #[((List.range (r * c)).map (Val.src 0)).toArray], mheap := #[bits.toArray] },
   { (plainMat r c).2 with mask := some ⟨0, 0, r * c, r * c⟩ })

/-- a written field as a number: the source offset of an element, `-(offset+1)` for the fill value standing
    in for it -/
def fieldCode : Val → Int
  | .src _ o => o
  | .app1 _ (.src _ o) => -((o : Int) + 1)
  | _ => -1000

def csvMaskedRows (r c : Nat) (bits : List Bool) : Option (List (List Int)) :=
  match csvEnc (maskedMat r c bits).1 (maskedMat r c bits).2 with
  | .ok rec => some (rec.rows.map (·.map fieldCode))
  | .error _ => none

/-- all bit vectors of length `n` -/
def allBits : Nat → List (List Bool)
  | 0 => [[]]
  | n + 1 => (allBits n).flatMap (fun b => [false :: b, true :: b])

/-- Bounded, kernel-evaluated: for **every** mask of a (2,2), a (3,2) and a (2,3) matrix the writer succeeds
    and every record holds, field by field, the element or — where the mask bit is set — its fill value. -/
theorem csv_masked_rows_bounded :
    ∀ rc ∈ [(2, 2), (3, 2), (2, 3)], ∀ bits ∈ allBits (rc.1 * rc.2),
      csvMaskedRows rc.1 rc.2 bits =
        some ((List.range rc.1).map (fun i => (List.range rc.2).map (fun j =>
          if bits.getD (i * rc.2 + j) false then -((i * rc.2 + j : Nat) + 1 : Int) else ((i * rc.2 + j : Nat) : Int)))) := by
  decide

/-- the recorded witness: a (2,2) matrix whose element (1,0) is masked -/
example : csvMaskedRows 2 2 [false, false, true, false] = some [[0, 1], [-3, 3]] := by decide

/-- The unrestricted statement (writer's half included). Not proved for all shapes: see
    `csv_roundtrip_partial` and `csv_writer_rows_bounded`. -/
def csv_roundtrip_full : Prop :=
  ∀ (st : St) (t : Dense) (rec : Rec), t.mask = none → csvTypes.contains t.dt = true → C05.WFit t.ap →
    csvEnc st t = .ok rec → ∃ st' d, csvDec st rec = .ok (st', d) ∧ SameListing st t st' d

/-- … on the column vector that used to lose its rows: `(3,1)` reads back as `(3,1)` over its listing. -/
theorem csv_roundtrip_colvec : ∃ st' d, (csvEnc buf9 col31 >>= csvDec buf9) = .ok (st', d) ∧
    d.ap.shape = [3, 1] ∧ FreshOf buf9 st' d [.src 0 0, .src 0 1, .src 0 2] :=
  ⟨_, _, rfl, rfl, rfl, rfl⟩

/-- `convFromStrs` has an arm for every element type a tensor can be written with (bool and the
    complex types included): the reader's half `csv_decode_rows` applies to all sixteen of them. -/
theorem csv_reads_every_type : ∀ dt ∈ ["b", "i", "i8", "i16", "i32", "i64", "u", "u8", "u16", "u32", "u64",
    "f32", "f64", "c64", "c128", "str"], csvTypes.contains dt = true := by decide

-- non-vacuity: the witnesses are well-formed and the plain round trips apply to `mat23`
example : Plain mat23 := ⟨rfl, rfl, rfl⟩
example : C05.WFit mat23T.ap := ⟨rfl, by intro d hd; simp [mat23T] at hd; omega⟩
/-- the view with gaps meets the hypotheses of the `_full` theorems (window of 8 cells for 6 elements) -/
example : WFsrc buf9 view32 :=
  { slen := rfl, pos := by intro d hd; simp [view32] at hd; omega, len0 := by decide, cap := by decide,
    buf := by decide, inr := by decide, has := by
      intro i hi
      have h8 : i < 8 := hi
      have : i = 0 ∨ i = 1 ∨ i = 2 ∨ i = 3 ∨ i = 4 ∨ i = 5 ∨ i = 6 ∨ i = 7 := by omega
      rcases this with rfl | rfl | rfl | rfl | rfl | rfl | rfl | rfl <;> rfl,
    flagged := fun _ => rfl }
example : String.ofList (fmtHdr "f8".toList [2, 3]) =
    "{'descr': '<f8', 'fortran_order': False, 'shape': (2, 3)}             " := by decide
example : String.ofList (hdrBase "i2".toList [5]) = "{'descr': '<i2', 'fortran_order': False, 'shape': (5,)}" := by decide
example : String.ofList (hdrBase "c16".toList []) = "{'descr': '<c16', 'fortran_order': False, 'shape': ()}" := by decide

end TM.C14
