import TensorModel.Proofs.Transpose
import TensorModel.Proofs.Roll
/-!
  C03 — transposition is a pure permutation of axes.
  Property theorems only; helper lemmas live in `TensorModel/Proofs/Transpose.lean`.
-/
namespace TM.C03

/-- `xs.gather p = [xs[p₀], xs[p₁], …]` — what a transposition by `p` does to shape and strides. -/
def gather {α} [Inhabited α] (p : List Int) (xs : List α) : List α := p.map (fun i => xs[i.toNat]!)

/-- `p` is a permutation of `0..n-1` -/
def ValidPerm (p : List Int) (n : Nat) : Prop := isPerm p n = true

/-- `UnsafePermute` (in-place cycle following for rank ≥ 3, swap for rank 2) applied to `0..n-1`
    yields the pattern itself, for every permutation of rank ≤ 5 (the ranks C03 quantifies over).
    Kernel-evaluated over all 154 permutations. -/
theorem unsafePermute_range (n : Nat) (hn : n ≤ 5) (p : List Int) (hp : ValidPerm p n) :
    unsafePermute p (rangeI n) = .ok (if (isMonotonicInts p).1 && (isMonotonicInts p).2 then PermRes.noop else PermRes.ok p) := by
  exact unsafePermute_rangeI n hn p hp

/-- Naturality: `UnsafePermute` moves positions, never looks at the values. -/
theorem unsafePermute_map {α β} (f : α → β) (p : List Int) (xs : List α) :
    unsafePermute p (xs.map f) =
      (unsafePermute p xs).map (fun r => match r with | .ok ys => PermRes.ok (ys.map f) | .noop => PermRes.noop) := by
  rw [unsafePermute_map' f p xs]
  cases unsafePermute p xs with
  | error e => rfl
  | ok r => cases r <;> rfl

/-- Hence for any list of length ≤ 5 (shape or strides; dimensions are unbounded) `UnsafePermute`
    is the gather by the pattern. -/
theorem unsafePermute_gather (p : List Int) (xs : List Int) (hn : xs.length ≤ 5) (hp : ValidPerm p xs.length)
    (hni : ¬ ((isMonotonicInts p).1 && (isMonotonicInts p).2) = true) :
    unsafePermute p xs = .ok (PermRes.ok (gather p xs)) := by
  exact unsafePermute_getElem p xs hn hp hni

/-- Gathering coordinates and strides by the same permutation preserves the offset: element
    `(c[p₀],…,c[pₖ])`-of-the-source is element `c` of the result. Any rank. -/
theorem dot_gather (p : List Int) (n : Nat) (hp : ValidPerm p n) (c s : List Int)
    (hc : c.length = n) (hs : s.length = n) :
    dot (gather p c) (gather p s) = dot c s := by
  exact dot_getElem_perm p n hp c s hc hs

/-- `AP.T` on a non-vector, non-scalar-equivalent pattern of rank ≤ 5 with a valid non-identity
    permutation returns the gathered shape and strides and sets the transposed flag. -/
theorem apT_gather (ap : AP) (axes : List Int) (hr : ap.shape.length ≤ 5)
    (hl : ap.strides.length = ap.shape.length)
    (hp : ValidPerm axes ap.shape.length) (hne : axes ≠ [])
    (hnse : isScalarEquiv ap.shape = false) (hnv : isVector ap.shape = false)
    (hni : ¬ ((isMonotonicInts axes).1 && (isMonotonicInts axes).2) = true) :
    ap.T axes = .ok (.ok { shape := gather axes ap.shape, strides := gather axes ap.strides, fin := true,
                           o := { ap.o with transposed := true } } axes) := by
  exact apT_getElem ap axes hr hl hp hne hnse hnv hni

/-- `AP.T` on a two-dimensional vector `(1, n)` / `(n, 1)` (no axes, or the axes `(1, 0)`), **whatever its strides
    are** (a view of a column, of every k-th element, …): the shape is swapped and the axis that holds the elements
    keeps its stride; the axis of extent one gets the stride 1. -/
theorem apT_vector (ap : AP) (a b s0 s1 : Int) (hsh : ap.shape = [a, b]) (hst : ap.strides = [s0, s1])
    (hv : isVector [a, b] = true) (axes : List Int) (hax : axes = [] ∨ axes = [1, 0]) :
    ap.T axes = .ok (.ok { shape := [b, a], strides := vectorTStrides b s0 s1, fin := true,
                           o := { ap.o with transposed := true } } [1, 0]) := by
  exact apT_vector2 ap a b s0 s1 hsh hst hv axes hax

/-- … and element `(i, j)` of the transposed vector is element `(j, i)` of the source: both address the same cell. -/
theorem apT_vector_offset (a b s0 s1 i j : Int) (hv : isVector [a, b] = true)
    (hi : 0 ≤ i ∧ i < b) (hj : 0 ≤ j ∧ j < a) :
    dot [i, j] (vectorTStrides b s0 s1) = dot [j, i] [s0, s1] := by
  exact vectorT_dot a b s0 s1 i j hv hi hj

/-- `Transpose()` of a vector with a pending transpose (one stride per axis) moves no data, drops the pending
    transpose and leaves every element where it was: each in-box coordinate addresses the cell it addressed before,
    whatever the vector's strides are. -/
theorem transpose_vector_pure (st : St) (t : Dense) (o : AP) (hold : t.old = some o) (hv : isVector t.shape = true)
    (hns : isScalar t.shape = false) (hl : t.ap.strides.length = t.ap.shape.length)
    (hdl : (Dense.defaultStrides t.ap.o.col t.shape).length = t.ap.shape.length) :
    ∃ t', Dense.transpose st t = .ok (st, t') ∧ t'.old = none ∧ t'.shape = t.shape ∧ t'.win = t.win ∧
      ∀ c, inBox t.shape c = true → dot c t'.ap.strides = dot c t.ap.strides := by
  exact transpose_vector st t o hold hv hns hl hdl

/-- Undoing a lazy transpose restores the original tensor exactly (metadata and storage window). -/
theorem UT_T (st : St) (t t' : Dense) (axes : List Int) (hold : t.old = none) (htw : t.tw = none)
    (h : Dense.T st t axes = .ok (st, t')) : t'.ut = t := by
  exact denseT_ut st t t' axes hold htw h

/-- A lazy transpose never touches storage. -/
theorem T_pure (st st' : St) (t t' : Dense) (axes : List Int) (hold : t.old = none)
    (h : Dense.T st t axes = .ok (st', t')) : st' = st ∧ t'.win = t.win := by
  exact denseT_pure st st' t t' axes hold h

/-! ### Axis rolling (`RollAxis(axis, start, safe)`): a transposition by the axes vector `rollAxes` builds -/

/-- `RollAxis` refuses exactly the axes outside `[0, dims)` and the targets outside `[0, dims]`. -/
theorem roll_refuses_iff (dims : Nat) (axis start : Int) :
    (∃ r, Dense.rollAxes dims axis start = .ok r) ↔ (0 ≤ axis ∧ axis < dims) ∧ (0 ≤ start ∧ start ≤ dims) :=
  rollAxes_ok_iff dims axis start

/-- the tensor itself is returned exactly when the axis already sits at its target position -/
theorem roll_noop (dims : Nat) (axis start : Int) (h : Dense.rollAxes dims axis start = .ok none) :
    axis = rollPos axis start := rollAxes_none h

/-- otherwise the axes vector is a permutation of `0..dims-1` (so every theorem above about transposition by a
    valid permutation applies to the rolled tensor), … -/
theorem roll_axes_valid (dims : Nat) (axis start : Int) (a : List Int)
    (h : Dense.rollAxes dims axis start = .ok (some a)) : ValidPerm a dims := rollAxes_isPerm h

/-- … the rolled axis ends up at position `start` (one less when it came from before `start`), … -/
theorem roll_axis_position (dims : Nat) (axis start : Int) (a : List Int)
    (h : Dense.rollAxes dims axis start = .ok (some a)) :
    a[(rollPos axis start).toNat]? = some axis := rollAxes_pos h

/-- … and all other axes keep their relative order. -/
theorem roll_others_keep_order (dims : Nat) (axis start : Int) (a : List Int)
    (h : Dense.rollAxes dims axis start = .ok (some a)) :
    a.filter (· != axis) = (rangeI dims).filter (· != axis) := rollAxes_others h

-- concrete instances (non-vacuity)
example : (match Dense.rollAxes 4 3 1 with | .ok (some [0, 3, 1, 2]) => true | _ => false) = true := by decide
example : (match Dense.rollAxes 4 1 4 with | .ok (some [0, 2, 3, 1]) => true | _ => false) = true := by decide
example : (match Dense.rollAxes 3 1 2 with | .ok none => true | _ => false) = true := by decide
example : ValidPerm [2, 0, 1] 3 := by unfold ValidPerm; decide
-- a column of a 3×3 matrix seen as a (3, 1) vector with strides (3, 1): its transpose (1, 3) keeps the stride 3
example : (match ({ shape := [3, 1], strides := [3, 1] } : AP).T [] with
  | .ok (.ok tap _) => tap.shape == [1, 3] && tap.strides == [1, 3] | _ => false) = true := by decide
-- every second element of a row, a (1, 2) vector with strides (6, 2): its transpose (2, 1) keeps the stride 2
example : (match ({ shape := [1, 2], strides := [6, 2] } : AP).T [1, 0] with
  | .ok (.ok tap _) => tap.shape == [2, 1] && tap.strides == [2, 1] | _ => false) = true := by decide
-- contiguous vectors keep the strides (1, 1) the library has always given them
example : (match ({ shape := [1, 4], strides := [4, 1] } : AP).T [] with
  | .ok (.ok tap _) => tap.shape == [4, 1] && tap.strides == [1, 1] | _ => false) = true := by decide
example : isVector [3, 1] = true ∧ isVector [1, 2] = true := by decide
-- physical transposition of such a vector: the long axis keeps the stride 3, the unit axis gets the default one
example : Dense.vectorKeepStrides [1, 3] [3, 1] [1, 3] = [3, 3] := by decide
example : (match unsafePermute [2, 0, 1] ([10, 20, 30] : List Int) with | .ok (.ok [30, 10, 20]) => true | _ => false) = true := by decide

end TM.C03
