import TensorModel.Run
/-! Helper lemmas for C05 (iterators). -/
namespace TM

/-! ### list arithmetic -/

theorem prod_pos : ∀ (l : List Int), (∀ d ∈ l, 0 < d) → 0 < prod l
  | [], _ => by simp [prod]
  | x :: xs, h => by
    simp only [prod]
    exact Int.mul_pos (h x (by simp)) (prod_pos xs (fun d hd => h d (by simp [hd])))

theorem prod_append : ∀ (a b : List Int), prod (a ++ b) = prod a * prod b
  | [], b => by simp [prod]
  | x :: xs, b => by simp [prod, prod_append xs b, Int.mul_assoc]

theorem prod_reverse : ∀ (l : List Int), prod l.reverse = prod l
  | [] => rfl
  | x :: xs => by simp [prod_append, prod, prod_reverse xs, Int.mul_comm]

theorem dot_nil_left (b : List Int) : dot [] b = 0 := by simp [dot]
theorem dot_nil_right (a : List Int) : dot a [] = 0 := by cases a <;> simp [dot]

theorem dot_append : ∀ (a a' b b' : List Int), a.length = a'.length →
    dot (a ++ b) (a' ++ b') = dot a a' + dot b b'
  | [], [], b, b', _ => by simp [dot]
  | [], _ :: _, _, _, h => by simp at h
  | _ :: _, [], _, _, h => by simp at h
  | x :: xs, y :: ys, b, b', h => by
    have := dot_append xs ys b b' (by simpa using h)
    simp only [List.cons_append, dot, this]; omega

theorem dot_reverse : ∀ (a b : List Int), a.length = b.length → dot a.reverse b.reverse = dot a b
  | [], [], _ => by simp [dot]
  | [], _ :: _, h => by simp at h
  | _ :: _, [], h => by simp at h
  | x :: xs, y :: ys, h => by
    have hl : xs.length = ys.length := by simpa using h
    simp only [List.reverse_cons]
    rw [dot_append _ _ _ _ (by simpa using hl), dot_reverse xs ys hl]
    simp only [dot]; omega

/-! ### mixed-radix digits (least significant axis first) -/

/-- reversed mixed-radix digits of `k` for the reversed shape `rsh` -/
def digits : List Int → Int → List Int
  | [], _ => []
  | sh :: shs, k => (k % sh) :: digits shs (k / sh)

@[simp] theorem digits_length : ∀ (rsh : List Int) (k : Int), (digits rsh k).length = rsh.length
  | [], _ => rfl
  | _ :: shs, k => by simp [digits, digits_length shs]

theorem digits_zero : ∀ (rsh : List Int), digits rsh 0 = rsh.map (fun _ => 0)
  | [] => rfl
  | _ :: shs => by simp [digits, digits_zero shs]

theorem divmod_succ_carry {k sh : Int} (hs : 0 < sh) (h : k % sh + 1 = sh) :
    (k + 1) % sh = 0 ∧ (k + 1) / sh = k / sh + 1 := by
  have h1 := Int.emod_add_mul_ediv k sh
  have : (k + 1) / sh = k / sh + 1 ∧ (k + 1) % sh = 0 := by
    rw [Int.ediv_emod_unique hs]
    refine ⟨?_, Int.le_refl _, hs⟩
    rw [Int.mul_add]; omega
  exact ⟨this.2, this.1⟩

theorem divmod_succ_nocarry {k sh : Int} (hs : 0 < sh) (h : k % sh + 1 ≠ sh) :
    (k + 1) % sh = k % sh + 1 ∧ (k + 1) / sh = k / sh := by
  have h1 := Int.emod_add_mul_ediv k sh
  have h2 := Int.emod_nonneg k (Int.ne_of_gt hs)
  have h3 := Int.emod_lt_of_pos k hs
  have : (k + 1) / sh = k / sh ∧ (k + 1) % sh = k % sh + 1 := by
    rw [Int.ediv_emod_unique hs]
    refine ⟨by omega, by omega, by omega⟩
  exact ⟨this.2, this.1⟩

theorem digits_prod : ∀ (rsh : List Int), (∀ d ∈ rsh, 0 < d) → digits rsh (prod rsh) = rsh.map (fun _ => 0)
  | [], _ => rfl
  | sh :: shs, h => by
    have hs : 0 < sh := h sh (by simp)
    have ih := digits_prod shs (fun d hd => h d (by simp [hd]))
    simp only [digits, prod, List.map_cons]
    rw [Int.mul_emod_right, Int.mul_ediv_cancel_left _ (Int.ne_of_gt hs), ih]

/-- The odometer step on the digits of `k` gives the digits of `k+1`, and moves the offset
    accordingly; `done` exactly when `k+1` is the total size. -/
theorem ndNextLoop_digits : ∀ (rsh rst : List Int), rst.length = rsh.length → (∀ d ∈ rsh, 0 < d) →
    ∀ (k ni : Int), 0 ≤ k → k < prod rsh →
    ndNextLoop (digits rsh k) rsh rst ni =
      (digits rsh (k + 1), ni - dot (digits rsh k) rst + dot (digits rsh (k + 1)) rst,
        !rsh.isEmpty && decide (k + 1 = prod rsh))
  | [], rst, _, _, k, ni, _, _ => by simp [ndNextLoop, digits, dot]
  | sh :: shs, [], h, _, _, _, _, _ => by simp at h
  | sh :: shs, st :: sts, hl, hp, k, ni, hk0, hk => by
    have hs : 0 < sh := hp sh (by simp)
    have hp' : ∀ d ∈ shs, 0 < d := fun d hd => hp d (by simp [hd])
    have hl' : sts.length = shs.length := by simpa using hl
    have hP := prod_pos shs hp'
    simp only [prod] at hk
    have hq0 : 0 ≤ k / sh := Int.ediv_nonneg hk0 (Int.le_of_lt hs)
    have hq : k / sh < prod shs := Int.ediv_lt_of_lt_mul hs (by rw [Int.mul_comm]; exact hk)
    have hdm := Int.emod_add_mul_ediv k sh
    have hr0 := Int.emod_nonneg k (Int.ne_of_gt hs)
    have hr1 := Int.emod_lt_of_pos k hs
    simp only [digits, ndNextLoop, prod]
    by_cases hc : k % sh + 1 = sh
    · obtain ⟨e1, e2⟩ := divmod_succ_carry hs hc
      have ih := ndNextLoop_digits shs sts hl' hp' (k / sh) (ni - (sh - 1) * st) hq0 hq
      have hr : k % sh = sh - 1 := by omega
      have hcb : (k % sh + 1 == sh) = true := by simp [hc]
      simp only [hcb, if_true, ih, e1, e2, dot]
      refine Prod.ext rfl (Prod.ext ?_ ?_)
      · simp only [hr]; omega
      · simp only [List.isEmpty_cons, Bool.not_false, Bool.true_and]
        have hkk : k + 1 = sh * (k / sh + 1) := by rw [Int.mul_add]; omega
        cases shs with
        | nil =>
          simp only [prod] at hq
          have : k / sh = 0 := by omega
          simp [digits, prod, hkk, this]
        | cons a as =>
          simp only [digits, List.isEmpty_cons, Bool.not_false, Bool.true_and, if_false,
            Bool.false_eq_true]
          rw [hkk]
          by_cases he : k / sh + 1 = prod (a :: as)
          · simp [he]
          · have : sh * (k / sh + 1) ≠ sh * prod (a :: as) := by
              intro hh; exact he (Int.eq_of_mul_eq_mul_left (Int.ne_of_gt hs) hh)
            simp [he, this]
    · obtain ⟨e1, e2⟩ := divmod_succ_nocarry hs hc
      have hne : k + 1 ≠ sh * prod shs := by
        intro hh
        have : (k + 1) % sh = 0 := by rw [hh]; exact Int.mul_emod_right _ _
        omega
      simp only [beq_iff_eq, hc, if_false, e1, e2, dot, hne, decide_false, Bool.and_false]
      refine Prod.ext rfl (Prod.ext ?_ rfl)
      simp only [Int.add_mul]; omega

/-- index before `k` in the cyclic order of `0..P-1` -/
def predIdx (P k : Int) : Int := if k = 0 then P - 1 else k - 1

/-- The reverse odometer step on the digits of `k` gives the digits of `k-1` (wrapping to the
    last coordinate with `done` when `k = 0`). -/
theorem ndPrevLoop_digits : ∀ (rsh rst : List Int), rst.length = rsh.length → (∀ d ∈ rsh, 0 < d) →
    ∀ (k ni : Int), 0 ≤ k → k < prod rsh →
    ndPrevLoop (digits rsh k) rsh rst ni =
      (digits rsh (predIdx (prod rsh) k),
        ni - dot (digits rsh k) rst + dot (digits rsh (predIdx (prod rsh) k)) rst,
        !rsh.isEmpty && decide (k = 0))
  | [], rst, _, _, k, ni, _, _ => by simp [ndPrevLoop, digits, dot]
  | sh :: shs, [], h, _, _, _, _, _ => by simp at h
  | sh :: shs, st :: sts, hl, hp, k, ni, hk0, hk => by
    have hs : 0 < sh := hp sh (by simp)
    have hp' : ∀ d ∈ shs, 0 < d := fun d hd => hp d (by simp [hd])
    have hl' : sts.length = shs.length := by simpa using hl
    have hP := prod_pos shs hp'
    simp only [prod] at hk
    have hq0 : 0 ≤ k / sh := Int.ediv_nonneg hk0 (Int.le_of_lt hs)
    have hq : k / sh < prod shs := Int.ediv_lt_of_lt_mul hs (by rw [Int.mul_comm]; exact hk)
    have hdm := Int.emod_add_mul_ediv k sh
    have hr0 := Int.emod_nonneg k (Int.ne_of_gt hs)
    have hr1 := Int.emod_lt_of_pos k hs
    simp only [digits, ndPrevLoop, prod]
    by_cases hc : k % sh - 1 < 0
    · have hr : k % sh = 0 := by omega
      have ih := ndPrevLoop_digits shs sts hl' hp' (k / sh) (ni + (sh - 1) * st) hq0 hq
      have hkq : k = sh * (k / sh) := by omega
      have hk0q : k = 0 ↔ k / sh = 0 := by
        constructor
        · intro h0; rw [h0]; simp
        · intro h0; rw [hkq, h0]; simp
      have key : predIdx (sh * prod shs) k / sh = predIdx (prod shs) (k / sh) ∧
          predIdx (sh * prod shs) k % sh = sh - 1 := by
        rw [Int.ediv_emod_unique hs]
        refine ⟨?_, by omega, by omega⟩
        unfold predIdx
        by_cases h0 : k / sh = 0
        · have hk00 : k = 0 := hk0q.2 h0
          rw [if_pos h0, if_pos hk00, Int.mul_sub]; omega
        · have hk00 : ¬ k = 0 := fun h => h0 (hk0q.1 h)
          rw [if_neg h0, if_neg hk00, Int.mul_sub]; omega
      simp only [hc, if_true, ih, key.1, key.2, dot]
      refine Prod.ext rfl (Prod.ext ?_ ?_)
      · simp only [hr]; omega
      · simp only [List.isEmpty_cons, Bool.not_false, Bool.true_and]
        cases shs with
        | nil =>
          simp only [prod] at hq
          have : k / sh = 0 := by omega
          simp [digits, hk0q.2 this]
        | cons a as =>
          simp only [digits, List.isEmpty_cons, Bool.not_false, Bool.true_and, if_false,
            Bool.false_eq_true]
          by_cases h0 : k / sh = 0
          · simp [hk0q.2 h0]
          · have hk00 : ¬ k = 0 := fun h => h0 (hk0q.1 h)
            simp [h0, hk00]
    · have hk00 : ¬ k = 0 := by intro h0; rw [h0] at hc; simp at hc
      have key : (k - 1) / sh = k / sh ∧ (k - 1) % sh = k % sh - 1 := by
        rw [Int.ediv_emod_unique hs]
        refine ⟨by omega, by omega, by omega⟩
      simp only [hc, if_false, predIdx, hk00, key.1, key.2, dot, decide_false, Bool.and_false]
      refine Prod.ext rfl (Prod.ext ?_ rfl)
      simp only [Int.sub_mul]; omega

/-! ### coordinates by index -/

theorem digits_append : ∀ (a b : List Int), (∀ d ∈ a, 0 < d) → ∀ k,
    digits (a ++ b) k = digits a k ++ digits b (k / prod a)
  | [], b, _, k => by simp [digits, prod]
  | sh :: shs, b, h, k => by
    have hs : 0 < sh := h sh (by simp)
    have ih := digits_append shs b (fun d hd => h d (by simp [hd])) (k / sh)
    have : k / sh / prod shs = k / (sh * prod shs) := by
      rw [Int.ediv_ediv, if_neg (by omega)]; simp
    simp only [List.cons_append, digits, prod, ih, this]

theorem digits_add_mul : ∀ (rsh : List Int), (∀ d ∈ rsh, 0 < d) → ∀ k m,
    digits rsh (k + prod rsh * m) = digits rsh k
  | [], _, _, _ => rfl
  | sh :: shs, h, k, m => by
    have hs : 0 < sh := h sh (by simp)
    have ih := digits_add_mul shs (fun d hd => h d (by simp [hd])) (k / sh) m
    simp only [digits, prod]
    rw [Int.mul_assoc, Int.add_mul_emod_self_left, Int.add_mul_ediv_left _ _ (Int.ne_of_gt hs), ih]

/-- the `k`-th coordinate of `shape` in row-major order -/
def coordAt (shape : List Int) (k : Int) : List Int := (digits shape.reverse k).reverse

@[simp] theorem coordAt_length (shape : List Int) (k : Int) : (coordAt shape k).length = shape.length := by
  simp [coordAt]

theorem coordAt_zero (shape : List Int) : coordAt shape 0 = shape.map (fun _ => 0) := by
  simp [coordAt, digits_zero]

theorem coordAt_cons (d : Int) (ds : List Int) (_hd : 0 < d) (hp : ∀ x ∈ ds, 0 < x) (i j : Int)
    (hi0 : 0 ≤ i) (hi : i < d) (hj0 : 0 ≤ j) (hj : j < prod ds) :
    coordAt (d :: ds) (i * prod ds + j) = i :: coordAt ds j := by
  have hp' : ∀ x ∈ ds.reverse, 0 < x := fun x hx => hp x (by simpa using hx)
  have e : i * prod ds + j = j + prod ds.reverse * i := by
    rw [prod_reverse, Int.mul_comm]; omega
  have hP : 0 < prod ds := prod_pos ds hp
  simp only [coordAt, List.reverse_cons]
  rw [digits_append _ _ hp', e, digits_add_mul _ hp', prod_reverse,
    Int.add_mul_ediv_left _ _ (Int.ne_of_gt hP), Int.ediv_eq_zero_of_lt hj0 hj]
  simp [digits, Int.emod_eq_of_lt hi0 hi]

theorem flatMap_congr' {α β} {l : List α} {f g : α → List β} (h : ∀ a ∈ l, f a = g a) :
    l.flatMap f = l.flatMap g := by
  induction l with
  | nil => rfl
  | cons x xs ih =>
    simp only [List.flatMap_cons]
    rw [h x (by simp), ih (fun a ha => h a (by simp [ha]))]

theorem range_mul_map {α} (f : Nat → α) (a b : Nat) :
    (List.range (a * b)).map f =
      (List.range a).flatMap (fun i => (List.range b).map (fun j => f (i * b + j))) := by
  induction a with
  | zero => simp
  | succ a ih =>
    rw [Nat.succ_mul, List.range_add, List.map_append, ih, List.range_succ, List.flatMap_append]
    simp

theorem allCoords_eq : ∀ (shape : List Int), (∀ d ∈ shape, 0 < d) →
    allCoords shape = (List.range (prod shape).toNat).map (fun (k : Nat) => coordAt shape (k : Int))
  | [], _ => by simp [allCoords, prod, coordAt, digits]
  | d :: ds, h => by
    have hd : 0 < d := h d (by simp)
    have hp : ∀ x ∈ ds, 0 < x := fun x hx => h x (by simp [hx])
    have hP : 0 < prod ds := prod_pos ds hp
    have ih := allCoords_eq ds hp
    simp only [allCoords, prod, rangeI]
    rw [Int.toNat_mul (Int.le_of_lt hd) (Int.le_of_lt hP), range_mul_map, ih, List.flatMap_map]
    apply flatMap_congr'
    intro i hi
    rw [List.map_map]
    apply List.map_congr_left
    intro j hj
    simp only [List.mem_range] at hi hj
    have e : ((i * (prod ds).toNat + j : Nat) : Int) = (i : Int) * prod ds + (j : Int) := by
      rw [Int.natCast_add, Int.natCast_mul, Int.toNat_of_nonneg (Int.le_of_lt hP)]
    simp only [Function.comp]
    rw [e, coordAt_cons d ds hd hp i j (by omega) (by omega) (by omega) (by omega)]
    rfl

theorem allCoords_length (shape : List Int) (h : ∀ d ∈ shape, 0 < d) :
    (allCoords shape).length = (prod shape).toNat := by
  rw [allCoords_eq shape h]; simp

/-! ### running a sequence of states -/

theorem run_seq (s : Nat → FlatIt) (o : Nat → Int) (n : Nat)
    (hstep : ∀ k, k < n → (s k).next = (s (k + 1), some (o k)))
    (hend : (s n).next = (s n, none)) :
    ∀ m j, j + m = n → ∀ e, FlatIt.run (m + e + 1) (s j) = ((List.range' j m).map o, s n)
  | 0, j, h, e => by
    have : j = n := by omega
    subst this
    simp [FlatIt.run, hend]
  | m + 1, j, h, e => by
    have ih := run_seq s o n hstep hend m (j + 1) (by omega) e
    have e1 : m + 1 + e + 1 = (m + e + 1) + 1 := by omega
    rw [e1, FlatIt.run, hstep j (by omega)]
    simp [ih, List.range'_succ]

theorem run_seq_partial (s : Nat → FlatIt) (o : Nat → Int) (n : Nat)
    (hstep : ∀ k, k < n → (s k).next = (s (k + 1), some (o k))) :
    ∀ m j, j + m ≤ n → FlatIt.run m (s j) = ((List.range' j m).map o, s (j + m))
  | 0, j, _ => by simp [FlatIt.run]
  | m + 1, j, h => by
    have ih := run_seq_partial s o n hstep m (j + 1) (by omega)
    rw [FlatIt.run, hstep j (by omega)]
    simp only [ih, List.range'_succ, List.map_cons]
    congr 2; omega

theorem run_seq_full (s : Nat → FlatIt) (o : Nat → Int) (n : Nat)
    (hstep : ∀ k, k < n → (s k).next = (s (k + 1), some (o k)))
    (hend : (s n).next = (s n, none)) :
    FlatIt.run (n + 1) (s 0) = ((List.range n).map o, s n) := by
  have := run_seq s o n hstep hend n 0 (by omega) 0
  simpa [List.range_eq_range'] using this

/-! ### the odometer path of `FlatIt` -/

theorem dot_zeros : ∀ (l s : List Int), dot (l.map (fun _ => (0 : Int))) s = 0
  | [], _ => by simp [dot]
  | _ :: xs, [] => by simp [dot]
  | _ :: xs, _ :: ss => by simp [dot, dot_zeros xs ss]

theorem dot_coordAt (shape strides : List Int) (hl : strides.length = shape.length) (k : Int) :
    dot (digits shape.reverse k) strides.reverse = dot (coordAt shape k) strides := by
  have := dot_reverse (digits shape.reverse k) strides.reverse (by simp [hl])
  rw [List.reverse_reverse] at this
  exact this.symm

theorem shape_ne_nil_of_not_veclike (ap : AP) (hl : ap.strides.length = ap.shape.length)
    (hnv : ap.isVectorLike = false) : ap.shape ≠ [] := by
  intro h
  have hs : ap.strides = [] := by
    rw [h] at hl; exact List.eq_nil_of_length_eq_zero hl
  simp [AP.isVectorLike, isVectorLike, allOnes, h, hs] at hnv

/-- state of the forward odometer after `k` steps -/
def ndSt (ap : AP) (k : Nat) : FlatIt :=
  { FlatIt.new ap with
    track := coordAt ap.shape k
    nextIndex := dot (coordAt ap.shape k) ap.strides
    lastIndex := match k with
      | 0 => 0
      | j + 1 => dot (coordAt ap.shape (j : Nat)) ap.strides
    done := decide (k = (prod ap.shape).toNat) }

theorem ndSt_zero (ap : AP) (hp : ∀ d ∈ ap.shape, 0 < d) : ndSt ap 0 = FlatIt.new ap := by
  have := prod_pos ap.shape hp
  have h0 : ¬ (0 = (prod ap.shape).toNat) := by omega
  simp [ndSt, FlatIt.new, coordAt_zero, dot_zeros, h0]

theorem ndSt_next (ap : AP) (hl : ap.strides.length = ap.shape.length) (hp : ∀ d ∈ ap.shape, 0 < d)
    (hnv : ap.isVectorLike = false) (k : Nat) (hk : k < (prod ap.shape).toNat) :
    (ndSt ap k).next = (ndSt ap (k + 1), some (dot (coordAt ap.shape k) ap.strides)) := by
  have hne := shape_ne_nil_of_not_veclike ap hl hnv
  have hloop := ndNextLoop_digits ap.shape.reverse ap.strides.reverse (by simp [hl])
    (fun d hd => hp d (by simpa using hd)) (k : Int) (dot (coordAt ap.shape k) ap.strides)
    (by omega) (by rw [prod_reverse]; omega)
  simp only [dot_coordAt _ _ hl, prod_reverse] at hloop
  have hkn : ¬ (k = (prod ap.shape).toNat) := by omega
  have hdone : (!ap.shape.reverse.isEmpty && decide ((k : Int) + 1 = prod ap.shape)) =
      decide (k + 1 = (prod ap.shape).toNat) := by
    have : ap.shape.reverse.isEmpty = false := by simp [hne]
    rw [this]
    have : ((k : Int) + 1 = prod ap.shape) ↔ (k + 1 = (prod ap.shape).toNat) := by omega
    simp [this]
  simp only [FlatIt.next, ndSt, FlatIt.new, hkn, decide_false, Bool.false_eq_true, if_false, hnv,
    isScalar, List.isEmpty_iff, hne, coordAt, List.reverse_reverse]
  simp only [coordAt] at hloop
  rw [hloop, hdone]
  simp only [Prod.mk.injEq, and_true]
  congr 1
  push_cast; omega

theorem ndSt_end (ap : AP) : (ndSt ap (prod ap.shape).toNat).next = (ndSt ap (prod ap.shape).toNat, none) := by
  simp [FlatIt.next, ndSt]

theorem nd_run_full (ap : AP) (hl : ap.strides.length = ap.shape.length) (hp : ∀ d ∈ ap.shape, 0 < d)
    (hnv : ap.isVectorLike = false) :
    FlatIt.run ((prod ap.shape).toNat + 1) (FlatIt.new ap) =
      ((List.range (prod ap.shape).toNat).map (fun (k : Nat) => dot (coordAt ap.shape k) ap.strides),
        ndSt ap (prod ap.shape).toNat) := by
  rw [← ndSt_zero ap hp]
  exact run_seq_full (ndSt ap) _ _ (ndSt_next ap hl hp hnv) (ndSt_end ap)

theorem nd_run_partial (ap : AP) (hl : ap.strides.length = ap.shape.length) (hp : ∀ d ∈ ap.shape, 0 < d)
    (hnv : ap.isVectorLike = false) (k : Nat) (hk : k ≤ (prod ap.shape).toNat) :
    FlatIt.run k (FlatIt.new ap) =
      ((List.range k).map (fun (k : Nat) => dot (coordAt ap.shape k) ap.strides), ndSt ap k) := by
  rw [← ndSt_zero ap hp]
  have := run_seq_partial (ndSt ap) _ _ (ndSt_next ap hl hp hnv) k 0 (by omega)
  simpa [List.range_eq_range'] using this

theorem spec_eq (shape strides : List Int) (hp : ∀ d ∈ shape, 0 < d) :
    (allCoords shape).map (fun c => dot c strides) =
      (List.range (prod shape).toNat).map (fun (k : Nat) => dot (coordAt shape k) strides) := by
  rw [allCoords_eq shape hp, List.map_map]; rfl

/-! ### reverse odometer -/

theorem digits_pred_prod : ∀ (rsh : List Int), (∀ d ∈ rsh, 0 < d) →
    digits rsh (prod rsh - 1) = rsh.map (· - 1)
  | [], _ => rfl
  | sh :: shs, h => by
    have hs : 0 < sh := h sh (by simp)
    have hp' : ∀ d ∈ shs, 0 < d := fun d hd => h d (by simp [hd])
    have ih := digits_pred_prod shs hp'
    have key : (sh * prod shs - 1) / sh = prod shs - 1 ∧ (sh * prod shs - 1) % sh = sh - 1 := by
      rw [Int.ediv_emod_unique hs]
      refine ⟨?_, by omega, by omega⟩
      rw [Int.mul_sub]; omega
    simp only [digits, prod, List.map_cons, key.1, key.2, ih]

theorem coordAt_last (shape : List Int) (hp : ∀ d ∈ shape, 0 < d) :
    coordAt shape (prod shape - 1) = shape.map (· - 1) := by
  unfold coordAt
  rw [← prod_reverse shape, digits_pred_prod _ (fun d hd => hp d (by simpa using hd))]
  simp

/-- index visited at step `k` of the reverse run over `n` elements -/
def revIdx (n k : Nat) : Int := if k = n then (n : Int) - 1 else (n : Int) - 1 - k

/-- state of the reverse odometer after `k` steps -/
def ndRevSt (ap : AP) (k : Nat) : FlatIt :=
  { FlatIt.new ap with
    reverse := true
    track := coordAt ap.shape (revIdx (prod ap.shape).toNat k)
    nextIndex := dot (coordAt ap.shape (revIdx (prod ap.shape).toNat k)) ap.strides
    lastIndex := match k with
      | 0 => 0
      | j + 1 => dot (coordAt ap.shape (revIdx (prod ap.shape).toNat j)) ap.strides
    done := decide (k = (prod ap.shape).toNat) }

theorem ndRevSt_zero (ap : AP) (hl : ap.strides.length = ap.shape.length) (hp : ∀ d ∈ ap.shape, 0 < d)
    (hnv : ap.isVectorLike = false) : (FlatIt.new ap).setReverse = .ok (ndRevSt ap 0) := by
  have hne := shape_ne_nil_of_not_veclike ap hl hnv
  have hP := prod_pos ap.shape hp
  have h0 : ¬ (0 = (prod ap.shape).toNat) := by omega
  have hi : revIdx (prod ap.shape).toNat 0 = prod ap.shape - 1 := by
    unfold revIdx; rw [if_neg h0]; omega
  have hlt : ¬ (ap.strides.length < ap.shape.length) := by omega
  simp [FlatIt.setReverse, FlatIt.reset, FlatIt.new, ndRevSt, hnv, isScalar, hne, hlt, hi,
    coordAt_last ap.shape hp, h0]

theorem ndRevSt_next (ap : AP) (hl : ap.strides.length = ap.shape.length) (hp : ∀ d ∈ ap.shape, 0 < d)
    (hnv : ap.isVectorLike = false) (k : Nat) (hk : k < (prod ap.shape).toNat) :
    (ndRevSt ap k).next = (ndRevSt ap (k + 1),
      some (dot (coordAt ap.shape ((prod ap.shape).toNat - 1 - k : Nat)) ap.strides)) := by
  have hne := shape_ne_nil_of_not_veclike ap hl hnv
  have hkn : ¬ (k = (prod ap.shape).toNat) := by omega
  have hc : revIdx (prod ap.shape).toNat k = (((prod ap.shape).toNat - 1 - k : Nat) : Int) := by
    unfold revIdx; rw [if_neg hkn]; omega
  have hloop := ndPrevLoop_digits ap.shape.reverse ap.strides.reverse (by simp [hl])
    (fun d hd => hp d (by simpa using hd)) (revIdx (prod ap.shape).toNat k)
    (dot (coordAt ap.shape (revIdx (prod ap.shape).toNat k)) ap.strides)
    (by rw [hc]; omega) (by rw [prod_reverse, hc]; omega)
  simp only [dot_coordAt _ _ hl, prod_reverse] at hloop
  have hpi : predIdx (prod ap.shape) (revIdx (prod ap.shape).toNat k) =
      revIdx (prod ap.shape).toNat (k + 1) := by
    unfold predIdx revIdx
    rw [if_neg hkn]
    by_cases h1 : k + 1 = (prod ap.shape).toNat
    · rw [if_pos h1, if_pos (by omega)]; omega
    · rw [if_neg h1, if_neg (by omega)]; omega
  have hdone : (!ap.shape.reverse.isEmpty && decide (revIdx (prod ap.shape).toNat k = 0)) =
      decide (k + 1 = (prod ap.shape).toNat) := by
    have : ap.shape.reverse.isEmpty = false := by simp [hne]
    rw [this, hc]
    have : ((((prod ap.shape).toNat - 1 - k : Nat) : Int) = 0) ↔ (k + 1 = (prod ap.shape).toNat) := by
      omega
    simp only [this, Bool.not_false, Bool.true_and]
  rw [hpi, hdone] at hloop
  rw [← hc]
  simp only [FlatIt.next, ndRevSt, FlatIt.new, hkn, decide_false, Bool.false_eq_true, if_false, hnv,
    isScalar, List.isEmpty_iff, hne, coordAt, List.reverse_reverse, if_true]
  simp only [coordAt] at hloop
  rw [hloop]
  simp only [Prod.mk.injEq, and_true]
  congr 1
  omega

theorem ndRevSt_end (ap : AP) :
    (ndRevSt ap (prod ap.shape).toNat).next = (ndRevSt ap (prod ap.shape).toNat, none) := by
  simp [FlatIt.next, ndRevSt]

theorem range_map_rev {α} (f : Nat → α) (n : Nat) :
    (List.range n).map (fun k => f (n - 1 - k)) = ((List.range n).map f).reverse := by
  apply List.ext_getElem
  · simp
  · intro i h1 h2
    simp at h1
    simp [List.getElem_reverse]

theorem nd_rev_run_full (ap : AP) (hl : ap.strides.length = ap.shape.length) (hp : ∀ d ∈ ap.shape, 0 < d)
    (hnv : ap.isVectorLike = false) :
    FlatIt.run ((prod ap.shape).toNat + 1) (ndRevSt ap 0) =
      (((List.range (prod ap.shape).toNat).map
          (fun (k : Nat) => dot (coordAt ap.shape k) ap.strides)).reverse,
        ndRevSt ap (prod ap.shape).toNat) := by
  rw [← range_map_rev]
  exact run_seq_full (ndRevSt ap) _ _ (ndRevSt_next ap hl hp hnv) (ndRevSt_end ap)

/-! ### vector-like shapes: spec side -/

theorem prod_ones : ∀ (l : List Int), (∀ x ∈ l, x = 1) → prod l = 1
  | [], _ => rfl
  | x :: xs, h => by
    simp [prod, h x (by simp), prod_ones xs (fun y hy => h y (by simp [hy]))]

theorem allCoords_ones : ∀ (l : List Int), (∀ x ∈ l, x = 1) → allCoords l = [l.map (fun _ => 0)]
  | [], _ => rfl
  | x :: xs, h => by
    simp [allCoords, h x (by simp), allCoords_ones xs (fun y hy => h y (by simp [hy])), rangeI]

/-- for a vector-like shape: either the head is 1 and the tail is vector-like, or the tail is all ones -/
theorem isVectorLike_cons (d : Int) (ds : List Int) (h : isVectorLike (d :: ds) = true) :
    (d = 1 ∧ isVectorLike ds = true) ∨ (d ≠ 1 ∧ ∀ x ∈ ds, x = 1) := by
  unfold isVectorLike at h ⊢
  by_cases hd : d = 1
  · left
    refine ⟨hd, ?_⟩
    simpa [hd] using h
  · right
    refine ⟨hd, ?_⟩
    have hf : (d :: ds).filter (· != 1) = d :: ds.filter (· != 1) := by simp [hd]
    rw [hf] at h
    have : ds.filter (· != 1) = [] := by
      apply List.eq_nil_of_length_eq_zero
      simp only [List.length_cons, decide_eq_true_eq] at h; omega
    intro x hx
    have := (List.filter_eq_nil_iff.1 this) x hx
    simpa using this

theorem veclike_spec : ∀ (shape strides : List Int), strides.length = shape.length →
    (∀ d ∈ shape, 0 < d) → isVectorLike shape = true → allOnes strides = true →
    (allCoords shape).map (fun c => dot c strides) = rangeI (prod shape).toNat
  | [], _, _, _, _, _ => by simp [allCoords, dot, prod, rangeI, List.range_succ]
  | d :: ds, [], hl, _, _, _ => by simp at hl
  | d :: ds, st :: sts, hl, hp, hv, ho => by
    have hl' : sts.length = ds.length := by simpa using hl
    have hp' : ∀ x ∈ ds, 0 < x := fun x hx => hp x (by simp [hx])
    have hst : st = 1 := by
      have := ho; simp [allOnes] at this; exact this.1
    have ho' : allOnes sts = true := by
      have := ho; simp [allOnes] at this; simpa [allOnes] using this.2
    subst hst
    rcases isVectorLike_cons d ds hv with ⟨hd, hv'⟩ | ⟨hd, hones⟩
    · subst hd
      have ih := veclike_spec ds sts hl' hp' hv' ho'
      simp only [allCoords, rangeI, prod, Int.one_mul]
      simp only [Int.toNat_one, List.range_one, List.map_cons, List.map_nil, List.flatMap_cons,
        List.flatMap_nil, List.append_nil, List.map_map]
      simp only [rangeI] at ih
      rw [← ih]
      apply List.map_congr_left
      intro c _
      simp [dot]
    · simp only [allCoords, allCoords_ones ds hones, prod, prod_ones ds hones, Int.mul_one, rangeI]
      simp only [List.flatMap_map, List.map_cons, List.map_nil, List.map_flatMap, dot, dot_zeros,
        Int.mul_one, Int.add_zero]
      generalize List.range d.toNat = l
      induction l with
      | nil => rfl
      | cons a as ih =>
        simp only [List.flatMap_cons, List.map_cons, ih]; rfl

/-! ### vector-like fast path -/

/-- the `veclikeDim` of a vector-like shape -/
def vdim (shape : List Int) : Nat := (shape.findIdx? (· != 1)).getD 0

theorem vdim_lt (shape : List Int) (hne : shape ≠ []) : vdim shape < shape.length := by
  unfold vdim
  cases h : shape.findIdx? (· != 1) with
  | none => simpa using List.length_pos_iff.2 hne
  | some i => simpa using (List.findIdx?_eq_some_iff_findIdx_eq.1 h).1

theorem set_same {α} : ∀ (l : List α) (i : Nat) (a : α), l[i]? = some a → l.set i a = l
  | [], _, _, h => by simp at h
  | x :: xs, 0, a, h => by simp at h; simp [h]
  | x :: xs, i + 1, a, h => by
    simp at h; simp [set_same xs i a h]

/-- state of the forward vector path after `k` steps -/
def vecSt (ap : AP) (k : Nat) : FlatIt :=
  { FlatIt.new ap with
    track := (ap.shape.map (fun _ => (0 : Int))).set (vdim ap.shape) (k : Int)
    nextIndex := (k : Int)
    lastIndex := match k with
      | 0 => 0
      | j + 1 => (j : Int)
    done := decide (prod ap.shape ≤ (k : Int)) }

theorem vecSt_zero (ap : AP) (hp : ∀ d ∈ ap.shape, 0 < d) (hne : ap.shape ≠ []) :
    vecSt ap 0 = FlatIt.new ap := by
  have hP := prod_pos ap.shape hp
  have h0 : ¬ (prod ap.shape ≤ 0) := by omega
  have hs : (ap.shape.map (fun _ => (0 : Int))).set (vdim ap.shape) 0 = ap.shape.map (fun _ => (0 : Int)) := by
    apply set_same
    have := vdim_lt ap.shape hne
    simp [this]
  simp [vecSt, FlatIt.new, h0, hs]

theorem vecSt_next (ap : AP) (hv : ap.isVectorLike = true) (hne : ap.shape ≠ [])
    (k : Nat) (hk : k < (prod ap.shape).toNat) :
    (vecSt ap k).next = (vecSt ap (k + 1), some (k : Int)) := by
  have hlt := vdim_lt ap.shape hne
  have hkn : ¬ (prod ap.shape ≤ (k : Int)) := by omega
  have hget : ((ap.shape.map (fun _ => (0 : Int))).set (vdim ap.shape) (k : Int))[vdim ap.shape]? =
      some (k : Int) := List.getElem?_set_self (by simpa using hlt)
  have hd : (ap.shape.findIdx? (· != 1)).getD 0 = vdim ap.shape := rfl
  simp only [FlatIt.next, vecSt, FlatIt.new, hkn, decide_false, Bool.false_eq_true, if_false, hv,
    isScalar, List.isEmpty_iff, hne, if_true, hd, hget, Option.getD_some, List.set_set, totalSize]
  simp only [Prod.mk.injEq, and_true]
  congr 1

theorem vecSt_end (ap : AP) :
    (vecSt ap (prod ap.shape).toNat).next = (vecSt ap (prod ap.shape).toNat, none) := by
  have : prod ap.shape ≤ ((prod ap.shape).toNat : Int) := by omega
  simp only [FlatIt.next, vecSt, this, decide_true, if_true]

theorem vec_run_full (ap : AP) (hp : ∀ d ∈ ap.shape, 0 < d)
    (hv : ap.isVectorLike = true) (hne : ap.shape ≠ []) :
    FlatIt.run ((prod ap.shape).toNat + 1) (FlatIt.new ap) =
      (rangeI (prod ap.shape).toNat, vecSt ap (prod ap.shape).toNat) := by
  rw [← vecSt_zero ap hp hne]
  exact run_seq_full (vecSt ap) _ _ (vecSt_next ap hv hne) (vecSt_end ap)

theorem vdim_get : ∀ (shape : List Int), isVectorLike shape = true → shape ≠ [] →
    shape[vdim shape]? = some (prod shape)
  | [], _, h => absurd rfl h
  | d :: ds, hv, _ => by
    rcases isVectorLike_cons d ds hv with ⟨hd, hv'⟩ | ⟨hd, hones⟩
    · subst hd
      cases hf : ds.findIdx? (· != 1) with
      | none =>
        have hones : ∀ x ∈ ds, x = 1 := by
          intro x hx
          have := (List.findIdx?_eq_none_iff.1 hf) x hx
          simpa using this
        simp [vdim, List.findIdx?_cons, hf, prod, prod_ones ds hones]
      | some i =>
        have hne : ds ≠ [] := by
          intro h; rw [h] at hf; simp at hf
        have ih := vdim_get ds hv' hne
        have hi : vdim ds = i := by simp [vdim, hf]
        rw [hi] at ih
        simp [vdim, List.findIdx?_cons, hf, prod, ih]
    · simp [vdim, List.findIdx?_cons, hd, prod, prod_ones ds hones]

theorem allOnes_get (strides : List Int) (ho : allOnes strides = true) (i : Nat) (hi : i < strides.length) :
    strides[i]? = some 1 := by
  rw [List.getElem?_eq_getElem hi]
  have := (List.all_eq_true.1 ho) strides[i] (List.getElem_mem hi)
  simp at this
  rw [this]

/-- state of the reverse vector path after `k` steps -/
def vecRevSt (ap : AP) (k : Nat) : FlatIt :=
  { FlatIt.new ap with
    reverse := true
    track := (ap.shape.map (· - 1)).set (vdim ap.shape) (prod ap.shape - 1 - (k : Int))
    nextIndex := prod ap.shape - 1 - (k : Int)
    lastIndex := match k with
      | 0 => 0
      | j + 1 => prod ap.shape - 1 - (j : Int)
    done := decide (prod ap.shape - 1 - (k : Int) < 0) }

theorem vecRevSt_zero (ap : AP) (hl : ap.strides.length = ap.shape.length) (hp : ∀ d ∈ ap.shape, 0 < d)
    (hv : ap.isVectorLike = true) (hne : ap.shape ≠ []) :
    (FlatIt.new ap).setReverse = .ok (vecRevSt ap 0) := by
  have hP := prod_pos ap.shape hp
  have hvl : isVectorLike ap.shape = true := by
    simp [AP.isVectorLike] at hv; exact hv.1
  have ho : allOnes ap.strides = true := by
    simp [AP.isVectorLike] at hv; exact hv.2
  have hlt := vdim_lt ap.shape hne
  have hg1 := vdim_get ap.shape hvl hne
  have hg2 := allOnes_get ap.strides ho (vdim ap.shape) (by omega)
  have hd : (ap.shape.findIdx? (· != 1)).getD 0 = vdim ap.shape := rfl
  have h0 : ¬ (prod ap.shape - 1 < 0) := by omega
  have hs : (ap.shape.map (· - 1)).set (vdim ap.shape) (prod ap.shape - 1) = ap.shape.map (· - 1) := by
    apply set_same
    simp [hg1]
  simp only [FlatIt.setReverse, FlatIt.reset, FlatIt.new, vecRevSt, hv, if_true, isScalar,
    List.isEmpty_iff, hne, if_false, hd, hg1, hg2, Int.natCast_zero, Int.sub_zero,
    hs, h0, decide_false, Int.mul_one]

theorem vecRevSt_next (ap : AP) (hv : ap.isVectorLike = true) (hne : ap.shape ≠ [])
    (k : Nat) (hk : k < (prod ap.shape).toNat) :
    (vecRevSt ap k).next = (vecRevSt ap (k + 1), some (prod ap.shape - 1 - (k : Int))) := by
  have hlt := vdim_lt ap.shape hne
  have hkn : ¬ (prod ap.shape - 1 - (k : Int) < 0) := by omega
  have hget : ((ap.shape.map (· - 1)).set (vdim ap.shape) (prod ap.shape - 1 - (k : Int)))[vdim ap.shape]? =
      some (prod ap.shape - 1 - (k : Int)) := List.getElem?_set_self (by simpa using hlt)
  have hd : (ap.shape.findIdx? (· != 1)).getD 0 = vdim ap.shape := rfl
  simp only [FlatIt.next, vecRevSt, FlatIt.new, hkn, decide_false, Bool.false_eq_true, if_false, hv,
    isScalar, List.isEmpty_iff, hne, if_true, hd, hget, Option.getD_some, List.set_set]
  simp only [Prod.mk.injEq, and_true]
  have e : prod ap.shape - 1 - (k : Int) - 1 = prod ap.shape - 1 - ((k + 1 : Nat) : Int) := by
    push_cast; omega
  rw [e]

theorem vecRevSt_end (ap : AP) :
    (vecRevSt ap (prod ap.shape).toNat).next = (vecRevSt ap (prod ap.shape).toNat, none) := by
  have : prod ap.shape - 1 - ((prod ap.shape).toNat : Int) < 0 := by omega
  simp only [FlatIt.next, vecRevSt, this, decide_true, if_true]

theorem vec_rev_run_full (ap : AP) (hv : ap.isVectorLike = true) (hne : ap.shape ≠ []) :
    FlatIt.run ((prod ap.shape).toNat + 1) (vecRevSt ap 0) =
      ((rangeI (prod ap.shape).toNat).reverse, vecRevSt ap (prod ap.shape).toNat) := by
  have h := run_seq_full (vecRevSt ap) _ _ (vecRevSt_next ap hv hne) (vecRevSt_end ap)
  rw [h]
  congr 1
  unfold rangeI
  rw [← range_map_rev]
  apply List.map_congr_left
  intro k hk
  simp only [List.mem_range] at hk
  show prod ap.shape - 1 - (k : Int) = (((prod ap.shape).toNat - 1 - k : Nat) : Int)
  omega

/-! ### configuration fields and `lastIndex` independence (for `Reset`) -/

/-- the fields of an iterator that `Next` never changes -/
def cfgEq (a b : FlatIt) : Prop :=
  a.shape = b.shape ∧ a.strides = b.strides ∧ a.size = b.size ∧ a.veclikeDim = b.veclikeDim ∧
    a.reverse = b.reverse ∧ a.isScalar = b.isScalar ∧ a.isVector = b.isVector

theorem next_cfg (it : FlatIt) : cfgEq it.next.1 it := by
  by_cases h1 : it.done = true
  · simp [FlatIt.next, h1, cfgEq]
  by_cases h2 : it.isScalar = true
  · simp [FlatIt.next, h1, h2, cfgEq]
  by_cases h3 : it.isVector = true <;> by_cases h4 : it.reverse = true <;>
    simp [FlatIt.next, h1, h2, h3, h4, cfgEq]

theorem run_cfg : ∀ (fuel : Nat) (it : FlatIt), cfgEq (FlatIt.run fuel it).2 it
  | 0, it => by simp [FlatIt.run, cfgEq]
  | fuel + 1, it => by
    have hn := next_cfg it
    cases h : it.next with
    | mk it' o =>
      rw [h] at hn
      cases o with
      | none => simpa [FlatIt.run, h] using hn
      | some i =>
        have ih := run_cfg fuel it'
        simp only [FlatIt.run, h]
        unfold cfgEq at *
        simp only at hn
        refine ⟨ih.1.trans hn.1, ih.2.1.trans hn.2.1, ih.2.2.1.trans hn.2.2.1,
          ih.2.2.2.1.trans hn.2.2.2.1, ih.2.2.2.2.1.trans hn.2.2.2.2.1,
          ih.2.2.2.2.2.1.trans hn.2.2.2.2.2.1, ih.2.2.2.2.2.2.trans hn.2.2.2.2.2.2⟩

theorem next_li (b : FlatIt) (x : Int) :
    ∃ y, ({ b with lastIndex := x }).next = ({ b.next.1 with lastIndex := y }, b.next.2) := by
  by_cases h1 : b.done = true
  · exact ⟨x, by simp [FlatIt.next, h1]⟩
  by_cases h2 : b.isScalar = true
  · exact ⟨x, by simp [FlatIt.next, h1, h2]⟩
  refine ⟨b.nextIndex, ?_⟩
  by_cases h3 : b.isVector = true <;> by_cases h4 : b.reverse = true <;>
    simp [FlatIt.next, h1, h2, h3, h4]

theorem run_li : ∀ (fuel : Nat) (b : FlatIt) (x : Int),
    (FlatIt.run fuel { b with lastIndex := x }).1 = (FlatIt.run fuel b).1
  | 0, _, _ => rfl
  | fuel + 1, b, x => by
    obtain ⟨y, hy⟩ := next_li b x
    cases hb : b.next with
    | mk b' o =>
      rw [hb] at hy
      cases o with
      | none => simp [FlatIt.run, hy, hb]
      | some i =>
        have ih := run_li fuel b' y
        simp only [FlatIt.run, hy, hb]
        rw [ih]

theorem reset_forward (ap : AP) (itk it : FlatIt) (hc : cfgEq itk (FlatIt.new ap))
    (h : itk.reset = .ok it) : it = { FlatIt.new ap with lastIndex := itk.lastIndex } := by
  obtain ⟨h1, h2, h3, h4, h5, h6, h7⟩ := hc
  have hr : itk.reverse = false := by rw [h5]; rfl
  simp only [FlatIt.reset, hr, Bool.false_eq_true, if_false, Except.ok.injEq] at h
  rw [← h]
  cases itk
  simp only [FlatIt.new] at *
  simp [h1, h2, h3, h4, h6, h7]

/-! ### scalar path and exhaustion -/

theorem scalar_run_full (ap : AP) (hs : ap.shape = []) :
    FlatIt.run ((totalSize ap.shape).toNat + 1) (FlatIt.new ap) =
      ([0], { FlatIt.new ap with done := true }) := by
  have e : (totalSize ap.shape).toNat + 1 = 1 + 1 := by simp [hs, totalSize, prod]
  rw [e]
  simp [FlatIt.run, FlatIt.next, FlatIt.new, hs, isScalar]

theorem run_final (ap : AP) (hl : ap.strides.length = ap.shape.length) (hp : ∀ d ∈ ap.shape, 0 < d) :
    (FlatIt.run ((totalSize ap.shape).toNat + 1) (FlatIt.new ap)).2.done = true ∧
    (FlatIt.run ((totalSize ap.shape).toNat + 1) (FlatIt.new ap)).2.next =
      ((FlatIt.run ((totalSize ap.shape).toNat + 1) (FlatIt.new ap)).2, none) := by
  by_cases hs : ap.shape = []
  · rw [scalar_run_full ap hs]
    simp [FlatIt.next]
  · by_cases hv : ap.isVectorLike = true
    · have h := vec_run_full ap hp hv hs
      simp only [totalSize]
      rw [h]
      refine ⟨?_, vecSt_end ap⟩
      have : prod ap.shape ≤ ((prod ap.shape).toNat : Int) := by omega
      simp only [vecSt, this, decide_true]
    · have hnv : ap.isVectorLike = false := by simpa using hv
      have h := nd_run_full ap hl hp hnv
      simp only [totalSize]
      rw [h]
      refine ⟨?_, ndSt_end ap⟩
      simp only [ndSt, decide_true]

theorem nd_track (ap : AP) (hl : ap.strides.length = ap.shape.length) (hp : ∀ d ∈ ap.shape, 0 < d)
    (hnv : ap.isVectorLike = false) (k : Nat) (hk : k < (allCoords ap.shape).length) :
    (FlatIt.run k (FlatIt.new ap)).2.track = (allCoords ap.shape)[k]! := by
  have hk' : k < (prod ap.shape).toNat := by rw [← allCoords_length ap.shape hp]; exact hk
  rw [nd_run_partial ap hl hp hnv k (by omega)]
  simp only [allCoords_eq ap.shape hp]
  simp [ndSt, hk']

end TM
