import TensorModel.Proofs.Kernels
/-! C06 — property theorems (see Proofs/Kernels.lean for the kernel-level lemmas). -/
namespace TM.C06
end TM.C06
